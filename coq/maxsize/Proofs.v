(* Proofs for the maxsize domain (C18), for the write paths as repaired by the fix commits
   ff7d2a8 (MKI counted in the overhead) and 5cb4d00 (error instead of a make() panic).
   The proofs about the code before the fixes are in history/. *)
From Coq Require Import ZArith NArith List Bool Lia.
From Coq Require Import ZifyBool ZifyNat ZifyN.
From GVL Require Import NList Wire.
From GVG Require Import Consts.
From GV_maxsize Require Import Model.
Import ListNotations.
Open Scope Z_scope.

(* ---------- obligations on the regenerated constants ---------- *)
(* the overhead the code subtracts covers what pion/srtp adds besides the MKI *)
Lemma overhead_covers_tag : srtp_tag <= srtp_overhead /\ srtcp_index + srtp_tag <= srtcp_overhead.
Proof. split; vm_compute; discriminate. Qed.

Lemma udp_max_fits_16 : udp_max < 65536.
Proof. vm_compute. reflexivity. Qed.

Lemma overheads_nonneg : 0 <= srtp_overhead /\ 0 <= srtcp_overhead.
Proof. split; vm_compute; discriminate. Qed.

(* ---------- wire_le_max: for every maximum, plain or SRTP, every MKI length, every size ---------- *)
Theorem wire_le_max_rtp max secure mki size w :
  write_rtp max secure mki size = WSent w -> w <= max.
Proof.
  pose proof overhead_covers_tag as [Ht _].
  unfold write_rtp, srtp_len. destruct secure.
  - destruct (Z.ltb_spec (max - (srtp_overhead + mki)) 0); [discriminate|].
    destruct (Z.ltb_spec (max - (srtp_overhead + mki)) size); [discriminate|].
    intros E; inversion E; subst. lia.
  - destruct (Z.ltb_spec max 0); [discriminate|].
    destruct (Z.ltb_spec max size); [discriminate|].
    intros E; inversion E; subst. lia.
Qed.

Theorem wire_le_max_rtcp max secure mki size w :
  write_rtcp max secure mki size = WSent w -> w <= max.
Proof.
  pose proof overhead_covers_tag as [_ Ht].
  unfold write_rtcp, srtcp_len. destruct secure.
  - destruct (Z.ltb_spec (max - (srtcp_overhead + mki)) size); [discriminate|].
    destruct (Z.ltb_spec max 0); [discriminate|].
    intros E; inversion E; subst. lia.
  - destruct (Z.ltb_spec max size); [discriminate|].
    intros E; inversion E; subst. lia.
Qed.

(* ---------- no panic, whatever the maximum (negative and tiny ones included) ---------- *)
Theorem write_rtp_no_panic max secure mki size : write_rtp max secure mki size <> WPanic.
Proof.
  unfold write_rtp. destruct secure;
    repeat match goal with |- context [Z.ltb ?a ?b] => destruct (Z.ltb a b) end; discriminate.
Qed.

(* size and mki are lengths *)
Theorem write_rtcp_no_panic max secure mki size :
  0 <= size -> 0 <= mki -> write_rtcp max secure mki size <> WPanic.
Proof.
  pose proof overheads_nonneg as [_ Ho]. intros Hs Hm. unfold write_rtcp. destruct secure.
  - destruct (Z.ltb_spec (max - (srtcp_overhead + mki)) size); [discriminate|].
    destruct (Z.ltb_spec max 0); [lia|discriminate].
  - destruct (Z.ltb_spec max size); discriminate.
Qed.

(* a refused write is the only alternative: every outcome is an error or a packet within the limit *)
Theorem write_outcomes max secure mki size :
  0 <= size -> 0 <= mki ->
  (write_rtp max secure mki size = WErr \/ exists w, write_rtp max secure mki size = WSent w /\ w <= max) /\
  (write_rtcp max secure mki size = WErr \/ exists w, write_rtcp max secure mki size = WSent w /\ w <= max).
Proof.
  intros Hs Hm. split.
  - destruct (write_rtp max secure mki size) eqn:E; [now left| |].
    + now apply write_rtp_no_panic in E.
    + right. exists wire. split; [reflexivity|]. now apply wire_le_max_rtp in E.
  - destruct (write_rtcp max secure mki size) eqn:E; [now left| |].
    + now apply write_rtcp_no_panic in E.
    + right. exists wire. split; [reflexivity|]. now apply wire_le_max_rtcp in E.
Qed.

(* ---------- frame_not_truncated ---------- *)
Theorem frame_not_truncated max w :
  0 <= w <= max -> max <= udp_max -> tcp_frame max w = Some (w, frame_header + w).
Proof.
  pose proof udp_max_fits_16 as H16.
  intros Hw Hmax. unfold tcp_frame, tcp_buffer_extra, frame_header in *.
  destruct (Z.ltb_spec (max + 4) 4); [lia|].
  rewrite Z.mod_small by lia. rewrite Z.min_l by lia. reflexivity.
Qed.

Theorem frame_not_truncated_rtp max secure mki size w :
  0 <= size -> 0 <= mki -> max <= udp_max -> write_rtp max secure mki size = WSent w ->
  tcp_frame max w = Some (w, frame_header + w).
Proof.
  intros Hs Hm Hmax E. pose proof (wire_le_max_rtp _ _ _ _ _ E) as Hle.
  apply frame_not_truncated; [|exact Hmax]. split; [|exact Hle].
  unfold write_rtp, srtp_len, srtp_tag in E. destruct secure;
    repeat match type of E with context [Z.ltb ?a ?b] => destruct (Z.ltb_spec a b); try discriminate end;
    inversion E; lia.
Qed.

Theorem frame_not_truncated_rtcp max secure mki size w :
  0 <= size -> 0 <= mki -> max <= udp_max -> write_rtcp max secure mki size = WSent w ->
  tcp_frame max w = Some (w, frame_header + w).
Proof.
  intros Hs Hm Hmax E. pose proof (wire_le_max_rtcp _ _ _ _ _ E) as Hle.
  apply frame_not_truncated; [|exact Hmax]. split; [|exact Hle].
  unfold write_rtcp, srtcp_len, srtp_tag, srtcp_index in E. destruct secure;
    repeat match type of E with context [Z.ltb ?a ?b] => destruct (Z.ltb_spec a b); try discriminate end;
    inversion E; lia.
Qed.

(* ---------- regression: what the code did before the fix commits ---------- *)
Lemma old_mki_oversize :
  write_rtp_old 1472 true mki_length 1462 = WSent 1476 /\ write_rtcp_old 1472 true mki_length 1458 = WSent 1476 /\
  tcp_frame 1472 1476 = Some (1476, 1476) /\
  write_rtp 1472 true mki_length 1462 = WErr /\ write_rtp 1472 true mki_length 1458 = WSent 1472 /\
  write_rtcp 1472 true mki_length 1458 = WErr /\ write_rtcp 1472 true mki_length 1454 = WSent 1472.
Proof. vm_compute. repeat split; reflexivity. Qed.

Lemma old_tiny_max_panic :
  (forall mki size, write_rtp_old 8 true mki size = WPanic) /\
  (forall size, write_rtp 8 true 0 size = WErr) /\ (forall size, write_rtp (-1) false 0 size = WErr).
Proof. repeat split; intros; reflexivity. Qed.

(* ---------- start_rejects ---------- *)
Open Scope N_scope.

Lemma pow2_ok_sound wq : pow2_ok wq = true -> wq = 0 \/ exists k, wq = 2 ^ k.
Proof.
  unfold pow2_ok. intros H. apply N.eqb_eq in H.
  destruct (N.eq_dec wq 0) as [->|Hnz]; [now left|]. right.
  exists (N.log2 wq).
  assert (Hpos : 0 < wq) by lia.
  destruct (N.log2_spec wq Hpos) as [Hlo Hhi].
  destruct (N.eq_dec wq (2 ^ N.log2 wq)) as [E|Hne]; [exact E|exfalso].
  assert (Hlog : N.log2 (wq - 1) = N.log2 wq).
  { apply N.log2_unique; [lia|]. rewrite N.pow_succ_r' in *. lia. }
  assert (Hb1 : N.testbit wq (N.log2 wq) = true) by (apply N.bit_log2; lia).
  assert (Hb2 : N.testbit (wq - 1) (N.log2 wq) = true).
  { rewrite <- Hlog. apply N.bit_log2.
    assert (2 ^ N.log2 wq <> 0) by (apply N.pow_nonzero; lia). lia. }
  pose proof (N.land_spec wq (wq - 1) (N.log2 wq)) as Hs.
  rewrite H, N.bits_0, Hb1, Hb2 in Hs. discriminate.
Qed.

Lemma pow2_ok_complete k : pow2_ok (2 ^ k) = true.
Proof.
  unfold pow2_ok. apply N.eqb_eq. apply N.bits_inj. intros j.
  rewrite N.land_spec, N.bits_0.
  rewrite N.pow2_bits_eqb.
  destruct (N.eqb_spec k j) as [->|Hne]; [|reflexivity].
  cbn [andb]. replace (2 ^ j - 1) with (N.ones j) by (rewrite N.ones_equiv; lia).
  apply N.ones_spec_high. lia.
Qed.

Open Scope Z_scope.

Theorem start_rejects_max max wq : udp_max < max -> start_ok max wq = StartErr.
Proof.
  intros H. unfold start_ok. destruct (negb (wq =? 0)%N && negb (pow2_ok wq)); [reflexivity|].
  assert (Hu : 0 < udp_max) by (vm_compute; reflexivity).
  destruct (Z.eqb_spec max 0); [lia|]. destruct (Z.ltb_spec udp_max max); [reflexivity|lia].
Qed.

Theorem start_rejects_queue max wq :
  wq <> 0%N -> (forall k, wq <> (2 ^ k)%N) -> start_ok max wq = StartErr.
Proof.
  intros Hnz Hk. unfold start_ok.
  destruct (N.eqb_spec wq 0); [contradiction|]. cbn [negb andb].
  destruct (pow2_ok wq) eqn:E; [|reflexivity].
  apply pow2_ok_sound in E as [E|[k E]]; [contradiction|]. now apply Hk in E.
Qed.

Theorem start_accepts_only max wq m q :
  start_ok max wq = StartOk m q ->
  m <= udp_max /\ (exists k, q = (2 ^ k)%N) /\ (m = max \/ (max = 0 /\ m = udp_max)).
Proof.
  unfold start_ok. destruct (N.eqb_spec wq 0) as [->|Hnz]; cbn [negb andb].
  - destruct (Z.eqb_spec max 0) as [->|Hm].
    + intros E; inversion E; subst. split; [lia|]. split; [exists 8%N; reflexivity|]. now right.
    + destruct (Z.ltb_spec udp_max max); [discriminate|].
      intros E; inversion E; subst. split; [lia|]. split; [exists 8%N; reflexivity|]. now left.
  - destruct (pow2_ok wq) eqn:Ep; cbn [negb]; [|discriminate].
    apply pow2_ok_sound in Ep as [Ep|Ep]; [contradiction|].
    destruct (Z.eqb_spec max 0) as [->|Hm].
    + intros E; inversion E; subst. split; [lia|]. split; [exact Ep|]. now right.
    + destruct (Z.ltb_spec udp_max max); [discriminate|].
      intros E; inversion E; subst. split; [lia|]. split; [exact Ep|]. now left.
Qed.

Theorem start_accepts max k : 0 < max <= udp_max -> start_ok max (2 ^ k)%N = StartOk max (2 ^ k)%N.
Proof.
  intros H. unfold start_ok. rewrite pow2_ok_complete. cbn [negb andb].
  assert (Hk : (2 ^ k)%N <> 0%N) by (apply N.pow_nonzero; lia).
  destruct (N.eqb_spec (2 ^ k)%N 0%N); [contradiction|].
  destruct (Z.eqb_spec max 0); [lia|]. destruct (Z.ltb_spec udp_max max); [lia|reflexivity].
Qed.

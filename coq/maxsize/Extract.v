From Coq Require Extraction ExtrOcamlBasic.
From GV_maxsize Require Import Model.
Extraction Language OCaml.
Extraction "model.ml" run.

(* BRIDGE: the size arithmetic of the write paths and of Start() as TRANSLATED from the Go source on this run
   (GVG.Kern, tools/go2coq; spec lines in tools/go2coq/spec.d/maxsize.txt) is the arithmetic of the hand-written model:
     - the plain-packet budget  maxPlainPacketSize -= srtpOverhead + len(mki)   (3 RTP paths)
                                maxPlainPacketSize -= srtcpOverhead + len(mki)  (4 RTCP paths)
       and the tests  maxPlainPacketSize < 0  /  len(plain) > maxPlainPacketSize   -> Model.write_rtp / write_rtcp
     - Start():  WriteQueueSize == 0 / (WriteQueueSize & (WriteQueueSize-1)) != 0 / MaxPacketSize == 0 /
       MaxPacketSize > udpMaxPayloadSize  (client and server)                    -> Model.start_ok
     - tcpBuffer = make([]byte, MaxPacketSize+4) (client, server PLAY, server RECORD) and the 16-bit length field
       and 4-byte header of InterleavedFrame.MarshalTo / MarshalSize                 -> Model.tcp_frame
   Named Go constants (srtpOverhead, srtcpOverhead, udpMaxPayloadSize) are free variables of the kernels and are
   instantiated with GVG.Consts.  Re-checked on every run against the regenerated Kern.v. *)
From Coq Require Import ZArith NArith Lia Bool.
From Coq Require Import ZifyBool ZifyN.
From GVL Require Import Wrap.
From GVG Require Import Consts Kern.
From GV_maxsize Require Import Model.
Open Scope Z_scope.
Ltac Zify.zify_post_hook ::= Z.div_mod_to_equations.

Definition small (x : Z) : Prop := -2305843009213693952 <= x < 2305843009213693952.   (* |x| < 2^61: no int overflow below *)

Lemma ki64_small x : -9223372036854775808 <= x < 9223372036854775808 -> ki64 x = x.
Proof. unfold ki64, s64, w64. intros H. destruct (x mod 18446744073709551616 <? 9223372036854775808) eqn:E; lia. Qed.
Lemma of_N_land a b : Z.of_N (N.land a b) = Z.land (Z.of_N a) (Z.of_N b).
Proof. destruct a, b; reflexivity. Qed.
Lemma land_bound x y : 0 <= x < 9223372036854775808 -> 0 <= y -> 0 <= Z.land x y < 9223372036854775808.
Proof.
  intros Hx Hy. assert (Hn : 0 <= Z.land x y) by (apply Z.land_nonneg; lia). split; [exact Hn|].
  destruct (Z.eq_dec (Z.land x y) 0) as [E|E]; [lia|].
  destruct (Z.eq_dec x 0) as [->|Hx0]; [rewrite Z.land_0_l in E; lia|].
  change 9223372036854775808 with (2 ^ 63). apply Z.log2_lt_pow2; [lia|].
  pose proof (Z.log2_land x y ltac:(lia) Hy) as Hl.
  assert (Z.log2 x < 63) by (apply Z.log2_lt_pow2; [lia|change (2 ^ 63) with 9223372036854775808; lia]).
  lia.
Qed.

(* ---------- the seven write paths are the same text ---------- *)
Lemma rtp_paths_same_text :
  k_ms_stf_rtp_budget = k_ms_cf_rtp_budget /\ k_ms_ssf_rtp_budget = k_ms_cf_rtp_budget /\
  k_ms_stf_rtp_small = k_ms_cf_rtp_small /\ k_ms_ssf_rtp_small = k_ms_cf_rtp_small.
Proof. repeat split. Qed.
Lemma rtcp_paths_same_text :
  k_ms_stm_rtcp_budget = k_ms_cm_rtcp_budget /\ k_ms_ssm_rtcp_budget = k_ms_cm_rtcp_budget /\
  k_ms_smm_rtcp_budget = k_ms_cm_rtcp_budget /\
  k_ms_stm_rtcp_big = k_ms_cm_rtcp_big /\ k_ms_ssm_rtcp_big = k_ms_cm_rtcp_big /\ k_ms_smm_rtcp_big = k_ms_cm_rtcp_big.
Proof. repeat split. Qed.

(* ---------- RTP ---------- *)
(* writePacketRTP written with translated kernels: [budget] is the  -=  statement, [neg] the  < 0  test;
   pkt.MarshalTo(plain) (pion/rtp) fails iff the packet does not fit *)
Definition write_rtp_k (budget : Z -> Z -> Z -> Z) (neg : Z -> bool) (max : Z) (secure : bool) (mki size : Z) : wres :=
  let max_plain := if secure then budget max srtp_overhead mki else max in
  if neg max_plain then WErr else
  if max_plain <? size then WErr else
  if secure then WSent (srtp_len size mki) else WSent size.

Lemma bridge_rtp_budget max mki : small max -> small mki ->
  k_ms_cf_rtp_budget max srtp_overhead mki = max - (srtp_overhead + mki).
Proof.
  unfold small, k_ms_cf_rtp_budget, srtp_overhead. intros Hm Hk.
  assert (0 <= Z.of_N ms_srtp_overhead < 1000) by (vm_compute; split; [discriminate|reflexivity]).
  rewrite (ki64_small (_ + mki)) by lia. apply ki64_small. lia.
Qed.
Theorem write_rtp_kernels_are_the_code max secure mki size : small max -> small mki ->
  write_rtp max secure mki size = write_rtp_k k_ms_cf_rtp_budget k_ms_cf_rtp_small max secure mki size.
Proof.
  intros Hm Hk. unfold write_rtp, write_rtp_k. rewrite (bridge_rtp_budget max mki Hm Hk). reflexivity.
Qed.

(* ---------- RTCP ---------- *)
Definition write_rtcp_k (budget : Z -> Z -> Z -> Z) (big : Z -> Z -> bool) (max : Z) (secure : bool) (mki size : Z) : wres :=
  let max_plain := if secure then budget max srtcp_overhead mki else max in
  if big size max_plain then WErr else
  if secure then (if max <? 0 then WPanic else WSent (srtcp_len size mki)) else WSent size.

Lemma bridge_rtcp_budget max mki : small max -> small mki ->
  k_ms_cm_rtcp_budget max srtcp_overhead mki = max - (srtcp_overhead + mki).
Proof.
  unfold small, k_ms_cm_rtcp_budget, srtcp_overhead. intros Hm Hk.
  assert (0 <= Z.of_N ms_srtcp_overhead < 1000) by (vm_compute; split; [discriminate|reflexivity]).
  rewrite (ki64_small (_ + mki)) by lia. apply ki64_small. lia.
Qed.
Lemma bridge_rtcp_big size max_plain : k_ms_cm_rtcp_big size max_plain = (max_plain <? size).
Proof. unfold k_ms_cm_rtcp_big. lia. Qed.
Theorem write_rtcp_kernels_are_the_code max secure mki size : small max -> small mki ->
  write_rtcp max secure mki size = write_rtcp_k k_ms_cm_rtcp_budget k_ms_cm_rtcp_big max secure mki size.
Proof.
  intros Hm Hk. unfold write_rtcp, write_rtcp_k. rewrite (bridge_rtcp_budget max mki Hm Hk), bridge_rtcp_big. reflexivity.
Qed.

(* ---------- Start() ---------- *)
(* if WriteQueueSize == 0 { = 256 } else if (wq & (wq-1)) != 0 { error }
   if MaxPacketSize == 0 { = udpMaxPayloadSize } else if MaxPacketSize > udpMaxPayloadSize { error } *)
Definition start_ok_k (wq0 notpow2 max0 : Z -> bool) (toobig : Z -> Z -> bool) (max : Z) (wq : N) : start_res :=
  if negb (wq0 (Z.of_N wq)) && notpow2 (Z.of_N wq) then StartErr else
  let wq' := if wq0 (Z.of_N wq) then default_write_queue else wq in
  if max0 max then StartOk udp_max wq' else
  if toobig max udp_max then StartErr else StartOk max wq'.

Lemma bridge_notpow2 wq : (wq < 9223372036854775808)%N -> k_ms_srv_wq_notpow2 (Z.of_N wq) = negb (pow2_ok wq).
Proof.
  unfold k_ms_srv_wq_notpow2, pow2_ok. intros Hs. f_equal.
  destruct (N.eq_dec wq 0) as [->|Hnz]; [reflexivity|].
  rewrite (ki64_small (Z.of_N wq - 1)) by lia.
  assert (E1 : Z.of_N wq - 1 = Z.of_N (wq - 1)) by lia. rewrite E1, <- of_N_land.
  assert (Hb : 0 <= Z.land (Z.of_N wq) (Z.of_N (wq - 1)) < 9223372036854775808) by (apply land_bound; lia).
  rewrite <- of_N_land in Hb. rewrite ki64_small by lia.
  destruct (N.eqb_spec (N.land wq (wq - 1)) 0) as [E|E]; lia.
Qed.
Lemma client_server_start_same_text :
  k_ms_cli_wq_default = k_ms_srv_wq_default /\ k_ms_cli_wq_notpow2 = k_ms_srv_wq_notpow2 /\
  k_ms_cli_max_default = k_ms_srv_max_default /\ k_ms_cli_max_too_big = k_ms_srv_max_too_big.
Proof. repeat split. Qed.
Theorem start_kernels_are_the_code max wq : (wq < 9223372036854775808)%N ->
  start_ok max wq = start_ok_k k_ms_srv_wq_default k_ms_srv_wq_notpow2 k_ms_srv_max_default k_ms_srv_max_too_big max wq.
Proof.
  intros Hw. unfold start_ok, start_ok_k. rewrite (bridge_notpow2 wq Hw).
  unfold k_ms_srv_wq_default, k_ms_srv_max_default, k_ms_srv_max_too_big.
  assert (E0 : (Z.of_N wq =? 0) = (wq =? 0)%N) by lia. rewrite E0.
  assert (E1 : (max >? udp_max) = (udp_max <? max)) by lia. rewrite E1. reflexivity.
Qed.

(* ---------- the interleaved frame ---------- *)
Lemma tcpbuf_same_text : k_ms_srv_tcpbuf_play = k_ms_cli_tcpbuf /\ k_ms_srv_tcpbuf_rec = k_ms_cli_tcpbuf.
Proof. split; reflexivity. Qed.
Lemma bridge_tcpbuf max : small max -> k_ms_cli_tcpbuf max = max + tcp_buffer_extra.
Proof. unfold small, k_ms_cli_tcpbuf, tcp_buffer_extra. intros H. apply ki64_small. lia. Qed.
(* the declared payload length: buf[pos] = byte(payloadLen >> 8); buf[pos+1] = byte(payloadLen) *)
Lemma bridge_declared_len wire : 0 <= wire < 9223372036854775808 ->
  k_rtsp_frame_len_hi wire * 256 + k_rtsp_frame_len_lo wire = wire mod 65536.
Proof.
  unfold k_rtsp_frame_len_hi, k_rtsp_frame_len_lo, w8. intros H.
  rewrite Z.shiftr_div_pow2 by lia. change (2 ^ 8) with 256. rewrite ki64_small by lia. lia.
Qed.
Lemma bridge_frame_header : k_rtsp_frame_size 0 = frame_header.
Proof. reflexivity. Qed.
Theorem tcp_frame_kernels_are_the_code max wire : small max -> 0 <= wire < 9223372036854775808 ->
  tcp_frame max wire =
  let buflen := k_ms_cli_tcpbuf max in
  if buflen <? k_rtsp_frame_size 0 then None else
  Some (k_rtsp_frame_len_hi wire * 256 + k_rtsp_frame_len_lo wire, k_rtsp_frame_size 0 + Z.min wire (buflen - k_rtsp_frame_size 0)).
Proof.
  intros Hm Hw. unfold tcp_frame. cbv zeta. rewrite (bridge_tcpbuf max Hm), (bridge_declared_len wire Hw), bridge_frame_header.
  reflexivity.
Qed.

(* ---------- the bridge, assembled ---------- *)
Theorem maxsize_kernels_are_the_code :
  (forall max secure mki size, small max -> small mki ->
     write_rtp max secure mki size = write_rtp_k k_ms_cf_rtp_budget k_ms_cf_rtp_small max secure mki size /\
     write_rtp max secure mki size = write_rtp_k k_ms_stf_rtp_budget k_ms_stf_rtp_small max secure mki size /\
     write_rtp max secure mki size = write_rtp_k k_ms_ssf_rtp_budget k_ms_ssf_rtp_small max secure mki size) /\
  (forall max secure mki size, small max -> small mki ->
     write_rtcp max secure mki size = write_rtcp_k k_ms_cm_rtcp_budget k_ms_cm_rtcp_big max secure mki size /\
     write_rtcp max secure mki size = write_rtcp_k k_ms_stm_rtcp_budget k_ms_stm_rtcp_big max secure mki size /\
     write_rtcp max secure mki size = write_rtcp_k k_ms_ssm_rtcp_budget k_ms_ssm_rtcp_big max secure mki size /\
     write_rtcp max secure mki size = write_rtcp_k k_ms_smm_rtcp_budget k_ms_smm_rtcp_big max secure mki size) /\
  (forall max wq, (wq < 9223372036854775808)%N ->
     start_ok max wq = start_ok_k k_ms_srv_wq_default k_ms_srv_wq_notpow2 k_ms_srv_max_default k_ms_srv_max_too_big max wq /\
     start_ok max wq = start_ok_k k_ms_cli_wq_default k_ms_cli_wq_notpow2 k_ms_cli_max_default k_ms_cli_max_too_big max wq) /\
  (forall max wire, small max -> 0 <= wire < 9223372036854775808 ->
     k_ms_srv_tcpbuf_play max = k_ms_cli_tcpbuf max /\ k_ms_srv_tcpbuf_rec max = k_ms_cli_tcpbuf max /\
     tcp_frame max wire =
       let buflen := k_ms_cli_tcpbuf max in
       if buflen <? k_rtsp_frame_size 0 then None else
       Some (k_rtsp_frame_len_hi wire * 256 + k_rtsp_frame_len_lo wire,
             k_rtsp_frame_size 0 + Z.min wire (buflen - k_rtsp_frame_size 0))).
Proof.
  split; [|split; [|split]].
  - intros max secure mki size Hm Hk. pose proof (write_rtp_kernels_are_the_code max secure mki size Hm Hk) as E.
    repeat split; exact E.
  - intros max secure mki size Hm Hk. pose proof (write_rtcp_kernels_are_the_code max secure mki size Hm Hk) as E.
    repeat split; exact E.
  - intros max wq Hw. pose proof (start_kernels_are_the_code max wq Hw) as E. split; exact E.
  - intros max wire Hm Hw. split; [reflexivity|]. split; [reflexivity|]. apply tcp_frame_kernels_are_the_code; assumption.
Qed.

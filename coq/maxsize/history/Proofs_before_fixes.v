(* Proofs for the maxsize domain (C18). *)
From Coq Require Import ZArith NArith List Bool Lia.
From Coq Require Import ZifyBool ZifyNat ZifyN.
From GVL Require Import NList Wire.
From GVG Require Import Consts.
From GV_maxsize Require Import Model.
Import ListNotations.
Open Scope Z_scope.

(* ---------- obligations on the regenerated constants ---------- *)
(* the overhead the code subtracts covers what pion/srtp adds WITHOUT an MKI *)
Lemma overhead_covers_tag : srtp_tag <= srtp_overhead /\ srtcp_index + srtp_tag <= srtcp_overhead.
Proof. split; vm_compute; discriminate. Qed.

Lemma udp_max_fits_16 : udp_max + mki_length < 65536.
Proof. vm_compute. reflexivity. Qed.

Lemma mki_positive : 0 < mki_length.
Proof. vm_compute. reflexivity. Qed.

Lemma overheads_nonneg : 0 <= srtp_overhead /\ 0 <= srtcp_overhead.
Proof. split; vm_compute; discriminate. Qed.

(* ---------- wire_le_max ---------- *)
Theorem wire_le_max_rtp max secure size w :
  write_rtp max secure 0 size = WSent w -> w <= max.
Proof.
  pose proof overhead_covers_tag as [Ht _].
  unfold write_rtp, srtp_len. destruct secure.
  - destruct (Z.ltb_spec (max - srtp_overhead) 0); [discriminate|].
    destruct (Z.ltb_spec (max - srtp_overhead) size); [discriminate|].
    intros E; inversion E; subst. lia.
  - destruct (Z.ltb_spec max 0); [discriminate|].
    destruct (Z.ltb_spec max size); [discriminate|].
    intros E; inversion E; subst. lia.
Qed.

Theorem wire_le_max_rtcp max secure size w :
  write_rtcp max secure 0 size = WSent w -> w <= max.
Proof.
  pose proof overhead_covers_tag as [_ Ht].
  unfold write_rtcp, srtcp_len. destruct secure.
  - destruct (Z.ltb_spec (max - srtcp_overhead) size); [discriminate|].
    destruct (Z.ltb_spec max 0); [discriminate|].
    intros E; inversion E; subst. lia.
  - destruct (Z.ltb_spec max size); [discriminate|].
    intros E; inversion E; subst. lia.
Qed.

(* with an MKI the bound is max + |MKI| *)
Theorem wire_le_max_mki_rtp max secure mki size w :
  0 <= mki -> write_rtp max secure mki size = WSent w -> w <= max + mki.
Proof.
  pose proof overhead_covers_tag as [Ht _]. intros Hm.
  unfold write_rtp, srtp_len. destruct secure.
  - destruct (Z.ltb_spec (max - srtp_overhead) 0); [discriminate|].
    destruct (Z.ltb_spec (max - srtp_overhead) size); [discriminate|].
    intros E; inversion E; subst. lia.
  - destruct (Z.ltb_spec max 0); [discriminate|].
    destruct (Z.ltb_spec max size); [discriminate|].
    intros E; inversion E; subst. lia.
Qed.

Theorem wire_le_max_mki_rtcp max secure mki size w :
  0 <= mki -> write_rtcp max secure mki size = WSent w -> w <= max + mki.
Proof.
  pose proof overhead_covers_tag as [_ Ht]. intros Hm.
  unfold write_rtcp, srtcp_len. destruct secure.
  - destruct (Z.ltb_spec (max - srtcp_overhead) size); [discriminate|].
    destruct (Z.ltb_spec max 0); [discriminate|].
    intros E; inversion E; subst. lia.
  - destruct (Z.ltb_spec max size); [discriminate|].
    intros E; inversion E; subst. lia.
Qed.

(* F13: with the 4-byte MKI of axisClientManagedKeys a packet leaves that is larger than the maximum *)
Theorem wire_le_max_mki_refuted :
  exists max size w : Z, 0 < max <= udp_max /\ 0 <= size /\
    write_rtp max true mki_length size = WSent w /\ max < w.
Proof. exists 1472, 1462, 1476. vm_compute. repeat split; congruence. Qed.

Theorem wire_le_max_mki_rtcp_refuted :
  exists max size w : Z, 0 < max <= udp_max /\ 0 <= size /\
    write_rtcp max true mki_length size = WSent w /\ max < w.
Proof. exists 1472, 1458, 1476. vm_compute. repeat split; congruence. Qed.

(* a write that is refused or a packet within the limit: the only outcomes when the maximum can hold
   the overhead (no panic) *)
Theorem write_rtp_no_panic (max : Z) (secure : bool) (mki size : Z) :
  (if secure then srtp_overhead else 0) <= max -> write_rtp max secure mki size <> WPanic.
Proof.
  intros H. unfold write_rtp. destruct secure.
  - destruct (Z.ltb_spec (max - srtp_overhead) 0); [lia|].
    destruct (Z.ltb_spec (max - srtp_overhead) size); discriminate.
  - destruct (Z.ltb_spec max 0); [lia|]. destruct (Z.ltb_spec max size); discriminate.
Qed.

Theorem write_rtcp_no_panic max secure mki size :
  0 <= size -> write_rtcp max secure mki size <> WPanic.
Proof.
  pose proof overheads_nonneg as [_ Ho]. intros H. unfold write_rtcp. destruct secure.
  - destruct (Z.ltb_spec (max - srtcp_overhead) size); [discriminate|].
    destruct (Z.ltb_spec max 0); [lia|discriminate].
  - destruct (Z.ltb_spec max size); discriminate.
Qed.

(* a maximum below the SRTP overhead passes Start and makes every SRTP RTP write panic *)
Theorem tiny_max_panics_refuted :
  exists max : Z, 0 < max <= udp_max /\ start_ok max 0 = StartOk max default_write_queue /\
    forall mki size, write_rtp max true mki size = WPanic.
Proof. exists 8. split; [vm_compute; split; congruence|]. split; [reflexivity|]. intros; reflexivity. Qed.

(* ---------- frame_not_truncated ---------- *)
Theorem frame_not_truncated max w :
  0 <= w <= max -> max <= udp_max -> tcp_frame max w = Some (w, frame_header + w).
Proof.
  pose proof udp_max_fits_16 as H16. pose proof mki_positive as Hm.
  intros Hw Hmax. unfold tcp_frame, tcp_buffer_extra, frame_header in *.
  destruct (Z.ltb_spec (max + 4) 4); [lia|].
  rewrite Z.mod_small by lia. rewrite Z.min_l by lia. reflexivity.
Qed.

Corollary frame_not_truncated_rtp max secure size w :
  0 <= size -> max <= udp_max -> write_rtp max secure 0 size = WSent w ->
  tcp_frame max w = Some (w, frame_header + w).
Proof.
  intros Hs Hmax E. pose proof (wire_le_max_rtp _ _ _ _ E) as Hle.
  apply frame_not_truncated; [|exact Hmax]. split; [|exact Hle].
  unfold write_rtp, srtp_len, srtp_tag in E. destruct secure;
    repeat match type of E with context [Z.ltb ?a ?b] => destruct (Z.ltb_spec a b); try discriminate end;
    inversion E; lia.
Qed.

Corollary frame_not_truncated_rtcp max secure size w :
  0 <= size -> max <= udp_max -> write_rtcp max secure 0 size = WSent w ->
  tcp_frame max w = Some (w, frame_header + w).
Proof.
  intros Hs Hmax E. pose proof (wire_le_max_rtcp _ _ _ _ E) as Hle.
  apply frame_not_truncated; [|exact Hmax]. split; [|exact Hle].
  unfold write_rtcp, srtcp_len, srtp_tag, srtcp_index in E. destruct secure;
    repeat match type of E with context [Z.ltb ?a ?b] => destruct (Z.ltb_spec a b); try discriminate end;
    inversion E; lia.
Qed.

(* with the MKI: the frame announces more bytes than are written *)
Theorem frame_truncated_mki_refuted :
  exists max size w d n : Z, 0 < max <= udp_max /\
    write_rtp max true mki_length size = WSent w /\ tcp_frame max w = Some (d, n) /\ n < frame_header + d.
Proof. exists 1472, 1462, 1476, 1476, 1476. vm_compute. repeat split; congruence. Qed.

(* ---------- start_rejects ---------- *)
Open Scope N_scope.

Lemma pow2_ok_sound wq : pow2_ok wq = true -> wq = 0 \/ exists k, wq = 2 ^ k.
Proof.
  unfold pow2_ok. intros H. apply N.eqb_eq in H.
  destruct (N.eq_dec wq 0) as [->|Hnz]; [now left|]. right.
  exists (N.log2 wq).
  assert (Hpos : 0 < wq) by lia.
  destruct (N.log2_spec wq Hpos) as [Hlo Hhi].
  destruct (N.eq_dec wq (2 ^ N.log2 wq)) as [E|Hne]; [exact E|exfalso].
  assert (Hlog : N.log2 (wq - 1) = N.log2 wq).
  { apply N.log2_unique; [lia|]. rewrite N.pow_succ_r' in *. lia. }
  assert (Hb1 : N.testbit wq (N.log2 wq) = true) by (apply N.bit_log2; lia).
  assert (Hb2 : N.testbit (wq - 1) (N.log2 wq) = true).
  { rewrite <- Hlog. apply N.bit_log2.
    assert (2 ^ N.log2 wq <> 0) by (apply N.pow_nonzero; lia). lia. }
  pose proof (N.land_spec wq (wq - 1) (N.log2 wq)) as Hs.
  rewrite H, N.bits_0, Hb1, Hb2 in Hs. discriminate.
Qed.

Lemma pow2_ok_complete k : pow2_ok (2 ^ k) = true.
Proof.
  unfold pow2_ok. apply N.eqb_eq. apply N.bits_inj. intros j.
  rewrite N.land_spec, N.bits_0.
  rewrite N.pow2_bits_eqb.
  destruct (N.eqb_spec k j) as [->|Hne]; [|reflexivity].
  cbn [andb]. replace (2 ^ j - 1) with (N.ones j) by (rewrite N.ones_equiv; lia).
  apply N.ones_spec_high. lia.
Qed.

Open Scope Z_scope.

(* a larger maximum is rejected *)
Theorem start_rejects_max max wq : udp_max < max -> start_ok max wq = StartErr.
Proof.
  intros H. unfold start_ok. destruct (negb (wq =? 0)%N && negb (pow2_ok wq)); [reflexivity|].
  assert (Hu : 0 < udp_max) by (vm_compute; reflexivity).
  destruct (Z.eqb_spec max 0); [lia|]. destruct (Z.ltb_spec udp_max max); [reflexivity|lia].
Qed.

(* a write-queue size that is not a power of two is rejected *)
Theorem start_rejects_queue max wq :
  wq <> 0%N -> (forall k, wq <> (2 ^ k)%N) -> start_ok max wq = StartErr.
Proof.
  intros Hnz Hk. unfold start_ok.
  destruct (N.eqb_spec wq 0); [contradiction|]. cbn [negb andb].
  destruct (pow2_ok wq) eqn:E; [|reflexivity].
  apply pow2_ok_sound in E as [E|[k E]]; [contradiction|]. now apply Hk in E.
Qed.

(* what is accepted: a maximum within the UDP payload limit and a power-of-two queue *)
Theorem start_accepts_only max wq m q :
  start_ok max wq = StartOk m q ->
  m <= udp_max /\ (exists k, q = (2 ^ k)%N) /\ (m = max \/ (max = 0 /\ m = udp_max)).
Proof.
  unfold start_ok. destruct (N.eqb_spec wq 0) as [->|Hnz]; cbn [negb andb].
  - destruct (Z.eqb_spec max 0) as [->|Hm].
    + intros E; inversion E; subst. split; [lia|]. split; [exists 8%N; reflexivity|]. now right.
    + destruct (Z.ltb_spec udp_max max); [discriminate|].
      intros E; inversion E; subst. split; [lia|]. split; [exists 8%N; reflexivity|]. now left.
  - destruct (pow2_ok wq) eqn:Ep; cbn [negb]; [|discriminate].
    apply pow2_ok_sound in Ep as [Ep|Ep]; [contradiction|].
    destruct (Z.eqb_spec max 0) as [->|Hm].
    + intros E; inversion E; subst. split; [lia|]. split; [exact Ep|]. now right.
    + destruct (Z.ltb_spec udp_max max); [discriminate|].
      intros E; inversion E; subst. split; [lia|]. split; [exact Ep|]. now left.
Qed.

(* power-of-two queue sizes and maxima within the limit are accepted *)
Theorem start_accepts max k : 0 < max <= udp_max -> start_ok max (2 ^ k)%N = StartOk max (2 ^ k)%N.
Proof.
  intros H. unfold start_ok. rewrite pow2_ok_complete. cbn [negb andb].
  assert (Hk : (2 ^ k)%N <> 0%N) by (apply N.pow_nonzero; lia).
  destruct (N.eqb_spec (2 ^ k)%N 0%N); [contradiction|].
  destruct (Z.eqb_spec max 0); [lia|]. destruct (Z.ltb_spec udp_max max); [lia|reflexivity].
Qed.

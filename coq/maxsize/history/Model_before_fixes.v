(* Executable model of the length arithmetic behind property C18.  Proof-free.

   Transcribed from /repo:
     client.go:626-635, server.go:180-189        start-time validation           -> start_ok
     client_format.go:267-289, server_stream_format.go:101-121,
     server_session_format.go:288-309            RTP write paths                 -> write_rtp
     client_media.go:449-473, server_stream_media.go:99-121,
     server_session_media.go:399-426, server_multicast_writer_media.go:87-114
                                                 RTCP write paths                -> write_rtcp
     client.go:1070, server_session.go:1269/1363 tcpBuffer = MaxPacketSize + 4
     pkg/base/interleaved_frame.go:52-65         InterleavedFrame.MarshalTo      -> tcp_frame
   The four RTP paths are the same text up to receiver names, and so are the four RTCP paths; the
   entry point is therefore not a parameter of the arithmetic (the harness exercises each of them).

   Constants udpMaxPayloadSize, srtpOverhead, srtcpOverhead, mkiLength come from GVG.Consts
   (regenerated from /repo/constants.go on every run).  pion/srtp's AES_CM_128_HMAC_SHA1_80 adds a
   10-byte tag (and a 4-byte index for SRTCP) plus the MKI when one is configured: srtp_tag,
   srtcp_index below are facts about that library, checked by correspondence on every run.
   Go ints are modelled as Z: MaxPacketSize may be negative (Start does not reject it). *)
From Coq Require Import ZArith List Bool.
From GVL Require Import NList Wire.
From GVG Require Import Consts.
Import ListNotations.
Open Scope Z_scope.

Definition udp_max : Z := Z.of_N ms_udp_max_payload.
Definition srtp_overhead : Z := Z.of_N ms_srtp_overhead.
Definition srtcp_overhead : Z := Z.of_N ms_srtcp_overhead.
Definition mki_length : Z := Z.of_N ms_mki_length.

(* pion/srtp, protection profile AES_CM_128_HMAC_SHA1_80 *)
Definition srtp_tag : Z := 10.
Definition srtcp_index : Z := 4.
(* interleaved frame: '$', channel, 16-bit length *)
Definition frame_header : Z := 4.
(* tcpBuffer = make([]byte, MaxPacketSize+4) *)
Definition tcp_buffer_extra : Z := 4.
Definition default_write_queue : N := 256.

(* ---------- Start(): MaxPacketSize and WriteQueueSize ---------- *)
(* (size & (size-1)) != 0 on a non-negative size *)
Definition pow2_ok (wq : N) : bool := (N.land wq (wq - 1) =? 0)%N.

Inductive start_res := StartErr | StartOk (max : Z) (wq : N).

Definition start_ok (max : Z) (wq : N) : start_res :=
  if negb (wq =? 0)%N && negb (pow2_ok wq) then StartErr else
  let wq' := if (wq =? 0)%N then default_write_queue else wq in
  if max =? 0 then StartOk udp_max wq' else
  if udp_max <? max then StartErr else StartOk max wq'.

(* ---------- sizes ---------- *)
(* rtp.Packet.MarshalSize: fixed header, CSRCs, generic extension (profile + length + words), payload, padding *)
Definition rtp_size (cc : Z) (ext : bool) (extw : Z) (payload pad : Z) : Z :=
  12 + 4 * cc + (if ext then 4 + 4 * extw else 0) + payload + pad.

(* rtcp.ReceiverReport.MarshalSize: header + SSRC, 24 bytes per report, profile extensions *)
Definition rr_size (reports extbytes : Z) : Z := 8 + 24 * reports + extbytes.

Definition srtp_len (plain mki : Z) : Z := plain + mki + srtp_tag.
Definition srtcp_len (plain mki : Z) : Z := plain + srtcp_index + mki + srtp_tag.

(* ---------- the write paths ---------- *)
Inductive wres :=
  | WErr                 (* an error is returned, nothing is queued *)
  | WPanic               (* make([]byte, negative) *)
  | WSent (wire : Z).    (* the payload handed to the UDP socket / to the interleaved frame *)

(* writePacketRTP *)
Definition write_rtp (max : Z) (secure : bool) (mki : Z) (size : Z) : wres :=
  let max_plain := if secure then max - srtp_overhead else max in
  if max_plain <? 0 then WPanic else            (* plain := make([]byte, maxPlainPacketSize) *)
  if max_plain <? size then WErr else           (* pkt.MarshalTo(plain): io.ErrShortBuffer *)
  if secure then WSent (srtp_len size mki)      (* encr := make([]byte, max); EncryptRTP grows it when needed *)
  else WSent size.

(* writePacketRTCP *)
Definition write_rtcp (max : Z) (secure : bool) (mki : Z) (size : Z) : wres :=
  let max_plain := if secure then max - srtcp_overhead else max in
  if max_plain <? size then WErr else           (* "packet is too big" *)
  if secure then
    (if max <? 0 then WPanic else WSent (srtcp_len size mki))
  else WSent size.

(* InterleavedFrame.MarshalTo into tcpBuffer, then Write(buf[:n]):
   (declared payload length, bytes written to the connection) ; None = index out of range *)
Definition tcp_frame (max : Z) (wire : Z) : option (Z * Z) :=
  let buflen := max + tcp_buffer_extra in
  if buflen <? frame_header then None else
  Some (wire mod 65536, frame_header + Z.min wire (buflen - frame_header)).

(* ---------- wire protocol ---------- *)
Definition getz2 (l : list N) : option (Z * list N) :=
  match l with s :: m :: t => Some (getz s m, t) | _ => None end.

Definition put_wres (tcp : bool) (max : Z) (r : wres) : list N :=
  match r with
  | WErr => [1%N]
  | WPanic => [77%N]
  | WSent w =>
      if tcp then
        match tcp_frame max w with
        | Some (d, n) => [0%N; Z.to_N d; Z.to_N n]
        | None => [77%N]
        end
      else [0%N; Z.to_N w]
  end.

Definition run (c : list N) : list N :=
  match c with
  (* 1 who max(sign,mag) wq *)
  | 1%N :: _ :: s :: m :: wq :: [] =>
      match start_ok (getz s m) wq with
      | StartErr => [1%N]
      | StartOk mx q => [0%N; Z.to_N mx; q]
      end
  (* 2 entry tcp secure mki max cc ext extw payload pad *)
  | 2%N :: _ :: tcp :: sec :: mki :: mx :: cc :: ext :: extw :: pl :: pad :: [] =>
      put_wres (getb tcp) (Z.of_N mx)
        (write_rtp (Z.of_N mx) (getb sec) (Z.of_N mki)
           (rtp_size (Z.of_N cc) (getb ext) (Z.of_N extw) (Z.of_N pl) (Z.of_N pad)))
  (* 3 entry tcp secure mki max kind a b : kind 0 = ReceiverReport(a reports, b extension bytes); 1 = raw packet of a bytes *)
  | 3%N :: _ :: tcp :: sec :: mki :: mx :: kind :: a :: b :: [] =>
      put_wres (getb tcp) (Z.of_N mx)
        (write_rtcp (Z.of_N mx) (getb sec) (Z.of_N mki)
           (if (kind =? 0)%N then rr_size (Z.of_N a) (Z.of_N b) else Z.of_N a))
  | _ => bad_case
  end.

(* C18 — statements only. Each theorem is closed by [exact] of a lemma proved in Proofs.v and
   followed by Print Assumptions.  Model: coq/maxsize/Model.v (length arithmetic of the four RTP and
   the four RTCP write paths, the interleaved-frame buffer and Start's validation, over the constants
   regenerated from /repo/constants.go into GVG.Consts).

   Where the property is false of the code (each reproduced by the harness on every run):
   * with the 4-byte MKI of axisClientManagedKeys the overhead subtracted (srtpOverhead,
     srtcpOverhead) does not cover what pion/srtp adds: `wire_le_max_mki_*_refuted`,
     `frame_truncated_mki_refuted`; the `_mki_partial` theorems give the bound that does hold.
   * a maximum below srtpOverhead passes Start and makes SRTP RTP writes panic:
     `tiny_max_panics_refuted`; `write_*_no_panic` state when no panic can happen. *)
From Coq Require Import ZArith NArith.
From GV_maxsize Require Import Model Proofs.
Open Scope Z_scope.

(* no MKI: whatever the configured maximum, plain or SRTP, any packet size: a write either is refused
   or puts at most [max] bytes in the datagram / interleaved frame *)
Theorem C18_maxsize_wire_le_max_rtp : forall max secure size w,
  write_rtp max secure 0 size = WSent w -> w <= max.
Proof. exact wire_le_max_rtp. Qed.
Print Assumptions C18_maxsize_wire_le_max_rtp.

Theorem C18_maxsize_wire_le_max_rtcp : forall max secure size w,
  write_rtcp max secure 0 size = WSent w -> w <= max.
Proof. exact wire_le_max_rtcp. Qed.
Print Assumptions C18_maxsize_wire_le_max_rtcp.

Theorem C18_maxsize_wire_le_max_mki_rtp_partial : forall max secure mki size w,
  0 <= mki -> write_rtp max secure mki size = WSent w -> w <= max + mki.
Proof. exact wire_le_max_mki_rtp. Qed.
Print Assumptions C18_maxsize_wire_le_max_mki_rtp_partial.

Theorem C18_maxsize_wire_le_max_mki_rtcp_partial : forall max secure mki size w,
  0 <= mki -> write_rtcp max secure mki size = WSent w -> w <= max + mki.
Proof. exact wire_le_max_mki_rtcp. Qed.
Print Assumptions C18_maxsize_wire_le_max_mki_rtcp_partial.

Theorem C18_maxsize_wire_le_max_mki_refuted :
  exists max size w : Z, 0 < max <= udp_max /\ 0 <= size /\
    write_rtp max true mki_length size = WSent w /\ max < w.
Proof. exact wire_le_max_mki_refuted. Qed.
Print Assumptions C18_maxsize_wire_le_max_mki_refuted.

Theorem C18_maxsize_wire_le_max_mki_rtcp_refuted :
  exists max size w : Z, 0 < max <= udp_max /\ 0 <= size /\
    write_rtcp max true mki_length size = WSent w /\ max < w.
Proof. exact wire_le_max_mki_rtcp_refuted. Qed.
Print Assumptions C18_maxsize_wire_le_max_mki_rtcp_refuted.

(* a write never panics when the maximum can hold the overhead *)
Theorem C18_maxsize_write_rtp_no_panic : forall (max : Z) (secure : bool) (mki size : Z),
  (if secure then srtp_overhead else 0) <= max -> write_rtp max secure mki size <> WPanic.
Proof. exact write_rtp_no_panic. Qed.
Print Assumptions C18_maxsize_write_rtp_no_panic.

Theorem C18_maxsize_write_rtcp_no_panic : forall max secure mki size,
  0 <= size -> write_rtcp max secure mki size <> WPanic.
Proof. exact write_rtcp_no_panic. Qed.
Print Assumptions C18_maxsize_write_rtcp_no_panic.

Theorem C18_maxsize_tiny_max_panics_refuted :
  exists max : Z, 0 < max <= udp_max /\ start_ok max 0 = StartOk max default_write_queue /\
    forall mki size, write_rtp max true mki size = WPanic.
Proof. exact tiny_max_panics_refuted. Qed.
Print Assumptions C18_maxsize_tiny_max_panics_refuted.

(* the interleaved frame's length field equals the payload bytes written (no MKI) *)
Theorem C18_maxsize_frame_not_truncated : forall max w,
  0 <= w <= max -> max <= udp_max -> tcp_frame max w = Some (w, frame_header + w).
Proof. exact frame_not_truncated. Qed.
Print Assumptions C18_maxsize_frame_not_truncated.

Theorem C18_maxsize_frame_not_truncated_rtp : forall max secure size w,
  0 <= size -> max <= udp_max -> write_rtp max secure 0 size = WSent w ->
  tcp_frame max w = Some (w, frame_header + w).
Proof. exact frame_not_truncated_rtp. Qed.
Print Assumptions C18_maxsize_frame_not_truncated_rtp.

Theorem C18_maxsize_frame_not_truncated_rtcp : forall max secure size w,
  0 <= size -> max <= udp_max -> write_rtcp max secure 0 size = WSent w ->
  tcp_frame max w = Some (w, frame_header + w).
Proof. exact frame_not_truncated_rtcp. Qed.
Print Assumptions C18_maxsize_frame_not_truncated_rtcp.

Theorem C18_maxsize_frame_truncated_mki_refuted :
  exists max size w d n : Z, 0 < max <= udp_max /\
    write_rtp max true mki_length size = WSent w /\ tcp_frame max w = Some (d, n) /\ n < frame_header + d.
Proof. exact frame_truncated_mki_refuted. Qed.
Print Assumptions C18_maxsize_frame_truncated_mki_refuted.

(* Start: a maximum above udpMaxPayloadSize is rejected ... *)
Theorem C18_maxsize_start_rejects_max : forall max wq, udp_max < max -> start_ok max wq = StartErr.
Proof. exact start_rejects_max. Qed.
Print Assumptions C18_maxsize_start_rejects_max.

(* ... and so is a write-queue size that is not a power of two *)
Theorem C18_maxsize_start_rejects_queue : forall max wq,
  wq <> 0%N -> (forall k, wq <> (2 ^ k)%N) -> start_ok max wq = StartErr.
Proof. exact start_rejects_queue. Qed.
Print Assumptions C18_maxsize_start_rejects_queue.

Theorem C18_maxsize_start_accepts_only : forall max wq m q,
  start_ok max wq = StartOk m q ->
  m <= udp_max /\ (exists k, q = (2 ^ k)%N) /\ (m = max \/ (max = 0 /\ m = udp_max)).
Proof. exact start_accepts_only. Qed.
Print Assumptions C18_maxsize_start_accepts_only.

Theorem C18_maxsize_start_accepts : forall max k,
  0 < max <= udp_max -> start_ok max (2 ^ k)%N = StartOk max (2 ^ k)%N.
Proof. exact start_accepts. Qed.
Print Assumptions C18_maxsize_start_accepts.

(* ---------- non-vacuity ---------- *)
(* default maximum, SRTP, a 1462-byte RTP packet (12 header + 1450 payload) leaves with exactly 1472 bytes *)
Example C18_example_boundary :
  write_rtp 1472 true 0 (rtp_size 0 false 0 1450 0) = WSent 1472 /\
  write_rtp 1472 true 0 (rtp_size 0 false 0 1451 0) = WErr /\
  write_rtp 1472 false 0 (rtp_size 3 true 2 1432 4) = WSent 1472 /\
  write_rtcp 1402 true 0 (rr_size 31 636) = WSent 1402 /\
  write_rtcp 1402 true 0 (rr_size 31 640) = WErr /\
  tcp_frame 1472 1472 = Some (1472, 1476).
Proof. vm_compute. repeat split; reflexivity. Qed.

Example C18_example_start :
  start_ok 0 0 = StartOk 1472 256 /\ start_ok 1472 512 = StartOk 1472 512 /\
  start_ok 1473 0 = StartErr /\ start_ok 0 384 = StartErr.
Proof. vm_compute. repeat split; reflexivity. Qed.

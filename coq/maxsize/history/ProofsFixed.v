(* Full-strength C18 theorems for the repaired write paths (ModelFixed.v). *)
From Coq Require Import ZArith Lia.
From GV_maxsize Require Import Model Proofs ModelFixed.
Open Scope Z_scope.

Theorem wire_le_max_rtp_fixed max secure mki size w :
  write_rtp_fixed max secure mki size = WSent w -> w <= max.
Proof.
  pose proof overhead_covers_tag as [Ht _].
  unfold write_rtp_fixed, srtp_len. destruct secure.
  - destruct (Z.ltb_spec (max - srtp_overhead - mki) 0); [discriminate|].
    destruct (Z.ltb_spec (max - srtp_overhead - mki) size); [discriminate|].
    intros E; inversion E; subst. lia.
  - destruct (Z.ltb_spec max 0); [discriminate|].
    destruct (Z.ltb_spec max size); [discriminate|].
    intros E; inversion E; subst. lia.
Qed.

Theorem wire_le_max_rtcp_fixed max secure mki size w :
  write_rtcp_fixed max secure mki size = WSent w -> w <= max.
Proof.
  pose proof overhead_covers_tag as [_ Ht].
  unfold write_rtcp_fixed, srtcp_len. destruct secure.
  - destruct (Z.ltb_spec (max - srtcp_overhead - mki) 0); [discriminate|].
    destruct (Z.ltb_spec (max - srtcp_overhead - mki) size); [discriminate|].
    intros E; inversion E; subst. lia.
  - destruct (Z.ltb_spec max 0); [discriminate|].
    destruct (Z.ltb_spec max size); [discriminate|].
    intros E; inversion E; subst. lia.
Qed.

Theorem write_fixed_no_panic max secure mki size :
  write_rtp_fixed max secure mki size <> WPanic /\ write_rtcp_fixed max secure mki size <> WPanic.
Proof.
  unfold write_rtp_fixed, write_rtcp_fixed. split; destruct secure;
    repeat match goal with |- context [Z.ltb ?a ?b] => destruct (Z.ltb a b) end; discriminate.
Qed.

(* frames are never truncated, MKI or not *)
Theorem frame_not_truncated_fixed max secure mki size w :
  0 <= size -> 0 <= mki -> max <= udp_max ->
  (write_rtp_fixed max secure mki size = WSent w \/ write_rtcp_fixed max secure mki size = WSent w) ->
  tcp_frame max w = Some (w, frame_header + w).
Proof.
  intros Hs Hm Hmax [E|E].
  - pose proof (wire_le_max_rtp_fixed _ _ _ _ _ E) as Hle.
    apply frame_not_truncated; [|exact Hmax]. split; [|exact Hle].
    unfold write_rtp_fixed, srtp_len, srtp_tag in E. destruct secure;
      repeat match type of E with context [Z.ltb ?a ?b] => destruct (Z.ltb_spec a b); try discriminate end;
      inversion E; lia.
  - pose proof (wire_le_max_rtcp_fixed _ _ _ _ _ E) as Hle.
    apply frame_not_truncated; [|exact Hmax]. split; [|exact Hle].
    unfold write_rtcp_fixed, srtcp_len, srtp_tag, srtcp_index in E. destruct secure;
      repeat match type of E with context [Z.ltb ?a ?b] => destruct (Z.ltb_spec a b); try discriminate end;
      inversion E; lia.
Qed.

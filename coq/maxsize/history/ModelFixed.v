(* Repaired write paths for C18 (NOT the code as it is; compiled, not referenced by Props_C18.v).
   Proposed minimal fix in /repo: subtract the MKI length together with the SRTP/SRTCP overhead,
       maxPlainPacketSize -= srtpOverhead + len(ctx.mki)      (client_format.go:272, and the same in
       server_stream_format.go, server_session_format.go for symmetry)
       maxPlainPacketSize -= srtcpOverhead + len(ctx.mki)     (client_media.go:457 and the three others)
   and return an error instead of calling make() when the result is negative. *)
From Coq Require Import ZArith List Bool.
From GV_maxsize Require Import Model.
Open Scope Z_scope.

Definition write_rtp_fixed (max : Z) (secure : bool) (mki : Z) (size : Z) : wres :=
  let max_plain := if secure then max - srtp_overhead - mki else max in
  if max_plain <? 0 then WErr else
  if max_plain <? size then WErr else
  if secure then WSent (srtp_len size mki) else WSent size.

Definition write_rtcp_fixed (max : Z) (secure : bool) (mki : Z) (size : Z) : wres :=
  let max_plain := if secure then max - srtcp_overhead - mki else max in
  if max_plain <? 0 then WErr else
  if max_plain <? size then WErr else
  if secure then WSent (srtcp_len size mki) else WSent size.

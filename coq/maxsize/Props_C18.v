(* C18 — statements only. Each theorem is closed by [exact] of a lemma proved in Proofs.v and
   followed by Print Assumptions.  Model: coq/maxsize/Model.v (length arithmetic of the four RTP and
   the four RTCP write paths, the interleaved-frame buffer and Start's validation, over the constants
   regenerated from /repo/constants.go into GVG.Consts).

   The model describes the code AFTER the fix commits ff7d2a8 (MKI counted in the SRTP/SRTCP overhead)
   and 5cb4d00 (error instead of a make() panic): the former `_mki_partial` / `_refuted` statements are
   replaced by the full-strength ones below; the statements about the old code are in history/ and the
   old behaviour survives only as `Example`s about `write_rtp_old` / `write_rtcp_old`. *)
From Coq Require Import ZArith NArith.
From GVG Require Import Kern.
From GV_maxsize Require Import Model Proofs Bridge.
Open Scope Z_scope.

(* whatever the configured maximum, plain or SRTP, with or without an MKI of any length, any packet
   size: a write that is not refused puts at most [max] bytes in the datagram / interleaved frame *)
Theorem C18_maxsize_wire_le_max_rtp : forall max secure mki size w,
  write_rtp max secure mki size = WSent w -> w <= max.
Proof. exact wire_le_max_rtp. Qed.
Print Assumptions C18_maxsize_wire_le_max_rtp.

Theorem C18_maxsize_wire_le_max_rtcp : forall max secure mki size w,
  write_rtcp max secure mki size = WSent w -> w <= max.
Proof. exact wire_le_max_rtcp. Qed.
Print Assumptions C18_maxsize_wire_le_max_rtcp.

(* a write never panics, whatever the maximum (tiny and negative ones included) *)
Theorem C18_maxsize_write_rtp_no_panic : forall max secure mki size,
  write_rtp max secure mki size <> WPanic.
Proof. exact write_rtp_no_panic. Qed.
Print Assumptions C18_maxsize_write_rtp_no_panic.

Theorem C18_maxsize_write_rtcp_no_panic : forall max secure mki size,
  0 <= size -> 0 <= mki -> write_rtcp max secure mki size <> WPanic.
Proof. exact write_rtcp_no_panic. Qed.
Print Assumptions C18_maxsize_write_rtcp_no_panic.

(* every write returns an error (nothing transmitted) or transmits a packet within the limit *)
Theorem C18_maxsize_write_outcomes : forall max secure mki size,
  0 <= size -> 0 <= mki ->
  (write_rtp max secure mki size = WErr \/ exists w, write_rtp max secure mki size = WSent w /\ w <= max) /\
  (write_rtcp max secure mki size = WErr \/ exists w, write_rtcp max secure mki size = WSent w /\ w <= max).
Proof. exact write_outcomes. Qed.
Print Assumptions C18_maxsize_write_outcomes.

(* the interleaved frame's length field equals the payload bytes written *)
Theorem C18_maxsize_frame_not_truncated : forall max w,
  0 <= w <= max -> max <= udp_max -> tcp_frame max w = Some (w, frame_header + w).
Proof. exact frame_not_truncated. Qed.
Print Assumptions C18_maxsize_frame_not_truncated.

Theorem C18_maxsize_frame_not_truncated_rtp : forall max secure mki size w,
  0 <= size -> 0 <= mki -> max <= udp_max -> write_rtp max secure mki size = WSent w ->
  tcp_frame max w = Some (w, frame_header + w).
Proof. exact frame_not_truncated_rtp. Qed.
Print Assumptions C18_maxsize_frame_not_truncated_rtp.

Theorem C18_maxsize_frame_not_truncated_rtcp : forall max secure mki size w,
  0 <= size -> 0 <= mki -> max <= udp_max -> write_rtcp max secure mki size = WSent w ->
  tcp_frame max w = Some (w, frame_header + w).
Proof. exact frame_not_truncated_rtcp. Qed.
Print Assumptions C18_maxsize_frame_not_truncated_rtcp.

(* Start: a maximum above udpMaxPayloadSize is rejected ... *)
Theorem C18_maxsize_start_rejects_max : forall max wq, udp_max < max -> start_ok max wq = StartErr.
Proof. exact start_rejects_max. Qed.
Print Assumptions C18_maxsize_start_rejects_max.

(* ... and so is a write-queue size that is not a power of two *)
Theorem C18_maxsize_start_rejects_queue : forall max wq,
  wq <> 0%N -> (forall k, wq <> (2 ^ k)%N) -> start_ok max wq = StartErr.
Proof. exact start_rejects_queue. Qed.
Print Assumptions C18_maxsize_start_rejects_queue.

Theorem C18_maxsize_start_accepts_only : forall max wq m q,
  start_ok max wq = StartOk m q ->
  m <= udp_max /\ (exists k, q = (2 ^ k)%N) /\ (m = max \/ (max = 0 /\ m = udp_max)).
Proof. exact start_accepts_only. Qed.
Print Assumptions C18_maxsize_start_accepts_only.

Theorem C18_maxsize_start_accepts : forall max k,
  0 < max <= udp_max -> start_ok max (2 ^ k)%N = StartOk max (2 ^ k)%N.
Proof. exact start_accepts. Qed.
Print Assumptions C18_maxsize_start_accepts.

(* ---------- non-vacuity ---------- *)
Example C18_example_boundary :
  write_rtp 1472 true 0 (rtp_size 0 false 0 1450 0) = WSent 1472 /\
  write_rtp 1472 true 0 (rtp_size 0 false 0 1451 0) = WErr /\
  write_rtp 1472 true mki_length (rtp_size 0 false 0 1446 0) = WSent 1472 /\
  write_rtp 1472 true mki_length (rtp_size 0 false 0 1447 0) = WErr /\
  write_rtp 1472 false 0 (rtp_size 3 true 2 1432 4) = WSent 1472 /\
  write_rtcp 1402 true 0 (rr_size 31 636) = WSent 1402 /\
  write_rtcp 1402 true 0 (rr_size 31 640) = WErr /\
  tcp_frame 1472 1472 = Some (1472, 1476).
Proof. vm_compute. repeat split; reflexivity. Qed.

Example C18_example_start :
  start_ok 0 0 = StartOk 1472 256 /\ start_ok 1472 512 = StartOk 1472 512 /\
  start_ok 1473 0 = StartErr /\ start_ok 0 384 = StartErr.
Proof. vm_compute. repeat split; reflexivity. Qed.

(* regression: the behaviour before the fix commits (old functions) next to the behaviour now *)
Example C18_regression_mki :
  write_rtp_old 1472 true mki_length 1462 = WSent 1476 /\ write_rtcp_old 1472 true mki_length 1458 = WSent 1476 /\
  tcp_frame 1472 1476 = Some (1476, 1476) /\
  write_rtp 1472 true mki_length 1462 = WErr /\ write_rtp 1472 true mki_length 1458 = WSent 1472 /\
  write_rtcp 1472 true mki_length 1458 = WErr /\ write_rtcp 1472 true mki_length 1454 = WSent 1472.
Proof. exact old_mki_oversize. Qed.

Example C18_regression_tiny_max :
  (forall mki size, write_rtp_old 8 true mki size = WPanic) /\
  (forall size, write_rtp 8 true 0 size = WErr) /\ (forall size, write_rtp (-1) false 0 size = WErr).
Proof. exact old_tiny_max_panic. Qed.

(* ---- BRIDGE (tools/go2coq) ----
   The size arithmetic TRANSLATED from the Go source on this run is the arithmetic of the model, for every entry
   point: write_rtp / write_rtcp ARE the write paths written with the translated budget statement
   (maxPlainPacketSize -= overhead + len(mki); the overhead constants come from GVG.Consts) and the translated tests
   (maxPlainPacketSize < 0, len(plain) > maxPlainPacketSize) of clientFormat / serverStreamFormat /
   serverSessionFormat and of clientMedia / serverStreamMedia / serverSessionMedia / serverMulticastWriterMedia;
   start_ok IS Start's validation written with the four translated conditions of Server.Start and of Client.Start;
   tcp_frame IS the interleaved write with the translated tcpBuffer size (MaxPacketSize+4, three allocation sites),
   the translated 16-bit length bytes of InterleavedFrame.MarshalTo and the translated MarshalSize header.
   [small] = |x| < 2^61 (no int overflow in the budget). *)
Theorem C18_maxsize_kernels_are_the_code :
  (forall max secure mki size, small max -> small mki ->
     write_rtp max secure mki size = write_rtp_k k_ms_cf_rtp_budget k_ms_cf_rtp_small max secure mki size /\
     write_rtp max secure mki size = write_rtp_k k_ms_stf_rtp_budget k_ms_stf_rtp_small max secure mki size /\
     write_rtp max secure mki size = write_rtp_k k_ms_ssf_rtp_budget k_ms_ssf_rtp_small max secure mki size) /\
  (forall max secure mki size, small max -> small mki ->
     write_rtcp max secure mki size = write_rtcp_k k_ms_cm_rtcp_budget k_ms_cm_rtcp_big max secure mki size /\
     write_rtcp max secure mki size = write_rtcp_k k_ms_stm_rtcp_budget k_ms_stm_rtcp_big max secure mki size /\
     write_rtcp max secure mki size = write_rtcp_k k_ms_ssm_rtcp_budget k_ms_ssm_rtcp_big max secure mki size /\
     write_rtcp max secure mki size = write_rtcp_k k_ms_smm_rtcp_budget k_ms_smm_rtcp_big max secure mki size) /\
  (forall max wq, (wq < 9223372036854775808)%N ->
     start_ok max wq = start_ok_k k_ms_srv_wq_default k_ms_srv_wq_notpow2 k_ms_srv_max_default k_ms_srv_max_too_big max wq /\
     start_ok max wq = start_ok_k k_ms_cli_wq_default k_ms_cli_wq_notpow2 k_ms_cli_max_default k_ms_cli_max_too_big max wq) /\
  (forall max wire, small max -> 0 <= wire < 9223372036854775808 ->
     k_ms_srv_tcpbuf_play max = k_ms_cli_tcpbuf max /\ k_ms_srv_tcpbuf_rec max = k_ms_cli_tcpbuf max /\
     tcp_frame max wire =
       let buflen := k_ms_cli_tcpbuf max in
       if buflen <? k_rtsp_frame_size 0 then None else
       Some (k_rtsp_frame_len_hi wire * 256 + k_rtsp_frame_len_lo wire,
             k_rtsp_frame_size 0 + Z.min wire (buflen - k_rtsp_frame_size 0))).
Proof. exact maxsize_kernels_are_the_code. Qed.
Print Assumptions C18_maxsize_kernels_are_the_code.

(* the translated kernels compute: SRTP budget 1472 - (10 + 4) = 1458, SRTCP budget 1472 - (14 + 4) = 1454; a 1455-byte
   compound report is too big for it, 1454 bytes are not; 1473 is refused by Start, 1472 is not; 24 is not a power of
   two; tcpBuffer of 1472 is 1476 bytes *)
Example C18_example_kernels :
  k_ms_cf_rtp_budget 1472 srtp_overhead 4 = 1458 /\ k_ms_smm_rtcp_budget 1472 srtcp_overhead 4 = 1454 /\
  k_ms_cf_rtp_small (k_ms_cf_rtp_budget 9 srtp_overhead 0) = true /\ k_ms_cf_rtp_small (k_ms_cf_rtp_budget 10 srtp_overhead 0) = false /\
  k_ms_ssm_rtcp_big 1455 1454 = true /\ k_ms_ssm_rtcp_big 1454 1454 = false /\
  k_ms_srv_max_too_big 1473 udp_max = true /\ k_ms_cli_max_too_big 1472 udp_max = false /\
  k_ms_srv_wq_notpow2 24 = true /\ k_ms_cli_wq_notpow2 256 = false /\ k_ms_cli_wq_default 0 = true /\
  k_ms_cli_tcpbuf 1472 = 1476.
Proof. vm_compute. repeat split. Qed.

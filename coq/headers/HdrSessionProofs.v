(* Session and RTP-Info: determinism, totality, round trip *)
From Coq Require Import ZifyBool ZifyNat ZifyN Permutation.
From GVL Require Import NList.
From GV Require Import Res Str StrProofs KeyVal KeyValProofs HdrTransport HdrSession HdrAuthProofs.
Open Scope N_scope.

Lemma sep_ok_semi : sep_ok SEMI = true. Proof. reflexivity. Qed.

Lemma trim_left_first c t : (c =? SP) = false -> trim_left_sp (c :: t) = c :: t.
Proof. intros H. unfold trim_left_sp. now apply drop_while_stop. Qed.

Lemma trim_render sep sg a r : item_ok sep a = true -> trim_left_sp (render_items sg (a :: r)) = render_items sg (a :: r).
Proof. intros H. destruct (render_items_first sep sg a r H) as (c & t & E & Hc). rewrite E. now apply trim_left_first. Qed.

(* ---------- Session ---------- *)
Lemma sstep_commute a b : fst a <> fst b -> commute sstep a b.
Proof.
  intros Hne st. destruct a as [ka va], b as [kb vb]. cbn [fst] in Hne. unfold sstep, obind.
  destruct (list_eqb ka K_timeout) eqn:A1; destruct (list_eqb kb K_timeout) eqn:B1; try same_key_contra.
  - destruct (parse_uint 32 va); cbn [option_map]; rewrite ?B1; reflexivity.
  - destruct (parse_uint 32 vb); cbn [option_map]; rewrite ?A1; reflexivity.
  - reflexivity.
Qed.

Theorem session_deterministic s o1 o2 :
  is_perm o1 -> is_perm o2 -> session_unmarshal_with o1 s = session_unmarshal_with o2 s.
Proof.
  intros H1 H2. unfold session_unmarshal_with. destruct (cut SEMI s) as [[id rest]|]; [|reflexivity].
  destruct (kv_parse (trim_left_sp rest) SEMI) as [m|] eqn:E; [|reflexivity]. unfold sfold.
  rewrite (ofold_order_indep sstep m o1 o2 H1 H2 (kv_parse_keys _ _ _ E)); [reflexivity|].
  intros a b _ _. apply sstep_commute.
Qed.

Theorem session_total o s : session_unmarshal_with o s <> Panic.
Proof.
  unfold session_unmarshal_with. destruct (cut SEMI s) as [[id rest]|]; [|discriminate].
  destruct (kv_parse _ _); [|discriminate]. destruct (sfold _ _); discriminate.
Qed.

Definition wf_session (h : session) : bool :=
  nosep SEMI (s_id h) && opt_all (fun t => t <? 2 ^ 32) (s_timeout h).

Lemma digits_plain_ok sep l : all_digits l = true -> is_digit sep = false -> plain_ok sep l = true.
Proof.
  intros H Hs. unfold plain_ok. rewrite (digits_nosep sep l H Hs). destruct l as [|c t]; [reflexivity|].
  cbn [all_digits forallb] in H. apply andb_true_iff in H as [H _]. unfold is_digit in H. cbn [andb]. unfold DQ. lia.
Qed.

Theorem session_roundtrip_id h : wf_session h = true -> session_unmarshal_with id_order (session_marshal h) = Ok h.
Proof.
  intros Hwf. destruct h as [id to]. unfold wf_session in Hwf. cbn [s_id s_timeout] in Hwf.
  apply andb_true_iff in Hwf as [Hid Hto]. unfold session_unmarshal_with, session_marshal. cbn [s_id s_timeout].
  destruct to as [t|].
  - cbn [opt_all] in Hto. cbn [app]. rewrite (cut_found SEMI id _ Hid).
    assert (Hit : item_ok SEMI (K_timeout, VPlain (fmt_uint t)) = true).
    { apply item_ok_plain; [reflexivity|]. apply digits_plain_ok; [apply fmt_uint_digits|reflexivity]. }
    rewrite (trim_render SEMI [SEMI] _ [] Hit).
    rewrite (kv_parse_render_distinct SEMI []); [|reflexivity|reflexivity| |reflexivity].
    + unfold id_order, sfold. cbn [map item_kv fst snd ofold sstep].
      change (list_eqb K_timeout K_timeout) with true. cbv iota.
      rewrite parse_fmt_uint by lia. reflexivity.
    + cbn [forallb]. now rewrite Hit.
  - rewrite app_nil_r. now rewrite (cut_none SEMI id Hid).
Qed.

Theorem session_roundtrip h o : is_perm o -> wf_session h = true -> session_unmarshal_with o (session_marshal h) = Ok h.
Proof. intros Ho Hwf. rewrite (session_deterministic _ o id_order Ho id_is_perm). now apply session_roundtrip_id. Qed.

(* ---------- RTP-Info ---------- *)
Lemma rstep_commute a b : fst a <> fst b -> commute rstep a b.
Proof.
  intros Hne [en ur]. destruct a as [ka va], b as [kb vb]. cbn [fst] in Hne. unfold rstep, obind.
  destruct (list_eqb ka K_url) eqn:A1; [|destruct (list_eqb ka K_seq) eqn:A2; [|destruct (list_eqb ka K_rtptime) eqn:A3]];
  (destruct (list_eqb kb K_url) eqn:B1; [|destruct (list_eqb kb K_seq) eqn:B2; [|destruct (list_eqb kb K_rtptime) eqn:B3]]);
  try same_key_contra;
  repeat match goal with |- context [parse_uint ?b ?v] => destruct (parse_uint b v) end;
  cbn [option_map e_url e_seq e_ts]; rewrite ?A1, ?A2, ?A3, ?B1, ?B2, ?B3; cbn [option_map e_url e_seq e_ts]; reflexivity.
Qed.

Lemma entry_deterministic part o1 o2 :
  is_perm o1 -> is_perm o2 -> entry_unmarshal_with o1 part = entry_unmarshal_with o2 part.
Proof.
  intros H1 H2. unfold entry_unmarshal_with.
  destruct (kv_parse (trim_left_sp part) SEMI) as [m|] eqn:E; [|reflexivity]. unfold rfold.
  rewrite (ofold_order_indep rstep m o1 o2 H1 H2 (kv_parse_keys _ _ _ E)); [reflexivity|].
  intros a b _ _. apply rstep_commute.
Qed.

Theorem rtpinfo_deterministic s o1 o2 :
  is_perm o1 -> is_perm o2 -> rtpinfo_unmarshal_with o1 s = rtpinfo_unmarshal_with o2 s.
Proof.
  intros H1 H2. unfold rtpinfo_unmarshal_with. f_equal. apply map_ext. intros p. now apply entry_deterministic.
Qed.

Lemma all_ok_no_panic {A} (l : list (res A)) : (forall r, In r l -> r <> Panic) -> all_ok l <> Panic.
Proof.
  induction l as [|r t IH]; intros H; cbn [all_ok]; [discriminate|].
  destruct r as [x| |]; cbn [bind]; try discriminate.
  - specialize (IH (fun r Hr => H r (or_intror Hr))). destruct (all_ok t); cbn [bind]; try discriminate. contradiction.
  - exfalso. apply (H Panic); [now left|reflexivity].
Qed.

Theorem rtpinfo_total o s : rtpinfo_unmarshal_with o s <> Panic.
Proof.
  unfold rtpinfo_unmarshal_with. apply all_ok_no_panic. intros r Hr. apply in_map_iff in Hr as (p & <- & _).
  unfold entry_unmarshal_with. destruct (kv_parse _ _); [|discriminate]. destruct (rfold _ _) as [[e [|]]|]; discriminate.
Qed.

Definition wf_entry (e : rtpinfo_entry) : bool :=
  plain_ok SEMI (e_url e) && nosep COMMA (e_url e) && opt_all (fun x => x <? 2 ^ 16) (e_seq e) && opt_all (fun x => x <? 2 ^ 32) (e_ts e).
Definition wf_rtpinfo (h : list rtpinfo_entry) : bool :=
  match h with [] => false | _ => forallb wf_entry h end.

Lemma split_on_join sep ls : ls <> [] -> forallb (nosep sep) ls = true -> split_on sep (join [sep] ls) = ls.
Proof.
  induction ls as [|a r IH]; intros Hne H; [congruence|].
  cbn [forallb] in H. apply andb_true_iff in H as [Ha Hr].
  destruct r as [|b r].
  - cbn [join]. now apply split_on_clean.
  - change (join [sep] (a :: b :: r)) with (a ++ sep :: join [sep] (b :: r)).
    rewrite split_on_cons by exact Ha. f_equal. apply IH; [discriminate|exact Hr].
Qed.

Lemma entry_item_ok e : wf_entry e = true -> forallb (item_ok SEMI) (entry_kvitems e) = true.
Proof.
  intros H. unfold wf_entry in H. rewrite !andb_true_iff in H. destruct H as [[[Hu Hc] Hs] Ht].
  unfold entry_kvitems. destruct (e_seq e), (e_ts e); cbn [opt_it app forallb];
  rewrite !item_ok_plain by (first [reflexivity | exact Hu | apply digits_plain_ok; [apply fmt_uint_digits|reflexivity]]); reflexivity.
Qed.

Lemma rstep_url en ur v : rstep (en, ur) (K_url, v) = Some (mkEntry v (e_seq en) (e_ts en), true).
Proof. reflexivity. Qed.
Lemma rstep_seq en ur x : x < 2 ^ 16 ->
  rstep (en, ur) (K_seq, fmt_uint x) = Some (mkEntry (e_url en) (Some x) (e_ts en), ur).
Proof.
  intros H. unfold rstep. change (list_eqb K_seq K_url) with false. change (list_eqb K_seq K_seq) with true. cbv iota.
  now rewrite parse_fmt_uint.
Qed.
Lemma rstep_ts en ur x : x < 2 ^ 32 ->
  rstep (en, ur) (K_rtptime, fmt_uint x) = Some (mkEntry (e_url en) (e_seq en) (Some x), ur).
Proof.
  intros H. unfold rstep. change (list_eqb K_rtptime K_url) with false. change (list_eqb K_rtptime K_seq) with false.
  change (list_eqb K_rtptime K_rtptime) with true. cbv iota. now rewrite parse_fmt_uint.
Qed.

Lemma entry_roundtrip_id e : wf_entry e = true -> entry_unmarshal_with id_order (entry_marshal e) = Ok e.
Proof.
  intros Hwf. pose proof (entry_item_ok e Hwf) as Hok.
  unfold wf_entry in Hwf. rewrite !andb_true_iff in Hwf. destruct Hwf as [[[Hu Hc] Hs] Ht].
  unfold entry_unmarshal_with, entry_marshal.
  destruct e as [url sq ts]. cbn [e_url e_seq e_ts] in *.
  assert (Hfirst : item_ok SEMI (K_url, VPlain url) = true) by (apply item_ok_plain; [reflexivity|exact Hu]).
  unfold entry_kvitems in *. cbn [e_url e_seq e_ts app] in *.
  rewrite (trim_render SEMI [SEMI] _ _ Hfirst).
  rewrite (kv_parse_render_distinct SEMI []); [|reflexivity|reflexivity|exact Hok|destruct sq, ts; reflexivity].
  unfold id_order, rfold.
  destruct sq as [sq|], ts as [ts|]; cbn [opt_all] in Hs, Ht; cbn [opt_it app map ofold]; unfold item_kv; cbn [fst snd].
  all: rewrite rstep_url; cbn [e_url e_seq e_ts];
  rewrite ?rstep_seq by lia; cbn [e_url e_seq e_ts];
  rewrite ?rstep_ts by lia; cbn [e_url e_seq e_ts]; reflexivity.
Qed.

Lemma nosep_render_plain c sg its :
  nosep c sg = true -> forallb (fun it => nosep c (render_item it)) its = true -> nosep c (render_items sg its) = true.
Proof.
  intros Hsg. induction its as [|a r IH]; intros H; [reflexivity|].
  cbn [forallb] in H. apply andb_true_iff in H as [Ha Hr].
  destruct r as [|b r]; [exact Ha|]. rewrite render_items_cons2, !nosep_app, Ha, Hsg. cbn [andb]. now apply IH.
Qed.

Lemma nosep_render_item_plain c k v :
  nosep c k = true -> (EQ =? c) = false -> nosep c v = true -> nosep c (render_item (k, VPlain v)) = true.
Proof.
  intros Hk He Hv. unfold render_item. cbn [fst snd]. rewrite !nosep_app, Hk, Hv.
  cbn [nosep forallb]. now rewrite He.
Qed.

Lemma entry_marshal_nocomma e : wf_entry e = true -> nosep COMMA (entry_marshal e) = true.
Proof.
  intros H. unfold wf_entry in H. rewrite !andb_true_iff in H. destruct H as [[[Hu Hc] Hs] Ht].
  unfold entry_marshal. apply nosep_render_plain; [reflexivity|].
  unfold entry_kvitems. destruct (e_seq e), (e_ts e); cbn [opt_it app forallb];
  rewrite !nosep_render_item_plain by (first [reflexivity | exact Hc | apply digits_nosep; [apply fmt_uint_digits|reflexivity]]);
  reflexivity.
Qed.

Lemma all_ok_map_ok {A} (l : list A) : all_ok (map Ok l) = Ok l.
Proof. induction l as [|x t IH]; cbn [map all_ok bind]; [reflexivity|]. now rewrite IH. Qed.

Theorem rtpinfo_roundtrip_id h : wf_rtpinfo h = true -> rtpinfo_unmarshal_with id_order (rtpinfo_marshal h) = Ok h.
Proof.
  intros Hwf. unfold rtpinfo_unmarshal_with, rtpinfo_marshal.
  assert (Hne : h <> []) by (destruct h; [discriminate|discriminate]).
  assert (Hall : forallb wf_entry h = true) by (destruct h; [discriminate|exact Hwf]).
  rewrite split_on_join.
  - rewrite map_map. transitivity (all_ok (map Ok h)); [|apply all_ok_map_ok]. f_equal. apply map_ext_in. intros e He.
    apply entry_roundtrip_id. rewrite forallb_forall in Hall. now apply Hall.
  - destruct h; [congruence|discriminate].
  - rewrite forallb_forall. intros x Hx. apply in_map_iff in Hx as (e & <- & He).
    apply entry_marshal_nocomma. rewrite forallb_forall in Hall. now apply Hall.
Qed.

Theorem rtpinfo_roundtrip h o : is_perm o -> wf_rtpinfo h = true -> rtpinfo_unmarshal_with o (rtpinfo_marshal h) = Ok h.
Proof. intros Ho Hwf. rewrite (rtpinfo_deterministic _ o id_order Ho id_is_perm). now apply rtpinfo_roundtrip_id. Qed.

(* An executable, exact-rational model of the IEEE-754 binary64 operations range.go relies on:
   strconv.ParseFloat(s, 64) (Go syntax: decimal, hex, underscores, inf/nan), float64 multiplication by
   1e9, conversion float64 -> int64 as compiled on amd64 (CVTTSD2SQ: truncation, 0x8000000000000000 when out
   of range or NaN), time.Duration.Seconds(), strconv.FormatFloat(x, 'f', -1, 64) (shortest digits that
   round-trip, closest to x).  Subnormal results are not modelled separately: every subnormal operand is far
   below 1e-9 s and contributes 0 ns either way.  Validated against Go on every run by the harness. *)
From Coq Require Import String.
From GVL Require Import NList.
From GV Require Import Res Str.
Open Scope N_scope.

(* value of [DFin neg m e] = (-1)^neg * m * 2^e ; m = 0 (zero) or 2^52 <= m < 2^53 *)
Inductive dbl := DNaN | DInf (neg : bool) | DFin (neg : bool) (m : N) (e : Z).

Definition pow2 (k : N) : N := N.shiftl 1 k.
Definition P52 : N := Eval vm_compute in 2 ^ 52.
Definition P53 : N := Eval vm_compute in 2 ^ 53.
Definition P63 : N := Eval vm_compute in 2 ^ 63.
Definition P64 : N := Eval vm_compute in 2 ^ 64.
Definition E9 : N := 1000000000.

(* bit length as Z (0 for 0) *)
Definition zsize (p : N) : Z := Z.of_N (N.size p).

(* round-to-nearest-even of the positive rational p/q (p, q > 0) to 53 significant bits: (m, e) *)
Definition r53 (p q : N) : N * Z :=
  let k := (zsize p - zsize q)%Z in                (* 2^(k-1) < p/q < 2^(k+1) *)
  let go (e : Z) : N * N * N :=                    (* quotient, remainder, denominator at exponent e *)
    let num := if (e <? 0)%Z then p * pow2 (Z.to_N (- e)) else p in
    let den := if (e <? 0)%Z then q else q * pow2 (Z.to_N e) in
    (num / den, num mod den, den) in
  let e0 := (k - 54)%Z in                          (* quotient in (2^52, 2^55) *)
  let '(q0, _, _) := go e0 in
  let e1 := if q0 <? P53 then e0 else if q0 <? 2 * P53 then (e0 + 1)%Z else (e0 + 2)%Z in
  let '(qt, rm, den) := go e1 in
  let up := if 2 * rm <? den then false else if den <? 2 * rm then true else N.odd qt in
  let m := if up then qt + 1 else qt in
  if m =? P53 then (P52, (e1 + 1)%Z) else (m, e1).

(* finite result or overflow to infinity (max finite = (2^53-1) * 2^971) *)
Definition mk_fin (neg : bool) (p q : N) : dbl :=
  if p =? 0 then DFin neg 0 0 else
  let '(m, e) := r53 p q in
  if (971 <? e)%Z then DInf neg else DFin neg m e.

Definition pow10 (k : N) : N := 10 ^ k.

(* m * 2^e2 * 10^e10 as a rational *)
Definition mk_scaled (neg : bool) (m : N) (e2 e10 : Z) : dbl :=
  let p1 := if (0 <=? e2)%Z then m * pow2 (Z.to_N e2) else m in
  let q1 := if (0 <=? e2)%Z then 1 else pow2 (Z.to_N (- e2)) in
  let p2 := if (0 <=? e10)%Z then p1 * pow10 (Z.to_N e10) else p1 in
  let q2 := if (0 <=? e10)%Z then q1 else q1 * pow10 (Z.to_N (- e10)) in
  mk_fin neg p2 q2.

(* x * y for a finite x and an exactly representable positive integer constant y *)
Definition dmul_int (x : dbl) (y : N) : dbl :=
  match x with
  | DFin neg m e => mk_scaled neg (m * y) e 0
  | _ => x
  end.

(* int64(x) on amd64, as a two's complement value in Z *)
Definition MININT : Z := (- Z.of_N P63)%Z.
Definition to_int64 (x : dbl) : Z :=
  match x with
  | DFin neg m e =>
    let v := if (0 <=? e)%Z then m * pow2 (Z.to_N e) else m / pow2 (Z.to_N (- e)) in
    if P63 <=? v then MININT else if neg then (- Z.of_N v)%Z else Z.of_N v
  | _ => MININT
  end.

(* int64(math.Round(x)) on amd64: round half away from zero, then the conversion above *)
Definition to_int64_round (x : dbl) : Z :=
  match x with
  | DFin neg m e =>
    let v := if (0 <=? e)%Z then m * pow2 (Z.to_N e)
             else let d := pow2 (Z.to_N (- e)) in
                  let q := m / d in let r := m mod d in
                  if d <=? 2 * r then q + 1 else q in
    if P63 <=? v then MININT else if neg then (- Z.of_N v)%Z else Z.of_N v
  | _ => MININT
  end.

Definition w64z (z : Z) : Z := (z mod Z.of_N P64)%Z.
Definition s64z (z : Z) : Z := if (z <? Z.of_N P63)%Z then z else (z - Z.of_N P64)%Z.
Definition wrap64 (z : Z) : Z := s64z (w64z z).

(* ---------- strconv.ParseFloat ---------- *)
Definition lower_c (c : N) : N := if (65 <=? c) && (c <=? 90) then c + 32 else c.
Fixpoint ieq (s t : list N) : bool :=          (* case-insensitive equality with a lower-case target *)
  match s, t with
  | [], [] => true
  | c :: s', d :: t' => (lower_c c =? d) && ieq s' t'
  | _, _ => false
  end.
Definition S_inf := Eval vm_compute in str "inf".
Definition S_infinity := Eval vm_compute in str "infinity".
Definition S_nan := Eval vm_compute in str "nan".

(* underscoreOK; saw: 0 = '^', 1 = digit, 2 = '_', 3 = other *)
Fixpoint uok_loop (hex : bool) (saw : N) (s : list N) : bool :=
  match s with
  | [] => negb (saw =? 2)
  | c :: t =>
    if is_digit c || (hex && (97 <=? lower_c c) && (lower_c c <=? 102)) then uok_loop hex 1 t
    else if c =? 95 then (if saw =? 1 then uok_loop hex 2 t else false)
    else if saw =? 2 then false
    else uok_loop hex 3 t
  end.
Definition underscore_ok (s : list N) : bool :=
  let s1 := match s with c :: t => if (c =? 45) || (c =? 43) then t else s | [] => s end in
  match s1 with
  | 48 :: c :: t =>
    let lc := lower_c c in
    if (lc =? 98) || (lc =? 111) || (lc =? 120) then uok_loop (lc =? 120) 1 t else uok_loop false 0 s1
  | _ => uok_loop false 0 s1
  end.

(* digit loop of readFloat: state = mantissa (all digits, exact), nd, dp, sawdot, sawdigits, underscores *)
Record fstate := mkF { f_m : N; f_nd : Z; f_dp : Z; f_dot : bool; f_dig : bool; f_us : bool }.

Fixpoint fdigits (base16 : bool) (st : fstate) (s : list N) : fstate * list N :=
  match s with
  | [] => (st, [])
  | c :: t =>
    if c =? 95 then fdigits base16 (mkF (f_m st) (f_nd st) (f_dp st) (f_dot st) (f_dig st) true) t
    else if c =? 46 then
      if f_dot st then (st, s)
      else fdigits base16 (mkF (f_m st) (f_nd st) (f_nd st) true (f_dig st) (f_us st)) t
    else if is_digit c then
      if (c =? 48) && (f_nd st =? 0)%Z
      then fdigits base16 (mkF (f_m st) (f_nd st) (f_dp st - 1)%Z (f_dot st) true (f_us st)) t
      else fdigits base16 (mkF ((if base16 then 16 else 10) * f_m st + (c - 48)) (f_nd st + 1)%Z (f_dp st) (f_dot st) true (f_us st)) t
    else if base16 && (97 <=? lower_c c) && (lower_c c <=? 102) then
      fdigits base16 (mkF (16 * f_m st + (lower_c c - 87)) (f_nd st + 1)%Z (f_dp st) (f_dot st) true (f_us st)) t
    else (st, s)
  end.

(* exponent digits: value capped as in Go, rest, saw underscore *)
Fixpoint fexp (e : N) (us : bool) (s : list N) : N * bool * list N :=
  match s with
  | c :: t =>
    if is_digit c then fexp (if e <? 10000 then 10 * e + (c - 48) else e) us t
    else if c =? 95 then fexp e true t
    else (e, us, s)
  | [] => (e, us, [])
  end.

(* readFloat + conversion; None = syntax or range error *)
Definition read_float (s : list N) : option dbl :=
  let '(neg, s1) := match s with
                    | 43 :: t => (false, t)
                    | 45 :: t => (true, t)
                    | _ => (false, s)
                    end in
  let '(hex, s2) := match s1 with
                    | 48 :: x :: c :: t => if lower_c x =? 120 then (true, c :: t) else (false, s1)
                    | _ => (false, s1)
                    end in
  let '(st, s3) := fdigits hex (mkF 0 0 0 false false false) s2 in
  if negb (f_dig st) then None else
  let dp0 := if f_dot st then f_dp st else f_nd st in
  let dp1 := if hex then (4 * dp0)%Z else dp0 in
  let ndm := if hex then (4 * f_nd st)%Z else f_nd st in
  (* optional exponent *)
  let expchar := if hex then 112 else 101 in
  let r : option (Z * bool * list N) :=
    match s3 with
    | c :: t =>
      if lower_c c =? expchar then
        match t with
        | [] => None
        | c1 :: t1 =>
          let '(esign, t2) := if c1 =? 43 then (1%Z, t1) else if c1 =? 45 then ((-1)%Z, t1) else (1%Z, t) in
          match t2 with
          | c2 :: _ =>
            if is_digit c2 then
              let '(e, us, rest) := fexp 0 false t2 in
              Some ((dp1 + Z.of_N e * esign)%Z, us, rest)
            else None
          | [] => None
          end
        end
      else if hex then None else Some (dp1, false, s3)
    | [] => if hex then None else Some (dp1, false, [])
    end in
  match r with
  | None => None
  | Some (dp2, us2, rest) =>
    match rest with
    | _ :: _ => None                       (* ParseFloat requires the whole string to be consumed *)
    | [] =>
      if (f_us st || us2) && negb (underscore_ok s) then None else
      if f_m st =? 0 then Some (DFin neg 0 0) else
      let ex := (dp2 - ndm)%Z in
      if hex then
        match mk_scaled neg (f_m st) ex 0 with
        | DInf _ => None
        | d => Some d
        end
      else
        (* decimal: magnitude guard so that absurd exponents cost nothing *)
        let mag := (f_nd st + ex)%Z in       (* value < 10^mag *)
        if (330 <? mag)%Z then None
        else if (mag <? -400)%Z then Some (DFin neg 0 0)
        else match mk_scaled neg (f_m st) 0 ex with
             | DInf _ => None
             | d => Some d
             end
    end
  end.

Definition parse_float (s : list N) : option dbl :=
  (* special() *)
  let body := match s with
              | c :: t => if (c =? 43) || (c =? 45) then t else s
              | [] => s
              end in
  let neg := match s with 45 :: _ => true | _ => false end in
  if ieq body S_inf || ieq body S_infinity then Some (DInf neg)
  else if ieq s S_nan then Some DNaN
  else read_float s.

(* ---------- time.Duration.Seconds() for d >= 0 ---------- *)
Definition dadd_pos (a b : dbl) : dbl :=     (* sum of two non-negative finite doubles *)
  match a, b with
  | DFin _ m1 e1, DFin _ m2 e2 =>
    let e := Z.min e1 e2 in
    let p := m1 * pow2 (Z.to_N (e1 - e)) + m2 * pow2 (Z.to_N (e2 - e)) in
    mk_scaled false p e 0
  | _, _ => DNaN
  end.
Definition seconds_of (d : N) : dbl :=
  let sec := d / E9 in
  let nsec := d mod E9 in
  dadd_pos (mk_fin false sec 1) (mk_fin false nsec E9).

(* ---------- FormatFloat(x, 'f', -1, 64) for finite x >= 0 ---------- *)
(* floor(log10 (p/q)) for p, q > 0 *)
Definition ge_pow10 (p q : N) (l : Z) : bool :=      (* 10^l <= p/q *)
  if (0 <=? l)%Z then q * pow10 (Z.to_N l) <=? p else q <=? p * pow10 (Z.to_N (- l)).
Definition ilog10 (p q : N) : Z :=
  let l0 := (((zsize p - zsize q) * 30103) / 100000 - 1)%Z in
  let l1 := if ge_pow10 p q (l0 + 1) then (l0 + 1)%Z else l0 in
  let l2 := if ge_pow10 p q (l1 + 1) then (l1 + 1)%Z else l1 in
  let l3 := if ge_pow10 p q (l2 + 1) then (l2 + 1)%Z else l2 in
  if ge_pow10 p q l3 then l3 else (l3 - 1)%Z.

(* shortest digits: Some (d, k) with value d / 10^k *)
Fixpoint shortest_loop (fuel : nat) (n : Z) (m : N) (p q : N) (lg : Z) : N * Z :=
  let k := (n - 1 - lg)%Z in
  let P := if (0 <=? k)%Z then p * pow10 (Z.to_N k) else p in
  let Q := if (0 <=? k)%Z then q else q * pow10 (Z.to_N (- k)) in
  let f := P / Q in
  let r := P mod Q in
  match fuel with
  | O => (f, k)
  | S fuel' =>
    if r =? 0 then (f, k) else
    let even := N.even m in
    let lowmul := if m =? P52 then 4 * m else 2 * m in
    let okf := if even then r * lowmul <=? P else r * lowmul <? P in
    let okc := if even then (Q - r) * (2 * m) <=? P else (Q - r) * (2 * m) <? P in
    if okf && okc then
      (if 2 * r <? Q then (f, k) else if Q <? 2 * r then (f + 1, k) else if N.even f then (f, k) else (f + 1, k))
    else if okf then (f, k)
    else if okc then (f + 1, k)
    else shortest_loop fuel' (n + 1)%Z m p q lg
  end.

Fixpoint pad_left_aux (fuel : nat) (w : N) (l : list N) : list N :=
  match fuel with
  | O => l
  | S f => if nlen l <? w then pad_left_aux f w (48 :: l) else l
  end.
Definition pad_left (n : nat) (l : list N) : list N := pad_left_aux n (N.of_nat n) l.   (* zero-pad to n characters *)
Fixpoint strip_zeros_rev (l : list N) : list N :=
  match l with 48 :: t => strip_zeros_rev t | _ => l end.

Definition fmt_fixed (d : N) (k : Z) : list N :=
  if (k <=? 0)%Z then fmt_uint (d * pow10 (Z.to_N (- k)))
  else
    let sc := pow10 (Z.to_N k) in
    let ip := d / sc in
    let fp := d mod sc in
    if fp =? 0 then fmt_uint ip
    else fmt_uint ip ++ [46] ++ rev (strip_zeros_rev (rev (pad_left (Z.to_nat k) (fmt_uint fp)))).

Definition format_float (x : dbl) : list N :=
  match x with
  | DFin neg m e =>
    if m =? 0 then [48] else
    let p := if (0 <=? e)%Z then m * pow2 (Z.to_N e) else m in
    let q := if (0 <=? e)%Z then 1 else pow2 (Z.to_N (- e)) in
    let '(d, k) := shortest_loop 17 1 m p q (ilog10 p q) in
    (if neg then [45] else []) ++ fmt_fixed d k
  | _ => []
  end.

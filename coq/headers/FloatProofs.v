(* exactness of the binary64 model on small integers: Duration.Seconds() of a whole-second duration *)
From Coq Require Import ZifyBool ZifyNat ZifyN.
From GVL Require Import NList.
From GV Require Import Res Str Float.
Open Scope N_scope.

Lemma pow2_spec k : pow2 k = 2 ^ k.
Proof. unfold pow2. rewrite N.shiftl_mul_pow2. lia. Qed.

Lemma size_pow2 k : N.size (2 ^ k) = k + 1.
Proof. rewrite N.size_log2 by (apply N.pow_nonzero; lia). rewrite N.log2_pow2 by lia. lia. Qed.

Lemma size_bounds p : 0 < p -> 2 ^ (N.size p - 1) <= p < 2 ^ N.size p.
Proof.
  intros H. rewrite N.size_log2 by lia. replace (N.succ (N.log2 p) - 1) with (N.log2 p) by lia.
  apply N.log2_spec. exact H.
Qed.

Lemma pow2_split a b : 2 ^ (a + b) = 2 ^ a * 2 ^ b.
Proof. apply N.pow_add_r. Qed.

Lemma r53_pow2 p k : 0 < p -> p < P53 ->
  r53 p (pow2 k) = (p * pow2 (53 - N.size p), (Z.of_N (N.size p) - 53 - Z.of_N k)%Z).
Proof.
  intros Hp Hlt. pose proof (size_bounds p Hp) as [Hlo Hhi].
  set (s := N.size p) in *.
  assert (Hs1 : 1 <= s). { unfold s. rewrite N.size_log2 by lia. lia. }
  assert (Hs53 : s <= 53).
  { destruct (N.le_gt_cases s 53) as [|Hgt]; [assumption|]. exfalso.
    assert (2 ^ 53 <= 2 ^ (s - 1)) by (apply N.pow_le_mono_r; lia). change P53 with (2 ^ 53) in Hlt. lia. }
  unfold r53. fold s. unfold zsize. rewrite pow2_spec, size_pow2. fold s.
  replace (Z.of_N s - Z.of_N (k + 1) - 54)%Z with (Z.of_N s - Z.of_N k - 55)%Z by lia.
  set (e0 := (Z.of_N s - Z.of_N k - 55)%Z).
  assert (He0 : (e0 <? 0)%Z = true) by (unfold e0; lia).
  cbv zeta. rewrite He0.
  assert (Hn0 : Z.to_N (- e0) = k + (55 - s)) by (unfold e0; lia).
  rewrite Hn0, !pow2_spec, pow2_split.
  assert (Hq0 : p * (2 ^ k * 2 ^ (55 - s)) / 2 ^ k = p * 2 ^ (55 - s)).
  { replace (p * (2 ^ k * 2 ^ (55 - s))) with (p * 2 ^ (55 - s) * 2 ^ k) by lia. apply N.div_mul. apply N.pow_nonzero. lia. }
  rewrite Hq0.
  assert (Hbig : 2 * P53 <= p * 2 ^ (55 - s)).
  { change (2 * P53) with (2 ^ 54). replace 54 with ((s - 1) + (55 - s)) by lia. rewrite pow2_split.
    apply N.mul_le_mono_r. exact Hlo. }
  destruct (N.ltb_spec (p * 2 ^ (55 - s)) P53) as [Hc|_]; [change P53 with (2^53) in *; lia|].
  destruct (N.ltb_spec (p * 2 ^ (55 - s)) (2 * P53)) as [Hc|_]; [lia|].
  replace (e0 + 2)%Z with (Z.of_N s - 53 - Z.of_N k)%Z by (unfold e0; lia).
  set (e1 := (Z.of_N s - 53 - Z.of_N k)%Z).
  assert (Hqt : p * 2 ^ (53 - s) < P53).
  { change P53 with (2 ^ 53). replace 53 with (s + (53 - s)) at 2 by lia. rewrite pow2_split.
    apply N.mul_lt_mono_pos_r; [|exact Hhi]. apply N.neq_0_lt_0, N.pow_nonzero. lia. }
  destruct (Z.ltb_spec e1 0) as [Hneg|Hpos].
  - assert (Hn1 : Z.to_N (- e1) = k + (53 - s)) by (unfold e1; lia).
    rewrite Hn1, ?pow2_spec, pow2_split.
    assert (Hq1 : p * (2 ^ k * 2 ^ (53 - s)) / 2 ^ k = p * 2 ^ (53 - s)).
    { replace (p * (2 ^ k * 2 ^ (53 - s))) with (p * 2 ^ (53 - s) * 2 ^ k) by lia. apply N.div_mul. apply N.pow_nonzero. lia. }
    assert (Hr1 : (p * (2 ^ k * 2 ^ (53 - s))) mod 2 ^ k = 0).
    { replace (p * (2 ^ k * 2 ^ (53 - s))) with (p * 2 ^ (53 - s) * 2 ^ k) by lia. apply N.mod_mul. apply N.pow_nonzero. lia. }
    rewrite Hq1, Hr1.
    assert (Hden : 0 < 2 ^ k) by (apply N.neq_0_lt_0, N.pow_nonzero; lia).
    destruct (N.ltb_spec (2 * 0) (2 ^ k)) as [_|Hc]; [|lia].
    destruct (N.eqb_spec (p * 2 ^ (53 - s)) P53) as [Hc|_]; [lia|]. reflexivity.
  - assert (s = 53 /\ k = 0) as [Es Ek] by (unfold e1 in Hpos; lia).
    assert (Hz : Z.to_N e1 = 0) by (unfold e1; lia).
    rewrite Hz, Ek, ?pow2_spec. rewrite Es. change (53 - 53) with 0. change (2 ^ 0) with 1.
    rewrite !N.mul_1_r, N.div_1_r, N.mod_1_r.
    change (2 * 0 <? 1) with true. cbv iota.
    destruct (N.eqb_spec p P53) as [Hc|_]; [lia|]. reflexivity.
Qed.

(* Duration.Seconds() of S whole seconds is exactly S, and converts back to S *)
Theorem seconds_whole S : S < P53 -> to_int64 (seconds_of (S * E9)) = Z.of_N S.
Proof.
  intros HS. unfold seconds_of.
  assert (E1 : S * E9 / E9 = S) by (apply N.div_mul; discriminate).
  assert (E2 : (S * E9) mod E9 = 0) by (apply N.mod_mul; discriminate).
  rewrite E1, E2. change (mk_fin false 0 E9) with (DFin false 0 0).
  destruct (N.eq_dec S 0) as [->|Hnz]; [reflexivity|].
  assert (Hpos : 0 < S) by lia.
  unfold mk_fin at 1. destruct (N.eqb_spec S 0) as [|_]; [contradiction|].
  change 1 with (pow2 0) at 1. rewrite (r53_pow2 S 0 Hpos HS).
  pose proof (size_bounds S Hpos) as [Hlo Hhi]. set (s := N.size S) in *.
  assert (Hs1 : 1 <= s). { unfold s. rewrite N.size_log2 by lia. lia. }
  assert (Hs53 : s <= 53).
  { destruct (N.le_gt_cases s 53) as [|Hgt]; [assumption|]. exfalso.
    assert (2 ^ 53 <= 2 ^ (s - 1)) by (apply N.pow_le_mono_r; lia). change P53 with (2 ^ 53) in HS. lia. }
  set (m := S * pow2 (53 - s)). set (e := (Z.of_N s - 53 - Z.of_N 0)%Z).
  assert (He : (e <= 0)%Z) by (unfold e; lia).
  destruct (Z.ltb_spec 971 e) as [Hc|_]; [lia|].
  (* m is normalised *)
  assert (Hm_lo : P52 <= m).
  { unfold m. rewrite pow2_spec. change P52 with (2 ^ 52). replace 52 with ((s - 1) + (53 - s)) by lia.
    rewrite pow2_split. apply N.mul_le_mono_r. exact Hlo. }
  assert (Hm_hi : m < P53).
  { unfold m. rewrite pow2_spec. change P53 with (2 ^ 53). replace 53 with (s + (53 - s)) at 2 by lia. rewrite pow2_split.
    apply N.mul_lt_mono_pos_r; [|exact Hhi]. apply N.neq_0_lt_0, N.pow_nonzero. lia. }
  assert (Hm_size : N.size m = 53).
  { rewrite N.size_log2 by (change P52 with (2^52) in Hm_lo; lia).
    assert (N.log2 m = 52); [|lia]. apply N.log2_unique; [lia|]. change (2 ^ N.succ 52) with P53. change (2 ^ 52) with P52. lia. }
  (* the addition with zero *)
  unfold dadd_pos. rewrite Z.min_l by lia. rewrite Z.sub_diag. change (pow2 (Z.to_N 0)) with 1. rewrite N.mul_1_r, N.mul_0_l, N.add_0_r.
  unfold mk_scaled. change (0 <=? 0)%Z with true. cbv iota. change (pow10 (Z.to_N 0)) with 1. rewrite N.mul_1_r.
  assert (Hfin : forall q k, q = pow2 k -> (Z.of_N k = - e)%Z -> mk_fin false m q = DFin false m e).
  { intros q k -> Hk. unfold mk_fin. destruct (N.eqb_spec m 0) as [Hc|_]; [change P52 with (2^52) in Hm_lo; lia|].
    rewrite (r53_pow2 m k); [|change P52 with (2^52) in Hm_lo; lia|exact Hm_hi].
    rewrite Hm_size. change (53 - 53) with 0. change (pow2 0) with 1. rewrite N.mul_1_r.
    replace (Z.of_N 53 - 53 - Z.of_N k)%Z with e by lia.
    destruct (Z.ltb_spec 971 e) as [Hc|_]; [lia|]. reflexivity. }
  destruct (Z.leb_spec 0 e) as [Hz|Hneg].
  - assert (e = 0%Z) by lia.
    replace (Z.to_N e) with 0 by lia. change (pow2 0) with 1. rewrite N.mul_1_r.
    rewrite (Hfin 1 0); [|reflexivity|lia].
    unfold to_int64. destruct (Z.leb_spec 0 e); [|lia]. replace (Z.to_N e) with 0 by lia. change (pow2 0) with 1. rewrite N.mul_1_r.
    assert (Hms : m = S). { unfold m. replace (53 - s) with 0 by (unfold e in *; lia). change (pow2 0) with 1. lia. }
    rewrite Hms. destruct (N.leb_spec P63 S) as [Hc|_]; [change P63 with (2^63) in Hc; change P53 with (2^53) in HS; lia|]. reflexivity.
  - rewrite (Hfin (pow2 (Z.to_N (- e))) (Z.to_N (- e))); [|reflexivity|lia].
    unfold to_int64. destruct (Z.leb_spec 0 e); [lia|].
    assert (Hk : Z.to_N (- e) = 53 - s) by (unfold e; lia). rewrite Hk.
    unfold m. rewrite N.div_mul by (rewrite pow2_spec; apply N.pow_nonzero; lia).
    destruct (N.leb_spec P63 S) as [Hc|_]; [change P63 with (2^63) in Hc; change P53 with (2^53) in HS; lia|]. reflexivity.
Qed.

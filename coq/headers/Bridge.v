(* BRIDGE: integer kernels of pkg/headers (range.go, transport.go) as TRANSLATED from the Go source on this run
   (GVG.Kern, tools/go2coq; spec lines in tools/go2coq/spec.d/headers.txt) are the formulas of the hand-written models:
     - RangeSMPTETime.unmarshal: time.Duration(seconds+mins*60+hours*3600) * time.Second   -> HdrRange.smpte_unmarshal
     - RangeSMPTETime.marshal: hours / mins / secs by division and remainder, the frame tests -> HdrRange.smpte_marshal
     - unmarshalRangeNPTTime: the integer summand mins*60+hours*3600                         -> HdrRange.npt_unmarshal
     - Transport.Unmarshal, ssrc: the odd-length test, len(tmp) <= 4, the 32-bit big-endian value -> HdrTransport.parse_ssrc
     - parsePorts: the second port of a single-port value, port1 + 1                         -> HdrTransport.parse_ports
   (the MIKEY kernels of the KeyMgmt header are bridged in coq/mikey/Bridge.v) *)
From Coq Require Import ZArith NArith Lia Bool List.
From Coq Require Import ZifyBool ZifyN.
From GVL Require Import NList Wire Wrap.
From GVG Require Import Kern.
From GV Require Import Res Str HdrTransport Float HdrRange.
Import ListNotations.
Open Scope Z_scope.
Ltac Zify.zify_post_hook ::= Z.div_mod_to_equations.

Lemma ki64_small x : -9223372036854775808 <= x < 9223372036854775808 -> ki64 x = x.
Proof. unfold ki64, s64, w64. intros H. destruct (x mod 18446744073709551616 <? 9223372036854775808) eqn:E; lia. Qed.
Lemma w8_small x : 0 <= x < 256 -> w8 x = x.
Proof. unfold w8. lia. Qed.
Lemma w64_small x : 0 <= x < 18446744073709551616 -> w64 x = x.
Proof. unfold w64. lia. Qed.
Lemma land_shifted_small a b k : 0 <= k -> 0 <= b < 2 ^ k -> Z.land (a * 2 ^ k) b = 0.
Proof.
  intros Hk Hb. apply Z.bits_inj'. intros n Hn. rewrite Z.land_spec, Z.bits_0.
  destruct (Z.lt_ge_cases n k) as [L|G].
  - rewrite Z.mul_pow2_bits_low by lia. reflexivity.
  - destruct (Z.eq_dec b 0) as [->|Hnz]; [rewrite Z.bits_0; apply andb_false_r|].
    rewrite (Z.bits_above_log2 b n); [apply andb_false_r|lia|].
    assert (Z.log2 b < k) by (apply Z.log2_lt_pow2; lia). lia.
Qed.
Lemma lor_shifted a b k : 0 <= k -> 0 <= b < 2 ^ k -> Z.lor (a * 2 ^ k) b = a * 2 ^ k + b.
Proof.
  intros Hk Hb. pose proof (land_shifted_small a b k Hk Hb) as E.
  rewrite (Z.add_nocarry_lxor _ _ E). symmetry. apply Z.lxor_lor. exact E.
Qed.
(* x | y = x + y when y < 2^k and 2^k divides x *)
Lemma lor_disj x y k : 0 <= k -> 0 <= y < 2 ^ k -> x mod 2 ^ k = 0 -> Z.lor x y = x + y.
Proof.
  intros Hk Hy Hx. assert (P : 0 < 2 ^ k) by (apply Z.pow_pos_nonneg; lia).
  rewrite (Z.div_mod x (2 ^ k)) at 1 2 by lia. rewrite Hx, Z.add_0_r, (Z.mul_comm (2 ^ k)). apply lor_shifted; assumption.
Qed.
Lemma lor_disj8 x y : 0 <= y < 256 -> x mod 256 = 0 -> Z.lor x y = x + y.
Proof. apply (lor_disj x y 8). lia. Qed.
Lemma lor_disj16 x y : 0 <= y < 65536 -> x mod 65536 = 0 -> Z.lor x y = x + y.
Proof. apply (lor_disj x y 16). lia. Qed.
Lemma lor_disj24 x y : 0 <= y < 16777216 -> x mod 16777216 = 0 -> Z.lor x y = x + y.
Proof. apply (lor_disj x y 24). lia. Qed.
Lemma lor_disj32 x y : 0 <= y < 4294967296 -> x mod 4294967296 = 0 -> Z.lor x y = x + y.
Proof. apply (lor_disj x y 32). lia. Qed.
Lemma lor_disj40 x y : 0 <= y < 1099511627776 -> x mod 1099511627776 = 0 -> Z.lor x y = x + y.
Proof. apply (lor_disj x y 40). lia. Qed.
Lemma lor_disj48 x y : 0 <= y < 281474976710656 -> x mod 281474976710656 = 0 -> Z.lor x y = x + y.
Proof. apply (lor_disj x y 48). lia. Qed.
Lemma lor_disj56 x y : 0 <= y < 72057594037927936 -> x mod 72057594037927936 = 0 -> Z.lor x y = x + y.
Proof. apply (lor_disj x y 56). lia. Qed.
Lemma lor_disj4 x y : 0 <= y < 16 -> x mod 16 = 0 -> Z.lor x y = x + y.
Proof. apply (lor_disj x y 4). lia. Qed.
Lemma lor_disj7 x y : 0 <= y < 128 -> x mod 128 = 0 -> Z.lor x y = x + y.
Proof. apply (lor_disj x y 7). lia. Qed.

(* turn a translated shift / or / wrap expression over bounded variables into +, *, / *)
Ltac shifts :=
  repeat match goal with
  | |- context [Z.shiftl ?x ?n] => rewrite (Z.shiftl_mul_pow2 x n) by lia
  | |- context [Z.shiftr ?x ?n] => rewrite (Z.shiftr_div_pow2 x n) by lia
  end;
  change (2 ^ 4) with 16; change (2 ^ 7) with 128; change (2 ^ 8) with 256; change (2 ^ 16) with 65536;
  change (2 ^ 24) with 16777216; change (2 ^ 32) with 4294967296; change (2 ^ 40) with 1099511627776;
  change (2 ^ 48) with 281474976710656; change (2 ^ 56) with 72057594037927936.
Ltac unwrap1 :=
  match goal with
  | |- context [w8 ?x] => rewrite (w8_small x) by lia
  | |- context [w16 ?x] => rewrite (w16_small x) by lia
  | |- context [w32 ?x] => rewrite (w32_small x) by lia
  | |- context [w64 ?x] => rewrite (w64_small x) by lia
  | |- context [ki64 ?x] => rewrite (ki64_small x) by lia
  | |- context [Z.lor ?x ?y] =>
      first [ rewrite (lor_disj56 x y) by lia | rewrite (lor_disj48 x y) by lia | rewrite (lor_disj40 x y) by lia
            | rewrite (lor_disj32 x y) by lia | rewrite (lor_disj24 x y) by lia | rewrite (lor_disj16 x y) by lia
            | rewrite (lor_disj8 x y) by lia | rewrite (lor_disj7 x y) by lia | rewrite (lor_disj4 x y) by lia ]
  end.
Ltac unwrap := shifts; repeat unwrap1.

Notation zn := Z.of_N.
Definition u64N (x : N) : Prop := (x < 18446744073709551616)%N.

(* the library's int64 normaliser and the headers model's agree *)
Lemma ki64_wrap64 z : ki64 z = wrap64 z.
Proof. reflexivity. Qed.

(* ---------- SMPTE ---------- *)
(* t.Time = time.Duration(seconds+mins*60+hours*3600) * time.Second *)
Lemma bridge_smpte_total secs mins hours : u64N secs -> u64N mins -> u64N hours ->
  k_hd_smpte_total (zn secs) (zn mins) (zn hours) (zn E9) =
  wrap64 (s64z (zn ((secs + mins * 60 + hours * 3600) mod P64)) * zn E9).
Proof.
  unfold u64N, k_hd_smpte_total. intros Hs Hm Hh.
  assert (E : w64 (w64 (zn secs + w64 (zn mins * 60)) + w64 (zn hours * 3600)) =
              zn ((secs + mins * 60 + hours * 3600) mod P64)).
  { unfold w64, P64. lia. }
  rewrite E. change ki64 with wrap64. f_equal. f_equal.
  unfold wrap64. f_equal. unfold w64z. apply Z.mod_small. unfold P64. lia.
Qed.
(* hours := d / 3600 ; d %= 3600 ; mins := d / 60 ; secs := d % 60 *)
Lemma bridge_smpte_hms d : u64N d ->
  k_hd_smpte_hours (zn d) = zn (d / 3600) /\ k_hd_smpte_rem (zn d) = zn (d mod 3600) /\
  k_hd_smpte_mins (zn d) = zn (d / 60) /\ k_hd_smpte_secs (zn d) = zn (d mod 60).
Proof.
  unfold u64N, k_hd_smpte_hours, k_hd_smpte_rem, k_hd_smpte_mins, k_hd_smpte_secs. intros H.
  rewrite !Z.quot_div_nonneg, !Z.rem_mod_nonneg by lia. unfold w64. repeat split; lia.
Qed.
Lemma bridge_smpte_frames f s :
  k_hd_smpte_has_frame (zn f) (zn s) = ((0 <? f) || (0 <? s))%N /\ k_hd_smpte_has_sub (zn s) = (0 <? s)%N.
Proof. unfold k_hd_smpte_has_frame, k_hd_smpte_has_sub. split; lia. Qed.
(* RangeSMPTETime.marshal written with the translated kernels *)
Definition smpte_secs (t : smpte_time) : N := Z.to_N (to_int64 (seconds_of (Z.to_N (sm_time t)))).
Definition smpte_marshal_k (t : smpte_time) : list N :=
  let d := smpte_secs t in
  let hours := Z.to_N (k_hd_smpte_hours (zn d)) in
  let d1 := Z.to_N (k_hd_smpte_rem (zn d)) in
  let mins := Z.to_N (k_hd_smpte_mins (zn d1)) in
  let secs := Z.to_N (k_hd_smpte_secs (zn d1)) in
  (fmt_uint hours ++ [COL] ++ fmt_uint2 mins ++ [COL] ++ fmt_uint2 secs
  ++ (if k_hd_smpte_has_frame (zn (sm_frame t)) (zn (sm_sub t))
      then [COL] ++ fmt_uint2 (sm_frame t) ++ (if k_hd_smpte_has_sub (zn (sm_sub t)) then [DOT] ++ fmt_uint2 (sm_sub t) else [])
      else []))%list.
Theorem smpte_marshal_kernels_are_the_code t : u64N (smpte_secs t) -> smpte_marshal t = smpte_marshal_k t.
Proof.
  intros Hd. unfold smpte_marshal, smpte_marshal_k. fold (smpte_secs t). cbv zeta.
  destruct (bridge_smpte_hms (smpte_secs t) Hd) as (E1 & E2 & _ & _). rewrite E1, E2, !N2Z.id.
  assert (Hd1 : u64N (smpte_secs t mod 3600)) by (unfold u64N in *; lia).
  destruct (bridge_smpte_hms (smpte_secs t mod 3600) Hd1) as (_ & _ & E3 & E4). rewrite E3, E4, !N2Z.id.
  destruct (bridge_smpte_frames (sm_frame t) (sm_sub t)) as [E5 E6]. rewrite E5, E6. reflexivity.
Qed.

(* ---------- NPT: time.Duration(mins*60+hours*3600)*time.Second, the integer part ---------- *)
Lemma bridge_npt_hm mins hours : u64N mins -> u64N hours ->
  k_hd_npt_hm (zn mins) (zn hours) = zn ((mins * 60 + hours * 3600) mod P64).
Proof. unfold u64N, k_hd_npt_hm, w64, P64. intros Hm Hh. lia. Qed.
Lemma bridge_parts_tests n :
  k_hd_smpte_parts_bad (zn n) = negb ((n =? 3) || (n =? 4))%N /\ k_hd_npt_parts_bad (zn n) = (3 <? n)%N.
Proof. unfold k_hd_smpte_parts_bad, k_hd_npt_parts_bad. split; lia. Qed.

(* ---------- Transport: ssrc ---------- *)
Lemma bridge_ssrc_tests n : (n < 9223372036854775808)%N ->
  k_hd_ssrc_odd (zn n) = N.odd n /\ (forall e, k_hd_ssrc_fits e e (zn n) = (n <=? 4)%N).
Proof.
  unfold k_hd_ssrc_odd, k_hd_ssrc_fits. intros H. split.
  - rewrite Z.rem_mod_nonneg by lia. rewrite ki64_small by lia.
    assert (E : (n mod 2 = N.b2n (N.odd n))%N) by (rewrite <- N.bit0_odd; symmetry; apply N.bit0_mod).
    destruct (N.odd n); cbn [N.b2n] in E; lia.
  - intros e. rewrite Z.eqb_refl. cbn [andb]. lia.
Qed.
Lemma bridge_ssrc_value a b c d : (a < 256)%N -> (b < 256)%N -> (c < 256)%N -> (d < 256)%N ->
  k_hd_ssrc_value (zn a) (zn b) (zn c) (zn d) = zn (be_val [a; b; c; d]).
Proof. unfold k_hd_ssrc_value, be_val. cbn [fold_left]. intros. unwrap. lia. Qed.
(* the ssrc case of Transport.Unmarshal written with the translated tests *)
Theorem parse_ssrc_kernels_are_the_code v : (nlen v < 4611686018427387904)%N ->
  parse_ssrc v =
  let v1 := trim_left_sp v in
  let v2 := if k_hd_ssrc_odd (zn (nlen v1)) then 48%N :: v1 else v1 in
  match hex_decode v2 with
  | Some bs => if k_hd_ssrc_fits 0 0 (zn (nlen bs)) then Some (be_val bs) else None
  | None => None
  end.
Proof.
  intros Hv. unfold parse_ssrc. cbv zeta.
  assert (L : (nlen (trim_left_sp v) <= nlen v)%N).
  { unfold trim_left_sp. induction v as [|x t IH]; cbn [drop_while nlen]; [lia|].
    destruct (x =? SP)%N; cbn [nlen]; [|lia].
    assert (nlen t < 4611686018427387904)%N by (cbn [nlen] in Hv; lia). specialize (IH H). lia. }
  destruct (bridge_ssrc_tests (nlen (trim_left_sp v)) ltac:(lia)) as [E1 _]. rewrite E1.
  destruct (hex_decode _) as [bs|]; [|reflexivity].
  destruct (N.leb_spec (nlen bs) 4) as [Hle|Hgt].
  - destruct (bridge_ssrc_tests (nlen bs) ltac:(lia)) as [_ E2]. rewrite E2.
    destruct (N.leb_spec (nlen bs) 4); [reflexivity|lia].
  - unfold k_hd_ssrc_fits. cbn [Z.eqb andb]. destruct (Z.leb_spec (zn (nlen bs)) 4); [lia|reflexivity].
Qed.

(* ---------- parsePorts: a single port p stands for the pair (p, p+1) ---------- *)
Lemma bridge_port_second p : u64N (p + 1) -> k_hd_port_second (zn p) = zn (p + 1).
Proof. unfold u64N, k_hd_port_second, w64. intros H. lia. Qed.

Theorem headers_kernels_are_the_code :
  (forall secs mins hours, u64N secs -> u64N mins -> u64N hours ->
     k_hd_smpte_total (zn secs) (zn mins) (zn hours) (zn E9) =
     wrap64 (s64z (zn ((secs + mins * 60 + hours * 3600) mod P64)) * zn E9)) /\
  (forall t, u64N (smpte_secs t) -> smpte_marshal t = smpte_marshal_k t) /\
  (forall mins hours, u64N mins -> u64N hours ->
     k_hd_npt_hm (zn mins) (zn hours) = zn ((mins * 60 + hours * 3600) mod P64)) /\
  (forall n, k_hd_smpte_parts_bad (zn n) = negb ((n =? 3) || (n =? 4))%N /\ k_hd_npt_parts_bad (zn n) = (3 <? n)%N) /\
  (forall v, (nlen v < 4611686018427387904)%N ->
     parse_ssrc v =
     let v1 := trim_left_sp v in
     let v2 := if k_hd_ssrc_odd (zn (nlen v1)) then 48%N :: v1 else v1 in
     match hex_decode v2 with
     | Some bs => if k_hd_ssrc_fits 0 0 (zn (nlen bs)) then Some (be_val bs) else None
     | None => None
     end) /\
  (forall a b c d, (a < 256)%N -> (b < 256)%N -> (c < 256)%N -> (d < 256)%N ->
     k_hd_ssrc_value (zn a) (zn b) (zn c) (zn d) = zn (be_val [a; b; c; d])) /\
  (forall p, u64N (p + 1) -> k_hd_port_second (zn p) = zn (p + 1)).
Proof.
  split; [exact bridge_smpte_total|]. split; [exact smpte_marshal_kernels_are_the_code|].
  split; [exact bridge_npt_hm|]. split; [exact bridge_parts_tests|].
  split; [exact parse_ssrc_kernels_are_the_code|]. split; [exact bridge_ssrc_value|exact bridge_port_second].
Qed.

(* KeyMgmt: determinism, totality (through mikey_total), round trip (through mikey_roundtrip) *)
From Coq Require Import ZifyBool ZifyNat ZifyN Permutation.
From GVL Require Import NList.
From GV Require Import Res Str StrProofs KeyVal KeyValProofs HdrTransport HdrAuthProofs HdrSessionProofs Mikey MikeyProofs HdrKeyMgmt.
Open Scope N_scope.

Definition commute_r {S} (step : S -> (list N * list N) -> res S) (a b : list N * list N) : Prop :=
  forall st, bind (step st a) (fun s => step s b) = bind (step st b) (fun s => step s a).

Lemma kfold_perm (l l' : list (list N * list N)) :
  Permutation l l' -> NoDup (map fst l) ->
  (forall a b, In a l -> In b l -> fst a <> fst b -> commute_r kstep a b) ->
  forall st, kfold st l = kfold st l'.
Proof.
  induction 1 as [|x l l' Hp IH|x y l|l l' l'' Hp1 IH1 Hp2 IH2]; intros Hnd Hc st.
  - reflexivity.
  - cbn [kfold]. destruct (kstep st x) as [sx| |]; cbn [bind]; try reflexivity. apply IH.
    + cbn [map] in Hnd. now inversion Hnd.
    + intros p q Hp' Hq'. apply Hc; now right.
  - cbn [kfold]. cbn [map] in Hnd. inversion Hnd as [|? ? Hn1 Hnd']; subst.
    assert (Hxy : fst y <> fst x). { intros E. apply Hn1. left. now rewrite E. }
    pose proof (Hc y x (or_introl eq_refl) (or_intror (or_introl eq_refl)) Hxy st) as Hcomm.
    destruct (kstep st y) as [s1| |] eqn:E1; destruct (kstep st x) as [s2| |] eqn:E2; cbn [bind] in *;
    try rewrite Hcomm; try rewrite <- Hcomm; try reflexivity;
    repeat match goal with |- context [kstep ?s ?e] => destruct (kstep s e); cbn [bind] in * end; congruence.
  - rewrite IH1 by assumption. apply IH2.
    + eapply Permutation_NoDup; [|exact Hnd]. now apply Permutation_map.
    + intros a b Ha Hb. apply Hc; eapply Permutation_in; try eassumption; now apply Permutation_sym.
Qed.

Lemma kstep_no_panic st e : kstep st e <> Panic.
Proof.
  destruct st as [[pp url] msg], e as [k v]. unfold kstep.
  destruct (list_eqb k K_prot); [destruct (list_eqb v S_mikey); discriminate|].
  destruct (list_eqb k K_kuri); [discriminate|].
  destruct (list_eqb k K_data); [|discriminate].
  destruct (b64_decode v) as [byts|]; [|discriminate].
  pose proof (mikey_total byts) as Ht. destruct (mikey_unmarshal byts); cbn [bind]; try discriminate. contradiction.
Qed.

Lemma kstep_commute a b : fst a <> fst b -> commute_r kstep a b.
Proof.
  intros Hne [[pp url] msg]. destruct a as [ka va], b as [kb vb]. cbn [fst] in Hne. unfold kstep.
  destruct (list_eqb ka K_prot) eqn:A1; [|destruct (list_eqb ka K_kuri) eqn:A2; [|destruct (list_eqb ka K_data) eqn:A3]];
  (destruct (list_eqb kb K_prot) eqn:B1; [|destruct (list_eqb kb K_kuri) eqn:B2; [|destruct (list_eqb kb K_data) eqn:B3]]);
  try same_key_contra;
  repeat match goal with
  | |- context [list_eqb ?v S_mikey] => destruct (list_eqb v S_mikey)
  | |- context [b64_decode ?v] => destruct (b64_decode v)
  | |- context [mikey_unmarshal ?v] => let H := fresh in pose proof (mikey_total v) as H; destruct (mikey_unmarshal v); [| |contradiction]
  end; cbn [bind]; rewrite ?A1, ?A2, ?A3, ?B1, ?B2, ?B3; cbn [bind]; try reflexivity.
Qed.

Theorem keymgmt_deterministic s o1 o2 :
  is_perm o1 -> is_perm o2 -> keymgmt_unmarshal_with o1 s = keymgmt_unmarshal_with o2 s.
Proof.
  intros H1 H2. unfold keymgmt_unmarshal_with.
  destruct (kv_parse s SEMI) as [m|] eqn:E; [|reflexivity].
  assert (Hc : forall a b, In a m -> In b m -> fst a <> fst b -> commute_r kstep a b) by (intros a b _ _; apply kstep_commute).
  pose proof (kv_parse_keys _ _ _ E) as Hnd.
  rewrite <- (kfold_perm m (o1 m) (H1 m) Hnd Hc). now rewrite <- (kfold_perm m (o2 m) (H2 m) Hnd Hc).
Qed.

Lemma kfold_no_panic l : forall st, kfold st l <> Panic.
Proof.
  induction l as [|e r IH]; intros st; cbn [kfold]; [discriminate|].
  pose proof (kstep_no_panic st e) as H. destruct (kstep st e); cbn [bind]; [apply IH|discriminate|contradiction].
Qed.

Theorem keymgmt_total o s : keymgmt_unmarshal_with o s <> Panic.
Proof.
  unfold keymgmt_unmarshal_with. destruct (kv_parse s SEMI) as [m|]; [|discriminate].
  pose proof (kfold_no_panic (o m) (false, None, None)) as H.
  destruct (kfold _ _) as [[[[|] [u|]] [mm|]]| |]; cbn [bind]; try discriminate. contradiction.
Qed.

Definition wf_keymgmt (h : keymgmt) : bool := nosep DQ (k_url h) && wf_message (k_msg h).

Theorem keymgmt_roundtrip_id h : wf_keymgmt h = true -> keymgmt_unmarshal_with id_order (keymgmt_marshal h) = Ok h.
Proof.
  intros Hwf. unfold wf_keymgmt in Hwf. apply andb_true_iff in Hwf as [Hu Hm].
  destruct h as [url msg]. cbn [k_url k_msg] in *.
  unfold keymgmt_unmarshal_with, keymgmt_marshal, keymgmt_kvitems. cbn [k_url k_msg].
  pose proof (mikey_marshal_bytes_ok msg Hm) as Hb.
  rewrite (kv_parse_render_distinct SEMI []); [|reflexivity|reflexivity| |reflexivity].
  - unfold id_order. cbn [map]. unfold item_kv. cbn [fst snd kfold].
    assert (E1 : forall st, kstep st (K_prot, S_mikey) = Ok (true, snd (fst st), snd st)) by (intros [[? ?] ?]; reflexivity).
    rewrite E1. cbn [bind fst snd].
    assert (E2 : forall pp u m v, kstep (pp, u, m) (K_kuri, v) = Ok (pp, Some v, m)) by reflexivity.
    rewrite E2. cbn [bind].
    assert (E3 : forall pp u m v, kstep (pp, u, m) (K_data, v) =
                 match b64_decode v with None => Err | Some byts => let* mm := mikey_unmarshal byts in Ok (pp, u, Some mm) end) by reflexivity.
    rewrite E3, b64_roundtrip by exact Hb. rewrite mikey_roundtrip by exact Hm. reflexivity.
  - cbn [forallb]. rewrite item_ok_plain by reflexivity.
    rewrite !item_ok_quoted by (first [reflexivity | exact Hu | now apply b64_encode_noquote]). reflexivity.
Qed.

Theorem keymgmt_roundtrip h o : is_perm o -> wf_keymgmt h = true -> keymgmt_unmarshal_with o (keymgmt_marshal h) = Ok h.
Proof. intros Ho Hwf. rewrite (keymgmt_deterministic _ o id_order Ho id_is_perm). now apply keymgmt_roundtrip_id. Qed.

(* WWW-Authenticate and Authorization: determinism, totality, round trip (shared with the auth domain) *)
From Coq Require Import ZifyBool ZifyNat ZifyN Permutation.
From GVL Require Import NList.
From GV Require Import Res Str StrProofs KeyVal KeyValProofs HdrAuth.
Open Scope N_scope.

Ltac key_cases :=
  repeat match goal with
  | |- context [list_eqb ?k ?K] => let E := fresh "Ek" in destruct (list_eqb k K) eqn:E
  end.
Ltac same_key_contra :=
  match goal with
  | H1 : list_eqb ?a ?K = true, H2 : list_eqb ?b ?K = true, Hne : ?a <> ?b |- _ =>
    exfalso; apply Hne; apply list_eqb_spec in H1; apply list_eqb_spec in H2; congruence
  end.

Definition opt_all {A} (p : A -> bool) (o : option A) : bool := match o with Some x => p x | None => true end.
Definition is_none {A} (o : option A) : bool := match o with Some _ => false | None => true end.
Definition is_nil (l : list N) : bool := match l with [] => true | _ => false end.

(* ---------- determinism ---------- *)
Lemma astep_basic_commute a b : fst a <> fst b -> commute astep_basic a b.
Proof.
  intros Hne [[h rr] nr]. destruct a as [ka va], b as [kb vb]. cbn [fst] in Hne.
  unfold astep_basic, obind. key_cases; try same_key_contra; cbn; key_cases; try reflexivity; try congruence.
Qed.

Lemma astep_digest_commute a b : fst a <> fst b -> commute astep_digest a b.
Proof.
  intros Hne [[h rr] nr]. destruct a as [ka va], b as [kb vb]. cbn [fst] in Hne.
  unfold astep_digest, obind.
  destruct (list_eqb ka K_realm) eqn:A1; [|destruct (list_eqb ka K_nonce) eqn:A2; [|destruct (list_eqb ka K_opaque) eqn:A3;
    [|destruct (list_eqb ka K_stale) eqn:A4; [|destruct (list_eqb ka K_algorithm) eqn:A5]]]];
  (destruct (list_eqb kb K_realm) eqn:B1; [|destruct (list_eqb kb K_nonce) eqn:B2; [|destruct (list_eqb kb K_opaque) eqn:B3;
    [|destruct (list_eqb kb K_stale) eqn:B4; [|destruct (list_eqb kb K_algorithm) eqn:B5]]]]);
  try same_key_contra;
  cbn [option_map a_method a_realm a_nonce a_opaque a_stale a_alg];
  repeat match goal with |- context [parse_alg ?v] => destruct (parse_alg v) end;
  cbn [option_map a_method a_realm a_nonce a_opaque a_stale a_alg];
  rewrite ?A1, ?A2, ?A3, ?A4, ?A5, ?B1, ?B2, ?B3, ?B4, ?B5;
  cbn [option_map a_method a_realm a_nonce a_opaque a_stale a_alg]; reflexivity.
Qed.

Theorem authenticate_deterministic s o1 o2 :
  is_perm o1 -> is_perm o2 -> authenticate_unmarshal_with o1 s = authenticate_unmarshal_with o2 s.
Proof.
  intros H1 H2. unfold authenticate_unmarshal_with.
  destruct (cut SP s) as [[m rest]|]; [|reflexivity].
  destruct (list_eqb m S_Basic).
  - destruct (kv_parse rest COMMA_) as [kvl|] eqn:E; [|reflexivity].
    rewrite (ofold_order_indep astep_basic kvl o1 o2 H1 H2 (kv_parse_keys _ _ _ E)); [reflexivity|].
    intros a b _ _. apply astep_basic_commute.
  - destruct (list_eqb m S_Digest); [|reflexivity].
    destruct (kv_parse rest COMMA_) as [kvl|] eqn:E; [|reflexivity].
    rewrite (ofold_order_indep astep_digest kvl o1 o2 H1 H2 (kv_parse_keys _ _ _ E)); [reflexivity|].
    intros a b _ _. apply astep_digest_commute.
Qed.

Lemma zstep_commute a b : fst a <> fst b -> commute zstep a b.
Proof.
  intros Hne [h f]. destruct a as [ka va], b as [kb vb]. cbn [fst] in Hne.
  unfold zstep, obind.
  destruct (list_eqb ka K_realm) eqn:A1; [|destruct (list_eqb ka K_username) eqn:A2; [|destruct (list_eqb ka K_nonce) eqn:A3;
    [|destruct (list_eqb ka K_uri) eqn:A4; [|destruct (list_eqb ka K_response) eqn:A5; [|destruct (list_eqb ka K_opaque) eqn:A6;
    [|destruct (list_eqb ka K_algorithm) eqn:A7]]]]]];
  (destruct (list_eqb kb K_realm) eqn:B1; [|destruct (list_eqb kb K_username) eqn:B2; [|destruct (list_eqb kb K_nonce) eqn:B3;
    [|destruct (list_eqb kb K_uri) eqn:B4; [|destruct (list_eqb kb K_response) eqn:B5; [|destruct (list_eqb kb K_opaque) eqn:B6;
    [|destruct (list_eqb kb K_algorithm) eqn:B7]]]]]]);
  try same_key_contra;
  cbn [option_map z_method z_user z_pass z_realm z_nonce z_uri z_response z_opaque z_alg f_realm f_user f_nonce f_uri f_resp];
  repeat match goal with |- context [parse_alg ?v] => destruct (parse_alg v) end;
  cbn [option_map z_method z_user z_pass z_realm z_nonce z_uri z_response z_opaque z_alg f_realm f_user f_nonce f_uri f_resp];
  rewrite ?A1, ?A2, ?A3, ?A4, ?A5, ?A6, ?A7, ?B1, ?B2, ?B3, ?B4, ?B5, ?B6, ?B7;
  cbn [option_map z_method z_user z_pass z_realm z_nonce z_uri z_response z_opaque z_alg f_realm f_user f_nonce f_uri f_resp]; reflexivity.
Qed.

Theorem authorization_deterministic s o1 o2 :
  is_perm o1 -> is_perm o2 -> authorization_unmarshal_with o1 s = authorization_unmarshal_with o2 s.
Proof.
  intros H1 H2. unfold authorization_unmarshal_with.
  destruct (cut SP s) as [[m rest]|]; [|reflexivity].
  destruct (list_eqb m S_Basic); [reflexivity|].
  destruct (list_eqb m S_Digest); [|reflexivity].
  destruct (kv_parse rest COMMA_) as [kvl|] eqn:E; [|reflexivity].
  rewrite (ofold_order_indep zstep kvl o1 o2 H1 H2 (kv_parse_keys _ _ _ E)); [reflexivity|].
  intros a b _ _. apply zstep_commute.
Qed.

(* ---------- totality ---------- *)
Theorem authenticate_total o s : authenticate_unmarshal_with o s <> Panic.
Proof.
  unfold authenticate_unmarshal_with. destruct (cut SP s) as [[m rest]|]; [|discriminate].
  destruct (list_eqb m S_Basic).
  - destruct (kv_parse rest COMMA_); [|discriminate].
    destruct (ofold _ _ _) as [[[a [|]] nr]|]; discriminate.
  - destruct (list_eqb m S_Digest); [|discriminate].
    destruct (kv_parse rest COMMA_); [|discriminate].
    destruct (ofold _ _ _) as [[[a [|]] [|]]|]; discriminate.
Qed.
Theorem authorization_total o s : authorization_unmarshal_with o s <> Panic.
Proof.
  unfold authorization_unmarshal_with. destruct (cut SP s) as [[m rest]|]; [|discriminate].
  destruct (list_eqb m S_Basic).
  - destruct (b64_decode rest); [|discriminate]. destruct (cut COLON l) as [[u p]|]; discriminate.
  - destruct (list_eqb m S_Digest); [|discriminate].
    destruct (kv_parse rest COMMA_); [|discriminate].
    destruct (ofold _ _ _) as [[z f]|]; [|discriminate]. destruct (_ && _); discriminate.
Qed.

(* ---------- round trip ---------- *)
Definition wf_authenticate (a : authenticate) : bool :=
  nosep DQ (a_realm a) &&
  (if a_method a =? 0 then is_nil (a_nonce a) && is_none (a_opaque a) && is_none (a_stale a) && is_none (a_alg a)
   else (a_method a =? 1) && nosep DQ (a_nonce a) && opt_all (nosep DQ) (a_opaque a) && opt_all (nosep DQ) (a_stale a)
        && opt_all (fun x => x <? 2) (a_alg a)).

Lemma sep_ok_comma : sep_ok COMMA_ = true. Proof. reflexivity. Qed.
Lemma gap_sp : forallb (fun c => c =? SP) [SP] = true. Proof. reflexivity. Qed.

Lemma parse_alg_str x : x < 2 -> parse_alg (alg_str x) = Some x.
Proof. intros H. assert (x = 0 \/ x = 1) as [-> | ->] by lia; reflexivity. Qed.
Lemma alg_str_noquote x : nosep DQ (alg_str x) = true.
Proof. unfold alg_str. destruct (x =? 0); reflexivity. Qed.

Theorem authenticate_roundtrip_id a :
  wf_authenticate a = true -> authenticate_unmarshal_with id_order (authenticate_marshal a) = Ok a.
Proof.
  intros Hwf. unfold wf_authenticate in Hwf. apply andb_true_iff in Hwf as [Hrealm Hwf].
  destruct a as [m realm nonce opaque stale alg]. cbn [a_method a_realm a_nonce a_opaque a_stale a_alg] in *.
  unfold authenticate_unmarshal_with, authenticate_marshal. cbn [a_method].
  destruct (N.eqb_spec m 0) as [->|Hm].
  - (* basic *)
    rewrite !andb_true_iff in Hwf. destruct Hwf as [[[Hn Ho] Hs] Ha].
    destruct nonce; [|discriminate]. destruct opaque; [discriminate|]. destruct stale; [discriminate|]. destruct alg; [discriminate|].
    cbn [app]. rewrite (cut_found SP S_Basic) by reflexivity.
    change (list_eqb S_Basic S_Basic) with true. cbv iota.
    unfold CS. rewrite kv_parse_render_distinct; [|reflexivity|reflexivity| |reflexivity].
    + unfold authenticate_kvitems. cbn [a_method N.eqb map item_kv fst snd a_realm id_order].
      cbn [ofold astep_basic]. change (list_eqb K_realm K_realm) with true. cbv iota. reflexivity.
    + unfold authenticate_kvitems. cbn [a_method N.eqb forallb a_realm].
      rewrite item_ok_quoted by (reflexivity || assumption). reflexivity.
  - rewrite !andb_true_iff in Hwf. destruct Hwf as [[[[Hm1 Hn] Ho] Hs] Ha]. apply N.eqb_eq in Hm1. subst m.
    cbn [app]. rewrite (cut_found SP S_Digest) by reflexivity.
    change (list_eqb S_Digest S_Basic) with false. change (list_eqb S_Digest S_Digest) with true. cbv iota.
    unfold CS. rewrite kv_parse_render_distinct; [|reflexivity|reflexivity| | ].
    + unfold authenticate_kvitems. cbn [a_method N.eqb Pos.eqb a_realm a_nonce a_opaque a_stale a_alg id_order].
      destruct opaque as [op|], stale as [sa|], alg as [al|]; cbn [opt_all] in Ha;
      try (assert (al = 0 \/ al = 1) as [-> | ->] by lia); reflexivity.
    + unfold authenticate_kvitems. cbn [a_method N.eqb Pos.eqb a_realm a_nonce a_opaque a_stale a_alg].
      destruct opaque as [op|], stale as [sa|], alg as [al|]; cbn [opt_it app forallb];
      cbn [opt_all] in Ho, Hs; rewrite !item_ok_quoted by (reflexivity || assumption || apply alg_str_noquote); reflexivity.
    + unfold authenticate_kvitems. cbn [a_method N.eqb Pos.eqb a_opaque a_stale a_alg].
      destruct opaque as [op|], stale as [sa|], alg as [al|]; reflexivity.
Qed.

Theorem authenticate_roundtrip a o :
  is_perm o -> wf_authenticate a = true -> authenticate_unmarshal_with o (authenticate_marshal a) = Ok a.
Proof.
  intros Ho Hwf. rewrite (authenticate_deterministic _ o id_order Ho id_is_perm). now apply authenticate_roundtrip_id.
Qed.

(* ---------- Authorization ---------- *)
(* well-formed Authorization values as C09 quantifies over them: Basic credentials with any password (the user
   name cannot contain ':'), Digest credentials whose quoted fields contain no double quote *)
Definition wf_authorization (z : authorization) : bool :=
  if z_method z =? 0 then
    nosep COLON (z_user z) && bytes_okb (z_user z) && bytes_okb (z_pass z)
    && is_nil (z_realm z) && is_nil (z_nonce z) && is_nil (z_uri z) && is_nil (z_response z)
    && is_none (z_opaque z) && is_none (z_alg z)
  else
    (z_method z =? 1) && is_nil (z_pass z)
    && nosep DQ (z_user z) && nosep DQ (z_realm z) && nosep DQ (z_nonce z) && nosep DQ (z_uri z) && nosep DQ (z_response z)
    && opt_all (nosep DQ) (z_opaque z) && opt_all (fun x => x <? 2) (z_alg z).

Lemma bytes_okb_spec l : bytes_okb l = true <-> bytes_ok l.
Proof.
  unfold bytes_okb, bytes_ok. rewrite forallb_forall, Forall_forall.
  split; intros H x Hx; specialize (H x Hx); lia.
Qed.

Theorem authorization_roundtrip_id z :
  wf_authorization z = true ->
  authorization_unmarshal_with id_order (authorization_marshal z) = Ok z.
Proof.
  intros Hwf. unfold wf_authorization in Hwf.
  destruct z as [m user pass realm nonce uri resp opaque alg].
  cbn [z_method z_user z_pass z_realm z_nonce z_uri z_response z_opaque z_alg] in *.
  unfold authorization_unmarshal_with, authorization_marshal. cbn [z_method].
  destruct (N.eqb_spec m 0) as [->|Hm].
  - rewrite !andb_true_iff in Hwf. destruct Hwf as [[[[[[[[Hu Hub] Hpb] H1] H2] H3] H4] H5] H6].
    destruct realm; [|discriminate]. destruct nonce; [|discriminate]. destruct uri; [|discriminate].
    destruct resp; [|discriminate]. destruct opaque; [discriminate|]. destruct alg; [discriminate|].
    cbn [app]. rewrite (cut_found SP S_Basic) by reflexivity.
    change (list_eqb S_Basic S_Basic) with true. cbv iota. cbn [z_user z_pass].
    rewrite b64_roundtrip.
    + rewrite cut_found by exact Hu. reflexivity.
    + apply bytes_okb_spec in Hub, Hpb. unfold bytes_ok in *. apply Forall_app. split; [exact Hub|].
      constructor; [cbv; reflexivity|exact Hpb].
  - rewrite !andb_true_iff in Hwf. destruct Hwf as [[[[[[[[Hm1 Hpn] Hu] Hr] Hn] Hi] Hs] Ho] Ha].
    apply N.eqb_eq in Hm1. subst m. destruct pass; [|discriminate].
    cbn [app]. rewrite (cut_found SP S_Digest) by reflexivity.
    change (list_eqb S_Digest S_Basic) with false. change (list_eqb S_Digest S_Digest) with true. cbv iota.
    unfold CS. rewrite kv_parse_render_distinct; [|reflexivity|reflexivity| | ].
    + unfold authorization_kvitems. cbn [z_user z_realm z_nonce z_uri z_response z_opaque z_alg].
      destruct opaque as [op|], alg as [al|]; cbn [opt_all] in Ha;
      try (assert (al = 0 \/ al = 1) as [-> | ->] by lia); reflexivity.
    + unfold authorization_kvitems. cbn [z_user z_realm z_nonce z_uri z_response z_opaque z_alg].
      destruct opaque as [op|], alg as [al|]; cbn [opt_it app forallb]; cbn [opt_all] in Ho;
      rewrite !item_ok_quoted by (reflexivity || assumption || apply alg_str_noquote); reflexivity.
    + unfold authorization_kvitems. cbn [z_opaque z_alg].
      destruct opaque as [op|], alg as [al|]; reflexivity.
Qed.

Theorem authorization_roundtrip z o :
  is_perm o -> wf_authorization z = true ->
  authorization_unmarshal_with o (authorization_marshal z) = Ok z.
Proof.
  intros Ho Hwf. rewrite (authorization_deterministic _ o id_order Ho id_is_perm). now apply authorization_roundtrip_id.
Qed.

(* regression (F9, fixed by /repo ebc43d3): user "user", password "a:b" round-trips *)
Definition f9_witness : authorization :=
  mkAuthorization 0 [117; 115; 101; 114] [97; 58; 98] [] [] [] [] None None.
Example f9_regression : wf_authorization f9_witness = true /\
  authorization_unmarshal_with id_order (authorization_marshal f9_witness) = Ok f9_witness.
Proof. split; vm_compute; reflexivity. Qed.

(* marshalling is a function of the value: trivially, being a Coq function; stated for the record *)
Theorem authorization_marshal_pure z1 z2 : z1 = z2 -> authorization_marshal z1 = authorization_marshal z2.
Proof. now intros ->. Qed.
Theorem authenticate_marshal_pure a1 a2 : a1 = a2 -> authenticate_marshal a1 = authenticate_marshal a2.
Proof. now intros ->. Qed.

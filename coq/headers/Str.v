(* Byte-string utilities used by the header models: Go strings are [list N] (bytes).
   Models of the Go standard-library functions the header codecs call:
   strings.Split / TrimLeft / Cut / IndexByte / ToLower(==ascii target), strconv.ParseUint(s,10,bits),
   strconv.FormatUint/FormatInt(n>=0,10), encoding/hex Decode/Encode, encoding/base64 StdEncoding.
   Executable and proof-free; lemmas are in StrProofs.v.
   (Physically in coq/headers; symlinked into coq/auth.) *)
From Coq Require Import String Ascii.
From GVL Require Import NList.
Open Scope N_scope.

Notation bytes := (list N) (only parsing).

(* Coq string literal -> bytes; only used under [Eval vm_compute] so no String code is extracted *)
Fixpoint str (s : string) : list N :=
  match s with
  | EmptyString => []
  | String a t => N_of_ascii a :: str t
  end.

Fixpoint list_eqb (a b : list N) : bool :=
  match a, b with
  | [], [] => true
  | x :: a', y :: b' => (x =? y) && list_eqb a' b'
  | _, _ => false
  end.

(* longest prefix satisfying p, and the rest *)
Fixpoint span (p : N -> bool) (l : list N) : list N * list N :=
  match l with
  | [] => ([], [])
  | x :: t => if p x then let '(a, b) := span p t in (x :: a, b) else ([], l)
  end.

Fixpoint drop_while (p : N -> bool) (l : list N) : list N :=
  match l with
  | [] => []
  | x :: t => if p x then drop_while p t else l
  end.

Definition SP : N := 32.
(* strings.TrimLeft(s, " ") *)
Definition trim_left_sp (l : list N) : list N := drop_while (fun c => c =? SP) l.

(* strings.Split(s, sep) for a one-byte separator: always at least one element *)
Fixpoint split_on (sep : N) (l : list N) : list (list N) :=
  match l with
  | [] => [[]]
  | x :: t =>
    if x =? sep then [] :: split_on sep t
    else match split_on sep t with
         | [] => [[x]]          (* unreachable *)
         | h :: r => (x :: h) :: r
         end
  end.

Fixpoint join (sep : list N) (ls : list (list N)) : list N :=
  match ls with
  | [] => []
  | [a] => a
  | a :: r => a ++ sep ++ join sep r
  end.

(* strings.Cut(s, sep) for a one-byte separator *)
Definition cut (sep : N) (l : list N) : option (list N * list N) :=
  let '(a, b) := span (fun c => negb (c =? sep)) l in
  match b with
  | [] => None
  | _ :: b' => Some (a, b')
  end.

(* ---- decimal ---- *)
Definition is_digit (c : N) : bool := (48 <=? c) && (c <=? 57).

Fixpoint digits_val (l : list N) (acc : N) : N :=
  match l with
  | [] => acc
  | c :: t => digits_val t (10 * acc + (c - 48))
  end.

(* strconv.ParseUint(s, 10, bits): non-empty, decimal digits only, value < 2^bits *)
Definition parse_uint (bits : N) (s : list N) : option N :=
  match s with
  | [] => None
  | _ => if forallb is_digit s
         then let v := digits_val s 0 in if v <? 2 ^ bits then Some v else None
         else None
  end.

Fixpoint dec_aux (fuel : nat) (n : N) (acc : list N) : list N :=
  match fuel with
  | O => acc
  | S f =>
    let acc' := (48 + n mod 10) :: acc in
    if n <? 10 then acc' else dec_aux f (n / 10) acc'
  end.
(* strconv.FormatUint(n, 10) *)
Definition fmt_uint (n : N) : list N := dec_aux (S (N.to_nat (N.log2 n))) n [].

(* leadingZero of range.go *)
Definition fmt_uint2 (n : N) : list N := if n <? 10 then 48 :: fmt_uint n else fmt_uint n.

(* ---- hex ---- *)
Definition hex_val (c : N) : option N :=
  if (48 <=? c) && (c <=? 57) then Some (c - 48)
  else if (97 <=? c) && (c <=? 102) then Some (c - 87)
  else if (65 <=? c) && (c <=? 70) then Some (c - 55)
  else None.

(* hex.DecodeString: error on odd length or any non-hex character *)
Fixpoint hex_decode (s : list N) : option (list N) :=
  match s with
  | [] => Some []
  | [_] => None
  | a :: b :: t =>
    match hex_val a, hex_val b, hex_decode t with
    | Some x, Some y, Some r => Some (16 * x + y :: r)
    | _, _, _ => None
    end
  end.

Definition hex_digit_upper (d : N) : N := if d <? 10 then 48 + d else 55 + d.
Definition hex_digit_lower (d : N) : N := if d <? 10 then 48 + d else 87 + d.
(* strings.ToUpper(hex.EncodeToString(bs)) *)
Definition hex_encode_upper (bs : list N) : list N :=
  flat_map (fun b => [hex_digit_upper ((b mod 256) / 16); hex_digit_upper (b mod 16)]) bs.
Definition hex_encode_lower (bs : list N) : list N :=
  flat_map (fun b => [hex_digit_lower ((b mod 256) / 16); hex_digit_lower (b mod 16)]) bs.

(* big-endian value of a byte list *)
Definition be_val (bs : list N) : N := fold_left (fun a b => 256 * a + b) bs 0.

Definition be4 (x : N) : list N := [(x / 16777216) mod 256; (x / 65536) mod 256; (x / 256) mod 256; x mod 256].

(* ---- base64, standard alphabet, padded, non-strict (encoding/base64.StdEncoding) ---- *)
Definition b64_char (v : N) : N :=
  if v <? 26 then 65 + v
  else if v <? 52 then 71 + v        (* 97 + (v-26) *)
  else if v <? 62 then v - 4         (* 48 + (v-52) *)
  else if v =? 62 then 43 else 47.

Definition b64_val (c : N) : option N :=
  if (65 <=? c) && (c <=? 90) then Some (c - 65)
  else if (97 <=? c) && (c <=? 122) then Some (c - 71)
  else if (48 <=? c) && (c <=? 57) then Some (c + 4)
  else if c =? 43 then Some 62
  else if c =? 47 then Some 63
  else None.

Definition PAD : N := 61.

Fixpoint b64_encode (l : list N) : list N :=
  match l with
  | [] => []
  | [a] => [b64_char (a / 4); b64_char ((a mod 4) * 16); PAD; PAD]
  | [a; b] => [b64_char (a / 4); b64_char ((a mod 4) * 16 + b / 16); b64_char ((b mod 16) * 4); PAD]
  | a :: b :: c :: t =>
      b64_char (a / 4) :: b64_char ((a mod 4) * 16 + b / 16)
      :: b64_char ((b mod 16) * 4 + c / 64) :: b64_char (c mod 64) :: b64_encode t
  end.

(* decoder on the input with CR / LF removed (the Go decoder skips them wherever they occur) *)
Fixpoint b64_decode_clean (s : list N) : option (list N) :=
  match s with
  | [] => Some []
  | c0 :: c1 :: c2 :: c3 :: t =>
    match b64_val c0, b64_val c1 with
    | Some v0, Some v1 =>
      match b64_val c2 with
      | Some v2 =>
        match b64_val c3 with
        | Some v3 =>
          match b64_decode_clean t with
          | Some r => Some (v0 * 4 + v1 / 16 :: (v1 mod 16) * 16 + v2 / 4 :: (v2 mod 4) * 64 + v3 :: r)
          | None => None
          end
        | None =>
          if (c3 =? PAD) then match t with [] => Some [v0 * 4 + v1 / 16; (v1 mod 16) * 16 + v2 / 4] | _ => None end
          else None
        end
      | None =>
        if (c2 =? PAD) && (c3 =? PAD) then match t with [] => Some [v0 * 4 + v1 / 16] | _ => None end
        else None
      end
    | _, _ => None
    end
  | _ => None
  end.

Definition is_crlf (c : N) : bool := (c =? 10) || (c =? 13).
(* base64.StdEncoding.DecodeString *)
Definition b64_decode (s : list N) : option (list N) :=
  b64_decode_clean (filter (fun c => negb (is_crlf c)) s).

(* ---- case ---- *)
Definition lower_ascii (c : N) : N := if (65 <=? c) && (c <=? 90) then c + 32 else c.

(* strings.ToLower(s) == target, for a lower-case ASCII target without 'k':
   besides ASCII upper case the only rune whose lower case is ASCII and occurs in the targets used
   here is U+0130 (bytes C4 B0) -> 'i'.  Any other non-ASCII byte makes the result non-ASCII. *)
Fixpoint lower_eq (s target : list N) : bool :=
  match s, target with
  | [], [] => true
  | c :: s', t :: target' =>
    if (c <? 128) && (lower_ascii c =? t) then lower_eq s' target'
    else if (t =? 105) && (c =? 196) then
      match s' with
      | 176 :: s'' => lower_eq s'' target'
      | _ => false
      end
    else false
  | _, _ => false
  end.

Definition starts_with (p s : list N) : bool := list_eqb p (ntake (nlen p) s).

(* F8 repaired: for every multiple of 1 ms below 2^50 ns, int64 (math.Round (float64 (d.Seconds()) * 1e9)) = d *)
From Coq Require Import ZifyBool ZifyNat ZifyN.
From GVL Require Import NList.
From GV Require Import Res Str StrProofs Float FloatProofs FloatRound.
Open Scope N_scope.

Definition MS : N := 1000000.

(* the 999 possible fractional parts a_j = float64(j*10^6) / 1e9, checked by computation *)
Definition aj_ok (j : N) : bool :=
  let nsec := j * MS in
  let '(m, e) := r53 nsec E9 in
  (e <? 0)%Z && (53 <=? Z.to_N (- e)) && (Z.to_N (- e) <=? 63) && (P52 <=? m) && (m <? P53)
  && (m <? pow2 (Z.to_N (- e)))
  && (2 * (m * E9) <=? 2 * (nsec * pow2 (Z.to_N (- e))) + E9)
  && (2 * (nsec * pow2 (Z.to_N (- e))) <=? 2 * (m * E9) + E9).

Lemma aj_table : forallb (fun j => (j =? 0) || aj_ok j) (upto 1000) = true.
Proof. vm_compute. reflexivity. Qed.

Lemma aj_facts j : 0 < j -> j < 1000 ->
  exists m k, mk_fin false (j * MS) E9 = DFin false m (- Z.of_N k) /\ 53 <= k <= 63 /\ P52 <= m < P53 /\ m < 2 ^ k /\
    2 * (m * E9) <= 2 * (j * MS * 2 ^ k) + E9 /\ 2 * (j * MS * 2 ^ k) <= 2 * (m * E9) + E9.
Proof.
  intros H0 H1. pose proof (forall_upto _ 1000 aj_table j H1) as H. cbn beta in H.
  destruct (N.eqb_spec j 0); [lia|]. cbn [orb] in H. unfold aj_ok in H.
  unfold mk_fin. destruct (N.eqb_spec (j * MS) 0) as [Hz|_]; [unfold MS in Hz; lia|].
  destruct (r53 (j * MS) E9) as [m e]. rewrite !andb_true_iff in H.
  destruct H as [[[[[[[He Hk1] Hk2] Hm1] Hm2] Hm3] Hr1] Hr2].
  exists m, (Z.to_N (- e)). rewrite pow2_spec in *.
  destruct (Z.ltb_spec 971 e); [lia|]. split; [f_equal; lia|]. repeat split; lia.
Qed.

Lemma mk_fin_int S : 0 < S -> S < P53 ->
  mk_fin false S 1 = DFin false (S * 2 ^ (53 - N.size S)) (Z.of_N (N.size S) - 53).
Proof.
  intros Hpos HS. unfold mk_fin. destruct (N.eqb_spec S 0); [lia|].
  change 1 with (pow2 0) at 1. rewrite (r53_pow2 S 0 Hpos HS), pow2_spec.
  pose proof (size_le S 53 HS).
  destruct (Z.ltb_spec 971 (Z.of_N (N.size S) - 53 - Z.of_N 0)); [lia|]. f_equal. lia.
Qed.

(* float64(sec) + a_j : one rounding of the exact sum (sec * 2^k + m) / 2^k *)
Lemma add_frac sec m k : 0 < sec -> sec < 2 ^ 21 -> 53 <= k ->
  dadd_pos (mk_fin false sec 1) (DFin false m (- Z.of_N k)) = mk_fin false (sec * 2 ^ k + m) (pow2 k).
Proof.
  intros Hpos Hs Hk. assert (HS53 : sec < P53). { change P53 with (2^53). assert (2^21 <= 2^53) by (apply N.pow_le_mono_r; lia). lia. }
  rewrite (mk_fin_int sec Hpos HS53). pose proof (size_le sec 21 Hs) as Hsz.
  assert (Hs1 : 1 <= N.size sec). { rewrite N.size_log2 by lia. lia. }
  set (s := N.size sec) in *. unfold dadd_pos.
  rewrite Z.min_r by lia. rewrite Z.sub_diag. change (pow2 (Z.to_N 0)) with 1. rewrite N.mul_1_r.
  replace (Z.to_N (Z.of_N s - 53 - - Z.of_N k)) with (k - (53 - s)) by lia.
  rewrite pow2_spec.
  assert (E : sec * 2 ^ (53 - s) * 2 ^ (k - (53 - s)) = sec * 2 ^ k).
  { rewrite <- N.mul_assoc, <- N.pow_add_r. do 2 f_equal. lia. }
  rewrite E. unfold mk_scaled.
  destruct (Z.leb_spec 0 (- Z.of_N k)); [lia|]. change (0 <=? 0)%Z with true. cbv iota.
  change (pow10 (Z.to_N 0)) with 1. rewrite N.mul_1_r. replace (Z.to_N (- - Z.of_N k)) with k by lia. reflexivity.
Qed.

Lemma pow2_pos k : 0 < 2 ^ k.
Proof. apply N.neq_0_lt_0, N.pow_nonzero. lia. Qed.

(* the last two operations: * 1e9 (one rounding) and math.Round *)
Lemma stage_y mx tx k d eb :
  P52 <= mx < P53 -> tx + 31 <= k -> d < 2 ^ 50 -> 4 * eb <= 2 ^ k ->
  mx * 2 ^ tx * E9 <= d * 2 ^ k + eb -> d * 2 ^ k <= mx * 2 ^ tx * E9 + eb ->
  to_int64_round (dmul_int (DFin false mx (Z.of_N tx - Z.of_N k)) E9) = Z.of_N d.
Proof.
  intros [Hm1 Hm2] Htk Hd Heb Hup Hlo.
  change P52 with 4503599627370496 in Hm1. change P53 with 9007199254740992 in Hm2.
  unfold dmul_int, mk_scaled. destruct (Z.leb_spec 0 (Z.of_N tx - Z.of_N k)); [lia|].
  change (0 <=? 0)%Z with true. cbv iota. change (pow10 (Z.to_N 0)) with 1. rewrite N.mul_1_r.
  replace (Z.to_N (- (Z.of_N tx - Z.of_N k))) with (k - tx) by lia.
  set (K := k - tx). set (P3 := mx * E9).
  assert (HP3lo : P53 <= P3). { unfold P3. change P53 with 9007199254740992. change E9 with 1000000000. lia. }
  assert (HP3hi : P3 < 2 ^ 83). { unfold P3. change E9 with 1000000000. change (2 ^ 83) with 9671406556917033397649408. lia. }
  pose proof (size_le P3 83 HP3hi) as Hsz.
  destruct (r53_pow2_round P3 K HP3lo ltac:(unfold K; lia)) as (my & ty & Er & Hty & [Hy1 Hy2] & Hyu & Hyl).
  unfold mk_fin. destruct (N.eqb_spec P3 0) as [Hc|_]; [change P53 with 9007199254740992 in HP3lo; lia|].
  rewrite Er. destruct (Z.ltb_spec 971 (Z.of_N ty - Z.of_N K)); [lia|].
  assert (Hpos3 : 0 < P3) by (change P53 with 9007199254740992 in HP3lo; lia).
  pose proof (size_bounds P3 Hpos3) as [Hs3 _].
  set (sh3 := N.size P3 - 53) in *.
  assert (Hs54 : 54 <= N.size P3).
  { destruct (N.le_gt_cases 54 (N.size P3)) as [|Hlt]; [assumption|exfalso].
    pose proof (size_bounds P3 Hpos3) as [_ Hhi]. assert (2 ^ N.size P3 <= 2 ^ 53) by (apply N.pow_le_mono_r; lia).
    change P53 with (2 ^ 53) in HP3lo. lia. }
  assert (E52 : 2 ^ (N.size P3 - 1) = 2 ^ sh3 * 2 ^ 52). { rewrite <- N.pow_add_r. f_equal. unfold sh3. lia. }
  rewrite E52 in Hs3.
  set (h3 := 2 ^ sh3 / 2) in *.
  assert (Hh3 : 2 * h3 <= 2 ^ sh3). { unfold h3. pose proof (N.div_mod (2 ^ sh3) 2 ltac:(lia)). lia. }
  (* everything on the scale 2^k = 2^K * 2^tx *)
  assert (Ek : 2 ^ k = 2 ^ K * 2 ^ tx). { rewrite <- N.pow_add_r. f_equal. unfold K. lia. }
  pose proof (pow2_pos tx) as Htx0. pose proof (pow2_pos k) as Hk0. pose proof (pow2_pos K) as HK0. pose proof (pow2_pos ty) as Hty0.
  set (X := 2 ^ tx) in *. set (T3 := 2 ^ sh3 * X).
  assert (HT3 : T3 * 2 ^ 52 <= d * 2 ^ k + eb).
  { unfold T3. apply N.le_trans with (P3 * X); [|unfold P3; lia].
    replace (2 ^ sh3 * X * 2 ^ 52) with (2 ^ sh3 * 2 ^ 52 * X) by lia. apply N.mul_le_mono_r. exact Hs3. }
  assert (Hdk : d * 2 ^ k + 2 ^ k <= 2 ^ 50 * 2 ^ k).
  { replace (d * 2 ^ k + 2 ^ k) with ((d + 1) * 2 ^ k) by lia. apply N.mul_le_mono_r. lia. }
  change (2 ^ 52) with 4503599627370496 in HT3. change (2 ^ 50) with 1125899906842624 in Hdk.
  assert (Hsmall : T3 + 2 * eb < 2 ^ k) by lia.
  (* the rounded product, scaled *)
  set (Ny := my * 2 ^ ty * X).
  assert (HNu : 2 * Ny <= 2 * (d * 2 ^ k) + (T3 + 2 * eb)).
  { unfold Ny, T3. assert (my * 2 ^ ty * X <= (P3 + h3) * X) by (apply N.mul_le_mono_r; exact Hyu).
    assert (2 * (h3 * X) <= 2 ^ sh3 * X) by (replace (2 * (h3 * X)) with (2 * h3 * X) by lia; apply N.mul_le_mono_r; exact Hh3).
    unfold P3 in *. lia. }
  assert (HNl : 2 * (d * 2 ^ k) <= 2 * Ny + (T3 + 2 * eb)).
  { unfold Ny, T3. assert (P3 * X <= (my * 2 ^ ty + h3) * X) by (apply N.mul_le_mono_r; exact Hyl).
    assert (2 * (h3 * X) <= 2 ^ sh3 * X) by (replace (2 * (h3 * X)) with (2 * h3 * X) by lia; apply N.mul_le_mono_r; exact Hh3).
    unfold P3 in *. lia. }
  (* ty < K *)
  assert (HtyK : ty < K).
  { destruct (N.lt_ge_cases ty K) as [|Hge]; [assumption|exfalso].
    assert (2 ^ K <= 2 ^ ty) by (apply N.pow_le_mono_r; lia).
    assert (4503599627370496 * 2 ^ k <= Ny).
    { unfold Ny. rewrite Ek. change P52 with 4503599627370496 in Hy1.
      apply N.le_trans with (4503599627370496 * 2 ^ K * X); [lia|]. apply N.mul_le_mono_r.
      apply N.le_trans with (4503599627370496 * 2 ^ ty); [apply N.mul_le_mono_l; assumption|apply N.mul_le_mono_r; exact Hy1]. }
    lia. }
  unfold to_int64_round. destruct (Z.leb_spec 0 (Z.of_N ty - Z.of_N K)); [lia|].
  replace (Z.to_N (- (Z.of_N ty - Z.of_N K))) with (K - ty) by lia. rewrite pow2_spec.
  set (dd := 2 ^ (K - ty)). pose proof (pow2_pos (K - ty)) as Hdd0. fold dd in Hdd0.
  set (G := 2 ^ ty * X). assert (HG0 : 0 < G) by (unfold G; lia).
  assert (EkG : 2 ^ k = dd * G). { unfold dd, G. rewrite Ek. replace (2 ^ K) with (2 ^ (K - ty) * 2 ^ ty) by (rewrite <- N.pow_add_r; f_equal; lia). lia. }
  assert (ENy : Ny = my * G) by (unfold Ny, G; lia).
  (* 2 |my - d dd| < dd *)
  assert (Hr1 : 2 * my < 2 * (d * dd) + dd).
  { apply (N.mul_lt_mono_pos_r G); [exact HG0|]. rewrite EkG in *. rewrite ENy in *. lia. }
  assert (Hr2 : 2 * (d * dd) < 2 * my + dd).
  { apply (N.mul_lt_mono_pos_r G); [exact HG0|]. rewrite EkG in *. rewrite ENy in *. lia. }
  set (q := my / dd). set (r := my mod dd).
  assert (Eqr : my = dd * q + r) by (unfold q, r; apply N.div_mod; lia).
  assert (Hr : r < dd) by (unfold r; apply N.mod_upper_bound; lia).
  assert (Hv : (if dd <=? 2 * r then q + 1 else q) = d).
  { clearbody q r. destruct (N.leb_spec dd (2 * r)).
    - assert (A1 : dd * (2 * q + 1) < dd * (2 * d + 1)) by lia. apply N.mul_lt_mono_pos_l in A1; [|exact Hdd0].
      assert (A2 : dd * (2 * d) < dd * (2 * q + 3)) by lia. apply N.mul_lt_mono_pos_l in A2; [|exact Hdd0]. lia.
    - assert (A1 : dd * (2 * q) < dd * (2 * d + 1)) by lia. apply N.mul_lt_mono_pos_l in A1; [|exact Hdd0].
      assert (A2 : dd * (2 * d) < dd * (2 * q + 2)) by lia. apply N.mul_lt_mono_pos_l in A2; [|exact Hdd0]. lia. }
  rewrite Hv. change P63 with 9223372036854775808. change (2 ^ 50) with 1125899906842624 in Hd.
  destruct (N.leb_spec 9223372036854775808 d); [lia|]. reflexivity.
Qed.

Lemma size53 m : P52 <= m < P53 -> N.size m = 53.
Proof.
  intros H. rewrite N.size_log2 by (change P52 with 4503599627370496 in H; lia).
  assert (N.log2 m = 52); [|lia]. apply N.log2_unique; [lia|]. change (2 ^ N.succ 52) with P53. change (2 ^ 52) with P52. lia.
Qed.

(* a normalised double over 2^k re-rounds to itself *)
Lemma mk_fin_norm m k : P52 <= m < P53 -> mk_fin false m (pow2 k) = DFin false m (- Z.of_N k).
Proof.
  intros H. unfold mk_fin. destruct (N.eqb_spec m 0) as [Hc|_]; [change P52 with 4503599627370496 in H; lia|].
  rewrite (r53_pow2 m k); [|change P52 with 4503599627370496 in H; lia|apply H].
  rewrite (size53 m H). change (53 - 53) with 0. change (pow2 0) with 1. rewrite N.mul_1_r.
  destruct (Z.ltb_spec 971 (Z.of_N 53 - 53 - Z.of_N k)); [lia|]. f_equal; lia.
Qed.

Lemma case_whole sec : 0 < sec -> sec < 1125900 -> E9 * sec < 2 ^ 50 ->
  to_int64_round (dmul_int (dadd_pos (mk_fin false sec 1) (DFin false 0 0)) E9) = Z.of_N (E9 * sec).
Proof.
  intros Hpos Hsec Hd. assert (H21 : sec < 2 ^ 21) by (change (2 ^ 21) with 2097152; lia).
  assert (HS53 : sec < P53). { change P53 with 9007199254740992. lia. }
  rewrite (mk_fin_int sec Hpos HS53). pose proof (size_le sec 21 H21) as Hsz.
  assert (Hs1 : 1 <= N.size sec). { rewrite N.size_log2 by lia. lia. }
  pose proof (size_bounds sec Hpos) as [Hlo Hhi].
  set (s := N.size sec) in *. set (mx := sec * 2 ^ (53 - s)).
  assert (Hmx : P52 <= mx < P53).
  { unfold mx. split.
    - change P52 with (2 ^ 52). replace 52 with ((s - 1) + (53 - s)) by lia. rewrite N.pow_add_r. apply N.mul_le_mono_r. exact Hlo.
    - change P53 with (2 ^ 53). replace 53 with (s + (53 - s)) at 2 by lia. rewrite N.pow_add_r. apply N.mul_lt_mono_pos_r; [apply pow2_pos|exact Hhi]. }
  assert (Hx : dadd_pos (DFin false mx (Z.of_N s - 53)) (DFin false 0 0) = DFin false mx (Z.of_N 0 - Z.of_N (53 - s))).
  { unfold dadd_pos. rewrite Z.min_l by lia. rewrite Z.sub_diag. change (pow2 (Z.to_N 0)) with 1.
    rewrite N.mul_1_r, N.mul_0_l, N.add_0_r. unfold mk_scaled.
    destruct (Z.leb_spec 0 (Z.of_N s - 53)); [lia|]. change (0 <=? 0)%Z with true. cbv iota.
    change (pow10 (Z.to_N 0)) with 1. rewrite N.mul_1_r. replace (Z.to_N (- (Z.of_N s - 53))) with (53 - s) by lia.
    rewrite (mk_fin_norm mx (53 - s) Hmx). f_equal; lia. }
  rewrite Hx.
  assert (Eval : mx * 2 ^ 0 * E9 = E9 * sec * 2 ^ (53 - s)) by (unfold mx; change (2 ^ 0) with 1; lia).
  clearbody mx.
  apply (stage_y mx 0 (53 - s) (E9 * sec) 0); try exact Hmx; try exact Hd; lia.
Qed.

Lemma case_sub mj k nsec : 53 <= k <= 63 -> P52 <= mj < P53 -> nsec < 2 ^ 50 ->
  2 * (mj * E9) <= 2 * (nsec * 2 ^ k) + E9 -> 2 * (nsec * 2 ^ k) <= 2 * (mj * E9) + E9 ->
  to_int64_round (dmul_int (dadd_pos (DFin false 0 0) (DFin false mj (- Z.of_N k))) E9) = Z.of_N nsec.
Proof.
  intros Hk Hmj Hd Hau Hal.
  assert (Hx : dadd_pos (DFin false 0 0) (DFin false mj (- Z.of_N k)) = DFin false mj (Z.of_N 0 - Z.of_N k)).
  { unfold dadd_pos. rewrite Z.min_r by lia. rewrite Z.sub_diag. change (pow2 (Z.to_N 0)) with 1.
    rewrite N.mul_1_r, N.mul_0_l, N.add_0_l. unfold mk_scaled.
    destruct (Z.leb_spec 0 (- Z.of_N k)); [lia|]. change (0 <=? 0)%Z with true. cbv iota.
    change (pow10 (Z.to_N 0)) with 1. rewrite N.mul_1_r. replace (Z.to_N (- - Z.of_N k)) with k by lia.
    rewrite (mk_fin_norm mj k Hmj). f_equal; lia. }
  rewrite Hx.
  assert (H2k : 2 ^ 53 <= 2 ^ k) by (apply N.pow_le_mono_r; lia). change (2 ^ 53) with 9007199254740992 in H2k.
  apply (stage_y mj 0 k nsec E9); try exact Hmj; try exact Hd; change (2 ^ 0) with 1; change E9 with 1000000000 in *; lia.
Qed.

Lemma case_gen sec nsec mj k : 0 < sec -> sec < 1125900 -> nsec < E9 -> E9 * sec + nsec < 2 ^ 50 ->
  53 <= k <= 63 -> P52 <= mj < P53 -> mj < 2 ^ k ->
  2 * (mj * E9) <= 2 * (nsec * 2 ^ k) + E9 -> 2 * (nsec * 2 ^ k) <= 2 * (mj * E9) + E9 ->
  to_int64_round (dmul_int (dadd_pos (mk_fin false sec 1) (DFin false mj (- Z.of_N k))) E9) = Z.of_N (E9 * sec + nsec).
Proof.
  intros Hpos Hsec Hns Hd Hk Hmj Hmjk Hau Hal.
  assert (H21 : sec < 2 ^ 21) by (change (2 ^ 21) with 2097152; lia).
  remember (E9 * sec + nsec) as d eqn:Ed.
  rewrite (add_frac sec mj k Hpos H21 ltac:(lia)).
  set (P2 := sec * 2 ^ k + mj).
  pose proof (pow2_pos k) as Hk0.
  assert (H53k : 2 ^ 53 <= 2 ^ k) by (apply N.pow_le_mono_r; lia).
  assert (HP2lo : P53 <= P2).
  { unfold P2. change P53 with (2 ^ 53). apply N.le_trans with (1 * 2 ^ k); [lia|]. apply N.le_trans with (sec * 2 ^ k); [apply N.mul_le_mono_r; lia|lia]. }
  assert (HP2hi : P2 < 2 ^ (k + 21)).
  { unfold P2. rewrite N.pow_add_r. change (2 ^ 21) with 2097152.
    assert (sec * 2 ^ k + 2 ^ k <= 2 ^ k * 2097152); [|lia].
    replace (sec * 2 ^ k + 2 ^ k) with ((sec + 1) * 2 ^ k) by lia. rewrite (N.mul_comm (2 ^ k)). apply N.mul_le_mono_r. lia. }
  pose proof (size_le P2 (k + 21) HP2hi) as Hsz.
  destruct (r53_pow2_round P2 k HP2lo ltac:(lia)) as (mx & tx & Er & Htx & Hmx & Hxu & Hxl).
  unfold mk_fin. destruct (N.eqb_spec P2 0) as [Hc|_]; [change P53 with 9007199254740992 in HP2lo; lia|].
  rewrite Er. destruct (Z.ltb_spec 971 (Z.of_N tx - Z.of_N k)); [lia|].
  assert (HposP2 : 0 < P2) by (change P53 with 9007199254740992 in HP2lo; lia).
  pose proof (size_bounds P2 HposP2) as [Hs2 _].
  set (sh2 := N.size P2 - 53) in *. set (h2 := 2 ^ sh2 / 2) in *.
  assert (Hs54 : 54 <= N.size P2).
  { destruct (N.le_gt_cases 54 (N.size P2)) as [|Hlt]; [assumption|exfalso].
    pose proof (size_bounds P2 HposP2) as [_ Hhi]. assert (2 ^ N.size P2 <= 2 ^ 53) by (apply N.pow_le_mono_r; lia).
    change P53 with (2 ^ 53) in HP2lo. lia. }
  assert (Hh2 : 2 * h2 <= 2 ^ sh2). { unfold h2. pose proof (N.div_mod (2 ^ sh2) 2 ltac:(lia)). lia. }
  assert (Hsh2 : 2 ^ sh2 * 2 ^ 32 <= 2 ^ k).
  { rewrite <- N.pow_add_r. apply N.pow_le_mono_r; [lia|]. unfold sh2. lia. }
  change (2 ^ 32) with 4294967296 in Hsh2. change (2 ^ 53) with 9007199254740992 in H53k.
  set (X := 2 ^ tx) in *.
  assert (Eprod : P2 * E9 = sec * 2 ^ k * E9 + mj * E9) by (unfold P2; lia).
  assert (Edk : d * 2 ^ k = E9 * sec * 2 ^ k + nsec * 2 ^ k) by (rewrite Ed; lia).
  assert (Hu : mx * X * E9 <= (P2 + h2) * E9) by (apply N.mul_le_mono_r; exact Hxu).
  assert (Hl : P2 * E9 <= (mx * X + h2) * E9) by (apply N.mul_le_mono_r; exact Hxl).
  clearbody P2 h2. clear Er Hxu Hxl.
  apply (stage_y mx tx k d (h2 * E9 + E9)); try exact Hmx; try exact Hd.
  - unfold sh2 in Htx. lia.
  - change E9 with 1000000000. lia.
  - fold X. clearbody X. change E9 with 1000000000 in *. lia.
  - fold X. clearbody X. change E9 with 1000000000 in *. lia.
Qed.

Lemma mod_ms d : d mod MS = 0 -> (d mod E9) mod MS = 0.
Proof.
  intros Hms. change E9 with (MS * 1000). rewrite N.mod_mul_r by discriminate.
  rewrite N.mul_comm, N.mod_add by discriminate. rewrite N.mod_mod by discriminate. exact Hms.
Qed.
Lemma sec_bound d : d < 2 ^ 50 -> d / E9 < 1125900.
Proof. intros Hd. apply N.div_lt_upper_bound; [discriminate|]. change (2 ^ 50) with 1125899906842624 in Hd. change E9 with 1000000000. lia. Qed.
Lemma j_bound d : (d mod E9) / MS < 1000.
Proof.
  assert (Hns : d mod E9 < E9) by (apply N.mod_upper_bound; discriminate).
  apply N.div_lt_upper_bound; [discriminate|]. change E9 with 1000000000 in *. unfold MS. lia.
Qed.
Lemma nsec_split d : d mod MS = 0 -> d mod E9 = (d mod E9) / MS * MS.
Proof.
  intros Hms. pose proof (mod_ms d Hms) as Hm. set (n := d mod E9) in *. clearbody n.
  pose proof (N.div_mod n MS ltac:(discriminate)) as Hdm. rewrite Hm in Hdm. rewrite N.add_0_r in Hdm.
  rewrite N.mul_comm. exact Hdm.
Qed.

(* F8 repaired: the three float64 operations of Marshal / Unmarshal preserve every millisecond below 2^50 ns *)
Theorem npt_ms_exact d : d mod MS = 0 -> d < 2 ^ 50 ->
  to_int64_round (dmul_int (seconds_of d) E9) = Z.of_N d.
Proof.
  intros Hms Hd. unfold seconds_of.
  pose proof (sec_bound d Hd) as Hsec. pose proof (j_bound d) as Hj. pose proof (nsec_split d Hms) as E2.
  assert (Ed0 : d = E9 * (d / E9) + d mod E9) by (apply N.div_mod; discriminate).
  set (sec := d / E9) in *. set (j := d mod E9 / MS) in *. clearbody sec j.
  rewrite E2 in Ed0. rewrite E2. assert (Ed : d = E9 * sec + j * MS) by exact Ed0. clear Ed0 E2 Hms.
  destruct (N.eq_dec j 0) as [Hj0|Hj0].
  - subst j. change (0 * MS) with 0 in *. change (mk_fin false 0 E9) with (DFin false 0 0).
    destruct (N.eq_dec sec 0) as [Hs0|Hs0].
    + subst sec. subst d. reflexivity.
    + rewrite Ed, N.add_0_r. apply case_whole; lia.
  - destruct (aj_facts j ltac:(lia) Hj) as (mj & k & Ea & Hk & Hmj & Hmjk & Hau & Hal).
    rewrite Ea. assert (Hns : j * MS < E9) by (change E9 with 1000000000; unfold MS; lia).
    destruct (N.eq_dec sec 0) as [Hs0|Hs0].
    + subst sec. change (mk_fin false 0 1) with (DFin false 0 0).
      replace d with (j * MS) by lia. apply case_sub; try assumption. lia.
    + rewrite Ed. apply case_gen; try assumption; lia.
Qed.

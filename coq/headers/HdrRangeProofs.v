(* Range: order dependence (F7), determinism with a single range unit, totality, NPT truncation (F8) *)
From Coq Require Import ZifyBool ZifyNat ZifyN Permutation.
From GVL Require Import NList.
From GV Require Import Res Str StrProofs KeyVal KeyValProofs HdrTransport HdrAuthProofs HdrSessionProofs Float HdrRange.
Open Scope N_scope.

Definition is_unit (k : list N) : bool := list_eqb k K_smpte || list_eqb k K_npt || list_eqb k K_clock.
Definition rcompat (a b : list N * list N) : bool := negb (is_unit (fst a) && is_unit (fst b)).
Definition units_no_conflict (m : list (list N * list N)) : bool := forallb (fun a => forallb (fun b => list_eqb (fst a) (fst b) || rcompat a b) m) m.

Lemma gstep_commute a b : fst a <> fst b -> rcompat a b = true -> commute gstep a b.
Proof.
  intros Hne Hc [val tm]. destruct a as [ka va], b as [kb vb]. cbn [fst] in Hne. unfold rcompat, is_unit in Hc. cbn [fst] in Hc.
  unfold gstep, obind.
  destruct (list_eqb ka K_smpte) eqn:A1; [|destruct (list_eqb ka K_npt) eqn:A2; [|destruct (list_eqb ka K_clock) eqn:A3; [|destruct (list_eqb ka K_time) eqn:A4]]];
  (destruct (list_eqb kb K_smpte) eqn:B1; [|destruct (list_eqb kb K_npt) eqn:B2; [|destruct (list_eqb kb K_clock) eqn:B3; [|destruct (list_eqb kb K_time) eqn:B4]]]);
  try same_key_contra; try discriminate Hc;
  repeat match goal with
  | |- context [start_end ?f ?v] => destruct (start_end f v)
  | |- context [utc_unmarshal ?v] => destruct (utc_unmarshal v)
  end; cbn [option_map]; rewrite ?A1, ?A2, ?A3, ?A4, ?B1, ?B2, ?B3, ?B4; cbn [option_map]; reflexivity.
Qed.

Definition range_no_conflict (s : list N) : bool :=
  match kv_parse s SEMI with Some m => units_no_conflict m | None => true end.

Theorem range_deterministic_partial s o1 o2 :
  is_perm o1 -> is_perm o2 -> range_no_conflict s = true ->
  range_unmarshal_with o1 s = range_unmarshal_with o2 s.
Proof.
  intros H1 H2 Hnc. unfold range_unmarshal_with, range_no_conflict in *.
  destruct (kv_parse s SEMI) as [m|] eqn:E; [|reflexivity]. unfold gfold.
  rewrite (ofold_order_indep gstep m o1 o2 H1 H2 (kv_parse_keys _ _ _ E)); [reflexivity|].
  intros a b Ha Hb Hne. apply gstep_commute; [exact Hne|].
  unfold units_no_conflict in Hnc. rewrite forallb_forall in Hnc. specialize (Hnc a Ha).
  rewrite forallb_forall in Hnc. specialize (Hnc b Hb). apply orb_true_iff in Hnc as [Hk|Hk]; [|exact Hk].
  apply list_eqb_spec in Hk. contradiction.
Qed.

(* F7: "npt=1-2;clock=19960213T143205Z-" *)
Definition f7_range : list N :=
  [110;112;116;61;49;45;50;59;99;108;111;99;107;61;49;57;57;54;48;50;49;51;84;49;52;51;50;48;53;90;45].
Theorem range_deterministic_refuted :
  exists s o1 o2, is_perm o1 /\ is_perm o2 /\ range_unmarshal_with o1 s <> range_unmarshal_with o2 s.
Proof.
  exists f7_range, id_order, (@rev _). split; [apply id_is_perm|]. split; [apply rev_is_perm|].
  vm_compute. discriminate.
Qed.

Theorem range_total o s : range_unmarshal_with o s <> Panic.
Proof.
  unfold range_unmarshal_with. destruct (kv_parse s SEMI); [|discriminate].
  destruct (gfold _ _) as [[[v|] tm]|]; discriminate.
Qed.

(* F8: 1.001 s marshals to "npt=1.001-" and comes back as 1.000999999 s *)
Definition f8_range : range := mkRange (RNpt 1001000000%Z None) None.
Theorem npt_roundtrip_refuted :
  exists h, range_unmarshal_with id_order (range_marshal h) = Ok (mkRange (RNpt 1000999999%Z None) None)
            /\ r_value h = RNpt 1001000000%Z None.
Proof. exists f8_range. split; vm_compute; reflexivity. Qed.

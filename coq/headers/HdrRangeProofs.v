(* Range: order dependence (F7), determinism with a single range unit, totality, NPT truncation (F8) *)
From Coq Require Import ZifyBool ZifyNat ZifyN Permutation.
From GVL Require Import NList.
From GV Require Import Res Str StrProofs KeyVal KeyValProofs HdrTransport HdrAuthProofs HdrSessionProofs Float FloatProofs FloatRound NptRound HdrRange.
Open Scope N_scope.

Lemma gstep_commute a b : fst a <> fst b -> commute gstep a b.
Proof.
  intros Hne [val tm]. destruct a as [ka va], b as [kb vb]. cbn [fst] in Hne.
  unfold gstep, obind, unit_step.
  destruct (list_eqb ka K_smpte) eqn:A1; [|destruct (list_eqb ka K_npt) eqn:A2; [|destruct (list_eqb ka K_clock) eqn:A3; [|destruct (list_eqb ka K_time) eqn:A4]]];
  (destruct (list_eqb kb K_smpte) eqn:B1; [|destruct (list_eqb kb K_npt) eqn:B2; [|destruct (list_eqb kb K_clock) eqn:B3; [|destruct (list_eqb kb K_time) eqn:B4]]]);
  try same_key_contra;
  destruct val as [v0|];
  repeat match goal with
  | |- context [start_end ?f ?v] => destruct (start_end f v)
  | |- context [utc_unmarshal ?v] => destruct (utc_unmarshal v)
  end; cbn [option_map]; rewrite ?A1, ?A2, ?A3, ?A4, ?B1, ?B2, ?B3, ?B4; cbn [option_map]; reflexivity.
Qed.

(* F7 repaired (/repo bf6ff68): the result never depends on the iteration order *)
Theorem range_deterministic s o1 o2 :
  is_perm o1 -> is_perm o2 -> range_unmarshal_with o1 s = range_unmarshal_with o2 s.
Proof.
  intros H1 H2. unfold range_unmarshal_with.
  destruct (kv_parse s SEMI) as [m|] eqn:E; [|reflexivity]. unfold gfold.
  rewrite (ofold_order_indep gstep m o1 o2 H1 H2 (kv_parse_keys _ _ _ E)); [reflexivity|].
  intros a b _ _. apply gstep_commute.
Qed.

(* regression (old F7 witness "npt=1-2;clock=19960213T143205Z-"): now an error in both orders *)
Definition f7_range : list N :=
  [110;112;116;61;49;45;50;59;99;108;111;99;107;61;49;57;57;54;48;50;49;51;84;49;52;51;50;48;53;90;45].
Example f7_range_regression :
  range_unmarshal_with id_order f7_range = Err /\ range_unmarshal_with (@rev _) f7_range = Err.
Proof. split; vm_compute; reflexivity. Qed.

Theorem range_total o s : range_unmarshal_with o s <> Panic.
Proof.
  unfold range_unmarshal_with. destruct (kv_parse s SEMI); [|discriminate].
  destruct (gfold _ _) as [[[v|] tm]|]; discriminate.
Qed.

(* regression (F8, fixed by /repo ffeb757): 1.001 s marshals to "npt=1.001-" and comes back as 1.001 s *)
Definition f8_range : range := mkRange (RNpt 1001000000%Z None) None.
Example f8_regression : range_unmarshal_with id_order (range_marshal f8_range) = Ok f8_range.
Proof. vm_compute. reflexivity. Qed.

(* ================= round trips ================= *)
(* characters of marshalled range values: digits, ':' '.' 'T' 'Z' *)
Definition rchar (c : N) : bool := is_digit c || (c =? COL) || (c =? DOT) || (c =? 84) || (c =? 90).
Definition rstr (l : list N) : bool := forallb rchar l.

Lemma rstr_app a b : rstr (a ++ b) = rstr a && rstr b.
Proof. apply forallb_app. Qed.
Lemma rstr_nosep sep l : rstr l = true -> rchar sep = false -> nosep sep l = true.
Proof.
  intros H Hs. induction l as [|x t IH]; [reflexivity|]. cbn [rstr forallb nosep] in *.
  apply andb_true_iff in H as [H1 H2]. fold (nosep sep t). rewrite (IH H2), andb_true_r.
  apply negb_true_iff, N.eqb_neq. intros ->. congruence.
Qed.
Lemma digits_rstr l : all_digits l = true -> rstr l = true.
Proof.
  induction l as [|x t IH]; [reflexivity|]. cbn [all_digits forallb rstr]. intros H.
  apply andb_true_iff in H as [H1 H2]. unfold rchar at 1. rewrite H1. cbn [orb]. now apply IH.
Qed.

(* ---- UTC ---- *)
Definition wf_utc (t : utc) : bool :=
  (u_year t <? 10000) && (1 <=? u_month t) && (u_month t <=? 12) && (1 <=? u_day t) && (u_day t <=? days_in (u_month t) (u_year t))
  && (u_hour t <? 24) && (u_min t <? 60) && (u_sec t <? 60) && (u_nsec t =? 0).

Lemma fmt_pad2 n : n < 100 -> fmt_pad 2 n = [48 + n / 10; 48 + n mod 10].
Proof.
  intros H.
  assert (E : forallb (fun n => list_eqb (fmt_pad 2 n) [48 + n / 10; 48 + n mod 10]) (upto 100) = true) by (vm_compute; reflexivity).
  apply list_eqb_spec. exact (forall_upto _ 100 E n H).
Qed.
Lemma fmt_pad4 n : n < 10000 -> fmt_pad 4 n = [48 + n / 1000; 48 + (n / 100) mod 10; 48 + (n / 10) mod 10; 48 + n mod 10].
Proof.
  intros H.
  assert (E : forallb (fun n => list_eqb (fmt_pad 4 n) [48 + n / 1000; 48 + (n / 100) mod 10; 48 + (n / 10) mod 10; 48 + n mod 10]) (upto 10000) = true)
    by (vm_compute; reflexivity).
  apply list_eqb_spec. exact (forall_upto _ 10000 E n H).
Qed.

Lemma two_digits_pad n rest : n < 100 -> two_digits ([48 + n / 10; 48 + n mod 10] ++ rest) = Some (n, rest).
Proof.
  Local Ltac Zify.zify_post_hook ::= Z.div_mod_to_equations.
  intros H. cbn [app two_digits]. unfold is_digit.
  assert (H1 : n / 10 < 10) by (apply N.div_lt_upper_bound; lia).
  pose proof (N.mod_upper_bound n 10).
  replace ((48 <=? 48 + n / 10) && (48 + n / 10 <=? 57) && ((48 <=? 48 + n mod 10) && (48 + n mod 10 <=? 57))) with true by lia.
  f_equal. f_equal. lia.
Qed.

Lemma utc_roundtrip t : wf_utc t = true -> utc_unmarshal (utc_marshal t) = Some t.
Proof.
  Local Ltac Zify.zify_post_hook ::= Z.div_mod_to_equations.
  intros H. unfold wf_utc in H. rewrite !andb_true_iff in H. destruct H as [[[[[[[[Hy Hm1] Hm2] Hd1] Hd2] Hh] Hmi] Hs] Hn].
  destruct t as [y mo d h mi s ns]. cbn [u_year u_month u_day u_hour u_min u_sec u_nsec] in *.
  apply N.eqb_eq in Hn. subst ns.
  assert (Hd3 : d < 100). { unfold days_in in Hd2. repeat match type of Hd2 with context [if ?b then _ else _] => destruct b end; lia. }
  unfold utc_marshal. cbn [u_year u_month u_day u_hour u_min u_sec].
  rewrite fmt_pad4 by lia. rewrite !fmt_pad2 by lia.
  cbn [app]. unfold utc_unmarshal.
  assert (Hdig : forall k, k < 10 -> is_digit (48 + k) = true) by (intros k Hk; unfold is_digit; lia).
  assert (Q1 : y / 1000 < 10) by (apply N.div_lt_upper_bound; lia).
  rewrite !Hdig by (try apply N.mod_upper_bound; lia). cbn [andb].
  change (48 + mo / 10 :: 48 + mo mod 10 :: ?r) with ([48 + mo / 10; 48 + mo mod 10] ++ r).
  rewrite two_digits_pad by lia.
  change (48 + d / 10 :: 48 + d mod 10 :: ?r) with ([48 + d / 10; 48 + d mod 10] ++ r).
  rewrite two_digits_pad by lia.
  change (48 + h / 10 :: 48 + h mod 10 :: ?r) with ([48 + h / 10; 48 + h mod 10] ++ r).
  rewrite two_digits_pad by lia.
  change (48 + mi / 10 :: 48 + mi mod 10 :: ?r) with ([48 + mi / 10; 48 + mi mod 10] ++ r).
  rewrite two_digits_pad by lia.
  change (48 + s / 10 :: [48 + s mod 10; 90]) with ([48 + s / 10; 48 + s mod 10] ++ [90]).
  rewrite two_digits_pad by lia.
  assert (Ey : digits_val [48 + y / 1000; 48 + (y / 100) mod 10; 48 + (y / 10) mod 10; 48 + y mod 10] 0 = y).
  { cbn [digits_val]. lia. }
  rewrite Ey.
  replace ((1 <=? mo) && (mo <=? 12) && (h <? 24) && (mi <? 60) && (s <? 60) && (1 <=? d) && (d <=? days_in mo y)) with true by lia.
  reflexivity.
Qed.

Lemma utc_marshal_rstr t : rstr (utc_marshal t) = true.
Proof.
  unfold utc_marshal, fmt_pad. rewrite !rstr_app.
  assert (Hp : forall w n, rstr (pad_left w (fmt_uint n)) = true).
  { intros w n. apply digits_rstr. unfold pad_left. generalize (N.of_nat w) as ww. generalize (fmt_uint_digits n). generalize (fmt_uint n) as l.
    induction w as [|w IH]; intros l Hl ww; cbn [pad_left_aux]; [exact Hl|].
    destruct (nlen l <? ww); [|exact Hl]. apply IH. unfold all_digits in *. cbn [forallb]. now rewrite Hl. }
  rewrite !Hp. reflexivity.
Qed.
Lemma utc_marshal_nonnil t : utc_marshal t <> [].
Proof. unfold utc_marshal. intros E. apply (f_equal (@rev N)) in E. rewrite !rev_app_distr in E. cbn in E. discriminate. Qed.

(* ---- Range ---- *)
(* a time value survives its own text codec *)
Definition codec_ok {A} (f : list N -> option A) (ms : A -> list N) (x : A) : Prop :=
  f (ms x) = Some x /\ rstr (ms x) = true /\ ms x <> [].
Definition codec_ok_opt {A} (f : list N -> option A) (ms : A -> list N) (o : option A) : Prop :=
  match o with Some x => codec_ok f ms x | None => True end.

Lemma start_end_codec {A} (f : list N -> option A) (ms : A -> list N) st en :
  codec_ok f ms st -> codec_ok_opt f ms en ->
  start_end f (ms st ++ [DASH] ++ opt_str ms en) = Some (st, en) /\
  plain_ok SEMI (ms st ++ [DASH] ++ opt_str ms en) = true.
Proof.
  intros (Hf & Hr & Hne) Hen. split.
  - unfold start_end. cbn [app]. rewrite split_on_cons by (apply rstr_nosep; [apply Hr|reflexivity]).
    destruct en as [e|]; cbn [opt_str].
    + destruct Hen as (Hfe & Hre & Hnee).
      rewrite split_on_clean by (apply rstr_nosep; [apply Hre|reflexivity]).
      rewrite Hf.
      assert (Hm : forall (B : Type) (l : list N) (a b : B), l <> [] -> match l with [] => a | _ :: _ => b end = b)
        by (intros B [|? ?] a b Hl; [congruence|reflexivity]).
      rewrite Hm by exact Hnee. rewrite Hfe. reflexivity.
    + cbn [split_on]. now rewrite Hf.
  - unfold plain_ok. rewrite !nosep_app. rewrite (rstr_nosep SEMI _ Hr eq_refl). cbn [nosep forallb andb].
    assert (Hn : nosep SEMI (opt_str ms en) = true).
    { destruct en as [e|]; [|reflexivity]. destruct Hen as (_ & Hre & _). now apply rstr_nosep. }
    change (forallb (fun c => negb (c =? SEMI)) (opt_str ms en)) with (nosep SEMI (opt_str ms en)). rewrite Hn.
    cbn [andb negb N.eqb DASH SEMI Pos.eqb].
    destruct (ms st) as [|c t]; [congruence|]. cbn [app]. cbn [rstr forallb] in Hr.
    apply andb_true_iff in Hr as [Hr _]. unfold rchar, is_digit, COL, DOT in Hr. unfold DQ. lia.
Qed.

Definition value_codec_ok (v : range_value) : Prop :=
  match v with
  | RSmpte st en => codec_ok smpte_unmarshal smpte_marshal st /\ codec_ok_opt smpte_unmarshal smpte_marshal en
  | RNpt st en => codec_ok npt_unmarshal npt_marshal st /\ codec_ok_opt npt_unmarshal npt_marshal en
  | RUtc st en => codec_ok utc_unmarshal utc_marshal st /\ codec_ok_opt utc_unmarshal utc_marshal en
  end.

Lemma gstep_smpte tm v : gstep (None, tm) (K_smpte, v) = option_map (fun p => (Some (RSmpte (fst p) (snd p)), tm)) (start_end smpte_unmarshal v).
Proof. reflexivity. Qed.
Lemma gstep_npt tm v : gstep (None, tm) (K_npt, v) = option_map (fun p => (Some (RNpt (fst p) (snd p)), tm)) (start_end npt_unmarshal v).
Proof. reflexivity. Qed.
Lemma gstep_clock tm v : gstep (None, tm) (K_clock, v) = option_map (fun p => (Some (RUtc (fst p) (snd p)), tm)) (start_end utc_unmarshal v).
Proof. reflexivity. Qed.
Lemma gstep_time st v : gstep st (K_time, v) = option_map (fun t => (fst st, Some t)) (utc_unmarshal v).
Proof. destruct st. reflexivity. Qed.

Lemma utc_codec_ok t : wf_utc t = true -> codec_ok utc_unmarshal utc_marshal t.
Proof. intros H. split; [now apply utc_roundtrip|]. split; [apply utc_marshal_rstr|apply utc_marshal_nonnil]. Qed.

Lemma utc_plain_ok t : plain_ok SEMI (utc_marshal t) = true.
Proof.
  unfold plain_ok. rewrite (rstr_nosep SEMI _ (utc_marshal_rstr t) eq_refl). cbn [andb].
  pose proof (utc_marshal_rstr t) as Hr. pose proof (utc_marshal_nonnil t) as Hn.
  destruct (utc_marshal t) as [|c r]; [congruence|]. cbn [rstr forallb] in Hr.
  apply andb_true_iff in Hr as [Hr _]. unfold rchar, is_digit, COL, DOT in Hr. unfold DQ. lia.
Qed.

Theorem range_roundtrip_id h :
  value_codec_ok (r_value h) -> opt_all wf_utc (r_time h) = true ->
  range_unmarshal_with id_order (range_marshal h) = Ok h.
Proof.
  intros Hv Ht. destruct h as [v tm]. cbn [r_value r_time] in *.
  unfold range_unmarshal_with, range_marshal, range_kvitems. cbn [r_value r_time].
  assert (Hparse : kv_parse (render_items [SEMI] ([range_value_item v] ++ opt_it tm (fun t => (K_time, VPlain (utc_marshal t))))) SEMI
                   = Some (map item_kv ([range_value_item v] ++ opt_it tm (fun t => (K_time, VPlain (utc_marshal t)))))).
  { apply (kv_parse_render_distinct SEMI []); [reflexivity|reflexivity| |].
    - rewrite forallb_app. apply andb_true_iff. split.
      + cbn [forallb]. rewrite andb_true_r. destruct v as [st en|st en|st en]; cbn [range_value_item]; destruct Hv as [H1 H2];
        (apply item_ok_plain; [reflexivity|exact (proj2 (start_end_codec _ _ st en H1 H2))]).
      + destruct tm as [t|]; [|reflexivity]. cbn [opt_it forallb]. rewrite item_ok_plain; [reflexivity|reflexivity|apply utc_plain_ok].
    - destruct v, tm; reflexivity. }
  rewrite Hparse. unfold id_order, gfold. rewrite map_app, ofold_app. cbn [map ofold]. unfold item_kv at 1.
  destruct v as [st en|st en|st en]; cbn [range_value_item fst snd]; destruct Hv as [H1 H2];
  rewrite ?gstep_smpte, ?gstep_npt, ?gstep_clock, (proj1 (start_end_codec _ _ st en H1 H2)); cbn [option_map fst snd obind];
  (destruct tm as [t|]; cbn [opt_it map ofold]; [|reflexivity]);
  unfold item_kv; cbn [fst snd]; rewrite gstep_time, utc_roundtrip by exact Ht; reflexivity.
Qed.

(* Range round trip, in every iteration order, for every value whose time values survive their own text codec
   (always the case for UTC - next theorem; for NPT this is exactly what F8 denies for some values) *)
Theorem range_roundtrip_partial h o :
  is_perm o -> value_codec_ok (r_value h) -> opt_all wf_utc (r_time h) = true ->
  range_unmarshal_with o (range_marshal h) = Ok h.
Proof.
  intros Ho Hv Ht. rewrite (range_deterministic _ o id_order Ho id_is_perm). now apply range_roundtrip_id.
Qed.

Theorem range_roundtrip_utc st en tm o :
  is_perm o -> wf_utc st = true -> opt_all wf_utc en = true -> opt_all wf_utc tm = true ->
  range_unmarshal_with o (range_marshal (mkRange (RUtc st en) tm)) = Ok (mkRange (RUtc st en) tm).
Proof.
  intros Ho H1 H2 H3. apply range_roundtrip_partial; [exact Ho| |exact H3].
  cbn [r_value value_codec_ok]. split; [now apply utc_codec_ok|]. destruct en as [e|]; [|exact I].
  cbn [opt_all] in H2. now apply utc_codec_ok.
Qed.

(* ---- NPT (repaired code: rounding) ---- *)
Lemma to_int64_range x : (- Z.of_N P63 <= to_int64 x < Z.of_N P63)%Z.
Proof.
  unfold to_int64, MININT. change (Z.of_N P63) with 9223372036854775808%Z.
  destruct x as [| |neg m e]; try lia.
  set (v := if (0 <=? e)%Z then m * pow2 (Z.to_N e) else m / pow2 (Z.to_N (- e))).
  change P63 with 9223372036854775808. destruct (N.leb_spec 9223372036854775808 v); [lia|]. destruct neg; lia.
Qed.
Lemma to_int64_round_range x : (- Z.of_N P63 <= to_int64_round x < Z.of_N P63)%Z.
Proof.
  unfold to_int64_round, MININT. change (Z.of_N P63) with 9223372036854775808%Z.
  destruct x as [| |neg m e]; try lia.
  match goal with |- context [if P63 <=? ?vv then _ else _] => set (v := vv) end.
  change P63 with 9223372036854775808. destruct (N.leb_spec 9223372036854775808 v); [lia|]. destruct neg; lia.
Qed.
Lemma wrap64_small z : (- Z.of_N P63 <= z < Z.of_N P63)%Z -> wrap64 z = z.
Proof.
  unfold wrap64, w64z, s64z. change (Z.of_N P63) with 9223372036854775808%Z. change (Z.of_N P64) with 18446744073709551616%Z.
  intros H. destruct (Z.ltb_spec (z mod 18446744073709551616) 9223372036854775808); lia.
Qed.

(* format_float prints digits and at most one '.' *)
Definition fchar (c : N) : bool := is_digit c || (c =? DOT).
Lemma strip_zeros_rev_digits l : all_digits l = true -> all_digits (strip_zeros_rev l) = true.
Proof.
  induction l as [|x t IH]; intros H; [reflexivity|]. cbn [strip_zeros_rev].
  unfold all_digits in *. cbn [forallb] in H. apply andb_true_iff in H as [H1 H2].
  destruct x as [|p]; [cbn [forallb]; now rewrite H1, H2|].
  repeat (destruct p as [p|p|]; try (cbn [forallb]; now rewrite H1, H2)). now apply IH.
Qed.
Lemma all_digits_rev l : all_digits (rev l) = all_digits l.
Proof.
  unfold all_digits. induction l as [|x t IH]; [reflexivity|]. cbn [rev forallb]. rewrite forallb_app, IH. cbn [forallb].
  now rewrite andb_true_r, andb_comm.
Qed.
Lemma pad_left_digits w l : all_digits l = true -> all_digits (pad_left w l) = true.
Proof.
  unfold pad_left. generalize (N.of_nat w) as ww. revert l.
  induction w as [|w IH]; intros l ww Hl; cbn [pad_left_aux]; [exact Hl|].
  destruct (nlen l <? ww); [|exact Hl]. apply IH. unfold all_digits in *. cbn [forallb]. now rewrite Hl.
Qed.
Lemma digits_fchar l : all_digits l = true -> forallb fchar l = true.
Proof.
  induction l as [|x t IH]; [reflexivity|]. unfold all_digits. cbn [forallb]. intros H.
  apply andb_true_iff in H as [H1 H2]. unfold fchar at 1. rewrite H1. cbn [orb]. now apply IH.
Qed.
Lemma fmt_fixed_chars d k : forallb fchar (fmt_fixed d k) = true /\ fmt_fixed d k <> [].
Proof.
  unfold fmt_fixed. destruct (k <=? 0)%Z.
  - split; [apply digits_fchar, fmt_uint_digits|apply fmt_uint_nonnil].
  - destruct (_ =? 0).
    + split; [apply digits_fchar, fmt_uint_digits|apply fmt_uint_nonnil].
    + split.
      * rewrite !forallb_app. rewrite (digits_fchar _ (fmt_uint_digits _)). cbn [forallb andb fchar]. 
        replace (is_digit 46 || (46 =? DOT)) with true by reflexivity. cbn [andb].
        apply digits_fchar. rewrite all_digits_rev. apply strip_zeros_rev_digits. rewrite all_digits_rev.
        apply pad_left_digits, fmt_uint_digits.
      * pose proof (fmt_uint_nonnil (d / pow10 (Z.to_N k))). destruct (fmt_uint (d / pow10 (Z.to_N k))); [congruence|discriminate].
Qed.
Lemma format_float_chars neg m e : neg = false -> forallb fchar (format_float (DFin neg m e)) = true /\ format_float (DFin neg m e) <> [].
Proof.
  intros ->. unfold format_float. destruct (m =? 0); [split; [reflexivity|discriminate]|].
  destruct (shortest_loop _ _ _ _ _ _) as [d k]. cbn [app]. apply fmt_fixed_chars.
Qed.
Lemma fchar_rstr l : forallb fchar l = true -> rstr l = true /\ nosep COL l = true.
Proof.
  induction l as [|x t IH]; intros H; [split; reflexivity|]. cbn [forallb] in H. apply andb_true_iff in H as [H1 H2].
  destruct (IH H2) as [I1 I2]. unfold fchar in H1. split.
  - cbn [rstr forallb]. fold (rstr t). rewrite I1, andb_true_r. unfold rchar.
    apply orb_true_iff in H1 as [H1|H1]; rewrite H1; cbn [orb]; rewrite ?orb_true_r; reflexivity.
  - cbn [nosep forallb]. fold (nosep COL t). rewrite I2, andb_true_r. unfold is_digit, DOT, COL in *. lia.
Qed.

(* Under Go's contract ParseFloat (FormatFloat x) = x, an NPT time d >= 0 comes back as
   int64 (math.Round (float64 (d.Seconds()) * 1e9)) *)
Theorem npt_time_partial d neg m e :
  (0 <= d)%Z -> seconds_of (Z.to_N d) = DFin neg m e -> neg = false ->
  parse_float (format_float (DFin neg m e)) = Some (DFin neg m e) ->
  npt_unmarshal (npt_marshal d) = Some (to_int64_round (dmul_int (DFin neg m e) E9)).
Proof.
  intros Hd Hs Hneg Hc. unfold npt_marshal. destruct (Z.ltb_spec d 0); [lia|]. rewrite Hs.
  destruct (format_float_chars neg m e Hneg) as [Hch Hne]. destruct (fchar_rstr _ Hch) as [_ Hcol].
  unfold npt_unmarshal. rewrite split_on_clean by exact Hcol. rewrite Hc.
  f_equal. cbn [N.mul N.add N.modulo]. change (wrap64 (s64z (Z.of_N (0 mod P64)) * Z.of_N E9)) with 0%Z.
  rewrite Z.add_0_r. apply wrap64_small, to_int64_round_range.
Qed.

Theorem npt_codec_partial d neg m e :
  (0 <= d)%Z -> seconds_of (Z.to_N d) = DFin neg m e -> neg = false ->
  parse_float (format_float (DFin neg m e)) = Some (DFin neg m e) ->
  to_int64_round (dmul_int (DFin neg m e) E9) = d ->
  codec_ok npt_unmarshal npt_marshal d.
Proof.
  intros Hd Hs Hneg Hc Hr. split; [rewrite (npt_time_partial d neg m e) by assumption; now rewrite Hr|].
  unfold npt_marshal. destruct (Z.ltb_spec d 0); [lia|]. rewrite Hs.
  destruct (format_float_chars neg m e Hneg) as [Hch Hne]. split; [apply (fchar_rstr _ Hch)|exact Hne].
Qed.

(* ---- SMPTE ---- *)
Definition wf_smpte (t : smpte_time) : bool :=
  (0 <=? sm_time t)%Z && (sm_time t mod 1000000000 =? 0)%Z && (sm_time t <? 9223372036854775808)%Z
  && (sm_frame t <? 2 ^ 32) && (sm_sub t <? 2 ^ 32).

Lemma fmt_uint2_digits n : all_digits (fmt_uint2 n) = true.
Proof. unfold fmt_uint2. destruct (n <? 10); [|apply fmt_uint_digits]. unfold all_digits. cbn [forallb]. apply fmt_uint_digits. Qed.
Lemma fmt_uint2_nonnil n : fmt_uint2 n <> [].
Proof. unfold fmt_uint2. destruct (n <? 10); [discriminate|apply fmt_uint_nonnil]. Qed.
Lemma parse_fmt_uint2 bits n : n < 2 ^ bits -> parse_uint bits (fmt_uint2 n) = Some n.
Proof.
  intros H. unfold fmt_uint2. destruct (n <? 10); [|now apply parse_fmt_uint].
  unfold parse_uint. pose proof (fmt_uint_digits n) as Hd. unfold all_digits in Hd. cbn [forallb is_digit]. rewrite Hd.
  cbn [digits_val andb N.leb N.compare Pos.compare Pos.compare_cont]. replace (10 * 0 + (48 - 48)) with 0 by reflexivity.
  rewrite fmt_uint_val. destruct (N.ltb_spec n (2 ^ bits)); [reflexivity|lia].
Qed.

Lemma smpte_marshal_parts t S :
  to_int64 (seconds_of (Z.to_N (sm_time t))) = Z.of_N S ->
  smpte_marshal t =
  fmt_uint (S / 3600) ++ [COL] ++ fmt_uint2 ((S mod 3600) / 60) ++ [COL] ++ fmt_uint2 ((S mod 3600) mod 60)
  ++ (if (0 <? sm_frame t) || (0 <? sm_sub t)
      then [COL] ++ fmt_uint2 (sm_frame t) ++ (if 0 <? sm_sub t then [DOT] ++ fmt_uint2 (sm_sub t) else [])
      else []).
Proof. intros H. unfold smpte_marshal. rewrite H, N2Z.id. reflexivity. Qed.

Lemma digits_nocol l : all_digits l = true -> nosep COL l = true.
Proof. intros H. apply digits_nosep; [exact H|reflexivity]. Qed.
Lemma digits_nodot l : all_digits l = true -> nosep DOT l = true.
Proof. intros H. apply digits_nosep; [exact H|reflexivity]. Qed.

(* given that Duration.Seconds() of the whole-second time converts back exactly (a float64 fact, checked on every
   SMPTE value by the harness), the SMPTE text codec is the identity *)
Theorem smpte_codec_partial t :
  wf_smpte t = true ->
  to_int64 (seconds_of (Z.to_N (sm_time t))) = (sm_time t / 1000000000)%Z ->
  codec_ok smpte_unmarshal smpte_marshal t.
Proof.
  Local Ltac Zify.zify_post_hook ::= Z.div_mod_to_equations.
  intros Hwf Hsec. unfold wf_smpte in Hwf. rewrite !andb_true_iff in Hwf. destruct Hwf as [[[[H0 Hm] Hlt] Hf] Hs].
  destruct t as [tm fr sf]. cbn [sm_time sm_frame sm_sub] in *.
  set (S := Z.to_N (tm / 1000000000)).
  assert (HS : (tm / 1000000000)%Z = Z.of_N S) by (unfold S; rewrite Z2N.id; lia).
  rewrite HS in Hsec.
  pose proof (smpte_marshal_parts (mkSmpte tm fr sf) S Hsec) as Em. cbn [sm_time sm_frame sm_sub] in Em.
  assert (HSb : S < 9223372037) by lia.
  assert (Hh : S / 3600 < 2 ^ 64). { apply N.div_lt_upper_bound; [lia|]. change (2 ^ 64) with 18446744073709551616. lia. }
  assert (Hmi : (S mod 3600) / 60 < 2 ^ 64). { change (2 ^ 64) with 18446744073709551616. pose proof (N.mod_upper_bound S 3600). assert ((S mod 3600) / 60 < 60) by (apply N.div_lt_upper_bound; lia). lia. }
  assert (Hse : (S mod 3600) mod 60 < 2 ^ 64). { change (2 ^ 64) with 18446744073709551616. pose proof (N.mod_upper_bound (S mod 3600) 60). lia. }
  assert (Htot : ((S mod 3600) mod 60 + (S mod 3600) / 60 * 60 + S / 3600 * 3600) mod P64 = S).
  { change P64 with 18446744073709551616. rewrite N.mod_small; lia. }
  assert (Htm : wrap64 (s64z (Z.of_N S) * Z.of_N E9) = tm).
  { unfold s64z. change (Z.of_N P63) with 9223372036854775808%Z. change (Z.of_N E9) with 1000000000%Z.
    destruct (Z.ltb_spec (Z.of_N S) 9223372036854775808); [|lia]. rewrite wrap64_small by (change (Z.of_N P63) with 9223372036854775808%Z; lia). lia. }
  split; [|split].
  - (* parse *)
    rewrite Em. unfold smpte_unmarshal. cbn [app].
    rewrite split_on_cons by (apply digits_nocol, fmt_uint_digits).
    rewrite split_on_cons by (apply digits_nocol, fmt_uint2_digits).
    destruct ((0 <? fr) || (0 <? sf)) eqn:Efs.
    + cbn [app]. rewrite split_on_cons by (apply digits_nocol, fmt_uint2_digits).
      destruct (0 <? sf) eqn:Esf.
      * rewrite split_on_clean by (rewrite nosep_app; rewrite (digits_nocol _ (fmt_uint2_digits fr)); cbn [app nosep forallb];
                                    change (forallb (fun c => negb (c =? COL)) (fmt_uint2 sf)) with (nosep COL (fmt_uint2 sf));
                                    now rewrite (digits_nocol _ (fmt_uint2_digits sf))).
        rewrite parse_fmt_uint by exact Hh. rewrite !parse_fmt_uint2 by assumption. rewrite Htot, Htm.
        cbn [app]. rewrite split_on_cons by (apply digits_nodot, fmt_uint2_digits).
        rewrite split_on_clean by (apply digits_nodot, fmt_uint2_digits).
        rewrite !parse_fmt_uint2 by lia. reflexivity.
      * rewrite app_nil_r. rewrite split_on_clean by (apply digits_nocol, fmt_uint2_digits).
        rewrite parse_fmt_uint by exact Hh. rewrite !parse_fmt_uint2 by assumption. rewrite Htot, Htm.
        rewrite split_on_clean by (apply digits_nodot, fmt_uint2_digits).
        rewrite parse_fmt_uint2 by lia. assert (sf = 0) by lia. subst sf. reflexivity.
    + rewrite app_nil_r. rewrite split_on_clean by (apply digits_nocol, fmt_uint2_digits).
      rewrite parse_fmt_uint by exact Hh. rewrite !parse_fmt_uint2 by assumption. rewrite Htot, Htm.
      assert (fr = 0 /\ sf = 0) as [-> ->] by lia. reflexivity.
  - rewrite Em. rewrite !rstr_app. rewrite (digits_rstr _ (fmt_uint_digits _)), !(digits_rstr _ (fmt_uint2_digits _)).
    cbn [rstr forallb andb]. replace (rchar COL) with true by reflexivity. cbn [andb].
    destruct ((0 <? fr) || (0 <? sf)); [|reflexivity]. rewrite !rstr_app, (digits_rstr _ (fmt_uint2_digits _)).
    cbn [rstr forallb andb]. replace (rchar COL) with true by reflexivity. cbn [andb].
    destruct (0 <? sf); [|reflexivity]. rewrite rstr_app, (digits_rstr _ (fmt_uint2_digits _)). reflexivity.
  - rewrite Em. pose proof (fmt_uint_nonnil (S / 3600)). destruct (fmt_uint (S / 3600)); [congruence|discriminate].
Qed.

(* with the exactness of the float model on whole seconds (FloatProofs.seconds_whole) the SMPTE codec is unconditional *)
Theorem smpte_codec t : wf_smpte t = true -> codec_ok smpte_unmarshal smpte_marshal t.
Proof.
  Local Ltac Zify.zify_post_hook ::= Z.div_mod_to_equations.
  intros Hwf. apply smpte_codec_partial; [exact Hwf|].
  unfold wf_smpte in Hwf. rewrite !andb_true_iff in Hwf. destruct Hwf as [[[[H0 Hm] Hlt] _] _].
  set (S := Z.to_N (sm_time t / 1000000000)).
  assert (E : Z.to_N (sm_time t) = S * E9). { unfold S. change E9 with 1000000000. lia. }
  rewrite E, seconds_whole; [unfold S; lia|]. unfold S. change P53 with 9007199254740992. lia.
Qed.

Theorem range_roundtrip_smpte st en tm o :
  is_perm o -> wf_smpte st = true -> opt_all wf_smpte en = true -> opt_all wf_utc tm = true ->
  range_unmarshal_with o (range_marshal (mkRange (RSmpte st en) tm)) = Ok (mkRange (RSmpte st en) tm).
Proof.
  intros Ho H1 H2 H3. apply range_roundtrip_partial; [exact Ho| |exact H3].
  cbn [r_value value_codec_ok]. split; [now apply smpte_codec|]. destruct en as [e|]; [|exact I].
  cbn [opt_all] in H2. now apply smpte_codec.
Qed.

(* ---- NPT, repaired code (F8 fixed by /repo ffeb757): every millisecond value below 2^50 ns (about 13 days) ---- *)
Lemma seconds_of_shape d : (exists m e, seconds_of d = DFin false m e) \/ seconds_of d = DInf false \/ seconds_of d = DNaN.
Proof.
  unfold seconds_of, dadd_pos.
  assert (Hmk : forall p q, (exists m e, mk_fin false p q = DFin false m e) \/ mk_fin false p q = DInf false).
  { intros p q. unfold mk_fin. destruct (p =? 0); [left; eauto|]. destruct (r53 p q) as [m e].
    destruct (971 <? e)%Z; [right; reflexivity|left; eauto]. }
  destruct (Hmk (d / E9) 1) as [(m1 & e1 & ->)| ->]; [|right; right; reflexivity].
  destruct (Hmk (d mod E9) E9) as [(m2 & e2 & ->)| ->]; [|right; right; reflexivity].
  unfold mk_scaled. match goal with |- context [mk_fin false ?p ?q] => destruct (Hmk p q) as [(m & e & ->)| ->] end; [left; eauto|right; left; reflexivity].
Qed.

(* the contract of strconv that is not modelled as a theorem: ParseFloat (FormatFloat (x, 'f', -1, 64)) = x *)
Definition float_contract (d : Z) : Prop :=
  parse_float (format_float (seconds_of (Z.to_N d))) = Some (seconds_of (Z.to_N d)).

Definition wf_npt (d : Z) : bool := (0 <=? d)%Z && (d mod 1000000 =? 0)%Z && (d <? 2 ^ 50)%Z.

Theorem npt_codec_ms d : wf_npt d = true -> float_contract d -> codec_ok npt_unmarshal npt_marshal d.
Proof.
  Local Ltac Zify.zify_post_hook ::= Z.div_mod_to_equations.
  intros Hwf Hc. unfold wf_npt in Hwf. rewrite !andb_true_iff in Hwf. destruct Hwf as [[H0 Hm] Hlt].
  assert (Hex : to_int64_round (dmul_int (seconds_of (Z.to_N d)) E9) = d).
  { rewrite npt_ms_exact; [lia| |].
    - unfold MS. change (2 ^ 50)%Z with 1125899906842624%Z in Hlt.
      assert (E : Z.of_N (Z.to_N d mod 1000000) = 0%Z) by (rewrite N2Z.inj_mod; rewrite Z2N.id by lia; lia). lia.
    - change (2 ^ 50) with 1125899906842624. change (2 ^ 50)%Z with 1125899906842624%Z in Hlt. lia. }
  unfold float_contract in Hc.
  destruct (seconds_of_shape (Z.to_N d)) as [(m & e & Es)|[Es|Es]].
  - rewrite Es in *. apply (npt_codec_partial d false m e); try assumption; try reflexivity. lia.
  - rewrite Es in Hex. cbn in Hex. unfold MININT in Hex. change (Z.of_N P63) with 9223372036854775808%Z in Hex. lia.
  - rewrite Es in Hex. cbn in Hex. unfold MININT in Hex. change (Z.of_N P63) with 9223372036854775808%Z in Hex. lia.
Qed.

Theorem range_roundtrip_npt st en tm o :
  is_perm o -> wf_npt st = true -> float_contract st ->
  match en with Some e => wf_npt e = true /\ float_contract e | None => True end ->
  opt_all wf_utc tm = true ->
  range_unmarshal_with o (range_marshal (mkRange (RNpt st en) tm)) = Ok (mkRange (RNpt st en) tm).
Proof.
  intros Ho H1 C1 H2 H3. apply range_roundtrip_partial; [exact Ho| |exact H3].
  cbn [r_value value_codec_ok]. split; [now apply npt_codec_ms|]. destruct en as [e|]; [|exact I].
  destruct H2 as [H2 C2]. now apply npt_codec_ms.
Qed.

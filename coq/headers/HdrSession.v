(* pkg/headers/session.go and rtp_info.go *)
From Coq Require Import String.
From GVL Require Import NList Wire.
From GV Require Import Res Str KeyVal HdrTransport.
Open Scope N_scope.

Definition K_timeout := Eval vm_compute in str "timeout".
Definition K_url := Eval vm_compute in str "url".
Definition K_seq := Eval vm_compute in str "seq".
Definition K_rtptime := Eval vm_compute in str "rtptime".

(* ---- Session ---- *)
Record session := mkSession { s_id : list N; s_timeout : option N }.

Definition sstep (st : option N) (e : kv) : option (option N) :=
  let '(k, v) := e in
  if list_eqb k K_timeout then option_map Some (parse_uint 32 v) else Some st.

Definition sfold := ofold sstep.

Definition session_unmarshal_with (order : order_t) (s : list N) : res session :=
  match cut SEMI s with
  | None => Ok (mkSession s None)
  | Some (id, rest) =>
    match kv_parse (trim_left_sp rest) SEMI with
    | None => Err
    | Some m =>
      match sfold None (order m) with
      | None => Err
      | Some to => Ok (mkSession id to)
      end
    end
  end.

Definition session_marshal (h : session) : list N :=
  s_id h ++ match s_timeout h with
            | Some t => [SEMI] ++ render_items [SEMI] [(K_timeout, VPlain (fmt_uint t))]
            | None => []
            end.

(* ---- RTP-Info ---- *)
Record rtpinfo_entry := mkEntry { e_url : list N; e_seq : option N; e_ts : option N }.
Definition rstate := (rtpinfo_entry * bool)%type.

Definition rstep (st : rstate) (e : kv) : option rstate :=
  let '(en, ur) := st in
  let '(k, v) := e in
  if list_eqb k K_url then Some (mkEntry v (e_seq en) (e_ts en), true)
  else if list_eqb k K_seq then option_map (fun x => (mkEntry (e_url en) (Some x) (e_ts en), ur)) (parse_uint 16 v)
  else if list_eqb k K_rtptime then option_map (fun x => (mkEntry (e_url en) (e_seq en) (Some x), ur)) (parse_uint 32 v)
  else Some st.

Definition rfold := ofold rstep.

Definition entry_unmarshal_with (order : order_t) (part : list N) : res rtpinfo_entry :=
  match kv_parse (trim_left_sp part) SEMI with
  | None => Err
  | Some m =>
    match rfold (mkEntry [] None None, false) (order m) with
    | None => Err
    | Some (en, true) => Ok en
    | Some (_, false) => Err
    end
  end.

Definition rtpinfo_unmarshal_with (order : order_t) (s : list N) : res (list rtpinfo_entry) :=
  all_ok (map (entry_unmarshal_with order) (split_on COMMA s)).

Definition entry_kvitems (e : rtpinfo_entry) : list item :=
  [(K_url, VPlain (e_url e))]
  ++ opt_it (e_seq e) (fun x => (K_seq, VPlain (fmt_uint x)))
  ++ opt_it (e_ts e) (fun x => (K_rtptime, VPlain (fmt_uint x))).
Definition entry_marshal (e : rtpinfo_entry) : list N := render_items [SEMI] (entry_kvitems e).

Definition rtpinfo_marshal (h : list rtpinfo_entry) : list N := join [COMMA] (map entry_marshal h).

(* ---- wire ---- *)
Definition enc_session (h : session) : list N := putl (s_id h) ++ enc_opt (s_timeout h) (fun x => [x]).
Definition dec_session (l : list N) : option (session * list N) :=
  match getl l with None => None | Some (id, l1) =>
  match dec_opt dec_n l1 with None => None | Some (to, l2) => Some (mkSession id to, l2) end end.

Definition enc_entry (e : rtpinfo_entry) : list N :=
  putl (e_url e) ++ enc_opt (e_seq e) (fun x => [x]) ++ enc_opt (e_ts e) (fun x => [x]).
Definition dec_entry (l : list N) : option (rtpinfo_entry * list N) :=
  match getl l with None => None | Some (u, l1) =>
  match dec_opt dec_n l1 with None => None | Some (sq, l2) =>
  match dec_opt dec_n l2 with None => None | Some (ts, l3) => Some (mkEntry u sq ts, l3) end end end.

(* n items, each decoded by f; fuel = input *)
Fixpoint dec_many_aux {A} (f : list N -> option (A * list N)) (fuel : list N) (k : N) (l : list N)
  : option (list A * list N) :=
  if k =? 0 then Some ([], l) else
  match fuel with
  | [] => None
  | _ :: fuel' =>
    match f l with
    | None => None
    | Some (x, r) =>
      match dec_many_aux f fuel' (N.pred k) r with
      | None => None
      | Some (xs, r') => Some (x :: xs, r')
      end
    end
  end.
Definition dec_many {A} (f : list N -> option (A * list N)) (l : list N) : option (list A * list N) :=
  match l with [] => None | k :: t => dec_many_aux f l k t end.
Definition enc_many {A} (f : A -> list N) (xs : list A) : list N := nlen xs :: concat (map f xs).

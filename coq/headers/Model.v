(* headers domain: run function (line protocol) over the header models.
   case kinds (first token):
     10 transport unmarshal   : 10 putl(s) observed...   -> outcome (the observed outcome in the case line is ignored
                                                            since the repaired parsers are order independent)
     11 transport marshal     : 11 enc_transport          -> putl(bytes)
     12 transports unmarshal  : 12 putl(s) observed...
     13 transports marshal    : 13 enc_many enc_transport
     20 / 21 session, 30 / 31 rtp-info, 40 / 41 range (40 carries the observed outcome like 10),
     50 / 51 www-authenticate, 60 / 61 authorization, 70 / 71 keymgmt
     80 d        -> putl (FormatFloat(Duration(d).Seconds(), 'f', -1, 64))           (d >= 0)
     81 putl(s)  -> [0] | 1 :: putz (int64(math.Round(ParseFloat(s) * 1e9)))
   outcome encoding: [0] = error, 1 :: enc value = ok, [77] = panic *)
From GVL Require Import NList Wire.
From GV Require Import Res Str KeyVal HdrTransport HdrSession HdrAuth Float HdrRange Mikey HdrKeyMgmt.
Open Scope N_scope.

Definition enc_res {A} (f : A -> list N) (r : res A) : list N :=
  match r with Ok v => 1 :: f v | Err => [0] | Panic => [77] end.

Definition with_str (t : list N) (f : list N -> list N -> list N) : list N :=
  match getl t with Some (s, rest) => f s rest | None => bad_case end.
Definition with_val {A} (dec : list N -> option (A * list N)) (t : list N) (f : A -> list N) : list N :=
  match dec t with Some (v, []) => f v | _ => bad_case end.

Definition run (c : list N) : list N :=
  match c with
  | 10 :: t => with_str t (fun s _ => enc_res enc_transport (transport_unmarshal_with id_order s))
  | 11 :: t => with_val dec_transport t (fun v => putl (transport_marshal v))
  | 12 :: t => with_str t (fun s _ => enc_res (enc_many enc_transport) (transports_unmarshal_with id_order s))
  | 13 :: t => with_val (dec_many dec_transport) t (fun v => putl (transports_marshal v))
  | 20 :: t => with_str t (fun s _ => enc_res enc_session (session_unmarshal_with id_order s))
  | 21 :: t => with_val dec_session t (fun v => putl (session_marshal v))
  | 30 :: t => with_str t (fun s _ => enc_res (enc_many enc_entry) (rtpinfo_unmarshal_with id_order s))
  | 31 :: t => with_val (dec_many dec_entry) t (fun v => putl (rtpinfo_marshal v))
  | 40 :: t => with_str t (fun s _ => enc_res enc_range (range_unmarshal_with id_order s))
  | 41 :: t => with_val dec_range t (fun v => putl (range_marshal v))
  | 50 :: t => with_str t (fun s _ => enc_res enc_authenticate (authenticate_unmarshal_with id_order s))
  | 51 :: t => with_val dec_authenticate t (fun v => putl (authenticate_marshal v))
  | 60 :: t => with_str t (fun s _ => enc_res enc_authorization (authorization_unmarshal_with id_order s))
  | 61 :: t => with_val dec_authorization t (fun v => putl (authorization_marshal v))
  | 70 :: t => with_str t (fun s _ => enc_res enc_keymgmt (keymgmt_unmarshal_with id_order s))
  | 71 :: t => with_val dec_keymgmt t (fun v => putl (keymgmt_marshal v))
  | [80; d] => putl (format_float (seconds_of d))
  | 81 :: t => with_str t (fun s _ =>
      match parse_float s with
      | None => [0]
      | Some x => 1 :: putz (to_int64_round (dmul_int x E9))
      end)
  | _ => bad_case
  end.

(* headers domain: run function (line protocol) over the header models.
   case kinds (first token):
     10 transport unmarshal   : 10 putl(s) observed...   -> observed if it is a possible outcome, else the
                                                            identity-order outcome (so that a diff shows it)
     11 transport marshal     : 11 enc_transport          -> putl(bytes)
     12 transports unmarshal  : 12 putl(s) observed...
     13 transports marshal    : 13 enc_many enc_transport
     20 / 21 session, 30 / 31 rtp-info, 40 / 41 range (40 carries the observed outcome like 10),
     50 / 51 www-authenticate, 60 / 61 authorization, 70 / 71 keymgmt
     80 d        -> putl (FormatFloat(Duration(d).Seconds(), 'f', -1, 64))           (d >= 0)
     81 putl(s)  -> [0] | 1 :: putz (int64(ParseFloat(s) * 1e9))
   outcome encoding: [0] = error, 1 :: enc value = ok, [77] = panic *)
From GVL Require Import NList Wire.
From GV Require Import Res Str KeyVal HdrTransport HdrSession HdrAuth Float HdrRange Mikey HdrKeyMgmt.
Open Scope N_scope.

Definition enc_res {A} (f : A -> list N) (r : res A) : list N :=
  match r with Ok v => 1 :: f v | Err => [0] | Panic => [77] end.

Definition dedup_orders_outcomes {A} (f : A -> list N) (un : order_t -> res A) (m : kvs) : list (list N) :=
  map (fun o => enc_res f (un o)) (cand_orders m).

(* possible outcomes of a map-order dependent unmarshal, as encodings *)
Definition transport_outcomes (s : list N) : list (list N) :=
  match kv_parse s SEMI with
  | None => [[0]]
  | Some m => dedup_orders_outcomes enc_transport (fun o => transport_unmarshal_with o s) m
  end.
Definition range_outcomes (s : list N) : list (list N) :=
  match kv_parse s SEMI with
  | None => [[0]]
  | Some m => dedup_orders_outcomes enc_range (fun o => range_unmarshal_with o s) m
  end.

Definition member (x : list N) (l : list (list N)) : bool := existsb (list_eqb x) l.

Definition pick (obs : list N) (outs : list (list N)) (dflt : list N) : list N :=
  if member obs outs then obs else dflt.

(* transports: per-part candidate encodings (without the leading ok tag) *)
Fixpoint match_parts (sets : list (list (list N))) (obs : list N) : bool :=
  match sets with
  | [] => match obs with [] => true | _ => false end
  | set :: rest => existsb (fun c => starts_with c obs && match_parts rest (ndrop (nlen c) obs)) set
  end.
Definition strip_ok (e : list N) : list N := match e with 1 :: t => t | _ => e end.

Definition transports_check (s obs : list N) : list N :=
  let dflt := enc_res (enc_many enc_transport) (transports_unmarshal_with id_order s) in
  match dflt with
  | 1 :: _ =>
    let parts := map trim_left_sp (split_on COMMA s) in
    let sets := map (fun p => map strip_ok (transport_outcomes p)) parts in
    match obs with
    | 1 :: n :: rest => if (n =? nlen parts) && match_parts sets rest then obs else dflt
    | _ => dflt
    end
  | _ => dflt
  end.

Definition with_str (t : list N) (f : list N -> list N -> list N) : list N :=
  match getl t with Some (s, rest) => f s rest | None => bad_case end.
Definition with_val {A} (dec : list N -> option (A * list N)) (t : list N) (f : A -> list N) : list N :=
  match dec t with Some (v, []) => f v | _ => bad_case end.

Definition run (c : list N) : list N :=
  match c with
  | 10 :: t => with_str t (fun s obs =>
      pick obs (transport_outcomes s) (enc_res enc_transport (transport_unmarshal_with id_order s)))
  | 11 :: t => with_val dec_transport t (fun v => putl (transport_marshal v))
  | 12 :: t => with_str t transports_check
  | 13 :: t => with_val (dec_many dec_transport) t (fun v => putl (transports_marshal v))
  | 20 :: t => with_str t (fun s _ => enc_res enc_session (session_unmarshal_with id_order s))
  | 21 :: t => with_val dec_session t (fun v => putl (session_marshal v))
  | 30 :: t => with_str t (fun s _ => enc_res (enc_many enc_entry) (rtpinfo_unmarshal_with id_order s))
  | 31 :: t => with_val (dec_many dec_entry) t (fun v => putl (rtpinfo_marshal v))
  | 40 :: t => with_str t (fun s obs =>
      pick obs (range_outcomes s) (enc_res enc_range (range_unmarshal_with id_order s)))
  | 41 :: t => with_val dec_range t (fun v => putl (range_marshal v))
  | 50 :: t => with_str t (fun s _ => enc_res enc_authenticate (authenticate_unmarshal_with id_order s))
  | 51 :: t => with_val dec_authenticate t (fun v => putl (authenticate_marshal v))
  | 60 :: t => with_str t (fun s _ => enc_res enc_authorization (authorization_unmarshal_with id_order s))
  | 61 :: t => with_val dec_authorization t (fun v => putl (authorization_marshal v))
  | 70 :: t => with_str t (fun s _ => enc_res enc_keymgmt (keymgmt_unmarshal_with id_order s))
  | 71 :: t => with_val dec_keymgmt t (fun v => putl (keymgmt_marshal v))
  | [80; d] => putl (format_float (seconds_of d))
  | 81 :: t => with_str t (fun s _ =>
      match parse_float s with
      | None => [0]
      | Some x => 1 :: putz (to_int64 (dmul_int x E9))
      end)
  | _ => bad_case
  end.

(* pkg/headers/range.go *)
From Coq Require Import String.
From GVL Require Import NList Wire.
From GV Require Import Res Str KeyVal HdrTransport Float.
Open Scope N_scope.

Definition K_smpte := Eval vm_compute in str "smpte".
Definition K_npt := Eval vm_compute in str "npt".
Definition K_clock := Eval vm_compute in str "clock".
Definition K_time := Eval vm_compute in str "time".
Definition DOT : N := 46.
Definition COL : N := 58.

(* ---- SMPTE ---- *)
Record smpte_time := mkSmpte { sm_time : Z; sm_frame : N; sm_sub : N }.   (* time.Duration as int64 *)

Definition smpte_unmarshal (s : list N) : option smpte_time :=
  let parts := split_on COL s in
  match parts with
  | h :: m :: sc :: rest =>
    match rest with
    | [] | [_] =>
      match parse_uint 64 h, parse_uint 64 m, parse_uint 64 sc with
      | Some hours, Some mins, Some secs =>
        let total := (secs + mins * 60 + hours * 3600) mod P64 in
        let t := wrap64 (s64z (Z.of_N total) * Z.of_N E9) in
        match rest with
        | [fr] =>
          match split_on DOT fr with
          | [a; b] =>
            match parse_uint 32 a, parse_uint 32 b with
            | Some f, Some sf => Some (mkSmpte t f sf)
            | _, _ => None
            end
          | a :: _ =>
            match parse_uint 32 a with
            | Some f => Some (mkSmpte t f 0)
            | None => None
            end
          | [] => None      (* unreachable: split_on never returns [] *)
          end
        | _ => Some (mkSmpte t 0 0)
        end
      | _, _, _ => None
      end
    | _ => None
    end
  | _ => None
  end.

(* RangeSMPTETime.marshal for Time >= 0 *)
Definition smpte_marshal (t : smpte_time) : list N :=
  let d := Z.to_N (to_int64 (seconds_of (Z.to_N (sm_time t)))) in     (* uint64(t.Time.Seconds()) *)
  let hours := d / 3600 in
  let d1 := d mod 3600 in
  let mins := d1 / 60 in
  let secs := d1 mod 60 in
  fmt_uint hours ++ [COL] ++ fmt_uint2 mins ++ [COL] ++ fmt_uint2 secs
  ++ (if (0 <? sm_frame t) || (0 <? sm_sub t)
      then [COL] ++ fmt_uint2 (sm_frame t) ++ (if 0 <? sm_sub t then [DOT] ++ fmt_uint2 (sm_sub t) else [])
      else []).

(* ---- NPT ---- *)
Definition npt_unmarshal (s : list N) : option Z :=
  let parts := split_on COL s in
  match parts with
  | [] | _ :: _ :: _ :: _ :: _ => None
  | _ =>
    let r : option (N * N * list N) :=
      match parts with
      | [h; m; sc] =>
        match parse_uint 64 h, parse_uint 64 m with
        | Some hours, Some mins => Some (hours, mins, sc)
        | _, _ => None
        end
      | [m; sc] =>
        match parse_uint 64 m with
        | Some mins => Some (0, mins, sc)
        | None => None
        end
      | [sc] => Some (0, 0, sc)
      | _ => None
      end in
    match r with
    | None => None
    | Some (hours, mins, sc) =>
      match parse_float sc with
      | None => None
      | Some x =>
        let ns := to_int64_round (dmul_int x E9) in     (* time.Duration(math.Round(seconds*1e9)), /repo ffeb757 *)
        let hm := (mins * 60 + hours * 3600) mod P64 in
        Some (wrap64 (ns + wrap64 (s64z (Z.of_N hm) * Z.of_N E9)))
      end
    end
  end.

(* marshalRangeNPTTime *)
Definition npt_marshal (d : Z) : list N :=
  if (d <? 0)%Z then [45] ++ format_float (seconds_of (Z.to_N (- d))) else format_float (seconds_of (Z.to_N d)).

(* ---- UTC ---- *)
Record utc := mkUtc { u_year : N; u_month : N; u_day : N; u_hour : N; u_min : N; u_sec : N; u_nsec : N }.

Definition is_leap (y : N) : bool := (y mod 4 =? 0) && (negb (y mod 100 =? 0) || (y mod 400 =? 0)).
Definition days_in (m y : N) : N :=
  if m =? 2 then (if is_leap y then 29 else 28)
  else if (m =? 4) || (m =? 6) || (m =? 9) || (m =? 11) then 30 else 31.

Definition two_digits (s : list N) : option (N * list N) :=
  match s with
  | a :: b :: t => if is_digit a && is_digit b then Some (10 * (a - 48) + (b - 48), t) else None
  | _ => None
  end.

(* fractional seconds accepted by time.Parse after the seconds field: [.,] digit+ ; nanoseconds from
   the first nine digits *)
Definition frac_ns (digs : list N) : N :=
  let d9 := ntake 9 digs in
  digits_val d9 0 * 10 ^ (9 - nlen d9).

(* time.Parse("20060102T150405Z", s) *)
Definition utc_unmarshal (s : list N) : option utc :=
  match s with
  | y1 :: y2 :: y3 :: y4 :: s1 =>
    if is_digit y1 && is_digit y2 && is_digit y3 && is_digit y4 then
      let year := digits_val [y1; y2; y3; y4] 0 in
      match two_digits s1 with None => None | Some (month, s2) =>
      match two_digits s2 with None => None | Some (day, s3) =>
      match s3 with
      | 84 :: s4 =>                                     (* 'T' *)
        match two_digits s4 with None => None | Some (hour, s5) =>
        match two_digits s5 with None => None | Some (mi, s6) =>
        match two_digits s6 with None => None | Some (sec, s7) =>
          let '(nsec, s8) :=
            match s7 with
            | c :: d :: t =>
              if ((c =? 46) || (c =? 44)) && is_digit d
              then let '(digs, rest) := span is_digit (d :: t) in (frac_ns digs, rest)
              else (0, s7)
            | _ => (0, s7)
            end in
          match s8 with
          | [90] =>                                      (* 'Z' *)
            if (1 <=? month) && (month <=? 12) && (hour <? 24) && (mi <? 60) && (sec <? 60)
               && (1 <=? day) && (day <=? days_in month year)
            then Some (mkUtc year month day hour mi sec nsec) else None
          | _ => None
          end
        end end end
      | _ => None
      end end end
    else None
  | _ => None
  end.

Definition fmt_pad (w : nat) (n : N) : list N := pad_left w (fmt_uint n).
(* t.Format("20060102T150405Z") for a UTC time with 0 <= year <= 9999 *)
Definition utc_marshal (t : utc) : list N :=
  fmt_pad 4 (u_year t) ++ fmt_pad 2 (u_month t) ++ fmt_pad 2 (u_day t) ++ [84]
  ++ fmt_pad 2 (u_hour t) ++ fmt_pad 2 (u_min t) ++ fmt_pad 2 (u_sec t) ++ [90].

(* ---- Range ---- *)
Inductive range_value :=
  | RSmpte (st : smpte_time) (en : option smpte_time)
  | RNpt (st : Z) (en : option Z)
  | RUtc (st : utc) (en : option utc).

Record range := mkRange { r_value : range_value; r_time : option utc }.

(* rangeValueUnmarshal + the per-unit unmarshal(start, end) *)
Definition start_end {A} (f : list N -> option A) (v : list N) : option (A * option A) :=
  match split_on DASH v with
  | [a; b] =>
    match f a with
    | None => None
    | Some st =>
      match b with
      | [] => Some (st, None)
      | _ => match f b with Some en => Some (st, Some en) | None => None end
      end
    end
  | _ => None
  end.

Definition gstate := (option range_value * option utc)%type.   (* h.Value (specFound), h.Time *)

(* /repo bf6ff68: a second smpte / npt / clock key is an error once specFound *)
Definition unit_step {A} (val : option range_value) (tm : option utc) (mk : A -> option A -> range_value)
                     (r : option (A * option A)) : option gstate :=
  match val with
  | Some _ => None
  | None => option_map (fun p => (Some (mk (fst p) (snd p)), tm)) r
  end.

Definition gstep (st : gstate) (e : kv) : option gstate :=
  let '(val, tm) := st in
  let '(k, v) := e in
  if list_eqb k K_smpte then unit_step val tm RSmpte (start_end smpte_unmarshal v)
  else if list_eqb k K_npt then unit_step val tm RNpt (start_end npt_unmarshal v)
  else if list_eqb k K_clock then unit_step val tm RUtc (start_end utc_unmarshal v)
  else if list_eqb k K_time then option_map (fun t => (val, Some t)) (utc_unmarshal v)
  else Some st.

Definition gfold := ofold gstep.

Definition range_unmarshal_with (order : order_t) (s : list N) : res range :=
  match kv_parse s SEMI with
  | None => Err
  | Some m =>
    match gfold (None, None) (order m) with
    | Some (Some v, tm) => Ok (mkRange v tm)
    | _ => Err
    end
  end.

Definition opt_str {A} (f : A -> list N) (o : option A) : list N := match o with Some e => f e | None => [] end.
Definition range_value_item (v : range_value) : item :=
  match v with
  | RSmpte st en => (K_smpte, VPlain (smpte_marshal st ++ [DASH] ++ opt_str smpte_marshal en))
  | RNpt st en => (K_npt, VPlain (npt_marshal st ++ [DASH] ++ opt_str npt_marshal en))
  | RUtc st en => (K_clock, VPlain (utc_marshal st ++ [DASH] ++ opt_str utc_marshal en))
  end.

Definition range_kvitems (h : range) : list item :=
  [range_value_item (r_value h)] ++ opt_it (r_time h) (fun t => (K_time, VPlain (utc_marshal t))).
Definition range_marshal (h : range) : list N := render_items [SEMI] (range_kvitems h).

(* ---- wire ---- *)
Definition enc_smpte (t : smpte_time) : list N := putz (sm_time t) ++ [sm_frame t; sm_sub t].
Definition dec_smpte (l : list N) : option (smpte_time * list N) :=
  match l with s :: m :: f :: sf :: t => Some (mkSmpte (getz s m) f sf, t) | _ => None end.
Definition enc_z (z : Z) : list N := putz z.
Definition dec_z (l : list N) : option (Z * list N) :=
  match l with s :: m :: t => Some (getz s m, t) | _ => None end.
Definition enc_utc (t : utc) : list N := [u_year t; u_month t; u_day t; u_hour t; u_min t; u_sec t; u_nsec t].
Definition dec_utc (l : list N) : option (utc * list N) :=
  match l with y :: mo :: d :: h :: mi :: s :: ns :: t => Some (mkUtc y mo d h mi s ns, t) | _ => None end.

Definition enc_range (h : range) : list N :=
  match r_value h with
  | RSmpte st en => [0] ++ enc_smpte st ++ enc_opt en enc_smpte
  | RNpt st en => [1] ++ enc_z st ++ enc_opt en enc_z
  | RUtc st en => [2] ++ enc_utc st ++ enc_opt en enc_utc
  end ++ enc_opt (r_time h) enc_utc.

Definition dec_range (l : list N) : option (range * list N) :=
  match l with
  | 0 :: l0 =>
    match dec_smpte l0 with None => None | Some (st, l1) =>
    match dec_opt dec_smpte l1 with None => None | Some (en, l2) =>
    match dec_opt dec_utc l2 with None => None | Some (tm, l3) => Some (mkRange (RSmpte st en) tm, l3) end end end
  | 1 :: l0 =>
    match dec_z l0 with None => None | Some (st, l1) =>
    match dec_opt dec_z l1 with None => None | Some (en, l2) =>
    match dec_opt dec_utc l2 with None => None | Some (tm, l3) => Some (mkRange (RNpt st en) tm, l3) end end end
  | 2 :: l0 =>
    match dec_utc l0 with None => None | Some (st, l1) =>
    match dec_opt dec_utc l1 with None => None | Some (en, l2) =>
    match dec_opt dec_utc l2 with None => None | Some (tm, l3) => Some (mkRange (RUtc st en) tm, l3) end end end
  | _ => None
  end.

(* pkg/headers/key_mgmt.go *)
From Coq Require Import String.
From GVL Require Import NList Wire.
From GV Require Import Res Str KeyVal HdrTransport Mikey.
Open Scope N_scope.

Definition K_prot := Eval vm_compute in str "prot".
Definition K_kuri := Eval vm_compute in str "uri".
Definition K_data := Eval vm_compute in str "data".
Definition S_mikey := Eval vm_compute in str "mikey".

Record keymgmt := mkKeyMgmt { k_url : list N; k_msg : message }.

(* loop state: protocolProvided, uriProvided (with h.URL), h.MikeyMessage *)
Definition kstate := (bool * option (list N) * option message)%type.

Definition kstep (st : kstate) (e : kv) : res kstate :=
  let '(pp, url, msg) := st in
  let '(k, v) := e in
  if list_eqb k K_prot then (if list_eqb v S_mikey then Ok (true, url, msg) else Err)
  else if list_eqb k K_kuri then Ok (pp, Some v, msg)
  else if list_eqb k K_data then
    match b64_decode v with
    | None => Err
    | Some byts => let* m := mikey_unmarshal byts in Ok (pp, url, Some m)
    end
  else Ok st.

Fixpoint kfold (st : kstate) (l : kvs) : res kstate :=
  match l with
  | [] => Ok st
  | e :: r => let* st' := kstep st e in kfold st' r
  end.

Definition keymgmt_unmarshal_with (order : order_t) (s : list N) : res keymgmt :=
  match kv_parse s SEMI with
  | None => Err
  | Some m =>
    let* st := kfold (false, None, None) (order m) in
    match st with
    | (true, Some url, Some msg) => Ok (mkKeyMgmt url msg)
    | _ => Err
    end
  end.

Definition keymgmt_kvitems (h : keymgmt) : list item :=
  [(K_prot, VPlain S_mikey); (K_kuri, VQuoted (k_url h)); (K_data, VQuoted (b64_encode (mikey_marshal (k_msg h))))].
Definition keymgmt_marshal (h : keymgmt) : list N := render_items [SEMI] (keymgmt_kvitems h).

Definition enc_keymgmt (h : keymgmt) : list N := putl (k_url h) ++ enc_message (k_msg h).
Definition dec_keymgmt (l : list N) : option (keymgmt * list N) :=
  match getl l with None => None | Some (u, l1) =>
  match dec_message l1 with None => None | Some (m, l2) => Some (mkKeyMgmt u m, l2) end end.

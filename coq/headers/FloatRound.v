From Coq Require Import ZifyBool ZifyNat ZifyN.
From GVL Require Import NList.
From GV Require Import Res Str Float FloatProofs.
Open Scope N_scope.

Lemma size_le p n : p < 2 ^ n -> N.size p <= n.
Proof.
  intros H. destruct (N.eq_dec p 0) as [->|Hp]; [cbn; lia|].
  pose proof (size_bounds p ltac:(lia)) as [Hlo _].
  destruct (N.le_gt_cases (N.size p) n) as [|Hgt]; [assumption|exfalso].
  assert (2 ^ n <= 2 ^ (N.size p - 1)) by (apply N.pow_le_mono_r; lia). lia.
Qed.

(* rounding p / 2^k (value below 2^53, p >= 2^53) to 53 bits:
   result (m, t - k) with t in {sh, sh+1}, sh = size p - 53, and |m 2^t - p| <= 2^(sh-1) *)
Lemma r53_pow2_round p k : P53 <= p -> N.size p < k + 53 ->
  exists m t, r53 p (pow2 k) = (m, (Z.of_N t - Z.of_N k)%Z) /\
    N.size p - 53 <= t <= N.size p - 52 /\ P52 <= m < P53 /\
    m * 2 ^ t <= p + 2 ^ (N.size p - 53) / 2 /\ p <= m * 2 ^ t + 2 ^ (N.size p - 53) / 2.
Proof.
  intros Hp Hsk. assert (Hpos : 0 < p) by (change P53 with (2^53) in Hp; lia).
  pose proof (size_bounds p Hpos) as [Hlo Hhi]. set (s := N.size p) in *.
  assert (Hs54 : 54 <= s).
  { destruct (N.le_gt_cases 54 s) as [|Hlt]; [assumption|exfalso].
    assert (2 ^ s <= 2 ^ 53) by (apply N.pow_le_mono_r; lia). change P53 with (2 ^ 53) in Hp. lia. }
  set (sh := s - 53).
  assert (Hshk : sh < k) by (unfold sh; lia).
  unfold r53. fold s. unfold zsize. rewrite pow2_spec, size_pow2. fold s.
  replace (Z.of_N s - Z.of_N (k + 1) - 54)%Z with (Z.of_N s - Z.of_N k - 55)%Z by lia.
  set (e0 := (Z.of_N s - Z.of_N k - 55)%Z).
  assert (He0 : (e0 <? 0)%Z = true) by (unfold e0; lia).
  cbv zeta. rewrite He0.
  assert (Hn0 : Z.to_N (- e0) = k + 55 - s) by (unfold e0; lia).
  rewrite Hn0, !pow2_spec.
  (* q0 in [2^54, 2^55) *)
  assert (Hpk : 0 < 2 ^ k) by (apply N.neq_0_lt_0, N.pow_nonzero; lia).
  assert (Hq0lo : 2 * P53 <= p * 2 ^ (k + 55 - s) / 2 ^ k).
  { apply N.div_le_lower_bound; [lia|]. change (2 * P53) with (2 ^ 54).
    rewrite <- N.pow_add_r. replace (k + 54) with ((s - 1) + (k + 55 - s)) by lia. rewrite N.pow_add_r.
    apply N.mul_le_mono_r. exact Hlo. }
  destruct (N.ltb_spec (p * 2 ^ (k + 55 - s) / 2 ^ k) P53) as [Hc|_]; [change P53 with (2^53) in *; lia|].
  destruct (N.ltb_spec (p * 2 ^ (k + 55 - s) / 2 ^ k) (2 * P53)) as [Hc|_]; [lia|].
  replace (e0 + 2)%Z with (Z.of_N sh - Z.of_N k)%Z by (unfold e0, sh; lia).
  set (e1 := (Z.of_N sh - Z.of_N k)%Z).
  assert (He1 : (e1 <? 0)%Z = true) by (unfold e1; lia). rewrite He1.
  assert (Hn1 : Z.to_N (- e1) = k - sh) by (unfold e1; lia). rewrite Hn1.
  (* division by 2^k of p * 2^(k-sh) *)
  assert (Ek : 2 ^ k = 2 ^ sh * 2 ^ (k - sh)) by (rewrite <- N.pow_add_r; f_equal; lia).
  assert (Hpc : 2 ^ (k - sh) <> 0) by (apply N.pow_nonzero; lia).
  assert (Hps : 2 ^ sh <> 0) by (apply N.pow_nonzero; lia).
  assert (Eq : p * 2 ^ (k - sh) / 2 ^ k = p / 2 ^ sh) by (rewrite Ek; apply N.div_mul_cancel_r; assumption).
  assert (Er : (p * 2 ^ (k - sh)) mod 2 ^ k = (p mod 2 ^ sh) * 2 ^ (k - sh)) by (rewrite Ek; apply N.mul_mod_distr_r; assumption).
  rewrite Eq, Er. set (c := 2 ^ (k - sh)) in *. set (S := 2 ^ sh) in *.
  set (q := p / S). set (r := p mod S).
  assert (Epq : p = S * q + r) by (unfold q, r; apply N.div_mod; assumption).
  assert (Hr : r < S) by (unfold r; apply N.mod_upper_bound; assumption).
  assert (Hc0 : 0 < c) by (unfold c; lia).
  (* q in [2^52, 2^53) *)
  assert (ES : 2 ^ s = S * 2 ^ 53). { unfold S, sh. rewrite <- N.pow_add_r. f_equal. lia. }
  assert (ES1 : 2 ^ (s - 1) = S * 2 ^ 52). { unfold S, sh. rewrite <- N.pow_add_r. f_equal. lia. }
  assert (Hqlo : P52 <= q). { change P52 with (2 ^ 52). unfold q. apply N.div_le_lower_bound; [assumption|]. lia. }
  assert (Hqhi : q < P53). { change P53 with (2 ^ 53). unfold q. apply N.div_lt_upper_bound; [assumption|]. lia. }
  assert (Hhalf : S / 2 * 2 = S).
  { unfold S. replace sh with (N.succ (sh - 1)) by (unfold sh; lia). rewrite N.pow_succ_r'.
    replace (2 * 2 ^ (sh - 1)) with (2 ^ (sh - 1) * 2) by lia. rewrite N.div_mul by lia. reflexivity. }
  (* the rounding decision, scaled by c *)
  rewrite Ek. fold c S. replace (2 * (r * c)) with (2 * r * c) by lia.
  set (up := if 2 * r * c <? S * c then false else if S * c <? 2 * r * c then true else N.odd q).
  assert (Hup : (up = false /\ 2 * r <= S) \/ (up = true /\ S <= 2 * r)).
  { unfold up.
    destruct (N.ltb_spec (2 * r * c) (S * c)) as [H1|H1].
    - left. split; [reflexivity|]. apply (N.mul_lt_mono_pos_r c) in H1; [lia|exact Hc0].
    - destruct (N.ltb_spec (S * c) (2 * r * c)) as [H2|H2].
      + right. split; [reflexivity|]. apply (N.mul_lt_mono_pos_r c) in H2; [lia|exact Hc0].
      + assert (E2 : 2 * r * c = S * c) by lia. apply N.mul_cancel_r in E2; [|lia].
        destruct (N.odd q); [right|left]; split; try reflexivity; lia. }
  clearbody q r up. set (h := S / 2) in *.
  destruct Hup as [[-> Hle]|[-> Hge]].
  - destruct (N.eqb_spec q P53) as [Hc|_]; [lia|].
    exists q, sh. split; [reflexivity|]. fold s. fold sh. split; [lia|]. split; [lia|]. fold S. fold h. split; lia.
  - destruct (N.eqb_spec (q + 1) P53) as [Hc|Hnc].
    + exists P52, (sh + 1). split; [f_equal; unfold e1; lia|]. fold s. fold sh. split; [lia|]. split; [change P52 with (2^52); change P53 with (2^53); lia|].
      rewrite N.pow_add_r. fold S. fold h. change (2 ^ 1) with 2. change P52 with 4503599627370496. change P53 with 9007199254740992 in Hc.
      assert (Hq : q = 9007199254740991) by lia. rewrite Hq in Epq. split; lia.
    + exists (q + 1), sh. split; [reflexivity|]. fold s. fold sh. split; [lia|]. split; [lia|]. fold S. fold h. split; lia.
Qed.

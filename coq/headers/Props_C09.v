(* C09 (domain headers) - statements only.  Strings are byte lists; [is_perm o] says that the iteration order [o]
   (Go's range over the key/value map) is a permutation of the map's entries; [Err] = the Go function returns an
   error (texts are not modelled), [Panic] = a Go run-time panic.  Each theorem is closed by [exact] of a lemma
   of the proof files and followed by Print Assumptions. *)
From Coq Require Import Permutation.
From GVL Require Import NList.
From GVG Require Import Kern.
From GV Require Import Proofs Bridge.
Open Scope N_scope.

(* ================= round trips: Unmarshal (Marshal v) = v for every well-formed v, in every iteration order ===== *)
Theorem C09_headers_transport_roundtrip : forall t o,
  is_perm o -> wf_transport t = true -> transport_unmarshal_with o (transport_marshal t) = Ok t.
Proof. exact transport_roundtrip. Qed.
Print Assumptions C09_headers_transport_roundtrip.

Theorem C09_headers_transports_roundtrip : forall ts o,
  is_perm o -> wf_transports ts = true -> transports_unmarshal_with o (transports_marshal ts) = Ok ts.
Proof. exact transports_roundtrip. Qed.
Print Assumptions C09_headers_transports_roundtrip.

Theorem C09_headers_session_roundtrip : forall h o,
  is_perm o -> wf_session h = true -> session_unmarshal_with o (session_marshal h) = Ok h.
Proof. exact session_roundtrip. Qed.
Print Assumptions C09_headers_session_roundtrip.

Theorem C09_headers_rtpinfo_roundtrip : forall h o,
  is_perm o -> wf_rtpinfo h = true -> rtpinfo_unmarshal_with o (rtpinfo_marshal h) = Ok h.
Proof. exact rtpinfo_roundtrip. Qed.
Print Assumptions C09_headers_rtpinfo_roundtrip.

Theorem C09_headers_authenticate_roundtrip : forall a o,
  is_perm o -> wf_authenticate a = true -> authenticate_unmarshal_with o (authenticate_marshal a) = Ok a.
Proof. exact authenticate_roundtrip. Qed.
Print Assumptions C09_headers_authenticate_roundtrip.

(* Authorization: Basic credentials with ANY password (the user name cannot contain ':'), Digest credentials
   without double quotes in the quoted fields.  (F9 fixed by /repo ebc43d3.) *)
Theorem C09_headers_authorization_roundtrip : forall z o,
  is_perm o -> wf_authorization z = true ->
  authorization_unmarshal_with o (authorization_marshal z) = Ok z.
Proof. exact authorization_roundtrip. Qed.
Print Assumptions C09_headers_authorization_roundtrip.

(* KeyMgmt, including the MIKEY message it carries (wf_message is the mikey domain's well-formedness) *)
Theorem C09_headers_keymgmt_roundtrip : forall h o,
  is_perm o -> wf_keymgmt h = true -> keymgmt_unmarshal_with o (keymgmt_marshal h) = Ok h.
Proof. exact keymgmt_roundtrip. Qed.
Print Assumptions C09_headers_keymgmt_roundtrip.

(* Range.  UTC ranges (clock=...;time=...) round-trip unconditionally: *)
Theorem C09_headers_range_roundtrip_utc : forall st en tm o,
  is_perm o -> wf_utc st = true -> opt_all wf_utc en = true -> opt_all wf_utc tm = true ->
  range_unmarshal_with o (range_marshal (mkRange (RUtc st en) tm)) = Ok (mkRange (RUtc st en) tm).
Proof. exact range_roundtrip_utc. Qed.
Print Assumptions C09_headers_range_roundtrip_utc.

(* every Range value round-trips, in every iteration order, as soon as each of its SMPTE / NPT / UTC time values
   survives its own text codec ([codec_ok]: parse (print x) = x, printed with digits : . T Z only, not empty) *)
Theorem C09_headers_range_roundtrip_partial : forall h o,
  is_perm o -> value_codec_ok (r_value h) -> opt_all wf_utc (r_time h) = true ->
  range_unmarshal_with o (range_marshal h) = Ok h.
Proof. exact range_roundtrip_partial. Qed.
Print Assumptions C09_headers_range_roundtrip_partial.

(* SMPTE ranges (whole seconds >= 0, frame and sub-frame below 2^32) round-trip unconditionally; the float64 step
   (uint64 (t.Time.Seconds())) is exact on whole seconds: FloatProofs.seconds_whole *)
Theorem C09_headers_range_roundtrip_smpte : forall st en tm o,
  is_perm o -> wf_smpte st = true -> opt_all wf_smpte en = true -> opt_all wf_utc tm = true ->
  range_unmarshal_with o (range_marshal (mkRange (RSmpte st en) tm)) = Ok (mkRange (RSmpte st en) tm).
Proof. exact range_roundtrip_smpte. Qed.
Print Assumptions C09_headers_range_roundtrip_smpte.

(* NPT times: under Go's documented contract ParseFloat (FormatFloat x) = x, a duration d >= 0 is re-parsed as
   int64 (math.Round (float64 (d.Seconds()) * 1e9))  (F8 fixed by /repo ffeb757: rounding instead of truncation) *)
Theorem C09_headers_npt_time_partial : forall d neg m e,
  (0 <= d)%Z -> seconds_of (Z.to_N d) = DFin neg m e -> neg = false ->
  parse_float (format_float (DFin neg m e)) = Some (DFin neg m e) ->
  npt_unmarshal (npt_marshal d) = Some (to_int64_round (dmul_int (DFin neg m e) E9)).
Proof. exact npt_time_partial. Qed.
Print Assumptions C09_headers_npt_time_partial.

(* NPT ranges, repaired code: every non-negative multiple of 1 ms below 2^50 ns (about 13 days) round-trips, in every
   iteration order.  [float_contract d] is the one fact about strconv that is not proved but assumed (Go documents
   it; the harness checks it on every value): ParseFloat (FormatFloat (d.Seconds(), 'f', -1, 64)) = d.Seconds().
   The three float64 roundings (nsec/1e9, the sum, the product by 1e9) followed by math.Round are proved exact:
   C09_headers_npt_ms_exact.  From 2^51 ns on this is false (known finding npt-float-precision). *)
Theorem C09_headers_npt_ms_exact : forall d,
  d mod 1000000 = 0 -> d < 2 ^ 50 ->
  to_int64_round (dmul_int (seconds_of d) E9) = Z.of_N d.
Proof. exact npt_ms_exact. Qed.
Print Assumptions C09_headers_npt_ms_exact.

Theorem C09_headers_range_roundtrip_npt : forall st en tm o,
  is_perm o -> wf_npt st = true -> float_contract st ->
  match en with Some e => wf_npt e = true /\ float_contract e | None => True end ->
  opt_all wf_utc tm = true ->
  range_unmarshal_with o (range_marshal (mkRange (RNpt st en) tm)) = Ok (mkRange (RNpt st en) tm).
Proof. exact range_roundtrip_npt. Qed.
Print Assumptions C09_headers_range_roundtrip_npt.

(* ================= determinism: the result (value or failure) does not depend on the map iteration order ======= *)
Theorem C09_headers_session_deterministic : forall s o1 o2,
  is_perm o1 -> is_perm o2 -> session_unmarshal_with o1 s = session_unmarshal_with o2 s.
Proof. exact session_deterministic. Qed.
Print Assumptions C09_headers_session_deterministic.

Theorem C09_headers_rtpinfo_deterministic : forall s o1 o2,
  is_perm o1 -> is_perm o2 -> rtpinfo_unmarshal_with o1 s = rtpinfo_unmarshal_with o2 s.
Proof. exact rtpinfo_deterministic. Qed.
Print Assumptions C09_headers_rtpinfo_deterministic.

Theorem C09_headers_authenticate_deterministic : forall s o1 o2,
  is_perm o1 -> is_perm o2 -> authenticate_unmarshal_with o1 s = authenticate_unmarshal_with o2 s.
Proof. exact authenticate_deterministic. Qed.
Print Assumptions C09_headers_authenticate_deterministic.

Theorem C09_headers_authorization_deterministic : forall s o1 o2,
  is_perm o1 -> is_perm o2 -> authorization_unmarshal_with o1 s = authorization_unmarshal_with o2 s.
Proof. exact authorization_deterministic. Qed.
Print Assumptions C09_headers_authorization_deterministic.

Theorem C09_headers_keymgmt_deterministic : forall s o1 o2,
  is_perm o1 -> is_perm o2 -> keymgmt_unmarshal_with o1 s = keymgmt_unmarshal_with o2 s.
Proof. exact keymgmt_deterministic. Qed.
Print Assumptions C09_headers_keymgmt_deterministic.

(* Transport(s) and Range: a second profile / delivery / range-unit key is an error (F7 fixed by /repo 5cae47d, bf6ff68),
   so the result is independent of the order on EVERY input *)
Theorem C09_headers_transport_deterministic : forall s o1 o2,
  is_perm o1 -> is_perm o2 -> transport_unmarshal_with o1 s = transport_unmarshal_with o2 s.
Proof. exact transport_deterministic. Qed.
Print Assumptions C09_headers_transport_deterministic.

Theorem C09_headers_transports_deterministic : forall s o1 o2,
  is_perm o1 -> is_perm o2 -> transports_unmarshal_with o1 s = transports_unmarshal_with o2 s.
Proof. exact transports_deterministic. Qed.
Print Assumptions C09_headers_transports_deterministic.

Theorem C09_headers_range_deterministic : forall s o1 o2,
  is_perm o1 -> is_perm o2 -> range_unmarshal_with o1 s = range_unmarshal_with o2 s.
Proof. exact range_deterministic. Qed.
Print Assumptions C09_headers_range_deterministic.

(* ================= totality: no input string and no iteration order makes a parser panic ======================= *)
Theorem C09_headers_unmarshal_total : forall (o : order_t) (s : list N),
  transport_unmarshal_with o s <> Panic /\ transports_unmarshal_with o s <> Panic /\
  session_unmarshal_with o s <> Panic /\ rtpinfo_unmarshal_with o s <> Panic /\
  range_unmarshal_with o s <> Panic /\ authenticate_unmarshal_with o s <> Panic /\
  authorization_unmarshal_with o s <> Panic /\ keymgmt_unmarshal_with o s <> Panic.
Proof.
  exact (fun o s => conj (transport_total o s) (conj (transports_total o s) (conj (session_total o s) (conj (rtpinfo_total o s)
         (conj (range_total o s) (conj (authenticate_total o s) (conj (authorization_total o s) (keymgmt_total o s)))))))).
Qed.
Print Assumptions C09_headers_unmarshal_total.

(* ================= BRIDGE (tools/go2coq) =================
   Integer kernels of pkg/headers TRANSLATED from the Go source on this run are the formulas of the models ([zn] =
   Z.of_N, [u64N x] = x < 2^64): the SMPTE duration time.Duration(seconds+mins*60+hours*3600) * time.Second (uint64
   wrap-around, then int64 multiplication) is the expression of smpte_unmarshal; smpte_marshal IS RangeSMPTETime.marshal
   written with the translated d/3600, d%3600, d/60, d%60 and frame tests; the integer summand mins*60+hours*3600 of
   unmarshalRangeNPTTime is npt_unmarshal's; the part-count tests; parse_ssrc IS the ssrc case of Transport.Unmarshal
   written with the translated odd-length test and len(tmp) <= 4; the 32-bit big-endian SSRC value; the second port
   port1+1 of a single-port value (parse_ports).  The MIKEY kernels are bridged in coq/mikey (Props_C09.v there). *)
Theorem C09_headers_kernels_are_the_code :
  (forall secs mins hours, u64N secs -> u64N mins -> u64N hours ->
     k_hd_smpte_total (zn secs) (zn mins) (zn hours) (zn E9) =
     wrap64 (s64z (zn ((secs + mins * 60 + hours * 3600) mod P64)) * zn E9)) /\
  (forall t, u64N (smpte_secs t) -> smpte_marshal t = smpte_marshal_k t) /\
  (forall mins hours, u64N mins -> u64N hours ->
     k_hd_npt_hm (zn mins) (zn hours) = zn ((mins * 60 + hours * 3600) mod P64)) /\
  (forall n, k_hd_smpte_parts_bad (zn n) = negb ((n =? 3) || (n =? 4)) /\ k_hd_npt_parts_bad (zn n) = (3 <? n)) /\
  (forall v, nlen v < 4611686018427387904 ->
     parse_ssrc v =
     let v1 := trim_left_sp v in
     let v2 := if k_hd_ssrc_odd (zn (nlen v1)) then 48 :: v1 else v1 in
     match hex_decode v2 with
     | Some bs => if k_hd_ssrc_fits 0 0 (zn (nlen bs)) then Some (be_val bs) else None
     | None => None
     end) /\
  (forall a b c d, a < 256 -> b < 256 -> c < 256 -> d < 256 ->
     k_hd_ssrc_value (zn a) (zn b) (zn c) (zn d) = zn (be_val [a; b; c; d])) /\
  (forall p, u64N (p + 1) -> k_hd_port_second (zn p) = zn (p + 1)).
Proof. exact headers_kernels_are_the_code. Qed.
Print Assumptions C09_headers_kernels_are_the_code.

(* the translated kernels compute: 1:02:03 is 3723 s; 3723 s prints as 1:02:03; an odd number of hex digits gets a
   leading zero; 5 bytes do not fit an SSRC; ssrc DEADBEEF; port 5000 stands for 5000-5001 *)
Example C09_headers_example_kernels :
  k_hd_smpte_total 3 2 1 1000000000 = 3723000000000%Z /\
  k_hd_smpte_hours 3723 = 1%Z /\ k_hd_smpte_mins (k_hd_smpte_rem 3723) = 2%Z /\ k_hd_smpte_secs (k_hd_smpte_rem 3723) = 3%Z /\
  k_hd_npt_hm 2 1 = 3720%Z /\ k_hd_smpte_parts_bad 3 = false /\ k_hd_smpte_parts_bad 5 = true /\ k_hd_npt_parts_bad 4 = true /\
  k_hd_ssrc_odd 7 = true /\ k_hd_ssrc_odd 8 = false /\ k_hd_ssrc_fits 0 0 4 = true /\ k_hd_ssrc_fits 0 0 5 = false /\
  k_hd_ssrc_value 222 173 190 239 = 3735928559%Z /\ k_hd_port_second 5000 = 5001%Z.
Proof. vm_compute. repeat split. Qed.

(* ================= non-vacuity ================= *)
(* a Transport value with every optional field present satisfies wf_transport and round-trips in reversed order *)
Example C09_ex_transport :
  let t := mkTransport 1 1 (Some 1) (Some [49;46;50]) (Some [104]) (Some (0, 1)) (Some 127) (Some (5000, 5001))
                       (Some (65535, 2147483647)) (Some (0, 0)) (Some 4294967295) (Some 1) in
  wf_transport t = true /\ transport_unmarshal_with (@rev _) (transport_marshal t) = Ok t.
Proof. split; vm_compute; reflexivity. Qed.
(* regressions: the old F7 / F8 / F9 witnesses *)
Example C09_ex_regressions :
  transport_unmarshal_with id_order f7_transport = Err /\ transport_unmarshal_with (@rev _) f7_transport = Err /\
  range_unmarshal_with id_order f7_range = Err /\ range_unmarshal_with (@rev _) f7_range = Err /\
  range_unmarshal_with id_order (range_marshal f8_range) = Ok f8_range /\
  authorization_unmarshal_with id_order (authorization_marshal f9_witness) = Ok f9_witness.
Proof. repeat split; vm_compute; reflexivity. Qed.
(* 1.5 s and 2020-02-29T23:59:59Z survive their codecs (so the hypotheses of the partial Range theorem are satisfiable) *)
Example C09_ex_range_codecs :
  npt_unmarshal (npt_marshal 1500000000%Z) = Some 1500000000%Z /\ wf_npt 1001000000%Z = true /\ float_contract 1001000000%Z /\
  wf_utc (mkUtc 2020 2 29 23 59 59 0) = true /\ wf_utc (mkUtc 2021 2 29 0 0 0 0) = false /\
  wf_smpte (mkSmpte 36420000000000%Z 5 1) = true /\
  to_int64 (seconds_of (Z.to_N 36420000000000%Z)) = (36420000000000 / 1000000000)%Z /\
  smpte_marshal (mkSmpte 36420000000000%Z 5 1) = [49;48;58;48;55;58;48;48;58;48;53;46;48;49].
Proof. vm_compute. repeat split. Qed.
Example C09_ex_session : wf_session (mkSession [65;51] (Some 60)) = true
  /\ session_marshal (mkSession [65;51] (Some 60)) = [65;51;59;116;105;109;101;111;117;116;61;54;48].
Proof. split; vm_compute; reflexivity. Qed.
Example C09_ex_basic_ok : wf_authorization (mkAuthorization 0 [117] [112] [] [] [] [] None None) = true
  /\ wf_authorization f9_witness = true.
Proof. repeat split; vm_compute; reflexivity. Qed.

(* pkg/headers/keyval.go : the key=value tokenizer.  The Go function returns a map; the model returns
   the association list of the map's entries (unique keys, later duplicates overwrite the value in
   place).  Go's `range` over that map visits the entries in an arbitrary order: every consumer takes the
   order as an explicit argument [order : kvs -> kvs] (a permutation of the entries).
   No index / slice expression in keyval.go can go out of range (each is guarded by a len check on the
   same line), so the tokenizer has no Panic outcome; its only failure is "apexes not closed". *)
From GVL Require Import NList.
From GV Require Import Res Str.
Open Scope N_scope.

Definition kv := (list N * list N)%type.
Definition kvs := list kv.

Definition EQ : N := 61.   (* '=' *)
Definition DQ : N := 34.   (* double quote *)

(* readKey *)
Definition read_key (s : list N) (sep : N) : list N * list N :=
  span (fun c => negb (c =? EQ) && negb (c =? sep)) s.

(* readValue: None = "apexes not closed" *)
Definition read_value (s : list N) (sep : N) : option (list N * list N) :=
  match s with
  | c :: t =>
    if c =? DQ then
      let '(a, b) := span (fun c => negb (c =? DQ)) t in
      match b with
      | [] => None
      | _ :: b' => Some (a, b')
      end
    else Some (span (fun c => negb (c =? sep)) s)
  | [] => Some ([], [])
  end.

(* ret[k] = v *)
Fixpoint map_set (k v : list N) (m : kvs) : kvs :=
  match m with
  | [] => [(k, v)]
  | (k', v') :: t => if list_eqb k k' then (k, v) :: t else (k', v') :: map_set k v t
  end.

Fixpoint map_get (k : list N) (m : kvs) : option (list N) :=
  match m with
  | [] => None
  | (k', v') :: t => if list_eqb k k' then Some v' else map_get k t
  end.

Definition skip_sep (s : list N) (sep : N) : list N :=
  match s with
  | c :: t => if c =? sep then t else s
  | [] => []
  end.

(* the loop of keyValParse; fuel = the input itself (each iteration consumes at least one byte) *)
Fixpoint kv_loop (fuel : list N) (s : list N) (sep : N) (m : kvs) : option kvs :=
  match s with
  | [] => Some m
  | _ =>
    match fuel with
    | [] => Some m     (* unreachable: fuel = length of the original input *)
    | _ :: fuel' =>
      let '(k, r) := read_key s sep in
      match r with
      | c :: r' =>
        if c =? EQ then
          match read_value r' sep with
          | None => None
          | Some (v, r'') => kv_loop fuel' (trim_left_sp (skip_sep r'' sep)) sep (map_set k v m)
          end
        else kv_loop fuel' (trim_left_sp (skip_sep r sep)) sep (map_set k [] m)
      | [] => kv_loop fuel' [] sep (map_set k [] m)
      end
    end
  end.

Definition kv_parse (s : list N) (sep : N) : option kvs := kv_loop s s sep [].

(* an iteration order: must be a permutation of its argument (stated where it is needed) *)
Definition order_t := kvs -> kvs.
Definition id_order : order_t := fun l => l.

(* pkg/headers/keyval.go : the key=value tokenizer.  The Go function returns a map; the model returns
   the association list of the map's entries (unique keys, later duplicates overwrite the value in
   place).  Go's `range` over that map visits the entries in an arbitrary order: every consumer takes the
   order as an explicit argument [order : kvs -> kvs] (a permutation of the entries).
   No index / slice expression in keyval.go can go out of range (each is guarded by a len check on the
   same line), so the tokenizer has no Panic outcome; its only failure is "apexes not closed". *)
From GVL Require Import NList.
From GV Require Import Res Str.
Open Scope N_scope.

Notation kv := (list N * list N)%type (only parsing).
Notation kvs := (list (list N * list N)) (only parsing).

Definition EQ : N := 61.   (* '=' *)
Definition DQ : N := 34.   (* double quote *)

(* readKey *)
Definition read_key (s : list N) (sep : N) : list N * list N :=
  span (fun c => negb (c =? EQ) && negb (c =? sep)) s.

(* readValue: None = "apexes not closed" *)
Definition read_value (s : list N) (sep : N) : option (list N * list N) :=
  match s with
  | c :: t =>
    if c =? DQ then
      let '(a, b) := span (fun c => negb (c =? DQ)) t in
      match b with
      | [] => None
      | _ :: b' => Some (a, b')
      end
    else Some (span (fun c => negb (c =? sep)) s)
  | [] => Some ([], [])
  end.

(* ret[k] = v *)
Fixpoint map_set (k v : list N) (m : kvs) : kvs :=
  match m with
  | [] => [(k, v)]
  | (k', v') :: t => if list_eqb k k' then (k, v) :: t else (k', v') :: map_set k v t
  end.

Fixpoint map_get (k : list N) (m : kvs) : option (list N) :=
  match m with
  | [] => None
  | (k', v') :: t => if list_eqb k k' then Some v' else map_get k t
  end.

Definition skip_sep (s : list N) (sep : N) : list N :=
  match s with
  | c :: t => if c =? sep then t else s
  | [] => []
  end.

(* the loop of keyValParse; fuel = the input itself (each iteration consumes at least one byte) *)
Fixpoint kv_loop (fuel : list N) (s : list N) (sep : N) (m : kvs) : option kvs :=
  match s with
  | [] => Some m
  | _ =>
    match fuel with
    | [] => Some m     (* unreachable: fuel = length of the original input *)
    | _ :: fuel' =>
      let '(k, r) := read_key s sep in
      match r with
      | c :: r' =>
        if c =? EQ then
          match read_value r' sep with
          | None => None
          | Some (v, r'') => kv_loop fuel' (trim_left_sp (skip_sep r'' sep)) sep (map_set k v m)
          end
        else kv_loop fuel' (trim_left_sp (skip_sep r sep)) sep (map_set k [] m)
      | [] => kv_loop fuel' [] sep (map_set k [] m)
      end
    end
  end.

Definition kv_parse (s : list N) (sep : N) : option kvs := kv_loop s s sep [].

(* ---- the marshalling side: a header value is rendered as a list of items joined by sep (+ spaces) ---- *)
Inductive vform := VBare | VPlain (v : list N) | VQuoted (v : list N).
Notation item := (list N * vform)%type (only parsing).
Definition render_item (it : item) : list N :=
  match snd it with
  | VBare => fst it
  | VPlain v => fst it ++ [EQ] ++ v
  | VQuoted v => fst it ++ [EQ; DQ] ++ v ++ [DQ]
  end.
Fixpoint render_items (sepgap : list N) (its : list item) : list N :=
  match its with
  | [] => []
  | [a] => render_item a
  | a :: r => render_item a ++ sepgap ++ render_items sepgap r
  end.
Definition item_kv (it : item) : kv :=
  (fst it, match snd it with VBare => [] | VPlain v => v | VQuoted v => v end).
Definition opt_it {A} (o : option A) (f : A -> item) : list item :=
  match o with Some x => [f x] | None => [] end.

(* the range-over-map loop of every Unmarshal: None = return err *)
Fixpoint ofold {S} (step : S -> kv -> option S) (st : S) (l : kvs) : option S :=
  match l with
  | [] => Some st
  | e :: r => match step st e with Some st' => ofold step st' r | None => None end
  end.

(* an iteration order: must be a permutation of its argument (stated where it is needed) *)
Definition order_t := kvs -> kvs.
Definition id_order : order_t := fun l => l.

(* pkg/headers/authenticate.go and authorization.go  (shared with the auth domain by symlink) *)
From Coq Require Import String.
From GVL Require Import NList Wire.
From GV Require Import Res Str KeyVal.
Open Scope N_scope.

Definition COMMA_ : N := 44.
Definition COLON : N := 58.

Definition S_Basic := Eval vm_compute in str "Basic".
Definition S_Digest := Eval vm_compute in str "Digest".
Definition K_realm := Eval vm_compute in str "realm".
Definition K_nonce := Eval vm_compute in str "nonce".
Definition K_opaque := Eval vm_compute in str "opaque".
Definition K_stale := Eval vm_compute in str "stale".
Definition K_algorithm := Eval vm_compute in str "algorithm".
Definition K_username := Eval vm_compute in str "username".
Definition K_uri := Eval vm_compute in str "uri".
Definition K_response := Eval vm_compute in str "response".
Definition S_md5 := Eval vm_compute in str "md5".
Definition S_sha256 := Eval vm_compute in str "sha-256".
Definition S_MD5 := Eval vm_compute in str "MD5".
Definition S_SHA256 := Eval vm_compute in str "SHA-256".

(* parseAuthAlgorithm: 0 = MD5, 1 = SHA-256 *)
Definition parse_alg (v : list N) : option N :=
  if lower_eq v S_md5 then Some 0 else if lower_eq v S_sha256 then Some 1 else None.

Definition opt_set {A} (o : option A) (d : A) : A := match o with Some x => x | None => d end.

(* ---- WWW-Authenticate ---- *)
Record authenticate := mkAuthenticate {
  a_method : N;                  (* 0 Basic, 1 Digest *)
  a_realm : list N;
  a_nonce : list N;
  a_opaque : option (list N);
  a_stale : option (list N);
  a_alg : option N }.

(* loop state: header, realmReceived, nonceReceived *)
Definition astate := (authenticate * bool * bool)%type.

Definition astep_basic (st : astate) (e : kv) : option astate :=
  let '(a, rr, nr) := st in
  let '(k, v) := e in
  if list_eqb k K_realm then Some (mkAuthenticate (a_method a) v (a_nonce a) (a_opaque a) (a_stale a) (a_alg a), true, nr)
  else Some st.

Definition astep_digest (st : astate) (e : kv) : option astate :=
  let '(a, rr, nr) := st in
  let '(k, v) := e in
  if list_eqb k K_realm then Some (mkAuthenticate (a_method a) v (a_nonce a) (a_opaque a) (a_stale a) (a_alg a), true, nr)
  else if list_eqb k K_nonce then Some (mkAuthenticate (a_method a) (a_realm a) v (a_opaque a) (a_stale a) (a_alg a), rr, true)
  else if list_eqb k K_opaque then Some (mkAuthenticate (a_method a) (a_realm a) (a_nonce a) (Some v) (a_stale a) (a_alg a), rr, nr)
  else if list_eqb k K_stale then Some (mkAuthenticate (a_method a) (a_realm a) (a_nonce a) (a_opaque a) (Some v) (a_alg a), rr, nr)
  else if list_eqb k K_algorithm then
    option_map (fun x => (mkAuthenticate (a_method a) (a_realm a) (a_nonce a) (a_opaque a) (a_stale a) (Some x), rr, nr)) (parse_alg v)
  else Some st.

Definition authenticate_unmarshal_with (order : order_t) (s : list N) : res authenticate :=
  match cut SP s with
  | None => Err
  | Some (m, rest) =>
    if list_eqb m S_Basic then
      match kv_parse rest COMMA_ with
      | None => Err
      | Some kvl =>
        match ofold astep_basic (mkAuthenticate 0 [] [] None None None, false, false) (order kvl) with
        | Some (a, true, _) => Ok a
        | _ => Err
        end
      end
    else if list_eqb m S_Digest then
      match kv_parse rest COMMA_ with
      | None => Err
      | Some kvl =>
        match ofold astep_digest (mkAuthenticate 1 [] [] None None None, false, false) (order kvl) with
        | Some (a, true, true) => Ok a
        | _ => Err
        end
      end
    else Err
  end.

Definition CS : list N := [COMMA_; SP].
Definition alg_str (x : N) : list N := if x =? 0 then S_MD5 else S_SHA256.

Definition authenticate_kvitems (a : authenticate) : list item :=
  if a_method a =? 0 then [(K_realm, VQuoted (a_realm a))]
  else [(K_realm, VQuoted (a_realm a)); (K_nonce, VQuoted (a_nonce a))]
       ++ opt_it (a_opaque a) (fun o => (K_opaque, VQuoted o))
       ++ opt_it (a_stale a) (fun o => (K_stale, VQuoted o))
       ++ opt_it (a_alg a) (fun x => (K_algorithm, VQuoted (alg_str x))).

Definition authenticate_marshal (a : authenticate) : list N :=
  (if a_method a =? 0 then S_Basic else S_Digest) ++ [SP] ++ render_items CS (authenticate_kvitems a).

(* ---- Authorization ---- *)
Record authorization := mkAuthorization {
  z_method : N;
  z_user : list N;
  z_pass : list N;       (* BasicPass *)
  z_realm : list N;
  z_nonce : list N;
  z_uri : list N;
  z_response : list N;
  z_opaque : option (list N);
  z_alg : option N }.

Record zflags := mkZf { f_realm : bool; f_user : bool; f_nonce : bool; f_uri : bool; f_resp : bool }.
Definition zstate := (authorization * zflags)%type.

Definition zstep (st : zstate) (e : kv) : option zstate :=
  let '(z, f) := st in
  let '(k, v) := e in
  if list_eqb k K_realm then
    Some (mkAuthorization (z_method z) (z_user z) (z_pass z) v (z_nonce z) (z_uri z) (z_response z) (z_opaque z) (z_alg z),
          mkZf true (f_user f) (f_nonce f) (f_uri f) (f_resp f))
  else if list_eqb k K_username then
    Some (mkAuthorization (z_method z) v (z_pass z) (z_realm z) (z_nonce z) (z_uri z) (z_response z) (z_opaque z) (z_alg z),
          mkZf (f_realm f) true (f_nonce f) (f_uri f) (f_resp f))
  else if list_eqb k K_nonce then
    Some (mkAuthorization (z_method z) (z_user z) (z_pass z) (z_realm z) v (z_uri z) (z_response z) (z_opaque z) (z_alg z),
          mkZf (f_realm f) (f_user f) true (f_uri f) (f_resp f))
  else if list_eqb k K_uri then
    Some (mkAuthorization (z_method z) (z_user z) (z_pass z) (z_realm z) (z_nonce z) v (z_response z) (z_opaque z) (z_alg z),
          mkZf (f_realm f) (f_user f) (f_nonce f) true (f_resp f))
  else if list_eqb k K_response then
    Some (mkAuthorization (z_method z) (z_user z) (z_pass z) (z_realm z) (z_nonce z) (z_uri z) v (z_opaque z) (z_alg z),
          mkZf (f_realm f) (f_user f) (f_nonce f) (f_uri f) true)
  else if list_eqb k K_opaque then
    Some (mkAuthorization (z_method z) (z_user z) (z_pass z) (z_realm z) (z_nonce z) (z_uri z) (z_response z) (Some v) (z_alg z), f)
  else if list_eqb k K_algorithm then
    option_map (fun x => (mkAuthorization (z_method z) (z_user z) (z_pass z) (z_realm z) (z_nonce z) (z_uri z) (z_response z) (z_opaque z) (Some x), f))
               (parse_alg v)
  else Some st.

Definition authorization0 (m : N) : authorization := mkAuthorization m [] [] [] [] [] [] None None.

Definition authorization_unmarshal_with (order : order_t) (s : list N) : res authorization :=
  match cut SP s with
  | None => Err
  | Some (m, rest) =>
    if list_eqb m S_Basic then
      match b64_decode rest with
      | None => Err
      | Some tmp =>
        match cut COLON tmp with      (* strings.SplitN(string(tmp), ":", 2) must give two parts *)
        | Some (u, p) => Ok (mkAuthorization 0 u p [] [] [] [] None None)
        | None => Err
        end
      end
    else if list_eqb m S_Digest then
      match kv_parse rest COMMA_ with
      | None => Err
      | Some kvl =>
        match ofold zstep (authorization0 1, mkZf false false false false false) (order kvl) with
        | Some (z, f) => if f_realm f && f_user f && f_nonce f && f_uri f && f_resp f then Ok z else Err
        | None => Err
        end
      end
    else Err
  end.

Definition authorization_kvitems (z : authorization) : list item :=
  [(K_username, VQuoted (z_user z)); (K_realm, VQuoted (z_realm z)); (K_nonce, VQuoted (z_nonce z));
   (K_uri, VQuoted (z_uri z)); (K_response, VQuoted (z_response z))]
  ++ opt_it (z_opaque z) (fun o => (K_opaque, VQuoted o))
  ++ opt_it (z_alg z) (fun x => (K_algorithm, VQuoted (alg_str x))).

Definition authorization_marshal (z : authorization) : list N :=
  if z_method z =? 0 then S_Basic ++ [SP] ++ b64_encode (z_user z ++ [COLON] ++ z_pass z)
  else S_Digest ++ [SP] ++ render_items CS (authorization_kvitems z).

(* ---- wire ---- *)
Definition enc_o {A} (o : option A) (f : A -> list N) : list N :=
  match o with None => [0] | Some x => 1 :: f x end.
Definition dec_o {A} (f : list N -> option (A * list N)) (l : list N) : option (option A * list N) :=
  match l with
  | 0 :: t => Some (None, t)
  | 1 :: t => match f t with Some (x, r) => Some (Some x, r) | None => None end
  | _ => None
  end.

Definition enc_authenticate (a : authenticate) : list N :=
  [a_method a] ++ putl (a_realm a) ++ putl (a_nonce a) ++ enc_o (a_opaque a) putl ++ enc_o (a_stale a) putl
  ++ enc_o (a_alg a) (fun x => [x]).
Definition dec_authenticate (l : list N) : option (authenticate * list N) :=
  match l with
  | m :: l0 =>
    match getl l0 with None => None | Some (re, l1) =>
    match getl l1 with None => None | Some (no, l2) =>
    match dec_o getl l2 with None => None | Some (op, l3) =>
    match dec_o getl l3 with None => None | Some (sa, l4) =>
    match dec_o get1 l4 with None => None | Some (al, l5) =>
      Some (mkAuthenticate m re no op sa al, l5) end end end end end
  | [] => None
  end.

Definition enc_authorization (z : authorization) : list N :=
  [z_method z] ++ putl (z_user z) ++ putl (z_pass z) ++ putl (z_realm z) ++ putl (z_nonce z) ++ putl (z_uri z)
  ++ putl (z_response z) ++ enc_o (z_opaque z) putl ++ enc_o (z_alg z) (fun x => [x]).
Definition dec_authorization (l : list N) : option (authorization * list N) :=
  match l with
  | m :: l0 =>
    match getl l0 with None => None | Some (us, l1) =>
    match getl l1 with None => None | Some (pa, l2) =>
    match getl l2 with None => None | Some (re, l3) =>
    match getl l3 with None => None | Some (no, l4) =>
    match getl l4 with None => None | Some (ur, l5) =>
    match getl l5 with None => None | Some (rs, l6) =>
    match dec_o getl l6 with None => None | Some (op, l7) =>
    match dec_o get1 l7 with None => None | Some (al, l8) =>
      Some (mkAuthorization m us pa re no ur rs op al, l8) end end end end end end end end
  | [] => None
  end.

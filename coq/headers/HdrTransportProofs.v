(* Transport / Transports (repaired code, /repo 5cae47d): determinism on every input, totality, round trip *)
From Coq Require Import ZifyBool ZifyNat ZifyN Permutation.
From GVL Require Import NList.
From GV Require Import Res Str StrProofs KeyVal KeyValProofs HdrTransport HdrAuthProofs HdrSessionProofs.
Open Scope N_scope.

(* ---------- classification is injective on the single-key classes ---------- *)
Definition class_key (c : tkey) : option (list N) :=
  match c with
  | TUnicast => Some K_unicast | TMulticast => Some K_multicast | TSource => Some K_source | TDest => Some K_destination
  | TInterleaved => Some K_interleaved | TTtl => Some K_ttl | TPort => Some K_port | TCPort => Some K_client_port
  | TSPort => Some K_server_port | TSsrc => Some K_ssrc | TMode => Some K_mode
  | TProf _ _ | TOther => None
  end.

Lemma classify_key k c kk : classify k = c -> class_key c = Some kk -> k = kk.
Proof.
  unfold classify. intros H Hc.
  repeat match type of H with
  | (if ?b then _ else _) = _ => let E := fresh "E" in destruct b eqn:E
  end; subst c; cbn [class_key] in Hc; try discriminate; inversion Hc; subst kk;
  apply list_eqb_spec; assumption.
Qed.

Lemma classify_same k1 k2 c kk : classify k1 = c -> classify k2 = c -> class_key c = Some kk -> k1 = k2.
Proof. intros H1 H2 Hc. rewrite (classify_key k1 c kk H1 Hc), (classify_key k2 c kk H2 Hc). reflexivity. Qed.

Ltac same_class_contra :=
  match goal with
  | Ca : classify ?ka = ?c, Cb : classify ?kb = ?c, Hne : ?ka <> ?kb |- _ =>
    exfalso; apply Hne; eapply (classify_same ka kb c); [exact Ca|exact Cb|reflexivity]
  end.

Lemma tstep_commute a b : fst a <> fst b -> commute tstep a b.
Proof.
  intros Hne [t [pf df]]. destruct a as [ka va], b as [kb vb]. cbn [fst] in Hne.
  unfold tstep, obind. cbn [fst snd]. destruct t as [f1 f2 f3 f4 f5 f6 f7 f8 f9 f10 f11 f12].
  destruct (classify ka) eqn:Ca; destruct (classify kb) eqn:Cb; try same_class_contra;
  repeat match goal with
  | |- context [parse_ports ?v] => destruct (parse_ports v)
  | |- context [parse_uint ?b ?v] => destruct (parse_uint b v)
  | |- context [parse_mode ?v] => destruct (parse_mode v)
  | |- context [parse_ssrc ?v] => destruct (parse_ssrc v)
  end;
  cbn [option_map fst snd]; rewrite ?Ca, ?Cb; cbn [option_map fst snd];
  try (destruct pf); try (destruct df); cbn [fst snd]; try (destruct va; destruct vb); try reflexivity.
Qed.

(* F7 repaired: the result never depends on the iteration order *)
Theorem transport_deterministic s o1 o2 :
  is_perm o1 -> is_perm o2 -> transport_unmarshal_with o1 s = transport_unmarshal_with o2 s.
Proof.
  intros H1 H2. unfold transport_unmarshal_with.
  destruct (kv_parse s SEMI) as [m|] eqn:E; [|reflexivity]. unfold tfold.
  rewrite (ofold_order_indep tstep m o1 o2 H1 H2 (kv_parse_keys _ _ _ E)); [reflexivity|].
  intros a b _ _. apply tstep_commute.
Qed.

(* regression (old F7 witness "RTP/AVP;RTP/AVP/TCP"): now an error in both orders *)
Definition f7_transport : list N := Eval vm_compute in K_RTP_AVP ++ [SEMI] ++ K_RTP_AVP_TCP.
Example f7_transport_regression :
  transport_unmarshal_with id_order f7_transport = Err /\ transport_unmarshal_with (@rev _) f7_transport = Err.
Proof. split; vm_compute; reflexivity. Qed.

Theorem transport_total o s : transport_unmarshal_with o s <> Panic.
Proof.
  unfold transport_unmarshal_with. destruct (kv_parse s SEMI); [|discriminate].
  destruct (tfold _ _) as [[t [[|] df]]|]; discriminate.
Qed.

(* ---------- round trip ---------- *)
Definition val_ok (v : list N) : bool := plain_ok SEMI v && negb (is_nil v).
Definition pair_ok (p : N * N) : bool := (fst p <? 2 ^ 31) && (snd p <? 2 ^ 31).

Definition wf_transport (t : transport) : bool :=
  (t_profile t <? 2) && (t_protocol t <? 2) && opt_all (fun d => d <? 2) (t_delivery t)
  && opt_all val_ok (t_source t) && opt_all val_ok (t_dest t)
  && opt_all pair_ok (t_interleaved t) && opt_all (fun x => x <? 2 ^ 32) (t_ttl t)
  && opt_all pair_ok (t_ports t) && opt_all pair_ok (t_cports t) && opt_all pair_ok (t_sports t)
  && opt_all (fun x => x <? 2 ^ 32) (t_ssrc t) && opt_all (fun m => m <? 2) (t_mode t).

Lemma parse_ports_pair p : pair_ok p = true -> parse_ports (pair_str p) = Some p.
Proof.
  intros H. unfold pair_ok in H. apply andb_true_iff in H as [H1 H2]. destruct p as [a b]. cbn [fst snd] in *.
  unfold parse_ports, pair_str. cbn [fst snd app].
  rewrite split_on_cons by (apply digits_nosep; [apply fmt_uint_digits|reflexivity]).
  rewrite split_on_clean by (apply digits_nosep; [apply fmt_uint_digits|reflexivity]).
  rewrite !parse_fmt_uint by lia. reflexivity.
Qed.

Lemma pair_str_plain p : plain_ok SEMI (pair_str p) = true.
Proof.
  unfold pair_str, plain_ok. rewrite !nosep_app, !(digits_nosep SEMI _ (fmt_uint_digits _) eq_refl). cbn [nosep forallb andb negb N.eqb SEMI DASH Pos.eqb].
  pose proof (fmt_uint_nonnil (fst p)) as Hn. pose proof (fmt_uint_digits (fst p)) as Hd.
  destruct (fmt_uint (fst p)) as [|c t]; [congruence|]. cbn [app]. cbn [all_digits forallb] in Hd.
  apply andb_true_iff in Hd as [Hd _]. unfold is_digit in Hd. unfold DQ. lia.
Qed.

Lemma ssrc_str_hexdigits x : exists c t, ssrc_str x = c :: t /\ (c =? SP) = false /\ (c =? DQ) = false.
Proof.
  unfold ssrc_str, hex_encode_upper, be4. cbn [flat_map app]. eexists _, _. split; [reflexivity|].
  unfold hex_digit_upper. destruct (_ <? 10); unfold SP, DQ; split; lia.
Qed.

Lemma hex_digit_upper_nosemi d : negb (hex_digit_upper d =? SEMI) = true.
Proof. unfold hex_digit_upper, SEMI. destruct (d <? 10) eqn:E; lia. Qed.

Lemma ssrc_str_plain x : plain_ok SEMI (ssrc_str x) = true.
Proof.
  unfold plain_ok. destruct (ssrc_str_hexdigits x) as (c & t & E & _ & Hq).
  assert (Hns : nosep SEMI (ssrc_str x) = true).
  { unfold ssrc_str, hex_encode_upper, be4. cbn [flat_map app nosep forallb]. rewrite !hex_digit_upper_nosemi. reflexivity. }
  rewrite Hns, E, Hq. reflexivity.
Qed.

Lemma parse_ssrc_str x : x < 2 ^ 32 -> parse_ssrc (ssrc_str x) = Some x.
Proof.
  intros H. unfold parse_ssrc. destruct (ssrc_str_hexdigits x) as (c & t & E & Hs & _).
  rewrite E, (trim_left_first c t Hs), <- E.
  unfold ssrc_str at 1. rewrite hex_encode_len.
  replace (nlen (be4 x)) with 4 by reflexivity. change (N.odd (2 * 4)) with false. cbv iota.
  unfold ssrc_str. rewrite hex_decode_encode by apply be4_bytes.
  replace (nlen (be4 x)) with 4 by reflexivity. change (4 <=? 4) with true. cbv iota.
  rewrite be_val_be4; [reflexivity|]. change (2 ^ 32) with 4294967296 in H. exact H.
Qed.

Lemma parse_mode_str m : m < 2 -> parse_mode (mode_str m) = Some m.
Proof. intros H. assert (m = 0 \/ m = 1) as [-> | ->] by lia; reflexivity. Qed.

(* single steps on the marshalled items *)
Lemma tstep_profile t0 t df : t_profile t0 < 2 -> t_protocol t0 < 2 ->
  tstep (t, (false, df)) (profile_key t0, []) = Some (set_prof (t_profile t0) (t_protocol t0) t, (true, df)).
Proof.
  intros H1 H2. assert (t_profile t0 = 0 \/ t_profile t0 = 1) as [E1|E1] by lia;
  assert (t_protocol t0 = 0 \/ t_protocol t0 = 1) as [E2|E2] by lia; unfold profile_key; rewrite E1, E2; reflexivity.
Qed.
Lemma tstep_delivery d t pf : d < 2 -> tstep (t, (pf, false)) (delivery_key d, []) = Some (set_delivery d t, (pf, true)).
Proof. intros H. assert (d = 0 \/ d = 1) as [-> | ->] by lia; reflexivity. Qed.
Lemma tstep_source v t pf : negb (is_nil v) = true -> tstep (t, pf) (K_source, v) = Some (set_source v t, pf).
Proof. intros H. destruct v; [discriminate|reflexivity]. Qed.
Lemma tstep_dest v t pf : negb (is_nil v) = true -> tstep (t, pf) (K_destination, v) = Some (set_dest v t, pf).
Proof. intros H. destruct v; [discriminate|reflexivity]. Qed.
Lemma tstep_interleaved p t pf : pair_ok p = true -> tstep (t, pf) (K_interleaved, pair_str p) = Some (set_interleaved p t, pf).
Proof. intros H. unfold tstep. change (classify K_interleaved) with TInterleaved. cbv iota. now rewrite parse_ports_pair. Qed.
Lemma tstep_port p t pf : pair_ok p = true -> tstep (t, pf) (K_port, pair_str p) = Some (set_ports p t, pf).
Proof. intros H. unfold tstep. change (classify K_port) with TPort. cbv iota. now rewrite parse_ports_pair. Qed.
Lemma tstep_cport p t pf : pair_ok p = true -> tstep (t, pf) (K_client_port, pair_str p) = Some (set_cports p t, pf).
Proof. intros H. unfold tstep. change (classify K_client_port) with TCPort. cbv iota. now rewrite parse_ports_pair. Qed.
Lemma tstep_sport p t pf : pair_ok p = true -> tstep (t, pf) (K_server_port, pair_str p) = Some (set_sports p t, pf).
Proof. intros H. unfold tstep. change (classify K_server_port) with TSPort. cbv iota. now rewrite parse_ports_pair. Qed.
Lemma tstep_ttl x t pf : x < 2 ^ 32 -> tstep (t, pf) (K_ttl, fmt_uint x) = Some (set_ttl x t, pf).
Proof. intros H. unfold tstep. change (classify K_ttl) with TTtl. cbv iota. now rewrite parse_fmt_uint. Qed.
Lemma tstep_ssrc x t pf : x < 2 ^ 32 -> tstep (t, pf) (K_ssrc, ssrc_str x) = Some (set_ssrc x t, pf).
Proof. intros H. unfold tstep. change (classify K_ssrc) with TSsrc. cbv iota. now rewrite parse_ssrc_str. Qed.
Lemma tstep_mode m t pf : m < 2 -> tstep (t, pf) (K_mode, mode_str m) = Some (set_mode m t, pf).
Proof. intros H. unfold tstep. change (classify K_mode) with TMode. cbv iota. now rewrite parse_mode_str. Qed.

(* folding one optional item *)
Definition opt_apply {A} (o : option A) (f : A -> transport -> transport) (t : transport) : transport :=
  match o with Some x => f x t | None => t end.

Lemma ofold_opt {A} (o : option A) (mk : A -> list N * vform) (setter : A -> transport -> transport) t pf :
  (forall x, o = Some x -> tstep (t, pf) (item_kv (mk x)) = Some (setter x t, pf)) ->
  ofold tstep (t, pf) (map item_kv (opt_it o mk)) = Some (opt_apply o setter t, pf).
Proof.
  intros H. destruct o as [x|]; cbn [opt_it map ofold opt_apply]; [|reflexivity]. now rewrite (H x eq_refl).
Qed.

Definition is_some {A} (o : option A) : bool := match o with Some _ => true | None => false end.

Lemma transport_fold_id t : wf_transport t = true ->
  ofold tstep (transport0, (false, false)) (map item_kv (transport_kvitems t)) = Some (t, (true, is_some (t_delivery t))).
Proof.
  intros Hwf. unfold wf_transport in Hwf. rewrite !andb_true_iff in Hwf.
  destruct Hwf as [[[[[[[[[[[H1 H2] H3] H4] H5] H6] H7] H8] H9] H10] H11] H12].
  unfold transport_kvitems. rewrite !map_app. cbn [map]. unfold item_kv at 1. cbn [fst snd app ofold].
  rewrite tstep_profile by lia.
  rewrite ofold_app.
  assert (Hdel : ofold tstep (set_prof (t_profile t) (t_protocol t) transport0, (true, false))
                   (map item_kv (opt_it (t_delivery t) (fun d => (delivery_key d, VBare))))
                 = Some (opt_apply (t_delivery t) set_delivery (set_prof (t_profile t) (t_protocol t) transport0), (true, is_some (t_delivery t)))).
  { destruct (t_delivery t) as [d|]; cbn [opt_it map ofold opt_apply is_some]; [|reflexivity].
    unfold item_kv. cbn [fst snd]. cbn [opt_all] in H3. rewrite tstep_delivery by lia. reflexivity. }
  rewrite Hdel. cbn [obind].
  rewrite ofold_app, (ofold_opt (t_source t) _ set_source)
    by (intros x E; unfold item_kv; cbn [fst snd]; rewrite E in H4; cbn [opt_all] in H4; unfold val_ok in H4;
        apply andb_true_iff in H4 as [_ H4]; now apply tstep_source).
  cbn [obind].
  rewrite ofold_app, (ofold_opt (t_dest t) _ set_dest)
    by (intros x E; unfold item_kv; cbn [fst snd]; rewrite E in H5; cbn [opt_all] in H5; unfold val_ok in H5;
        apply andb_true_iff in H5 as [_ H5]; now apply tstep_dest).
  cbn [obind].
  rewrite ofold_app, (ofold_opt (t_interleaved t) _ set_interleaved)
    by (intros x E; unfold item_kv; cbn [fst snd]; rewrite E in H6; cbn [opt_all] in H6; now apply tstep_interleaved).
  cbn [obind].
  rewrite ofold_app, (ofold_opt (t_ports t) _ set_ports)
    by (intros x E; unfold item_kv; cbn [fst snd]; rewrite E in H8; cbn [opt_all] in H8; now apply tstep_port).
  cbn [obind].
  rewrite ofold_app, (ofold_opt (t_ttl t) _ set_ttl)
    by (intros x E; unfold item_kv; cbn [fst snd]; rewrite E in H7; cbn [opt_all] in H7; apply tstep_ttl; lia).
  cbn [obind].
  rewrite ofold_app, (ofold_opt (t_cports t) _ set_cports)
    by (intros x E; unfold item_kv; cbn [fst snd]; rewrite E in H9; cbn [opt_all] in H9; now apply tstep_cport).
  cbn [obind].
  rewrite ofold_app, (ofold_opt (t_sports t) _ set_sports)
    by (intros x E; unfold item_kv; cbn [fst snd]; rewrite E in H10; cbn [opt_all] in H10; now apply tstep_sport).
  cbn [obind].
  rewrite ofold_app, (ofold_opt (t_ssrc t) _ set_ssrc)
    by (intros x E; unfold item_kv; cbn [fst snd]; rewrite E in H11; cbn [opt_all] in H11; apply tstep_ssrc; lia).
  cbn [obind].
  rewrite (ofold_opt (t_mode t) _ set_mode)
    by (intros x E; unfold item_kv; cbn [fst snd]; rewrite E in H12; cbn [opt_all] in H12; apply tstep_mode; lia).
  destruct t as [pr po dl so de il tl po2 cp sp ss mo].
  cbn [t_profile t_protocol t_delivery t_source t_dest t_interleaved t_ttl t_ports t_cports t_sports t_ssrc t_mode].
  destruct dl, so, de, il, tl, po2, cp, sp, ss, mo; reflexivity.
Qed.

(* ---- distinct keys of a marshalled value: a subsequence of a master key list ---- *)
Inductive sub {A} : list A -> list A -> Prop :=
  | sub_nil : sub [] []
  | sub_skip x l' l : sub l' l -> sub l' (x :: l)
  | sub_take x l' l : sub l' l -> sub (x :: l') (x :: l).

Lemma sub_refl {A} (l : list A) : sub l l.
Proof. induction l; [apply sub_nil|apply sub_take; assumption]. Qed.
Lemma sub_nil_l {A} (l : list A) : sub [] l.
Proof. induction l; [apply sub_nil|apply sub_skip; assumption]. Qed.
Lemma sub_app {A} (a a' b b' : list A) : sub a a' -> sub b b' -> sub (a ++ b) (a' ++ b').
Proof. induction 1; intros Hb; cbn [app]; [exact Hb|apply sub_skip; auto|apply sub_take; auto]. Qed.
Lemma sub_existsb {A} (p : A -> bool) l' l : sub l' l -> existsb p l' = true -> existsb p l = true.
Proof.
  induction 1 as [|x l' l Hs IH|x l' l Hs IH]; cbn [existsb]; intros He; [exact He| |].
  - rewrite IH by exact He. apply orb_true_r.
  - apply orb_true_iff in He as [He|He]; [now rewrite He|]. rewrite IH by exact He. apply orb_true_r.
Qed.
Lemma keys_distinct_sub l' l : sub l' l -> keys_distinct l = true -> keys_distinct l' = true.
Proof.
  induction 1 as [|x l' l Hs IH|x l' l Hs IH]; cbn [keys_distinct]; intros Hk; [reflexivity| |].
  - apply andb_true_iff in Hk as [_ Hk]. auto.
  - apply andb_true_iff in Hk as [H1 H2]. rewrite IH by exact H2. rewrite andb_true_r.
    apply negb_true_iff. apply negb_true_iff in H1.
    destruct (existsb (list_eqb x) l') eqn:E; [|reflexivity].
    rewrite (sub_existsb _ _ _ Hs E) in H1. discriminate.
Qed.
Lemma sub_opt {A} (o : option A) (f : A -> list N * vform) k :
  (forall x, fst (f x) = k) -> sub (map fst (opt_it o f)) [k].
Proof. intros H. destruct o as [x|]; cbn [opt_it map]; [rewrite H; apply sub_refl|apply sub_nil_l]. Qed.

Definition master_keys (t : transport) (d : N) : list (list N) :=
  [profile_key t; delivery_key d; K_source; K_destination; K_interleaved; K_port; K_ttl; K_client_port; K_server_port; K_ssrc; K_mode].

Lemma master_distinct t d : t_profile t < 2 -> t_protocol t < 2 -> d < 2 -> keys_distinct (master_keys t d) = true.
Proof.
  intros H1 H2 H3. unfold master_keys, profile_key.
  assert (t_profile t = 0 \/ t_profile t = 1) as [E1|E1] by lia;
  assert (t_protocol t = 0 \/ t_protocol t = 1) as [E2|E2] by lia;
  assert (d = 0 \/ d = 1) as [E3|E3] by lia; rewrite E1, E2, E3; reflexivity.
Qed.

Definition dflt_delivery (t : transport) : N := match t_delivery t with Some d => d | None => 0 end.

Lemma transport_keys_sub t : sub (map fst (transport_kvitems t)) (master_keys t (dflt_delivery t)).
Proof.
  unfold transport_kvitems, master_keys. rewrite !map_app.
  change [profile_key t; delivery_key (dflt_delivery t); K_source; K_destination; K_interleaved; K_port; K_ttl;
          K_client_port; K_server_port; K_ssrc; K_mode]
    with ([profile_key t] ++ [delivery_key (dflt_delivery t)] ++ [K_source] ++ [K_destination] ++ [K_interleaved] ++ [K_port]
          ++ [K_ttl] ++ [K_client_port] ++ [K_server_port] ++ [K_ssrc] ++ [K_mode]).
  apply sub_app; [apply sub_refl|].
  apply sub_app.
  { unfold dflt_delivery. destruct (t_delivery t); cbn [opt_it map fst]; [apply sub_refl|apply sub_nil_l]. }
  repeat (apply sub_app; [apply sub_opt; reflexivity|]). apply sub_opt; reflexivity.
Qed.

Lemma transport_keys_distinct t : wf_transport t = true -> keys_distinct (map fst (transport_kvitems t)) = true.
Proof.
  intros Hwf. apply (keys_distinct_sub _ _ (transport_keys_sub t)).
  unfold wf_transport in Hwf. rewrite !andb_true_iff in Hwf.
  destruct Hwf as [[[[[[[[[[[H1 H2] H3] _] _] _] _] _] _] _] _] _].
  apply master_distinct; try lia. unfold dflt_delivery. destruct (t_delivery t); cbn [opt_all] in H3; lia.
Qed.

Lemma profile_key_ok t : t_profile t < 2 -> t_protocol t < 2 -> key_ok SEMI (profile_key t) = true.
Proof.
  intros H1 H2. unfold profile_key.
  assert (t_profile t = 0 \/ t_profile t = 1) as [E1|E1] by lia;
  assert (t_protocol t = 0 \/ t_protocol t = 1) as [E2|E2] by lia; rewrite E1, E2; reflexivity.
Qed.

Lemma transport_items_ok t : wf_transport t = true -> forallb (item_ok SEMI) (transport_kvitems t) = true.
Proof.
  intros Hwf. unfold wf_transport in Hwf. rewrite !andb_true_iff in Hwf.
  destruct Hwf as [[[[[[[[[[[H1 H2] H3] H4] H5] H6] H7] H8] H9] H10] H11] H12].
  unfold transport_kvitems. rewrite !forallb_app. cbn [forallb].
  rewrite item_ok_bare by (apply profile_key_ok; lia). cbn [andb].
  repeat (apply andb_true_iff; split).
  - destruct (t_delivery t) as [d|]; [|reflexivity]. cbn [opt_all] in H3. cbn [opt_it forallb].
    assert (d = 0 \/ d = 1) as [-> | ->] by lia; reflexivity.
  - destruct (t_source t) as [v|]; [|reflexivity]. cbn [opt_all] in H4. unfold val_ok in H4. apply andb_true_iff in H4 as [H4 _].
    cbn [opt_it forallb]. now rewrite item_ok_plain.
  - destruct (t_dest t) as [v|]; [|reflexivity]. cbn [opt_all] in H5. unfold val_ok in H5. apply andb_true_iff in H5 as [H5 _].
    cbn [opt_it forallb]. now rewrite item_ok_plain.
  - destruct (t_interleaved t) as [v|]; [|reflexivity]. cbn [opt_it forallb]. now rewrite item_ok_plain by (reflexivity || apply pair_str_plain).
  - destruct (t_ports t) as [v|]; [|reflexivity]. cbn [opt_it forallb]. now rewrite item_ok_plain by (reflexivity || apply pair_str_plain).
  - destruct (t_ttl t) as [v|]; [|reflexivity]. cbn [opt_it forallb].
    now rewrite item_ok_plain by (reflexivity || (apply digits_plain_ok; [apply fmt_uint_digits|reflexivity])).
  - destruct (t_cports t) as [v|]; [|reflexivity]. cbn [opt_it forallb]. now rewrite item_ok_plain by (reflexivity || apply pair_str_plain).
  - destruct (t_sports t) as [v|]; [|reflexivity]. cbn [opt_it forallb]. now rewrite item_ok_plain by (reflexivity || apply pair_str_plain).
  - destruct (t_ssrc t) as [v|]; [|reflexivity]. cbn [opt_it forallb]. now rewrite item_ok_plain by (reflexivity || apply ssrc_str_plain).
  - destruct (t_mode t) as [m|]; [|reflexivity]. cbn [opt_all] in H12. cbn [opt_it forallb].
    assert (m = 0 \/ m = 1) as [-> | ->] by lia; reflexivity.
Qed.

Lemma transport_parse_marshal t : wf_transport t = true ->
  kv_parse (transport_marshal t) SEMI = Some (map item_kv (transport_kvitems t)).
Proof.
  intros Hwf. unfold transport_marshal.
  apply (kv_parse_render_distinct SEMI []); [reflexivity|reflexivity|now apply transport_items_ok|now apply transport_keys_distinct].
Qed.

Theorem transport_roundtrip_id t : wf_transport t = true -> transport_unmarshal_with id_order (transport_marshal t) = Ok t.
Proof.
  intros Hwf. unfold transport_unmarshal_with. rewrite transport_parse_marshal by exact Hwf.
  unfold tfold, id_order. now rewrite transport_fold_id.
Qed.

Theorem transport_roundtrip t o : is_perm o -> wf_transport t = true -> transport_unmarshal_with o (transport_marshal t) = Ok t.
Proof.
  intros Ho Hwf. rewrite (transport_deterministic _ o id_order Ho id_is_perm). now apply transport_roundtrip_id.
Qed.

(* ---------- Transports ---------- *)
Theorem transports_deterministic s o1 o2 :
  is_perm o1 -> is_perm o2 -> transports_unmarshal_with o1 s = transports_unmarshal_with o2 s.
Proof.
  intros H1 H2. unfold transports_unmarshal_with. f_equal.
  apply map_ext. intros p. now apply transport_deterministic.
Qed.

Theorem transports_total o s : transports_unmarshal_with o s <> Panic.
Proof.
  unfold transports_unmarshal_with. apply all_ok_no_panic. intros r Hr. apply in_map_iff in Hr as (p & <- & _).
  apply transport_total.
Qed.

Definition nocomma_opt (o : option (list N)) : bool := opt_all (nosep COMMA) o.
Definition wf_transport_c (t : transport) : bool :=
  wf_transport t && nocomma_opt (t_source t) && nocomma_opt (t_dest t).
Definition wf_transports (ts : list transport) : bool :=
  match ts with [] => false | _ => forallb wf_transport_c ts end.

Lemma hex_digit_upper_nocomma d : negb (hex_digit_upper d =? COMMA) = true.
Proof. unfold hex_digit_upper, COMMA. destruct (d <? 10) eqn:E; lia. Qed.

Lemma pair_str_nocomma p : nosep COMMA (pair_str p) = true.
Proof. unfold pair_str. rewrite !nosep_app, !(digits_nosep COMMA _ (fmt_uint_digits _) eq_refl). reflexivity. Qed.

Lemma transport_marshal_nocomma t : wf_transport_c t = true -> nosep COMMA (transport_marshal t) = true.
Proof.
  intros H. unfold wf_transport_c in H. rewrite !andb_true_iff in H. destruct H as [[Hwf Hs] Hd].
  unfold wf_transport in Hwf. rewrite !andb_true_iff in Hwf.
  destruct Hwf as [[[[[[[[[[[H1 H2] H3] H4] H5] H6] H7] H8] H9] H10] H11] H12].
  unfold transport_marshal. apply nosep_render_plain; [reflexivity|].
  unfold transport_kvitems. rewrite !forallb_app. cbn [forallb].
  repeat (apply andb_true_iff; split).
  - unfold render_item, profile_key. cbn [fst snd].
    assert (t_profile t = 0 \/ t_profile t = 1) as [E1|E1] by lia;
    assert (t_protocol t = 0 \/ t_protocol t = 1) as [E2|E2] by lia; rewrite E1, E2; reflexivity.
  - reflexivity.
  - destruct (t_delivery t) as [d|]; [|reflexivity]. cbn [opt_all] in H3. cbn [opt_it forallb].
    assert (d = 0 \/ d = 1) as [-> | ->] by lia; reflexivity.
  - destruct (t_source t) as [v|]; [|reflexivity]. cbn [opt_it forallb]. unfold nocomma_opt in Hs. cbn [opt_all] in Hs.
    now rewrite nosep_render_item_plain.
  - destruct (t_dest t) as [v|]; [|reflexivity]. cbn [opt_it forallb]. unfold nocomma_opt in Hd. cbn [opt_all] in Hd.
    now rewrite nosep_render_item_plain.
  - destruct (t_interleaved t) as [v|]; [|reflexivity]. cbn [opt_it forallb]. now rewrite nosep_render_item_plain by (reflexivity || apply pair_str_nocomma).
  - destruct (t_ports t) as [v|]; [|reflexivity]. cbn [opt_it forallb]. now rewrite nosep_render_item_plain by (reflexivity || apply pair_str_nocomma).
  - destruct (t_ttl t) as [v|]; [|reflexivity]. cbn [opt_it forallb].
    now rewrite nosep_render_item_plain by (reflexivity || (apply digits_nosep; [apply fmt_uint_digits|reflexivity])).
  - destruct (t_cports t) as [v|]; [|reflexivity]. cbn [opt_it forallb]. now rewrite nosep_render_item_plain by (reflexivity || apply pair_str_nocomma).
  - destruct (t_sports t) as [v|]; [|reflexivity]. cbn [opt_it forallb]. now rewrite nosep_render_item_plain by (reflexivity || apply pair_str_nocomma).
  - destruct (t_ssrc t) as [v|]; [|reflexivity]. cbn [opt_it forallb]. rewrite nosep_render_item_plain; [reflexivity|reflexivity|reflexivity|].
    unfold ssrc_str, hex_encode_upper, be4. cbn [flat_map app nosep forallb]. rewrite !hex_digit_upper_nocomma. reflexivity.
  - destruct (t_mode t) as [m|]; [|reflexivity]. cbn [opt_all] in H12. cbn [opt_it forallb].
    assert (m = 0 \/ m = 1) as [-> | ->] by lia; reflexivity.
Qed.

Lemma transport_marshal_trim t : wf_transport t = true -> trim_left_sp (transport_marshal t) = transport_marshal t.
Proof.
  intros Hwf. unfold transport_marshal, transport_kvitems. cbn [app].
  apply (trim_render SEMI). apply item_ok_bare.
  unfold wf_transport in Hwf. rewrite !andb_true_iff in Hwf.
  destruct Hwf as [[[[[[[[[[[H1 H2] _] _] _] _] _] _] _] _] _] _]. apply profile_key_ok; lia.
Qed.

Lemma wf_transport_c_wf t : wf_transport_c t = true -> wf_transport t = true.
Proof. unfold wf_transport_c. rewrite !andb_true_iff. tauto. Qed.

Theorem transports_roundtrip ts o :
  is_perm o -> wf_transports ts = true -> transports_unmarshal_with o (transports_marshal ts) = Ok ts.
Proof.
  intros Ho Hwf. unfold transports_unmarshal_with, transports_marshal.
  assert (Hne : ts <> []) by (destruct ts; discriminate).
  assert (Hall : forallb wf_transport_c ts = true) by (destruct ts; [discriminate|exact Hwf]).
  rewrite forallb_forall in Hall.
  rewrite split_on_join.
  - rewrite map_map. transitivity (all_ok (map Ok ts)); [|apply all_ok_map_ok]. f_equal. apply map_ext_in. intros t Ht.
    rewrite transport_marshal_trim by (apply wf_transport_c_wf; auto).
    apply transport_roundtrip; [exact Ho|apply wf_transport_c_wf; auto].
  - destruct ts; [congruence|discriminate].
  - rewrite forallb_forall. intros x Hx. apply in_map_iff in Hx as (t & <- & Ht).
    apply transport_marshal_nocomma. auto.
Qed.

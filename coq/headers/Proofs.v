(* umbrella: all proof files of the headers domain *)
From GV Require Export Res Str StrProofs KeyVal KeyValProofs HdrTransport HdrSession HdrAuth Float HdrRange Mikey HdrKeyMgmt
  HdrAuthProofs HdrSessionProofs HdrTransportProofs FloatProofs FloatRound NptRound HdrRangeProofs MikeyProofs HdrKeyMgmtProofs.

(* pkg/headers/transport.go and transports.go *)
From Coq Require Import String.
From GVL Require Import NList Wire.
From GV Require Import Res Str KeyVal.
Open Scope N_scope.

Definition SEMI : N := 59.
Definition COMMA : N := 44.
Definition DASH : N := 45.

Definition K_RTP_AVP := Eval vm_compute in str "RTP/AVP".
Definition K_RTP_AVP_UDP := Eval vm_compute in str "RTP/AVP/UDP".
Definition K_RTP_AVP_TCP := Eval vm_compute in str "RTP/AVP/TCP".
Definition K_RTP_SAVP := Eval vm_compute in str "RTP/SAVP".
Definition K_RTP_SAVP_UDP := Eval vm_compute in str "RTP/SAVP/UDP".
Definition K_RTP_SAVP_TCP := Eval vm_compute in str "RTP/SAVP/TCP".
Definition K_unicast := Eval vm_compute in str "unicast".
Definition K_multicast := Eval vm_compute in str "multicast".
Definition K_source := Eval vm_compute in str "source".
Definition K_destination := Eval vm_compute in str "destination".
Definition K_interleaved := Eval vm_compute in str "interleaved".
Definition K_ttl := Eval vm_compute in str "ttl".
Definition K_port := Eval vm_compute in str "port".
Definition K_client_port := Eval vm_compute in str "client_port".
Definition K_server_port := Eval vm_compute in str "server_port".
Definition K_ssrc := Eval vm_compute in str "ssrc".
Definition K_mode := Eval vm_compute in str "mode".
Definition S_play := Eval vm_compute in str "play".
Definition S_record := Eval vm_compute in str "record".
Definition S_receive := Eval vm_compute in str "receive".

Record transport := mkTransport {
  t_profile : N;                      (* 0 AVP, 1 SAVP *)
  t_protocol : N;                     (* 0 UDP, 1 TCP *)
  t_delivery : option N;              (* 0 unicast, 1 multicast *)
  t_source : option (list N);
  t_dest : option (list N);
  t_interleaved : option (N * N);
  t_ttl : option N;
  t_ports : option (N * N);
  t_cports : option (N * N);
  t_sports : option (N * N);
  t_ssrc : option N;
  t_mode : option N }.                (* 0 play, 1 record *)

Definition transport0 : transport :=
  mkTransport 0 0 None None None None None None None None None None.

(* parsePorts *)
Definition parse_ports (v : list N) : option (N * N) :=
  match split_on DASH v with
  | [a; b] =>
    match parse_uint 31 a, parse_uint 31 b with
    | Some p1, Some p2 => Some (p1, p2)
    | _, _ => None
    end
  | [a] =>
    match parse_uint 31 a with
    | Some p1 => Some (p1, p1 + 1)
    | None => None
    end
  | _ => None
  end.

(* TransportMode.unmarshal *)
Definition parse_mode (v : list N) : option N :=
  if lower_eq v S_play then Some 0
  else if lower_eq v S_record || lower_eq v S_receive then Some 1
  else None.

(* the ssrc case: None = field left untouched (no error) *)
Definition parse_ssrc (v : list N) : option N :=
  let v1 := trim_left_sp v in
  let v2 := if N.odd (nlen v1) then 48 :: v1 else v1 in
  match hex_decode v2 with
  | Some bs => if nlen bs <=? 4 then Some (be_val bs) else None
  | None => None
  end.

(* key classification *)
Inductive tkey :=
  | TProf (profile protocol : N) | TUnicast | TMulticast | TSource | TDest | TInterleaved | TTtl | TPort
  | TCPort | TSPort | TSsrc | TMode | TOther.

Definition classify (k : list N) : tkey :=
  if list_eqb k K_RTP_AVP || list_eqb k K_RTP_AVP_UDP then TProf 0 0
  else if list_eqb k K_RTP_AVP_TCP then TProf 0 1
  else if list_eqb k K_RTP_SAVP || list_eqb k K_RTP_SAVP_UDP then TProf 1 0
  else if list_eqb k K_RTP_SAVP_TCP then TProf 1 1
  else if list_eqb k K_unicast then TUnicast
  else if list_eqb k K_multicast then TMulticast
  else if list_eqb k K_source then TSource
  else if list_eqb k K_destination then TDest
  else if list_eqb k K_interleaved then TInterleaved
  else if list_eqb k K_ttl then TTtl
  else if list_eqb k K_port then TPort
  else if list_eqb k K_client_port then TCPort
  else if list_eqb k K_server_port then TSPort
  else if list_eqb k K_ssrc then TSsrc
  else if list_eqb k K_mode then TMode
  else TOther.

(* field setters *)
Definition set_prof p q (t : transport) := mkTransport p q (t_delivery t) (t_source t) (t_dest t) (t_interleaved t) (t_ttl t) (t_ports t) (t_cports t) (t_sports t) (t_ssrc t) (t_mode t).
Definition set_delivery d (t : transport) := mkTransport (t_profile t) (t_protocol t) (Some d) (t_source t) (t_dest t) (t_interleaved t) (t_ttl t) (t_ports t) (t_cports t) (t_sports t) (t_ssrc t) (t_mode t).
Definition set_source v (t : transport) := mkTransport (t_profile t) (t_protocol t) (t_delivery t) (Some v) (t_dest t) (t_interleaved t) (t_ttl t) (t_ports t) (t_cports t) (t_sports t) (t_ssrc t) (t_mode t).
Definition set_dest v (t : transport) := mkTransport (t_profile t) (t_protocol t) (t_delivery t) (t_source t) (Some v) (t_interleaved t) (t_ttl t) (t_ports t) (t_cports t) (t_sports t) (t_ssrc t) (t_mode t).
Definition set_interleaved v (t : transport) := mkTransport (t_profile t) (t_protocol t) (t_delivery t) (t_source t) (t_dest t) (Some v) (t_ttl t) (t_ports t) (t_cports t) (t_sports t) (t_ssrc t) (t_mode t).
Definition set_ttl v (t : transport) := mkTransport (t_profile t) (t_protocol t) (t_delivery t) (t_source t) (t_dest t) (t_interleaved t) (Some v) (t_ports t) (t_cports t) (t_sports t) (t_ssrc t) (t_mode t).
Definition set_ports v (t : transport) := mkTransport (t_profile t) (t_protocol t) (t_delivery t) (t_source t) (t_dest t) (t_interleaved t) (t_ttl t) (Some v) (t_cports t) (t_sports t) (t_ssrc t) (t_mode t).
Definition set_cports v (t : transport) := mkTransport (t_profile t) (t_protocol t) (t_delivery t) (t_source t) (t_dest t) (t_interleaved t) (t_ttl t) (t_ports t) (Some v) (t_sports t) (t_ssrc t) (t_mode t).
Definition set_sports v (t : transport) := mkTransport (t_profile t) (t_protocol t) (t_delivery t) (t_source t) (t_dest t) (t_interleaved t) (t_ttl t) (t_ports t) (t_cports t) (Some v) (t_ssrc t) (t_mode t).
Definition set_ssrc v (t : transport) := mkTransport (t_profile t) (t_protocol t) (t_delivery t) (t_source t) (t_dest t) (t_interleaved t) (t_ttl t) (t_ports t) (t_cports t) (t_sports t) (Some v) (t_mode t).
Definition set_mode v (t : transport) := mkTransport (t_profile t) (t_protocol t) (t_delivery t) (t_source t) (t_dest t) (t_interleaved t) (t_ttl t) (t_ports t) (t_cports t) (t_sports t) (t_ssrc t) (Some v).

(* loop state: the header being filled, profileFound, deliveryFound *)
Definition tstate := (transport * (bool * bool))%type.

(* one iteration of the range-over-map loop; None = return err.
   (/repo 5cae47d: a second profile key, resp. a second delivery key, is an error) *)
Definition tstep (st : tstate) (e : kv) : option tstate :=
  let '(t, fl) := st in
  let '(k, v) := e in
  match classify k with
  | TProf p q => if fst fl then None else Some (set_prof p q t, (true, snd fl))
  | TUnicast => if snd fl then None else Some (set_delivery 0 t, (fst fl, true))
  | TMulticast => if snd fl then None else Some (set_delivery 1 t, (fst fl, true))
  | TSource => Some (match v with [] => t | _ => set_source v t end, fl)
  | TDest => Some (match v with [] => t | _ => set_dest v t end, fl)
  | TInterleaved => option_map (fun p => (set_interleaved p t, fl)) (parse_ports v)
  | TTtl => option_map (fun x => (set_ttl x t, fl)) (parse_uint 32 v)
  | TPort => option_map (fun p => (set_ports p t, fl)) (parse_ports v)
  | TCPort => option_map (fun p => (set_cports p t, fl)) (parse_ports v)
  | TSPort => option_map (fun p => (set_sports p t, fl)) (parse_ports v)
  | TSsrc => Some (match parse_ssrc v with Some x => set_ssrc x t | None => t end, fl)
  | TMode => option_map (fun m => (set_mode m t, fl)) (parse_mode v)
  | TOther => Some st
  end.

Definition tfold := ofold tstep.

(* Transport.Unmarshal on a one-element header value *)
Definition transport_unmarshal_with (order : order_t) (s : list N) : res transport :=
  match kv_parse s SEMI with
  | None => Err
  | Some m =>
    match tfold (transport0, (false, false)) (order m) with
    | None => Err
    | Some (t, (true, _)) => Ok t
    | Some (_, (false, _)) => Err
    end
  end.

Definition pair_str (p : N * N) : list N := fmt_uint (fst p) ++ [DASH] ++ fmt_uint (snd p).


(* Transport.Marshal *)
Definition profile_key (t : transport) : list N :=
  if (t_protocol t =? 0) && (t_profile t =? 0) then K_RTP_AVP
  else if (t_protocol t =? 1) && (t_profile t =? 0) then K_RTP_AVP_TCP
  else if (t_protocol t =? 0) && (t_profile t =? 1) then K_RTP_SAVP
  else if (t_protocol t =? 1) && (t_profile t =? 1) then K_RTP_SAVP_TCP
  else [].
Definition delivery_key (d : N) : list N := if d =? 0 then K_unicast else if d =? 1 then K_multicast else [].
Definition ssrc_str (x : N) : list N := hex_encode_upper (be4 x).
Definition mode_str (m : N) : list N := if m =? 0 then S_play else S_record.

Definition transport_kvitems (t : transport) : list item :=
  [ (profile_key t, VBare) ]
  ++ opt_it (t_delivery t) (fun d => (delivery_key d, VBare))
  ++ opt_it (t_source t) (fun v => (K_source, VPlain v))
  ++ opt_it (t_dest t) (fun v => (K_destination, VPlain v))
  ++ opt_it (t_interleaved t) (fun p => (K_interleaved, VPlain (pair_str p)))
  ++ opt_it (t_ports t) (fun p => (K_port, VPlain (pair_str p)))
  ++ opt_it (t_ttl t) (fun x => (K_ttl, VPlain (fmt_uint x)))
  ++ opt_it (t_cports t) (fun p => (K_client_port, VPlain (pair_str p)))
  ++ opt_it (t_sports t) (fun p => (K_server_port, VPlain (pair_str p)))
  ++ opt_it (t_ssrc t) (fun x => (K_ssrc, VPlain (ssrc_str x)))
  ++ opt_it (t_mode t) (fun m => (K_mode, VPlain (mode_str m))).

Definition transport_marshal (t : transport) : list N := render_items [SEMI] (transport_kvitems t).

(* ---- Transports ---- *)
Fixpoint all_ok {A} (l : list (res A)) : res (list A) :=
  match l with
  | [] => Ok []
  | r :: t => let* x := r in let* xs := all_ok t in Ok (x :: xs)
  end.

Definition transports_unmarshal_with (order : order_t) (s : list N) : res (list transport) :=
  all_ok (map (fun part => transport_unmarshal_with order (trim_left_sp part)) (split_on COMMA s)).

Definition transports_marshal (ts : list transport) : list N :=
  join [COMMA] (map transport_marshal ts).

(* ---- wire ---- *)
Definition enc_opt {A} (o : option A) (f : A -> list N) : list N :=
  match o with None => [0] | Some x => 1 :: f x end.
Definition enc_pair (p : N * N) : list N := [fst p; snd p].
Definition enc_transport (t : transport) : list N :=
  [t_profile t; t_protocol t] ++ enc_opt (t_delivery t) (fun d => [d])
  ++ enc_opt (t_source t) putl ++ enc_opt (t_dest t) putl
  ++ enc_opt (t_interleaved t) enc_pair ++ enc_opt (t_ttl t) (fun x => [x])
  ++ enc_opt (t_ports t) enc_pair ++ enc_opt (t_cports t) enc_pair ++ enc_opt (t_sports t) enc_pair
  ++ enc_opt (t_ssrc t) (fun x => [x]) ++ enc_opt (t_mode t) (fun x => [x]).

Definition dec_opt {A} (f : list N -> option (A * list N)) (l : list N) : option (option A * list N) :=
  match l with
  | 0 :: t => Some (None, t)
  | 1 :: t => match f t with Some (x, r) => Some (Some x, r) | None => None end
  | _ => None
  end.
Definition dec_n (l : list N) : option (N * list N) := get1 l.
Definition dec_pair (l : list N) : option ((N * N) * list N) :=
  match l with a :: b :: t => Some ((a, b), t) | _ => None end.

Definition dec_transport (l : list N) : option (transport * list N) :=
  match l with
  | p :: q :: l0 =>
    match dec_opt dec_n l0 with None => None | Some (dl, l1) =>
    match dec_opt getl l1 with None => None | Some (so, l2) =>
    match dec_opt getl l2 with None => None | Some (de, l3) =>
    match dec_opt dec_pair l3 with None => None | Some (il, l4) =>
    match dec_opt dec_n l4 with None => None | Some (tl, l5) =>
    match dec_opt dec_pair l5 with None => None | Some (po, l6) =>
    match dec_opt dec_pair l6 with None => None | Some (cp, l7) =>
    match dec_opt dec_pair l7 with None => None | Some (sp, l8) =>
    match dec_opt dec_n l8 with None => None | Some (ss, l9) =>
    match dec_opt dec_n l9 with None => None | Some (mo, l10) =>
      Some (mkTransport p q dl so de il tl po cp sp ss mo, l10)
    end end end end end end end end end end
  | _ => None
  end.

(* Lemmas about the key=value tokenizer: parsing a rendered item list, uniqueness of keys in the
   result, and invariance of the consumers' range-over-map loop under permutation of the entries. *)
From Coq Require Import ZifyBool ZifyNat ZifyN Permutation.
From GVL Require Import NList.
From GV Require Import Res Str StrProofs KeyVal.
Open Scope N_scope.

Definition sep_ok (sep : N) : bool := negb (sep =? EQ) && negb (sep =? DQ) && negb (sep =? SP).

Definition key_ok (sep : N) (k : list N) : bool :=
  match k with [] => false | c :: _ => negb (c =? SP) end
  && forallb (fun c => negb (c =? EQ) && negb (c =? sep)) k.

Definition vform_ok (sep : N) (f : vform) : bool :=
  match f with
  | VBare => true
  | VPlain v => nosep sep v && match v with c :: _ => negb (c =? DQ) | [] => true end
  | VQuoted v => nosep DQ v
  end.

Definition item_ok (sep : N) (it : item) : bool := key_ok sep (fst it) && vform_ok sep (snd it).

Lemma kv_loop_unfold x fuel c s sep m :
  kv_loop (x :: fuel) (c :: s) sep m =
  let '(k, r) := read_key (c :: s) sep in
  match r with
  | c :: r' =>
    if c =? EQ then
      match read_value r' sep with
      | None => None
      | Some (v, r'') => kv_loop fuel (trim_left_sp (skip_sep r'' sep)) sep (map_set k v m)
      end
    else kv_loop fuel (trim_left_sp (skip_sep r sep)) sep (map_set k [] m)
  | [] => kv_loop fuel [] sep (map_set k [] m)
  end.
Proof. reflexivity. Qed.

Lemma kv_loop_nil fuel sep m : kv_loop fuel [] sep m = Some m.
Proof. destruct fuel; reflexivity. Qed.

Lemma read_key_stop sep k c r :
  forallb (fun c => negb (c =? EQ) && negb (c =? sep)) k = true -> (c = EQ \/ c = sep) ->
  read_key (k ++ c :: r) sep = (k, c :: r).
Proof.
  intros Hk Hc. unfold read_key. apply span_stop; [exact Hk|].
  destruct Hc as [->| ->]; rewrite N.eqb_refl; cbn; [reflexivity|apply andb_false_r].
Qed.
Lemma read_key_end sep k :
  forallb (fun c => negb (c =? EQ) && negb (c =? sep)) k = true -> read_key k sep = (k, []).
Proof. intros Hk. unfold read_key. now apply span_all. Qed.

(* one iteration of the loop on a rendered item followed by nothing or by the separator *)
Lemma kv_step sep a tail x fuel m :
  sep_ok sep = true -> item_ok sep a = true -> (tail = [] \/ exists t, tail = sep :: t) ->
  kv_loop (x :: fuel) (render_item a ++ tail) sep m =
  kv_loop fuel (trim_left_sp (skip_sep tail sep)) sep (map_set (fst (item_kv a)) (snd (item_kv a)) m).
Proof.
  intros Hsep Hit Htail. destruct a as [k f]. unfold item_ok in Hit. cbn [fst snd] in Hit.
  apply andb_true_iff in Hit as [Hk Hf]. unfold key_ok in Hk. apply andb_true_iff in Hk as [Hk1 Hk2].
  destruct k as [|k0 k]; [discriminate|].
  unfold sep_ok in Hsep. apply andb_true_iff in Hsep as [Hsep Hs3]. apply andb_true_iff in Hsep as [Hs1 Hs2].
  apply negb_true_iff, N.eqb_neq in Hs1, Hs2, Hs3.
  unfold render_item, item_kv. cbn [fst snd].
  destruct f as [|v|v].
  - (* bare *)
    destruct Htail as [->|[t ->]].
    + rewrite app_nil_r. rewrite kv_loop_unfold, (read_key_end sep (k0 :: k) Hk2). cbn [skip_sep trim_left_sp drop_while]. reflexivity.
    + change ((k0 :: k) ++ sep :: t) with (k0 :: (k ++ sep :: t)).
      rewrite kv_loop_unfold. change (k0 :: (k ++ sep :: t)) with ((k0 :: k) ++ sep :: t).
      rewrite (read_key_stop sep (k0 :: k) sep t Hk2 (or_intror eq_refl)).
      destruct (N.eqb_spec sep EQ); [contradiction|]. reflexivity.
  - (* plain *)
    cbn [vform_ok] in Hf. apply andb_true_iff in Hf as [Hv1 Hv2].
    rewrite <- app_assoc. change ((k0 :: k) ++ ([EQ] ++ v) ++ tail) with (k0 :: (k ++ EQ :: v ++ tail)).
    rewrite kv_loop_unfold. change (k0 :: (k ++ EQ :: v ++ tail)) with ((k0 :: k) ++ EQ :: (v ++ tail)).
    rewrite (read_key_stop sep (k0 :: k) EQ (v ++ tail) Hk2 (or_introl eq_refl)).
    rewrite N.eqb_refl.
    assert (Hrv : read_value (v ++ tail) sep = Some (v, tail)).
    { unfold read_value. destruct v as [|v0 v].
      - cbn [app]. destruct Htail as [->|[t ->]]; [reflexivity|].
        destruct (N.eqb_spec sep DQ); [contradiction|]. cbn [span]. rewrite N.eqb_refl. reflexivity.
      - cbn [app]. apply negb_true_iff in Hv2. rewrite Hv2.
        change (v0 :: v ++ tail) with ((v0 :: v) ++ tail).
        destruct Htail as [->|[t ->]].
        + rewrite app_nil_r. now rewrite (span_all _ (v0 :: v) Hv1).
        + rewrite (span_stop _ (v0 :: v) sep t Hv1); [reflexivity|]. now rewrite N.eqb_refl. }
    rewrite Hrv. reflexivity.
  - (* quoted *)
    cbn [vform_ok] in Hf.
    rewrite <- app_assoc. change ((k0 :: k) ++ ([EQ; DQ] ++ v ++ [DQ]) ++ tail) with (k0 :: (k ++ EQ :: DQ :: (v ++ [DQ]) ++ tail)).
    rewrite kv_loop_unfold. change (k0 :: (k ++ EQ :: DQ :: (v ++ [DQ]) ++ tail)) with ((k0 :: k) ++ EQ :: (DQ :: (v ++ [DQ]) ++ tail)).
    rewrite (read_key_stop sep (k0 :: k) EQ _ Hk2 (or_introl eq_refl)).
    rewrite N.eqb_refl. unfold read_value. rewrite N.eqb_refl.
    rewrite <- app_assoc. cbn [app].
    rewrite (span_stop _ v DQ tail Hf); [reflexivity|]. now rewrite N.eqb_refl.
Qed.

Definition add_item (m : kvs) (it : item) : kvs := map_set (fst (item_kv it)) (snd (item_kv it)) m.

Lemma render_items_cons2 sg a b r : render_items sg (a :: b :: r) = render_item a ++ sg ++ render_items sg (b :: r).
Proof. reflexivity. Qed.

Lemma render_item_first sep a : item_ok sep a = true ->
  exists c t, render_item a = c :: t /\ (c =? SP) = false.
Proof.
  intros H. destruct a as [k f]. unfold item_ok, key_ok in H. cbn [fst snd] in H.
  apply andb_true_iff in H as [H _]. apply andb_true_iff in H as [H _].
  destruct k as [|c k]; [discriminate|]. apply negb_true_iff in H.
  unfold render_item. cbn [fst snd]. destruct f; eexists c, _; (split; [reflexivity|exact H]).
Qed.
Lemma render_items_first sep sg a r : item_ok sep a = true ->
  exists c t, render_items sg (a :: r) = c :: t /\ (c =? SP) = false.
Proof.
  intros H. destruct (render_item_first sep a H) as (c & t & E & Hc).
  destruct r as [|b r].
  - cbn [render_items]. eauto.
  - rewrite render_items_cons2, E. cbn [app]. eauto.
Qed.

Lemma kv_loop_render sep gap its :
  sep_ok sep = true -> forallb (fun c => c =? SP) gap = true -> forallb (item_ok sep) its = true ->
  forall fuel m, nlen (render_items (sep :: gap) its) <= nlen fuel ->
  kv_loop fuel (render_items (sep :: gap) its) sep m = Some (fold_left add_item its m).
Proof.
  intros Hsep Hgap. induction its as [|a r IH]; intros Hits fuel m Hfuel.
  - cbn [render_items fold_left]. apply kv_loop_nil.
  - cbn [forallb] in Hits. apply andb_true_iff in Hits as [Ha Hr].
    destruct r as [|b r].
    + cbn [render_items fold_left] in *.
      destruct (render_item_first sep a Ha) as (c & t & E & _).
      destruct fuel as [|x fuel]; [rewrite E in Hfuel; cbn [nlen] in Hfuel; lia|].
      rewrite <- (app_nil_r (render_item a)).
      rewrite (kv_step sep a [] x fuel m Hsep Ha (or_introl eq_refl)).
      cbn [skip_sep trim_left_sp drop_while]. apply kv_loop_nil.
    + rewrite render_items_cons2 in *.
      destruct (render_item_first sep a Ha) as (c & t & E & _).
      destruct fuel as [|x fuel]; [rewrite E in Hfuel; cbn [nlen app] in Hfuel; lia|].
      cbn [app]. rewrite (kv_step sep a _ x fuel m Hsep Ha (or_intror (ex_intro _ _ eq_refl))).
      cbn [skip_sep]. rewrite N.eqb_refl.
      assert (Htrim : trim_left_sp (gap ++ render_items (sep :: gap) (b :: r)) = render_items (sep :: gap) (b :: r)).
      { unfold trim_left_sp. rewrite drop_while_all by exact Hgap.
        cbn [forallb] in Hr. apply andb_true_iff in Hr as [Hb _].
        destruct (render_items_first sep (sep :: gap) b r Hb) as (c' & t' & E' & Hc'). rewrite E'.
        apply drop_while_stop. exact Hc'. }
      rewrite Htrim. cbn [fold_left]. apply IH; [exact Hr|].
      rewrite !nlen_app, E in Hfuel. cbn [nlen] in Hfuel. lia.
Qed.

Lemma kv_parse_render sep gap its :
  sep_ok sep = true -> forallb (fun c => c =? SP) gap = true -> forallb (item_ok sep) its = true ->
  kv_parse (render_items (sep :: gap) its) sep = Some (fold_left add_item its []).
Proof. intros. unfold kv_parse. apply kv_loop_render; auto. lia. Qed.

(* ---- map_set / distinct keys ---- *)
Fixpoint key_in (k : list N) (m : kvs) : bool :=
  match m with [] => false | (k', _) :: t => list_eqb k k' || key_in k t end.

Lemma map_set_fresh k v m : key_in k m = false -> map_set k v m = m ++ [(k, v)].
Proof.
  induction m as [|[k' v'] t IH]; cbn [key_in map_set app]; intros H; [reflexivity|].
  apply orb_false_iff in H as [H1 H2]. rewrite H1, (IH H2). reflexivity.
Qed.
Lemma key_in_app k a b : key_in k (a ++ b) = key_in k a || key_in k b.
Proof. induction a as [|[k' v'] t IH]; cbn [app key_in]; [reflexivity|]. rewrite IH. now rewrite orb_assoc. Qed.

Fixpoint keys_distinct (ks : list (list N)) : bool :=
  match ks with
  | [] => true
  | k :: t => negb (existsb (list_eqb k) t) && keys_distinct t
  end.

Lemma key_in_map_item k its : key_in k (map item_kv its) = existsb (fun it => list_eqb k (fst it)) its.
Proof. induction its as [|[k' f] t IH]; cbn [map key_in existsb item_kv fst]; [reflexivity|]. now rewrite IH. Qed.

Lemma fold_add_distinct its : keys_distinct (map fst its) = true ->
  forall m, (forall it, In it its -> key_in (fst it) m = false) ->
  fold_left add_item its m = m ++ map item_kv its.
Proof.
  induction its as [|a r IH]; intros Hd m Hm; cbn [fold_left map]; [now rewrite app_nil_r|].
  cbn [map keys_distinct] in Hd. apply andb_true_iff in Hd as [Hd1 Hd2].
  unfold add_item at 2. rewrite map_set_fresh by (apply Hm; now left).
  rewrite IH; [now rewrite <- app_assoc|exact Hd2|].
  intros it Hin. rewrite key_in_app. rewrite (Hm it (or_intror Hin)). cbn [key_in item_kv fst orb].
  rewrite orb_false_r. apply negb_true_iff in Hd1.
  rewrite list_eqb_sym.
  destruct (list_eqb (fst a) (fst it)) eqn:E; [|reflexivity].
  exfalso. rewrite <- not_true_iff_false in Hd1. apply Hd1. apply existsb_exists.
  exists (fst it). split; [now apply in_map|exact E].
Qed.

Lemma kv_parse_render_distinct sep gap its :
  sep_ok sep = true -> forallb (fun c => c =? SP) gap = true -> forallb (item_ok sep) its = true ->
  keys_distinct (map fst its) = true ->
  kv_parse (render_items (sep :: gap) its) sep = Some (map item_kv its).
Proof.
  intros H1 H2 H3 H4. rewrite kv_parse_render by assumption.
  rewrite fold_add_distinct; [reflexivity|exact H4|reflexivity].
Qed.

(* keys of a parsed map are pairwise different *)
Lemma map_set_keys k v m : NoDup (map fst m) -> NoDup (map fst (map_set k v m)).
Proof.
  induction m as [|[k' v'] t IH]; intros H; cbn [map_set].
  - cbn. constructor; [intros []|constructor].
  - destruct (list_eqb k k') eqn:E.
    + apply list_eqb_spec in E. subst. exact H.
    + cbn [map fst] in *. inversion H as [|? ? Hn Hd]; subst. constructor; [|now apply IH].
      intros Hin. apply Hn. clear -Hin E.
      induction t as [|[k2 v2] t IH]; cbn [map_set map fst] in *.
      * destruct Hin as [Hin|[]]. subst. rewrite list_eqb_refl in E. discriminate.
      * destruct (list_eqb k k2) eqn:E2.
        -- apply list_eqb_spec in E2. subst. exact Hin.
        -- cbn [map fst] in Hin. destruct Hin as [Hin|Hin]; [now left|right; now apply IH].
Qed.

Lemma kv_loop_keys fuel : forall s sep m m', NoDup (map fst m) -> kv_loop fuel s sep m = Some m' -> NoDup (map fst m').
Proof.
  induction fuel as [|x fuel IH]; intros s sep m m' Hm H.
  - destruct s; cbn [kv_loop] in H; inversion H; now subst.
  - destruct s as [|c s]; [cbn [kv_loop] in H; inversion H; now subst|].
    rewrite kv_loop_unfold in H. destruct (read_key (c :: s) sep) as [k r].
    destruct r as [|c' r'].
    + eapply IH; [|exact H]. now apply map_set_keys.
    + destruct (c' =? EQ).
      * destruct (read_value r' sep) as [[v r'']|]; [|discriminate].
        eapply IH; [|exact H]. now apply map_set_keys.
      * eapply IH; [|exact H]. now apply map_set_keys.
Qed.
Lemma kv_parse_keys s sep m : kv_parse s sep = Some m -> NoDup (map fst m).
Proof. unfold kv_parse. apply kv_loop_keys. constructor. Qed.

(* ---- iteration orders ---- *)
Definition is_perm (o : order_t) : Prop := forall l, Permutation l (o l).
Lemma id_is_perm : is_perm id_order.
Proof. intros l. apply Permutation_refl. Qed.
Lemma rev_is_perm : is_perm (@rev kv).
Proof. intros l. apply Permutation_rev. Qed.

Definition obind {A B} (o : option A) (f : A -> option B) : option B := match o with Some a => f a | None => None end.

(* two entries commute for a step function *)
Definition commute {S} (step : S -> kv -> option S) (a b : kv) : Prop :=
  forall st, obind (step st a) (fun s => step s b) = obind (step st b) (fun s => step s a).

Lemma ofold_perm {S} (step : S -> kv -> option S) (l l' : kvs) :
  Permutation l l' ->
  NoDup (map fst l) ->
  (forall a b, In a l -> In b l -> fst a <> fst b -> commute step a b) ->
  forall st, ofold step st l = ofold step st l'.
Proof.
  induction 1 as [|x l l' Hp IH|x y l|l l' l'' Hp1 IH1 Hp2 IH2]; intros Hnd Hc st.
  - reflexivity.
  - cbn [ofold]. destruct (step st x); [|reflexivity]. apply IH.
    + cbn [map] in Hnd. now inversion Hnd.
    + intros a b Ha Hb. apply Hc; now right.
  - cbn [ofold]. cbn [map] in Hnd. inversion Hnd as [|? ? Hn1 Hnd']; subst.
    assert (Hxy : fst y <> fst x). { intros E. apply Hn1. left. now rewrite E. }
    pose proof (Hc y x (or_introl eq_refl) (or_intror (or_introl eq_refl)) Hxy st) as Hcomm.
    unfold obind in Hcomm.
    destruct (step st y) as [s1|] eqn:E1; destruct (step st x) as [s2|] eqn:E2.
    + rewrite Hcomm. reflexivity.
    + rewrite Hcomm. reflexivity.
    + rewrite <- Hcomm. reflexivity.
    + reflexivity.
  - rewrite IH1 by assumption. apply IH2.
    + eapply Permutation_NoDup; [|exact Hnd]. now apply Permutation_map.
    + intros a b Ha Hb. apply Hc; eapply Permutation_in; try eassumption; now apply Permutation_sym.
Qed.

(* the usual way to use it *)
Lemma ofold_order_indep {S} (step : S -> kv -> option S) (m : kvs) (o1 o2 : order_t) :
  is_perm o1 -> is_perm o2 -> NoDup (map fst m) ->
  (forall a b, In a m -> In b m -> fst a <> fst b -> commute step a b) ->
  forall st, ofold step st (o1 m) = ofold step st (o2 m).
Proof.
  intros H1 H2 Hnd Hc st.
  rewrite <- (ofold_perm step m (o1 m) (H1 m) Hnd Hc).
  now rewrite <- (ofold_perm step m (o2 m) (H2 m) Hnd Hc).
Qed.

Lemma ofold_app {S} (step : S -> kv -> option S) l1 l2 st :
  ofold step st (l1 ++ l2) = obind (ofold step st l1) (fun s => ofold step s l2).
Proof.
  revert st; induction l1 as [|e r IH]; intros st; cbn [app ofold obind]; [reflexivity|].
  destruct (step st e); [apply IH|reflexivity].
Qed.

Lemma item_ok_quoted sep k v : key_ok sep k = true -> nosep DQ v = true -> item_ok sep (k, VQuoted v) = true.
Proof. intros H1 H2. unfold item_ok. cbn [fst snd vform_ok]. now rewrite H1, H2. Qed.
Lemma item_ok_bare sep k : key_ok sep k = true -> item_ok sep (k, VBare) = true.
Proof. intros H1. unfold item_ok. cbn [fst snd vform_ok]. now rewrite H1. Qed.
Definition plain_ok (sep : N) (v : list N) : bool :=
  nosep sep v && match v with c :: _ => negb (c =? DQ) | [] => true end.
Lemma item_ok_plain sep k v : key_ok sep k = true -> plain_ok sep v = true -> item_ok sep (k, VPlain v) = true.
Proof. intros H1 H2. unfold item_ok. cbn [fst snd vform_ok]. fold (plain_ok sep v). now rewrite H1, H2. Qed.

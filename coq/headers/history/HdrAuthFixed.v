(* Repaired model for F9 (not referenced by Props): headers.Authorization.Unmarshal with
   strings.SplitN(string(tmp), ":", 2) instead of strings.Split(...) + len == 2.
   With it the Basic round trip holds for every password (the user name still cannot contain ':'). *)
From Coq Require Import ZifyBool ZifyNat ZifyN Permutation.
From GVL Require Import NList.
From GV Require Import Res Str StrProofs KeyVal KeyValProofs HdrAuth HdrAuthProofs.
Open Scope N_scope.

Definition authorization_unmarshal_fixed (order : order_t) (s : list N) : res authorization :=
  match cut SP s with
  | None => Err
  | Some (m, rest) =>
    if list_eqb m S_Basic then
      match b64_decode rest with
      | None => Err
      | Some tmp =>
        match cut COLON tmp with          (* SplitN(…, 2) must still give two parts *)
        | Some (u, p) => Ok (mkAuthorization 0 u p [] [] [] [] None None)
        | None => Err
        end
      end
    else authorization_unmarshal_with order s
  end.

Theorem authorization_fixed_deterministic s o1 o2 :
  is_perm o1 -> is_perm o2 -> authorization_unmarshal_fixed o1 s = authorization_unmarshal_fixed o2 s.
Proof.
  intros H1 H2. unfold authorization_unmarshal_fixed. destruct (cut SP s) as [[m rest]|]; [|reflexivity].
  destruct (list_eqb m S_Basic); [reflexivity|]. now apply authorization_deterministic.
Qed.

Theorem authorization_fixed_roundtrip z o :
  is_perm o -> wf_authorization z = true -> authorization_unmarshal_fixed o (authorization_marshal z) = Ok z.
Proof.
  intros Ho Hwf. destruct (N.eqb_spec (z_method z) 0) as [Hm|Hm].
  - (* Basic: any password *)
    unfold wf_authorization in Hwf. rewrite Hm in Hwf. cbn [N.eqb] in Hwf.
    rewrite !andb_true_iff in Hwf. destruct Hwf as [[[[[[[[Hu Hub] Hpb] H1] H2] H3] H4] H5] H6].
    destruct z as [m user pass realm nonce uri resp opaque alg]. cbn [z_method z_user z_pass z_realm z_nonce z_uri z_response z_opaque z_alg] in *.
    subst m. destruct realm; [|discriminate]. destruct nonce; [|discriminate]. destruct uri; [|discriminate].
    destruct resp; [|discriminate]. destruct opaque; [discriminate|]. destruct alg; [discriminate|].
    unfold authorization_unmarshal_fixed, authorization_marshal. cbn [z_method N.eqb z_user z_pass app].
    rewrite (cut_found SP S_Basic) by reflexivity. change (list_eqb S_Basic S_Basic) with true. cbv iota.
    rewrite b64_roundtrip.
    + rewrite cut_found by exact Hu. reflexivity.
    + apply bytes_okb_spec in Hub, Hpb. unfold bytes_ok in *. apply Forall_app. split; [exact Hub|].
      constructor; [cbv; reflexivity|exact Hpb].
  - (* Digest: unchanged code path *)
    assert (Hp : basic_pass_ok z = true). { unfold basic_pass_ok. destruct (N.eqb_spec (z_method z) 0); [contradiction|reflexivity]. }
    pose proof (authorization_roundtrip_partial z o Ho Hwf Hp) as Hrt.
    unfold authorization_unmarshal_fixed. unfold authorization_marshal in *.
    destruct (N.eqb_spec (z_method z) 0); [contradiction|].
    cbn [app] in *. rewrite (cut_found SP S_Digest) by reflexivity.
    change (list_eqb S_Digest S_Basic) with false. cbv iota. exact Hrt.
Qed.

Example f9_fixed : authorization_unmarshal_fixed id_order (authorization_marshal f9_witness) = Ok f9_witness.
Proof. vm_compute. reflexivity. Qed.

(* Repaired model for F7 / Transport (not referenced by Props): Transport.Unmarshal rejecting a second profile key
   and a second delivery key ("duplicate profile" / "duplicate delivery" errors).  With it the parse result is
   independent of the map iteration order on EVERY input. *)
From Coq Require Import ZifyBool ZifyNat ZifyN Permutation.
From GVL Require Import NList.
From GV Require Import Res Str StrProofs KeyVal KeyValProofs HdrTransport HdrAuthProofs HdrSessionProofs HdrTransportProofs.
Open Scope N_scope.

Definition tstep_fixed (st : tstate) (e : list N * list N) : option tstate :=
  let '(t, pf) := st in
  match classify (fst e) with
  | TProf p q => if pf then None else Some (set_prof p q t, true)
  | TUnicast => match t_delivery t with Some _ => None | None => Some (set_delivery 0 t, pf) end
  | TMulticast => match t_delivery t with Some _ => None | None => Some (set_delivery 1 t, pf) end
  | _ => tstep st e
  end.

Definition transport_unmarshal_fixed (order : order_t) (s : list N) : res transport :=
  match kv_parse s SEMI with
  | None => Err
  | Some m =>
    match ofold tstep_fixed (transport0, false) (order m) with
    | None => Err
    | Some (t, true) => Ok t
    | Some (_, false) => Err
    end
  end.

Lemma tstep_fixed_commute a b : fst a <> fst b -> commute tstep_fixed a b.
Proof.
  intros Hne [t pf]. destruct a as [ka va], b as [kb vb]. cbn [fst] in Hne.
  unfold tstep_fixed, tstep, obind. cbn [fst]. destruct t as [f1 f2 f3 f4 f5 f6 f7 f8 f9 f10 f11 f12].
  destruct (classify ka) eqn:Ca; destruct (classify kb) eqn:Cb; try same_class_contra;
  cbn [t_delivery set_prof set_delivery];
  repeat match goal with
  | |- context [parse_ports ?v] => destruct (parse_ports v)
  | |- context [parse_uint ?b ?v] => destruct (parse_uint b v)
  | |- context [parse_mode ?v] => destruct (parse_mode v)
  | |- context [parse_ssrc ?v] => destruct (parse_ssrc v)
  end;
  cbn [option_map]; rewrite ?Ca, ?Cb; cbn [option_map t_delivery set_prof set_delivery set_source set_dest set_interleaved set_ttl set_ports set_cports set_sports set_ssrc set_mode];
  try (destruct pf); try (destruct f3); try (destruct va; destruct vb); try reflexivity.
Qed.

Theorem transport_fixed_deterministic s o1 o2 :
  is_perm o1 -> is_perm o2 -> transport_unmarshal_fixed o1 s = transport_unmarshal_fixed o2 s.
Proof.
  intros H1 H2. unfold transport_unmarshal_fixed.
  destruct (kv_parse s SEMI) as [m|] eqn:E; [|reflexivity].
  rewrite (ofold_order_indep tstep_fixed m o1 o2 H1 H2 (kv_parse_keys _ _ _ E)); [reflexivity|].
  intros a b _ _. apply tstep_fixed_commute.
Qed.

(* the F7 witness is now rejected in both orders *)
Example f7_fixed : transport_unmarshal_fixed id_order f7_transport = Err /\ transport_unmarshal_fixed (@rev _) f7_transport = Err.
Proof. split; vm_compute; reflexivity. Qed.

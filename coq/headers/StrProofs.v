(* Lemmas about Str.v *)
From Coq Require Import ZifyBool ZifyNat ZifyN.
From GVL Require Import NList.
From GV Require Import Res Str.
Open Scope N_scope.

Lemma list_eqb_spec a b : list_eqb a b = true <-> a = b.
Proof.
  revert b; induction a as [|x a IH]; intros [|y b]; cbn [list_eqb]; split; intros H; try reflexivity; try discriminate.
  - apply andb_true_iff in H as [H1 H2]. apply N.eqb_eq in H1. apply IH in H2. now subst.
  - inversion H; subst. rewrite N.eqb_refl. cbn. now apply IH.
Qed.
Lemma list_eqb_refl a : list_eqb a a = true.
Proof. now apply list_eqb_spec. Qed.
Lemma list_eqb_neq a b : list_eqb a b = false <-> a <> b.
Proof.
  split; intros H.
  - intros E. apply list_eqb_spec in E. congruence.
  - destruct (list_eqb a b) eqn:E; [|reflexivity]. apply list_eqb_spec in E. contradiction.
Qed.
Lemma list_eqb_sym a b : list_eqb a b = list_eqb b a.
Proof.
  destruct (list_eqb a b) eqn:E.
  - apply list_eqb_spec in E. subst. now rewrite list_eqb_refl.
  - symmetry. apply list_eqb_neq. apply list_eqb_neq in E. congruence.
Qed.

(* ---- span / split ---- *)
Lemma span_all p l : forallb p l = true -> span p l = (l, []).
Proof.
  induction l as [|x t IH]; cbn [forallb span]; intros H; [reflexivity|].
  apply andb_true_iff in H as [H1 H2]. rewrite H1, (IH H2). reflexivity.
Qed.
Lemma span_stop p a x r : forallb p a = true -> p x = false -> span p (a ++ x :: r) = (a, x :: r).
Proof.
  induction a as [|y t IH]; cbn [forallb app span]; intros H Hx.
  - now rewrite Hx.
  - apply andb_true_iff in H as [H1 H2]. rewrite H1, (IH H2 Hx). reflexivity.
Qed.
Lemma span_app p l : fst (span p l) ++ snd (span p l) = l.
Proof.
  induction l as [|x t IH]; cbn [span]; [reflexivity|].
  destruct (p x); [|reflexivity]. destruct (span p t) as [a b]. cbn [fst snd app] in *. now rewrite IH.
Qed.
Lemma span_len p l : nlen (snd (span p l)) <= nlen l.
Proof.
  rewrite <- (span_app p l) at 2. rewrite nlen_app. lia.
Qed.

Definition nosep (sep : N) (l : list N) : bool := forallb (fun c => negb (c =? sep)) l.

Lemma split_on_clean sep a : nosep sep a = true -> split_on sep a = [a].
Proof.
  induction a as [|x t IH]; cbn [nosep forallb split_on]; intros H; [reflexivity|].
  apply andb_true_iff in H as [H1 H2]. apply negb_true_iff in H1. rewrite H1.
  fold (nosep sep t) in H2. now rewrite (IH H2).
Qed.
Lemma split_on_cons sep a b : nosep sep a = true -> split_on sep (a ++ sep :: b) = a :: split_on sep b.
Proof.
  induction a as [|x t IH]; cbn [nosep forallb app split_on]; intros H.
  - now rewrite N.eqb_refl.
  - apply andb_true_iff in H as [H1 H2]. apply negb_true_iff in H1. rewrite H1.
    fold (nosep sep t) in H2. now rewrite (IH H2).
Qed.
Lemma split_on_nonnil sep l : split_on sep l <> [].
Proof. destruct l as [|x t]; cbn [split_on]; [discriminate|]. destruct (x =? sep); [discriminate|]. destruct (split_on sep t); discriminate. Qed.

Lemma nosep_app sep a b : nosep sep (a ++ b) = nosep sep a && nosep sep b.
Proof. unfold nosep. apply forallb_app. Qed.

Lemma drop_while_stop p x r : p x = false -> drop_while p (x :: r) = x :: r.
Proof. intros H. cbn [drop_while]. now rewrite H. Qed.
Lemma drop_while_all p a r : forallb p a = true -> drop_while p (a ++ r) = drop_while p r.
Proof.
  induction a as [|y t IH]; cbn [forallb app drop_while]; intros H; [reflexivity|].
  apply andb_true_iff in H as [H1 H2]. rewrite H1. now apply IH.
Qed.
Lemma drop_while_len p l : nlen (drop_while p l) <= nlen l.
Proof.
  induction l as [|x t IH]; cbn [drop_while nlen]; [lia|]. destruct (p x); cbn [nlen]; lia.
Qed.

Lemma cut_found sep a b : nosep sep a = true -> cut sep (a ++ sep :: b) = Some (a, b).
Proof.
  intros H. unfold cut. rewrite (span_stop _ a sep b); [reflexivity|exact H|]. now rewrite N.eqb_refl.
Qed.
Lemma cut_none sep a : nosep sep a = true -> cut sep a = None.
Proof. intros H. unfold cut. now rewrite (span_all _ a H). Qed.

(* ---- decimal ---- *)
Definition all_digits (l : list N) : bool := forallb is_digit l.

Lemma digits_val_app a b acc : digits_val (a ++ b) acc = digits_val b (digits_val a acc).
Proof. revert acc; induction a as [|x t IH]; intros acc; cbn [app digits_val]; [reflexivity|]. apply IH. Qed.

(* simpler: value from 0 *)
Lemma dec_aux_val0 fuel : forall n acc, n < 2 ^ N.of_nat fuel ->
  digits_val (dec_aux fuel n acc) 0 = digits_val acc n.
Proof.
  induction fuel as [|f IH]; intros n acc Hn.
  - cbn [dec_aux]. replace n with 0 by (cbn in Hn; lia). reflexivity.
  - cbn [dec_aux]. destruct (N.ltb_spec n 10) as [Hlt|Hge].
    + cbn [digits_val]. f_equal. rewrite N.mod_small by lia. lia.
    + rewrite IH.
      * cbn [digits_val]. f_equal. pose proof (N.div_mod n 10). lia.
      * rewrite Nat2N.inj_succ, N.pow_succ_r' in Hn. apply N.div_lt_upper_bound; lia.
Qed.

Lemma dec_aux_digits fuel : forall n acc, all_digits acc = true -> all_digits (dec_aux fuel n acc) = true.
Proof.
  induction fuel as [|f IH]; intros n acc Ha; cbn [dec_aux]; [exact Ha|].
  assert (Hd : is_digit (48 + n mod 10) = true).
  { unfold is_digit. pose proof (N.mod_upper_bound n 10). lia. }
  destruct (n <? 10).
  - cbn [all_digits forallb]. now rewrite Hd.
  - apply IH. cbn [all_digits forallb]. now rewrite Hd.
Qed.
Lemma dec_aux_nonnil fuel n acc : dec_aux (S fuel) n acc <> [].
Proof.
  revert n acc; induction fuel as [|f IH]; intros n acc; cbn [dec_aux].
  - destruct (n <? 10); discriminate.
  - destruct (n <? 10); [discriminate|]. apply (IH (n / 10)).
Qed.

Lemma log2_fuel n : n < 2 ^ N.of_nat (S (N.to_nat (N.log2 n))).
Proof.
  rewrite Nat2N.inj_succ, N2Nat.id. destruct (N.eq_dec n 0) as [->|Hn]; [cbn; lia|].
  apply N.log2_spec. lia.
Qed.

Lemma fmt_uint_val n : digits_val (fmt_uint n) 0 = n.
Proof. unfold fmt_uint. rewrite dec_aux_val0; [reflexivity|apply log2_fuel]. Qed.
Lemma fmt_uint_digits n : all_digits (fmt_uint n) = true.
Proof. unfold fmt_uint. now apply dec_aux_digits. Qed.
Lemma fmt_uint_nonnil n : fmt_uint n <> [].
Proof. unfold fmt_uint. apply dec_aux_nonnil. Qed.

Lemma parse_fmt_uint bits n : n < 2 ^ bits -> parse_uint bits (fmt_uint n) = Some n.
Proof.
  intros H. unfold parse_uint. pose proof (fmt_uint_nonnil n) as Hnn.
  destruct (fmt_uint n) as [|c t] eqn:E; [congruence|]. rewrite <- E.
  pose proof (fmt_uint_digits n) as Hd. unfold all_digits in Hd. rewrite Hd, fmt_uint_val.
  destruct (N.ltb_spec n (2 ^ bits)); [reflexivity|lia].
Qed.

Lemma digits_nosep sep l : all_digits l = true -> is_digit sep = false -> nosep sep l = true.
Proof.
  intros H Hs. induction l as [|x t IH]; [reflexivity|]. cbn [all_digits forallb nosep] in *.
  apply andb_true_iff in H as [H1 H2]. fold (nosep sep t). rewrite (IH H2), andb_true_r.
  apply negb_true_iff. apply N.eqb_neq. intros ->. congruence.
Qed.

(* ---- hex ---- *)
Fixpoint upto (n : nat) : list N := match n with O => [] | S k => upto k ++ [N.of_nat k] end.
Lemma upto_in n x : x < N.of_nat n -> In x (upto n).
Proof.
  induction n as [|k IH]; intros H; [lia|]. cbn [upto]. apply in_or_app.
  destruct (N.eq_dec x (N.of_nat k)) as [->|Hne]; [right; now left|left; apply IH; lia].
Qed.
Lemma forall_upto (P : N -> bool) n : forallb P (upto n) = true -> forall x, x < N.of_nat n -> P x = true.
Proof. intros H x Hx. rewrite forallb_forall in H. apply H, upto_in, Hx. Qed.

Lemma hex_val_upper d : d < 16 -> hex_val (hex_digit_upper d) = Some d.
Proof.
  intros H.
  assert (E : forallb (fun d => match hex_val (hex_digit_upper d) with Some x => x =? d | None => false end) (upto 16) = true) by (vm_compute; reflexivity).
  pose proof (forall_upto _ 16 E d H) as Hd. cbn beta in Hd.
  destruct (hex_val (hex_digit_upper d)); [|discriminate]. apply N.eqb_eq in Hd. now subst.
Qed.

Lemma hex_decode_encode bs : bytes_ok bs -> hex_decode (hex_encode_upper bs) = Some bs.
Proof.
  intros H. induction H as [|b t Hb Ht IH]; [reflexivity|].
  unfold hex_encode_upper in *. cbn [flat_map app]. cbn [hex_decode].
  rewrite !hex_val_upper by (rewrite ?N.mod_small by lia; try apply N.div_lt_upper_bound; lia).
  rewrite IH. do 2 f_equal. rewrite N.mod_small by lia. pose proof (N.div_mod b 16). lia.
Qed.
Lemma hex_encode_len bs : nlen (hex_encode_upper bs) = 2 * nlen bs.
Proof. induction bs as [|b t IH]; [reflexivity|]. unfold hex_encode_upper in *. cbn [flat_map app nlen]. rewrite IH. lia. Qed.
Lemma hex_digit_upper_notsp d : hex_digit_upper d <> 32.
Proof. unfold hex_digit_upper. destruct (d <? 10); lia. Qed.

Lemma be4_bytes x : bytes_ok (be4 x).
Proof. unfold be4, bytes_ok. repeat constructor; apply N.mod_upper_bound; lia. Qed.
Lemma be_val_be4 x : x < 4294967296 -> be_val (be4 x) = x.
Proof.
  intros H. unfold be_val, be4. cbn [fold_left].
  Local Ltac Zify.zify_post_hook ::= Z.div_mod_to_equations.
  lia.
Qed.

(* ---- base64 ---- *)
Lemma b64_val_char v : v < 64 -> b64_val (b64_char v) = Some v.
Proof.
  intros H.
  assert (E : forallb (fun d => match b64_val (b64_char d) with Some x => x =? d | None => false end) (upto 64) = true) by (vm_compute; reflexivity).
  pose proof (forall_upto _ 64 E v H) as Hd. cbn beta in Hd.
  destruct (b64_val (b64_char v)); [|discriminate]. apply N.eqb_eq in Hd. now subst.
Qed.
Lemma b64_val_pad : b64_val PAD = None.
Proof. reflexivity. Qed.
Lemma b64_char_not_crlf v : v < 64 -> is_crlf (b64_char v) = false.
Proof.
  intros H.
  assert (E : forallb (fun d => negb (is_crlf (b64_char d))) (upto 64) = true) by (vm_compute; reflexivity).
  pose proof (forall_upto _ 64 E v H) as Hd. cbn beta in Hd. now apply negb_true_iff in Hd.
Qed.

Ltac b64_bounds :=
  repeat match goal with
  | |- context [?a / ?b] => lazymatch goal with | _ : a / b < _ |- _ => fail | _ => idtac end;
      assert (a / b < 256) by (apply N.div_lt_upper_bound; lia)
  end.

Lemma b64_roundtrip_clean l : bytes_ok l -> b64_decode_clean (b64_encode l) = Some l.
Proof.
  Local Ltac Zify.zify_post_hook ::= Z.div_mod_to_equations.
  revert l. fix IH 1. intros l H.
  destruct l as [|a [|b [|c t]]].
  - reflexivity.
  - inversion H as [|? ? Ha _]; subst. cbn [b64_encode b64_decode_clean].
    rewrite !b64_val_char by lia. rewrite b64_val_pad. cbn [N.eqb PAD Pos.eqb andb].
    f_equal. f_equal. lia.
  - inversion H as [|? ? Ha H1]; subst. inversion H1 as [|? ? Hb _]; subst.
    cbn [b64_encode b64_decode_clean].
    rewrite !b64_val_char by lia. rewrite b64_val_pad. cbn [N.eqb PAD Pos.eqb].
    f_equal. f_equal; [lia|f_equal; lia].
  - inversion H as [|? ? Ha H1]; subst. inversion H1 as [|? ? Hb H2]; subst. inversion H2 as [|? ? Hc H3]; subst.
    cbn [b64_encode b64_decode_clean].
    rewrite !b64_val_char by lia. rewrite (IH t H3).
    f_equal. f_equal; [lia|f_equal; [lia|f_equal; lia]].
Qed.

Lemma b64_encode_no_crlf l : bytes_ok l -> filter (fun c => negb (is_crlf c)) (b64_encode l) = b64_encode l.
Proof.
  Local Ltac Zify.zify_post_hook ::= Z.div_mod_to_equations.
  revert l. fix IH 1. intros l H.
  destruct l as [|a [|b [|c t]]].
  - reflexivity.
  - inversion H as [|? ? Ha _]; subst. cbn [b64_encode filter].
    rewrite !b64_char_not_crlf by lia. reflexivity.
  - inversion H as [|? ? Ha H1]; subst. inversion H1 as [|? ? Hb _]; subst. cbn [b64_encode filter].
    rewrite !b64_char_not_crlf by lia. reflexivity.
  - inversion H as [|? ? Ha H1]; subst. inversion H1 as [|? ? Hb H2]; subst. inversion H2 as [|? ? Hc H3]; subst.
    cbn [b64_encode filter]. rewrite !b64_char_not_crlf by lia. cbn [negb]. now rewrite (IH t H3).
Qed.

Lemma b64_roundtrip l : bytes_ok l -> b64_decode (b64_encode l) = Some l.
Proof. intros H. unfold b64_decode. rewrite b64_encode_no_crlf by exact H. now apply b64_roundtrip_clean. Qed.

(* the encoded text contains no double quote and no semicolon / comma (needed inside quoted values) *)
Lemma b64_char_plain v : v < 64 -> negb (b64_char v =? 34) = true.
Proof.
  intros H.
  assert (E : forallb (fun d => negb (b64_char d =? 34)) (upto 64) = true) by (vm_compute; reflexivity).
  exact (forall_upto _ 64 E v H).
Qed.
Lemma b64_encode_noquote l : bytes_ok l -> nosep 34 (b64_encode l) = true.
Proof.
  Local Ltac Zify.zify_post_hook ::= Z.div_mod_to_equations.
  revert l. fix IH 1. intros l H.
  destruct l as [|a [|b [|c t]]].
  - reflexivity.
  - inversion H as [|? ? Ha _]; subst. cbn [b64_encode nosep forallb].
    rewrite !b64_char_plain by lia. reflexivity.
  - inversion H as [|? ? Ha H1]; subst. inversion H1 as [|? ? Hb _]; subst. cbn [b64_encode nosep forallb].
    rewrite !b64_char_plain by lia. reflexivity.
  - inversion H as [|? ? Ha H1]; subst. inversion H1 as [|? ? Hb H2]; subst. inversion H2 as [|? ? Hc H3]; subst.
    cbn [b64_encode nosep forallb]. rewrite !b64_char_plain by lia. cbn [andb]. exact (IH t H3).
Qed.

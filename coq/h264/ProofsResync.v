(* rtph264: resynchronisation after arbitrary damage (C07).
   After ANY packet history, one intact access unit leaves the decoder "settled": nothing of earlier
   frames is left, except that the unit itself may still be held (when the history left the frame
   buffer non-empty and the unit was a single batch: the timestamp flush ignores the marker).
   From a settled state the next intact unit is returned at its last packet, or held the same way
   and returned by the packet that completes the first NAL unit of the following frame. *)
From GVL Require Import NList Wire Chunks Rtp.
From GVG Require Import Consts.
From GV_h264 Require Import Model ProofsEnc ProofsDec ProofsRound.
From Coq Require Import ZifyBool ZifyNat ZifyN.
Open Scope N_scope.

Definition fbI (d : dstate) : Prop :=
  dfblen d = nlen (dfb d) /\ dfbsize d = sum_len (dfb d) /\ nlen (dfb d) <= maxn /\ sum_len (dfb d) <= cap.
Definition fclear (d : dstate) : Prop := dfrags d = [] /\ dfsize d = 0.
(* the access unit [au] (timestamp ts) is complete in the frame buffer, waiting for the next timestamp *)
Definition pending (au : list bytes) (ts : N) (d : dstate) : Prop :=
  fclear d /\ fbI d /\ dfb d = au /\ dfbts d = ts /\ au <> [].
Definition settled (au : list bytes) (ts : N) (d : dstate) : Prop := clean d \/ pending au ts d.

Lemma inv_fbI P s d : Inv P s d -> fbI d.
Proof. intros (_ & _ & _ & H4 & H5 & H6 & H7). unfold fbI. repeat split; lia. Qed.

Lemma clean_of d : fclear d -> fbI d -> dfb d = [] -> clean d.
Proof.
  intros [F1 F2] (B1 & B2 & _ & _) E. unfold clean. rewrite E in *. cbn [nlen sum_len] in *. tauto.
Qed.

(* ---------- what Decode does with the NAL units of one valid batch, from any frame-buffer state ---------- *)
Inductive post_case (d : dstate) (b : list bytes) (ts : N) (m : bool) (d2 : dstate) (r : dres (list bytes)) : Prop :=
| PC_flush : dfb d <> [] -> dfbts d <> ts -> dfb d2 = b -> dfbts d2 = ts -> r = DFrame (dfb d) -> post_case d b ts m d2 r
| PC_fail : (dfb d = [] \/ dfbts d = ts) -> dfb d2 = [] -> r = DErr -> post_case d b ts m d2 r
| PC_more : (dfb d = [] \/ dfbts d = ts) -> m = false -> dfb d2 = dfb d ++ b -> dfbts d2 = ts -> r = DMore -> post_case d b ts m d2 r
| PC_frame : (dfb d = [] \/ dfbts d = ts) -> m = true -> dfb d2 = [] -> r = DFrame (dfb d ++ b) -> post_case d b ts m d2 r.

Lemma post_cases d nx b ts m : fbI d -> nlen b <= maxn -> sum_len b <= cap ->
  fclear (fst (post (clear_frags d nx, NOk b) ts m)) /\ fbI (fst (post (clear_frags d nx, NOk b) ts m)) /\
  post_case d b ts m (fst (post (clear_frags d nx, NOk b) ts m)) (snd (post (clear_frags d nx, NOk b) ts m)).
Proof.
  intros (B1 & B2 & B3 & B4) Hn Hc. unfold post.
  change (dfb (clear_frags d nx)) with (dfb d). change (dfbts (clear_frags d nx)) with (dfbts d).
  assert (Hzero : 0 <= maxn /\ 0 <= cap) by (split; lia).
  destruct (is_nil (dfb d)) eqn:En; cbn [negb andb].
  2: destruct (N.eqb_spec ts (dfbts d)) as [Et|Et]; cbn [negb].
  - (* buffer empty *)
    assert (E : dfb d = []) by (destruct (dfb d); [reflexivity|discriminate]).
    unfold add_fb.
    change (dfblen (clear_frags d nx)) with (dfblen d). change (dfbsize (clear_frags d nx)) with (dfbsize d).
    change (dfb (clear_frags d nx)) with (dfb d).
    rewrite E in *. cbn [nlen sum_len] in *.
    destruct (N.ltb_spec maxn (dfblen d + nlen b)); [lia|]. destruct (N.ltb_spec cap (dfbsize d + sum_len b)); [lia|].
    destruct m; cbn [negb fst snd].
    + split; [split; reflexivity|]. split; [unfold fbI; cbn; repeat split; lia|].
      apply PC_frame; [left; assumption|reflexivity|reflexivity|cbn; now rewrite E].
    + split; [split; reflexivity|]. split.
      * unfold fbI; cbn [set_fb dfb dfblen dfbsize app]. repeat split; lia.
      * apply PC_more; [left; assumption|reflexivity|cbn; now rewrite E|reflexivity|reflexivity].
  - (* same timestamp *)
    unfold add_fb.
    change (dfblen (clear_frags d nx)) with (dfblen d). change (dfbsize (clear_frags d nx)) with (dfbsize d).
    change (dfb (clear_frags d nx)) with (dfb d).
    destruct (N.ltb_spec maxn (dfblen d + nlen b)); cbn [fst snd].
    { split; [split; reflexivity|]. split; [unfold fbI; cbn; repeat split; lia|].
      apply PC_fail; [right; congruence|reflexivity|reflexivity]. }
    destruct (N.ltb_spec cap (dfbsize d + sum_len b)); cbn [fst snd].
    { split; [split; reflexivity|]. split; [unfold fbI; cbn; repeat split; lia|].
      apply PC_fail; [right; congruence|reflexivity|reflexivity]. }
    destruct m; cbn [negb fst snd].
    + split; [split; reflexivity|]. split; [unfold fbI; cbn; repeat split; lia|].
      apply PC_frame; [right; congruence|reflexivity|reflexivity|reflexivity].
    + split; [split; reflexivity|]. split.
      * unfold fbI; cbn [set_fb dfb dfblen dfbsize]. rewrite nlen_app, sum_len_app. repeat split; lia.
      * apply PC_more; [right; congruence|reflexivity|reflexivity|reflexivity|reflexivity].
  - (* other timestamp: flush, the marker is not looked at *)
    assert (Hne : dfb d <> []) by (destruct (dfb d); [discriminate|discriminate]).
    unfold add_fb. cbn [reset_fb clear_frags set_frags dfb dfblen dfbsize dfrags dfsize dnext dannexb dfbts].
    destruct (N.ltb_spec maxn (0 + nlen b)); [lia|]. destruct (N.ltb_spec cap (0 + sum_len b)); [lia|].
    cbn [fst snd]. split; [split; reflexivity|]. split.
    + unfold fbI; cbn [set_fb dfb dfblen dfbsize app]. repeat split; lia.
    + apply PC_flush; [assumption|congruence|reflexivity|reflexivity|reflexivity].
Qed.

(* ---------- T1: an intact access unit absorbs any earlier damage ---------- *)
(* the remaining batches, once the frame buffer is empty or carries this unit's timestamp *)
Lemma absorb_tail max ts : 3 <= max -> max <= 65538 -> forall bs d s, bs <> [] ->
  Forall (batch_ok max) bs -> s < 65536 -> fbI d -> (dfb d = [] \/ dfbts d = ts) ->
  exists protos, write_batches max bs = Some protos /\
    clean (fst (dec_run d (set_ts ts (number s protos)))).
Proof.
  intros Hm HM. induction bs as [|b t IH]; intros d s Hne Hall Hs Hfb Hts; [contradiction|].
  inversion Hall as [|? ? Hb Ht]; subst. cbn [write_batches].
  pose proof Hb as (_ & _ & _ & Hbs & Hbn).
  destruct t as [|b2 t2].
  - destruct (batch_run max true b ts d s Hm HM Hb Hs) as (protos & nx & -> & _ & Hrun).
    exists protos. split; [reflexivity|]. rewrite Hrun.
    destruct (post_cases d nx b ts true Hfb Hbn Hbs) as (F & B & C).
    destruct (post (clear_frags d nx, NOk b) ts true) as [d2 r]. cbn [fst snd] in *.
    destruct C as [H1 H2 _ _ _|_ H2 _|_ H2 _ _ _|_ _ H2 _]; try discriminate.
    + exfalso. destruct Hts as [E|E]; [contradiction|]. now apply H2.
    + now apply clean_of.
    + now apply clean_of.
  - destruct (batch_run max false b ts d s Hm HM Hb Hs) as (x & nx & -> & _ & Hrun).
    destruct (post_cases d nx b ts false Hfb Hbn Hbs) as (F & B & C).
    destruct (post (clear_frags d nx, NOk b) ts false) as [d2 r] eqn:Ep. cbn [fst snd] in *.
    destruct (IH d2 (seq_add s (nlen x))) as (y & -> & Hcl).
    + discriminate.
    + assumption.
    + apply seq_add_lt.
    + assumption.
    + destruct C as [H1 H2 _ _ _|_ H2 _|_ _ _ H2 _|_ H2 _ _]; try discriminate.
      * exfalso. destruct Hts as [E|E]; [contradiction|]. now apply H2.
      * left; assumption.
      * right; assumption.
    + exists (x ++ y). split; [reflexivity|].
      rewrite number_app by assumption. rewrite set_ts_app, dec_run_app, Hrun.
      destruct (dec_run d2 _) as [d3 rs3]. cbn [fst] in *. exact Hcl.
Qed.

Lemma absorb_batches max ts : 3 <= max -> max <= 65538 -> forall bs d s, bs <> [] ->
  Forall (batch_ok max) bs -> s < 65536 -> fbI d ->
  exists protos, write_batches max bs = Some protos /\
    settled (concat bs) ts (fst (dec_run d (set_ts ts (number s protos)))).
Proof.
  intros Hm HM bs d s Hne Hall Hs Hfb. destruct bs as [|b t]; [contradiction|].
  inversion Hall as [|? ? Hb Ht]; subst. cbn [write_batches].
  pose proof Hb as (Hbne & _ & _ & Hbs & Hbn).
  destruct t as [|b2 t2].
  - destruct (batch_run max true b ts d s Hm HM Hb Hs) as (protos & nx & -> & _ & Hrun).
    exists protos. split; [reflexivity|]. rewrite Hrun.
    destruct (post_cases d nx b ts true Hfb Hbn Hbs) as (F & B & C).
    destruct (post (clear_frags d nx, NOk b) ts true) as [d2 r]. cbn [fst snd concat] in *. rewrite app_nil_r.
    destruct C as [_ _ H3 H4 _|_ H2 _|_ H2 _ _ _|_ _ H2 _]; try discriminate.
    + right. unfold pending. tauto.
    + left. now apply clean_of.
    + left. now apply clean_of.
  - destruct (batch_run max false b ts d s Hm HM Hb Hs) as (x & nx & -> & _ & Hrun).
    destruct (post_cases d nx b ts false Hfb Hbn Hbs) as (F & B & C).
    destruct (post (clear_frags d nx, NOk b) ts false) as [d2 r] eqn:Ep. cbn [fst snd] in *.
    destruct (absorb_tail max ts Hm HM (b2 :: t2) d2 (seq_add s (nlen x))) as (y & -> & Hcl).
    + discriminate.
    + assumption.
    + apply seq_add_lt.
    + assumption.
    + destruct C as [_ _ _ H4 _|_ H2 _|_ _ _ H2 _|_ H2 _ _]; try discriminate.
      * right; assumption.
      * left; assumption.
      * right; assumption.
    + exists (x ++ y). split; [reflexivity|].
      rewrite number_app by assumption. rewrite set_ts_app, dec_run_app, Hrun.
      destruct (dec_run d2 _) as [d3 rs3]. cbn [fst] in *. left. exact Hcl.
Qed.

Theorem absorb max hist au ts s : 3 <= max -> max <= 65538 -> s < 65536 -> valid_frame au ->
  exists ps seq', enc max s au = Some (ps, seq') /\
    settled au ts (fst (dec_run (fst (dec_run dinit hist)) (set_ts ts ps))).
Proof.
  intros Hm HM Hs Hv.
  destruct (hist_bound hist) as [P HP].
  pose proof (dec_run_inv P false hist dinit (inv_init _ _) HP) as (HI & _ & _).
  pose proof (batches_valid max au Hm Hv) as Hb.
  pose proof (batches_concat max au []) as Hcat. cbn [app] in Hcat.
  destruct (absorb_batches max ts Hm HM (batches max [] au) (fst (dec_run dinit hist)) s) as (protos & Hw & Hst).
  - apply batches_ne.
  - assumption.
  - assumption.
  - eapply inv_fbI; eassumption.
  - unfold enc, enc_protos. rewrite Hw. eexists. eexists. split; [reflexivity|]. now rewrite Hcat in Hst.
Qed.

(* ---------- T2: the next intact access unit, from a settled state ---------- *)
Lemma post_flush d nx b ts m : fbI d -> dfb d <> [] -> dfbts d <> ts -> nlen b <= maxn -> sum_len b <= cap ->
  exists d2, post (clear_frags d nx, NOk b) ts m = (d2, DFrame (dfb d)) /\
    fclear d2 /\ fbI d2 /\ dfb d2 = b /\ dfbts d2 = ts.
Proof.
  intros Hfb Hne Hts Hn Hc. destruct (post_cases d nx b ts m Hfb Hn Hc) as (F & B & C).
  destruct (post (clear_frags d nx, NOk b) ts m) as [d2 r]. cbn [fst snd] in *.
  exists d2. destruct C as [_ _ H3 H4 ->|[E|E] _ _|[E|E] _ _ _ _|[E|E] _ _ _]; try contradiction.
  repeat split; try assumption; apply F || apply B.
Qed.

(* number of packets of the first batch = 1 iff the first NAL unit is not fragmented *)
Definition first_len (au : list bytes) : N := match au with n :: _ => nlen n | [] => 0 end.

Lemma batches_first max : forall au batch,
  match batches max batch au with
  | b1 :: _ => match batch with
               | n :: _ => exists r, b1 = n :: r
               | [] => match au with n :: _ => exists r, b1 = n :: r | [] => b1 = [] end
               end
  | [] => False
  end.
Proof.
  induction au as [|n t IH]; intros batch; cbn [batches].
  - destruct batch; [reflexivity|eexists; reflexivity].
  - destruct (len_agg batch + 2 + nlen n <=? max).
    + specialize (IH (batch ++ [n])). destruct (batches max (batch ++ [n]) t) as [|b1 r]; [assumption|].
      destruct batch as [|x xs]; cbn [app] in IH; exact IH.
    + destruct batch as [|x xs].
      * specialize (IH [n]). destruct (batches max [n] t); assumption.
      * eexists; reflexivity.
Qed.

Lemma write_batch_first_len max m b n r : 3 <= max -> b = n :: r -> ok_batch max b ->
  forall x, write_batch max m b = Some x -> nlen n < max -> length x = 1%nat.
Proof.
  intros Hm -> Hok x Hx Hlt. unfold write_batch in Hx. destruct r as [|n2 r2].
  - destruct (N.ltb_spec (nlen n) max); [|lia]. injection Hx as <-. reflexivity.
  - injection Hx as <-. reflexivity.
Qed.

Theorem resync_next max au1 ts1 au2 ts2 d1 s : 3 <= max -> max <= 65538 -> s < 65536 ->
  valid_frame au2 -> settled au1 ts1 d1 -> ts1 <> ts2 ->
  exists ps seq' d2 rs, enc max s au2 = Some (ps, seq') /\ dec_run d1 (set_ts ts2 ps) = (d2, rs) /\
    ((clean d1 /\ rs = repeat DMore (length ps - 1) ++ [DFrame au2] /\ clean d2) \/
     (pending au1 ts1 d1 /\ exists k1, (1 <= k1 <= length ps)%nat /\
        (first_len au2 < max -> k1 = 1%nat) /\
        ((k1 = length ps /\ rs = repeat DMore (k1 - 1) ++ [DFrame au1] /\ pending au2 ts2 d2) \/
         (k1 < length ps /\ clean d2 /\
          rs = repeat DMore (k1 - 1) ++ [DFrame au1] ++ repeat DMore (length ps - k1 - 1) ++ [DFrame au2]))%nat)).
Proof.
  intros Hm HM Hs Hv Hst Hts. destruct Hst as [Hcl|Hpd].
  - destruct (roundtrip max s ts2 au2 d1 Hm HM Hs Hv Hcl) as (ps & seq' & d2 & He & Hr & Hc2).
    exists ps, seq', d2. eexists. split; [eassumption|]. split; [eassumption|]. left. tauto.
  - pose proof (batches_valid max au2 Hm Hv) as Hb.
    pose proof (batches_concat max au2 []) as Hcat. cbn [app] in Hcat.
    pose proof (batches_first max au2 []) as Hfirst.
    destruct Hpd as (F1 & B1 & E1 & T1 & N1).
    unfold enc, enc_protos. remember (batches max [] au2) as bs eqn:Ebs.
    destruct bs as [|b t]; [contradiction|].
    pose proof (Forall_inv Hb) as Hb1. pose proof (Forall_inv_tail Hb) as Ht. cbn [write_batches].
    pose proof Hb1 as (Hbne & _ & Hbok & Hbs & Hbn).
    assert (Hk1 : forall m x, write_batch max m b = Some x -> first_len au2 < max -> length x = 1%nat).
    { intros m x Hx Hlt. destruct Hv as (Hne2 & _). destruct au2 as [|n0 r0]; [contradiction|].
      destruct Hfirst as [r Hr]. cbn [first_len] in Hlt. eapply write_batch_first_len; eassumption. }
    destruct t as [|b2 t2].
    + destruct (batch_run max true b ts2 d1 s Hm HM Hb1 Hs) as (protos & nx & Hw & Hpne & Hrun).
      rewrite Hw. destruct (post_flush d1 nx b ts2 true B1) as (d2 & Hp & F2 & B2 & E2 & T2);
        [rewrite E1; assumption|rewrite T1; assumption|assumption|assumption|].
      rewrite Hp in Hrun. eexists. eexists. exists d2. eexists. split; [reflexivity|].
      rewrite number_length. split; [exact Hrun|]. right.
      split; [unfold pending; tauto|]. exists (length protos). split; [destruct protos; [contradiction|cbn; lia]|].
      split; [intros Hlt; eapply Hk1; eassumption|]. left. rewrite E1. split; [reflexivity|]. split; [reflexivity|].
      cbn [concat] in Hcat. rewrite app_nil_r in Hcat. subst b.
      unfold pending. destruct Hv as (Hne2 & _). tauto.
    + destruct (batch_run max false b ts2 d1 s Hm HM Hb1 Hs) as (x & nx & Hw & Hxne & Hrun).
      rewrite Hw. destruct (post_flush d1 nx b ts2 false B1) as (d2 & Hp & F2 & B2 & E2 & T2);
        [rewrite E1; assumption|rewrite T1; assumption|assumption|assumption|].
      rewrite Hp in Hrun.
      destruct Hv as (Hne2 & Hn2 & Hc2 & Hvn2). cbn [concat] in Hcat.
      assert (Hnl : nlen au2 = nlen b + nlen (concat (b2 :: t2))) by (rewrite <- Hcat, nlen_app; reflexivity).
      assert (Hsl : sum_len au2 = sum_len b + sum_len (concat (b2 :: t2))) by (rewrite <- Hcat, sum_len_app; reflexivity).
      destruct (batches_run max ts2 Hm HM (b2 :: t2) d2 (seq_add s (nlen x))) as (y & d3 & Hw2 & Hyne & Hrun2 & Hcl3).
      * discriminate.
      * assumption.
      * apply seq_add_lt.
      * destruct B2 as (Q1 & Q2 & _). split; assumption.
      * right; assumption.
      * rewrite E2. lia.
      * rewrite E2. lia.
      * rewrite Hw2. eexists. eexists. exists d3. eexists. split; [reflexivity|].
        rewrite number_length. rewrite number_app by assumption.
        rewrite set_ts_app, dec_run_app, Hrun, Hrun2. split; [reflexivity|]. right.
        split; [unfold pending; tauto|]. exists (length x).
        assert (1 <= length x)%nat by (destruct x; [contradiction|cbn; lia]).
        assert (1 <= length y)%nat by (destruct y; [contradiction|cbn; lia]).
        rewrite app_length. split; [lia|]. split; [intros Hlt; eapply Hk1; eassumption|]. right.
        split; [lia|]. split; [assumption|]. rewrite E1, E2. change (concat (b2 :: t2)) with (b2 ++ concat t2). rewrite Hcat, <- app_assoc.
        replace (length x + length y - length x - 1)%nat with (length y - 1)%nat by lia. reflexivity.
Qed.

(* arbitrary history, then two intact access units with different timestamps *)
Theorem resync max hist au1 ts1 au2 ts2 s1 s2 : 3 <= max -> max <= 65538 -> s1 < 65536 -> s2 < 65536 ->
  valid_frame au1 -> valid_frame au2 -> ts1 <> ts2 ->
  exists ps1 q1 ps2 q2, enc max s1 au1 = Some (ps1, q1) /\ enc max s2 au2 = Some (ps2, q2) /\
    let d0 := fst (dec_run dinit hist) in
    let d1 := fst (dec_run d0 (set_ts ts1 ps1)) in
    let '(d2, rs) := dec_run d1 (set_ts ts2 ps2) in
    (rs = repeat DMore (length ps2 - 1) ++ [DFrame au2] /\ clean d2) \/
    (exists k1, (1 <= k1 <= length ps2)%nat /\ (first_len au2 < max -> k1 = 1%nat) /\
       ((k1 = length ps2 /\ rs = repeat DMore (k1 - 1) ++ [DFrame au1] /\ pending au2 ts2 d2) \/
        (k1 < length ps2 /\ clean d2 /\
         rs = repeat DMore (k1 - 1) ++ [DFrame au1] ++ repeat DMore (length ps2 - k1 - 1) ++ [DFrame au2]))%nat).
Proof.
  intros Hm HM Hs1 Hs2 Hv1 Hv2 Hts.
  destruct (absorb max hist au1 ts1 s1 Hm HM Hs1 Hv1) as (ps1 & q1 & He1 & Hst).
  destruct (resync_next max au1 ts1 au2 ts2 _ s2 Hm HM Hs2 Hv2 Hst Hts) as (ps2 & q2 & d2 & rs & He2 & Hr & Hcase).
  exists ps1, q1, ps2, q2. split; [assumption|]. split; [assumption|]. cbn zeta. rewrite Hr.
  destruct Hcase as [(_ & H1 & H2)|(_ & k1 & H)]; [left; tauto|right; exists k1; exact H].
Qed.

(* ---------- T3: a held access unit is handed over by the next packet that completes a NAL unit ---------- *)
Definition same_fb (d d' : dstate) : Prop :=
  dfb d' = dfb d /\ dfblen d' = dfblen d /\ dfbsize d' = dfbsize d /\ dfbts d' = dfbts d.

Lemma same_fb_refl d : same_fb d d. Proof. unfold same_fb; tauto. Qed.

Lemma finish_nalus_fb d nalus : same_fb d (fst (finish_nalus d nalus)).
Proof.
  unfold finish_nalus, remove_annexb. destruct nalus as [|n [|n2 r]]; try apply same_fb_refl.
  destruct (dannexb d || contains4 n); [|apply same_fb_refl].
  destruct (annexb_unmarshal _); unfold same_fb; cbn; tauto.
Qed.

Lemma finish_frags_fb d : same_fb d (fst (finish_frags d)).
Proof.
  unfold finish_frags. destruct (join _ _) as [j|]; [|apply same_fb_refl].
  destruct (split_nalus j) as [nalus|]; [|apply same_fb_refl].
  pose proof (finish_nalus_fb (reset_frags d) nalus) as H. unfold same_fb in *. cbn in *. exact H.
Qed.

Lemma decode_nalus_fb d p : same_fb d (fst (decode_nalus d p)).
Proof.
  unfold decode_nalus. destruct (ppayload p) as [|b0 pl1]; [unfold same_fb; cbn; tauto|].
  destruct (N.land b0 31 =? t_fua).
  - destruct pl1 as [|b1 data]; [apply same_fb_refl|].
    destruct (N.shiftr b1 7 =? 1).
    + destruct (negb _); [|unfold same_fb; cbn; tauto].
      match goal with |- context [finish_frags ?x] => pose proof (finish_frags_fb x) as H end.
      unfold same_fb in *. cbn in *. exact H.
    + destruct (dfsize d =? 0); [apply same_fb_refl|].
      destruct (negb (pseq p =? dnext d)); [unfold same_fb; cbn; tauto|].
      destruct (cap <? _); [unfold same_fb; cbn; tauto|].
      destruct (negb _); [unfold same_fb; cbn; tauto|].
      match goal with |- context [finish_frags ?x] => pose proof (finish_frags_fb x) as H end.
      unfold same_fb in *. cbn in *. exact H.
  - destruct (N.land b0 31 =? t_stapa).
    + destruct (stapa_walk pl1 pl1 []) as [nalus| |]; try (unfold same_fb; cbn; tauto).
      destruct nalus; [unfold same_fb; cbn; tauto|].
      match goal with |- context [finish_nalus ?x ?y] => pose proof (finish_nalus_fb x y) as H end.
      unfold same_fb in *. cbn in *. exact H.
    + destruct (_ || _); [unfold same_fb; cbn; tauto|].
      match goal with |- context [finish_nalus ?x ?y] => pose proof (finish_nalus_fb x y) as H end.
      unfold same_fb in *. cbn in *. exact H.
Qed.

Theorem pending_flush au ts d p : fbI d -> dfb d = au -> dfbts d = ts -> au <> [] -> pts p <> ts ->
  match snd (decode_nalus d p) with
  | NOk nalus => nlen nalus <= maxn -> sum_len nalus <= cap -> snd (dec d p) = DFrame au
  | NMore => snd (dec d p) = DMore /\ same_fb d (fst (dec d p))
  | NErr => snd (dec d p) = DErr /\ same_fb d (fst (dec d p))
  | NPanic => True
  end.
Proof.
  intros Hfb E T Hne Hts. pose proof (decode_nalus_fb d p) as Hs. unfold dec.
  destruct (decode_nalus d p) as [d1 [nalus| | |]]; cbn [fst snd] in *; try (split; [reflexivity|assumption]); [|exact I].
  intros Hn Hc. destruct Hs as (S1 & S2 & S3 & S4). rewrite S1, S4, E, T.
  assert (En : is_nil au = false) by (destruct au; [contradiction|reflexivity]).
  rewrite En. destruct (N.eqb_spec (pts p) ts); [contradiction|]. cbn [negb andb].
  unfold add_fb. cbn [reset_fb dfblen dfbsize].
  destruct (N.ltb_spec maxn (0 + nlen nalus)); [lia|]. destruct (N.ltb_spec cap (0 + sum_len nalus)); [lia|].
  reflexivity.
Qed.

(* ---------- the frame can be returned later than the first packet of the following frame ---------- *)
(* payload limit 3; history: one unmarked NALU (timestamp 9) that leaves the frame buffer non-empty;
   then three intact access units with timestamps 10, 20, 30.  The third starts with a NALU of 4
   bytes, which is fragmented into 3 FU-A packets: the second unit comes out at the LAST of them. *)
Definition lf_hist : list packet := [mkPkt 7 9 false [1; 170]].
Definition lf_au1 : list bytes := [[1; 171]].
Definition lf_au2 : list bytes := [[1; 172]].
Definition lf_au3 : list bytes := [[1; 173; 174; 175]].

Theorem late_flush_refuted :
  valid_frame lf_au1 /\ valid_frame lf_au2 /\ valid_frame lf_au3 /\
  exists ps1 q1 ps2 q2 ps3 q3,
    enc 3 100 lf_au1 = Some (ps1, q1) /\ enc 3 q1 lf_au2 = Some (ps2, q2) /\ enc 3 q2 lf_au3 = Some (ps3, q3) /\
    length ps3 = 3%nat /\
    snd (dec_run dinit (lf_hist ++ set_ts 10 ps1 ++ set_ts 20 ps2 ++ set_ts 30 ps3)) =
      [DMore; DFrame [[1; 170]]; DFrame lf_au1; DMore; DMore; DFrame lf_au2].
Proof.
  assert (V : forall x, valid_frame [[1; x; 174; 175]] /\ valid_frame [[1; x]]).
  { intros x. unfold valid_frame, valid_nalu, maxn, cap, h264_max_nalus, h264_max_au. cbn [nlen sum_len].
    split; (split; [discriminate|]; split; [lia|]; split; [lia|]; constructor; [|constructor]; split; [reflexivity|]).
    - cbn [find_sc starts01 N.eqb andb option_map]. destruct (x =? 0); reflexivity.
    - cbn [find_sc starts01 N.eqb andb option_map]. destruct (x =? 0); reflexivity. }
  split; [apply V|]. split; [apply V|]. split; [apply (V 173)|].
  do 6 eexists. split; [reflexivity|]. split; [reflexivity|]. split; [reflexivity|]. split; reflexivity.
Qed.

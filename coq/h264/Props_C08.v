(* C08, rtph264 - statements only *)
From GVL Require Import NList Rtp.
From GV_h264 Require Import Model Proofs.
Open Scope N_scope.

(* arbitrary packet sequences - any payload bytes, sequence numbers, timestamps, markers: Decode
   returns a frame, "more" or an error; never a panic, never a loop (out-of-fuel is Panic in the model).
   Covers joinFragments, splitNALUs, the STAP-A walk and mediacommon's AnnexB.Unmarshal. *)
Theorem C08_h264_total : forall hist, ~ In DPanic (snd (dec_run dinit hist)).
Proof. exact total. Qed.
Print Assumptions C08_h264_total.

(* for every history whose packets carry at most P payload bytes: retained bytes (fragments + frame
   buffer) stay below max(MaxAccessUnitSize, P) + MaxAccessUnitSize, the frame buffer holds at most
   MaxNALUsPerAccessUnit slices, and every returned frame has at most MaxNALUsPerAccessUnit NAL units
   and MaxAccessUnitSize bytes *)
Theorem C08_h264_bounded : forall P hist,
  Forall (fun p => nlen (ppayload p) <= P) hist ->
  let '(d, rs) := dec_run dinit hist in
  fst (retained d) <= N.max cap P + cap /\ nlen (dfb d) <= maxn /\
  forall f, In (DFrame f) rs -> nlen f <= maxn /\ sum_len f <= cap.
Proof. exact bounded. Qed.
Print Assumptions C08_h264_bounded.

(* the number of retained slice headers is bounded as long as no packet is a bare 2-byte header ... *)
Theorem C08_h264_slices_bounded_partial : forall P hist,
  Forall (fun p => 2 < nlen (ppayload p) /\ nlen (ppayload p) <= P) hist ->
  snd (retained (fst (dec_run dinit hist))) <= N.max cap P + maxn.
Proof. exact slices_bounded_partial. Qed.
Print Assumptions C08_h264_slices_bounded_partial.

(* ... and is NOT bounded otherwise (DESIGN F6): for every bound B there is a history of 2-byte
   packets (one FU-A start, then zero-length FU-A middle fragments with consecutive sequence numbers)
   after which the decoder retains more than B slice headers, while retaining one byte.  Known
   finding h264-empty-fua-unbounded-slices, reproduced on the implementation by the harness. *)
Theorem C08_h264_slices_bounded_refuted : forall B, exists hist,
  Forall (fun p => nlen (ppayload p) <= 2) hist /\
  B < snd (retained (fst (dec_run dinit hist))) /\
  fst (retained (fst (dec_run dinit hist))) = 1.
Proof. exact slices_bounded_refuted. Qed.
Print Assumptions C08_h264_slices_bounded_refuted.

(* H264.PTSEqualsDTS (pkg/format/h264.go) returns true or false on every payload: no panic, no loop *)
Theorem C08_h264_pts_equals_dts_total : forall payload, pts_equals_dts payload <> None.
Proof. exact pts_equals_dts_total. Qed.
Print Assumptions C08_h264_pts_equals_dts_total.

Example C08_h264_example :
  (* Annex-B sniffing, start-code splitting, a STAP-A with padding, an oversized NALU count *)
  snd (dec_run dinit [mkPkt 1 0 true [65; 0; 0; 0; 1; 66; 7; 0; 0; 1; 67];
                      mkPkt 2 0 true [124; 197; 0; 0; 1; 9; 0; 0; 0; 1; 8];
                      mkPkt 3 0 true [24; 0; 1; 70; 0; 0; 0];
                      mkPkt 4 0 true [24; 0; 5; 1]])
  = [DFrame [[65]; [66; 7]; [67]]; DFrame [[101]; [9]; [8]]; DFrame [[70]]; DErr]
  /\ pts_equals_dts [24; 0; 1; 65; 0; 2; 5; 1] = Some true.
Proof. vm_compute. split; reflexivity. Qed.

(* ---- the translated kernels (tools/go2coq, regenerated from the Go source on every run) ----
   The length tests and caps of rtph264/decoder.go - len(payload) < 1, < 2, the accumulation d.fragmentsSize +=
   len(payload[2:]) and its cap > h264.MaxAccessUnitSize, the STAP-A size field, its two length tests, the NALU-count
   cap and the access-unit size cap of addToFrameBuffer with their accumulations - ARE the tests of
   Model.decode_nalus / stapa_walk / add_fb (the constants are GVG.Consts' h264_max_au, h264_max_nalus). *)
From Coq Require Import ZArith.
From GVG Require Import Kern.
From GV_h264 Require Import BridgeLib Bridge.
Open Scope Z_scope.

Theorem C08_h264_kernels_are_the_code :
  forall (pl pl1 data rest : bytes) (b0 p0 p1 fs fl l fsz add : N),
  byte p0 -> byte p1 -> Z.of_N (fs + nlen data) < i64max -> Z.of_N (fl + l) < i64max -> Z.of_N (fsz + add) < i64max ->
  k_h264_dec_short (Z.of_N (nlen pl)) = match pl with [] => true | _ :: _ => false end /\
  k_h264_dec_fushort (Z.of_N (nlen (b0 :: pl1))) = match pl1 with [] => true | _ :: _ => false end /\
  k_h264_dec_cap (k_h264_dec_acc (Z.of_N fs) (Z.of_N (nlen data))) (Z.of_N cap) = (cap <? fs + nlen data)%N /\
  k_h264_dec_acc (Z.of_N fs) (Z.of_N (nlen data)) = Z.of_N (fs + nlen data) /\
  k_h264_stapa_short (Z.of_N (nlen pl)) = match pl with _ :: _ :: _ => false | _ => true end /\
  k_h264_stapa_size (Z.of_N p0) (Z.of_N p1) = Z.of_N (p0 * 256 + p1) /\
  k_h264_stapa_over (Z.of_N (p0 * 256 + p1)) (Z.of_N (nlen rest)) = (nlen rest <? p0 * 256 + p1)%N /\
  k_h264_fb_count (Z.of_N fl) (Z.of_N l) (Z.of_N maxn) = (maxn <? fl + l)%N /\
  k_h264_fb_size (Z.of_N fsz) (Z.of_N add) (Z.of_N cap) = (cap <? fsz + add)%N /\
  k_h264_fb_len_acc (Z.of_N fl) (Z.of_N l) = Z.of_N (fl + l) /\
  k_h264_fb_size_acc (Z.of_N fsz) (Z.of_N add) = Z.of_N (fsz + add).
Proof. exact caps_kernels_are_the_code. Qed.
Print Assumptions C08_h264_kernels_are_the_code.

Example C08_h264_example_kernels :
  k_h264_dec_cap (k_h264_dec_acc (Z.of_N cap - 10) 10) (Z.of_N cap) = false /\
  k_h264_dec_cap (k_h264_dec_acc (Z.of_N cap - 10) 11) (Z.of_N cap) = true /\
  k_h264_stapa_size 1 2 = 258 /\ k_h264_stapa_over 258 257 = true /\ k_h264_stapa_over 258 258 = false /\
  k_h264_fb_count 20 1 (Z.of_N maxn) = (Z.of_N maxn <? 21) /\ k_h264_dec_short 0 = true /\ k_h264_dec_fushort 1 = true.
Proof. vm_compute. repeat split. Qed.

(* Executable model of pkg/format/rtph264 (encoder.go, decoder.go), of the part of
   mediacommon's h264.AnnexB.Unmarshal the decoder reaches, and of H264.PTSEqualsDTS
   (pkg/format/h264.go).  Proof-free.

   Conventions: bytes are N (< 256 on the wire); every Go slice / index expression whose bounds are
   not guarded by an immediately preceding length test is a checked primitive (nnth / nsub /
   join) whose failure is the outcome Panic; a loop that runs out of fuel is also Panic (so the
   "no Panic" theorems also say "terminates").
   Not modelled because not observable under the harness projection: firstPacketReceived (it only
   selects between two error values), PayloadType / SSRC / Version (constants copied into every
   packet header; checked by the direct oracle). *)
From GVL Require Import NList Wire Chunks Rtp.
From GVG Require Import Consts.
Open Scope N_scope.

Definition cap : N := h264_max_au.          (* h264.MaxAccessUnitSize *)
Definition maxn : N := h264_max_nalus.      (* h264.MaxNALUsPerAccessUnit *)
Definition t_stapa : N := h264_nalu_stapa.  (* 24 *)
Definition t_fua : N := h264_nalu_fua.      (* 28 *)

Inductive pres (A : Type) := POk (a : A) | PErr | PPanic.
Arguments POk {A} a. Arguments PErr {A}. Arguments PPanic {A}.

Fixpoint sum_len (l : list bytes) : N :=
  match l with [] => 0 | x :: t => nlen x + sum_len t end.

(* ================= encoder ================= *)

(* lenAggregated(nalus, nil) *)
Fixpoint len_agg_body (nalus : list bytes) : N :=
  match nalus with [] => 0 | n :: t => 2 + nlen n + len_agg_body t end.
Definition len_agg (nalus : list bytes) : N := 1 + len_agg_body nalus.

(* the batching loop of Encode: [batch] is the current batch ([] = nil), result = the batches
   handed to writeBatch, in order; the last one is the final batch (marker = true) *)
Fixpoint batches (max : N) (batch : list bytes) (au : list bytes) : list (list bytes) :=
  match au with
  | [] => [batch]
  | n :: t =>
      if len_agg batch + 2 + nlen n <=? max then batches max (batch ++ [n]) t
      else match batch with
           | [] => batches max [n] t
           | _ :: _ => batch :: batches max [n] t
           end
  end.

(* writeAggregated: 24, then per NALU uint8(len>>8), uint8(len), bytes *)
Fixpoint stapa_body (nalus : list bytes) : bytes :=
  match nalus with
  | [] => []
  | n :: t => (nlen n / 256) mod 256 :: nlen n mod 256 :: n ++ stapa_body t
  end.
Definition stapa (nalus : list bytes) : bytes := t_stapa :: stapa_body nalus.

(* writeFragmented header bytes: (nri<<5)|28 and (start<<7)|(end<<6)|typ *)
Definition fua_hdr0 (b0 : N) : N := N.lor (N.shiftl (N.land (N.shiftr b0 5) 3) 5) t_fua.
Definition fua_hdr1 (s e : bool) (b0 : N) : N :=
  N.lor (N.lor (if s then 128 else 0) (if e then 64 else 0)) (N.land b0 31).

(* a packet before numbering: (marker, payload) *)
Fixpoint fua_protos (b0 : N) (marker start : bool) (cs : list bytes) : list (bool * bytes) :=
  match cs with
  | [] => []
  | c :: t =>
      let last := match t with [] => true | _ :: _ => false end in
      (last && marker, fua_hdr0 b0 :: fua_hdr1 start last b0 :: c) :: fua_protos b0 marker false t
  end.

(* writeBatch.  None = panic (nalu[0] of an empty NALU). packetCount = ceil(le/avail) pieces of
   [avail] bytes but the last = chunks avail (nalu[1:]) *)
Definition write_batch (max : N) (marker : bool) (batch : list bytes) : option (list (bool * bytes)) :=
  match batch with
  | [n] =>
      if nlen n <? max then Some [(marker, n)]
      else match n with
           | [] => None
           | b0 :: rest => Some (fua_protos b0 marker true (chunks (max - 2) rest))
           end
  | _ => Some [(marker, stapa batch)]
  end.

Fixpoint write_batches (max : N) (bs : list (list bytes)) : option (list (bool * bytes)) :=
  match bs with
  | [] => Some []
  | b :: t =>
      match t with
      | [] => write_batch max true b
      | _ :: _ =>
          match write_batch max false b, write_batches max t with
          | Some x, Some y => Some (x ++ y)
          | _, _ => None
          end
      end
  end.

Definition enc_protos (max : N) (au : list bytes) : option (list (bool * bytes)) :=
  write_batches max (batches max [] au).

(* e.sequenceNumber++ per packet, in emission order; the encoder leaves Timestamp = 0 *)
Fixpoint number (seq : N) (ps : list (bool * bytes)) : list packet :=
  match ps with
  | [] => []
  | (m, pl) :: t => mkPkt seq 0 m pl :: number (seq_next seq) t
  end.

Definition enc (max seq : N) (au : list bytes) : option (list packet * N) :=
  match enc_protos max au with
  | Some ps => Some (number seq ps, seq_add seq (nlen ps))
  | None => None
  end.

Fixpoint enc_many (max seq : N) (frames : list (list bytes)) : option (list (list packet)) :=
  match frames with
  | [] => Some []
  | f :: t =>
      match enc max seq f with
      | None => None
      | Some (ps, seq') =>
          match enc_many max seq' t with
          | None => None
          | Some r => Some (ps :: r)
          end
      end
  end.

(* ================= decoder ================= *)

Record dstate := mkD {
  dfrags : list bytes;   (* d.fragments (logical content; [:0] = []) *)
  dfsize : N;            (* d.fragmentsSize *)
  dnext : N;             (* d.fragmentNextSeqNum *)
  dannexb : bool;        (* d.annexBMode *)
  dfb : list bytes;      (* d.frameBuffer ([] = nil) *)
  dfblen : N;            (* d.frameBufferLen *)
  dfbsize : N;           (* d.frameBufferSize *)
  dfbts : N }.           (* d.frameBufferTimestamp *)

Definition dinit : dstate := mkD [] 0 0 false [] 0 0 0.

Definition reset_frags (d : dstate) : dstate :=
  mkD [] 0 (dnext d) (dannexb d) (dfb d) (dfblen d) (dfbsize d) (dfbts d).
Definition set_frags (d : dstate) (fr : list bytes) (sz nx : N) : dstate :=
  mkD fr sz nx (dannexb d) (dfb d) (dfblen d) (dfbsize d) (dfbts d).
Definition set_annexb (d : dstate) (b : bool) : dstate :=
  mkD (dfrags d) (dfsize d) (dnext d) b (dfb d) (dfblen d) (dfbsize d) (dfbts d).
Definition reset_fb (d : dstate) : dstate :=
  mkD (dfrags d) (dfsize d) (dnext d) (dannexb d) [] 0 0 (dfbts d).
Definition set_fb (d : dstate) (fb : list bytes) (l sz ts : N) : dstate :=
  mkD (dfrags d) (dfsize d) (dnext d) (dannexb d) fb l sz ts.

(* joinFragments: ret := make([]byte, size); n += copy(ret[n:], p).  ret[n:] panics if n > size *)
Fixpoint join_aux (frags : list bytes) (size n : N) (acc : bytes) : option bytes :=
  match frags with
  | [] => Some (acc ++ nrep 0 (size - n))
  | p :: t =>
      if size <? n then None else
      let c := ntake (size - n) p in
      join_aux t size (n + nlen c) (acc ++ c)
  end.
Definition join (frags : list bytes) (size : N) : option bytes := join_aux frags size 0 [].

(* bytes.Index(b, {0,0,1}) *)
Definition starts01 (t : bytes) : bool :=
  match t with a :: b :: _ => (a =? 0) && (b =? 1) | _ => false end.
Fixpoint find_sc (b : bytes) : option N :=
  match b with
  | [] => None
  | x :: t => if (x =? 0) && starts01 t then Some 0 else option_map N.succ (find_sc t)
  end.

(* bytes.Contains(b, {0,0,0,1}), bytes.HasPrefix(b, {0,0,0,1}) *)
Definition starts001 (t : bytes) : bool :=
  match t with a :: b :: c :: _ => (a =? 0) && (b =? 0) && (c =? 1) | _ => false end.
Fixpoint contains4 (b : bytes) : bool :=
  match b with
  | [] => false
  | x :: t => ((x =? 0) && starts001 t) || contains4 t
  end.
Definition has_prefix4 (b : bytes) : bool :=
  match b with x :: t => (x =? 0) && starts001 t | [] => false end.

(* b[idx-1] == 0 guarded by idx > 0; None = index out of range *)
Definition prev_is_zero (b : bytes) (idx : N) : option bool :=
  if idx =? 0 then Some false
  else match nnth (idx - 1) b with Some x => Some (x =? 0) | None => None end.

(* splitNALUs.  None = panic or out of fuel *)
Fixpoint split_aux (fuel b : bytes) (acc : list bytes) : option (list bytes) :=
  match b with
  | [] => Some acc
  | _ :: _ =>
    match fuel with
    | [] => None
    | _ :: fuel' =>
      match find_sc b with
      | None => Some (acc ++ [b])
      | Some idx0 =>
        match prev_is_zero b idx0 with
        | None => None
        | Some z =>
          let idx := if z then idx0 - 1 else idx0 in
          let sz := if z then 4 else 3 in
          if idx =? 0 then
            match nsub b sz (nlen b) with
            | Some b' => split_aux fuel' b' acc
            | None => None
            end
          else
            match nsub b 0 idx, nsub b (idx + sz) (nlen b) with
            | Some u, Some b' => split_aux fuel' b' (acc ++ [u])
            | _, _ => None
            end
        end
      end
    end
  end.
Definition split_nalus (b : bytes) : option (list bytes) := split_aux b b [].

(* h264.AnnexB.Unmarshal: [rest] = buf[pos:], NALU byte strings are taken as soon as their
   position is known (the Go code slices them after the loop; same bytes, same errors) *)
Fixpoint annexb_loop (fuel rest : bytes) (ausize : N) (acc : list bytes) : pres (list bytes) :=
  match rest with
  | [] => POk acc
  | _ :: _ =>
    match fuel with
    | [] => PPanic
    | _ :: fuel' =>
      match find_sc rest with
      | None =>
          if cap <? ausize + nlen rest then PErr else POk (acc ++ [rest])
      | Some i =>
        match prev_is_zero rest i with
        | None => PPanic
        | Some z =>
          let e := if z then i - 1 else i in
          match nsub rest (i + 3) (nlen rest) with
          | None => PPanic
          | Some rest' =>
            if 0 <? e then
              if cap <? ausize + e then PErr else
              match nsub rest 0 e with
              | Some u => annexb_loop fuel' rest' (ausize + e) (acc ++ [u])
              | None => PPanic
              end
            else annexb_loop fuel' rest' ausize acc
          end
        end
      end
    end
  end.

Definition annexb_unmarshal (buf : bytes) : pres (list bytes) :=
  let start :=
    match buf with
    | a :: b :: c :: t =>
        if (a =? 0) && (b =? 0) && (c =? 0) && (match t with d :: _ => d =? 1 | [] => false end)
        then Some (tl t)
        else if (a =? 0) && (b =? 0) && (c =? 1) then Some t else None
    | _ => None
    end in
  match start with
  | None => PErr                                  (* ErrAnnexBNoInitialDelimiter *)
  | Some [] => PErr                               (* ErrAnnexBNoNALUs *)
  | Some rest =>
      match annexb_loop rest rest 0 [] with
      | POk [] => PErr
      | POk acc => if maxn <? nlen acc then PErr else POk acc
      | r => r
      end
  end.

(* removeAnnexB *)
Definition remove_annexb (d : dstate) (nalus : list bytes) : dstate * pres (list bytes) :=
  match nalus with
  | [nalu] =>
      let ab := dannexb d || contains4 nalu in
      if ab then
        let buf := if has_prefix4 nalu then nalu else 0 :: 0 :: 0 :: 1 :: nalu in
        (set_annexb d true, annexb_unmarshal buf)
      else (d, POk nalus)
  | _ => (d, POk nalus)
  end.

(* the STAP-A walk.  [pl] = payload (after the header byte) *)
Fixpoint all_zero (b : bytes) : bool :=
  match b with [] => true | x :: t => (x =? 0) && all_zero t end.

Fixpoint stapa_walk (fuel pl : bytes) (acc : list bytes) : pres (list bytes) :=
  match pl with
  | p0 :: p1 :: rest =>
      let size := p0 * 256 + p1 in
      if size =? 0 then (if all_zero rest then POk acc else PErr)
      else if nlen rest <? size then PErr
      else
        let acc' := acc ++ [ntake size rest] in
        match ndrop size rest with
        | [] => POk acc'
        | (_ :: _) as rest' =>
            match fuel with
            | [] => PPanic
            | _ :: fuel' => stapa_walk fuel' rest' acc'
            end
        end
  | _ => PErr
  end.

Inductive nres := NOk (nalus : list bytes) | NMore | NErr | NPanic.

Definition finish_nalus (d : dstate) (nalus : list bytes) : dstate * nres :=
  match remove_annexb d nalus with
  | (d', POk r) => (d', NOk r)
  | (d', PErr) => (d', NErr)
  | (d', PPanic) => (d', NPanic)
  end.

(* join + splitNALUs + resetFragments + removeAnnexB *)
Definition finish_frags (d : dstate) : dstate * nres :=
  match join (dfrags d) (dfsize d) with
  | None => (d, NPanic)
  | Some j =>
      match split_nalus j with
      | None => (d, NPanic)
      | Some nalus => finish_nalus (reset_frags d) nalus
      end
  end.

Definition decode_nalus (d : dstate) (p : packet) : dstate * nres :=
  match ppayload p with
  | [] => (reset_frags d, NErr)
  | b0 :: pl1 =>
      let typ := N.land b0 31 in
      if typ =? t_fua then
        match pl1 with
        | [] => (d, NErr)
        | b1 :: data =>
            let start := N.shiftr b1 7 in
            let e := N.land (N.shiftr b1 6) 1 in
            if start =? 1 then
              let hdr := N.lor (N.shiftl (N.land (N.shiftr b0 5) 3) 5) (N.land b1 31) in
              let d1 := set_frags d [[hdr]; data] (nlen pl1) (seq_next (pseq p)) in
              if negb (e =? 0) then finish_frags d1 else (d1, NMore)
            else if dfsize d =? 0 then (d, NErr)
            else if negb (pseq p =? dnext d) then (reset_frags d, NErr)
            else
              let size' := dfsize d + nlen data in
              if cap <? size' then (reset_frags d, NErr)
              else
                let d1 := set_frags d (dfrags d ++ [data]) size' (seq_next (dnext d)) in
                if negb (e =? 1) then (d1, NMore) else finish_frags d1
        end
      else if typ =? t_stapa then
        let d1 := reset_frags d in
        match stapa_walk pl1 pl1 [] with
        | PPanic => (d1, NPanic)
        | PErr => (d1, NErr)
        | POk [] => (d1, NErr)
        | POk nalus => finish_nalus d1 nalus
        end
      else if (typ =? h264_nalu_stapb) || (typ =? h264_nalu_mtap16) || (typ =? h264_nalu_mtap24) || (typ =? h264_nalu_fub) then (reset_frags d, NErr)
      else finish_nalus (reset_frags d) [ppayload p]
  end.

(* addToFrameBuffer: (state, ok) *)
Definition add_fb (d : dstate) (nalus : list bytes) (l ts : N) : dstate * bool :=
  if maxn <? dfblen d + l then (reset_fb d, false) else
  let add := sum_len nalus in
  if cap <? dfbsize d + add then (reset_fb d, false) else
  (set_fb d (dfb d ++ nalus) (dfblen d + l) (dfbsize d + add) ts, true).

Definition is_nil {A} (l : list A) : bool := match l with [] => true | _ => false end.

Definition dec (d : dstate) (p : packet) : dstate * dres (list bytes) :=
  match decode_nalus d p with
  | (d1, NPanic) => (d1, DPanic)
  | (d1, NErr) => (d1, DErr)
  | (d1, NMore) => (d1, DMore)
  | (d1, NOk nalus) =>
      let l := nlen nalus in
      if negb (is_nil (dfb d1)) && negb (pts p =? dfbts d1) then
        let ret := dfb d1 in
        match add_fb (reset_fb d1) nalus l (pts p) with
        | (d2, false) => (d2, DErr)
        | (d2, true) => (d2, DFrame ret)
        end
      else
        match add_fb d1 nalus l (pts p) with
        | (d2, false) => (d2, DErr)
        | (d2, true) =>
            if negb (pmarker p) then (d2, DMore) else (reset_fb d2, DFrame (dfb d2))
        end
  end.

Fixpoint dec_run (d : dstate) (ps : list packet) : dstate * list (dres (list bytes)) :=
  match ps with
  | [] => (d, [])
  | p :: t => let '(d', r) := dec d p in let '(d'', rs) := dec_run d' t in (d'', r :: rs)
  end.

(* what the decoder retains: logical bytes and slice headers (fragments + frame buffer) *)
Definition retained (d : dstate) : N * N :=
  (sum_len (dfrags d) + sum_len (dfb d), nlen (dfrags d) + nlen (dfb d)).

(* ================= H264.PTSEqualsDTS (pkg/format/h264.go) ================= *)
Definition is_key (t : N) : bool :=
  (t =? h264_nalu_idr) || (t =? h264_nalu_sps) || (t =? h264_nalu_pps).

(* None = panic (or out of fuel) *)
Fixpoint pts_stapa (fuel pl : bytes) : option bool :=
  match pl with
  | p0 :: p1 :: rest =>
      let size := p0 * 256 + p1 in
      if (size =? 0) || (nlen rest <? size) then Some false else
      match nsub rest 0 size, nsub rest size (nlen rest) with
      | Some nalu, Some rest' =>
          match nnth 0 nalu with
          | None => None
          | Some n0 =>
              if is_key (N.land n0 31) then Some true else
              match rest' with
              | [] => Some false
              | _ :: _ =>
                  match fuel with
                  | [] => None
                  | _ :: fuel' => pts_stapa fuel' rest'
                  end
              end
          end
      | _, _ => None
      end
  | _ => Some false
  end.

Definition pts_equals_dts (payload : bytes) : option bool :=
  match payload with
  | [] => Some false
  | b0 :: pl1 =>
      let typ := N.land b0 31 in
      if is_key typ then Some true
      else if typ =? 24 then pts_stapa pl1 pl1
      else if typ =? 28 then
        match pl1 with
        | [] => Some false
        | b1 :: _ => if negb (N.shiftr b1 7 =? 1) then Some false else Some (is_key (N.land b1 31))
        end
      else Some false
  end.

(* ================= wire ================= *)
Definition put_res (r : dres (list bytes)) : list N :=
  match r with
  | DFrame f => 1 :: putls f
  | DMore => [0]
  | DErr => [2]
  | DPanic => [77]
  end.

Fixpoint get_frames (fuel : list N) (k : N) (l : list N) : option (list (list bytes)) :=
  if k =? 0 then Some [] else
  match fuel with
  | [] => None
  | _ :: fuel' =>
    match getls l with
    | None => None
    | Some (f, r) => option_map (cons f) (get_frames fuel' (N.pred k) r)
    end
  end.

(* case 1: param max seq nframes {nunits {len bytes}} -> all packets of all frames (put_pkts)
   case 2: param npackets {pkt}                      -> per packet result; retained bytes, slices
   case 3: param len bytes                           -> PTSEqualsDTS: 0 | 1 | 77 *)
Definition run (c : list N) : list N :=
  match c with
  | 1 :: _ :: max :: seq :: k :: t =>
      match get_frames c k t with
      | Some frames =>
          if max <? 3 then bad_case else
          match enc_many max seq frames with
          | Some pss => put_pkts (concat pss)
          | None => [77]
          end
      | None => bad_case
      end
  | 2 :: _ :: t =>
      match get_pkts t with
      | Some (ps, _) =>
          let '(d, rs) := dec_run dinit ps in
          concat (map put_res rs) ++ [fst (retained d); snd (retained d)]
      | None => bad_case
      end
  | 3 :: _ :: t =>
      match getl t with
      | Some (pl, _) =>
          match pts_equals_dts pl with
          | Some b => [putb b]
          | None => [77]
          end
      | None => bad_case
      end
  | _ => bad_case
  end.

From GV_h264 Require Import Model.

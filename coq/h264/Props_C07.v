(* C07, rtph264 - statements only *)
From GVL Require Import NList Rtp.
From GV_h264 Require Import Model Proofs.
Open Scope N_scope.

(* never panics, never loops, whatever arrives (loss, duplication, reordering, foreign packets) *)
Theorem C07_h264_no_panic : forall hist, ~ In DPanic (snd (dec_run dinit hist)).
Proof. exact total. Qed.
Print Assumptions C07_h264_no_panic.

(* Absorption: after ANY packet history, one intact access unit (timestamp ts) leaves the decoder
   settled: no fragment and no NAL unit of any earlier frame is retained; either the decoder is clean
   or it holds exactly this access unit, complete, waiting for the next timestamp. *)
Theorem C07_h264_absorb : forall max hist au ts s,
  3 <= max -> max <= 65538 -> s < 65536 -> valid_frame au ->
  exists ps seq', enc max s au = Some (ps, seq') /\
    settled au ts (fst (dec_run (fst (dec_run dinit hist)) (set_ts ts ps))).
Proof. exact absorb. Qed.
Print Assumptions C07_h264_absorb.

(* One intact frame is enough: after any history and an intact access unit au1, the next intact
   access unit au2 (different timestamp; sequence numbers s1, s2 arbitrary, so whole frames may have been
   lost in between) is returned exactly at its last packet with "more" before - or, when au1 was still
   held, au1 comes out at the packet k1 that completes the first NAL unit(s) of au2 (k1 = 1 unless that
   NAL unit is fragmented), and au2 follows at its own last packet, or is in turn held (single batch). *)
Theorem C07_h264_resync : forall max hist au1 ts1 au2 ts2 s1 s2,
  3 <= max -> max <= 65538 -> s1 < 65536 -> s2 < 65536 ->
  valid_frame au1 -> valid_frame au2 -> ts1 <> ts2 ->
  exists ps1 q1 ps2 q2, enc max s1 au1 = Some (ps1, q1) /\ enc max s2 au2 = Some (ps2, q2) /\
    let d0 := fst (dec_run dinit hist) in
    let d1 := fst (dec_run d0 (set_ts ts1 ps1)) in
    let '(d2, rs) := dec_run d1 (set_ts ts2 ps2) in
    (rs = repeat DMore (length ps2 - 1) ++ [DFrame au2] /\ clean d2) \/
    (exists k1, (1 <= k1 <= length ps2)%nat /\ (first_len au2 < max -> k1 = 1%nat) /\
       ((k1 = length ps2 /\ rs = repeat DMore (k1 - 1) ++ [DFrame au1] /\ pending au2 ts2 d2) \/
        (k1 < length ps2 /\ clean d2 /\
         rs = repeat DMore (k1 - 1) ++ [DFrame au1] ++ repeat DMore (length ps2 - k1 - 1) ++ [DFrame au2]))%nat).
Proof. exact resync. Qed.
Print Assumptions C07_h264_resync.

(* A held access unit is handed over by the next packet with another timestamp that completes a NAL
   unit (single NALU, STAP-A, last FU-A fragment); packets answered "more" or rejected leave it held. *)
Theorem C07_h264_pending_flush : forall au ts d p,
  fbI d -> dfb d = au -> dfbts d = ts -> au <> [] -> pts p <> ts ->
  match snd (decode_nalus d p) with
  | NOk nalus => nlen nalus <= maxn -> sum_len nalus <= cap -> snd (dec d p) = DFrame au
  | NMore => snd (dec d p) = DMore /\ same_fb d (fst (dec d p))
  | NErr => snd (dec d p) = DErr /\ same_fb d (fst (dec d p))
  | NPanic => True
  end.
Proof. exact pending_flush. Qed.
Print Assumptions C07_h264_pending_flush.

(* ... therefore "no later than the first packet of the following frame" is FALSE of the code when
   that frame starts with a fragmented NAL unit: the witness (limit 3; a history that leaves the frame
   buffer non-empty; three intact single-NALU access units, the third fragmented into 3 FU-A packets)
   returns the second access unit at the third packet of the third.  Known finding
   h264-late-timestamp-flush, reproduced on the implementation by the harness. *)
Theorem C07_h264_late_flush_refuted :
  valid_frame lf_au1 /\ valid_frame lf_au2 /\ valid_frame lf_au3 /\
  exists ps1 q1 ps2 q2 ps3 q3,
    enc 3 100 lf_au1 = Some (ps1, q1) /\ enc 3 q1 lf_au2 = Some (ps2, q2) /\ enc 3 q2 lf_au3 = Some (ps3, q3) /\
    length ps3 = 3%nat /\
    snd (dec_run dinit (lf_hist ++ set_ts 10 ps1 ++ set_ts 20 ps2 ++ set_ts 30 ps3)) =
      [DMore; DFrame [[1; 170]]; DFrame lf_au1; DMore; DMore; DFrame lf_au2].
Proof. exact late_flush_refuted. Qed.
Print Assumptions C07_h264_late_flush_refuted.

(* non-vacuity of resync: first FU-A fragment of a frame lost, then two intact frames *)
Example C07_h264_example :
  match enc 4 10 [[65; 1; 2; 3; 4; 5]], enc 4 20 [[6; 1]; [7; 2; 2; 2]], enc 4 30 [[8; 9; 9]] with
  | Some (p0, _), Some (p1, _), Some (p2, _) =>
      snd (dec_run dinit (tl (set_ts 1000 p0) ++ set_ts 2000 p1 ++ set_ts 3000 p2))
  | _, _, _ => []
  end = [DErr; DErr; DMore; DMore; DFrame [[6; 1]; [7; 2; 2; 2]]; DFrame [[8; 9; 9]]].
Proof. vm_compute. reflexivity. Qed.

(* ---- the translated kernels (tools/go2coq, regenerated from the Go source on every run) ----
   The resynchronisation tests of decodeNALUs - the NALU type mask, the FU-A start and end bits, the expected next
   sequence number (pkt.SequenceNumber + 1 and ++, both uint16), the continuity test pkt.SequenceNumber !=
   d.fragmentNextSeqNum, the "no fragment pending" test d.fragmentsSize == 0 - ARE the expressions Model.decode_nalus
   is written with. *)
From Coq Require Import ZArith.
From GVG Require Import Kern.
From GV_h264 Require Import BridgeLib Bridge.
Open Scope Z_scope.

Theorem C07_h264_kernels_are_the_code : forall (b0 b1 seq next fs : N),
  byte b0 -> byte b1 -> u16 seq -> u16 next ->
  k_h264_dec_typ (Z.of_N b0) = Z.of_N (N.land b0 31) /\
  k_h264_dec_start (Z.of_N b1) = Z.of_N (N.shiftr b1 7) /\
  k_h264_dec_end (Z.of_N b1) = Z.of_N (N.land (N.shiftr b1 6) 1) /\
  k_h264_dec_nextseq (Z.of_N seq) = Z.of_N (seq_next seq) /\
  k_h264_dec_incseq (Z.of_N next) = Z.of_N (seq_next next) /\
  k_h264_dec_gap (Z.of_N seq) (Z.of_N next) = negb (seq =? next)%N /\
  k_h264_dec_nostart (Z.of_N fs) = (fs =? 0)%N.
Proof. exact resync_kernels_are_the_code. Qed.
Print Assumptions C07_h264_kernels_are_the_code.

Example C07_h264_example_kernels :
  k_h264_dec_typ 124 = 28 /\ k_h264_dec_start 133 = 1 /\ k_h264_dec_end 69 = 1 /\ k_h264_dec_end 133 = 0 /\
  k_h264_dec_nextseq 65535 = 0 /\ k_h264_dec_incseq 7 = 8 /\ k_h264_dec_gap 8 8 = false /\ k_h264_dec_gap 9 8 = true.
Proof. vm_compute. repeat split. Qed.

From Coq Require Extraction ExtrOcamlBasic.
From GV_h264 Require Import Model.
Extraction Language OCaml.
Extraction "model.ml" run.

(* BRIDGE: the integer formulas of pkg/format/rtph264 (encoder.go, decoder.go) as TRANSLATED from the Go source on
   this run (GVG.Kern, tools/go2coq, spec.d/h264.txt) are the formulas the hand-written Model.v uses: the STAP-A
   aggregation length and its comparison with PayloadMaxSize, the single / FU-A decision, the FU-A budget
   (PayloadMaxSize - 2), the fragment count, the position of the marker, the sequence number step; in the
   decoder the length tests, the FU header fields, the sequence-number continuity test, the size accumulation and
   the three caps.  Re-checked against the regenerated Kern.v on every run. *)
From Coq Require Import ZArith NArith List Lia Bool.
From Coq Require Import ZifyBool ZifyN.
From GVL Require Import NList Wrap Chunks Rtp.
From GVG Require Import Consts Kern.
From GV_h264 Require Import Model BridgeLib.
Import ListNotations.
Open Scope Z_scope.

(* ---------- encoder ---------- *)

(* lenAggregated(nalus, addNALU): the loop skeleton is written here, every statement of it is a translated kernel *)
Fixpoint la_loop (n : Z) (nalus : list bytes) : Z :=
  match nalus with
  | [] => n
  | x :: t => la_loop (k_h264_lenagg_nalu (k_h264_lenagg_size n) (Z.of_N (nlen x))) t
  end.
Definition la_code (nalus : list bytes) (add : option bytes) : Z :=
  let n := la_loop k_h264_lenagg_hdr nalus in
  match add with
  | None => n
  | Some a => k_h264_lenagg_analu (k_h264_lenagg_asize n) (Z.of_N (nlen a))
  end.

Lemma la_loop_spec nalus : forall n, 0 <= n -> n + Z.of_N (len_agg_body nalus) < i64max ->
  la_loop n nalus = n + Z.of_N (len_agg_body nalus).
Proof.
  unfold i64max. induction nalus as [|x t IH]; intros n Hn Hb; cbn [la_loop len_agg_body] in *; [lia|].
  unfold k_h264_lenagg_nalu, k_h264_lenagg_size. rewrite (ki64_small (n + 2)) by lia.
  rewrite ki64_small by lia. rewrite IH by lia. lia.
Qed.

Lemma bridge_len_agg nalus : Z.of_N (len_agg nalus) < i64max ->
  la_code nalus None = Z.of_N (len_agg nalus).
Proof.
  unfold la_code, len_agg, k_h264_lenagg_hdr, i64max. intros H. rewrite la_loop_spec; unfold i64max; lia.
Qed.

Lemma bridge_len_agg_add nalus a : Z.of_N (len_agg nalus + 2 + nlen a) < i64max ->
  la_code nalus (Some a) = Z.of_N (len_agg nalus + 2 + nlen a).
Proof.
  unfold la_code, len_agg, k_h264_lenagg_hdr, k_h264_lenagg_analu, k_h264_lenagg_asize, i64max. intros H.
  rewrite la_loop_spec by (unfold i64max; lia). rewrite (ki64_small (_ + 2)) by lia. rewrite ki64_small by lia. lia.
Qed.

(* if lenAggregated(batch, nalu) <= e.PayloadMaxSize   is the test of Model.batches *)
Lemma bridge_agg_fits max batch n : Z.of_N (len_agg batch + 2 + nlen n) < i64max ->
  k_h264_agg_fits (la_code batch (Some n)) (Z.of_N max) = (len_agg batch + 2 + nlen n <=? max)%N.
Proof. intros H. rewrite bridge_len_agg_add by exact H. unfold k_h264_agg_fits. apply leb_N. Qed.

(* writeBatch: len(nalus) == 1, then len(nalus[0]) < e.PayloadMaxSize  (Model.write_batch) *)
Lemma bridge_one_nalu (batch : list bytes) : k_h264_one_nalu (Z.of_N (nlen batch)) = (nlen batch =? 1)%N.
Proof. unfold k_h264_one_nalu. exact (eqb_N (nlen batch) 1). Qed.
Lemma bridge_single_fits max (n : bytes) : k_h264_single_fits (Z.of_N (nlen n)) (Z.of_N max) = (nlen n <? max)%N.
Proof. unfold k_h264_single_fits. apply ltb_N. Qed.

(* writeFragmented: avail, le, the packet count, the size of a packet, last / marker *)
Lemma bridge_fua_avail max : (2 <= max)%N -> Z.of_N max < i64max -> k_h264_fua_avail (Z.of_N max) = Z.of_N (max - 2).
Proof. unfold k_h264_fua_avail, i64max. intros H1 H2. rewrite ki64_small by lia. lia. Qed.
Lemma bridge_fua_le (b0 : N) (rest : bytes) : Z.of_N (nlen (b0 :: rest)) < i64max ->
  k_h264_fua_le (Z.of_N (nlen (b0 :: rest))) = Z.of_N (nlen rest).
Proof. unfold k_h264_fua_le, i64max. cbn [nlen]. intros H. rewrite ki64_small by lia. lia. Qed.

Lemma bridge_fua_count max (b0 : N) (rest : bytes) : (3 <= max)%N -> Z.of_N max < i64max -> Z.of_N (nlen (b0 :: rest)) < i64max ->
  k_h264_packetCount (k_h264_fua_avail (Z.of_N max)) (k_h264_fua_le (Z.of_N (nlen (b0 :: rest))))
  = Some (Z.of_N (nlen (chunks (max - 2) rest))).
Proof.
  intros H1 H2 H3. rewrite bridge_fua_avail, bridge_fua_le by (try assumption; lia).
  unfold k_h264_packetCount. unfold i64max in *. cbn [nlen] in H3. rewrite pc_generic by lia.
  rewrite chunks_count_Z by lia. reflexivity.
Qed.

Lemma bridge_fua_size (h0 h1 : N) (c : bytes) : Z.of_N (nlen c) + 2 < i64max ->
  k_h264_fua_size (Z.of_N (nlen c)) = Z.of_N (nlen (h0 :: h1 :: c)).
Proof. unfold k_h264_fua_size, i64max. cbn [nlen]. intros H. rewrite ki64_small by lia. lia. Qed.

Lemma bridge_fua_last (i pc : N) : Z.of_N pc < i64max -> (1 <= pc)%N ->
  k_h264_fua_last (Z.of_N i) (Z.of_N pc) = (i + 1 =? pc)%N.
Proof.
  unfold k_h264_fua_last, i64max. intros H1 H2. rewrite ki64_small by lia.
  destruct (Z.eqb_spec (Z.of_N i) (Z.of_N pc - 1)), (N.eqb_spec (i + 1) pc); lia.
Qed.
Lemma bridge_fua_marker (i pc : N) (m : bool) : Z.of_N pc < i64max -> (1 <= pc)%N ->
  k_h264_fua_marker (Z.of_N i) (Z.of_N pc) m = ((i + 1 =? pc)%N && m).
Proof. intros H1 H2. unfold k_h264_fua_marker. fold (k_h264_fua_last (Z.of_N i) (Z.of_N pc)). rewrite bridge_fua_last by assumption. reflexivity. Qed.

(* Model.fua_protos marks the last chunk: position i of a list of pc chunks is the last one iff i + 1 = pc *)
Lemma fua_protos_marker b0 m : forall (cs : list bytes) st i, (i < length cs)%nat ->
  nth i (map fst (fua_protos b0 m st cs)) false = ((N.of_nat i + 1 =? nlen cs)%N && m).
Proof.
  induction cs as [|c t IH]; intros st i Hi; cbn [length] in Hi; [lia|].
  cbn [fua_protos map fst]. destruct i as [|i]; cbn [nth].
  - destruct t as [|c' t']; cbn [nlen]; [reflexivity|].
    match goal with |- context [N.eqb ?a ?b] => destruct (N.eqb_spec a b) as [E|E] end; [lia|reflexivity].
  - rewrite IH by lia. f_equal. cbn [nlen].
    repeat match goal with |- context [N.eqb ?a ?b] => destruct (N.eqb_spec a b) end; lia.
Qed.

(* e.sequenceNumber++ (three copies) is Rtp.seq_next *)
Lemma bridge_seq (s : N) :
  k_h264_seq_single (Z.of_N s) = Z.of_N (seq_next s) /\ k_h264_seq_fua (Z.of_N s) = Z.of_N (seq_next s) /\
  k_h264_seq_stapa (Z.of_N s) = Z.of_N (seq_next s).
Proof. unfold k_h264_seq_single, k_h264_seq_fua, k_h264_seq_stapa, seq_next. repeat split; apply w16_succ_N. Qed.

Theorem enc_kernels_are_the_code (max : N) (batch : list bytes) (n : bytes) (b0 : N) (rest : bytes) (i pc s : N) (m : bool) :
  (3 <= max)%N -> Z.of_N max < i64max -> Z.of_N (len_agg batch + 2 + nlen n) < i64max ->
  Z.of_N (nlen (b0 :: rest)) + 2 < i64max -> (1 <= pc)%N -> Z.of_N pc < i64max ->
  la_code batch None = Z.of_N (len_agg batch) /\
  k_h264_agg_fits (la_code batch (Some n)) (Z.of_N max) = (len_agg batch + 2 + nlen n <=? max)%N /\
  k_h264_one_nalu (Z.of_N (nlen batch)) = (nlen batch =? 1)%N /\
  k_h264_single_fits (Z.of_N (nlen n)) (Z.of_N max) = (nlen n <? max)%N /\
  k_h264_fua_avail (Z.of_N max) = Z.of_N (max - 2) /\
  k_h264_packetCount (k_h264_fua_avail (Z.of_N max)) (k_h264_fua_le (Z.of_N (nlen (b0 :: rest))))
    = Some (Z.of_N (nlen (chunks (max - 2) rest))) /\
  k_h264_fua_size (Z.of_N (nlen rest)) = Z.of_N (nlen (fua_hdr0 b0 :: fua_hdr1 true false b0 :: rest)) /\
  k_h264_fua_last (Z.of_N i) (Z.of_N pc) = (i + 1 =? pc)%N /\
  k_h264_fua_marker (Z.of_N i) (Z.of_N pc) m = ((i + 1 =? pc)%N && m) /\
  k_h264_seq_single (Z.of_N s) = Z.of_N (seq_next s) /\ k_h264_seq_fua (Z.of_N s) = Z.of_N (seq_next s) /\
  k_h264_seq_stapa (Z.of_N s) = Z.of_N (seq_next s).
Proof.
  intros H1 H2 H3 H4 H5 H6. unfold i64max in *.
  split; [apply bridge_len_agg; unfold i64max; lia|].
  split; [apply bridge_agg_fits; exact H3|].
  split; [apply bridge_one_nalu|]. split; [apply bridge_single_fits|].
  split; [apply bridge_fua_avail; unfold i64max; lia|].
  split; [apply bridge_fua_count; unfold i64max; lia|].
  split; [apply bridge_fua_size; unfold i64max; cbn [nlen] in H4; lia|].
  split; [apply bridge_fua_last; unfold i64max; lia|].
  split; [apply bridge_fua_marker; unfold i64max; lia|].
  apply bridge_seq.
Qed.

(* ---------- decoder: resynchronisation tests (C07) ---------- *)

Definition byte (b : N) : Prop := (b < 256)%N.
Definition u16 (s : N) : Prop := (s < 65536)%N.

Lemma bridge_dec_fields (b0 b1 : N) : byte b0 -> byte b1 ->
  k_h264_dec_typ (Z.of_N b0) = Z.of_N (N.land b0 31) /\
  k_h264_dec_start (Z.of_N b1) = Z.of_N (N.shiftr b1 7) /\
  k_h264_dec_end (Z.of_N b1) = Z.of_N (N.land (N.shiftr b1 6) 1).
Proof.
  unfold byte, k_h264_dec_typ, k_h264_dec_start, k_h264_dec_end. intros H0 H1.
  change 31 with (Z.of_N 31). change 7 with (Z.of_N 7). change 6 with (Z.of_N 6). change 1 with (Z.of_N 1).
  rewrite !shiftr_N.
  assert (S7 : (N.shiftr b1 7 <= b1)%N) by (rewrite N.shiftr_div_pow2; apply N.div_le_upper_bound; [discriminate|change (2 ^ 7)%N with 128%N; lia]).
  assert (S6 : (N.shiftr b1 6 <= b1)%N) by (rewrite N.shiftr_div_pow2; apply N.div_le_upper_bound; [discriminate|change (2 ^ 6)%N with 64%N; lia]).
  rewrite (w8_small (Z.of_N (N.shiftr b1 7))), (w8_small (Z.of_N (N.shiftr b1 6))) by lia.
  rewrite !land_N.
  pose proof (land_byte (Z.of_N b0) (Z.of_N 31) ltac:(lia) ltac:(lia)) as L0. rewrite land_N in L0.
  pose proof (land_byte (Z.of_N (N.shiftr b1 6)) (Z.of_N 1) ltac:(lia) ltac:(lia)) as L1. rewrite land_N in L1.
  rewrite !w8_small by lia. repeat split.
Qed.

Lemma bridge_dec_resync (seq next fs : N) : u16 seq -> u16 next ->
  k_h264_dec_nextseq (Z.of_N seq) = Z.of_N (seq_next seq) /\
  k_h264_dec_incseq (Z.of_N next) = Z.of_N (seq_next next) /\
  k_h264_dec_gap (Z.of_N seq) (Z.of_N next) = negb (seq =? next)%N /\
  k_h264_dec_nostart (Z.of_N fs) = (fs =? 0)%N.
Proof.
  unfold k_h264_dec_nextseq, k_h264_dec_incseq, k_h264_dec_gap, k_h264_dec_nostart, seq_next. intros _ _.
  rewrite !w16_succ_N, eqb_N. repeat split. exact (eqb_N fs 0).
Qed.

Theorem resync_kernels_are_the_code (b0 b1 seq next fs : N) : byte b0 -> byte b1 -> u16 seq -> u16 next ->
  k_h264_dec_typ (Z.of_N b0) = Z.of_N (N.land b0 31) /\
  k_h264_dec_start (Z.of_N b1) = Z.of_N (N.shiftr b1 7) /\
  k_h264_dec_end (Z.of_N b1) = Z.of_N (N.land (N.shiftr b1 6) 1) /\
  k_h264_dec_nextseq (Z.of_N seq) = Z.of_N (seq_next seq) /\
  k_h264_dec_incseq (Z.of_N next) = Z.of_N (seq_next next) /\
  k_h264_dec_gap (Z.of_N seq) (Z.of_N next) = negb (seq =? next)%N /\
  k_h264_dec_nostart (Z.of_N fs) = (fs =? 0)%N.
Proof.
  intros H0 H1 Hs Hn. destruct (bridge_dec_fields b0 b1 H0 H1) as (A & B & C).
  destruct (bridge_dec_resync seq next fs Hs Hn) as (D & E & F & G). repeat split; assumption.
Qed.

(* ---------- decoder: length tests and caps (C08) ---------- *)

Lemma bridge_dec_short (pl : bytes) :
  k_h264_dec_short (Z.of_N (nlen pl)) = match pl with [] => true | _ :: _ => false end.
Proof. unfold k_h264_dec_short. destruct pl; cbn [nlen]; lia. Qed.
Lemma bridge_dec_fushort (b0 : N) (pl1 : bytes) :
  k_h264_dec_fushort (Z.of_N (nlen (b0 :: pl1))) = match pl1 with [] => true | _ :: _ => false end.
Proof. unfold k_h264_dec_fushort. destruct pl1; cbn [nlen]; lia. Qed.

(* d.fragmentsSize += len(pkt.Payload[2:]); if d.fragmentsSize > h264.MaxAccessUnitSize *)
Lemma bridge_dec_cap (fs : N) (data : bytes) : Z.of_N (fs + nlen data) < i64max ->
  k_h264_dec_acc (Z.of_N fs) (Z.of_N (nlen data)) = Z.of_N (fs + nlen data) /\
  k_h264_dec_cap (k_h264_dec_acc (Z.of_N fs) (Z.of_N (nlen data))) (Z.of_N cap) = (cap <? fs + nlen data)%N.
Proof.
  unfold k_h264_dec_cap, k_h264_dec_acc, i64max. intros H. rewrite ki64_small by lia.
  rewrite <- N2Z.inj_add. split; [reflexivity|apply gtb_N].
Qed.

(* STAP-A: the 16-bit size, the two length tests *)
Lemma bridge_stapa (p0 p1 : N) (rest : bytes) : byte p0 -> byte p1 ->
  k_h264_stapa_size (Z.of_N p0) (Z.of_N p1) = Z.of_N (p0 * 256 + p1) /\
  k_h264_stapa_over (Z.of_N (p0 * 256 + p1)) (Z.of_N (nlen rest)) = (nlen rest <? p0 * 256 + p1)%N.
Proof.
  unfold byte, k_h264_stapa_size, k_h264_stapa_over. intros H0 H1. split.
  - rewrite (w16_small (Z.of_N p0)), (w16_small (Z.of_N p1)) by lia.
    rewrite Z.shiftl_mul_pow2 by lia. change (2 ^ 8) with 256. rewrite (w16_small (Z.of_N p0 * 256)) by lia.
    rewrite <- (Z.shiftl_mul_pow2 _ 8) by lia. rewrite lor_shift8 by lia. rewrite w16_small by lia. lia.
  - rewrite ki64_small by lia. apply gtb_N.
Qed.
Lemma bridge_stapa_short (pl : bytes) :
  k_h264_stapa_short (Z.of_N (nlen pl)) = match pl with _ :: _ :: _ => false | _ => true end.
Proof. unfold k_h264_stapa_short. destruct pl as [|a [|b t]]; cbn [nlen]; lia. Qed.

(* addToFrameBuffer: the NALU-count cap and the access-unit size cap, and the two accumulations *)
Lemma bridge_fb (fl l fsz add : N) : Z.of_N (fl + l) < i64max -> Z.of_N (fsz + add) < i64max ->
  k_h264_fb_count (Z.of_N fl) (Z.of_N l) (Z.of_N maxn) = (maxn <? fl + l)%N /\
  k_h264_fb_size (Z.of_N fsz) (Z.of_N add) (Z.of_N cap) = (cap <? fsz + add)%N /\
  k_h264_fb_len_acc (Z.of_N fl) (Z.of_N l) = Z.of_N (fl + l) /\
  k_h264_fb_size_acc (Z.of_N fsz) (Z.of_N add) = Z.of_N (fsz + add).
Proof.
  unfold k_h264_fb_count, k_h264_fb_size, k_h264_fb_len_acc, k_h264_fb_size_acc, i64max. intros H1 H2.
  rewrite !ki64_small by lia. rewrite <- !N2Z.inj_add. repeat split; apply gtb_N.
Qed.

Theorem caps_kernels_are_the_code (pl pl1 data rest : bytes) (b0 p0 p1 fs fl l fsz add : N) :
  byte p0 -> byte p1 -> Z.of_N (fs + nlen data) < i64max -> Z.of_N (fl + l) < i64max -> Z.of_N (fsz + add) < i64max ->
  k_h264_dec_short (Z.of_N (nlen pl)) = match pl with [] => true | _ :: _ => false end /\
  k_h264_dec_fushort (Z.of_N (nlen (b0 :: pl1))) = match pl1 with [] => true | _ :: _ => false end /\
  k_h264_dec_cap (k_h264_dec_acc (Z.of_N fs) (Z.of_N (nlen data))) (Z.of_N cap) = (cap <? fs + nlen data)%N /\
  k_h264_dec_acc (Z.of_N fs) (Z.of_N (nlen data)) = Z.of_N (fs + nlen data) /\
  k_h264_stapa_short (Z.of_N (nlen pl)) = match pl with _ :: _ :: _ => false | _ => true end /\
  k_h264_stapa_size (Z.of_N p0) (Z.of_N p1) = Z.of_N (p0 * 256 + p1) /\
  k_h264_stapa_over (Z.of_N (p0 * 256 + p1)) (Z.of_N (nlen rest)) = (nlen rest <? p0 * 256 + p1)%N /\
  k_h264_fb_count (Z.of_N fl) (Z.of_N l) (Z.of_N maxn) = (maxn <? fl + l)%N /\
  k_h264_fb_size (Z.of_N fsz) (Z.of_N add) (Z.of_N cap) = (cap <? fsz + add)%N /\
  k_h264_fb_len_acc (Z.of_N fl) (Z.of_N l) = Z.of_N (fl + l) /\
  k_h264_fb_size_acc (Z.of_N fsz) (Z.of_N add) = Z.of_N (fsz + add).
Proof.
  intros H0 H1 H2 H3 H4.
  destruct (bridge_dec_cap fs data H2) as (A & B). destruct (bridge_stapa p0 p1 rest H0 H1) as (C & D).
  destruct (bridge_fb fl l fsz add H3 H4) as (E & F & G & H).
  split; [apply bridge_dec_short|]. split; [apply bridge_dec_fushort|]. split; [exact B|]. split; [exact A|].
  split; [apply bridge_stapa_short|]. repeat split; assumption.
Qed.

(* C03, rtph264 - statements only *)
From GVL Require Import NList Rtp.
From GV_h264 Require Import Model Proofs.
Open Scope N_scope.

(* One access unit: for every payload limit 3 <= max <= 65538 (3 is the smallest value for which
   the encoder works; above 65538 the 16-bit STAP-A size field could overflow), every initial sequence
   number, every timestamp the application stamps on the packets, every valid access unit
   (1..MaxNALUsPerAccessUnit NAL units, at most MaxAccessUnitSize bytes, each NALU non-empty with
   forbidden_zero_bit clear, type outside 24..29 and no 00 00 01 inside) and every clean decoder state
   (no fragments, empty frame buffer; Annex-B mode on or off, any expected sequence number):
   the encoder succeeds, every packet but the last answers "more packets needed", the last returns
   exactly the access unit - same NAL units, same bytes, same grouping - and the decoder is clean again. *)
Theorem C03_h264_roundtrip : forall max seq ts au d,
  3 <= max -> max <= 65538 -> seq < 65536 -> valid_frame au -> clean d ->
  exists ps seq' d', enc max seq au = Some (ps, seq') /\
    dec_run d (set_ts ts ps) = (d', repeat DMore (length ps - 1) ++ [DFrame au]) /\ clean d'.
Proof. exact roundtrip. Qed.
Print Assumptions C03_h264_roundtrip.

(* consecutive access units (timestamps tss, arbitrary) through one encoder/decoder pair *)
Theorem C03_h264_roundtrip_seq : forall max, 3 <= max -> max <= 65538 -> forall frames tss seq d,
  seq < 65536 -> Forall valid_frame frames -> length tss = length frames -> clean d ->
  exists pss d', enc_many max seq frames = Some pss /\
    dec_run d (stamp tss pss) = (d', expect pss frames) /\ clean d'.
Proof. exact roundtrip_seq. Qed.
Print Assumptions C03_h264_roundtrip_seq.

(* non-vacuity: limit 8; a fragmented NALU (2 FU-A packets), then two NALUs aggregated in one STAP-A,
   then a single NALU; sequence numbers wrap *)
Definition ex_au : list bytes := [[101; 0; 0; 3; 1; 9; 8; 7; 6; 5]; [6; 1]; [7]; [65; 2; 3; 4; 5]].
Example C03_h264_example :
  valid_frame ex_au /\
  match enc 8 65534 ex_au with
  | Some (ps, q) => (map pseq ps, map (fun p => nlen (ppayload p)) ps, q, snd (dec_run dinit ps))
  | None => ([], [], 0, [])
  end = ([65534; 65535; 0; 1], [8; 5; 8; 5], 2, [DMore; DMore; DMore; DFrame ex_au]).
Proof.
  split; [|vm_compute; reflexivity].
  unfold valid_frame, ex_au. split; [discriminate|]. split; [vm_compute; discriminate|]. split; [vm_compute; discriminate|].
  repeat constructor.
Qed.

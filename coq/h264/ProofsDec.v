(* rtph264 decoder on arbitrary packet histories (C08): never panics / always terminates, retained
   bytes bounded, returned frames bounded; retained slice headers are NOT bounded (refutation). *)
From GVL Require Import NList Wire Chunks Rtp.
From GV_h264 Require Import Model ProofsEnc.
From Coq Require Import ZifyBool ZifyNat ZifyN.
Open Scope N_scope.

(* ---------- checked primitives succeed within bounds ---------- *)
Lemma nsub_ok {A} (l : list A) i j : i <= j -> j <= nlen l -> nsub l i j = Some (ntake (j - i) (ndrop i l)).
Proof.
  intros H1 H2. unfold nsub.
  destruct (N.leb_spec i j); [|lia]. destruct (N.leb_spec j (nlen l)); [|lia]. reflexivity.
Qed.

Lemma find_sc_bound b : forall i, find_sc b = Some i -> i + 3 <= nlen b.
Proof.
  induction b as [|x t IH]; intros i H; cbn [find_sc] in H; [discriminate|].
  destruct ((x =? 0) && starts01 t) eqn:E.
  - injection H as <-. apply andb_prop in E. destruct E as [_ E].
    destruct t as [|a [|b r]]; cbn [starts01] in E; try discriminate. cbn [nlen]. lia.
  - destruct (find_sc t) as [j|]; cbn [option_map] in H; [|discriminate].
    injection H as <-. specialize (IH j eq_refl). cbn [nlen]. lia.
Qed.

Lemma prev_is_zero_ok b i : i <= nlen b -> prev_is_zero b i <> None.
Proof.
  intros H. unfold prev_is_zero. destruct (N.eqb_spec i 0); [discriminate|].
  destruct (nnth_lt b (i - 1)) as [x ->]; [lia|discriminate].
Qed.

(* ---------- splitNALUs terminates without panic ---------- *)
Lemma split_aux_total : forall fuel b acc, nlen b <= nlen fuel -> split_aux fuel b acc <> None.
Proof.
  induction fuel as [|f fuel IH]; intros b acc Hl; destruct b as [|x t]; cbn [split_aux]; try discriminate.
  - cbn [nlen] in Hl. lia.
  - set (b := x :: t) in *. destruct (find_sc b) as [idx0|] eqn:Ef; [|discriminate].
    pose proof (find_sc_bound b idx0 Ef) as Hb.
    destruct (prev_is_zero b idx0) as [z|] eqn:Ez; [|exfalso; revert Ez; apply prev_is_zero_ok; lia].
    assert (Hz : z = true -> 0 < idx0).
    { intros ->. unfold prev_is_zero in Ez. destruct (N.eqb_spec idx0 0); [discriminate|lia]. }
    set (idx := if z then idx0 - 1 else idx0). set (sz := if z then 4 else 3).
    assert (Hsum : idx + sz = idx0 + 3).
    { unfold idx, sz. destruct z; [specialize (Hz eq_refl)|]; lia. }
    assert (Hlen : nlen b = N.succ (nlen t)) by reflexivity.
    destruct (N.eqb_spec idx 0) as [Hi|Hi].
    + rewrite nsub_ok by lia. apply IH. rewrite nlen_ntake, nlen_ndrop. cbn [nlen] in Hl. lia.
    + rewrite nsub_ok by lia. rewrite nsub_ok by lia. apply IH.
      rewrite nlen_ntake, nlen_ndrop. cbn [nlen] in Hl. lia.
Qed.

Lemma split_nalus_total b : split_nalus b <> None.
Proof. apply split_aux_total. lia. Qed.

(* ---------- AnnexB.Unmarshal terminates without panic ---------- *)
Lemma annexb_loop_total : forall fuel rest ausize acc, nlen rest <= nlen fuel ->
  annexb_loop fuel rest ausize acc <> PPanic.
Proof.
  induction fuel as [|f fuel IH]; intros rest ausize acc Hl; destruct rest as [|x t]; cbn [annexb_loop]; try discriminate.
  - cbn [nlen] in Hl. lia.
  - set (b := x :: t) in *. destruct (find_sc b) as [i|] eqn:Ef.
    2:{ destruct (cap <? ausize + nlen b); discriminate. }
    pose proof (find_sc_bound b i Ef) as Hb.
    destruct (prev_is_zero b i) as [z|] eqn:Ez; [|exfalso; revert Ez; apply prev_is_zero_ok; lia].
    assert (Hz : z = true -> 0 < i).
    { intros ->. unfold prev_is_zero in Ez. destruct (N.eqb_spec i 0); [discriminate|lia]. }
    rewrite nsub_ok by lia.
    assert (Hr : nlen (ntake (nlen b - (i + 3)) (ndrop (i + 3) b)) <= nlen fuel).
    { rewrite nlen_ntake, nlen_ndrop. cbn [nlen] in Hl. lia. }
    set (e := if z then i - 1 else i).
    destruct (0 <? e); [|apply IH; exact Hr].
    destruct (cap <? ausize + e); [discriminate|].
    rewrite nsub_ok; [apply IH; exact Hr|lia|]. unfold e. destruct z; lia.
Qed.

Lemma annexb_unmarshal_total buf : annexb_unmarshal buf <> PPanic.
Proof.
  unfold annexb_unmarshal.
  match goal with |- context [match ?s with None => _ | Some _ => _ end] => destruct s as [rest|] end; [|discriminate].
  destruct rest as [|x t]; [discriminate|].
  pose proof (annexb_loop_total (x :: t) (x :: t) 0 [] (N.le_refl _)) as H.
  destruct (annexb_loop (x :: t) (x :: t) 0 []) as [acc| |]; [|discriminate|contradiction].
  destruct acc; [discriminate|]. destruct (maxn <? _); discriminate.
Qed.

(* ---------- the STAP-A walk terminates without panic ---------- *)
Lemma stapa_walk_total : forall fuel pl acc, nlen pl <= nlen fuel -> stapa_walk fuel pl acc <> PPanic.
Proof.
  induction fuel as [|f fuel IH]; intros pl acc Hl.
  - destruct pl as [|p0 [|p1 rest]]; cbn [stapa_walk]; try discriminate. cbn [nlen] in Hl. lia.
  - destruct pl as [|p0 [|p1 rest]]; cbn [stapa_walk]; try discriminate.
    destruct (N.eqb_spec (p0 * 256 + p1) 0); [destruct (all_zero rest); discriminate|].
    destruct (N.ltb_spec (nlen rest) (p0 * 256 + p1)); [discriminate|].
    destruct (ndrop (p0 * 256 + p1) rest) as [|y r] eqn:Ed; [discriminate|].
    apply IH. rewrite <- Ed, nlen_ndrop. cbn [nlen] in Hl. lia.
Qed.

(* ---------- joinFragments is exact when size = total length ---------- *)
Lemma join_aux_exact frags : forall size n acc,
  n = nlen acc -> size = n + sum_len frags -> join_aux frags size n acc = Some (acc ++ concat frags).
Proof.
  induction frags as [|p t IH]; intros size n acc Hn Hs; cbn [join_aux concat sum_len] in *.
  - replace (size - n) with 0 by lia. cbn [nrep]. reflexivity.
  - destruct (N.ltb_spec size n); [lia|].
    rewrite ntake_all by lia. rewrite IH; [now rewrite <- app_assoc| rewrite nlen_app; lia | lia].
Qed.
Lemma join_exact frags : join frags (sum_len frags) = Some (concat frags).
Proof. unfold join. now rewrite join_aux_exact with (acc := []). Qed.

(* ---------- invariant ---------- *)
(* [strict]: every packet so far carried more than 2 bytes, so no stored fragment is empty *)
Definition Inv (P : N) (strict : bool) (d : dstate) : Prop :=
  dfsize d = sum_len (dfrags d) /\ dfsize d <= N.max cap P /\
  (strict = true -> Forall (fun f => 0 < nlen f) (dfrags d)) /\
  dfblen d = nlen (dfb d) /\ dfbsize d = sum_len (dfb d) /\ dfblen d <= maxn /\ dfbsize d <= cap.

Definition pkt_ok (P : N) (strict : bool) (p : packet) : Prop :=
  nlen (ppayload p) <= P /\ (strict = true -> 2 < nlen (ppayload p)).

Lemma inv_init P s : Inv P s dinit.
Proof. unfold Inv, dinit, maxn, cap; cbn. repeat split; auto; lia. Qed.

Lemma inv_reset_frags P s d : Inv P s d -> Inv P s (reset_frags d).
Proof. unfold Inv, reset_frags; cbn. intros (_ & _ & _ & H). repeat split; try apply H; auto; lia. Qed.

Lemma inv_set_annexb P s d b : Inv P s d -> Inv P s (set_annexb d b).
Proof. unfold Inv, set_annexb; cbn. tauto. Qed.

Lemma inv_reset_fb P s d : Inv P s d -> Inv P s (reset_fb d).
Proof.
  unfold Inv, reset_fb, maxn, cap; cbn. intros (H1 & H2 & H3 & _). repeat split; auto; lia.
Qed.

Lemma finish_nalus_inv P s d nalus : Inv P s d ->
  Inv P s (fst (finish_nalus d nalus)) /\ snd (finish_nalus d nalus) <> NPanic.
Proof.
  intros HI. unfold finish_nalus, remove_annexb.
  destruct nalus as [|nalu [|n2 r]]; cbn [fst snd]; try (split; [assumption|discriminate]).
  destruct (dannexb d || contains4 nalu); cbn [fst snd]; [|split; [assumption|discriminate]].
  match goal with |- context [annexb_unmarshal ?b] =>
    pose proof (annexb_unmarshal_total b) as Ht; destruct (annexb_unmarshal b) end;
  cbn [fst snd]; (split; [now apply inv_set_annexb|]); try discriminate. contradiction.
Qed.

Lemma finish_frags_inv P s d : Inv P s d ->
  Inv P s (fst (finish_frags d)) /\ snd (finish_frags d) <> NPanic.
Proof.
  intros HI. unfold finish_frags. destruct HI as (Hs & HI').
  rewrite Hs, join_exact.
  pose proof (split_nalus_total (concat (dfrags d))) as Ht.
  destruct (split_nalus (concat (dfrags d))) as [nalus|]; [|contradiction].
  apply finish_nalus_inv. apply inv_reset_frags. split; assumption.
Qed.

Lemma decode_nalus_inv P s d p : Inv P s d -> pkt_ok P s p ->
  Inv P s (fst (decode_nalus d p)) /\ snd (decode_nalus d p) <> NPanic.
Proof.
  intros HI [Hp Hstrict]. unfold decode_nalus.
  destruct (ppayload p) as [|b0 pl1] eqn:Epl; cbn [fst snd]; [split; [now apply inv_reset_frags|discriminate]|].
  destruct (N.land b0 31 =? t_fua).
  - destruct pl1 as [|b1 data]; cbn [fst snd]; [split; [assumption|discriminate]|].
    assert (Hdata : s = true -> 0 < nlen data).
    { intros Hst. specialize (Hstrict Hst). cbn [nlen] in Hstrict. lia. }
    destruct (N.shiftr b1 7 =? 1).
    + match goal with |- context [set_frags d ?fr ?sz ?nx] => set (d1 := set_frags d fr sz nx) end.
      assert (H1 : Inv P s d1).
      { destruct HI as (_ & _ & _ & Hfb). unfold Inv, d1, set_frags; cbn [dfrags dfsize dfb dfblen dfbsize sum_len].
        cbn [nlen] in *. repeat split; try apply Hfb; try lia.
        intros Hst. constructor; [cbn [nlen]; lia|]. constructor; [now apply Hdata|constructor]. }
      destruct (negb _); [now apply finish_frags_inv|]. cbn [fst snd]. split; [assumption|discriminate].
    + destruct (dfsize d =? 0); cbn [fst snd]; [split; [assumption|discriminate]|].
      destruct (negb (pseq p =? dnext d)); cbn [fst snd]; [split; [now apply inv_reset_frags|discriminate]|].
      destruct (N.ltb_spec cap (dfsize d + nlen data)); cbn [fst snd]; [split; [now apply inv_reset_frags|discriminate]|].
      match goal with |- context [set_frags d ?fr ?sz ?nx] => set (d1 := set_frags d fr sz nx) end.
      assert (H1 : Inv P s d1).
      { destruct HI as (Hs & _ & Hne & Hfb). unfold Inv, d1, set_frags; cbn [dfrags dfsize dfb dfblen dfbsize].
        rewrite sum_len_app. cbn [sum_len]. repeat split; try apply Hfb; try lia.
        intros Hst. apply Forall_app. split; [now apply Hne|]. constructor; [now apply Hdata|constructor]. }
      destruct (negb _); [cbn [fst snd]; split; [assumption|discriminate]|now apply finish_frags_inv].
  - destruct (N.land b0 31 =? t_stapa).
    + pose proof (stapa_walk_total pl1 pl1 [] (N.le_refl _)) as Ht.
      destruct (stapa_walk pl1 pl1 []) as [nalus| |]; cbn [fst snd];
        [|split; [now apply inv_reset_frags|discriminate]|contradiction].
      destruct nalus; [cbn [fst snd]; split; [now apply inv_reset_frags|discriminate]|].
      apply finish_nalus_inv. now apply inv_reset_frags.
    + destruct (_ || _); cbn [fst snd]; [split; [now apply inv_reset_frags|discriminate]|].
      apply finish_nalus_inv. now apply inv_reset_frags.
Qed.

Definition frame_ok (f : list bytes) : Prop := nlen f <= maxn /\ sum_len f <= cap.

Lemma add_fb_inv P s d nalus ts : Inv P s d ->
  Inv P s (fst (add_fb d nalus (nlen nalus) ts)) /\
  (snd (add_fb d nalus (nlen nalus) ts) = true -> dfb (fst (add_fb d nalus (nlen nalus) ts)) = dfb d ++ nalus).
Proof.
  intros HI. unfold add_fb.
  destruct (N.ltb_spec maxn (dfblen d + nlen nalus)); cbn [fst snd]; [split; [now apply inv_reset_fb|discriminate]|].
  destruct (N.ltb_spec cap (dfbsize d + sum_len nalus)); cbn [fst snd]; [split; [now apply inv_reset_fb|discriminate]|].
  split; [|reflexivity]. destruct HI as (H1 & H2 & H3 & H4 & H5 & H6 & H7).
  unfold Inv, set_fb; cbn [dfrags dfsize dfb dfblen dfbsize]. rewrite nlen_app, sum_len_app.
  repeat split; auto; lia.
Qed.

Lemma inv_frame_ok P s d : Inv P s d -> frame_ok (dfb d).
Proof. intros (_ & _ & _ & H4 & H5 & H6 & H7). unfold frame_ok. lia. Qed.

Lemma dec_inv P s d p : Inv P s d -> pkt_ok P s p ->
  Inv P s (fst (dec d p)) /\ snd (dec d p) <> DPanic /\
  (forall f, snd (dec d p) = DFrame f -> frame_ok f).
Proof.
  intros HI Hp. destruct (decode_nalus_inv P s d p HI Hp) as [H1 Hnp]. unfold dec.
  destruct (decode_nalus d p) as [d1 [nalus| | |]]; cbn [fst snd] in *;
    try (split; [assumption|split; [discriminate|intros f Hf; discriminate]]); [|contradiction].
  destruct (negb (is_nil (dfb d1)) && negb (pts p =? dfbts d1)).
  - pose proof (add_fb_inv P s (reset_fb d1) nalus (pts p) (inv_reset_fb _ _ _ H1)) as [H2 _].
    destruct (add_fb (reset_fb d1) nalus (nlen nalus) (pts p)) as [d2 [|]]; cbn [fst snd] in *.
    + split; [assumption|]. split; [discriminate|]. intros f Hf. injection Hf as <-. eapply inv_frame_ok; eassumption.
    + split; [assumption|]. split; [discriminate|]. intros f Hf. discriminate.
  - pose proof (add_fb_inv P s d1 nalus (pts p) H1) as [H2 _].
    destruct (add_fb d1 nalus (nlen nalus) (pts p)) as [d2 [|]]; cbn [fst snd] in *.
    + destruct (negb (pmarker p)); cbn [fst snd].
      * split; [assumption|]. split; [discriminate|]. intros f Hf. discriminate.
      * split; [now apply inv_reset_fb|]. split; [discriminate|]. intros f Hf. injection Hf as <-.
        eapply inv_frame_ok; eassumption.
    + split; [assumption|]. split; [discriminate|]. intros f Hf. discriminate.
Qed.

Lemma dec_run_inv P s : forall ps d, Inv P s d -> Forall (pkt_ok P s) ps ->
  Inv P s (fst (dec_run d ps)) /\ ~ In DPanic (snd (dec_run d ps)) /\
  (forall f, In (DFrame f) (snd (dec_run d ps)) -> frame_ok f).
Proof.
  induction ps as [|p t IH]; intros d HI HF; cbn [dec_run]; [cbn; tauto|].
  inversion HF as [|? ? Hp Ht]; subst.
  destruct (dec_inv P s d p HI Hp) as (HI' & Hnp & Hfr). destruct (dec d p) as [d' r] eqn:E. cbn [fst snd] in *.
  destruct (IH d' HI' Ht) as (HI'' & Hnp' & Hfr'). destruct (dec_run d' t) as [d'' rs]. cbn [fst snd] in *.
  split; [assumption|]. split.
  - intros [H|H]; [congruence|contradiction].
  - intros f [H|H]; [now apply Hfr|now apply Hfr'].
Qed.

(* every history is bounded by some P *)
Lemma hist_bound (hist : list packet) : exists P, Forall (pkt_ok P false) hist.
Proof.
  induction hist as [|p t [P IH]]; [exists 0; constructor|].
  exists (N.max P (nlen (ppayload p))). constructor.
  - split; [lia|discriminate].
  - eapply Forall_impl; [|exact IH]. intros q [Hq _]. split; [lia|discriminate].
Qed.

(* ---------- C08 ---------- *)
Theorem total hist : ~ In DPanic (snd (dec_run dinit hist)).
Proof.
  destruct (hist_bound hist) as [P HP].
  apply (dec_run_inv P false hist dinit (inv_init _ _) HP).
Qed.

Theorem bounded P hist :
  Forall (fun p => nlen (ppayload p) <= P) hist ->
  let '(d, rs) := dec_run dinit hist in
  fst (retained d) <= N.max cap P + cap /\ nlen (dfb d) <= maxn /\
  forall f, In (DFrame f) rs -> nlen f <= maxn /\ sum_len f <= cap.
Proof.
  intros HF.
  assert (HF' : Forall (pkt_ok P false) hist).
  { eapply Forall_impl; [|exact HF]. intros p Hp. split; [assumption|discriminate]. }
  pose proof (dec_run_inv P false hist dinit (inv_init _ _) HF') as (HI & _ & Hfr).
  destruct (dec_run dinit hist) as [d rs]. cbn [fst snd] in *.
  destruct HI as (H1 & H2 & _ & H4 & H5 & H6 & H7). unfold retained; cbn [fst snd].
  split; [lia|]. split; [lia|]. intros f Hf. apply Hfr in Hf. exact Hf.
Qed.

(* the slice-header count is bounded as long as no packet is a bare 2-byte header *)
Theorem slices_bounded_partial P hist :
  Forall (fun p => 2 < nlen (ppayload p) /\ nlen (ppayload p) <= P) hist ->
  snd (retained (fst (dec_run dinit hist))) <= N.max cap P + maxn.
Proof.
  intros HF.
  assert (HF' : Forall (pkt_ok P true) hist).
  { eapply Forall_impl; [|exact HF]. intros p [Hp1 Hp2]. split; [assumption|intros _; assumption]. }
  pose proof (dec_run_inv P true hist dinit (inv_init _ _) HF') as (HI & _ & _).
  destruct (dec_run dinit hist) as [d rs]. cbn [fst snd] in *.
  destruct HI as (H1 & H2 & H3 & H4 & H5 & H6 & H7). unfold retained; cbn [fst snd].
  specialize (H3 eq_refl).
  assert (G : nlen (dfrags d) <= sum_len (dfrags d)).
  { clear -H3. induction H3 as [|x t Hx Ht IH]; cbn [nlen sum_len]; lia. }
  lia.
Qed.

(* ---------- F6: zero-length FU-A fragments are appended without bound ---------- *)
Definition fua_start_pkt (s : N) : packet := mkPkt s 0 false [124; 133].   (* 0x7c 0x85: FU-A, S=1 *)
Definition fua_empty_pkt (s : N) : packet := mkPkt s 0 false [124; 5].     (* 0x7c 0x05: FU-A, S=0 E=0 *)
Fixpoint empties (s : N) (n : nat) : list packet :=
  match n with O => [] | S k => fua_empty_pkt s :: empties (seq_next s) k end.

Lemma dec_empty d : 0 < dfsize d -> dfsize d <= cap ->
  dec d (fua_empty_pkt (dnext d)) =
  (set_frags d (dfrags d ++ [[]]) (dfsize d) (seq_next (dnext d)), DMore).
Proof.
  intros H0 Hc. unfold dec, decode_nalus, fua_empty_pkt. cbn [ppayload pseq].
  change (N.land 124 31 =? t_fua) with true. cbn iota.
  change (N.shiftr 5 7 =? 1) with false. cbn iota.
  destruct (N.eqb_spec (dfsize d) 0); [lia|]. rewrite N.eqb_refl. cbn [negb nlen].
  rewrite N.add_0_r. destruct (N.ltb_spec cap (dfsize d)); [lia|].
  change (N.land (N.shiftr 5 6) 1 =? 1) with false. cbn [negb]. reflexivity.
Qed.

Lemma empties_run : forall n d, 0 < dfsize d -> dfsize d <= cap ->
  let d' := fst (dec_run d (empties (dnext d) n)) in
  nlen (dfrags d') = nlen (dfrags d) + N.of_nat n /\ dfb d' = dfb d.
Proof.
  induction n as [|n IH]; intros d H0 Hc; cbn [empties dec_run fst]; [split; [lia|reflexivity]|].
  rewrite dec_empty by assumption.
  set (d1 := set_frags d (dfrags d ++ [[]]) (dfsize d) (seq_next (dnext d))).
  specialize (IH d1 H0 Hc). change (dnext d1) with (seq_next (dnext d)) in IH.
  destruct (dec_run d1 (empties (seq_next (dnext d)) n)) as [d2 rs]. cbn [fst] in *.
  destruct IH as [IH1 IH2]. rewrite IH1, IH2. unfold d1, set_frags; cbn [dfrags dfb].
  rewrite nlen_app. cbn [nlen]. split; [lia|reflexivity].
Qed.

Theorem slices_bounded_refuted : forall B, exists hist,
  Forall (fun p => nlen (ppayload p) <= 2) hist /\
  B < snd (retained (fst (dec_run dinit hist))) /\
  fst (retained (fst (dec_run dinit hist))) = 1.
Proof.
  intros B. set (n := N.to_nat B).
  exists (fua_start_pkt 0 :: empties 1 n). split; [|].
  - constructor; [cbn; lia|]. generalize 1. induction n as [|k IH]; intros s; cbn [empties]; constructor; [cbn; lia|apply IH].
  - cbn [dec_run].
    assert (E : dec dinit (fua_start_pkt 0) = (set_frags dinit [[101]; []] 1 1, DMore)) by reflexivity.
    rewrite E. set (d1 := set_frags dinit [[101]; []] 1 1).
    pose proof (empties_run n d1) as H. change (dnext d1) with 1 in H.
    assert (H0 : 0 < dfsize d1) by (cbn; lia).
    assert (Hc : dfsize d1 <= cap) by (unfold cap, GVG.Consts.h264_max_au; cbn; lia).
    specialize (H H0 Hc). cbn zeta in H.
    assert (Hsz : forall m d, 0 < dfsize d -> dfsize d <= cap ->
              sum_len (dfrags d) = dfsize d -> sum_len (dfb d) = 0 ->
              fst (retained (fst (dec_run d (empties (dnext d) m)))) = dfsize d).
    { clear. induction m as [|m IH]; intros d H0 Hc Hs Hb; cbn [empties dec_run fst].
      - unfold retained; cbn [fst]. lia.
      - rewrite dec_empty by assumption.
        set (d1 := set_frags d (dfrags d ++ [[]]) (dfsize d) (seq_next (dnext d))).
        specialize (IH d1). change (dnext d1) with (seq_next (dnext d)) in IH.
        destruct (dec_run d1 (empties (seq_next (dnext d)) m)) as [d2 rs]. cbn [fst] in *.
        apply IH; try assumption. unfold d1, set_frags; cbn [dfrags dfsize]. rewrite sum_len_app. cbn [sum_len nlen]. lia. }
    specialize (Hsz n d1 H0 Hc eq_refl eq_refl). change (dnext d1) with 1 in Hsz.
    destruct (dec_run d1 (empties 1 n)) as [d2 rs]. cbn [fst] in *.
    destruct H as [H1 H2]. split.
    + unfold retained; cbn [snd]. rewrite H1. unfold d1, set_frags; cbn [dfrags nlen]. unfold n. lia.
    + exact Hsz.
Qed.

(* ---------- H264.PTSEqualsDTS never panics, terminates ---------- *)
Lemma pts_stapa_total : forall fuel pl, nlen pl <= nlen fuel -> pts_stapa fuel pl <> None.
Proof.
  induction fuel as [|f fuel IH]; intros pl Hl; destruct pl as [|p0 [|p1 rest]]; cbn [pts_stapa]; try discriminate.
  - cbn [nlen] in Hl. lia.
  - set (size := p0 * 256 + p1).
    destruct (N.eqb_spec size 0); cbn [orb]; [discriminate|].
    destruct (N.ltb_spec (nlen rest) size); [discriminate|].
    rewrite nsub_ok by lia. rewrite nsub_ok by lia.
    destruct (nnth_lt (ntake (size - 0) (ndrop 0 rest)) 0) as [n0 ->].
    { rewrite nlen_ntake, nlen_ndrop. lia. }
    destruct (is_key _); [discriminate|].
    destruct (ntake (nlen rest - size) (ndrop size rest)) as [|y r] eqn:Ed; [discriminate|].
    apply IH. rewrite <- Ed, nlen_ntake, nlen_ndrop. cbn [nlen] in Hl. lia.
Qed.

Theorem pts_equals_dts_total payload : pts_equals_dts payload <> None.
Proof.
  unfold pts_equals_dts. destruct payload as [|b0 pl1]; [discriminate|].
  destruct (is_key _); [discriminate|].
  destruct (_ =? 24); [apply pts_stapa_total; lia|].
  destruct (_ =? 28); [|discriminate].
  destruct pl1 as [|b1 r]; [discriminate|]. destruct (negb _); discriminate.
Qed.

(* C06, rtph264 - statements only *)
From GVL Require Import NList Rtp.
From GV_h264 Require Import Model Proofs.
Open Scope N_scope.

(* One Encode call, for EVERY access unit (valid or not, empty NAL units included) and every limit
   >= 3: the call succeeds (no panic), emits at least one packet, every payload is at most max bytes,
   packet i carries sequence number seq+i mod 2^16 and the timestamp 0 the application overwrites,
   the marker is set on the last packet and on no other, and the encoder continues at seq+count. *)
Theorem C06_h264_packets_wellformed : forall max seq au, 3 <= max -> seq < 65536 ->
  exists ps seq', enc max seq au = Some (ps, seq') /\ ps <> [] /\
    Forall (fun p => nlen (ppayload p) <= max) ps /\
    (forall i p, nnth i ps = Some p ->
       pseq p = seq_add seq i /\ pmarker p = (i + 1 =? nlen ps) /\ pts p = 0) /\
    seq' = seq_add seq (nlen ps).
Proof. exact enc_wellformed. Qed.
Print Assumptions C06_h264_packets_wellformed.

(* any series of Encode calls: sequence numbers increase by exactly one modulo 2^16 from the
   configured initial value across calls; per call the payload bound and the marker placement hold *)
Theorem C06_h264_series_wellformed : forall max, 3 <= max -> forall frames seq, seq < 65536 ->
  exists pss, enc_many max seq frames = Some pss /\ length pss = length frames /\
    (forall i p, nnth i (concat pss) = Some p -> pseq p = seq_add seq i) /\
    Forall (fun ps => ps <> [] /\ Forall (fun p => nlen (ppayload p) <= max) ps /\
                      forall i p, nnth i ps = Some p -> pmarker p = (i + 1 =? nlen ps)) pss.
Proof. exact enc_many_wellformed. Qed.
Print Assumptions C06_h264_series_wellformed.

Example C06_h264_example :
  match enc_many 4 65534 [[[65; 1; 2; 3; 4]]; [[6]; [7]]; [[1; 2; 3]]] with
  | Some pss => (map pseq (concat pss), map pmarker (concat pss), map (fun p => nlen (ppayload p)) (concat pss))
  | None => ([], [], [])
  end = ([65534; 65535; 0; 1; 2], [false; true; false; true; true], [4; 4; 1; 1; 3]).
Proof. vm_compute. reflexivity. Qed.

(* C06, rtph264 - statements only *)
From GVL Require Import NList Rtp.
From GV_h264 Require Import Model Proofs.
Open Scope N_scope.

(* One Encode call, for EVERY access unit (valid or not, empty NAL units included) and every limit
   >= 3: the call succeeds (no panic), emits at least one packet, every payload is at most max bytes,
   packet i carries sequence number seq+i mod 2^16 and the timestamp 0 the application overwrites,
   the marker is set on the last packet and on no other, and the encoder continues at seq+count. *)
Theorem C06_h264_packets_wellformed : forall max seq au, 3 <= max -> seq < 65536 ->
  exists ps seq', enc max seq au = Some (ps, seq') /\ ps <> [] /\
    Forall (fun p => nlen (ppayload p) <= max) ps /\
    (forall i p, nnth i ps = Some p ->
       pseq p = seq_add seq i /\ pmarker p = (i + 1 =? nlen ps) /\ pts p = 0) /\
    seq' = seq_add seq (nlen ps).
Proof. exact enc_wellformed. Qed.
Print Assumptions C06_h264_packets_wellformed.

(* any series of Encode calls: sequence numbers increase by exactly one modulo 2^16 from the
   configured initial value across calls; per call the payload bound and the marker placement hold *)
Theorem C06_h264_series_wellformed : forall max, 3 <= max -> forall frames seq, seq < 65536 ->
  exists pss, enc_many max seq frames = Some pss /\ length pss = length frames /\
    (forall i p, nnth i (concat pss) = Some p -> pseq p = seq_add seq i) /\
    Forall (fun ps => ps <> [] /\ Forall (fun p => nlen (ppayload p) <= max) ps /\
                      forall i p, nnth i ps = Some p -> pmarker p = (i + 1 =? nlen ps)) pss.
Proof. exact enc_many_wellformed. Qed.
Print Assumptions C06_h264_series_wellformed.

Example C06_h264_example :
  match enc_many 4 65534 [[[65; 1; 2; 3; 4]]; [[6]; [7]]; [[1; 2; 3]]] with
  | Some pss => (map pseq (concat pss), map pmarker (concat pss), map (fun p => nlen (ppayload p)) (concat pss))
  | None => ([], [], [])
  end = ([65534; 65535; 0; 1; 2], [false; true; false; true; true], [4; 4; 1; 1; 3]).
Proof. vm_compute. reflexivity. Qed.

(* ---- the translated kernels (tools/go2coq, regenerated from the Go source on every run) ----
   The integer formulas of rtph264/encoder.go - lenAggregated (every statement of its loop), the aggregation test
   lenAggregated(batch, nalu) <= PayloadMaxSize, the single/FU-A decision len(nalu) < PayloadMaxSize, the FU-A budget
   PayloadMaxSize - 2, the fragment count packetCount(avail, len(nalu)-1), the size 2+le of a fragment packet, the
   last-fragment test and the marker expression, the three e.sequenceNumber++ - ARE the formulas of Model.batches /
   write_batch / fua_protos / number: len_agg, <=?, <?, max - 2, nlen (chunks (max-2) rest), i+1 = count, seq_next. *)
From Coq Require Import ZArith.
From GVL Require Import Chunks.
From GVG Require Import Kern.
From GV_h264 Require Import BridgeLib Bridge.
Open Scope Z_scope.

Theorem C06_h264_kernels_are_the_code :
  forall (max : N) (batch : list bytes) (n : bytes) (b0 : N) (rest : bytes) (i pc s : N) (m : bool),
  (3 <= max)%N -> Z.of_N max < i64max -> Z.of_N (len_agg batch + 2 + nlen n) < i64max ->
  Z.of_N (nlen (b0 :: rest)) + 2 < i64max -> (1 <= pc)%N -> Z.of_N pc < i64max ->
  la_code batch None = Z.of_N (len_agg batch) /\
  k_h264_agg_fits (la_code batch (Some n)) (Z.of_N max) = (len_agg batch + 2 + nlen n <=? max)%N /\
  k_h264_one_nalu (Z.of_N (nlen batch)) = (nlen batch =? 1)%N /\
  k_h264_single_fits (Z.of_N (nlen n)) (Z.of_N max) = (nlen n <? max)%N /\
  k_h264_fua_avail (Z.of_N max) = Z.of_N (max - 2) /\
  k_h264_packetCount (k_h264_fua_avail (Z.of_N max)) (k_h264_fua_le (Z.of_N (nlen (b0 :: rest))))
    = Some (Z.of_N (nlen (chunks (max - 2) rest))) /\
  k_h264_fua_size (Z.of_N (nlen rest)) = Z.of_N (nlen (fua_hdr0 b0 :: fua_hdr1 true false b0 :: rest)) /\
  k_h264_fua_last (Z.of_N i) (Z.of_N pc) = (i + 1 =? pc)%N /\
  k_h264_fua_marker (Z.of_N i) (Z.of_N pc) m = ((i + 1 =? pc)%N && m) /\
  k_h264_seq_single (Z.of_N s) = Z.of_N (seq_next s) /\ k_h264_seq_fua (Z.of_N s) = Z.of_N (seq_next s) /\
  k_h264_seq_stapa (Z.of_N s) = Z.of_N (seq_next s).
Proof. exact enc_kernels_are_the_code. Qed.
Print Assumptions C06_h264_kernels_are_the_code.

(* the translated kernels compute, on the boundaries: a 1450-byte limit leaves 1448 bytes per FU-A; an aggregate of
   exactly 1450 bytes fits, 1451 does not; a NALU of 1450 bytes is fragmented, 1449 is sent alone; 65535++ = 0;
   lenAggregated([3 bytes], 1 byte) = 1 + 2+3 + 2+1 *)
Example C06_h264_example_kernels :
  k_h264_fua_avail 1450 = 1448 /\ k_h264_agg_fits 1450 1450 = true /\ k_h264_agg_fits 1451 1450 = false /\
  k_h264_single_fits 1450 1450 = false /\ k_h264_single_fits 1449 1450 = true /\ k_h264_seq_fua 65535 = 0 /\
  k_h264_fua_marker 2 3 true = true /\ k_h264_fua_marker 1 3 true = false /\
  la_code [[1; 2; 3]%N] (Some [4%N]) = 9 /\
  k_h264_packetCount (k_h264_fua_avail 1450) (k_h264_fua_le 2898) = Some 3.
Proof. vm_compute. repeat split. Qed.

(* rtph264: what the decoder does with the packets of one encoder batch, from ANY decoder state
   (shared by C03 and C07), and the round trip from a clean state (C03). *)
From GVL Require Import NList Wire Chunks Rtp.
From GVG Require Import Consts.
From GV_h264 Require Import Model ProofsEnc ProofsDec.
From Coq Require Import ZifyBool ZifyNat ZifyN.
Open Scope N_scope.

(* ---------- valid access units ---------- *)
(* NAL header byte: forbidden_zero_bit clear (the FU-A header cannot carry it), type not one of the
   RTP packet types 24..29 *)
Definition nalu_hdr_ok (b0 : N) : bool :=
  let typ := N.land b0 31 in
  (b0 <? 128) && negb (typ =? t_fua) && negb (typ =? t_stapa) &&
  negb ((typ =? h264_nalu_stapb) || (typ =? h264_nalu_mtap16) || (typ =? h264_nalu_mtap24) || (typ =? h264_nalu_fub)).

(* no 00 00 01 inside (guaranteed by emulation prevention in real NAL units): the decoder would split
   a reassembled NALU there, and 00 00 00 01 switches it to Annex-B mode *)
Definition valid_nalu (n : bytes) : Prop :=
  match n with [] => False | b0 :: _ => nalu_hdr_ok b0 = true end /\ find_sc n = None.

Definition valid_frame (au : list bytes) : Prop :=
  au <> [] /\ nlen au <= maxn /\ sum_len au <= cap /\ Forall valid_nalu au.

Definition clean (d : dstate) : Prop :=
  dfrags d = [] /\ dfsize d = 0 /\ dfb d = [] /\ dfblen d = 0 /\ dfbsize d = 0.

Definition set_ts (ts : N) (ps : list packet) : list packet :=
  map (fun p => mkPkt (pseq p) ts (pmarker p) (ppayload p)) ps.

(* ---------- bit-level facts, by enumeration of the 128 header bytes ---------- *)
Definition below (n : nat) : list N := map N.of_nat (seq 0 n).
Lemma forall_below (P : N -> bool) n : forallb P (below n) = true -> forall b, b < N.of_nat n -> P b = true.
Proof.
  intros H b Hb. rewrite forallb_forall in H. apply H. unfold below. apply in_map_iff.
  exists (N.to_nat b). split; [lia|]. apply in_seq. lia.
Qed.

Definition fua_chk1 (b0 : N) (s e : bool) : bool :=
  let h1 := fua_hdr1 s e b0 in
  (N.shiftr h1 7 =? (if s then 1 else 0)) && (N.land (N.shiftr h1 6) 1 =? (if e then 1 else 0)) &&
  (N.lor (N.shiftl (N.land (N.shiftr (fua_hdr0 b0) 5) 3) 5) (N.land h1 31) =? b0).
Definition fua_chk (b0 : N) : bool :=
  (N.land (fua_hdr0 b0) 31 =? t_fua) &&
  fua_chk1 b0 true true && fua_chk1 b0 true false && fua_chk1 b0 false true && fua_chk1 b0 false false.
Lemma fua_chk_all : forall b0, b0 < 128 -> fua_chk b0 = true.
Proof. apply (forall_below fua_chk 128). vm_compute. reflexivity. Qed.

Lemma fua_bits b0 s e : b0 < 128 ->
  N.land (fua_hdr0 b0) 31 = t_fua /\
  N.shiftr (fua_hdr1 s e b0) 7 = (if s then 1 else 0) /\
  N.land (N.shiftr (fua_hdr1 s e b0) 6) 1 = (if e then 1 else 0) /\
  N.lor (N.shiftl (N.land (N.shiftr (fua_hdr0 b0) 5) 3) 5) (N.land (fua_hdr1 s e b0) 31) = b0.
Proof.
  intros Hb. pose proof (fua_chk_all b0 Hb) as H. unfold fua_chk in H.
  repeat (apply andb_prop in H; destruct H as [H ?]).
  apply N.eqb_eq in H. split; [assumption|].
  assert (G : fua_chk1 b0 s e = true) by (destruct s, e; assumption).
  unfold fua_chk1 in G. repeat (apply andb_prop in G; destruct G as [G ?]).
  repeat split; apply N.eqb_eq; assumption.
Qed.

(* ---------- state algebra ---------- *)
Definition clear_frags (d : dstate) (nx : N) : dstate := set_frags d [] 0 nx.

Lemma set_annexb_id d : dannexb d = true -> set_annexb d true = d.
Proof. destruct d; cbn. intros ->. reflexivity. Qed.
Lemma set_frags_set_frags d a b c a' b' c' : set_frags (set_frags d a b c) a' b' c' = set_frags d a' b' c'.
Proof. reflexivity. Qed.
Lemma reset_frags_set_frags d a b c : reset_frags (set_frags d a b c) = clear_frags d c.
Proof. reflexivity. Qed.
Lemma reset_frags_clear d : reset_frags d = clear_frags d (dnext d).
Proof. reflexivity. Qed.

(* the part of Decode after decodeNALUs *)
Definition post (x : dstate * nres) (ts : N) (mk : bool) : dstate * dres (list bytes) :=
  match x with
  | (d1, NPanic) => (d1, DPanic)
  | (d1, NErr) => (d1, DErr)
  | (d1, NMore) => (d1, DMore)
  | (d1, NOk nalus) =>
      let l := nlen nalus in
      if negb (is_nil (dfb d1)) && negb (ts =? dfbts d1) then
        let ret := dfb d1 in
        match add_fb (reset_fb d1) nalus l ts with
        | (d2, false) => (d2, DErr)
        | (d2, true) => (d2, DFrame ret)
        end
      else
        match add_fb d1 nalus l ts with
        | (d2, false) => (d2, DErr)
        | (d2, true) =>
            if negb mk then (d2, DMore) else (reset_fb d2, DFrame (dfb d2))
        end
  end.
Lemma dec_post d p : dec d p = post (decode_nalus d p) (pts p) (pmarker p).
Proof. reflexivity. Qed.

(* ---------- start codes ---------- *)
Lemma contains4_find_sc b : contains4 b = true -> find_sc b <> None.
Proof.
  induction b as [|x t IH]; cbn [contains4 find_sc]; [discriminate|]. intros H.
  destruct ((x =? 0) && starts01 t); [discriminate|].
  apply orb_prop in H. destruct H as [H|H].
  - apply andb_prop in H. destruct H as [_ H].
    destruct t as [|a [|b [|c r]]]; cbn [starts001] in H; try discriminate.
    apply andb_prop in H. destruct H as [H Hc]. apply andb_prop in H. destruct H as [Ha Hb].
    cbn [find_sc starts01]. rewrite Ha, Hb, Hc. cbn [andb].
    destruct (b =? 1); cbn [andb option_map]; discriminate.
  - specialize (IH H). destruct (find_sc t); [discriminate|contradiction].
Qed.

Lemma split_nalus_single n : n <> [] -> find_sc n = None -> split_nalus n = Some [n].
Proof.
  intros Hne Hf. unfold split_nalus. destruct n as [|x t]; [contradiction|].
  cbn [split_aux]. rewrite Hf. reflexivity.
Qed.

Lemma annexb_single n : n <> [] -> find_sc n = None -> nlen n <= cap ->
  annexb_unmarshal (0 :: 0 :: 0 :: 1 :: n) = POk [n].
Proof.
  intros Hne Hf Hc. unfold annexb_unmarshal. cbn [N.eqb Pos.eqb andb tl].
  destruct n as [|x t]; [contradiction|]. cbn [annexb_loop]. rewrite Hf.
  destruct (N.ltb_spec cap (0 + nlen (x :: t))); [lia|]. cbn [app nlen].
  unfold maxn, h264_max_nalus. reflexivity.
Qed.

Lemma valid_nalu_ne n : valid_nalu n -> n <> [].
Proof. intros [H _]. destruct n; [contradiction|discriminate]. Qed.

(* removeAnnexB is transparent for a valid NALU, in either mode *)
Lemma finish_nalus_valid d n : valid_nalu n -> nlen n <= cap -> finish_nalus d [n] = (d, NOk [n]).
Proof.
  intros Hv Hc. pose proof (valid_nalu_ne n Hv) as Hne. destruct Hv as [_ Hf].
  unfold finish_nalus, remove_annexb.
  assert (Hc4 : contains4 n = false).
  { destruct (contains4 n) eqn:E; [|reflexivity]. apply contains4_find_sc in E. contradiction. }
  assert (Hp4 : has_prefix4 n = false).
  { destruct n as [|x t]; [reflexivity|]. cbn [contains4] in Hc4. apply orb_false_elim in Hc4. apply Hc4. }
  rewrite Hc4, Hp4, orb_false_r. destruct (dannexb d) eqn:Ea; [|reflexivity].
  rewrite annexb_single by assumption. now rewrite set_annexb_id.
Qed.

Lemma finish_nalus_multi d n1 n2 r : finish_nalus d (n1 :: n2 :: r) = (d, NOk (n1 :: n2 :: r)).
Proof. reflexivity. Qed.

(* ---------- a single NAL unit packet ---------- *)
Lemma decode_single d s t m n : valid_nalu n -> nlen n <= cap ->
  decode_nalus d (mkPkt s t m n) = (clear_frags d (dnext d), NOk [n]).
Proof.
  intros Hv Hc. pose proof Hv as [Hh _]. unfold decode_nalus. cbn [ppayload].
  destruct n as [|b0 pl1]; [contradiction|].
  unfold nalu_hdr_ok in Hh. repeat (apply andb_prop in Hh; destruct Hh as [Hh ?]).
  repeat match goal with H : negb _ = true |- _ => apply negb_true_iff in H end.
  repeat match goal with H : _ = false |- _ => rewrite H end.
  rewrite finish_nalus_valid by assumption. reflexivity.
Qed.

(* ---------- a STAP-A packet ---------- *)
Lemma size_field len : len < 65536 -> (len / 256) mod 256 * 256 + len mod 256 = len.
Proof.
  intros H. rewrite (N.mod_small (len / 256)).
  - rewrite N.mul_comm. symmetry. apply N.div_mod. lia.
  - apply N.div_lt_upper_bound; lia.
Qed.

Lemma stapa_body_ne n t : stapa_body (n :: t) <> [].
Proof. discriminate. Qed.

Lemma stapa_walk_ok : forall batch fuel acc, batch <> [] ->
  Forall (fun n => 0 < nlen n /\ nlen n < 65536) batch ->
  nlen (stapa_body batch) <= nlen fuel ->
  stapa_walk fuel (stapa_body batch) acc = POk (acc ++ batch).
Proof.
  induction batch as [|n t IH]; intros fuel acc Hne Hall Hf; [contradiction|].
  inversion Hall as [|? ? [Hn0 Hn1] Ht]; subst.
  destruct fuel as [|f fuel]; [cbn [stapa_body nlen] in Hf; lia|].
  cbn [stapa_body stapa_walk]. rewrite size_field by assumption.
  destruct (N.eqb_spec (nlen n) 0); [lia|].
  destruct (N.ltb_spec (nlen (n ++ stapa_body t)) (nlen n)); [rewrite nlen_app in *; lia|].
  rewrite ntake_app_exact, ndrop_app_exact.
  destruct t as [|n2 t2]; [reflexivity|].
  remember (stapa_body (n2 :: t2)) as body eqn:Eb. destruct body as [|y r]; [discriminate|].
  rewrite IH; [now rewrite <- app_assoc|discriminate|assumption|].
  change (stapa_body (n :: n2 :: t2)) with ((nlen n / 256) mod 256 :: nlen n mod 256 :: n ++ stapa_body (n2 :: t2)) in Hf.
  rewrite <- Eb in Hf. cbn [nlen] in Hf. rewrite nlen_app in Hf. cbn [nlen] in *. lia.
Qed.

Lemma decode_stapa d s t m n1 n2 r :
  Forall (fun n => 0 < nlen n /\ nlen n < 65536) (n1 :: n2 :: r) ->
  decode_nalus d (mkPkt s t m (stapa (n1 :: n2 :: r))) = (clear_frags d (dnext d), NOk (n1 :: n2 :: r)).
Proof.
  intros Hall. unfold decode_nalus, stapa. cbn [ppayload].
  change (N.land t_stapa 31 =? t_fua) with false. change (N.land t_stapa 31 =? t_stapa) with true. cbn iota.
  rewrite stapa_walk_ok; [|discriminate|assumption|lia]. cbn [app]. reflexivity.
Qed.

(* ---------- FU-A packets ---------- *)
(* continuation fragments, from a state that already holds the beginning *)
Lemma fua_rest b0 ts m : b0 < 128 -> forall cs d s, cs <> [] ->
  0 < dfsize d -> dnext d = s -> s < 65536 -> dfsize d + sum_len cs <= cap ->
  dec_run d (set_ts ts (number s (fua_protos b0 m false cs))) =
    let d1 := set_frags d (dfrags d ++ cs) (dfsize d + sum_len cs) (seq_add s (nlen cs)) in
    let '(d2, r) := post (finish_frags d1) ts m in
    (d2, repeat DMore (length cs - 1) ++ [r]).
Proof.
  intros Hb. induction cs as [|c t IH]; intros d s Hne H0 Hnx Hs Hcap; [contradiction|].
  cbn [fua_protos number set_ts map dec_run pseq pmarker ppayload sum_len] in *.
  rewrite dec_post. cbn [pts pmarker]. unfold decode_nalus at 1. cbn [ppayload pseq].
  destruct (fua_bits b0 false (match t with [] => true | _ :: _ => false end) Hb) as (F1 & F2 & F3 & _).
  rewrite F1, N.eqb_refl, F2. change (0 =? 1) with false. cbn iota.
  destruct (N.eqb_spec (dfsize d) 0); [lia|]. rewrite Hnx, N.eqb_refl. cbn [negb].
  destruct (N.ltb_spec cap (dfsize d + nlen c)); [lia|]. rewrite F3.
  destruct t as [|c2 t2].
  - cbn [negb andb N.eqb]. cbn [sum_len nlen length Nat.sub repeat app].
    replace (dfsize d + (nlen c + 0)) with (dfsize d + nlen c) by lia.
    change (seq_add s (N.succ 0)) with (seq_next s).
    destruct (post _ ts m) as [d2 r]. reflexivity.
  - change (0 =? 1) with false. cbn [negb andb post].
    set (d1 := set_frags d (dfrags d ++ [c]) (dfsize d + nlen c) (seq_next s)).
    change (set_ts ts (number (seq_next s) (fua_protos b0 m false (c2 :: t2)))) with
      (map (fun p => mkPkt (pseq p) ts (pmarker p) (ppayload p)) (number (seq_next s) (fua_protos b0 m false (c2 :: t2)))).
    specialize (IH d1 (seq_next s)). unfold set_ts in IH. rewrite IH; clear IH.
    + unfold d1, set_frags. cbn [dfrags dfsize dnext dannexb dfb dfblen dfbsize dfbts]. rewrite <- app_assoc. cbn [app].
      replace (dfsize d + nlen c + sum_len (c2 :: t2)) with (dfsize d + (nlen c + sum_len (c2 :: t2))) by lia.
      replace (seq_add (seq_next s) (nlen (c2 :: t2))) with (seq_add s (nlen (c :: c2 :: t2)))
        by (rewrite seq_add_next; f_equal; cbn [nlen]; lia).
      cbn zeta. destruct (post _ ts m) as [d2 r]. cbn [length Nat.sub]. rewrite Nat.sub_0_r. reflexivity.
    + discriminate.
    + unfold d1, set_frags; cbn [dfsize]. lia.
    + reflexivity.
    + apply seq_next_lt.
    + unfold d1, set_frags; cbn [dfsize]. cbn [sum_len] in Hcap. cbn [sum_len]. clear -Hcap. lia.
Qed.

(* a whole fragmented NALU, from any state *)
Lemma fua_run b0 rest ts m c1 c2 cs d s :
  b0 < 128 -> s < 65536 -> concat (c1 :: c2 :: cs) = rest -> nlen (b0 :: rest) <= cap ->
  dec_run d (set_ts ts (number s (fua_protos b0 m true (c1 :: c2 :: cs)))) =
    let d1 := set_frags d ([b0] :: c1 :: c2 :: cs) (nlen (b0 :: rest)) (seq_add s (nlen (c1 :: c2 :: cs))) in
    let '(d2, r) := post (finish_frags d1) ts m in
    (d2, repeat DMore (length (c1 :: c2 :: cs) - 1) ++ [r]).
Proof.
  intros Hb Hs Hcat Hcap.
  change (fua_protos b0 m true (c1 :: c2 :: cs)) with
    ((false && m, fua_hdr0 b0 :: fua_hdr1 true false b0 :: c1) :: fua_protos b0 m false (c2 :: cs)).
  cbn [number set_ts map dec_run pseq pmarker ppayload].
  rewrite dec_post. cbn [pts pmarker]. unfold decode_nalus at 1. cbn [ppayload pseq].
  destruct (fua_bits b0 true false Hb) as (F1 & F2 & F3 & F4).
  rewrite F1, N.eqb_refl, F2, N.eqb_refl, F3, F4. change (negb (0 =? 0)) with false. cbn iota. cbn [andb post].
  set (d1 := set_frags d [[b0]; c1] (nlen (fua_hdr1 true false b0 :: c1)) (seq_next s)).
  pose proof (fua_rest b0 ts m Hb (c2 :: cs) d1 (seq_next s)) as H. unfold set_ts in H.
  assert (Hsum : sum_len (c1 :: c2 :: cs) = nlen rest) by (rewrite sum_len_concat; now f_equal).
  cbn [sum_len nlen] in Hsum, Hcap.
  rewrite H; clear H.
  - unfold d1, set_frags. cbn [dfrags dfsize dnext dannexb dfb dfblen dfbsize dfbts]. cbn [app nlen].
    replace (N.succ (nlen c1) + sum_len (c2 :: cs)) with (N.succ (nlen rest)) by (cbn [sum_len]; lia).
    replace (seq_add (seq_next s) (N.succ (nlen cs))) with (seq_add s (N.succ (N.succ (nlen cs))))
      by (rewrite seq_add_next; f_equal; lia).
    cbn zeta. destruct (post _ ts m) as [d2 r]. cbn [length Nat.sub]. rewrite Nat.sub_0_r. reflexivity.
  - discriminate.
  - unfold d1, set_frags; cbn [dfsize nlen]. lia.
  - reflexivity.
  - apply seq_next_lt.
  - unfold d1, set_frags; cbn [dfsize nlen sum_len]. lia.
Qed.

Lemma finish_frags_valid d b0 rest cs nx :
  valid_nalu (b0 :: rest) -> nlen (b0 :: rest) <= cap -> concat cs = rest ->
  finish_frags (set_frags d ([b0] :: cs) (nlen (b0 :: rest)) nx) = (clear_frags d nx, NOk [b0 :: rest]).
Proof.
  intros Hv Hc Hcat. unfold finish_frags.
  change (dfrags (set_frags d ([b0] :: cs) (nlen (b0 :: rest)) nx)) with ([b0] :: cs).
  change (dfsize (set_frags d ([b0] :: cs) (nlen (b0 :: rest)) nx)) with (nlen (b0 :: rest)).
  replace (nlen (b0 :: rest)) with (sum_len ([b0] :: cs)) at 1.
  2:{ rewrite sum_len_concat. cbn [concat app]. now rewrite Hcat. }
  rewrite join_exact. cbn [concat app]. rewrite Hcat.
  rewrite split_nalus_single; [|discriminate|apply Hv].
  rewrite reset_frags_set_frags. now apply finish_nalus_valid.
Qed.

(* ---------- one encoder batch, from ANY decoder state ---------- *)
Definition batch_ok (max : N) (b : list bytes) : Prop :=
  b <> [] /\ Forall valid_nalu b /\ ok_batch max b /\ sum_len b <= cap /\ nlen b <= maxn.

Lemma in_sum_len n (b : list bytes) : In n b -> nlen n <= sum_len b.
Proof.
  induction b as [|x t IH]; intros H; [contradiction|]. cbn [sum_len]. destruct H as [->|H]; [lia|].
  specialize (IH H). lia.
Qed.

Lemma batch_run max m b ts d s : 3 <= max -> max <= 65538 -> batch_ok max b -> s < 65536 ->
  exists protos nx, write_batch max m b = Some protos /\ protos <> [] /\
    dec_run d (set_ts ts (number s protos)) =
      let '(d2, r) := post (clear_frags d nx, NOk b) ts m in
      (d2, repeat DMore (length protos - 1) ++ [r]).
Proof.
  intros Hm HM (Hne & Hv & Hok & Hsz & Hbn) Hs. unfold write_batch.
  destruct b as [|n [|n2 r]]; [contradiction| |].
  - (* one NALU *)
    inversion Hv as [|? ? Hvn _]; subst. cbn [sum_len] in Hsz.
    destruct (N.ltb_spec (nlen n) max) as [Hlt|Hge].
    + exists [(m, n)], (dnext d). split; [reflexivity|]. split; [discriminate|].
      cbn [number set_ts map dec_run pseq pmarker ppayload]. rewrite dec_post. cbn [pts pmarker].
      rewrite decode_single by (assumption || lia).
      destruct (post _ ts m) as [d2 r']. reflexivity.
    + destruct n as [|b0 rest]; [destruct Hvn as [[] _]|].
      pose proof Hvn as [Hh _]. unfold nalu_hdr_ok in Hh.
      repeat (apply andb_prop in Hh; destruct Hh as [Hh ?]). apply N.ltb_lt in Hh.
      assert (Hrest : rest <> []) by (destruct rest; [cbn [nlen] in Hge; lia|discriminate]).
      assert (Hav : 0 < max - 2) by lia.
      pose proof (chunks_concat (max - 2) rest Hav) as Hcat.
      pose proof (chunks_count (max - 2) rest Hav) as Hcnt.
      remember (chunks (max - 2) rest) as cs eqn:Ecs.
      destruct cs as [|c1 [|c2 cs]].
      * cbn in Hcat. subst rest. contradiction.
      * (* one chunk would mean len - 1 <= max - 2 *)
        exfalso. cbn [nlen] in Hcnt, Hge.
        assert (Hq : 2 <= (nlen rest + (max - 2) - 1) / (max - 2)).
        { apply N.div_le_lower_bound; lia. }
        lia.
      * eexists. exists (seq_add s (nlen (c1 :: c2 :: cs))). split; [reflexivity|]. split; [discriminate|].
        rewrite (fua_run b0 rest ts m c1 c2 cs d s) by (assumption || lia).
        cbn zeta. rewrite finish_frags_valid by (assumption || lia).
        destruct (post _ ts m) as [d2 r']. rewrite fua_protos_length. reflexivity.
  - (* aggregation *)
    exists [(m, stapa (n :: n2 :: r))], (dnext d). split; [reflexivity|]. split; [discriminate|].
    cbn [number set_ts map dec_run pseq pmarker ppayload]. rewrite dec_post. cbn [pts pmarker].
    rewrite decode_stapa.
    + destruct (post _ ts m) as [d2 r']. reflexivity.
    + rewrite Forall_forall. intros x Hx. rewrite Forall_forall in Hv.
      pose proof (valid_nalu_ne x (Hv x Hx)) as Hxne. split.
      * destruct x; [contradiction|cbn [nlen]; lia].
      * cbn [ok_batch] in Hok. unfold len_agg in Hok. rewrite len_agg_body_sum in Hok.
        pose proof (in_sum_len x _ Hx) as Hle. cbn [nlen] in Hok. lia.
Qed.

(* ---------- the frame buffer while it accumulates one access unit ---------- *)
Definition fb_inv (d : dstate) : Prop := dfblen d = nlen (dfb d) /\ dfbsize d = sum_len (dfb d).

Lemma post_accum d nx b ts m : fb_inv d -> (dfb d = [] \/ dfbts d = ts) ->
  nlen (dfb d) + nlen b <= maxn -> sum_len (dfb d) + sum_len b <= cap ->
  post (clear_frags d nx, NOk b) ts m =
    let d2 := set_fb (clear_frags d nx) (dfb d ++ b) (dfblen d + nlen b) (dfbsize d + sum_len b) ts in
    if m then (reset_fb d2, DFrame (dfb d ++ b)) else (d2, DMore).
Proof.
  intros [H1 H2] Hts Hn Hc. unfold post.
  change (dfb (clear_frags d nx)) with (dfb d). change (dfbts (clear_frags d nx)) with (dfbts d).
  assert (E : negb (is_nil (dfb d)) && negb (ts =? dfbts d) = false).
  { destruct Hts as [->| ->]; [reflexivity|]. rewrite N.eqb_refl. apply andb_false_r. }
  rewrite E. unfold add_fb.
  change (dfb (clear_frags d nx)) with (dfb d). change (dfblen (clear_frags d nx)) with (dfblen d).
  change (dfbsize (clear_frags d nx)) with (dfbsize d).
  destruct (N.ltb_spec maxn (dfblen d + nlen b)); [lia|].
  destruct (N.ltb_spec cap (dfbsize d + sum_len b)); [lia|].
  destruct m; reflexivity.
Qed.

Lemma repeat_more_app {A} (x : A) a b (y : A) : (1 <= a)%nat -> (1 <= b)%nat ->
  (repeat x (a - 1) ++ [x]) ++ repeat x (b - 1) ++ [y] = repeat x (a + b - 1) ++ [y].
Proof.
  intros Ha Hb. replace (a + b - 1)%nat with ((a - 1) + 1 + (b - 1))%nat by lia.
  rewrite !repeat_app. cbn [repeat]. now rewrite <- !app_assoc.
Qed.

Lemma set_ts_app ts x y : set_ts ts (x ++ y) = set_ts ts x ++ set_ts ts y.
Proof. apply map_app. Qed.

Lemma dec_run_app ps1 ps2 d :
  dec_run d (ps1 ++ ps2) =
  let '(d1, r1) := dec_run d ps1 in let '(d2, r2) := dec_run d1 ps2 in (d2, r1 ++ r2).
Proof.
  revert d; induction ps1 as [|p t IH]; intros d; cbn [app dec_run].
  - destruct (dec_run d ps2); reflexivity.
  - destruct (dec d p) as [d' r]. rewrite IH. destruct (dec_run d' t) as [d1 r1].
    destruct (dec_run d1 ps2) as [d2 r2]. reflexivity.
Qed.

(* all batches of one access unit, into a frame buffer that is empty or holds the same timestamp *)
Lemma batches_run max ts : 3 <= max -> max <= 65538 -> forall bs d s, bs <> [] ->
  Forall (batch_ok max) bs -> s < 65536 ->
  fb_inv d -> (dfb d = [] \/ dfbts d = ts) ->
  nlen (dfb d) + nlen (concat bs) <= maxn -> sum_len (dfb d) + sum_len (concat bs) <= cap ->
  exists protos d', write_batches max bs = Some protos /\ protos <> [] /\
    dec_run d (set_ts ts (number s protos)) =
      (d', repeat DMore (length protos - 1) ++ [DFrame (dfb d ++ concat bs)]) /\ clean d'.
Proof.
  intros Hm HM. induction bs as [|b t IH]; intros d s Hne Hall Hs Hfb Hts Hn Hc; [contradiction|].
  inversion Hall as [|? ? Hb Ht]; subst. cbn [write_batches concat] in *.
  rewrite nlen_app in Hn. rewrite sum_len_app in Hc.
  destruct t as [|b2 t2].
  - destruct (batch_run max true b ts d s Hm HM Hb Hs) as (protos & nx & -> & Hpne & Hrun).
    exists protos. eexists. split; [reflexivity|]. split; [assumption|].
    rewrite Hrun, post_accum by (assumption || (cbn [concat nlen sum_len] in *; lia)).
    cbn zeta iota. rewrite app_nil_r. split; [reflexivity|].
    unfold clean, reset_fb, set_fb, clear_frags, set_frags; cbn. repeat split; reflexivity.
  - destruct (batch_run max false b ts d s Hm HM Hb Hs) as (x & nx & -> & Hxne & Hrun).
    rewrite post_accum in Hrun by (assumption || lia). cbn zeta iota in Hrun.
    set (d1 := set_fb (clear_frags d nx) (dfb d ++ b) (dfblen d + nlen b) (dfbsize d + sum_len b) ts) in *.
    destruct (IH d1 (seq_add s (nlen x))) as (y & d' & -> & Hyne & Hrun2 & Hcl).
    + discriminate.
    + assumption.
    + apply seq_add_lt.
    + destruct Hfb as [F1 F2]. unfold fb_inv, d1, set_fb; cbn [dfb dfblen dfbsize].
      rewrite nlen_app, sum_len_app. split; lia.
    + right. reflexivity.
    + unfold d1, set_fb; cbn [dfb]. rewrite nlen_app. lia.
    + unfold d1, set_fb; cbn [dfb]. rewrite sum_len_app. lia.
    + exists (x ++ y), d'. split; [reflexivity|]. split; [destruct x; [contradiction|discriminate]|].
      split; [|assumption].
      rewrite number_app by assumption. rewrite set_ts_app, dec_run_app, Hrun, Hrun2.
      unfold d1, set_fb at 1; cbn [dfb]. rewrite app_length.
      rewrite <- (app_assoc (dfb d) b (concat (b2 :: t2))). f_equal.
      apply repeat_more_app; [destruct x; [contradiction|cbn; lia]|destruct y; [contradiction|cbn; lia]].
Qed.

Lemma Forall_concat {A} (P : A -> Prop) (ls : list (list A)) : Forall P (concat ls) -> Forall (Forall P) ls.
Proof.
  induction ls as [|l t IH]; intros H; [constructor|]. cbn [concat] in H. apply Forall_app in H.
  destruct H as [H1 H2]. constructor; [assumption|now apply IH].
Qed.

Lemma sum_len_concat_in (ls : list (list bytes)) b : In b ls -> sum_len b <= sum_len (concat ls).
Proof.
  induction ls as [|l t IH]; intros H; [contradiction|]. cbn [concat]. rewrite sum_len_app.
  destruct H as [->|H]; [lia|]. specialize (IH H). lia.
Qed.

Lemma nlen_concat_in {A} (ls : list (list A)) b : In b ls -> nlen b <= nlen (concat ls).
Proof.
  induction ls as [|l t IH]; intros H; [contradiction|]. cbn [concat]. rewrite nlen_app.
  destruct H as [->|H]; [lia|]. specialize (IH H). lia.
Qed.

Lemma batches_valid max au : 3 <= max -> valid_frame au -> Forall (batch_ok max) (batches max [] au).
Proof.
  intros Hm (Hne & Hn & Hc & Hv).
  pose proof (batches_concat max au []) as Hcat. cbn [app] in Hcat.
  pose proof (batches_nonempty max au [] (or_intror Hne)) as H1.
  assert (H2 : Forall (ok_batch max) (batches max [] au)).
  { apply batches_ok. cbn. unfold len_agg. cbn. lia. }
  assert (H3 : Forall (Forall valid_nalu) (batches max [] au)).
  { apply Forall_concat. now rewrite Hcat. }
  rewrite Forall_forall in *. intros b Hb. unfold batch_ok.
  repeat split; [now apply H1|now apply H3|now apply H2| |].
  - pose proof (sum_len_concat_in _ b Hb) as Hle. rewrite Hcat in Hle. lia.
  - pose proof (nlen_concat_in _ b Hb) as Hle. rewrite Hcat in Hle. lia.
Qed.

(* ---------- C03 ---------- *)
Theorem roundtrip max seq ts au d : 3 <= max -> max <= 65538 -> seq < 65536 ->
  valid_frame au -> clean d ->
  exists ps seq' d', enc max seq au = Some (ps, seq') /\
    dec_run d (set_ts ts ps) = (d', repeat DMore (length ps - 1) ++ [DFrame au]) /\ clean d'.
Proof.
  intros Hm HM Hs Hv (Hc1 & Hc2 & Hc3 & Hc4 & Hc5).
  pose proof (batches_valid max au Hm Hv) as Hb.
  pose proof (batches_concat max au []) as Hcat. cbn [app] in Hcat.
  destruct Hv as (Hne & Hn & Hc & Hvn).
  destruct (batches_run max ts Hm HM (batches max [] au) d seq) as (protos & d' & Hw & Hpne & Hrun & Hcl).
  - apply batches_ne.
  - assumption.
  - assumption.
  - unfold fb_inv. rewrite Hc3, Hc4, Hc5. split; reflexivity.
  - left; assumption.
  - rewrite Hc3, Hcat. cbn [nlen]. lia.
  - rewrite Hc3, Hcat. cbn [sum_len]. lia.
  - unfold enc, enc_protos. rewrite Hw. eexists. eexists. exists d'. split; [reflexivity|].
    rewrite Hrun, Hc3, Hcat, number_length. cbn [app]. split; [reflexivity|assumption].
Qed.

(* consecutive access units through the same encoder/decoder pair; ts_i = timestamp of frame i *)
Fixpoint expect (pss : list (list packet)) (frames : list (list bytes)) : list (dres (list bytes)) :=
  match pss, frames with
  | ps :: pt, f :: ft => repeat DMore (length ps - 1) ++ [DFrame f] ++ expect pt ft
  | _, _ => []
  end.
Fixpoint stamp (tss : list N) (pss : list (list packet)) : list packet :=
  match tss, pss with
  | ts :: tr, ps :: pt => set_ts ts ps ++ stamp tr pt
  | _, _ => []
  end.

Theorem roundtrip_seq max : 3 <= max -> max <= 65538 -> forall frames tss seq d,
  seq < 65536 -> Forall valid_frame frames -> length tss = length frames -> clean d ->
  exists pss d', enc_many max seq frames = Some pss /\
    dec_run d (stamp tss pss) = (d', expect pss frames) /\ clean d'.
Proof.
  intros Hm HM. induction frames as [|f t IH]; intros tss seq d Hs Hv Hl Hcl.
  - exists [], d. destruct tss; [|discriminate]. cbn. repeat split; try reflexivity; apply Hcl.
  - destruct tss as [|ts tr]; [discriminate|]. injection Hl as Hl.
    inversion Hv as [|? ? Hf Ht]; subst. cbn [enc_many].
    destruct (roundtrip max seq ts f d Hm HM Hs Hf Hcl) as (ps & seq' & d1 & He & Hr1 & Hc1).
    rewrite He.
    assert (Hs' : seq' < 65536).
    { unfold enc in He. destruct (enc_protos max f); [|discriminate]. injection He as _ <-. apply seq_add_lt. }
    destruct (IH tr seq' d1 Hs' Ht Hl Hc1) as (pss & d2 & -> & Hr2 & Hc2).
    exists (ps :: pss), d2. split; [reflexivity|]. split; [|assumption].
    cbn [stamp expect]. rewrite dec_run_app, Hr1, Hr2. now rewrite <- app_assoc.
Qed.

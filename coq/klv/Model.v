(* Executable model of pkg/format/rtpklv (encoder.go, decoder.go). Proof-free.
   A KLV unit is one or more items (16-byte universal label key 06 0e 2b 34 .., BER length, value).
   The model is faithful to the pinned tree, including:
   - the decoder returns d.buffer itself; reset() DROPS the buffer (d.buffer = nil, fix 5cc6a94 for
     finding F3), so a returned unit is never the backing array of a later one (region tags below)
   - the decoder cuts a fragmented unit at the first item's length          (F2: expectedSize)
   - the decoder has no size cap                                            (F4) *)
From GVL Require Import NList Wire Chunks Rtp.

Open Scope N_scope.

(* ---- encoder ---- *)
Fixpoint mk_pkts (seq : N) (cs : list bytes) : list packet :=
  match cs with
  | [] => []
  | c :: t => mkPkt seq 0 (match t with [] => true | _ => false end) c :: mk_pkts (seq_next seq) t
  end.

(* Encode: len(unit) <= PayloadMaxSize => one marker packet carrying the unit (also for an empty unit);
   otherwise pieces of PayloadMaxSize bytes, the last one shorter, marker on the last.
   (max = 0 cannot occur: Init replaces 0 by the default; a negative limit makes Go loop forever.) *)
Definition enc (max seq : N) (unit : bytes) : list packet * N :=
  if nlen unit <=? max then ([mkPkt seq 0 true unit], seq_next seq)
  else let cs := chunks max unit in (mk_pkts seq cs, seq_add seq (nlen cs)).

Fixpoint enc_many (max seq : N) (units : list bytes) : list (list packet) :=
  match units with
  | [] => []
  | u :: t => let '(ps, seq') := enc max seq u in ps :: enc_many max seq' t
  end.

(* ---- decoder ---- *)
(* Regions (DESIGN 1.3): [dreg] tags the backing array of d.buffer (0 = nil slice), [dcap] is the
   capacity that array is CERTAIN to have (the largest length it has held), [dfresh] the next unused
   tag.  Go's append writes in place when the capacity suffices and allocates a new array otherwise;
   the runtime's over-allocation is not modelled, so "in place" here means "certainly in place":
   the [writes] of a step are writes that certainly hit the tagged array. *)
Record dstate := mkD {
  dbuf : bytes;      (* d.buffer[:len] *)
  dexp : N;          (* d.expectedSize when positive, else 0 (a negative int is never > 0) *)
  dts : N;           (* d.currentTimestamp *)
  dasm : bool;       (* d.assembling *)
  dlast : N;         (* d.lastSeqNum *)
  dfirst : bool;     (* d.firstPacketReceived *)
  dreg : N; dcap : N; dfresh : N }.

Definition dinit : dstate := mkD [] 0 0 false 0 false 0 0 1.

(* reset(): buffer = nil (the array may have been returned to the caller), lastSeqNum is NOT cleared *)
Definition dreset (d : dstate) : dstate :=
  mkD [] 0 0 false (dlast d) false 0 0 (dfresh d).

(* append(buf[:n], k bytes): (region, certain capacity, next fresh tag, regions written) *)
Definition append_reg (reg cap fresh n k : N) : N * N * N * list N :=
  if k =? 0 then (reg, cap, fresh, [])
  else if negb (reg =? 0) && (n + k <=? cap) then (reg, cap, fresh, [reg])
  else (fresh, n + k, fresh + 1, [fresh]).

Definition is_start (p : bytes) : bool :=
  match p with
  | a :: b :: c :: e :: _ => (a =? 6) && (b =? 14) && (c =? 43) && (e =? 52)   (* 06 0e 2b 34 *)
  | _ => false
  end.

Fixpoint be_value (acc : N) (l : bytes) : N :=
  match l with
  | [] => acc
  | b :: t => be_value ((acc * 256 + b) mod 18446744073709551616) t
  end.

Inductive plen := PLok (value size : N) | PLerr | PLpanic.

(* parseKLVLength(data): data[0] and data[1+i] are checked accesses *)
Definition parse_len (data : bytes) : plen :=
  match nnth 0 data with
  | None => PLpanic
  | Some b0 =>
    if b0 / 128 mod 2 =? 0 then PLok (b0 mod 128) 1 else
    let lb := b0 mod 128 in
    if (lb =? 0) || (8 <? lb) then PLerr else
    if nlen data <? 1 + lb then PLerr else
    match nsub data 1 (1 + lb) with
    | None => PLpanic
    | Some bs => PLok (be_value 0 bs) (1 + lb)
    end
  end.

(* 16 + int(lengthSize) + int(valueLength) in 64-bit two's complement; result kept only if > 0 *)
Definition norm_exp (e : N) : N :=
  let w := e mod 18446744073709551616 in
  if (0 <? w) && (w <? 9223372036854775808) then w else 0.

(* the new value of d.expectedSize after a starting packet ([old] is kept when the payload is too short
   or the length field does not parse) *)
Inductive eres := Eok (e : N) | Epanic.
Definition expected_of (old : N) (payload : bytes) : eres :=
  if 17 <=? nlen payload then
    match nsub payload 16 (nlen payload) with
    | None => Epanic
    | Some data =>
      match parse_len data with
      | PLok v ls => Eok (norm_exp (16 + ls + v))
      | PLerr => Eok old
      | PLpanic => Epanic
      end
    end
  else Eok old.

(* a returned frame carries the region it lives in *)
Notation fres := (dres (bytes * N)) (only parsing).

Definition finish (d : dstate) (marker : bool) (w : list N) : dstate * fres * list N :=
  if marker then (dreset d, DFrame (dbuf d, dreg d), w)
  else if (0 <? dexp d) && (dexp d <=? nlen (dbuf d)) then
    match nsub (dbuf d) 0 (dexp d) with
    | Some r => (dreset d, DFrame (r, dreg d), w)
    | None => (d, DPanic, w)
    end
  else (d, DMore, w).

Definition dec (d : dstate) (p : packet) : dstate * fres * list N :=
  if dfirst d && negb (pseq p =? seq_next (dlast d)) then (dreset d, DErr, []) else
  let d1 := mkD (dbuf d) (dexp d) (dts d) (dasm d) (pseq p) true (dreg d) (dcap d) (dfresh d) in
  let pl := ppayload p in
  if negb (dasm d1) then
    if negb (is_start pl) then (d1, DErr, []) else
    (* d.buffer = append(d.buffer[:0], payload...) *)
    let '(reg, cap, fresh, w) := append_reg (dreg d1) (dcap d1) (dfresh d1) 0 (nlen pl) in
    match expected_of (dexp d1) pl with
    | Epanic => (d1, DPanic, [])
    | Eok e =>
      let d2 := mkD pl e (pts p) true (pseq p) true reg cap fresh in
      finish d2 (pmarker p) w
    end
  else
    if negb (pts p =? dts d1) then (dreset d1, DErr, []) else
    let '(reg, cap, fresh, w) := append_reg (dreg d1) (dcap d1) (dfresh d1) (nlen (dbuf d1)) (nlen pl) in
    let d2 := mkD (dbuf d1 ++ pl) (dexp d1) (dts d1) true (pseq p) true reg cap fresh in
    finish d2 (pmarker p) w.

Fixpoint dec_run (d : dstate) (ps : list packet) : dstate * list (fres * list N) :=
  match ps with
  | [] => (d, [])
  | p :: t => let '(d', r, w) := dec d p in let '(d'', rs) := dec_run d' t in (d'', (r, w) :: rs)
  end.

(* what the decoder retains: logical bytes (len(d.buffer)) and slice headers (none) *)
Definition retained (d : dstate) : N * N := (nlen (dbuf d), 0).

(* ---- wire ---- *)
Definition put_res (r : fres * list N) : list N :=
  match fst r with
  | DFrame (f, _) => 1 :: 1 :: putl f
  | DMore => [0]
  | DErr => [2]
  | DPanic => [77]
  end.

Fixpoint get_uframes (fuel : list N) (k : N) (l : list N) : option (list bytes) :=
  if k =? 0 then Some [] else
  match fuel with
  | [] => None
  | _ :: fuel' =>
    match l with
    | 1 :: r0 =>
      match getl r0 with
      | None => None
      | Some (f, r) => option_map (cons f) (get_uframes fuel' (N.pred k) r)
      end
    | _ => None
    end
  end.

(* case 1: param max seq nframes {1 len bytes}  -> all packets of all units
   case 2: param npackets {pkt}                 -> per packet result; then retained bytes, slices *)
Definition run (c : list N) : list N :=
  match c with
  | 1 :: _ :: max :: seq :: k :: t =>
      match get_uframes c k t with
      | Some units => if max =? 0 then [77] else put_pkts (concat (enc_many max seq units))
      | None => bad_case
      end
  | 2 :: _ :: t =>
      match get_pkts t with
      | Some (ps, _) =>
          let '(d, rs) := dec_run dinit ps in
          concat (map put_res rs) ++ [fst (retained d); snd (retained d)]
      | None => bad_case
      end
  | _ => bad_case
  end.

(* BRIDGE: the integer formulas of pkg/format/rtpklv (encoder.go, decoder.go) as TRANSLATED from the Go source on this
   run (GVG.Kern, tools/go2coq, spec.d/klv.txt) are the formulas the hand-written Model.v uses: the single-packet test
   len(unit) <= PayloadMaxSize, every statement of the fragmentation loop (payloadSize, its clipping, isLast, the marker,
   offset += payloadSize), the two e.sequenceNumber++; in the decoder the expected sequence number and its test, the
   timestamp test, the length tests, the four key bytes, every statement of parseKLVLength (short / long form, the
   bounds of the length-of-length, the accumulation loop), the expected size and the completion test.
   Re-checked against the regenerated Kern.v on every run. *)
From Coq Require Import ZArith NArith List Lia Bool.
From Coq Require Import ZifyBool ZifyN.
From GVL Require Import NList Wrap Chunks Rtp.
From GVG Require Import Kern.
From GV_klv Require Import Model BridgeLib.
Import ListNotations.
Open Scope Z_scope.

Definition byte (b : N) : Prop := (b < 256)%N.
Definition u16 (s : N) : Prop := (s < 65536)%N.
Definition u64 (s : N) : Prop := (s < 18446744073709551616)%N.

(* a << k | b  =  a * 2^k + b   when b < 2^k *)
Lemma lor_shift a b k : 0 <= k -> 0 <= a -> 0 <= b < 2 ^ k -> Z.lor (Z.shiftl a k) b = a * 2 ^ k + b.
Proof.
  intros Hk Ha Hb. rewrite Z.shiftl_mul_pow2 by lia.
  rewrite <- Z.lxor_lor, <- Z.add_nocarry_lxor; try reflexivity.
  all: apply Z.bits_inj'; intros n Hn; rewrite Z.land_spec, Z.bits_0.
  all: destruct (Z.lt_ge_cases n k) as [L|G].
  all: try (rewrite Z.mul_pow2_bits_low by lia; reflexivity).
  all: destruct (Z.eq_dec b 0) as [->|Hb0]; [rewrite Z.bits_0, andb_false_r; reflexivity|].
  all: rewrite (Z.bits_above_log2 b n); [apply andb_false_r|lia|].
  all: assert (Z.log2 b < k) by (apply Z.log2_lt_pow2; lia); lia.
Qed.

Lemma land_mask a k : 0 <= k -> Z.land a (2 ^ k - 1) = a mod 2 ^ k.
Proof. intros Hk. rewrite <- Z.land_ones by lia. rewrite Z.ones_equiv. reflexivity. Qed.

(* a property of a byte that a boolean function decides is proved by running it on the 256 bytes *)
Lemma byte_forall (f : N -> bool) : forallb f (map N.of_nat (seq 0 256)) = true -> forall b, byte b -> f b = true.
Proof.
  unfold byte. intros H b Hb. rewrite forallb_forall in H. apply H. apply in_map_iff. exists (N.to_nat b).
  split; [lia|apply in_seq; lia].
Qed.

(* ---------- encoder ---------- *)

Lemma bridge_single max (unit : bytes) : k_klv_single (Z.of_N (nlen unit)) (Z.of_N max) = (nlen unit <=? max)%N.
Proof. unfold k_klv_single. apply leb_N. Qed.

(* the fragmentation loop  for offset < len(unit) { ... }:  the skeleton is written here (the loop condition is the only
   hand-written comparison), every statement of the body is a translated kernel; the result lists, per packet, the
   offset, the payload size and the marker *)
Fixpoint frag_loop (fuel : bytes) (offset len max : Z) : list (Z * Z * bool) :=
  match fuel with
  | [] => []
  | _ :: fuel' =>
      if offset <? len then
        let ps := k_klv_psize max in
        let ps := if k_klv_over offset ps len then k_klv_psize_last len offset else ps in
        let isLast := k_klv_islast offset ps len in
        (offset, ps, k_klv_marker_frag isLast) :: frag_loop fuel' (k_klv_offset_acc offset ps) len max
      else []
  end.
Definition frag_code (unit : bytes) (max : Z) : list (Z * Z * bool) :=
  frag_loop unit k_klv_offset0 (Z.of_N (nlen unit)) max.

(* what Model.mk_pkts makes of a list of chunks: offset, size, marker on the last *)
Fixpoint marks (off : N) (cs : list bytes) : list (Z * Z * bool) :=
  match cs with
  | [] => []
  | c :: t => (Z.of_N off, Z.of_N (nlen c), match t with [] => true | _ => false end) :: marks (off + nlen c) t
  end.

Lemma frag_loop_spec (max total : N) : (0 < max)%N -> Z.of_N total + Z.of_N max < i64max ->
  forall (fuel l : bytes) (off : N), (nlen l <= nlen fuel)%N -> (off + nlen l = total)%N ->
  frag_loop fuel (Z.of_N off) (Z.of_N total) (Z.of_N max) = marks off (chunks_aux fuel max l).
Proof.
  unfold i64max. intros Hm Hb. induction fuel as [|f fuel IH]; intros l off Hl Ho.
  - destruct l; reflexivity.
  - destruct l as [|x t].
    + cbn [frag_loop chunks_aux marks]. cbn [nlen] in Ho. destruct (Z.ltb_spec (Z.of_N off) (Z.of_N total)); [lia|reflexivity].
    + cbn [chunks_aux marks frag_loop]. set (l := x :: t) in *.
      assert (Hl0 : (0 < nlen l)%N) by (unfold l; cbn [nlen]; lia).
      destruct (Z.ltb_spec (Z.of_N off) (Z.of_N total)) as [_|G]; [|lia].
      unfold k_klv_psize, k_klv_over, k_klv_psize_last, k_klv_islast, k_klv_marker_frag, k_klv_offset_acc.
      rewrite (ki64_small (Z.of_N off + Z.of_N max)) by lia.
      assert (Hps : (if Z.of_N off + Z.of_N max >? Z.of_N total then ki64 (Z.of_N total - Z.of_N off) else Z.of_N max)
                    = Z.of_N (nlen (ntake max l))).
      { rewrite nlen_ntake. destruct (Z.gtb_spec (Z.of_N off + Z.of_N max) (Z.of_N total)); [rewrite ki64_small by lia|]; lia. }
      rewrite Hps. rewrite ki64_small by (rewrite nlen_ntake; lia).
      rewrite <- N2Z.inj_add. rewrite IH with (l := ndrop max l);
        [| rewrite nlen_ndrop; cbn [nlen] in Hl; fold l in Hl; cbn [nlen] in Hl |- *; lia
         | rewrite nlen_ntake, nlen_ndrop; lia ].
      f_equal. f_equal.
      destruct (ndrop max l) as [|y r] eqn:E.
      * assert (E0 : nlen (ndrop max l) = 0%N) by (rewrite E; reflexivity). rewrite nlen_ndrop in E0.
        destruct fuel; cbn [chunks_aux]; rewrite geb_N, nlen_ntake; lia.
      * assert (E0 : (0 < nlen (ndrop max l))%N) by (rewrite E; cbn [nlen]; lia). rewrite nlen_ndrop in E0.
        destruct fuel as [|f' fuel'].
        { exfalso. cbn [nlen] in Hl. fold l in Hl. cbn [nlen] in Hl. lia. }
        cbn [chunks_aux]. rewrite geb_N, nlen_ntake. lia.
Qed.

(* the sizes and markers of the packets Model.mk_pkts builds from chunks *)
Fixpoint pkt_marks (off : N) (ps : list packet) : list (Z * Z * bool) :=
  match ps with
  | [] => []
  | p :: t => (Z.of_N off, Z.of_N (nlen (ppayload p)), pmarker p) :: pkt_marks (off + nlen (ppayload p)) t
  end.
Lemma pkt_marks_mk_pkts : forall (cs : list bytes) seq off, pkt_marks off (mk_pkts seq cs) = marks off cs.
Proof. induction cs as [|c t IH]; intros seq off; cbn [mk_pkts pkt_marks marks ppayload pmarker]; [reflexivity|]. rewrite IH. reflexivity. Qed.

(* the whole fragmented branch of Encode: the loop over the kernels yields the offsets, sizes and markers of the packets
   of Model.enc *)
Lemma bridge_frag_loop max seq (unit : bytes) : (0 < max)%N -> Z.of_N (nlen unit) + Z.of_N max < i64max ->
  (max < nlen unit)%N ->
  frag_code unit (Z.of_N max) = pkt_marks 0 (fst (enc max seq unit)).
Proof.
  intros Hm Hb Hf. unfold enc. destruct (N.leb_spec (nlen unit) max) as [L|_]; [lia|]. cbn [fst].
  rewrite pkt_marks_mk_pkts. unfold frag_code, k_klv_offset0, chunks. change 0 with (Z.of_N 0).
  apply frag_loop_spec with (total := nlen unit); try assumption; lia.
Qed.

(* e.sequenceNumber++ (two copies) is Rtp.seq_next; the single packet carries the marker *)
Lemma bridge_seq (s : N) :
  k_klv_seq_single (Z.of_N s) = Z.of_N (seq_next s) /\ k_klv_seq_frag (Z.of_N s) = Z.of_N (seq_next s) /\
  k_klv_marker_single = true.
Proof. unfold k_klv_seq_single, k_klv_seq_frag, seq_next. repeat split; apply w16_succ_N. Qed.

Theorem enc_kernels_are_the_code (max seq s : N) (unit : bytes) :
  (0 < max)%N -> Z.of_N (nlen unit) + Z.of_N max < i64max ->
  k_klv_single (Z.of_N (nlen unit)) (Z.of_N max) = (nlen unit <=? max)%N /\
  ((max < nlen unit)%N -> frag_code unit (Z.of_N max) = pkt_marks 0 (fst (enc max seq unit))) /\
  k_klv_seq_single (Z.of_N s) = Z.of_N (seq_next s) /\ k_klv_seq_frag (Z.of_N s) = Z.of_N (seq_next s) /\
  k_klv_marker_single = true.
Proof.
  intros Hm Hb. split; [apply bridge_single|]. split; [intros Hf; apply bridge_frag_loop; assumption|]. apply bridge_seq.
Qed.

(* ---------- decoder: continuity tests (C07) ---------- *)

Theorem resync_kernels_are_the_code (seq last ts cur : N) : u16 seq -> u16 last ->
  k_klv_dec_expseq (Z.of_N last) = Z.of_N (seq_next last) /\
  k_klv_dec_gap (Z.of_N seq) (k_klv_dec_expseq (Z.of_N last)) = negb (seq =? seq_next last)%N /\
  k_klv_dec_tschange (Z.of_N ts) (Z.of_N cur) = negb (ts =? cur)%N.
Proof.
  unfold k_klv_dec_expseq, k_klv_dec_gap, k_klv_dec_tschange, seq_next. intros _ _.
  rewrite !w16_succ_N, !eqb_N. repeat split.
Qed.

(* ---------- decoder: length tests, the BER length, the expected size (C08) ---------- *)

Lemma bridge_start (p : bytes) (a b c e : N) (r : bytes) :
  k_klv_start_short (Z.of_N (nlen p)) = (nlen p <? 4)%N /\
  k_klv_start_key (Z.of_N a) (Z.of_N b) (Z.of_N c) (Z.of_N e) = is_start (a :: b :: c :: e :: r) /\
  ((nlen p <? 4)%N = true -> is_start p = false).
Proof.
  unfold k_klv_start_short, k_klv_start_key. cbn [is_start]. split; [exact (ltb_N (nlen p) 4)|].
  split; [rewrite <- (eqb_N a 6), <- (eqb_N b 14), <- (eqb_N c 43), <- (eqb_N e 52); reflexivity|].
  destruct p as [|x0 [|x1 [|x2 [|x3 t]]]]; cbn [nlen is_start]; try reflexivity. intros H. lia.
Qed.

Lemma bridge_haslen (p : bytes) : k_klv_dec_haslen (Z.of_N (nlen p)) = (17 <=? nlen p)%N.
Proof. unfold k_klv_dec_haslen. exact (geb_N (nlen p) 17). Qed.

(* parseKLVLength: the short form, the length of the length, its bounds *)
Lemma bridge_len_fields (b0 : N) (data : bytes) : byte b0 ->
  k_klv_len_short (Z.of_N b0) = (b0 / 128 mod 2 =? 0)%N /\
  k_klv_len_shortval (Z.of_N b0) = Z.of_N (b0 mod 128) /\ k_klv_len_shortsize = Z.of_N 1 /\
  k_klv_len_nbytes (Z.of_N b0) = Z.of_N (b0 mod 128) /\
  k_klv_len_bad (k_klv_len_nbytes (Z.of_N b0)) = ((b0 mod 128 =? 0)%N || (8 <? b0 mod 128)%N) /\
  k_klv_len_total (k_klv_len_nbytes (Z.of_N b0)) = Z.of_N (1 + b0 mod 128) /\
  k_klv_len_trunc (k_klv_len_total (k_klv_len_nbytes (Z.of_N b0))) (Z.of_N (nlen data)) = (nlen data <? 1 + b0 mod 128)%N.
Proof.
  unfold byte. intros Hb.
  assert (N7 : k_klv_len_nbytes (Z.of_N b0) = Z.of_N (b0 mod 128)).
  { unfold k_klv_len_nbytes. change 127 with (2 ^ 7 - 1). rewrite land_mask by lia. change (2 ^ 7) with 128.
    unfold w8, w64. lia. }
  assert (T : k_klv_len_total (Z.of_N (b0 mod 128)) = Z.of_N (1 + b0 mod 128)).
  { unfold k_klv_len_total, w64. lia. }
  split; [|split; [|split; [|split; [|split; [|split]]]]].
  - apply (byte_forall (fun b => Bool.eqb (k_klv_len_short (Z.of_N b)) (b / 128 mod 2 =? 0)%N)) in Hb; [|vm_compute; reflexivity].
    apply eqb_prop in Hb. exact Hb.
  - unfold k_klv_len_shortval. change 127 with (2 ^ 7 - 1). rewrite land_mask by lia. change (2 ^ 7) with 128. unfold w8, w64. lia.
  - reflexivity.
  - exact N7.
  - rewrite N7. unfold k_klv_len_bad. rewrite (eqb_N _ 0). change 8 with (Z.of_N 8). rewrite gtb_N. reflexivity.
  - rewrite N7. exact T.
  - rewrite N7, T. unfold k_klv_len_trunc. rewrite ki64_small by lia. apply gtb_N.
Qed.

(* the accumulation loop  for i := range lengthBytes { lengthValue = (lengthValue << 8) | uint(data[1+i]) } *)
Fixpoint lv_loop (acc : Z) (bs : bytes) : Z :=
  match bs with
  | [] => acc
  | b :: t => lv_loop (k_klv_len_step acc (Z.of_N b)) t
  end.

Lemma bridge_len_step (acc b : N) : u64 acc -> byte b ->
  k_klv_len_step (Z.of_N acc) (Z.of_N b) = Z.of_N ((acc * 256 + b) mod 18446744073709551616).
Proof.
  unfold u64, byte, k_klv_len_step. intros Ha Hb. rewrite Z.shiftl_mul_pow2 by lia. change (2 ^ 8) with 256.
  rewrite (w64_small (Z.of_N b)) by lia.
  set (m := w64 (Z.of_N acc * 256)).
  assert (Hm : 0 <= m < 18446744073709551616 /\ m mod 256 = 0) by (unfold m, w64; lia).
  assert (Em : m = Z.shiftl (m / 256) 8) by (rewrite Z.shiftl_mul_pow2 by lia; change (2 ^ 8) with 256; lia).
  rewrite Em. rewrite lor_shift by (change (2 ^ 8) with 256; lia). change (2 ^ 8) with 256.
  unfold m, w64 in *. lia.
Qed.

Lemma bridge_len_value (bs : bytes) : Forall byte bs -> forall acc, u64 acc ->
  lv_loop (Z.of_N acc) bs = Z.of_N (be_value acc bs).
Proof.
  induction 1 as [|b t Hb Ht IH]; intros acc Ha; cbn [lv_loop be_value]; [reflexivity|].
  rewrite bridge_len_step by assumption. apply IH. unfold u64. apply N.mod_lt. discriminate.
Qed.

(* d.expectedSize = 16 + int(lengthSize) + int(valueLength)  is Model.norm_exp (kept only when positive), and the
   completion test  d.expectedSize > 0 && len(d.buffer) >= d.expectedSize  is the test of Model.finish *)
Lemma bridge_expsize (ls v : N) : u64 ls -> u64 v ->
  Z.to_N (k_klv_dec_expsize (Z.of_N ls) (Z.of_N v)) = norm_exp (16 + ls + v).
Proof.
  unfold u64, k_klv_dec_expsize, norm_exp, ki64, s64, w64. intros Hl Hv. cbv zeta.
  repeat match goal with |- context [Z.ltb ?a ?b] => destruct (Z.ltb_spec a b) end;
  repeat match goal with |- context [N.ltb ?a ?b] => destruct (N.ltb_spec a b) end; cbn [andb]; lia.
Qed.

Lemma bridge_complete (e : Z) (len : N) :
  k_klv_dec_complete e (Z.of_N len) = ((0 <? Z.to_N e)%N && (Z.to_N e <=? len)%N).
Proof.
  unfold k_klv_dec_complete.
  destruct (Z.gtb_spec e 0), (Z.geb_spec (Z.of_N len) e), (N.ltb_spec 0 (Z.to_N e)), (N.leb_spec (Z.to_N e) len); cbn [andb]; lia.
Qed.

Theorem caps_kernels_are_the_code (p data buf bs : bytes) (a b c e b0 ls v acc : N) (r : bytes) :
  byte b0 -> u64 ls -> u64 v -> u64 acc -> Forall byte bs ->
  k_klv_start_short (Z.of_N (nlen p)) = (nlen p <? 4)%N /\
  k_klv_start_key (Z.of_N a) (Z.of_N b) (Z.of_N c) (Z.of_N e) = is_start (a :: b :: c :: e :: r) /\
  k_klv_dec_haslen (Z.of_N (nlen p)) = (17 <=? nlen p)%N /\
  k_klv_len_short (Z.of_N b0) = (b0 / 128 mod 2 =? 0)%N /\
  k_klv_len_shortval (Z.of_N b0) = Z.of_N (b0 mod 128) /\ k_klv_len_shortsize = Z.of_N 1 /\
  k_klv_len_nbytes (Z.of_N b0) = Z.of_N (b0 mod 128) /\
  k_klv_len_bad (k_klv_len_nbytes (Z.of_N b0)) = ((b0 mod 128 =? 0)%N || (8 <? b0 mod 128)%N) /\
  k_klv_len_total (k_klv_len_nbytes (Z.of_N b0)) = Z.of_N (1 + b0 mod 128) /\
  k_klv_len_trunc (k_klv_len_total (k_klv_len_nbytes (Z.of_N b0))) (Z.of_N (nlen data)) = (nlen data <? 1 + b0 mod 128)%N /\
  lv_loop (Z.of_N acc) bs = Z.of_N (be_value acc bs) /\
  Z.to_N (k_klv_dec_expsize (Z.of_N ls) (Z.of_N v)) = norm_exp (16 + ls + v) /\
  k_klv_dec_complete (k_klv_dec_expsize (Z.of_N ls) (Z.of_N v)) (Z.of_N (nlen buf))
    = ((0 <? norm_exp (16 + ls + v))%N && (norm_exp (16 + ls + v) <=? nlen buf)%N).
Proof.
  intros Hb Hl Hv Ha Hbs. destruct (bridge_start p a b c e r) as (A1 & A2 & _).
  destruct (bridge_len_fields b0 data Hb) as (B1 & B2 & B3 & B4 & B5 & B6 & B7).
  split; [exact A1|]. split; [exact A2|]. split; [apply bridge_haslen|].
  split; [exact B1|]. split; [exact B2|]. split; [exact B3|]. split; [exact B4|]. split; [exact B5|].
  split; [exact B6|]. split; [exact B7|]. split; [apply bridge_len_value; assumption|].
  split; [apply bridge_expsize; assumption|]. rewrite bridge_complete, bridge_expsize by assumption. reflexivity.
Qed.

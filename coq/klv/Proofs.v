(* rtpklv: packet well-formedness (C06), round trip (C03; partial + refutation, finding F2),
   resynchronisation (C07), arbitrary histories (C08; finding F4; F3 repaired by 5cc6a94). *)
From GVL Require Import NList Wire Chunks Rtp.
From GV_klv Require Import Model.
From Coq Require Import ZifyBool ZifyNat ZifyN.
Open Scope N_scope.
Ltac splits := repeat match goal with |- _ /\ _ => split end.

(* ---------- generic list facts ---------- *)
Lemma nnth_app_l {A} (l1 l2 : list A) i : i < nlen l1 -> nnth i (l1 ++ l2) = nnth i l1.
Proof.
  revert i; induction l1 as [|x t IH]; intros i H; cbn [nlen app nnth] in *; [lia|].
  destruct (N.eqb_spec i 0); [reflexivity|]. apply IH. lia.
Qed.
Lemma nnth_app_r {A} (l1 l2 : list A) i : nlen l1 <= i -> nnth i (l1 ++ l2) = nnth (i - nlen l1) l2.
Proof.
  revert i; induction l1 as [|x t IH]; intros i H; cbn [nlen app nnth] in *; [f_equal; lia|].
  destruct (N.eqb_spec i 0); [lia|]. rewrite IH by lia. f_equal. lia.
Qed.
Lemma seq_add_next s k : seq_add (seq_next s) k = seq_add s (k + 1).
Proof. unfold seq_add, seq_next. rewrite N.add_mod_idemp_l by lia. f_equal. lia. Qed.
Lemma seq_add_0 s : s < 65536 -> seq_add s 0 = s.
Proof. intros H. unfold seq_add. rewrite N.add_0_r. now apply N.mod_small. Qed.
Lemma seq_add_1 s : seq_add s 1 = seq_next s.
Proof. reflexivity. Qed.
Lemma seq_add_add s a b : seq_add (seq_add s a) b = seq_add s (a + b).
Proof. unfold seq_add. rewrite N.add_mod_idemp_l by lia. f_equal. lia. Qed.
Lemma seq_add_lt s k : seq_add s k < 65536.
Proof. unfold seq_add. apply N.mod_lt. lia. Qed.
Lemma seq_next_lt s : seq_next s < 65536.
Proof. unfold seq_next. apply N.mod_lt. lia. Qed.

(* ---------- encoder facts (C06) ---------- *)
Lemma mk_pkts_payloads seq cs : map ppayload (mk_pkts seq cs) = cs.
Proof. revert seq; induction cs as [|c t IH]; intros seq; cbn [mk_pkts map]; [reflexivity|]. now rewrite IH. Qed.
Lemma mk_pkts_len seq cs : nlen (mk_pkts seq cs) = nlen cs.
Proof. revert seq; induction cs as [|c t IH]; intros seq; cbn [mk_pkts nlen]; [reflexivity|]. now rewrite IH. Qed.
Lemma mk_pkts_seq cs : forall seq i p, seq < 65536 -> nnth i (mk_pkts seq cs) = Some p -> pseq p = seq_add seq i.
Proof.
  induction cs as [|c t IH]; intros seq i p Hs H; cbn [mk_pkts nnth] in H; [discriminate|].
  destruct (N.eqb_spec i 0) as [->|Hi].
  - injection H as <-. cbn [pseq]. now rewrite seq_add_0.
  - apply IH in H; [|apply seq_next_lt]. rewrite H, seq_add_next. f_equal. lia.
Qed.
Lemma mk_pkts_marker cs : forall seq i p, nnth i (mk_pkts seq cs) = Some p ->
  pmarker p = (i + 1 =? nlen cs).
Proof.
  induction cs as [|c t IH]; intros seq i p H; cbn [mk_pkts nnth] in H; [discriminate|].
  destruct (N.eqb_spec i 0) as [->|Hi].
  - injection H as <-. cbn [pmarker nlen]. destruct t; cbn [nlen]; [reflexivity|].
    symmetry. apply N.eqb_neq. lia.
  - apply IH in H. rewrite H. cbn [nlen].
    destruct (N.eqb_spec (N.pred i + 1) (nlen t)); destruct (N.eqb_spec (i + 1) (N.succ (nlen t))); try reflexivity; lia.
Qed.
Lemma mk_pkts_ts seq cs : Forall (fun p => pts p = 0) (mk_pkts seq cs).
Proof. revert seq; induction cs as [|c t IH]; intros seq; cbn [mk_pkts]; constructor; [reflexivity|apply IH]. Qed.

(* all payloads within the limit and concatenating to the unit; packet count 1 or ceil(len/max);
   packet i carries seq+i mod 2^16; marker on the last packet and on no other; the encoder
   continues at seq+count; timestamps are left at 0 *)
Theorem enc_wellformed max seq unit : 0 < max -> seq < 65536 ->
  let ps := fst (enc max seq unit) in
  concat (map ppayload ps) = unit /\
  Forall (fun p => nlen (ppayload p) <= max) ps /\
  nlen ps = (if nlen unit <=? max then 1 else (nlen unit + max - 1) / max) /\
  (max < nlen unit -> Forall (fun p => 0 < nlen (ppayload p)) ps) /\
  (forall i p, nnth i ps = Some p -> pseq p = seq_add seq i /\ pmarker p = (i + 1 =? nlen ps)) /\
  snd (enc max seq unit) = seq_add seq (nlen ps) /\
  Forall (fun p => pts p = 0) ps.
Proof.
  intros Hm Hs. unfold enc. destruct (N.leb_spec (nlen unit) max) as [Hle|Hgt]; cbn [fst snd].
  - splits.
    + cbn. now rewrite app_nil_r.
    + constructor; [cbn [ppayload]; lia|constructor].
    + reflexivity.
    + lia.
    + intros i p H. cbn [nnth] in H. destruct (N.eqb_spec i 0) as [->|]; [|discriminate].
      injection H as <-. cbn [pseq pmarker nlen]. split; [now rewrite seq_add_0|reflexivity].
    + reflexivity.
    + constructor; [reflexivity|constructor].
  - splits.
    + rewrite mk_pkts_payloads. now apply chunks_concat.
    + pose proof (chunks_bounds max unit Hm) as Hb. rewrite <- (mk_pkts_payloads seq) in Hb.
      rewrite Forall_map in Hb. eapply Forall_impl; [|exact Hb]. cbn. tauto.
    + rewrite mk_pkts_len. now apply chunks_count.
    + intros _. pose proof (chunks_bounds max unit Hm) as Hb. rewrite <- (mk_pkts_payloads seq) in Hb.
      rewrite Forall_map in Hb. eapply Forall_impl; [|exact Hb]. cbn. tauto.
    + intros i p H. split; [eapply mk_pkts_seq; eassumption|].
      rewrite mk_pkts_len. eapply mk_pkts_marker; eassumption.
    + now rewrite mk_pkts_len.
    + apply mk_pkts_ts.
Qed.

Theorem enc_many_gapless max units : 0 < max -> forall seq i p, seq < 65536 ->
  nnth i (concat (enc_many max seq units)) = Some p -> pseq p = seq_add seq i.
Proof.
  intros Hm. induction units as [|f t IH]; intros seq i p Hs H; cbn [enc_many] in H.
  - cbn in H. discriminate.
  - destruct (enc max seq f) as [ps seq'] eqn:E. cbn [concat] in H.
    pose proof (enc_wellformed max seq f Hm Hs) as W. rewrite E in W. cbn [fst snd] in W.
    destruct W as (_ & _ & _ & _ & Hi & Hseq' & _).
    destruct (N.ltb_spec i (nlen ps)) as [Hlt|Hge].
    + rewrite nnth_app_l in H by assumption. now apply Hi in H.
    + rewrite nnth_app_r in H by assumption. apply IH in H.
      * rewrite H, Hseq', seq_add_add. f_equal. lia.
      * rewrite Hseq'. apply seq_add_lt.
Qed.

(* ---------- decoder: never panics, from ANY state (C08) ---------- *)
Lemma nsub_prefix {A} (l : list A) n : n <= nlen l -> nsub l 0 n = Some (ntake n l).
Proof.
  intros H. unfold nsub. destruct (N.leb_spec 0 n); [|lia]. destruct (N.leb_spec n (nlen l)); [|lia].
  cbn [andb]. rewrite ndrop_0. f_equal. f_equal. lia.
Qed.
Lemma nsub_suffix {A} (l : list A) i : i <= nlen l -> nsub l i (nlen l) = Some (ndrop i l).
Proof.
  intros H. unfold nsub. destruct (N.leb_spec i (nlen l)); [|lia]. rewrite N.leb_refl. cbn [andb].
  f_equal. apply ntake_all. rewrite nlen_ndrop. lia.
Qed.

Lemma parse_len_ok data : data <> [] -> parse_len data <> PLpanic.
Proof.
  intros Hne. unfold parse_len. destruct data as [|b0 t]; [contradiction|]. cbn [nnth N.eqb].
  destruct (b0 / 128 mod 2 =? 0); [discriminate|].
  destruct ((b0 mod 128 =? 0) || (8 <? b0 mod 128)); [discriminate|].
  destruct (N.ltb_spec (nlen (b0 :: t)) (1 + b0 mod 128)); [discriminate|].
  unfold nsub. destruct (N.leb_spec 1 (1 + b0 mod 128)); [|lia].
  destruct (N.leb_spec (1 + b0 mod 128) (nlen (b0 :: t))); [|lia]. cbn [andb]. discriminate.
Qed.

Lemma expected_of_ok old pl : exists e, expected_of old pl = Eok e.
Proof.
  unfold expected_of. destruct (N.leb_spec 17 (nlen pl)) as [H|H]; [|eauto].
  rewrite nsub_suffix by lia.
  assert (Hne : ndrop 16 pl <> []).
  { intros E. apply (f_equal nlen) in E. rewrite nlen_ndrop in E. cbn [nlen] in E. lia. }
  pose proof (parse_len_ok _ Hne) as Hp. destruct (parse_len (ndrop 16 pl)); [eauto|eauto|contradiction].
Qed.

Lemma finish_no_panic d m w : snd (fst (finish d m w)) <> DPanic.
Proof.
  unfold finish. destruct m; cbn [fst snd]; [discriminate|].
  destruct (N.ltb_spec 0 (dexp d)); cbn [andb]; [|discriminate].
  destruct (N.leb_spec (dexp d) (nlen (dbuf d))); [|discriminate].
  rewrite nsub_prefix by assumption. discriminate.
Qed.

Theorem dec_no_panic d p : snd (fst (dec d p)) <> DPanic.
Proof.
  unfold dec. destruct (dfirst d && negb (pseq p =? seq_next (dlast d))); cbn [fst snd]; [discriminate|].
  cbn [dasm dbuf dexp dts dreg dcap dfresh]. destruct (dasm d); cbn [negb].
  - destruct (pts p =? dts d); cbn [negb fst snd]; [|discriminate].
    destruct (append_reg _ _ _ _ _) as [[[reg cap] fresh] w]. apply finish_no_panic.
  - destruct (is_start (ppayload p)); cbn [negb fst snd]; [|discriminate].
    destruct (append_reg _ _ _ _ _) as [[[reg cap] fresh] w].
    destruct (expected_of_ok (dexp d) (ppayload p)) as [e ->]. apply finish_no_panic.
Qed.

Definition results (rs : list (dres (bytes * N) * list N)) : list (dres (bytes * N)) := map fst rs.

Theorem total_from d hist : ~ In DPanic (results (snd (dec_run d hist))).
Proof.
  revert d; induction hist as [|p t IH]; intros d; cbn [dec_run]; [cbn; tauto|].
  pose proof (dec_no_panic d p) as Hp. destruct (dec d p) as [[d' r] w]. cbn [fst snd] in Hp.
  specialize (IH d'). destruct (dec_run d' t) as [d'' rs]. cbn [fst snd results map] in *.
  intros [H|H]; [congruence|contradiction].
Qed.

(* ---------- decoder invariant ---------- *)
(* when no unit is being assembled the logical buffer is empty and no size is expected *)
Definition Inv (d : dstate) : Prop := dasm d = false -> dbuf d = [] /\ dexp d = 0.

Lemma inv_init : Inv dinit.
Proof. intros _. split; reflexivity. Qed.
Lemma inv_reset d : Inv (dreset d).
Proof. intros _. split; reflexivity. Qed.

Lemma finish_inv d m w : Inv d -> Inv (fst (fst (finish d m w))).
Proof.
  intros HI. unfold finish. destruct m; cbn [fst]; [apply inv_reset|].
  destruct ((0 <? dexp d) && (dexp d <=? nlen (dbuf d))); [|exact HI].
  destruct (nsub _ _ _); cbn [fst]; [apply inv_reset|exact HI].
Qed.

Lemma dec_inv d p : Inv d -> Inv (fst (fst (dec d p))).
Proof.
  intros HI. unfold dec. destruct (dfirst d && negb (pseq p =? seq_next (dlast d))); cbn [fst]; [apply inv_reset|].
  cbn [dasm dbuf dexp dts dreg dcap dfresh]. destruct (dasm d) eqn:Ea; cbn [negb].
  - destruct (pts p =? dts d); cbn [negb fst]; [|apply inv_reset].
    destruct (append_reg _ _ _ _ _) as [[[reg cap] fresh] w]. apply finish_inv. intros H; discriminate H.
  - destruct (is_start (ppayload p)); cbn [negb fst].
    + destruct (append_reg _ _ _ _ _) as [[[reg cap] fresh] w].
      destruct (expected_of (dexp d) (ppayload p)); [|intros H; cbn [dasm] in H; now apply HI].
      apply finish_inv. intros H; discriminate H.
    + intros H; cbn [dasm dbuf dexp] in *. now apply HI.
Qed.

Lemma dec_run_inv ps : forall d, Inv d -> Inv (fst (dec_run d ps)).
Proof.
  induction ps as [|p t IH]; intros d HI; cbn [dec_run]; [exact HI|].
  pose proof (dec_inv d p HI) as HI'. destruct (dec d p) as [[d' r] w]. cbn [fst] in HI'.
  specialize (IH d' HI'). destruct (dec_run d' t) as [d'' rs]. exact IH.
Qed.

Lemma dec_run_app ps1 ps2 d :
  dec_run d (ps1 ++ ps2) =
  let '(d1, r1) := dec_run d ps1 in let '(d2, r2) := dec_run d1 ps2 in (d2, r1 ++ r2).
Proof.
  revert d; induction ps1 as [|p t IH]; intros d; cbn [app dec_run].
  - destruct (dec_run d ps2); reflexivity.
  - destruct (dec d p) as [[d' r] w]. rewrite IH. destruct (dec_run d' t) as [d1 r1].
    destruct (dec_run d1 ps2) as [d2 r2]. reflexivity.
Qed.

(* ---------- round trip (C03) ---------- *)
(* the application stamps every packet of a unit with the unit's timestamp *)
Definition set_ts (t : N) (ps : list packet) : list packet :=
  map (fun p => mkPkt (pseq p) t (pmarker p) (ppayload p)) ps.
Definition strip (r : dres (bytes * N)) : dres bytes :=
  match r with DFrame (f, _) => DFrame f | DMore => DMore | DErr => DErr | DPanic => DPanic end.
Definition outcomes (rs : list (dres (bytes * N) * list N)) : list (dres bytes) :=
  map (fun rw => strip (fst rw)) rs.

(* clean with respect to the sequence number of the next packet: nothing being assembled, and the
   continuity check will accept that packet *)
Definition clean (d : dstate) (s : N) : Prop :=
  dasm d = false /\ dbuf d = [] /\ dexp d = 0 /\ (dfirst d = false \/ seq_next (dlast d) = s).

Lemma clean_reset d s : clean (dreset d) s.
Proof. unfold clean, dreset; cbn. tauto. Qed.
Lemma clean_inv d s : clean d s -> Inv d.
Proof. intros (_ & Hb & He & _) _. tauto. Qed.

(* expectedSize as computed from a first packet's payload *)
Definition exp0 (pl : bytes) : N := match expected_of 0 pl with Eok e => e | Epanic => 0 end.

(* the decoder does not return early: after every packet but the last, fewer bytes are buffered than
   the first item announces (or nothing is announced in the first packet).  All packets but the last
   carry [max] bytes, and there are (len-1)/max of them. *)
Definition no_early_cut (max : N) (u : bytes) : Prop :=
  exp0 (ntake max u) = 0 \/ max * ((nlen u - 1) / max) < exp0 (ntake max u).

Lemma finish_marker d w : finish d true w = (dreset d, DFrame (dbuf d, dreg d), w).
Proof. reflexivity. Qed.
Lemma finish_more d w : (dexp d = 0 \/ nlen (dbuf d) < dexp d) -> finish d false w = (d, DMore, w).
Proof.
  intros H. unfold finish. destruct (N.ltb_spec 0 (dexp d)); cbn [andb]; [|reflexivity].
  destruct (N.leb_spec (dexp d) (nlen (dbuf d))); [lia|reflexivity].
Qed.

Lemma dec_cont d p : dasm d = true -> dfirst d = true -> pseq p = seq_next (dlast d) -> pts p = dts d ->
  exists reg cap fresh w,
    dec d p = finish (mkD (dbuf d ++ ppayload p) (dexp d) (dts d) true (pseq p) true reg cap fresh) (pmarker p) w.
Proof.
  intros Ha Hf Hs Ht. unfold dec. rewrite Hf, Hs, N.eqb_refl. cbn [andb negb dasm dbuf dexp dts dreg dcap dfresh].
  rewrite Ha, Ht, N.eqb_refl. cbn [negb].
  destruct (append_reg _ _ _ _ _) as [[[reg cap] fresh] w]. eauto.
Qed.

Lemma dec_start d p : clean d (pseq p) -> is_start (ppayload p) = true ->
  exists reg cap fresh w,
    dec d p = finish (mkD (ppayload p) (exp0 (ppayload p)) (pts p) true (pseq p) true reg cap fresh) (pmarker p) w.
Proof.
  intros (Ha & Hb & He & Hf) Hst. unfold dec.
  assert (Hc : dfirst d && negb (pseq p =? seq_next (dlast d)) = false).
  { destruct Hf as [->| <-]; [reflexivity|]. rewrite N.eqb_refl. now destruct (dfirst d). }
  rewrite Hc. cbn [dasm dbuf dexp dts dreg dcap dfresh]. rewrite Ha, Hst, He. cbn [negb].
  destruct (append_reg _ _ _ _ _) as [[[reg cap] fresh] w]. unfold exp0.
  destruct (expected_of_ok 0 (ppayload p)) as [e ->]. eauto.
Qed.

Lemma set_ts_cons t s m c ps : set_ts t (mkPkt s 0 m c :: ps) = mkPkt s t m c :: set_ts t ps.
Proof. reflexivity. Qed.

Lemma marker_false {A} (l : list A) : l <> [] -> match l with [] => true | _ :: _ => false end = false.
Proof. destruct l; [contradiction|reflexivity]. Qed.
Lemma set_ts_length t seq cs : length (set_ts t (mk_pkts seq cs)) = length cs.
Proof.
  unfold set_ts. rewrite map_length. pose proof (mk_pkts_len seq cs) as HL. rewrite !nlen_length in HL. lia.
Qed.

Lemma chunks_ne {A} n (l : list A) : 0 < n -> l <> [] -> chunks n l <> [].
Proof. intros Hn Hl. rewrite chunks_cons by assumption. discriminate. Qed.

Lemma div_step a m : 0 < m -> m < a -> (a - 1) / m = (a - m - 1) / m + 1.
Proof.
  intros Hm Ha. replace (a - 1) with ((a - m - 1) + 1 * m) by lia. rewrite N.div_add by lia. reflexivity.
Qed.
Lemma div_ge1 a m : 0 < m -> m < a -> 1 <= (a - 1) / m.
Proof. intros Hm Ha. rewrite div_step by assumption. apply N.le_add_l. Qed.

(* the remaining packets of a unit whose first bytes are already buffered *)
Lemma dec_rest max t : 0 < max -> forall n rest, nlen rest = n -> forall d seq,
  rest <> [] -> dasm d = true -> dts d = t -> dfirst d = true -> seq_next (dlast d) = seq ->
  (dexp d = 0 \/ nlen (dbuf d) + max * ((nlen rest - 1) / max) < dexp d) ->
  exists d' rs, dec_run d (set_ts t (mk_pkts seq (chunks max rest))) = (d', rs) /\
    outcomes rs = repeat DMore (length (chunks max rest) - 1) ++ [DFrame (dbuf d ++ rest)] /\
    forall s, clean d' s.
Proof.
  intros Hm n. induction n as [n IH] using (well_founded_induction N.lt_wf_0).
  intros rest Hn d seq Hne Ha Ht Hf Hl Hcut.
  rewrite chunks_cons by assumption. set (c := ntake max rest). set (rest' := ndrop max rest).
  cbn [mk_pkts]. rewrite set_ts_cons.
  destruct (nlen_nil_iff rest') as [Hnil _].
  destruct (N.eqb_spec (nlen rest') 0) as [Hz|Hnz].
  - (* last packet *)
    apply Hnil in Hz. rewrite Hz. rewrite chunks_nil. cbn [mk_pkts set_ts map dec_run].
    destruct (dec_cont d (mkPkt seq t true c)) as (reg & cap & fresh & w & ->); cbn [pseq pts pmarker ppayload]; try congruence.
    rewrite finish_marker. cbn [dbuf length Nat.sub repeat app outcomes map fst strip].
    do 2 eexists. split; [reflexivity|]. split; [|intros s; apply clean_reset].
    assert (Hc : c = rest). { rewrite <- (ntake_ndrop max rest). fold c rest'. rewrite Hz. now rewrite app_nil_r. }
    now rewrite Hc.
  - assert (Hne' : rest' <> []). { intros E. rewrite E in Hnz. now cbn in Hnz. }
    assert (Hlen : max < nlen rest). { unfold rest' in Hnz. rewrite nlen_ndrop in Hnz. lia. }
    assert (Hc : nlen c = max). { unfold c. rewrite nlen_ntake. lia. }
    pose proof (chunks_ne max rest' Hm Hne') as Hcs.
    destruct (chunks max rest') as [|c2 cs2] eqn:Ecs; [contradiction|]. rewrite <- Ecs.
    cbn [dec_run].
    destruct (dec_cont d (mkPkt seq t false c)) as (reg & cap & fresh & w & ->); cbn [pseq pts pmarker ppayload]; try congruence.
    pose proof (div_ge1 (nlen rest) max Hm Hlen) as Hge.
    rewrite finish_more by (cbn [dexp dbuf]; rewrite nlen_app, Hc; nia).
    set (d2 := mkD (dbuf d ++ c) (dexp d) (dts d) true seq true reg cap fresh).
    destruct (IH (nlen rest')) with (rest := rest') (d := d2) (seq := seq_next seq) as (d' & rs & Hrun & Hout & Hcl);
      try reflexivity; try assumption.
    + unfold rest'. rewrite nlen_ndrop. lia.
    + unfold d2; cbn [dexp dbuf]. rewrite nlen_app, Hc. unfold rest'. rewrite nlen_ndrop.
      rewrite (div_step (nlen rest) max Hm Hlen) in Hcut. nia.
    + rewrite Hrun. do 2 eexists. split; [reflexivity|]. split; [|exact Hcl].
      cbn [outcomes map fst strip]. fold (outcomes rs). rewrite Hout. unfold d2; cbn [dbuf].
      rewrite Ecs. cbn [length Nat.sub]. rewrite Nat.sub_0_r. cbn [repeat app].
      rewrite <- app_assoc. unfold c, rest'. now rewrite ntake_ndrop.
Qed.

Lemma is_start_ntake max u : 4 <= max -> is_start (ntake max u) = is_start u.
Proof.
  intros H. destruct u as [|a [|b [|c [|e t]]]]; try (rewrite ntake_all by (cbn [nlen]; lia); reflexivity).
  cbn [ntake]. destruct (N.eqb_spec max 0); [lia|]. destruct (N.eqb_spec (N.pred max) 0); [lia|].
  destruct (N.eqb_spec (N.pred (N.pred max)) 0); [lia|].
  destruct (N.eqb_spec (N.pred (N.pred (N.pred max))) 0); [lia|]. reflexivity.
Qed.

(* One unit through a clean decoder: "more" on every packet but the last, the unit itself on the last,
   clean again afterwards (for whatever sequence number comes next). *)
Theorem roundtrip max seq t u d :
  4 <= max -> is_start u = true -> no_early_cut max u -> clean d seq ->
  let ps := set_ts t (fst (enc max seq u)) in
  exists d' rs, dec_run d ps = (d', rs) /\
    outcomes rs = repeat DMore (length ps - 1) ++ [DFrame u] /\ forall s, clean d' s.
Proof.
  intros Hm Hst Hcut Hcl. unfold enc. destruct (N.leb_spec (nlen u) max) as [Hle|Hgt]; cbn [fst].
  - cbn [set_ts map dec_run pseq pmarker ppayload].
    destruct (dec_start d (mkPkt seq t true u)) as (reg & cap & fresh & w & ->); [exact Hcl|exact Hst|].
    cbn [pmarker]. rewrite finish_marker. cbn [dbuf].
    do 2 eexists. split; [reflexivity|]. split; [reflexivity|]. intros s; apply clean_reset.
  - assert (Hne : u <> []). { intros E. rewrite E in Hgt. cbn in Hgt. lia. }
    assert (Hm0 : 0 < max) by lia.
    rewrite chunks_cons by assumption. set (c := ntake max u). set (rest' := ndrop max u).
    assert (Hc : nlen c = max). { unfold c. rewrite nlen_ntake. lia. }
    assert (Hne' : rest' <> []).
    { intros E. apply (f_equal nlen) in E. unfold rest' in E. rewrite nlen_ndrop in E. cbn in E. lia. }
    pose proof (chunks_ne max rest' Hm0 Hne') as Hcs.
    cbn [mk_pkts]. rewrite set_ts_cons, (marker_false _ Hcs). cbn [dec_run].
    destruct (dec_start d (mkPkt seq t false c)) as (reg & cap & fresh & w & ->);
      [exact Hcl|cbn [ppayload]; unfold c; now rewrite is_start_ntake|].
    cbn [pmarker ppayload pts pseq].
    pose proof (div_ge1 (nlen u) max Hm0 Hgt) as Hge. unfold no_early_cut in Hcut. fold c in Hcut.
    rewrite finish_more by (cbn [dexp dbuf]; rewrite Hc; nia).
    set (d2 := mkD c (exp0 c) t true seq true reg cap fresh).
    destruct (dec_rest max t Hm0 (nlen rest') rest' eq_refl d2 (seq_next seq)) as (d' & rs & Hrun & Hout & Hcl');
      try reflexivity; try assumption.
    + unfold d2; cbn [dexp dbuf]. rewrite Hc. unfold rest'. rewrite nlen_ndrop.
      rewrite (div_step (nlen u) max Hm0 Hgt) in Hcut. nia.
    + rewrite Hrun. do 2 eexists. split; [reflexivity|]. split; [|exact Hcl'].
      cbn [outcomes map fst strip]. fold (outcomes rs). rewrite Hout. unfold d2; cbn [dbuf].
      cbn [length]. rewrite set_ts_length.
      destruct (chunks max rest') as [|c2 cs2]; [contradiction|].
      cbn [length Nat.sub]. rewrite !Nat.sub_0_r. cbn [repeat app].
      unfold c, rest'. now rewrite ntake_ndrop.
Qed.

(* consecutive units through the same encoder/decoder pair; unit i is stamped with timestamp ts i *)
Fixpoint stamp (tss : list N) (pss : list (list packet)) : list (list packet) :=
  match tss, pss with
  | t :: tr, ps :: pt => set_ts t ps :: stamp tr pt
  | _, _ => []
  end.
Fixpoint expect (pss : list (list packet)) (units : list bytes) : list (dres bytes) :=
  match pss, units with
  | ps :: pt, f :: ft => repeat DMore (length ps - 1) ++ [DFrame f] ++ expect pt ft
  | _, _ => []
  end.

Definition ok_unit (max : N) (u : bytes) : Prop := is_start u = true /\ no_early_cut max u.

Theorem roundtrip_seq max : 4 <= max -> forall units tss, length tss = length units ->
  Forall (ok_unit max) units -> forall seq d, clean d seq ->
  exists d' rs, dec_run d (concat (stamp tss (enc_many max seq units))) = (d', rs) /\
    outcomes rs = expect (enc_many max seq units) units /\ forall s, clean d' s \/ units = [].
Proof.
  intros Hm. induction units as [|u ut IH]; intros tss Hlen Hv seq d Hcl.
  - destruct tss; [|discriminate]. cbn. do 2 eexists. split; [reflexivity|]. split; [reflexivity|]. now right.
  - destruct tss as [|t tr]; [discriminate|]. inversion Hv as [|? ? [Hst Hcut] Hvt]; subst. cbn [enc_many].
    destruct (roundtrip max seq t u d Hm Hst Hcut Hcl) as (d1 & rs1 & Hr1 & Ho1 & Hc1).
    destruct (enc max seq u) as [ps seq'] eqn:E. cbn [fst] in Hr1, Ho1. cbn [stamp concat expect].
    rewrite dec_run_app, Hr1.
    injection Hlen as Hlen.
    destruct (IH tr Hlen Hvt seq' d1 (Hc1 seq')) as (d2 & rs2 & Hr2 & Ho2 & Hc2). rewrite Hr2.
    do 2 eexists. split; [reflexivity|]. split.
    + unfold outcomes in *. rewrite map_app, Ho1, Ho2. unfold set_ts. rewrite map_length.
      now rewrite <- app_assoc.
    + intros s. left. destruct (Hc2 s) as [H|H]; [exact H|].
      subst ut. destruct tr; [|discriminate]. cbn in Hr2. injection Hr2 as <- _. apply Hc1.
Qed.

(* --- which units are inside the proven domain --- *)
Lemma no_early_cut_unfragmented max u : 0 < max -> nlen u <= max -> no_early_cut max u.
Proof.
  intros Hm H. unfold no_early_cut. replace ((nlen u - 1) / max) with 0 by (symmetry; apply N.div_small; lia). lia.
Qed.

(* parsing the length field of a prefix either fails or agrees with the whole *)
Lemma parse_len_prefix k data : 1 <= k ->
  parse_len (ntake k data) = parse_len data \/ parse_len (ntake k data) = PLerr.
Proof.
  intros Hk. destruct data as [|b0 tl]; [left; reflexivity|].
  cbn [ntake]. destruct (N.eqb_spec k 0); [lia|]. unfold parse_len. cbn [nnth N.eqb].
  destruct (b0 / 128 mod 2 =? 0); [now left|].
  destruct ((b0 mod 128 =? 0) || (8 <? b0 mod 128)); [now left|].
  set (lb := b0 mod 128).
  destruct (N.ltb_spec (nlen (b0 :: ntake (N.pred k) tl)) (1 + lb)) as [H1|H1]; [now right|].
  cbn [nlen] in H1. rewrite nlen_ntake in H1.
  destruct (N.ltb_spec (nlen (b0 :: tl)) (1 + lb)) as [H2|H2]; [cbn [nlen] in H2; lia|].
  left. unfold nsub. cbn [nlen]. rewrite nlen_ntake.
  destruct (N.leb_spec 1 (1 + lb)); [|lia].
  destruct (N.leb_spec (1 + lb) (N.succ (N.min (N.pred k) (nlen tl)))); [|lia].
  destruct (N.leb_spec (1 + lb) (N.succ (nlen tl))); [|lia]. cbn [andb]. do 2 f_equal.
  cbn [ndrop N.eqb N.pred Pos.pred_N]. rewrite !ndrop_0.
  replace (1 + lb - 1) with lb by lia.
  rewrite !ntake_firstn, firstn_firstn. f_equal. lia.
Qed.

Lemma exp0_prefix max u : exp0 (ntake max u) = 0 \/ exp0 (ntake max u) = exp0 u.
Proof.
  unfold exp0, expected_of. rewrite nlen_ntake.
  destruct (N.leb_spec 17 (N.min max (nlen u))) as [H|H]; [|now left].
  destruct (N.leb_spec 17 (nlen u)) as [H'|H']; [|lia].
  rewrite <- (nlen_ntake max u). rewrite !nsub_suffix by (try rewrite nlen_ntake; lia).
  assert (E : ndrop 16 (ntake max u) = ntake (max - 16) (ndrop 16 u)).
  { rewrite !ndrop_skipn, !ntake_firstn. rewrite skipn_firstn_comm. f_equal. lia. }
  rewrite E. destruct (parse_len_prefix (max - 16) (ndrop 16 u)) as [->| ->]; [lia|now right|now left].
Qed.

(* a unit that is exactly one item (the size announced by its length field is the unit's size)
   round-trips for every payload limit *)
Lemma no_early_cut_single_item max u : 0 < max -> u <> [] -> exp0 u = nlen u -> no_early_cut max u.
Proof.
  intros Hm Hne He. unfold no_early_cut. destruct (exp0_prefix max u) as [->| ->]; [now left|right].
  rewrite He. assert (0 < nlen u) by (destruct u; [contradiction|cbn [nlen]; lia]).
  pose proof (N.mul_div_le (nlen u - 1) max). lia.
Qed.

(* --- F2: the full statement is false --- *)
(* a well-formed unit: a sequence of items, each a 16-byte key starting 06 0e 2b 34, a BER length, a value *)
Fixpoint items_ok (fuel : bytes) (u : bytes) : bool :=
  match fuel with
  | [] => false
  | _ :: fuel' =>
    is_start u && (17 <=? exp0 u) && (exp0 u <=? nlen u) &&
    ((exp0 u =? nlen u) || items_ok fuel' (ndrop (exp0 u) u))
  end.
Definition valid_unit (u : bytes) : Prop := items_ok u u = true.

Definition upstream_single : bytes :=
  [6;14;43;52;1;1;1;1;1;1;1;1;1;1;1;1;3;65;66;67; 6;14;43;52;2;2;2;2;2;2;2;2;2;2;2;2;3;68;69;70].

Theorem roundtrip_refuted : exists max seq t u,
  4 <= max /\ valid_unit u /\
  let ps := set_ts t (fst (enc max seq u)) in
  outcomes (snd (dec_run dinit ps)) <> repeat DMore (length ps - 1) ++ [DFrame u].
Proof.
  exists 24, 65535, 0, upstream_single. split; [lia|]. split; [vm_compute; reflexivity|].
  vm_compute. discriminate.
Qed.

(* ---------- resynchronisation (C07) ---------- *)
(* a marker packet leaves ANY reachable state clean for the sequence number that follows it *)
Lemma marker_cleans d p : Inv d -> pmarker p = true -> clean (fst (fst (dec d p))) (seq_next (pseq p)).
Proof.
  intros HI Hm. unfold dec. destruct (dfirst d && negb (pseq p =? seq_next (dlast d))); cbn [fst]; [apply clean_reset|].
  cbn [dasm dbuf dexp dts dreg dcap dfresh]. destruct (dasm d) eqn:Ea; cbn [negb].
  - destruct (pts p =? dts d); cbn [negb fst]; [|apply clean_reset].
    destruct (append_reg _ _ _ _ _) as [[[reg cap] fresh] w]. rewrite Hm, finish_marker. apply clean_reset.
  - destruct (HI Ea) as [Hb He]. destruct (is_start (ppayload p)); cbn [negb fst].
    + destruct (append_reg _ _ _ _ _) as [[[reg cap] fresh] w].
      destruct (expected_of_ok (dexp d) (ppayload p)) as [e ->]. rewrite Hm, finish_marker. apply clean_reset.
    + unfold clean; cbn [dasm dbuf dexp dfirst dlast]. tauto.
Qed.

Lemma absorb ps p d : Inv d -> pmarker p = true ->
  clean (fst (dec_run d (ps ++ [p]))) (seq_next (pseq p)).
Proof.
  intros HI Hm. rewrite dec_run_app. pose proof (dec_run_inv ps d HI) as HI1.
  destruct (dec_run d ps) as [d1 r1]. cbn [fst] in HI1. cbn [dec_run].
  pose proof (marker_cleans d1 p HI1 Hm) as Hc. destruct (dec d1 p) as [[d2 r] w]. exact Hc.
Qed.

Lemma mk_pkts_last cs : forall seq, cs <> [] -> exists ps p, mk_pkts seq cs = ps ++ [p] /\
  pmarker p = true /\ seq_next (pseq p) = seq_add seq (nlen cs).
Proof.
  induction cs as [|c t IH]; intros seq Hne; [contradiction|]. destruct t as [|c2 t2].
  - exists [], (mkPkt seq 0 true c). split; [reflexivity|]. split; reflexivity.
  - destruct (IH (seq_next seq)) as (ps & p & E & Hm & Hs); [discriminate|].
    exists (mkPkt seq 0 false c :: ps), p. cbn [mk_pkts] in *. rewrite E. split; [reflexivity|].
    split; [exact Hm|]. rewrite Hs, seq_add_next. f_equal. cbn [nlen]. lia.
Qed.

Lemma enc_last max seq u : 0 < max -> exists ps p, fst (enc max seq u) = ps ++ [p] /\
  pmarker p = true /\ seq_next (pseq p) = snd (enc max seq u).
Proof.
  intros Hm. unfold enc. destruct (N.leb_spec (nlen u) max) as [Hle|Hgt]; cbn [fst snd].
  - exists [], (mkPkt seq 0 true u). split; [reflexivity|]. split; reflexivity.
  - apply mk_pkts_last. apply chunks_ne; [assumption|]. intros E. rewrite E in Hgt. cbn in Hgt. lia.
Qed.

(* After ANY packet history, one intact unit u1 (any unit at all) is enough: the following unit u2,
   continuing the encoder's sequence numbers, is returned exactly at its last packet. *)
Theorem resync max hist u1 u2 s1 t1 t2 :
  4 <= max -> ok_unit max u2 ->
  let d0 := fst (dec_run dinit hist) in
  let d1 := fst (dec_run d0 (set_ts t1 (fst (enc max s1 u1)))) in
  let ps2 := set_ts t2 (fst (enc max (snd (enc max s1 u1)) u2)) in
  exists d2 rs, dec_run d1 ps2 = (d2, rs) /\
    outcomes rs = repeat DMore (length ps2 - 1) ++ [DFrame u2] /\ forall s, clean d2 s.
Proof.
  intros Hm [Hst Hcut] d0 d1 ps2. apply roundtrip; try assumption.
  destruct (enc_last max s1 u1) as (ps & p & E & Hmk & Hs); [lia|]. unfold d1. rewrite E, <- Hs.
  unfold set_ts. rewrite map_app. cbn [map].
  apply (absorb _ (mkPkt (pseq p) t1 (pmarker p) (ppayload p))); [|exact Hmk].
  unfold d0. apply dec_run_inv, inv_init.
Qed.

(* ---------- arbitrary histories (C08) ---------- *)
Theorem total hist : ~ In DPanic (results (snd (dec_run dinit hist))).
Proof. apply total_from. Qed.

(* --- F4: nothing bounds the buffer --- *)
Definition key16 : bytes := [6;14;43;52;1;1;1;1;1;1;1;1;1;1;1;1].
Fixpoint mids (seq : N) (k : nat) : list packet :=
  match k with O => [] | S k' => mkPkt seq 0 false [0] :: mids (seq_next seq) k' end.
Definition grow (k : nat) : list packet := mkPkt 0 0 false key16 :: mids 1 k.

Lemma mids_small seq k : Forall (fun p => nlen (ppayload p) <= 16) (mids seq k).
Proof. revert seq; induction k as [|k IH]; intros seq; cbn [mids]; constructor; [cbn; lia|apply IH]. Qed.

Lemma mids_grow k : forall d seq, dasm d = true -> dts d = 0 -> dexp d = 0 -> dfirst d = true ->
  seq_next (dlast d) = seq ->
  let d' := fst (dec_run d (mids seq k)) in
  nlen (dbuf d') = nlen (dbuf d) + N.of_nat k /\ dasm d' = true /\ dts d' = 0 /\ dexp d' = 0 /\
  dfirst d' = true /\ Forall (fun r => r = DMore) (outcomes (snd (dec_run d (mids seq k)))).
Proof.
  induction k as [|k IH]; intros d seq Ha Ht He Hf Hl.
  - cbn. splits; auto. lia.
  - cbn [mids dec_run].
    destruct (dec_cont d (mkPkt seq 0 false [0])) as (reg & cap & fresh & w & ->); cbn [pseq pts]; try congruence.
    cbn [pmarker ppayload]. rewrite finish_more by (cbn [dexp]; now left).
    set (d2 := mkD _ _ _ _ _ _ _ _ _).
    specialize (IH d2 (seq_next seq)). destruct (dec_run d2 (mids (seq_next seq) k)) as [d3 rs] eqn:E.
    cbn [fst snd] in *. destruct IH as (H1 & H2 & H3 & H4 & H5 & H6); try reflexivity; try assumption.
    splits; try assumption.
    + rewrite H1. unfold d2; cbn [dbuf]. rewrite nlen_app. cbn [nlen]. lia.
    + cbn [outcomes map fst strip]. constructor; [reflexivity|exact H6].
Qed.

Lemma grow_state k : let d' := fst (dec_run dinit (grow k)) in
  nlen (dbuf d') = 16 + N.of_nat k /\ dasm d' = true /\ dts d' = 0 /\ dexp d' = 0 /\ dfirst d' = true.
Proof.
  unfold grow. cbn [dec_run].
  replace (dec dinit (mkPkt 0 0 false key16)) with (mkD key16 0 0 true 0 true 1 16 2, @DMore (bytes * N), [1])
    by (vm_compute; reflexivity).
  pose proof (mids_grow k (mkD key16 0 0 true 0 true 1 16 2) 1 eq_refl eq_refl eq_refl eq_refl eq_refl) as H.
  destruct (dec_run _ (mids 1 k)) as [d3 rs]. cbn [fst snd] in *. tauto.
Qed.

(* for every bound B there is a history of packets of at most 16 payload bytes after which the
   decoder retains more than B bytes *)
Theorem bounded_refuted : forall B, exists hist,
  Forall (fun p => nlen (ppayload p) <= 16) hist /\ B < fst (retained (fst (dec_run dinit hist))).
Proof.
  intros B. exists (grow (N.to_nat B)). split.
  - unfold grow. constructor; [cbn; lia|apply mids_small].
  - pose proof (grow_state (N.to_nat B)) as (H & _). unfold retained; cbn [fst]. rewrite H. lia.
Qed.

(* ... and a final marker packet returns a unit larger than B *)
Theorem output_bounded_refuted : forall B, exists hist f,
  Forall (fun p => nlen (ppayload p) <= 16) hist /\
  In (DFrame f) (outcomes (snd (dec_run dinit hist))) /\ B < nlen f.
Proof.
  intros B. pose proof (grow_state (N.to_nat B)) as (H1 & H2 & H3 & H4 & H5).
  set (d := fst (dec_run dinit (grow (N.to_nat B)))) in *.
  exists (grow (N.to_nat B) ++ [mkPkt (seq_next (dlast d)) 0 true [0]]), (dbuf d ++ [0]). splits.
  - apply Forall_app. split; [unfold grow; constructor; [cbn; lia|apply mids_small]|]. constructor; [cbn; lia|constructor].
  - rewrite dec_run_app. fold d. destruct (dec_run dinit (grow (N.to_nat B))) as [d0 rs0] eqn:E. cbn [fst] in d. subst d.
    cbn [dec_run].
    destruct (dec_cont d0 (mkPkt (seq_next (dlast d0)) 0 true [0])) as (reg & cap & fresh & w & ->); cbn [pseq pts]; try congruence.
    cbn [pmarker ppayload]. rewrite finish_marker. cbn [dbuf snd]. unfold outcomes. rewrite map_app.
    apply in_or_app. right. cbn. now left.
  - rewrite nlen_app, H1. cbn [nlen]. lia.
Qed.

(* --- what IS bounded: slice headers (none are retained), and bytes by the input volume --- *)
Definition volume (hist : list packet) : N := nlen (concat (map ppayload hist)).

Lemma finish_sizes d m w : let '(d', r, _) := finish d m w in
  nlen (dbuf d') <= nlen (dbuf d) /\ forall f y, r = DFrame (f, y) -> nlen f <= nlen (dbuf d).
Proof.
  unfold finish. destruct m.
  - cbn [dreset dbuf nlen]. split; [lia|]. intros f y Hfy. injection Hfy as <- _. lia.
  - destruct (N.ltb_spec 0 (dexp d)); cbn [andb]; [|split; [lia|discriminate]].
    destruct (N.leb_spec (dexp d) (nlen (dbuf d))); [|split; [lia|discriminate]].
    rewrite nsub_prefix by assumption. cbn [dreset dbuf nlen]. split; [lia|].
    intros f y Hfy. injection Hfy as <- _. rewrite nlen_ntake. lia.
Qed.

Lemma dec_sizes d p : let '(d', r, _) := dec d p in
  nlen (dbuf d') <= nlen (dbuf d) + nlen (ppayload p) /\
  forall f y, r = DFrame (f, y) -> nlen f <= nlen (dbuf d) + nlen (ppayload p).
Proof.
  unfold dec. destruct (dfirst d && negb (pseq p =? seq_next (dlast d))).
  { cbn [dreset dbuf nlen]. split; [lia|discriminate]. }
  cbn [dasm dbuf dexp dts dreg dcap dfresh]. destruct (dasm d); cbn [negb].
  - destruct (pts p =? dts d); cbn [negb]; [|cbn [dreset dbuf nlen]; split; [lia|discriminate]].
    destruct (append_reg _ _ _ _ _) as [[[reg cap] fresh] w].
    pose proof (finish_sizes (mkD (dbuf d ++ ppayload p) (dexp d) (dts d) true (pseq p) true reg cap fresh) (pmarker p) w) as H.
    destruct (finish _ _ _) as [[d' r] w']. cbn [dbuf] in H. rewrite nlen_app in H. exact H.
  - destruct (is_start (ppayload p)); cbn [negb]; [|cbn [dbuf]; split; [lia|discriminate]].
    destruct (append_reg _ _ _ _ _) as [[[reg cap] fresh] w].
    destruct (expected_of_ok (dexp d) (ppayload p)) as [e ->].
    pose proof (finish_sizes (mkD (ppayload p) e (pts p) true (pseq p) true reg cap fresh) (pmarker p) w) as H.
    destruct (finish _ _ _) as [[d' r] w']. cbn [dbuf] in H. destruct H as [H1 H2]. split; [lia|].
    intros f y Hf. specialize (H2 f y Hf). lia.
Qed.

Theorem bounded_partial hist :
  let '(d, rs) := dec_run dinit hist in
  fst (retained d) <= volume hist /\ snd (retained d) = 0 /\
  forall f, In (DFrame f) (outcomes rs) -> nlen f <= volume hist.
Proof.
  assert (G : forall hist d, let '(d', rs) := dec_run d hist in
    nlen (dbuf d') <= nlen (dbuf d) + volume hist /\
    forall f, In (DFrame f) (outcomes rs) -> nlen f <= nlen (dbuf d) + volume hist).
  { clear hist. induction hist as [|p t IH]; intros d; cbn [dec_run].
    - unfold volume; cbn. split; [lia|tauto].
    - pose proof (dec_sizes d p) as Hs. destruct (dec d p) as [[d1 r] w]. destruct Hs as [Hs1 Hs2].
      specialize (IH d1). destruct (dec_run d1 t) as [d2 rs]. destruct IH as [IH1 IH2].
      unfold volume in *. cbn [map concat]. rewrite nlen_app. split; [lia|].
      intros f [Hf|Hf].
      + cbn [fst] in Hf. destruct r as [[f' y]| | |]; try discriminate. injection Hf as <-.
        specialize (Hs2 f' y eq_refl). lia.
      + specialize (IH2 f Hf). lia. }
  specialize (G hist dinit). destruct (dec_run dinit hist) as [d rs]. unfold retained; cbn [fst snd].
  cbn [dinit dbuf nlen] in G. destruct G as [G1 G2]. splits; [lia|reflexivity|].
  intros f Hf. specialize (G2 f Hf). lia.
Qed.

(* --- aliasing (F3, repaired): no step writes to a region that has been returned --- *)
(* some step writes to a region that an earlier step returned *)
Fixpoint waw (returned : list N) (rs : list (dres (bytes * N) * list N)) : bool :=
  match rs with
  | [] => false
  | (r, w) :: t =>
      existsb (fun x => existsb (N.eqb x) returned) w ||
      waw (match r with DFrame (_, reg) => reg :: returned | _ => returned end) t
  end.
Definition write_after_return (rs : list (dres (bytes * N) * list N)) : bool := waw [] rs.

Definition unitA : bytes := [6;14;43;52;1;1;1;1;1;1;1;1;1;1;1;1;8;170;170;170;170;170;170;170;170].
Definition unitB : bytes := [6;14;43;52;1;1;1;1;1;1;1;1;1;1;1;1;8;187;187;187;187;187;187;187;187].

Lemma append_reg_facts reg cap fresh n k : reg < fresh ->
  let '(reg', cap', fresh', w) := append_reg reg cap fresh n k in
  reg' < fresh' /\ fresh <= fresh' /\
  (forall x, In x w -> (x = reg /\ reg <> 0) \/ x = fresh) /\
  (0 < k -> reg' <> 0 /\ (reg' = reg \/ reg' = fresh)) /\ (k = 0 -> reg' = reg).
Proof.
  intros H. unfold append_reg. destruct (N.eqb_spec k 0).
  - splits; try lia. intros x [].
  - destruct (N.eqb_spec reg 0); cbn [negb andb].
    + splits; try lia. intros x [<-|[]]; now right.
    + destruct (n + k <=? cap).
      * splits; try lia. intros x [<-|[]]. now left.
      * splits; try lia. intros x [<-|[]]; now right.
Qed.

(* returned regions are old (below the fresh counter), non-nil, and not the current buffer's region;
   while assembling, the buffer has a real region *)
Definition FInv (d : dstate) (R : list N) : Prop :=
  dreg d < dfresh d /\ (dasm d = true -> dreg d <> 0) /\
  Forall (fun y => 0 < y /\ y < dfresh d /\ y <> dreg d) R.

Lemma existsb_false w R : (forall x, In x w -> ~ In x R) -> existsb (fun x => existsb (N.eqb x) R) w = false.
Proof.
  intros H. apply Bool.not_true_is_false. intros E. apply existsb_exists in E. destruct E as (x & Hx & E).
  apply existsb_exists in E. destruct E as (y & Hy & E). apply N.eqb_eq in E. subst y. exact (H x Hx Hy).
Qed.

Lemma FInv_reset d R y : FInv d R -> y = dreg d -> dreg d <> 0 -> FInv (dreset d) (y :: R).
Proof.
  intros (H1 & H2 & H3) -> Hnz. unfold FInv; cbn [dreset dreg dfresh dasm]. splits; [lia|discriminate|].
  constructor; [lia|]. eapply Forall_impl; [|exact H3]. cbn. intros a. lia.
Qed.
Lemma FInv_reset' d R : FInv d R -> FInv (dreset d) R.
Proof.
  intros (H1 & H2 & H3). unfold FInv; cbn [dreset dreg dfresh dasm]. splits; [lia|discriminate|].
  eapply Forall_impl; [|exact H3]. cbn. intros a. lia.
Qed.

Lemma finish_FInv d m w R : FInv d R -> dasm d = true ->
  let '(d', r, w') := finish d m w in
  w' = w /\ FInv d' (match r with DFrame (_, y) => y :: R | _ => R end).
Proof.
  intros HI Ha. pose proof HI as (_ & Hnz & _). specialize (Hnz Ha). unfold finish. destruct m.
  - split; [reflexivity|]. now apply FInv_reset.
  - destruct ((0 <? dexp d) && (dexp d <=? nlen (dbuf d))); [|split; [reflexivity|exact HI]].
    destruct (nsub _ _ _); [split; [reflexivity|now apply FInv_reset]|split; [reflexivity|exact HI]].
Qed.

Lemma append_FInv d R n k :
  FInv d R -> (dasm d = true \/ 0 < k) ->
  let '(reg, cap, fresh, w) := append_reg (dreg d) (dcap d) (dfresh d) n k in
  (forall x, In x w -> ~ In x R) /\
  forall b e t l f, FInv (mkD b e t true l f reg cap fresh) R.
Proof.
  intros (H1 & H2 & H3) Hk.
  pose proof (append_reg_facts (dreg d) (dcap d) (dfresh d) n k H1) as Hf.
  destruct (append_reg _ _ _ _ _) as [[[reg cap] fresh] w]. destruct Hf as (A1 & A2 & A3 & A4 & A5).
  rewrite Forall_forall in H3. split.
  - intros x Hx Hin. specialize (H3 x Hin). destruct (A3 x Hx) as [[-> _]| ->]; lia.
  - intros b e t l f. unfold FInv; cbn [dreg dfresh dasm]. splits; [assumption| |].
    + intros _. destruct (N.eqb_spec k 0) as [Hz|Hz].
      * rewrite (A5 Hz). destruct Hk as [Hk|Hk]; [now apply H2|lia].
      * apply A4. lia.
    + rewrite Forall_forall. intros y Hy. specialize (H3 y Hy).
      destruct (N.eqb_spec k 0) as [Hz|Hz]; [rewrite (A5 Hz); lia|].
      destruct A4 as [_ [->| ->]]; lia.
Qed.

Lemma is_start_len pl : is_start pl = true -> 0 < nlen pl.
Proof. destruct pl; [discriminate|]. cbn [nlen]. lia. Qed.

Lemma dec_FInv d p R : FInv d R ->
  let '(d', r, w) := dec d p in
  (forall x, In x w -> ~ In x R) /\ FInv d' (match r with DFrame (_, y) => y :: R | _ => R end).
Proof.
  intros HI. unfold dec. destruct (dfirst d && negb (pseq p =? seq_next (dlast d))).
  { split; [intros x []|now apply FInv_reset']. }
  cbn [dasm dbuf dexp dts dreg dcap dfresh]. destruct (dasm d) eqn:Ea; cbn [negb].
  - destruct (pts p =? dts d); cbn [negb].
    + pose proof (append_FInv d R (nlen (dbuf d)) (nlen (ppayload p)) HI (or_introl Ea)) as Hap.
      destruct (append_reg _ _ _ _ _) as [[[reg cap] fresh] w]. destruct Hap as [Hw Hi].
      pose proof (finish_FInv (mkD (dbuf d ++ ppayload p) (dexp d) (dts d) true (pseq p) true reg cap fresh) (pmarker p) w R (Hi _ _ _ _ _) eq_refl) as Hf.
      destruct (finish _ _ _) as [[d' r] w']. destruct Hf as [-> Hf]. split; assumption.
    + split; [intros x []|]. apply FInv_reset'. destruct HI as (H1 & H2 & H3). unfold FInv; cbn [dreg dfresh dasm]. tauto.
  - destruct (is_start (ppayload p)) eqn:Es; cbn [negb].
    + pose proof (append_FInv d R 0 (nlen (ppayload p)) HI (or_intror (is_start_len _ Es))) as Hap.
      destruct (append_reg _ _ _ _ _) as [[[reg cap] fresh] w]. destruct Hap as [Hw Hi].
      destruct (expected_of (dexp d) (ppayload p)) as [e|].
      * pose proof (finish_FInv (mkD (ppayload p) e (pts p) true (pseq p) true reg cap fresh) (pmarker p) w R (Hi _ _ _ _ _) eq_refl) as Hf.
        destruct (finish _ _ _) as [[d' r] w']. destruct Hf as [-> Hf]. split; assumption.
      * split; [intros x []|]. destruct HI as (H1 & H2 & H3). unfold FInv; cbn [dreg dfresh dasm]. splits; [assumption|discriminate|assumption].
    + split; [intros x []|]. destruct HI as (H1 & H2 & H3). unfold FInv; cbn [dreg dfresh dasm]. splits; [assumption|discriminate|assumption].
Qed.

Lemma waw_false hist : forall d R, FInv d R -> waw R (snd (dec_run d hist)) = false.
Proof.
  induction hist as [|p t IH]; intros d R HI; cbn [dec_run]; [reflexivity|].
  pose proof (dec_FInv d p R HI) as H. destruct (dec d p) as [[d1 r] w]. destruct H as [Hw HI1].
  specialize (IH d1 _ HI1). destruct (dec_run d1 t) as [d2 rs]. cbn [snd waw] in *.
  rewrite (existsb_false w R Hw). cbn [orb]. destruct r as [[f y]| | |]; exact IH.
Qed.

(* C08, aliasing clause, full strength: on every packet history no Decode call writes to a region that an
   earlier call returned *)
Theorem no_write_after_return hist : write_after_return (snd (dec_run dinit hist)) = false.
Proof. apply waw_false. unfold FInv; cbn. splits; [lia|discriminate|constructor]. Qed.

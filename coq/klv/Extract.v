From Coq Require Extraction ExtrOcamlBasic.
From GV_klv Require Import Model.
Extraction Language OCaml.
Extraction "model.ml" run.

(* C08, rtpklv — statements only *)
From GVL Require Import NList Rtp.
From GV_klv Require Import Model Proofs.
Open Scope N_scope.

(* every Decode call returns a unit, "more" or an error - never a panic - on any packet history *)
Theorem C08_klv_total : forall hist, ~ In DPanic (results (snd (dec_run dinit hist))).
Proof. exact total. Qed.
Print Assumptions C08_klv_total.

(* FINDING F4: no bound exists.  For EVERY B there is a history of packets of at most 16 payload
   bytes after which the decoder retains more than B bytes ... *)
Theorem C08_klv_bounded_refuted : forall B, exists hist,
  Forall (fun p => nlen (ppayload p) <= 16) hist /\ B < fst (retained (fst (dec_run dinit hist))).
Proof. exact bounded_refuted. Qed.
Print Assumptions C08_klv_bounded_refuted.

(* ... and one after which it returns a unit larger than B *)
Theorem C08_klv_output_bounded_refuted : forall B, exists hist f,
  Forall (fun p => nlen (ppayload p) <= 16) hist /\
  In (DFrame f) (outcomes (snd (dec_run dinit hist))) /\ B < nlen f.
Proof. exact output_bounded_refuted. Qed.
Print Assumptions C08_klv_output_bounded_refuted.

(* what holds: no slice headers are retained, and retained bytes / returned units never exceed the
   number of payload bytes received.  MISSING: a bound independent of the history. *)
Theorem C08_klv_bounded_partial : forall hist,
  let '(d, rs) := dec_run dinit hist in
  fst (retained d) <= volume hist /\ snd (retained d) = 0 /\
  forall f, In (DFrame f) (outcomes rs) -> nlen f <= volume hist.
Proof. exact bounded_partial. Qed.
Print Assumptions C08_klv_bounded_partial.

(* Aliasing clause, FULL (finding F3 repaired by /repo 5cc6a94: reset() drops the buffer): on every
   packet history no Decode call writes to a region that an earlier call returned.  Regions: every
   returned unit carries the tag of the array it lives in, every step lists the arrays it writes.
   The refutation of the old code is kept in coq/klv/history/ (not built). *)
Theorem C08_klv_no_write_after_return : forall hist,
  write_after_return (snd (dec_run dinit hist)) = false.
Proof. exact no_write_after_return. Qed.
Print Assumptions C08_klv_no_write_after_return.

Example C08_klv_example :   (* the old witness: the two units now live in different regions *)
  map fst (snd (dec_run dinit [mkPkt 10 0 true unitA; mkPkt 11 0 true unitB]))
    = [DFrame (unitA, 1); DFrame (unitB, 2)]
  /\ map snd (snd (dec_run dinit [mkPkt 10 0 true unitA; mkPkt 11 0 true unitB])) = [[1]; [2]].
Proof. split; vm_compute; reflexivity. Qed.

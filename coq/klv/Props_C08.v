(* C08, rtpklv — statements only *)
From GVL Require Import NList Rtp.
From GV_klv Require Import Model Proofs.
Open Scope N_scope.

(* every Decode call returns a unit, "more" or an error - never a panic - on any packet history *)
Theorem C08_klv_total : forall hist, ~ In DPanic (results (snd (dec_run dinit hist))).
Proof. exact total. Qed.
Print Assumptions C08_klv_total.

(* FINDING F4: no bound exists.  For EVERY B there is a history of packets of at most 16 payload
   bytes after which the decoder retains more than B bytes ... *)
Theorem C08_klv_bounded_refuted : forall B, exists hist,
  Forall (fun p => nlen (ppayload p) <= 16) hist /\ B < fst (retained (fst (dec_run dinit hist))).
Proof. exact bounded_refuted. Qed.
Print Assumptions C08_klv_bounded_refuted.

(* ... and one after which it returns a unit larger than B *)
Theorem C08_klv_output_bounded_refuted : forall B, exists hist f,
  Forall (fun p => nlen (ppayload p) <= 16) hist /\
  In (DFrame f) (outcomes (snd (dec_run dinit hist))) /\ B < nlen f.
Proof. exact output_bounded_refuted. Qed.
Print Assumptions C08_klv_output_bounded_refuted.

(* what holds: no slice headers are retained, and retained bytes / returned units never exceed the
   number of payload bytes received.  MISSING: a bound independent of the history. *)
Theorem C08_klv_bounded_partial : forall hist,
  let '(d, rs) := dec_run dinit hist in
  fst (retained d) <= volume hist /\ snd (retained d) = 0 /\
  forall f, In (DFrame f) (outcomes rs) -> nlen f <= volume hist.
Proof. exact bounded_partial. Qed.
Print Assumptions C08_klv_bounded_partial.

(* Aliasing clause, FULL (finding F3 repaired by /repo 5cc6a94: reset() drops the buffer): on every
   packet history no Decode call writes to a region that an earlier call returned.  Regions: every
   returned unit carries the tag of the array it lives in, every step lists the arrays it writes.
   The refutation of the old code is kept in coq/klv/history/ (not built). *)
Theorem C08_klv_no_write_after_return : forall hist,
  write_after_return (snd (dec_run dinit hist)) = false.
Proof. exact no_write_after_return. Qed.
Print Assumptions C08_klv_no_write_after_return.

Example C08_klv_example :   (* the old witness: the two units now live in different regions *)
  map fst (snd (dec_run dinit [mkPkt 10 0 true unitA; mkPkt 11 0 true unitB]))
    = [DFrame (unitA, 1); DFrame (unitB, 2)]
  /\ map snd (snd (dec_run dinit [mkPkt 10 0 true unitA; mkPkt 11 0 true unitB])) = [[1]; [2]].
Proof. split; vm_compute; reflexivity. Qed.

(* ---- the translated kernels (tools/go2coq, regenerated from the Go source on every run) ----
   The length tests of rtpklv/decoder.go - isKLVStart's len(payload) < 4 and its four key bytes 06 0e 2b 34,
   len(payload) >= 17 - every statement of parseKLVLength - (firstByte & 0x80) == 0, uint(firstByte & 0x7f), the bounds
   lengthBytes == 0 || lengthBytes > 8, totalLengthSize := 1 + lengthBytes, int(totalLengthSize) > len(data), the
   accumulation lengthValue = (lengthValue << 8) | uint(data[1+i]) run over the bytes of the field (Bridge.lv_loop) - the
   expected size 16 + int(lengthSize) + int(valueLength) (64-bit wrap-around, kept when positive) and the completion test
   d.expectedSize > 0 && len(d.buffer) >= d.expectedSize ARE the formulas of Model.is_start / expected_of / parse_len /
   be_value / norm_exp / finish. *)
From Coq Require Import ZArith List.
From GVG Require Import Kern.
From GV_klv Require Import BridgeLib Bridge.
Open Scope Z_scope.

Theorem C08_klv_kernels_are_the_code : forall (p data buf bs : bytes) (a b c e b0 ls v acc : N) (r : bytes),
  byte b0 -> u64 ls -> u64 v -> u64 acc -> Forall byte bs ->
  k_klv_start_short (Z.of_N (nlen p)) = (nlen p <? 4)%N /\
  k_klv_start_key (Z.of_N a) (Z.of_N b) (Z.of_N c) (Z.of_N e) = is_start (a :: b :: c :: e :: r) /\
  k_klv_dec_haslen (Z.of_N (nlen p)) = (17 <=? nlen p)%N /\
  k_klv_len_short (Z.of_N b0) = (b0 / 128 mod 2 =? 0)%N /\
  k_klv_len_shortval (Z.of_N b0) = Z.of_N (b0 mod 128) /\ k_klv_len_shortsize = Z.of_N 1 /\
  k_klv_len_nbytes (Z.of_N b0) = Z.of_N (b0 mod 128) /\
  k_klv_len_bad (k_klv_len_nbytes (Z.of_N b0)) = ((b0 mod 128 =? 0)%N || (8 <? b0 mod 128)%N) /\
  k_klv_len_total (k_klv_len_nbytes (Z.of_N b0)) = Z.of_N (1 + b0 mod 128) /\
  k_klv_len_trunc (k_klv_len_total (k_klv_len_nbytes (Z.of_N b0))) (Z.of_N (nlen data)) = (nlen data <? 1 + b0 mod 128)%N /\
  lv_loop (Z.of_N acc) bs = Z.of_N (be_value acc bs) /\
  Z.to_N (k_klv_dec_expsize (Z.of_N ls) (Z.of_N v)) = norm_exp (16 + ls + v) /\
  k_klv_dec_complete (k_klv_dec_expsize (Z.of_N ls) (Z.of_N v)) (Z.of_N (nlen buf))
    = ((0 <? norm_exp (16 + ls + v))%N && (norm_exp (16 + ls + v) <=? nlen buf)%N).
Proof. exact caps_kernels_are_the_code. Qed.
Print Assumptions C08_klv_kernels_are_the_code.

(* 3 bytes cannot be a key, 4 can; 16 bytes have no length field, 17 have; 0x7f is a short length 127, 0x80 an invalid
   long form (0 bytes), 0x88 a valid one (8 bytes), 0x89 invalid (9); a 3-byte field 0x82 0x01 0x00 needs 3 bytes and is
   256; a value length of 2^64-17 plus 16 + 1 wraps to 0 (never complete), 2^63-17 to a negative int (never complete);
   16+1+3 = 20 is complete with 20 bytes, not with 19 *)
Example C08_klv_example_kernels :
  k_klv_start_short 3 = true /\ k_klv_start_short 4 = false /\ k_klv_start_key 6 14 43 52 = true /\
  k_klv_start_key 6 14 43 53 = false /\ k_klv_dec_haslen 16 = false /\ k_klv_dec_haslen 17 = true /\
  k_klv_len_short 127 = true /\ k_klv_len_shortval 127 = 127 /\ k_klv_len_short 128 = false /\
  k_klv_len_bad (k_klv_len_nbytes 128) = true /\ k_klv_len_bad (k_klv_len_nbytes 136) = false /\
  k_klv_len_bad (k_klv_len_nbytes 137) = true /\
  k_klv_len_trunc (k_klv_len_total (k_klv_len_nbytes 130)) 3 = false /\
  k_klv_len_trunc (k_klv_len_total (k_klv_len_nbytes 130)) 2 = true /\ lv_loop 0 [1; 0]%N = 256 /\
  k_klv_dec_expsize 1 18446744073709551599 = 0 /\ k_klv_dec_expsize 1 9223372036854775791 = -9223372036854775808 /\
  k_klv_dec_complete (k_klv_dec_expsize 1 18446744073709551599) 100 = false /\
  k_klv_dec_complete (k_klv_dec_expsize 1 9223372036854775791) 100 = false /\
  k_klv_dec_complete (k_klv_dec_expsize 1 3) 20 = true /\ k_klv_dec_complete (k_klv_dec_expsize 1 3) 19 = false.
Proof. vm_compute. repeat split. Qed.

(* C07, rtpklv — statements only *)
From GVL Require Import NList Rtp.
From GV_klv Require Import Model Proofs.
Open Scope N_scope.

(* After ANY packet history (loss, duplication, reordering, foreign packets: [hist] is arbitrary), one
   intact unit u1 - any byte string, even one hit by finding F2 - is enough: the unit u2 that follows
   it in the encoder's stream (sequence numbers continue) is returned exactly at its last packet,
   "more" before, and the decoder is clean afterwards.  u2 must be inside the round-trip domain of
   C03 (ok_unit: not cut early, finding F2); for units outside it see C03_klv_roundtrip_refuted.
   The decoder drops a packet that fails its continuity check, so - unlike rtpfragmented - the two
   units must be adjacent in the stream; that is what "preceding frame" means in the property. *)
Theorem C07_klv_resync_partial : forall max hist u1 u2 s1 t1 t2,
  4 <= max -> ok_unit max u2 ->
  let d0 := fst (dec_run dinit hist) in
  let d1 := fst (dec_run d0 (set_ts t1 (fst (enc max s1 u1)))) in
  let ps2 := set_ts t2 (fst (enc max (snd (enc max s1 u1)) u2)) in
  exists d2 rs, dec_run d1 ps2 = (d2, rs) /\
    outcomes rs = repeat DMore (length ps2 - 1) ++ [DFrame u2] /\ forall s, clean d2 s.
Proof. exact resync. Qed.
Print Assumptions C07_klv_resync_partial.

(* never panics, whatever arrives, from any state *)
Theorem C07_klv_no_panic : forall d hist, ~ In DPanic (results (snd (dec_run d hist))).
Proof. exact total_from. Qed.
Print Assumptions C07_klv_no_panic.

Definition itemA : bytes := [6;14;43;52;1;1;1;1;1;1;1;1;1;1;1;1;3;1;2;3].
Definition itemB : bytes := [6;14;43;52;2;2;2;2;2;2;2;2;2;2;2;2;2;8;9].
Example C07_klv_example : (* first packet of a 3-packet unit lost, then an intact unit, then another *)
  outcomes (snd (dec_run dinit (tl (set_ts 1 (fst (enc 8 10 itemA))) ++ set_ts 2 (fst (enc 8 13 itemB)) ++ set_ts 3 (fst (enc 8 16 itemA)))))
  = [DErr; DErr; DMore; DMore; DFrame itemB; DMore; DMore; DFrame itemA].
Proof. vm_compute. reflexivity. Qed.

(* ---- the translated kernels (tools/go2coq, regenerated from the Go source on every run) ----
   The continuity tests of rtpklv/decoder.go - expectedSeq := d.lastSeqNum + 1 (uint16 wrap-around), seqNum !=
   expectedSeq, timestamp != d.currentTimestamp - ARE the tests of Model.dec: negb (pseq p =? seq_next (dlast d)),
   negb (pts p =? dts d). *)
From Coq Require Import ZArith.
From GVG Require Import Kern.
From GV_klv Require Import BridgeLib Bridge.
Open Scope Z_scope.

Theorem C07_klv_kernels_are_the_code : forall (seq last ts cur : N), u16 seq -> u16 last ->
  k_klv_dec_expseq (Z.of_N last) = Z.of_N (seq_next last) /\
  k_klv_dec_gap (Z.of_N seq) (k_klv_dec_expseq (Z.of_N last)) = negb (seq =? seq_next last)%N /\
  k_klv_dec_tschange (Z.of_N ts) (Z.of_N cur) = negb (ts =? cur)%N.
Proof. exact resync_kernels_are_the_code. Qed.
Print Assumptions C07_klv_kernels_are_the_code.

(* 0 follows 65535; 1 after 65535 is a gap; equal timestamps continue a unit, different ones do not *)
Example C07_klv_example_kernels :
  k_klv_dec_expseq 65535 = 0 /\ k_klv_dec_gap 0 (k_klv_dec_expseq 65535) = false /\
  k_klv_dec_gap 1 (k_klv_dec_expseq 65535) = true /\ k_klv_dec_gap 7 (k_klv_dec_expseq 7) = true /\
  k_klv_dec_tschange 90000 90000 = false /\ k_klv_dec_tschange 90001 90000 = true.
Proof. vm_compute. repeat split. Qed.

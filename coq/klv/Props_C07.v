(* C07, rtpklv — statements only *)
From GVL Require Import NList Rtp.
From GV_klv Require Import Model Proofs.
Open Scope N_scope.

(* After ANY packet history (loss, duplication, reordering, foreign packets: [hist] is arbitrary), one
   intact unit u1 - any byte string, even one hit by finding F2 - is enough: the unit u2 that follows
   it in the encoder's stream (sequence numbers continue) is returned exactly at its last packet,
   "more" before, and the decoder is clean afterwards.  u2 must be inside the round-trip domain of
   C03 (ok_unit: not cut early, finding F2); for units outside it see C03_klv_roundtrip_refuted.
   The decoder drops a packet that fails its continuity check, so - unlike rtpfragmented - the two
   units must be adjacent in the stream; that is what "preceding frame" means in the property. *)
Theorem C07_klv_resync_partial : forall max hist u1 u2 s1 t1 t2,
  4 <= max -> ok_unit max u2 ->
  let d0 := fst (dec_run dinit hist) in
  let d1 := fst (dec_run d0 (set_ts t1 (fst (enc max s1 u1)))) in
  let ps2 := set_ts t2 (fst (enc max (snd (enc max s1 u1)) u2)) in
  exists d2 rs, dec_run d1 ps2 = (d2, rs) /\
    outcomes rs = repeat DMore (length ps2 - 1) ++ [DFrame u2] /\ forall s, clean d2 s.
Proof. exact resync. Qed.
Print Assumptions C07_klv_resync_partial.

(* never panics, whatever arrives, from any state *)
Theorem C07_klv_no_panic : forall d hist, ~ In DPanic (results (snd (dec_run d hist))).
Proof. exact total_from. Qed.
Print Assumptions C07_klv_no_panic.

Definition itemA : bytes := [6;14;43;52;1;1;1;1;1;1;1;1;1;1;1;1;3;1;2;3].
Definition itemB : bytes := [6;14;43;52;2;2;2;2;2;2;2;2;2;2;2;2;2;8;9].
Example C07_klv_example : (* first packet of a 3-packet unit lost, then an intact unit, then another *)
  outcomes (snd (dec_run dinit (tl (set_ts 1 (fst (enc 8 10 itemA))) ++ set_ts 2 (fst (enc 8 13 itemB)) ++ set_ts 3 (fst (enc 8 16 itemA)))))
  = [DErr; DErr; DMore; DMore; DFrame itemB; DMore; DMore; DFrame itemA].
Proof. vm_compute. reflexivity. Qed.

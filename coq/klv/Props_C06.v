(* C06, rtpklv — statements only *)
From GVL Require Import NList Rtp.
From GV_klv Require Import Model Proofs.
Open Scope N_scope.

(* for every unit (valid or not), limit >= 1 and initial sequence number: the payloads concatenate to
   the unit, none exceeds the limit, the count is 1 (unit fits) or ceil(len/max), fragments are
   non-empty, packet i carries seq+i mod 2^16, the marker is on the last packet and on no other,
   the encoder continues at seq+count, timestamps are left to the caller (0) *)
Theorem C06_klv_packets_wellformed : forall max seq unit, 0 < max -> seq < 65536 ->
  let ps := fst (enc max seq unit) in
  concat (map ppayload ps) = unit /\
  Forall (fun p => nlen (ppayload p) <= max) ps /\
  nlen ps = (if nlen unit <=? max then 1 else (nlen unit + max - 1) / max) /\
  (max < nlen unit -> Forall (fun p => 0 < nlen (ppayload p)) ps) /\
  (forall i p, nnth i ps = Some p -> pseq p = seq_add seq i /\ pmarker p = (i + 1 =? nlen ps)) /\
  snd (enc max seq unit) = seq_add seq (nlen ps) /\
  Forall (fun p => pts p = 0) ps.
Proof. exact enc_wellformed. Qed.
Print Assumptions C06_klv_packets_wellformed.

Theorem C06_klv_gapless_across_calls : forall max units, 0 < max -> forall seq i p, seq < 65536 ->
  nnth i (concat (enc_many max seq units)) = Some p -> pseq p = seq_add seq i.
Proof. exact enc_many_gapless. Qed.
Print Assumptions C06_klv_gapless_across_calls.

Example C06_klv_example :
  map pseq (concat (enc_many 2 65534 [[1;2;3]; [4]; [5;6]])) = [65534; 65535; 0; 1]
  /\ map pmarker (concat (enc_many 2 65534 [[1;2;3]; [4]; [5;6]])) = [false; true; true; true].
Proof. split; reflexivity. Qed.

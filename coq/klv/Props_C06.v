(* C06, rtpklv — statements only *)
From GVL Require Import NList Rtp.
From GV_klv Require Import Model Proofs.
Open Scope N_scope.

(* for every unit (valid or not), limit >= 1 and initial sequence number: the payloads concatenate to
   the unit, none exceeds the limit, the count is 1 (unit fits) or ceil(len/max), fragments are
   non-empty, packet i carries seq+i mod 2^16, the marker is on the last packet and on no other,
   the encoder continues at seq+count, timestamps are left to the caller (0) *)
Theorem C06_klv_packets_wellformed : forall max seq unit, 0 < max -> seq < 65536 ->
  let ps := fst (enc max seq unit) in
  concat (map ppayload ps) = unit /\
  Forall (fun p => nlen (ppayload p) <= max) ps /\
  nlen ps = (if nlen unit <=? max then 1 else (nlen unit + max - 1) / max) /\
  (max < nlen unit -> Forall (fun p => 0 < nlen (ppayload p)) ps) /\
  (forall i p, nnth i ps = Some p -> pseq p = seq_add seq i /\ pmarker p = (i + 1 =? nlen ps)) /\
  snd (enc max seq unit) = seq_add seq (nlen ps) /\
  Forall (fun p => pts p = 0) ps.
Proof. exact enc_wellformed. Qed.
Print Assumptions C06_klv_packets_wellformed.

Theorem C06_klv_gapless_across_calls : forall max units, 0 < max -> forall seq i p, seq < 65536 ->
  nnth i (concat (enc_many max seq units)) = Some p -> pseq p = seq_add seq i.
Proof. exact enc_many_gapless. Qed.
Print Assumptions C06_klv_gapless_across_calls.

Example C06_klv_example :
  map pseq (concat (enc_many 2 65534 [[1;2;3]; [4]; [5;6]])) = [65534; 65535; 0; 1]
  /\ map pmarker (concat (enc_many 2 65534 [[1;2;3]; [4]; [5;6]])) = [false; true; true; true].
Proof. split; reflexivity. Qed.

(* ---- the translated kernels (tools/go2coq, regenerated from the Go source on every run) ----
   The integer formulas of rtpklv/encoder.go - the single-packet test len(unit) <= PayloadMaxSize and EVERY statement of
   the fragmentation loop: payloadSize := PayloadMaxSize, its clipping offset+payloadSize > len(unit) -> len(unit) -
   offset, isLast := (offset + payloadSize) >= len(unit), Marker: isLast, offset += payloadSize - run over the kernels
   (Bridge.frag_code; only the loop condition offset < len(unit) is hand-written) yield exactly the offsets, payload
   sizes and markers of the packets of Model.enc (chunks max unit, marker on the last); the two e.sequenceNumber++ are
   seq_next; the single packet carries the marker. *)
From Coq Require Import ZArith.
From GVG Require Import Kern.
From GV_klv Require Import BridgeLib Bridge.
Open Scope Z_scope.

Theorem C06_klv_kernels_are_the_code : forall (max seq s : N) (unit : bytes),
  (0 < max)%N -> Z.of_N (nlen unit) + Z.of_N max < i64max ->
  k_klv_single (Z.of_N (nlen unit)) (Z.of_N max) = (nlen unit <=? max)%N /\
  ((max < nlen unit)%N -> frag_code unit (Z.of_N max) = pkt_marks 0 (fst (enc max seq unit))) /\
  k_klv_seq_single (Z.of_N s) = Z.of_N (seq_next s) /\ k_klv_seq_frag (Z.of_N s) = Z.of_N (seq_next s) /\
  k_klv_marker_single = true.
Proof. exact enc_kernels_are_the_code. Qed.
Print Assumptions C06_klv_kernels_are_the_code.

(* the translated kernels compute, on the boundaries: a unit of exactly the limit is sent alone, one byte more is
   fragmented; 7 bytes with limit 3 give offsets 0,3,6, sizes 3,3,1, marker on the third; 6 bytes give two full packets,
   marker on the second; 65535++ = 0 *)
Example C06_klv_example_kernels :
  k_klv_single 1450 1450 = true /\ k_klv_single 1451 1450 = false /\
  frag_code [1; 2; 3; 4; 5; 6; 7]%N 3 = [(0, 3, false); (3, 3, false); (6, 1, true)] /\
  frag_code [1; 2; 3; 4; 5; 6]%N 3 = [(0, 3, false); (3, 3, true)] /\
  pkt_marks 0 (fst (enc 3 9 [1; 2; 3; 4; 5; 6; 7]%N)) = [(0, 3, false); (3, 3, false); (6, 1, true)] /\
  k_klv_over 3 3 6 = false /\ k_klv_over 3 3 5 = true /\ k_klv_islast 0 3 3 = true /\ k_klv_islast 0 3 4 = false /\
  k_klv_seq_frag 65535 = 0 /\ k_klv_seq_single 65535 = 0.
Proof. vm_compute. repeat split. Qed.

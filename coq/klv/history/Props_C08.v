(* C08, rtpklv — statements only *)
From GVL Require Import NList Rtp.
From GV_klv Require Import Model Proofs.
Open Scope N_scope.

(* every Decode call returns a unit, "more" or an error - never a panic - on any packet history *)
Theorem C08_klv_total : forall hist, ~ In DPanic (results (snd (dec_run dinit hist))).
Proof. exact total. Qed.
Print Assumptions C08_klv_total.

(* FINDING F4: no bound exists.  For EVERY B there is a history of packets of at most 16 payload
   bytes after which the decoder retains more than B bytes ... *)
Theorem C08_klv_bounded_refuted : forall B, exists hist,
  Forall (fun p => nlen (ppayload p) <= 16) hist /\ B < fst (retained (fst (dec_run dinit hist))).
Proof. exact bounded_refuted. Qed.
Print Assumptions C08_klv_bounded_refuted.

(* ... and one after which it returns a unit larger than B *)
Theorem C08_klv_output_bounded_refuted : forall B, exists hist f,
  Forall (fun p => nlen (ppayload p) <= 16) hist /\
  In (DFrame f) (outcomes (snd (dec_run dinit hist))) /\ B < nlen f.
Proof. exact output_bounded_refuted. Qed.
Print Assumptions C08_klv_output_bounded_refuted.

(* what holds: no slice headers are retained, and retained bytes / returned units never exceed the
   number of payload bytes received.  MISSING: a bound independent of the history. *)
Theorem C08_klv_bounded_partial : forall hist,
  let '(d, rs) := dec_run dinit hist in
  fst (retained d) <= volume hist /\ snd (retained d) = 0 /\
  forall f, In (DFrame f) (outcomes rs) -> nlen f <= volume hist.
Proof. exact bounded_partial. Qed.
Print Assumptions C08_klv_bounded_partial.

(* FINDING F3: a later Decode call writes to the region of a unit already returned: two single-packet
   units in a row, the second is copied into the backing array of the first *)
Theorem C08_klv_no_write_after_return_refuted : exists hist,
  write_after_return (snd (dec_run dinit hist)) = true.
Proof. exact no_write_after_return_refuted. Qed.
Print Assumptions C08_klv_no_write_after_return_refuted.

(* what holds: after any history, a Decode call writes only to the region of the decoder's current
   buffer or to a brand-new region that was never returned.  MISSING: the current buffer's region
   has itself been returned (reset keeps d.buffer[:0]). *)
Theorem C08_klv_writes_partial : forall hist p,
  let '(d, rs) := dec_run dinit hist in
  let '(_, _, w) := dec d p in
  forall x, In x w ->
    (x = dreg d /\ dreg d <> 0) \/ (x = dfresh d /\ ~ In x (returned_regions rs)).
Proof. exact writes_partial. Qed.
Print Assumptions C08_klv_writes_partial.

Example C08_klv_example :
  map fst (snd (dec_run dinit [mkPkt 10 0 true unitA; mkPkt 11 0 true unitB]))
    = [DFrame (unitA, 1); DFrame (unitB, 1)]      (* both results live in region 1 *)
  /\ map snd (snd (dec_run dinit [mkPkt 10 0 true unitA; mkPkt 11 0 true unitB])) = [[1]; [1]].
Proof. split; vm_compute; reflexivity. Qed.

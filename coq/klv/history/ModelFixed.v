(* rtpklv decoder with the proposed repair of finding F3: reset() drops the buffer (d.buffer = nil)
   instead of keeping d.buffer[:0], so a returned unit is never the backing array of a later one.
   Everything else is Model.v.  NOT referenced by the Props files: the coordinator switches over
   after a fix commit in /repo. *)
From GVL Require Import NList Wire Chunks Rtp.
From GV_klv Require Import Model.
Open Scope N_scope.

Definition dreset_fx (d : dstate) : dstate :=
  mkD [] 0 0 false (dlast d) false 0 0 (dfresh d).

Definition finish_fx (d : dstate) (marker : bool) (w : list N) : dstate * dres (bytes * N) * list N :=
  if marker then (dreset_fx d, DFrame (dbuf d, dreg d), w)
  else if (0 <? dexp d) && (dexp d <=? nlen (dbuf d)) then
    match nsub (dbuf d) 0 (dexp d) with
    | Some r => (dreset_fx d, DFrame (r, dreg d), w)
    | None => (d, DPanic, w)
    end
  else (d, DMore, w).

Definition dec_fx (d : dstate) (p : packet) : dstate * dres (bytes * N) * list N :=
  if dfirst d && negb (pseq p =? seq_next (dlast d)) then (dreset_fx d, DErr, []) else
  let d1 := mkD (dbuf d) (dexp d) (dts d) (dasm d) (pseq p) true (dreg d) (dcap d) (dfresh d) in
  let pl := ppayload p in
  if negb (dasm d1) then
    if negb (is_start pl) then (d1, DErr, []) else
    let '(reg, cap, fresh, w) := append_reg (dreg d1) (dcap d1) (dfresh d1) 0 (nlen pl) in
    match expected_of (dexp d1) pl with
    | Epanic => (d1, DPanic, [])
    | Eok e =>
      let d2 := mkD pl e (pts p) true (pseq p) true reg cap fresh in
      finish_fx d2 (pmarker p) w
    end
  else
    if negb (pts p =? dts d1) then (dreset_fx d1, DErr, []) else
    let '(reg, cap, fresh, w) := append_reg (dreg d1) (dcap d1) (dfresh d1) (nlen (dbuf d1)) (nlen pl) in
    let d2 := mkD (dbuf d1 ++ pl) (dexp d1) (dts d1) true (pseq p) true reg cap fresh in
    finish_fx d2 (pmarker p) w.

Fixpoint dec_run_fx (d : dstate) (ps : list packet) : dstate * list (dres (bytes * N) * list N) :=
  match ps with
  | [] => (d, [])
  | p :: t => let '(d', r, w) := dec_fx d p in let '(d'', rs) := dec_run_fx d' t in (d'', (r, w) :: rs)
  end.

(* rtpklv with the F3 repair (ModelFixed.v): the full C08 aliasing statement holds, and the repaired
   decoder returns exactly what the present one returns. *)
From GVL Require Import NList Wire Chunks Rtp.
From GV_klv Require Import Model Proofs ModelFixed.
From Coq Require Import ZifyBool ZifyNat ZifyN.
Open Scope N_scope.

(* ---- same observable behaviour ---- *)
Definition same (a b : dstate) : Prop :=
  dbuf a = dbuf b /\ dexp a = dexp b /\ dts a = dts b /\ dasm a = dasm b /\ dlast a = dlast b /\ dfirst a = dfirst b.

Lemma same_reset a b : same a b -> same (dreset a) (dreset_fx b).
Proof. intros (_ & _ & _ & _ & H & _). unfold same; cbn. tauto. Qed.

Lemma finish_same a b m w w' : same a b ->
  let '(a', r, _) := finish a m w in let '(b', r', _) := finish_fx b m w' in same a' b' /\ strip r = strip r'.
Proof.
  intros S. pose proof S as (H1 & H2 & _). unfold finish, finish_fx. rewrite <- H1, <- H2. destruct m.
  - split; [now apply same_reset|reflexivity].
  - destruct ((0 <? dexp a) && (dexp a <=? nlen (dbuf a))); [|split; [assumption|reflexivity]].
    destruct (nsub _ _ _); [split; [now apply same_reset|reflexivity]|split; [assumption|reflexivity]].
Qed.

Lemma dec_same a b p : same a b ->
  let '(a', r, _) := dec a p in let '(b', r', _) := dec_fx b p in same a' b' /\ strip r = strip r'.
Proof.
  intros S. pose proof S as (H1 & H2 & H3 & H4 & H5 & H6). unfold dec, dec_fx.
  rewrite <- H6, <- H5. destruct (dfirst a && negb (pseq p =? seq_next (dlast a))).
  { split; [now apply same_reset|reflexivity]. }
  cbn [dasm dbuf dexp dts dreg dcap dfresh]. rewrite <- H4, <- H3, <- H2, <- H1. destruct (dasm a) eqn:Ea; cbn [negb].
  - destruct (pts p =? dts a); cbn [negb].
    + destruct (append_reg (dreg a) _ _ _ _) as [[[reg cap] fresh] w].
      destruct (append_reg (dreg b) _ _ _ _) as [[[reg' cap'] fresh'] w'].
      apply finish_same. unfold same; cbn. tauto.
    + split; [|reflexivity]. apply same_reset. unfold same; cbn. tauto.
  - destruct (is_start (ppayload p)); cbn [negb].
    + destruct (append_reg (dreg a) _ _ _ _) as [[[reg cap] fresh] w].
      destruct (append_reg (dreg b) _ _ _ _) as [[[reg' cap'] fresh'] w'].
      destruct (expected_of (dexp a) (ppayload p)).
      * apply finish_same. unfold same; cbn. tauto.
      * split; [unfold same; cbn; tauto|reflexivity].
    + split; [unfold same; cbn; tauto|reflexivity].
Qed.

Lemma run_same hist : forall a b, same a b ->
  outcomes (snd (dec_run a hist)) = outcomes (snd (dec_run_fx b hist)) /\
  same (fst (dec_run a hist)) (fst (dec_run_fx b hist)).
Proof.
  induction hist as [|p t IH]; intros a b S; cbn [dec_run dec_run_fx]; [split; [reflexivity|exact S]|].
  pose proof (dec_same a b p S) as H. destruct (dec a p) as [[a1 r] w]. destruct (dec_fx b p) as [[b1 r'] w'].
  destruct H as [S1 Hr]. specialize (IH a1 b1 S1).
  destruct (dec_run a1 t) as [a2 rs]. destruct (dec_run_fx b1 t) as [b2 rs']. cbn [fst snd] in *.
  destruct IH as [IH1 IH2]. split; [|exact IH2]. cbn [outcomes map fst]. fold (outcomes rs) (outcomes rs').
  now rewrite Hr, IH1.
Qed.

(* the repaired decoder returns exactly the same results, and retains the same logical bytes *)
Theorem fixed_same_outcomes hist :
  outcomes (snd (dec_run_fx dinit hist)) = outcomes (snd (dec_run dinit hist)) /\
  retained (fst (dec_run_fx dinit hist)) = retained (fst (dec_run dinit hist)).
Proof.
  destruct (run_same hist dinit dinit) as [H1 H2]; [unfold same; tauto|]. split; [now symmetry|].
  destruct H2 as (Hb & _). unfold retained. now rewrite Hb.
Qed.

(* ---- no step writes to a region that has been returned ---- *)
(* returned regions are old (below the fresh counter), non-nil, and not the current buffer's region;
   while assembling, the buffer has a real region *)
Definition FInv (d : dstate) (R : list N) : Prop :=
  dreg d < dfresh d /\ (dasm d = true -> dreg d <> 0) /\
  Forall (fun y => 0 < y /\ y < dfresh d /\ y <> dreg d) R.

Lemma existsb_false w R : (forall x, In x w -> ~ In x R) -> existsb (fun x => existsb (N.eqb x) R) w = false.
Proof.
  intros H. apply Bool.not_true_is_false. intros E. apply existsb_exists in E. destruct E as (x & Hx & E).
  apply existsb_exists in E. destruct E as (y & Hy & E). apply N.eqb_eq in E. subst y. exact (H x Hx Hy).
Qed.

Lemma FInv_reset d R y : FInv d R -> y = dreg d -> dreg d <> 0 -> FInv (dreset_fx d) (y :: R).
Proof.
  intros (H1 & H2 & H3) -> Hnz. unfold FInv; cbn [dreset_fx dreg dfresh dasm]. splits; [lia|discriminate|].
  constructor; [lia|]. eapply Forall_impl; [|exact H3]. cbn. intros a. lia.
Qed.
Lemma FInv_reset' d R : FInv d R -> FInv (dreset_fx d) R.
Proof.
  intros (H1 & H2 & H3). unfold FInv; cbn [dreset_fx dreg dfresh dasm]. splits; [lia|discriminate|].
  eapply Forall_impl; [|exact H3]. cbn. intros a. lia.
Qed.

Lemma finish_fx_inv d m w R : FInv d R -> dasm d = true ->
  let '(d', r, w') := finish_fx d m w in
  w' = w /\ FInv d' (match r with DFrame (_, y) => y :: R | _ => R end).
Proof.
  intros HI Ha. pose proof HI as (_ & Hnz & _). specialize (Hnz Ha). unfold finish_fx. destruct m.
  - split; [reflexivity|]. now apply FInv_reset.
  - destruct ((0 <? dexp d) && (dexp d <=? nlen (dbuf d))); [|split; [reflexivity|exact HI]].
    destruct (nsub _ _ _); [split; [reflexivity|now apply FInv_reset]|split; [reflexivity|exact HI]].
Qed.

Lemma append_FInv d R n k :
  FInv d R -> (dasm d = true \/ 0 < k) ->
  let '(reg, cap, fresh, w) := append_reg (dreg d) (dcap d) (dfresh d) n k in
  (forall x, In x w -> ~ In x R) /\
  forall b e t l f, FInv (mkD b e t true l f reg cap fresh) R.
Proof.
  intros (H1 & H2 & H3) Hk.
  pose proof (append_reg_facts (dreg d) (dcap d) (dfresh d) n k H1) as Hf.
  destruct (append_reg _ _ _ _ _) as [[[reg cap] fresh] w]. destruct Hf as (A1 & A2 & A3 & A4 & A5).
  rewrite Forall_forall in H3. split.
  - intros x Hx Hin. specialize (H3 x Hin). destruct (A3 x Hx) as [[-> _]| ->]; lia.
  - intros b e t l f. unfold FInv; cbn [dreg dfresh dasm]. splits; [assumption| |].
    + intros _. destruct (N.eqb_spec k 0) as [Hz|Hz].
      * rewrite (A5 Hz). destruct Hk as [Hk|Hk]; [now apply H2|lia].
      * apply A4. lia.
    + rewrite Forall_forall. intros y Hy. specialize (H3 y Hy).
      destruct (N.eqb_spec k 0) as [Hz|Hz]; [rewrite (A5 Hz); lia|].
      destruct A4 as [_ [->| ->]]; lia.
Qed.

Lemma is_start_len pl : is_start pl = true -> 0 < nlen pl.
Proof. destruct pl; [discriminate|]. cbn [nlen]. lia. Qed.

Lemma dec_fx_inv d p R : FInv d R ->
  let '(d', r, w) := dec_fx d p in
  (forall x, In x w -> ~ In x R) /\ FInv d' (match r with DFrame (_, y) => y :: R | _ => R end).
Proof.
  intros HI. unfold dec_fx. destruct (dfirst d && negb (pseq p =? seq_next (dlast d))).
  { split; [intros x []|now apply FInv_reset']. }
  cbn [dasm dbuf dexp dts dreg dcap dfresh]. destruct (dasm d) eqn:Ea; cbn [negb].
  - destruct (pts p =? dts d); cbn [negb].
    + pose proof (append_FInv d R (nlen (dbuf d)) (nlen (ppayload p)) HI (or_introl Ea)) as Hap.
      destruct (append_reg _ _ _ _ _) as [[[reg cap] fresh] w]. destruct Hap as [Hw Hi].
      pose proof (finish_fx_inv (mkD (dbuf d ++ ppayload p) (dexp d) (dts d) true (pseq p) true reg cap fresh) (pmarker p) w R (Hi _ _ _ _ _) eq_refl) as Hf.
      destruct (finish_fx _ _ _) as [[d' r] w']. destruct Hf as [-> Hf]. split; assumption.
    + split; [intros x []|]. apply FInv_reset'. destruct HI as (H1 & H2 & H3). unfold FInv; cbn [dreg dfresh dasm]. tauto.
  - destruct (is_start (ppayload p)) eqn:Es; cbn [negb].
    + pose proof (append_FInv d R 0 (nlen (ppayload p)) HI (or_intror (is_start_len _ Es))) as Hap.
      destruct (append_reg _ _ _ _ _) as [[[reg cap] fresh] w]. destruct Hap as [Hw Hi].
      destruct (expected_of (dexp d) (ppayload p)) as [e|].
      * pose proof (finish_fx_inv (mkD (ppayload p) e (pts p) true (pseq p) true reg cap fresh) (pmarker p) w R (Hi _ _ _ _ _) eq_refl) as Hf.
        destruct (finish_fx _ _ _) as [[d' r] w']. destruct Hf as [-> Hf]. split; assumption.
      * split; [intros x []|]. destruct HI as (H1 & H2 & H3). unfold FInv; cbn [dreg dfresh dasm]. splits; [assumption|discriminate|assumption].
    + split; [intros x []|]. destruct HI as (H1 & H2 & H3). unfold FInv; cbn [dreg dfresh dasm]. splits; [assumption|discriminate|assumption].
Qed.

Lemma waw_fx hist : forall d R, FInv d R -> waw R (snd (dec_run_fx d hist)) = false.
Proof.
  induction hist as [|p t IH]; intros d R HI; cbn [dec_run_fx]; [reflexivity|].
  pose proof (dec_fx_inv d p R HI) as H. destruct (dec_fx d p) as [[d1 r] w]. destruct H as [Hw HI1].
  specialize (IH d1 _ HI1). destruct (dec_run_fx d1 t) as [d2 rs]. cbn [snd waw] in *.
  rewrite (existsb_false w R Hw). cbn [orb]. destruct r as [[f y]| | |]; exact IH.
Qed.

(* C08, aliasing clause, full strength for the repaired decoder: on every packet history no Decode
   call writes to a region that an earlier call returned *)
Theorem fixed_no_write_after_return hist : write_after_return (snd (dec_run_fx dinit hist)) = false.
Proof. apply waw_fx. unfold FInv; cbn. splits; [lia|discriminate|constructor]. Qed.

(* C03, rtpklv — statements only *)
From GVL Require Import NList Rtp.
From GV_klv Require Import Model Proofs.
Open Scope N_scope.

(* FINDING F2: the full statement ("every well-formed KLV unit round-trips for every payload limit")
   is false of the pinned code.  Witness: upstream's own two-item test unit "single" (2 x 20 bytes),
   payload limit 24: the first packet already holds the first item, which the decoder returns at once. *)
Theorem C03_klv_roundtrip_refuted : exists max seq t u,
  4 <= max /\ valid_unit u /\
  let ps := set_ts t (fst (enc max seq u)) in
  outcomes (snd (dec_run dinit ps)) <> repeat DMore (length ps - 1) ++ [DFrame u].
Proof. exact roundtrip_refuted. Qed.
Print Assumptions C03_klv_roundtrip_refuted.

(* Strongest provable statement: for every limit >= 4, sequence number, timestamp, every unit starting
   with the universal-label prefix for which the decoder's early return cannot trigger
   ([no_early_cut]: the size announced by the first item - as far as the first packet shows it -
   is 0/unknown or exceeds the bytes carried by all packets but the last), from every clean decoder
   state: "more" on every packet but the last, exactly the unit on the last, clean afterwards.
   MISSING for the full statement: units of several items whose first item ends before the last packet. *)
Theorem C03_klv_roundtrip_partial : forall max seq t u d,
  4 <= max -> is_start u = true -> no_early_cut max u -> clean d seq ->
  let ps := set_ts t (fst (enc max seq u)) in
  exists d' rs, dec_run d ps = (d', rs) /\
    outcomes rs = repeat DMore (length ps - 1) ++ [DFrame u] /\ forall s, clean d' s.
Proof. exact roundtrip. Qed.
Print Assumptions C03_klv_roundtrip_partial.

(* the proven domain contains every unit that fits one packet ... *)
Theorem C03_klv_domain_unfragmented : forall max u, 0 < max -> nlen u <= max -> no_early_cut max u.
Proof. exact no_early_cut_unfragmented. Qed.
Print Assumptions C03_klv_domain_unfragmented.

(* ... and every single-item unit (the announced item size is the unit size), for every limit *)
Theorem C03_klv_domain_single_item : forall max u, 0 < max -> u <> [] -> exp0 u = nlen u -> no_early_cut max u.
Proof. exact no_early_cut_single_item. Qed.
Print Assumptions C03_klv_domain_single_item.

(* consecutive units through one encoder/decoder pair, each stamped with its own timestamp *)
Theorem C03_klv_roundtrip_seq_partial : forall max, 4 <= max -> forall units tss, length tss = length units ->
  Forall (ok_unit max) units -> forall seq d, clean d seq ->
  exists d' rs, dec_run d (concat (stamp tss (enc_many max seq units))) = (d', rs) /\
    outcomes rs = expect (enc_many max seq units) units /\ forall s, clean d' s \/ units = [].
Proof. exact roundtrip_seq. Qed.
Print Assumptions C03_klv_roundtrip_seq_partial.

Definition one_item : bytes := [6;14;43;52;1;1;1;1;1;1;1;1;1;1;1;1;5;10;11;12;13;14].
Example C03_klv_example :
  outcomes (snd (dec_run dinit (set_ts 7 (fst (enc 9 65535 one_item))))) = [DMore; DMore; DFrame one_item]
  /\ is_start one_item = true /\ exp0 one_item = nlen one_item /\ clean dinit 65535.
Proof. split; [vm_compute; reflexivity|]. split; [reflexivity|]. split; [vm_compute; reflexivity|]. unfold clean; cbn; tauto. Qed.

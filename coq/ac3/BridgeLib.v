(* Shared lemmas of the codec bridges (identical copy in every codec domain; see reports/bridges_codecs.md).
   They relate the translator's Z-valued, wrap-around-normalised Go arithmetic (GVG.Kern: ki64, w16, w8, Z.land,
   Z.shiftr, Z.quot ...) to the N arithmetic the hand-written codec models are written in. *)
From Coq Require Import ZArith NArith List Lia Bool.
From Coq Require Import ZifyBool ZifyN.
From GVL Require Import NList Wrap Chunks.
From GVG Require Import Kern.
Open Scope Z_scope.

Definition i64max : Z := 9223372036854775808.

(* a Go int that does not overflow is itself *)
Lemma ki64_small x : -9223372036854775808 <= x < 9223372036854775808 -> ki64 x = x.
Proof. unfold ki64, s64, w64. intros H. destruct (x mod 18446744073709551616 <? 9223372036854775808) eqn:E; lia. Qed.
Lemma ki32_small x : -2147483648 <= x < 2147483648 -> ki32 x = x.
Proof. unfold ki32. apply s32_w32_small. Qed.
Lemma w64_small x : 0 <= x < 18446744073709551616 -> w64 x = x.
Proof. unfold w64. intros H. apply Z.mod_small; lia. Qed.
Lemma w8_small x : 0 <= x < 256 -> w8 x = x.
Proof. unfold w8. intros H. apply Z.mod_small; lia. Qed.

(* sequence numbers: uint16 ++ is the models' seq_next *)
Lemma w16_succ_N (s : N) : w16 (Z.of_N s + 1) = Z.of_N ((s + 1) mod 65536)%N.
Proof. unfold w16. rewrite N2Z.inj_mod, N2Z.inj_add by lia. reflexivity. Qed.

(* N comparisons seen through Z.of_N *)
Lemma ltb_N a b : (Z.of_N a <? Z.of_N b) = (a <? b)%N.
Proof. destruct (Z.ltb_spec (Z.of_N a) (Z.of_N b)), (N.ltb_spec a b); lia. Qed.
Lemma leb_N a b : (Z.of_N a <=? Z.of_N b) = (a <=? b)%N.
Proof. destruct (Z.leb_spec (Z.of_N a) (Z.of_N b)), (N.leb_spec a b); lia. Qed.
Lemma gtb_N a b : (Z.of_N a >? Z.of_N b) = (b <? a)%N.
Proof. rewrite Z.gtb_ltb. apply ltb_N. Qed.
Lemma geb_N a b : (Z.of_N a >=? Z.of_N b) = (b <=? a)%N.
Proof. rewrite Z.geb_leb. apply leb_N. Qed.
Lemma eqb_N a b : (Z.of_N a =? Z.of_N b) = (a =? b)%N.
Proof. destruct (Z.eqb_spec (Z.of_N a) (Z.of_N b)), (N.eqb_spec a b); lia. Qed.

(* bit fields of a byte *)
Lemma land_N a b : Z.land (Z.of_N a) (Z.of_N b) = Z.of_N (N.land a b).
Proof.
  apply Z.bits_inj'; intros n Hn. rewrite Z.land_spec, !Z.testbit_of_N' by lia. rewrite N.land_spec. reflexivity.
Qed.
Lemma lor_N a b : Z.lor (Z.of_N a) (Z.of_N b) = Z.of_N (N.lor a b).
Proof.
  apply Z.bits_inj'; intros n Hn. rewrite Z.lor_spec, !Z.testbit_of_N' by lia. rewrite N.lor_spec. reflexivity.
Qed.
Lemma shiftr_N a b : Z.shiftr (Z.of_N a) (Z.of_N b) = Z.of_N (N.shiftr a b).
Proof.
  rewrite Z.shiftr_div_pow2 by lia. rewrite N.shiftr_div_pow2, N2Z.inj_div, N2Z.inj_pow. reflexivity.
Qed.
Lemma shiftl_N a b : Z.shiftl (Z.of_N a) (Z.of_N b) = Z.of_N (N.shiftl a b).
Proof.
  rewrite Z.shiftl_mul_pow2 by lia. rewrite N.shiftl_mul_pow2, N2Z.inj_mul, N2Z.inj_pow. reflexivity.
Qed.

Lemma land_lt_pow2 a b k : 0 <= k -> 0 <= a < 2 ^ k -> 0 <= b -> 0 <= Z.land a b < 2 ^ k.
Proof.
  intros Hk Ha Hb. assert (Hn : 0 <= Z.land a b) by (apply Z.land_nonneg; lia). split; [exact Hn|].
  destruct (Z.eq_dec (Z.land a b) 0) as [E|E]; [rewrite E; lia|].
  destruct (Z.eq_dec a 0) as [->|Ha0]; [rewrite Z.land_0_l in E; lia|].
  apply Z.log2_lt_pow2; [lia|].
  pose proof (Z.log2_land a b ltac:(lia) Hb) as Hl.
  assert (Z.log2 a < k) by (apply Z.log2_lt_pow2; lia). lia.
Qed.
Lemma land_byte a b : 0 <= a < 256 -> 0 <= b -> 0 <= Z.land a b < 256.
Proof. intros Ha Hb. exact (land_lt_pow2 a b 8 ltac:(lia) Ha Hb). Qed.
Lemma shiftr_le a n : 0 <= a -> 0 <= n -> 0 <= Z.shiftr a n <= a.
Proof.
  intros Ha Hn. rewrite Z.shiftr_div_pow2 by lia. assert (0 < 2 ^ n) by (apply Z.pow_pos_nonneg; lia).
  split; [apply Z.div_pos; lia|]. apply Z.div_le_upper_bound; nia.
Qed.

(* big-endian 16-bit fields:  uint16(hi)<<8 | uint16(lo)  =  hi*256 + lo *)
Lemma lor_shift8 a b : 0 <= a -> 0 <= b < 256 -> Z.lor (Z.shiftl a 8) b = a * 256 + b.
Proof.
  intros Ha Hb. rewrite Z.shiftl_mul_pow2 by lia. change (2 ^ 8) with 256.
  rewrite <- Z.lxor_lor, <- Z.add_nocarry_lxor; try reflexivity.
  all: apply Z.bits_inj'; intros n Hn; rewrite Z.land_spec, Z.bits_0.
  all: destruct (Z.lt_ge_cases n 8) as [L|G].
  all: try (replace (a * 256) with (a * 2 ^ 8) by reflexivity; rewrite Z.mul_pow2_bits_low by lia; reflexivity).
  all: destruct (Z.eq_dec b 0) as [->|Hb0]; [rewrite Z.bits_0, andb_false_r; reflexivity|].
  all: rewrite (Z.bits_above_log2 b n); [apply andb_false_r|lia|].
  all: assert (Z.log2 b < 8) by (apply Z.log2_lt_pow2; [lia|change (2 ^ 8) with 256; lia]); lia.
Qed.

(* packetCount(avail, le) as translated (all copies have this body) is ceil(le / avail) *)
Lemma ceil_div a le : 0 < a -> 0 <= le ->
  (le + a - 1) / a = le / a + (if le mod a =? 0 then 0 else 1).
Proof.
  intros Ha Hl. pose proof (Z.div_mod le a ltac:(lia)) as E. pose proof (Z.mod_pos_bound le a Ha) as Hr.
  destruct (Z.eqb_spec (le mod a) 0) as [E0|E0].
  - symmetry. apply Z.div_unique with (r := a - 1); [lia|]. rewrite E0 in E. lia.
  - symmetry. apply Z.div_unique with (r := le mod a - 1); [lia|]. lia.
Qed.

Lemma pc_generic a le : 0 < a < 9223372036854775808 -> 0 <= le < 9223372036854775808 ->
  (if a =? 0 then None else
   let n := ki64 (Z.quot le a) in
   if negb (ki64 (Z.rem le a) =? 0) then let n := ki64 (n + 1) in Some n else Some n)
  = Some ((le + a - 1) / a).
Proof.
  intros Ha Hl. destruct (Z.eqb_spec a 0) as [->|_]; [lia|]. cbv zeta.
  rewrite Z.quot_div_nonneg, Z.rem_mod_nonneg by lia.
  pose proof (Z.mod_pos_bound le a ltac:(lia)) as Hr.
  assert (Hq : 0 <= le / a <= le) by (split; [apply Z.div_pos; lia|apply Z.div_le_upper_bound; nia]).
  rewrite (ki64_small (le / a)), (ki64_small (le mod a)) by lia.
  rewrite ceil_div by lia. destruct (Z.eqb_spec (le mod a) 0); cbn [negb]; [f_equal; lia|].
  rewrite ki64_small by lia. reflexivity.
Qed.

(* ... which is the number of pieces GVL.Chunks.chunks cuts a list into *)
Lemma chunks_count_Z {A} (n : N) (l : list A) : (0 < n)%N ->
  (Z.of_N (nlen l) + Z.of_N n - 1) / Z.of_N n = Z.of_N (nlen (chunks n l)).
Proof.
  intros Hn. rewrite chunks_count by lia. rewrite N2Z.inj_div, N2Z.inj_sub, N2Z.inj_add by lia. reflexivity.
Qed.

(* C08, rtpac3 — statements only.  FLmax = 3840 bytes, the largest AC-3 syncframe (there is no
   documented cap; this is the format's).
   DESIGN.md F6 is CONFIRMED for this decoder: frame-type-3 packets without data pass every size
   check and are appended to d.fragments for ever.  The slice-header bound of C08 is therefore refuted
   (C08_ac3_slices_bounded_refuted, for every n); the byte bound, the bound on returned frames and
   totality are proved (C08_ac3_bounded_partial: what is missing is exactly the bound on the number
   of retained slice headers, each of which keeps its packet's backing array alive). *)
From GVL Require Import NList Rtp.
From GV_ac3 Require Import Model Proofs.
Open Scope N_scope.

(* arbitrary packet histories: no panic and no endless loop *)
Theorem C08_ac3_total : forall hist, ~ In DPanic (snd (dec_run ac3_parse dinit hist)).
Proof. exact total_ac3. Qed.
Print Assumptions C08_ac3_total.

(* retained BYTES stay below max(FLmax, largest packet), and so does every returned frame list *)
Theorem C08_ac3_bounded_partial : forall P hist,
  Forall (fun p => psz p <= P) hist ->
  let '(d, rs) := dec_run ac3_parse dinit hist in
  fst (retained d) <= N.max FLmax P /\ forall f, In (DFrame f) rs -> fsize f <= N.max FLmax P.
Proof. exact bounded_bytes_ac3. Qed.
Print Assumptions C08_ac3_bounded_partial.

(* for every n there is a history of packets of at most 7 bytes, none of them rejected, after which
   the decoder retains 5 bytes in n+1 slice headers *)
Theorem C08_ac3_slices_bounded_refuted : forall n : nat,
  exists hist, Forall (fun p => psz p <= 7) hist /\
    retained (fst (dec_run ac3_parse dinit hist)) = (5, N.of_nat n + 1) /\
    ~ In DErr (snd (dec_run ac3_parse dinit hist)).
Proof. exact slices_unbounded. Qed.
Print Assumptions C08_ac3_slices_bounded_refuted.

(* the parser contract itself, for the re-modelled parser *)
Theorem C08_ac3_parser_contract : forall buf,
  match ac3_parse buf with
  | PPanic => False
  | PErr => True
  | POk sz => 0 < sz /\ sz <= FLmax /\ 5 <= nlen buf
  end.
Proof. exact ac3_parse_spec. Qed.
Print Assumptions C08_ac3_parser_contract.

Example C08_ac3_example :
  (let '(d, rs) := dec_run ac3_parse dinit (f6_start :: empties 11 3) in (retained d, rs))
  = ((5, 4), [DMore; DMore; DMore; DMore]).
Proof. vm_compute. reflexivity. Qed.

(* ---- the translated kernels (tools/go2coq, regenerated from the Go source on every run) ----
   The length tests and the size bookkeeping of rtpac3/decoder.go - len(pkt.Payload) < 2, len(buf) < size and
   len(buf) == 0 of the frame-type-0 loop, d.fragmentsSize = le, d.fragmentsExpected = size - le, d.fragmentsSize += le,
   d.fragmentsExpected -= le, d.fragmentsExpected < 0, d.fragmentsExpected > 0 - ARE the formulas of Model.dec /
   agg_loop (fragmentsExpected is a Z in the model: the Go int does go negative). *)
From Coq Require Import ZArith.
From GVG Require Import Kern.
From GV_ac3 Require Import BridgeLib Bridge.
Open Scope Z_scope.

Theorem C08_ac3_kernels_are_the_code : forall (pl buf : bytes) (size fs le : N) (e : Z),
  Z.of_N size < i64max -> Z.of_N (fs + le) < i64max -> - i64max <= e - Z.of_N le -> e < i64max ->
  k_ac3_dec_short (Z.of_N (nlen pl)) = match pl with _ :: _ :: _ => false | _ => true end /\
  k_ac3_dec_fshort (Z.of_N (nlen buf)) (Z.of_N size) = (nlen buf <? size)%N /\
  k_ac3_dec_done (Z.of_N (nlen (ndrop size buf))) = match ndrop size buf with [] => true | _ :: _ => false end /\
  k_ac3_dec_first (Z.of_N le) = Z.of_N le /\
  k_ac3_dec_exp0 (Z.of_N size) (Z.of_N le) = Z.of_N size - Z.of_N le /\
  k_ac3_dec_acc (Z.of_N fs) (Z.of_N le) = Z.of_N (fs + le) /\
  k_ac3_dec_exp e (Z.of_N le) = e - Z.of_N le /\
  k_ac3_dec_toobig (k_ac3_dec_exp e (Z.of_N le)) = (e - Z.of_N le <? 0) /\
  k_ac3_dec_more (k_ac3_dec_exp e (Z.of_N le)) = (0 <? e - Z.of_N le).
Proof. exact caps_kernels_are_the_code. Qed.
Print Assumptions C08_ac3_kernels_are_the_code.

(* 1 byte is too short, 2 are not; a fragment that completes the frame exactly leaves 0 expected (neither < 0 nor > 0),
   one byte more is "too big", one byte less needs more packets *)
Example C08_ac3_example_kernels :
  k_ac3_dec_short 1 = true /\ k_ac3_dec_short 2 = false /\
  k_ac3_dec_fshort 99 100 = true /\ k_ac3_dec_fshort 100 100 = false /\ k_ac3_dec_done 0 = true /\ k_ac3_dec_done 1 = false /\
  k_ac3_dec_exp0 1536 1446 = 90 /\ k_ac3_dec_acc 1446 90 = 1536 /\
  k_ac3_dec_toobig (k_ac3_dec_exp 90 90) = false /\ k_ac3_dec_more (k_ac3_dec_exp 90 90) = false /\
  k_ac3_dec_toobig (k_ac3_dec_exp 90 91) = true /\ k_ac3_dec_more (k_ac3_dec_exp 90 89) = true.
Proof. vm_compute. repeat split. Qed.

(* C08, rtpac3 — statements only.  FLmax = 3840 bytes, the largest AC-3 syncframe (there is no
   documented cap; this is the format's).
   DESIGN.md F6 is CONFIRMED for this decoder: frame-type-3 packets without data pass every size
   check and are appended to d.fragments for ever.  The slice-header bound of C08 is therefore refuted
   (C08_ac3_slices_bounded_refuted, for every n); the byte bound, the bound on returned frames and
   totality are proved (C08_ac3_bounded_partial: what is missing is exactly the bound on the number
   of retained slice headers, each of which keeps its packet's backing array alive). *)
From GVL Require Import NList Rtp.
From GV_ac3 Require Import Model Proofs.
Open Scope N_scope.

(* arbitrary packet histories: no panic and no endless loop *)
Theorem C08_ac3_total : forall hist, ~ In DPanic (snd (dec_run ac3_parse dinit hist)).
Proof. exact total_ac3. Qed.
Print Assumptions C08_ac3_total.

(* retained BYTES stay below max(FLmax, largest packet), and so does every returned frame list *)
Theorem C08_ac3_bounded_partial : forall P hist,
  Forall (fun p => psz p <= P) hist ->
  let '(d, rs) := dec_run ac3_parse dinit hist in
  fst (retained d) <= N.max FLmax P /\ forall f, In (DFrame f) rs -> fsize f <= N.max FLmax P.
Proof. exact bounded_bytes_ac3. Qed.
Print Assumptions C08_ac3_bounded_partial.

(* for every n there is a history of packets of at most 7 bytes, none of them rejected, after which
   the decoder retains 5 bytes in n+1 slice headers *)
Theorem C08_ac3_slices_bounded_refuted : forall n : nat,
  exists hist, Forall (fun p => psz p <= 7) hist /\
    retained (fst (dec_run ac3_parse dinit hist)) = (5, N.of_nat n + 1) /\
    ~ In DErr (snd (dec_run ac3_parse dinit hist)).
Proof. exact slices_unbounded. Qed.
Print Assumptions C08_ac3_slices_bounded_refuted.

(* the parser contract itself, for the re-modelled parser *)
Theorem C08_ac3_parser_contract : forall buf,
  match ac3_parse buf with
  | PPanic => False
  | PErr => True
  | POk sz => 0 < sz /\ sz <= FLmax /\ 5 <= nlen buf
  end.
Proof. exact ac3_parse_spec. Qed.
Print Assumptions C08_ac3_parser_contract.

Example C08_ac3_example :
  (let '(d, rs) := dec_run ac3_parse dinit (f6_start :: empties 11 3) in (retained d, rs))
  = ((5, 4), [DMore; DMore; DMore; DMore]).
Proof. vm_compute. reflexivity. Qed.

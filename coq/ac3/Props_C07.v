(* C07, rtpac3 — statements only *)
From GVL Require Import NList Rtp.
From GV_ac3 Require Import Model Proofs.
Open Scope N_scope.

(* After ANY packet history (loss, duplication, reordering, foreign or hostile packets), an intact
   frame is returned exactly as in the loss-free case and leaves the decoder clean.  Not even an intact
   predecessor is needed: every packet group starts with a frame-type 0, 1 or 2 packet, which drops
   whatever was pending.  Stronger than the property asks. *)
Theorem C07_ac3_resync : forall max, 9 <= max -> forall hist f s, valid_frame ac3_parse f -> s < 65536 ->
  exists ps q d' rs, enc max s f = Some (ps, q) /\
    dec_run ac3_parse (fst (dec_run ac3_parse dinit hist)) ps = (d', rs) /\
    frames_of rs = f /\ Forall progress rs /\ ready d'.
Proof. exact resync_ac3. Qed.
Print Assumptions C07_ac3_resync.

Theorem C07_ac3_no_panic : forall hist, ~ In DPanic (snd (dec_run ac3_parse dinit hist)).
Proof. exact total_ac3. Qed.
Print Assumptions C07_ac3_no_panic.

(* middle fragment of a 3-fragment frame lost, the next frame is intact *)
Example C07_ac3_example :
  let f := [11; 119; 1; 2; 0] ++ repeat 7 123 in
  let g := [11; 119; 3; 4; 0] ++ repeat 9 123 in
  (match enc_many 60 7 [[f]; [g]] with
   | Some [[p0; p1; p2]; q] => snd (dec_run ac3_parse dinit ([p0; p2] ++ q)) = [DMore; DErr; DMore; DMore; DFrame [g]]
   | _ => False
   end).
Proof. vm_compute. reflexivity. Qed.

(* ---- the translated kernels (tools/go2coq, regenerated from the Go source on every run) ----
   The resynchronisation tests of rtpac3/decoder.go - mbz := Payload[0] >> 2 with mbz != 0, ft := Payload[0] & 0b11, the
   case constants 0 / 1, 2 / 3 of the switch over ft, d.fragmentNextSeqNum = pkt.SequenceNumber + 1, the continuity test
   pkt.SequenceNumber != d.fragmentNextSeqNum, d.fragmentNextSeqNum++, d.fragmentsSize == 0 - ARE the tests of Model.dec:
   b0 / 4 =? 0, b0 mod 4, ft =? 0 / ft <=? 2 / else, seq_next, pseq p =? dnext d, dsize d =? 0. *)
From Coq Require Import ZArith.
From GVG Require Import Kern.
From GV_ac3 Require Import BridgeLib Bridge.
Open Scope Z_scope.

Theorem C07_ac3_kernels_are_the_code : forall (b0 seq next fs : N), isbyte b0 ->
  k_ac3_dec_mbznz (k_ac3_dec_mbz (Z.of_N b0)) = negb (b0 / 4 =? 0)%N /\
  k_ac3_dec_ft (Z.of_N b0) = Z.of_N (b0 mod 4) /\
  ft_class (k_ac3_dec_ft (Z.of_N b0)) = (if b0 mod 4 =? 0 then 0 else if b0 mod 4 <=? 2 then 1 else 3)%N /\
  k_ac3_dec_nextseq (Z.of_N seq) = Z.of_N (seq_next seq) /\
  k_ac3_dec_incseq (Z.of_N next) = Z.of_N (seq_next next) /\
  k_ac3_dec_gap (Z.of_N seq) (Z.of_N next) = negb (seq =? next)%N /\
  k_ac3_dec_idle (Z.of_N fs) = (fs =? 0)%N.
Proof. exact resync_kernels_are_the_code. Qed.
Print Assumptions C07_ac3_kernels_are_the_code.

(* 0x04 has a non-zero MBZ, 0x03 has not and is frame type 3; types 1 and 2 share a case; 65535 + 1 = 0 *)
Example C07_ac3_example_kernels :
  k_ac3_dec_mbznz (k_ac3_dec_mbz 4) = true /\ k_ac3_dec_mbznz (k_ac3_dec_mbz 3) = false /\ k_ac3_dec_ft 7 = 3 /\
  ft_class 0 = 0%N /\ ft_class 1 = 1%N /\ ft_class 2 = 1%N /\ ft_class 3 = 3%N /\
  k_ac3_dec_nextseq 65535 = 0 /\ k_ac3_dec_incseq 9 = 10 /\
  k_ac3_dec_gap 10 10 = false /\ k_ac3_dec_gap 11 10 = true /\ k_ac3_dec_idle 0 = true /\ k_ac3_dec_idle 1 = false.
Proof. vm_compute. repeat split. Qed.

(* C07, rtpac3 — statements only *)
From GVL Require Import NList Rtp.
From GV_ac3 Require Import Model Proofs.
Open Scope N_scope.

(* After ANY packet history (loss, duplication, reordering, foreign or hostile packets), an intact
   frame is returned exactly as in the loss-free case and leaves the decoder clean.  Not even an intact
   predecessor is needed: every packet group starts with a frame-type 0, 1 or 2 packet, which drops
   whatever was pending.  Stronger than the property asks. *)
Theorem C07_ac3_resync : forall max, 9 <= max -> forall hist f s, valid_frame ac3_parse f -> s < 65536 ->
  exists ps q d' rs, enc max s f = Some (ps, q) /\
    dec_run ac3_parse (fst (dec_run ac3_parse dinit hist)) ps = (d', rs) /\
    frames_of rs = f /\ Forall progress rs /\ ready d'.
Proof. exact resync_ac3. Qed.
Print Assumptions C07_ac3_resync.

Theorem C07_ac3_no_panic : forall hist, ~ In DPanic (snd (dec_run ac3_parse dinit hist)).
Proof. exact total_ac3. Qed.
Print Assumptions C07_ac3_no_panic.

(* middle fragment of a 3-fragment frame lost, the next frame is intact *)
Example C07_ac3_example :
  let f := [11; 119; 1; 2; 0] ++ repeat 7 123 in
  let g := [11; 119; 3; 4; 0] ++ repeat 9 123 in
  (match enc_many 60 7 [[f]; [g]] with
   | Some [[p0; p1; p2]; q] => snd (dec_run ac3_parse dinit ([p0; p2] ++ q)) = [DMore; DErr; DMore; DMore; DFrame [g]]
   | _ => False
   end).
Proof. vm_compute. reflexivity. Qed.

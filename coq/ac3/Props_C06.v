(* C06, rtpac3 — statements only.  group_ok max g: the group of packets of one batch is non-empty,
   the marker is on its last packet and on no other, every payload is within the limit. *)
From GVL Require Import NList Rtp.
From GV_ac3 Require Import Model Proofs.
Open Scope N_scope.

(* one Encode call, any non-empty frames (valid or not), any limit >= 5, any initial sequence number *)
Theorem C06_ac3_packets_wellformed : forall max, 5 <= max ->
  forall seq fs, seq < 65536 -> Forall (fun a => a <> []) fs ->
  exists gs, enc_groups max (batch_loop max fs []) 0 seq = Some gs /\
    enc max seq fs = Some (concat gs, seq_add seq (nlen (concat gs))) /\
    Forall (group_ok max) gs /\ seqs_ok seq (concat gs) /\ nlen gs = nlen (batch_loop max fs []).
Proof. exact enc_wellformed. Qed.
Print Assumptions C06_ac3_packets_wellformed.

(* across any series of Encode calls *)
Theorem C06_ac3_gapless_across_calls : forall max, 5 <= max ->
  forall fs seq, seq < 65536 -> Forall (Forall (fun a => a <> [])) fs ->
  exists pss, enc_many max seq fs = Some pss /\ nlen pss = nlen fs /\
    seqs_ok seq (concat pss) /\ Forall (fun p => psize p <= max) (concat pss) /\
    Forall (fun ps => exists ps' p, ps = ps' ++ [p] /\ pmarker p = true) pss.
Proof. exact enc_many_wellformed. Qed.
Print Assumptions C06_ac3_gapless_across_calls.

Example C06_ac3_example :
  let f := [11; 119; 1; 2; 0] ++ repeat 7 123 in
  (match enc_many 300 65534 [[f; f; f]; [f]] with
   | Some pss => map (map (fun p => (pseq p, nlen (ppayload p), pts p, pmarker p))) pss
   | None => []
   end) = [[(65534, 258, 0, true); (65535, 130, 3072, true)]; [(0, 130, 0, true)]].
Proof. vm_compute. reflexivity. Qed.

(* ---- the translated kernels (tools/go2coq, regenerated from the Go source on every run) ----
   The integer formulas of rtpac3/encoder.go - lenAggregated (n := 2 + len(addFrame); n += len(frame), as a loop over the
   translated statements), the aggregation test lenAggregated(batch, frame) <= PayloadMaxSize, the writeBatch dispatch
   len(frames) != 1 || lenAggregated(frames, nil) < PayloadMaxSize, the fragment budget PayloadMaxSize - 4, the fragment
   count packetCount(avail, len(frame)), the frame-type test avail >= len(frame)*5/8 with the constants 1 / 2 / 3, the
   size 2+le of a fragment packet, uint8(packetCount) / uint8(len(frames)), the last-fragment test and the marker
   expression, the two e.sequenceNumber++, timestamp += uint32(len(batch)) * ac3.SamplesPerFrame - ARE the formulas of
   Model.len_agg / batch_loop / write_batch / write_frag / frag_pkts / write_agg / enc_batches. *)
From Coq Require Import ZArith.
From GVL Require Import Chunks.
From GVG Require Import Kern.
From GV_ac3 Require Import BridgeLib Bridge.
Open Scope Z_scope.

Theorem C06_ac3_kernels_are_the_code :
  forall (max : N) (batch : list bytes) (f p : bytes) (i pc s ts ft : N),
  (5 <= max)%N -> Z.of_N max < i64max -> Z.of_N (len_agg batch (Some f)) < i64max ->
  Z.of_N (nlen f) * 5 < i64max -> Z.of_N (nlen p) + 2 < i64max -> (1 <= pc)%N -> Z.of_N pc < i64max ->
  la_code batch None = Z.of_N (len_agg batch None) /\
  k_ac3_agg_fits (la_code batch (Some f)) (Z.of_N max) = (len_agg batch (Some f) <=? max)%N /\
  k_ac3_batch_agg (Z.of_N (nlen batch)) (la_code batch None) (Z.of_N max)
    = (negb (nlen batch =? 1)%N || (len_agg batch None <? max)%N) /\
  k_ac3_fr_avail (Z.of_N max) = Z.of_N (max - 4) /\
  k_ac3_packetCount (k_ac3_fr_avail (Z.of_N max)) (Z.of_N (nlen f)) = Some (Z.of_N (nlen (chunks (max - 4) f))) /\
  (if k_ac3_fr_ftcond (k_ac3_fr_avail (Z.of_N max)) (Z.of_N (nlen f)) then k_ac3_fr_ft1 else k_ac3_fr_ft2)
    = Z.of_N (if (nlen f * 5 / 8 <=? max - 4)%N then 1 else 2) /\ k_ac3_fr_ft3 = 3 /\
  k_ac3_fr_size (Z.of_N (nlen p)) = Z.of_N (nlen ([ft; pc mod 256]%N ++ p)) /\
  k_ac3_fr_count (Z.of_N pc) = Z.of_N (pc mod 256) /\ k_ac3_wa_count (Z.of_N pc) = Z.of_N (pc mod 256) /\
  k_ac3_fr_last (Z.of_N i) (Z.of_N pc) = (i + 1 =? pc)%N /\ k_ac3_fr_marker (Z.of_N i) (Z.of_N pc) = (i + 1 =? pc)%N /\
  k_ac3_seq_frag (Z.of_N s) = Z.of_N (seq_next s) /\ k_ac3_seq_agg (Z.of_N s) = Z.of_N (seq_next s) /\
  k_ac3_ts_step (Z.of_N ts) (Z.of_N (nlen batch)) (Z.of_N spf) = Z.of_N ((ts + nlen batch * spf) mod 4294967296).
Proof. exact enc_kernels_are_the_code. Qed.
Print Assumptions C06_ac3_kernels_are_the_code.

(* the dispatch of Model.write_batch is that boolean; Model.frag_pkts puts the marker where the kernel says *)
Theorem C06_ac3_write_batch_dispatch : forall max batch ts seq,
  write_batch max batch ts seq =
  if negb (nlen batch =? 1)%N || (len_agg batch None <? max)%N then Some (write_agg batch ts seq)
  else match batch with f :: _ => write_frag max f ts seq | [] => None end.
Proof. exact write_batch_dispatch. Qed.
Print Assumptions C06_ac3_write_batch_dispatch.

Theorem C06_ac3_marker_position : forall ts pc (cs : list bytes) seq ft i, (i < length cs)%nat ->
  nth i (map pmarker (frag_pkts seq ts ft pc cs)) false = (N.of_nat i + 1 =? nlen cs)%N.
Proof. exact frag_pkts_marker. Qed.
Print Assumptions C06_ac3_marker_position.

(* the translated kernels compute, on the boundaries: a 1450-byte limit leaves 1446 bytes per fragment; an aggregate of
   exactly 1450 bytes fits, 1451 does not; one frame whose aggregate is 1450 bytes is fragmented, 1449 is sent alone, two
   frames are always aggregated; frame type 1 iff 5/8 of the frame fit (2313*5/8 = 1445 <= 1446, 2316*5/8 = 1447 > 1446);
   uint8(256) = 0; 65535++ = 0; the timestamp wraps in uint32; lenAggregated([3 bytes], 1 byte) = 2 + 3 + 1 *)
Example C06_ac3_example_kernels :
  k_ac3_fr_avail 1450 = 1446 /\ k_ac3_agg_fits 1450 1450 = true /\ k_ac3_agg_fits 1451 1450 = false /\
  k_ac3_batch_agg 1 1450 1450 = false /\ k_ac3_batch_agg 1 1449 1450 = true /\ k_ac3_batch_agg 2 1450 1450 = true /\
  k_ac3_fr_ftcond 1446 2315 = true /\ k_ac3_fr_ftcond 1446 2316 = false /\
  k_ac3_fr_size 1446 = 1448 /\ k_ac3_fr_count 256 = 0 /\ k_ac3_seq_frag 65535 = 0 /\
  k_ac3_fr_marker 2 3 = true /\ k_ac3_fr_marker 1 3 = false /\
  k_ac3_ts_step 4294967295 2 1536 = 3071 /\
  la_code [[1; 2; 3]%N] (Some [4%N]) = 6 /\
  k_ac3_packetCount (k_ac3_fr_avail 1450) 2893 = Some 3 /\ k_ac3_packetCount (k_ac3_fr_avail 1450) 2892 = Some 2.
Proof. vm_compute. repeat split. Qed.

(* C06, rtpac3 — statements only.  group_ok max g: the group of packets of one batch is non-empty,
   the marker is on its last packet and on no other, every payload is within the limit. *)
From GVL Require Import NList Rtp.
From GV_ac3 Require Import Model Proofs.
Open Scope N_scope.

(* one Encode call, any non-empty frames (valid or not), any limit >= 5, any initial sequence number *)
Theorem C06_ac3_packets_wellformed : forall max, 5 <= max ->
  forall seq fs, seq < 65536 -> Forall (fun a => a <> []) fs ->
  exists gs, enc_groups max (batch_loop max fs []) 0 seq = Some gs /\
    enc max seq fs = Some (concat gs, seq_add seq (nlen (concat gs))) /\
    Forall (group_ok max) gs /\ seqs_ok seq (concat gs) /\ nlen gs = nlen (batch_loop max fs []).
Proof. exact enc_wellformed. Qed.
Print Assumptions C06_ac3_packets_wellformed.

(* across any series of Encode calls *)
Theorem C06_ac3_gapless_across_calls : forall max, 5 <= max ->
  forall fs seq, seq < 65536 -> Forall (Forall (fun a => a <> [])) fs ->
  exists pss, enc_many max seq fs = Some pss /\ nlen pss = nlen fs /\
    seqs_ok seq (concat pss) /\ Forall (fun p => psize p <= max) (concat pss) /\
    Forall (fun ps => exists ps' p, ps = ps' ++ [p] /\ pmarker p = true) pss.
Proof. exact enc_many_wellformed. Qed.
Print Assumptions C06_ac3_gapless_across_calls.

Example C06_ac3_example :
  let f := [11; 119; 1; 2; 0] ++ repeat 7 123 in
  (match enc_many 300 65534 [[f; f; f]; [f]] with
   | Some pss => map (map (fun p => (pseq p, nlen (ppayload p), pts p, pmarker p))) pss
   | None => []
   end) = [[(65534, 258, 0, true); (65535, 130, 3072, true)]; [(0, 130, 0, true)]].
Proof. vm_compute. reflexivity. Qed.

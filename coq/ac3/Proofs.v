(* rtpac3: packet well-formedness (C06), round trip (C03), resynchronisation (C07),
   totality / boundedness on arbitrary histories (C08).
   Everything is proved for an arbitrary syncinfo parser [ac3] satisfying the contract below
   (Section variables, not axioms); the contract is then proved for the re-modelled mediacommon
   parser [ac3_parse] and the theorems are instantiated (suffix _ac3). *)
From GVL Require Import NList Wire Chunks Rtp.
From GV_ac3 Require Import WireF Model.
From Coq Require Import ZifyBool ZifyNat ZifyN.
Open Scope N_scope.
Ltac splits := repeat match goal with |- _ /\ _ => split end.

(* ---------- generic helpers ---------- *)
Lemma seq_add_next s k : seq_add (seq_next s) k = seq_add s (k + 1).
Proof. unfold seq_add, seq_next. rewrite N.add_mod_idemp_l by lia. f_equal. lia. Qed.
Lemma seq_add_0 s : s < 65536 -> seq_add s 0 = s.
Proof. intros H. unfold seq_add. rewrite N.add_0_r. now apply N.mod_small. Qed.
Lemma seq_add_add s a b : seq_add (seq_add s a) b = seq_add s (a + b).
Proof. unfold seq_add. rewrite N.add_mod_idemp_l by lia. f_equal. lia. Qed.
Lemma seq_add_lt s k : seq_add s k < 65536.
Proof. unfold seq_add. apply N.mod_lt. lia. Qed.
Lemma seq_next_lt s : seq_next s < 65536.
Proof. unfold seq_next. apply N.mod_lt. lia. Qed.

Lemma nnth_app_l {A} (l1 l2 : list A) i : i < nlen l1 -> nnth i (l1 ++ l2) = nnth i l1.
Proof.
  revert i; induction l1 as [|x t IH]; intros i H; cbn [nlen app nnth] in *; [lia|].
  destruct (N.eqb_spec i 0); [reflexivity|]. apply IH. lia.
Qed.
Lemma nnth_app_r {A} (l1 l2 : list A) i : nlen l1 <= i -> nnth i (l1 ++ l2) = nnth (i - nlen l1) l2.
Proof.
  revert i; induction l1 as [|x t IH]; intros i H; cbn [nlen app nnth] in *; [f_equal; lia|].
  destruct (N.eqb_spec i 0); [lia|]. rewrite IH by lia. f_equal. lia.
Qed.
Lemma nnth_In {A} (l : list A) : forall i x, nnth i l = Some x -> In x l.
Proof.
  induction l as [|y t IH]; intros i x H; cbn [nnth] in H; [discriminate|].
  destruct (i =? 0); [injection H as ->; now left|right; eapply IH; eassumption].
Qed.
Lemma concat_snoc {A} (l : list (list A)) x : concat (l ++ [x]) = concat l ++ x.
Proof. rewrite concat_app. cbn. now rewrite app_nil_r. Qed.
Lemma nlen_concat_ge {A} (l : list (list A)) : Forall (fun f => 0 < nlen f) l -> nlen l <= nlen (concat l).
Proof. induction 1 as [|x t Hx Ht IH]; cbn [nlen concat]; [lia|]. rewrite nlen_app. lia. Qed.
Lemma in_concat_len {A} (l : list (list A)) x : In x l -> nlen x <= nlen (concat l).
Proof.
  induction l as [|y t IH]; intros H; [contradiction|]. cbn [concat]. rewrite nlen_app.
  destruct H as [->|H]; [lia|]. apply IH in H. lia.
Qed.
Lemma be16_val v : v < 65536 -> ((v / 256) mod 256) * 256 + v mod 256 = v.
Proof.
  intros H. assert (v / 256 < 256) by (apply N.div_lt_upper_bound; lia).
  rewrite (N.mod_small (v / 256)) by assumption. pose proof (N.div_mod v 256). lia.
Qed.

Definition psize (p : packet) : N := nlen (ppayload p).
Definition seqs_ok (seq : N) (ps : list packet) : Prop :=
  forall i p, nnth i ps = Some p -> pseq p = seq_add seq i.
Lemma seqs_ok_app seq ps qs : seqs_ok seq ps -> seqs_ok (seq_add seq (nlen ps)) qs -> seqs_ok seq (ps ++ qs).
Proof.
  intros H1 H2 i p H. destruct (N.ltb_spec i (nlen ps)).
  - rewrite nnth_app_l in H by assumption. now apply H1.
  - rewrite nnth_app_r in H by assumption. apply H2 in H. rewrite H, seq_add_add. f_equal. lia.
Qed.

(* ---------- join ---------- *)
Lemma join_aux_exact frags : forall size n acc,
  n = nlen acc -> size = n + nlen (concat frags) -> join_aux frags size n acc = Some (acc ++ concat frags).
Proof.
  induction frags as [|p t IH]; intros size n acc Hn Hs; cbn [join_aux concat] in *.
  - cbn [nlen] in Hs. replace (size - n) with 0 by lia. cbn [nrep]. reflexivity.
  - rewrite nlen_app in Hs. destruct (N.ltb_spec size n); [lia|].
    rewrite ntake_all by lia. rewrite IH; [now rewrite <- app_assoc| rewrite nlen_app; lia | lia].
Qed.
Lemma join_exact frags : join frags (nlen (concat frags)) = Some (concat frags).
Proof. unfold join. now rewrite join_aux_exact with (acc := []). Qed.

(* ====================================================================================== *)
(* ---------- encoder (C06): the syncinfo parser plays no role ---------- *)
Section E.
Variable max : N.
Hypothesis Hmax : 5 <= max.
Notation len_agg := Model.len_agg.

Lemma len_agg_snoc b a : len_agg (b ++ [a]) None = len_agg b (Some a).
Proof. unfold Model.len_agg. rewrite concat_snoc, nlen_app. lia. Qed.

Definition batch_ok (b : list bytes) : Prop := 2 <= nlen b -> len_agg b None <= max.

Lemma batch_loop_ok fs : forall b, batch_ok b -> Forall batch_ok (batch_loop max fs b).
Proof.
  induction fs as [|a t IH]; intros b Hb; cbn [batch_loop]; [now constructor|].
  destruct (N.leb_spec (len_agg b (Some a)) max) as [Hle|Hgt].
  - apply IH. intros _. now rewrite len_agg_snoc.
  - assert (H1 : batch_ok [a]) by (intros H; cbn [nlen] in H; lia).
    destruct b; [now apply IH|]. constructor; [assumption|now apply IH].
Qed.
Lemma batch_loop_concat fs : forall b, concat (batch_loop max fs b) = b ++ fs.
Proof.
  induction fs as [|a t IH]; intros b; cbn [batch_loop].
  - cbn. now rewrite !app_nil_r.
  - destruct (len_agg b (Some a) <=? max).
    + rewrite IH, <- app_assoc. reflexivity.
    + destruct b as [|b0 bt]; [now rewrite IH|]. cbn [concat]. rewrite IH. reflexivity.
Qed.
Lemma batch_loop_ne fs : forall b, batch_loop max fs b <> [].
Proof.
  induction fs as [|a t IH]; intros b; cbn [batch_loop]; [discriminate|].
  destruct (len_agg b (Some a) <=? max); [apply IH|]. destruct b; [apply IH|discriminate].
Qed.
Lemma batch_loop_nonempty fs : forall b, (b <> [] \/ fs <> []) -> Forall (fun x => x <> []) (batch_loop max fs b).
Proof.
  induction fs as [|a t IH]; intros b H; cbn [batch_loop].
  - constructor; [|constructor]. destruct H as [H|H]; [assumption|contradiction].
  - destruct (len_agg b (Some a) <=? max).
    + apply IH. left. destruct b; discriminate.
    + destruct b as [|b0 bt]; [apply IH; left; discriminate|].
      constructor; [discriminate|]. apply IH. left; discriminate.
Qed.

Definition markers_ok (g : list packet) : Prop :=
  forall i p, nnth i g = Some p -> pmarker p = (i + 1 =? nlen g).

Lemma frag_pkts_len seq ts cs : forall ft pc, nlen (frag_pkts seq ts ft pc cs) = nlen cs.
Proof. revert seq; induction cs as [|x t IH]; intros seq ft pc; cbn [frag_pkts nlen]; [reflexivity|]. now rewrite IH. Qed.

Lemma frag_pkts_wf ts pc cs : forall seq ft, seq < 65536 ->
  seqs_ok seq (frag_pkts seq ts ft pc cs) /\ markers_ok (frag_pkts seq ts ft pc cs) /\
  Forall (fun p => pts p = ts /\ exists x, In x cs /\ psize p = 2 + nlen x) (frag_pkts seq ts ft pc cs).
Proof.
  induction cs as [|x t IH]; intros seq ft Hs; cbn [frag_pkts].
  - splits; [| |constructor]; intros i p H; cbn in H; discriminate.
  - destruct (IH (seq_next seq) 3 (seq_next_lt _)) as (H1 & H2 & H3). splits.
    + intros i p H. cbn [nnth] in H. destruct (N.eqb_spec i 0) as [->|Hi].
      * injection H as <-. cbn [pseq]. now rewrite seq_add_0.
      * apply H1 in H. rewrite H, seq_add_next. f_equal. lia.
    + intros i p H. cbn [nnth] in H. cbn [nlen]. rewrite frag_pkts_len. destruct (N.eqb_spec i 0) as [->|Hi].
      * injection H as <-. cbn [pmarker]. destruct t; cbn [nlen]; [reflexivity|]. symmetry. apply N.eqb_neq. lia.
      * apply H2 in H. rewrite H, frag_pkts_len.
        destruct (N.eqb_spec (N.pred i + 1) (nlen t)); destruct (N.eqb_spec (i + 1) (N.succ (nlen t))); try reflexivity; lia.
    + constructor.
      * split; [reflexivity|]. exists x. split; [now left|]. unfold psize; cbn [ppayload app nlen]. lia.
      * eapply Forall_impl; [|exact H3]. intros p (Hb & y & Hy & Hz). split; [assumption|]. exists y. split; [now right|assumption].
Qed.

Definition group_ok (g : list packet) : Prop :=
  g <> [] /\ markers_ok g /\ Forall (fun p => psize p <= max) g.

Lemma write_batch_wf b ts seq : batch_ok b -> seq < 65536 -> Forall (fun a => a <> []) b ->
  exists g, write_batch max b ts seq = Some g /\ group_ok g /\ seqs_ok seq g /\ Forall (fun p => pts p = ts) g.
Proof.
  intros Hb Hs Hne.
  assert (Hagg : len_agg b None <= max ->
     exists g, Some (write_agg b ts seq) = Some g /\ group_ok g /\ seqs_ok seq g /\ Forall (fun p => pts p = ts) g).
  { intros Hle. eexists. split; [reflexivity|]. splits.
    - discriminate.
    - intros i p H. unfold write_agg in H. cbn [nnth] in H. destruct (N.eqb_spec i 0) as [->|]; [|discriminate].
      injection H as <-. reflexivity.
    - constructor; [|constructor]. unfold psize, Model.len_agg in *; cbn [ppayload app nlen] in *. lia.
    - intros i p H. unfold write_agg in H. cbn [nnth] in H. destruct (N.eqb_spec i 0) as [->|]; [|discriminate].
      injection H as <-. cbn [pseq]. now rewrite seq_add_0.
    - constructor; [reflexivity|constructor]. }
  destruct b as [|a [|a2 t]].
  - apply Hagg. unfold Model.len_agg. cbn. lia.
  - cbn [write_batch]. destruct (N.ltb_spec (len_agg [a] None) max) as [Hlt|Hge].
    + apply Hagg. lia.
    + unfold write_frag. destruct (N.ltb_spec max 5); [lia|].
      inversion Hne as [|? ? Ha _]; subst.
      assert (Hav : 0 < max - 4) by lia.
      set (ft := if nlen a * 5 / 8 <=? max - 4 then 1 else 2).
      destruct (frag_pkts_wf ts (nlen (chunks (max - 4) a)) (chunks (max - 4) a) seq ft Hs) as (H1 & H2 & H3).
      eexists. split; [reflexivity|]. splits.
      * rewrite chunks_cons by assumption. discriminate.
      * exact H2.
      * eapply Forall_impl; [|exact H3]. intros p (_ & x & Hx & Hsz).
        pose proof (chunks_bounds (max - 4) a Hav) as Hcb. rewrite Forall_forall in Hcb. specialize (Hcb x Hx). lia.
      * exact H1.
      * eapply Forall_impl; [|exact H3]. cbn. tauto.
  - apply Hagg. apply Hb. cbn [nlen]. lia.
Qed.

Fixpoint enc_groups (bs : list (list bytes)) (ts seq : N) : option (list (list packet)) :=
  match bs with
  | [] => Some []
  | b :: t =>
      match write_batch max b ts seq with
      | None => None
      | Some g => option_map (cons g) (enc_groups t ((ts + nlen b * spf) mod 4294967296) (seq_add seq (nlen g)))
      end
  end.

Lemma enc_batches_groups bs : forall ts seq, seq < 65536 ->
  enc_batches max bs ts seq =
  match enc_groups bs ts seq with
  | None => None
  | Some gs => Some (concat gs, seq_add seq (nlen (concat gs)))
  end.
Proof.
  induction bs as [|b t IH]; intros ts seq Hs; cbn [enc_batches enc_groups].
  - cbn. now rewrite seq_add_0.
  - destruct (write_batch max b ts seq) as [g|]; [|reflexivity].
    rewrite IH by apply seq_add_lt. destruct (enc_groups t _ _) as [gs|]; cbn [option_map]; [|reflexivity].
    cbn [concat]. rewrite nlen_app, seq_add_add. reflexivity.
Qed.

Lemma enc_groups_wf bs : forall ts seq, seq < 65536 -> Forall batch_ok bs ->
  Forall (Forall (fun a => a <> [])) bs ->
  exists gs, enc_groups bs ts seq = Some gs /\ nlen gs = nlen bs /\ Forall group_ok gs /\ seqs_ok seq (concat gs).
Proof.
  induction bs as [|b t IH]; intros ts seq Hs Hok Hne; cbn [enc_groups].
  - exists []. splits; try reflexivity; [constructor|]. intros i p H. cbn in H. discriminate.
  - inversion Hok as [|? ? Hb Ht]; subst. inversion Hne as [|? ? Hn Hnt]; subst.
    destruct (write_batch_wf b ts seq Hb Hs Hn) as (g & Hg & Hgok & Hgseq & _). rewrite Hg.
    destruct (IH ((ts + nlen b * spf) mod 4294967296) (seq_add seq (nlen g)) (seq_add_lt _ _) Ht Hnt)
      as (gs & Hgs & Hlen & Hall & Hseq).
    rewrite Hgs. cbn [option_map]. exists (g :: gs). splits.
    + reflexivity.
    + cbn [nlen]. now rewrite Hlen.
    + constructor; assumption.
    + cbn [concat]. now apply seqs_ok_app.
Qed.

Lemma nonempty_batches fs : Forall (fun a : bytes => a <> []) fs ->
  Forall (Forall (fun a : bytes => a <> [])) (batch_loop max fs []).
Proof.
  intros Hne.
  assert (G : forall bs, Forall (fun a : bytes => a <> []) (concat bs) -> Forall (Forall (fun a : bytes => a <> [])) bs).
  { induction bs as [|x t IHb]; intros H; constructor; cbn [concat] in H; apply Forall_app in H; [tauto|apply IHb; tauto]. }
  apply G. rewrite batch_loop_concat. exact Hne.
Qed.

(* C06: Encode succeeds; every payload within the limit; gapless sequence numbers; every batch's
   group ends with (exactly) one marker packet *)
Theorem enc_wellformed seq fs : seq < 65536 -> Forall (fun a => a <> []) fs ->
  exists gs, enc_groups (batch_loop max fs []) 0 seq = Some gs /\
    enc max seq fs = Some (concat gs, seq_add seq (nlen (concat gs))) /\
    Forall group_ok gs /\ seqs_ok seq (concat gs) /\ nlen gs = nlen (batch_loop max fs []).
Proof.
  intros Hs Hne.
  destruct (enc_groups_wf (batch_loop max fs []) 0 seq Hs) as (gs & Hgs & Hlen & Hall & Hseq).
  - apply batch_loop_ok. intros H. cbn in H. lia.
  - now apply nonempty_batches.
  - exists gs. splits; try assumption. unfold enc. rewrite enc_batches_groups by assumption. now rewrite Hgs.
Qed.

Lemma enc_last_marker seq f : Forall (fun a : bytes => a <> []) f -> seq < 65536 ->
  exists gs ps p, enc max seq f = Some (concat gs, seq_add seq (nlen (concat gs))) /\
    concat gs = ps ++ [p] /\ pmarker p = true.
Proof.
  intros Hv Hs.
  destruct (enc_wellformed seq f Hs Hv) as (gs & Hg & He & Hall & _ & Hlen).
  assert (Hgs : gs <> []).
  { intros ->. pose proof (batch_loop_ne f []) as Hn. destruct (batch_loop max f []); [contradiction|].
    cbn [nlen] in Hlen. lia. }
  destruct (exists_last Hgs) as (gs' & g & ->).
  apply Forall_app in Hall. destruct Hall as [_ Hg']. inversion Hg' as [|? ? (Hgne & Hgm & _) _]; subst.
  destruct (exists_last Hgne) as (g' & p & ->).
  exists (gs' ++ [g' ++ [p]]), (concat gs' ++ g'), p. splits; [assumption| |].
  - rewrite concat_snoc, app_assoc. reflexivity.
  - rewrite (Hgm (nlen g') p); [|apply nnth_app_last]. rewrite nlen_app. cbn [nlen]. apply N.eqb_eq. lia.
Qed.

Theorem enc_many_wellformed fs : forall seq, seq < 65536 -> Forall (Forall (fun a : bytes => a <> [])) fs ->
  exists pss, enc_many max seq fs = Some pss /\ nlen pss = nlen fs /\
    seqs_ok seq (concat pss) /\ Forall (fun p => psize p <= max) (concat pss) /\
    Forall (fun ps => exists ps' p, ps = ps' ++ [p] /\ pmarker p = true) pss.
Proof.
  induction fs as [|f t IH]; intros seq Hs Hne; cbn [enc_many].
  - exists []. splits; try reflexivity; try constructor. intros i p H. cbn in H. discriminate.
  - inversion Hne as [|? ? Hf Ht]; subst.
    destruct (enc_wellformed seq f Hs Hf) as (gs & _ & He & Hall & Hseq & _).
    destruct (enc_last_marker seq f Hf Hs) as (gs' & ps' & p & He' & Hcat & Hm).
    rewrite He in He'. injection He' as Hgs _. rewrite He.
    destruct (IH (seq_add seq (nlen (concat gs))) (seq_add_lt _ _) Ht) as (pss & Hem & Hlen & Hseq' & Hsz' & Hmk').
    rewrite Hem. cbn [option_map]. exists (concat gs :: pss). splits.
    + reflexivity.
    + cbn [nlen]. now rewrite Hlen.
    + cbn [concat]. now apply seqs_ok_app.
    + cbn [concat]. apply Forall_app. split; [|assumption].
      clear - Hall. induction Hall as [|g gt (_ & _ & Hg) _ IHg]; [constructor|]. cbn [concat]. apply Forall_app. now split.
    + constructor; [|assumption]. exists ps', p. split; [congruence|assumption].
Qed.

End E.

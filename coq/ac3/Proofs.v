(* rtpac3: packet well-formedness (C06), round trip (C03), resynchronisation (C07),
   totality / boundedness on arbitrary histories (C08).
   Everything is proved for an arbitrary syncinfo parser [ac3] satisfying the contract below
   (Section variables, not axioms); the contract is then proved for the re-modelled mediacommon
   parser [ac3_parse] and the theorems are instantiated (suffix _ac3). *)
From GVL Require Import NList Wire Chunks Rtp.
From GV_ac3 Require Import WireF Model.
From Coq Require Import ZifyBool ZifyNat ZifyN.
Open Scope N_scope.
Ltac splits := repeat match goal with |- _ /\ _ => split end.

(* ---------- generic helpers ---------- *)
Lemma seq_add_next s k : seq_add (seq_next s) k = seq_add s (k + 1).
Proof. unfold seq_add, seq_next. rewrite N.add_mod_idemp_l by lia. f_equal. lia. Qed.
Lemma seq_add_0 s : s < 65536 -> seq_add s 0 = s.
Proof. intros H. unfold seq_add. rewrite N.add_0_r. now apply N.mod_small. Qed.
Lemma seq_add_add s a b : seq_add (seq_add s a) b = seq_add s (a + b).
Proof. unfold seq_add. rewrite N.add_mod_idemp_l by lia. f_equal. lia. Qed.
Lemma seq_add_lt s k : seq_add s k < 65536.
Proof. unfold seq_add. apply N.mod_lt. lia. Qed.
Lemma seq_next_lt s : seq_next s < 65536.
Proof. unfold seq_next. apply N.mod_lt. lia. Qed.

Lemma nnth_app_l {A} (l1 l2 : list A) i : i < nlen l1 -> nnth i (l1 ++ l2) = nnth i l1.
Proof.
  revert i; induction l1 as [|x t IH]; intros i H; cbn [nlen app nnth] in *; [lia|].
  destruct (N.eqb_spec i 0); [reflexivity|]. apply IH. lia.
Qed.
Lemma nnth_app_r {A} (l1 l2 : list A) i : nlen l1 <= i -> nnth i (l1 ++ l2) = nnth (i - nlen l1) l2.
Proof.
  revert i; induction l1 as [|x t IH]; intros i H; cbn [nlen app nnth] in *; [f_equal; lia|].
  destruct (N.eqb_spec i 0); [lia|]. rewrite IH by lia. f_equal. lia.
Qed.
Lemma nnth_In {A} (l : list A) : forall i x, nnth i l = Some x -> In x l.
Proof.
  induction l as [|y t IH]; intros i x H; cbn [nnth] in H; [discriminate|].
  destruct (i =? 0); [injection H as ->; now left|right; eapply IH; eassumption].
Qed.
Lemma concat_snoc {A} (l : list (list A)) x : concat (l ++ [x]) = concat l ++ x.
Proof. rewrite concat_app. cbn. now rewrite app_nil_r. Qed.
Lemma nlen_concat_ge {A} (l : list (list A)) : Forall (fun f => 0 < nlen f) l -> nlen l <= nlen (concat l).
Proof. induction 1 as [|x t Hx Ht IH]; cbn [nlen concat]; [lia|]. rewrite nlen_app. lia. Qed.
Lemma in_concat_len {A} (l : list (list A)) x : In x l -> nlen x <= nlen (concat l).
Proof.
  induction l as [|y t IH]; intros H; [contradiction|]. cbn [concat]. rewrite nlen_app.
  destruct H as [->|H]; [lia|]. apply IH in H. lia.
Qed.
Lemma be16_val v : v < 65536 -> ((v / 256) mod 256) * 256 + v mod 256 = v.
Proof.
  intros H. assert (v / 256 < 256) by (apply N.div_lt_upper_bound; lia).
  rewrite (N.mod_small (v / 256)) by assumption. pose proof (N.div_mod v 256). lia.
Qed.

Definition psize (p : packet) : N := nlen (ppayload p).
Definition seqs_ok (seq : N) (ps : list packet) : Prop :=
  forall i p, nnth i ps = Some p -> pseq p = seq_add seq i.
Lemma seqs_ok_app seq ps qs : seqs_ok seq ps -> seqs_ok (seq_add seq (nlen ps)) qs -> seqs_ok seq (ps ++ qs).
Proof.
  intros H1 H2 i p H. destruct (N.ltb_spec i (nlen ps)).
  - rewrite nnth_app_l in H by assumption. now apply H1.
  - rewrite nnth_app_r in H by assumption. apply H2 in H. rewrite H, seq_add_add. f_equal. lia.
Qed.

(* ---------- join ---------- *)
Lemma join_aux_exact frags : forall size n acc,
  n = nlen acc -> size = n + nlen (concat frags) -> join_aux frags size n acc = Some (acc ++ concat frags).
Proof.
  induction frags as [|p t IH]; intros size n acc Hn Hs; cbn [join_aux concat] in *.
  - cbn [nlen] in Hs. replace (size - n) with 0 by lia. cbn [nrep]. reflexivity.
  - rewrite nlen_app in Hs. destruct (N.ltb_spec size n); [lia|].
    rewrite ntake_all by lia. rewrite IH; [now rewrite <- app_assoc| rewrite nlen_app; lia | lia].
Qed.
Lemma join_exact frags : join frags (nlen (concat frags)) = Some (concat frags).
Proof. unfold join. now rewrite join_aux_exact with (acc := []). Qed.

(* ====================================================================================== *)
(* ---------- encoder (C06): the syncinfo parser plays no role ---------- *)
Section E.
Variable max : N.
Hypothesis Hmax : 5 <= max.
Notation len_agg := Model.len_agg.

Lemma len_agg_snoc b a : len_agg (b ++ [a]) None = len_agg b (Some a).
Proof. unfold Model.len_agg. rewrite concat_snoc, nlen_app. lia. Qed.

Definition batch_ok (b : list bytes) : Prop := 2 <= nlen b -> len_agg b None <= max.

Lemma batch_loop_ok fs : forall b, batch_ok b -> Forall batch_ok (batch_loop max fs b).
Proof.
  induction fs as [|a t IH]; intros b Hb; cbn [batch_loop]; [now constructor|].
  destruct (N.leb_spec (len_agg b (Some a)) max) as [Hle|Hgt].
  - apply IH. intros _. now rewrite len_agg_snoc.
  - assert (H1 : batch_ok [a]) by (intros H; cbn [nlen] in H; lia).
    destruct b; [now apply IH|]. constructor; [assumption|now apply IH].
Qed.
Lemma batch_loop_concat fs : forall b, concat (batch_loop max fs b) = b ++ fs.
Proof.
  induction fs as [|a t IH]; intros b; cbn [batch_loop].
  - cbn. now rewrite !app_nil_r.
  - destruct (len_agg b (Some a) <=? max).
    + rewrite IH, <- app_assoc. reflexivity.
    + destruct b as [|b0 bt]; [now rewrite IH|]. cbn [concat]. rewrite IH. reflexivity.
Qed.
Lemma batch_loop_ne fs : forall b, batch_loop max fs b <> [].
Proof.
  induction fs as [|a t IH]; intros b; cbn [batch_loop]; [discriminate|].
  destruct (len_agg b (Some a) <=? max); [apply IH|]. destruct b; [apply IH|discriminate].
Qed.
Lemma batch_loop_nonempty fs : forall b, (b <> [] \/ fs <> []) -> Forall (fun x => x <> []) (batch_loop max fs b).
Proof.
  induction fs as [|a t IH]; intros b H; cbn [batch_loop].
  - constructor; [|constructor]. destruct H as [H|H]; [assumption|contradiction].
  - destruct (len_agg b (Some a) <=? max).
    + apply IH. left. destruct b; discriminate.
    + destruct b as [|b0 bt]; [apply IH; left; discriminate|].
      constructor; [discriminate|]. apply IH. left; discriminate.
Qed.

Definition markers_ok (g : list packet) : Prop :=
  forall i p, nnth i g = Some p -> pmarker p = (i + 1 =? nlen g).

Lemma frag_pkts_len seq ts cs : forall ft pc, nlen (frag_pkts seq ts ft pc cs) = nlen cs.
Proof. revert seq; induction cs as [|x t IH]; intros seq ft pc; cbn [frag_pkts nlen]; [reflexivity|]. now rewrite IH. Qed.

Lemma frag_pkts_length seq ts cs : forall ft pc, length (frag_pkts seq ts ft pc cs) = length cs.
Proof. revert seq; induction cs as [|x t IH]; intros seq ft pc; cbn [frag_pkts length]; [reflexivity|]. now rewrite IH. Qed.

Lemma frag_pkts_wf ts pc cs : forall seq ft, seq < 65536 ->
  seqs_ok seq (frag_pkts seq ts ft pc cs) /\ markers_ok (frag_pkts seq ts ft pc cs) /\
  Forall (fun p => pts p = ts /\ exists x, In x cs /\ psize p = 2 + nlen x) (frag_pkts seq ts ft pc cs).
Proof.
  induction cs as [|x t IH]; intros seq ft Hs; cbn [frag_pkts].
  - splits; [| |constructor]; intros i p H; cbn in H; discriminate.
  - destruct (IH (seq_next seq) 3 (seq_next_lt _)) as (H1 & H2 & H3). splits.
    + intros i p H. cbn [nnth] in H. destruct (N.eqb_spec i 0) as [->|Hi].
      * injection H as <-. cbn [pseq]. now rewrite seq_add_0.
      * apply H1 in H. rewrite H, seq_add_next. f_equal. lia.
    + intros i p H. cbn [nnth] in H. cbn [nlen]. rewrite frag_pkts_len. destruct (N.eqb_spec i 0) as [->|Hi].
      * injection H as <-. cbn [pmarker]. destruct t; cbn [nlen]; [reflexivity|]. symmetry. apply N.eqb_neq. lia.
      * apply H2 in H. rewrite H, frag_pkts_len.
        destruct (N.eqb_spec (N.pred i + 1) (nlen t)); destruct (N.eqb_spec (i + 1) (N.succ (nlen t))); try reflexivity; lia.
    + constructor.
      * split; [reflexivity|]. exists x. split; [now left|]. unfold psize; cbn [ppayload app nlen]. lia.
      * eapply Forall_impl; [|exact H3]. intros p (Hb & y & Hy & Hz). split; [assumption|]. exists y. split; [now right|assumption].
Qed.

Definition group_ok (g : list packet) : Prop :=
  g <> [] /\ markers_ok g /\ Forall (fun p => psize p <= max) g.

Lemma write_batch_wf b ts seq : batch_ok b -> seq < 65536 -> Forall (fun a => a <> []) b ->
  exists g, write_batch max b ts seq = Some g /\ group_ok g /\ seqs_ok seq g /\ Forall (fun p => pts p = ts) g.
Proof.
  intros Hb Hs Hne.
  assert (Hagg : len_agg b None <= max ->
     exists g, Some (write_agg b ts seq) = Some g /\ group_ok g /\ seqs_ok seq g /\ Forall (fun p => pts p = ts) g).
  { intros Hle. eexists. split; [reflexivity|]. unfold group_ok. splits.
    - discriminate.
    - intros i p H. unfold write_agg in H. cbn [nnth] in H. destruct (N.eqb_spec i 0) as [->|]; [|discriminate].
      injection H as <-. reflexivity.
    - constructor; [|constructor]. unfold psize, Model.len_agg in *; cbn [ppayload app nlen] in *. lia.
    - intros i p H. unfold write_agg in H. cbn [nnth] in H. destruct (N.eqb_spec i 0) as [->|]; [|discriminate].
      injection H as <-. cbn [pseq]. now rewrite seq_add_0.
    - constructor; [reflexivity|constructor]. }
  destruct b as [|a [|a2 t]].
  - apply Hagg. unfold Model.len_agg. cbn. lia.
  - cbn [write_batch]. destruct (N.ltb_spec (len_agg [a] None) max) as [Hlt|Hge].
    + apply Hagg. lia.
    + unfold write_frag. destruct (N.ltb_spec max 5); [lia|].
      inversion Hne as [|? ? Ha _]; subst.
      assert (Hav : 0 < max - 4) by lia.
      set (ft := if nlen a * 5 / 8 <=? max - 4 then 1 else 2).
      destruct (frag_pkts_wf ts (nlen (chunks (max - 4) a)) (chunks (max - 4) a) seq ft Hs) as (H1 & H2 & H3).
      eexists. split; [reflexivity|]. unfold group_ok. splits.
      * rewrite chunks_cons by assumption. discriminate.
      * exact H2.
      * eapply Forall_impl; [|exact H3]. intros p (_ & x & Hx & Hsz).
        pose proof (chunks_bounds (max - 4) a Hav) as Hcb. rewrite Forall_forall in Hcb. specialize (Hcb x Hx). lia.
      * exact H1.
      * eapply Forall_impl; [|exact H3]. cbn. tauto.
  - apply Hagg. apply Hb. cbn [nlen]. lia.
Qed.

Fixpoint enc_groups (bs : list (list bytes)) (ts seq : N) : option (list (list packet)) :=
  match bs with
  | [] => Some []
  | b :: t =>
      match write_batch max b ts seq with
      | None => None
      | Some g => option_map (cons g) (enc_groups t ((ts + nlen b * spf) mod 4294967296) (seq_add seq (nlen g)))
      end
  end.

Lemma enc_batches_groups bs : forall ts seq, seq < 65536 ->
  enc_batches max bs ts seq =
  match enc_groups bs ts seq with
  | None => None
  | Some gs => Some (concat gs, seq_add seq (nlen (concat gs)))
  end.
Proof.
  induction bs as [|b t IH]; intros ts seq Hs; cbn [enc_batches enc_groups].
  - cbn. now rewrite seq_add_0.
  - destruct (write_batch max b ts seq) as [g|]; [|reflexivity].
    rewrite IH by apply seq_add_lt. destruct (enc_groups t _ _) as [gs|]; cbn [option_map]; [|reflexivity].
    cbn [concat]. rewrite nlen_app, seq_add_add. reflexivity.
Qed.

Lemma enc_groups_wf bs : forall ts seq, seq < 65536 -> Forall batch_ok bs ->
  Forall (Forall (fun a => a <> [])) bs ->
  exists gs, enc_groups bs ts seq = Some gs /\ nlen gs = nlen bs /\ Forall group_ok gs /\ seqs_ok seq (concat gs).
Proof.
  induction bs as [|b t IH]; intros ts seq Hs Hok Hne; cbn [enc_groups].
  - exists []. splits; try reflexivity; [constructor|]. intros i p H. cbn in H. discriminate.
  - inversion Hok as [|? ? Hb Ht]; subst. inversion Hne as [|? ? Hn Hnt]; subst.
    destruct (write_batch_wf b ts seq Hb Hs Hn) as (g & Hg & Hgok & Hgseq & _). rewrite Hg.
    destruct (IH ((ts + nlen b * spf) mod 4294967296) (seq_add seq (nlen g)) (seq_add_lt _ _) Ht Hnt)
      as (gs & Hgs & Hlen & Hall & Hseq).
    rewrite Hgs. cbn [option_map]. exists (g :: gs). splits.
    + reflexivity.
    + cbn [nlen]. now rewrite Hlen.
    + constructor; assumption.
    + cbn [concat]. now apply seqs_ok_app.
Qed.

Lemma nonempty_batches fs : Forall (fun a : bytes => a <> []) fs ->
  Forall (Forall (fun a : bytes => a <> [])) (batch_loop max fs []).
Proof.
  intros Hne.
  assert (G : forall bs, Forall (fun a : bytes => a <> []) (concat bs) -> Forall (Forall (fun a : bytes => a <> [])) bs).
  { induction bs as [|x t IHb]; intros H; constructor; cbn [concat] in H; apply Forall_app in H; [tauto|apply IHb; tauto]. }
  apply G. rewrite batch_loop_concat. exact Hne.
Qed.

(* C06: Encode succeeds; every payload within the limit; gapless sequence numbers; every batch's
   group ends with (exactly) one marker packet *)
Theorem enc_wellformed seq fs : seq < 65536 -> Forall (fun a => a <> []) fs ->
  exists gs, enc_groups (batch_loop max fs []) 0 seq = Some gs /\
    enc max seq fs = Some (concat gs, seq_add seq (nlen (concat gs))) /\
    Forall group_ok gs /\ seqs_ok seq (concat gs) /\ nlen gs = nlen (batch_loop max fs []).
Proof.
  intros Hs Hne.
  destruct (enc_groups_wf (batch_loop max fs []) 0 seq Hs) as (gs & Hgs & Hlen & Hall & Hseq).
  - apply batch_loop_ok. intros H. cbn in H. lia.
  - now apply nonempty_batches.
  - exists gs. splits; try assumption. unfold enc. rewrite enc_batches_groups by assumption. now rewrite Hgs.
Qed.

Lemma enc_last_marker seq f : Forall (fun a : bytes => a <> []) f -> seq < 65536 ->
  exists gs ps p, enc max seq f = Some (concat gs, seq_add seq (nlen (concat gs))) /\
    concat gs = ps ++ [p] /\ pmarker p = true.
Proof.
  intros Hv Hs.
  destruct (enc_wellformed seq f Hs Hv) as (gs & Hg & He & Hall & _ & Hlen).
  assert (Hgs : gs <> []).
  { intros ->. pose proof (batch_loop_ne f []) as Hn. destruct (batch_loop max f []); [contradiction|].
    cbn [nlen] in Hlen. lia. }
  destruct (exists_last Hgs) as (gs' & g & ->).
  apply Forall_app in Hall. destruct Hall as [_ Hg']. inversion Hg' as [|? ? (Hgne & Hgm & _) _]; subst.
  destruct (exists_last Hgne) as (g' & p & ->).
  exists (gs' ++ [g' ++ [p]]), (concat gs' ++ g'), p. splits; [assumption| |].
  - rewrite concat_snoc, app_assoc. reflexivity.
  - rewrite (Hgm (nlen g') p); [|apply nnth_app_last]. rewrite nlen_app. cbn [nlen]. apply N.eqb_eq. lia.
Qed.

Theorem enc_many_wellformed fs : forall seq, seq < 65536 -> Forall (Forall (fun a : bytes => a <> [])) fs ->
  exists pss, enc_many max seq fs = Some pss /\ nlen pss = nlen fs /\
    seqs_ok seq (concat pss) /\ Forall (fun p => psize p <= max) (concat pss) /\
    Forall (fun ps => exists ps' p, ps = ps' ++ [p] /\ pmarker p = true) pss.
Proof.
  induction fs as [|f t IH]; intros seq Hs Hne; cbn [enc_many].
  - exists []. splits; try reflexivity; try constructor. intros i p H. cbn in H. discriminate.
  - inversion Hne as [|? ? Hf Ht]; subst.
    destruct (enc_wellformed seq f Hs Hf) as (gs & _ & He & Hall & Hseq & _).
    destruct (enc_last_marker seq f Hf Hs) as (gs' & ps' & p & He' & Hcat & Hm).
    rewrite He in He'. injection He' as Hgs _. rewrite He.
    destruct (IH (seq_add seq (nlen (concat gs))) (seq_add_lt _ _) Ht) as (pss & Hem & Hlen & Hseq' & Hsz' & Hmk').
    rewrite Hem. cbn [option_map]. exists (concat gs :: pss). splits.
    + reflexivity.
    + cbn [nlen]. now rewrite Hlen.
    + cbn [concat]. now apply seqs_ok_app.
    + cbn [concat]. apply Forall_app. split; [|assumption].
      clear - Hall. induction Hall as [|g gt (_ & _ & Hg) _ IHg]; [constructor|]. cbn [concat]. apply Forall_app. now split.
    + constructor; [|assumption]. exists ps', p. split; [congruence|assumption].
Qed.

End E.

(* ====================================================================================== *)
(* ---------- decoder, under the contract of the syncinfo parser ---------- *)
Section D.
Variable ac3 : bytes -> pres.
Variable FL : N.      (* the largest frame size the parser can announce *)
Hypothesis K_np  : forall b, ac3 b <> PPanic.
Hypothesis K_pos : forall b sz, ac3 b = POk sz -> 0 < sz.
Hypothesis K_len : forall b sz, ac3 b = POk sz -> 5 <= nlen b.
Hypothesis K_max : forall b sz, ac3 b = POk sz -> sz <= FL.

Notation dec := (dec ac3).
Notation dec_run := (dec_run ac3).
Notation agg_loop := (agg_loop ac3).

Definition fsize (f : list bytes) : N := nlen (concat f).
Definition psz (p : packet) : N := nlen (ppayload p).

Lemma agg_loop_spec fuel : forall buf frames, nlen buf < nlen fuel ->
  match agg_loop fuel buf frames with
  | APanic => False
  | ADone fs => fsize fs <= fsize frames + nlen buf
  | AErr => True
  end.
Proof.
  induction fuel as [|f0 fuel IH]; intros buf frames Hf; [cbn [nlen] in Hf; lia|].
  cbn [Model.agg_loop]. pose proof (K_np buf) as Hnp.
  destruct (ac3 buf) as [sz| |] eqn:E; [|exact I|congruence].
  pose proof (K_pos _ _ E) as Hpos.
  destruct (N.ltb_spec (nlen buf) sz) as [|Hle]; [exact I|].
  assert (Htk : nlen (ntake sz buf) = sz) by (rewrite nlen_ntake; lia).
  assert (Hdr : nlen (ndrop sz buf) = nlen buf - sz) by apply nlen_ndrop.
  destruct (ndrop sz buf) as [|y yt] eqn:Ed.
  - unfold fsize. rewrite concat_snoc, nlen_app, Htk. lia.
  - specialize (IH (y :: yt) (frames ++ [ntake sz buf])). cbn [nlen] in Hf.
    destruct (agg_loop fuel (y :: yt) (frames ++ [ntake sz buf])).
    + unfold fsize in *. rewrite concat_snoc, nlen_app, Htk in IH. lia.
    + exact I.
    + apply IH. lia.
Qed.

(* while fragments are pending, fragmentsSize + fragmentsExpected is the announced frame size *)
Definition Inv (d : dstate) : Prop :=
  dsize d = nlen (concat (dfrags d)) /\ (dsize d = 0 -> dfrags d = []) /\
  (0 < dsize d -> exists S, S <= FL /\ (Z.of_N (dsize d) + dexp d = Z.of_N S)%Z).
Definition clean (d : dstate) : Prop := dsize d = 0 /\ dfrags d = [].

Lemma inv_clean fi ex nx : Inv (mkD fi [] 0 ex nx).
Proof. unfold Inv; cbn. splits; auto; lia. Qed.
Lemma inv_init : Inv dinit.
Proof. apply inv_clean. Qed.
Lemma inv_reset d : Inv (dreset d).
Proof. apply inv_clean. Qed.

(* one Decode call: invariant, no panic / endless loop, retained BYTES and returned sizes bounded.
   (No bound on the number of retained slice headers is claimed: there is none, see slices_unbounded.) *)
Lemma dec_step P d p : Inv d -> dsize d <= N.max FL P -> psz p <= P ->
  let '(d', r) := dec d p in
  Inv d' /\ dsize d' <= N.max FL P /\ r <> DPanic /\ (forall f, r = DFrame f -> fsize f <= N.max FL P).
Proof.
  intros HI HB HP.
  assert (Hreset : Inv (dreset d) /\ dsize (dreset d) <= N.max FL P /\ @DErr (list bytes) <> DPanic /\
                   (forall f, @DErr (list bytes) = DFrame f -> fsize f <= N.max FL P)).
  { splits; [apply inv_reset|cbn; lia|discriminate|discriminate]. }
  unfold Model.dec. unfold psz in HP.
  destruct (ppayload p) as [|b0 [|b1 rest]]; try exact Hreset.
  cbn [nlen] in HP.
  destruct (b0 / 4 =? 0); cbn [negb]; [|exact Hreset].
  destruct (b0 mod 4 =? 0).
  - pose proof (agg_loop_spec (0 :: rest) rest []) as Ha.
    destruct (agg_loop (0 :: rest) rest []) as [fs| |].
    + splits; [apply inv_clean|cbn; lia|discriminate|]. intros f E; injection E as <-.
      unfold fsize in *. cbn [concat nlen] in Ha. specialize (Ha ltac:(cbn [nlen]; lia)). lia.
    + splits; [apply inv_clean|cbn; lia|discriminate|discriminate].
    + exfalso. apply Ha. cbn [nlen]. lia.
  - destruct (b0 mod 4 <=? 2).
    + pose proof (K_np rest) as Hnp. destruct (ac3 rest) as [sz| |] eqn:E; [|exact Hreset|congruence].
      pose proof (K_max _ _ E) as Hmx. pose proof (K_len _ _ E) as Hl5.
      splits; [|cbn [dsize]; lia|discriminate|discriminate].
      unfold Inv; cbn [dsize dfrags dexp concat]. rewrite app_nil_r. splits; [reflexivity|lia|].
      intros _. exists sz. split; [assumption|lia].
    + destruct (N.eqb_spec (dsize d) 0) as [Hz0|Hz0].
      { splits; [assumption|assumption|discriminate|discriminate]. }
      destruct (pseq p =? dnext d); cbn [negb]; [|exact Hreset].
      destruct HI as (Hs & Hz & Hexp). destruct Hexp as (S & HS & HSe); [lia|].
      destruct (Z.ltb_spec (dexp d - Z.of_N (nlen rest)) 0) as [|Hge]; [exact Hreset|].
      destruct (Z.ltb_spec 0 (dexp d - Z.of_N (nlen rest))) as [Hmore|Hdone].
      * splits; [|cbn [dsize]; lia|discriminate|discriminate].
        unfold Inv; cbn [dsize dfrags dexp]. rewrite concat_snoc, nlen_app. splits; [lia|lia|].
        intros _. exists S. split; [assumption|lia].
      * cbn [dfrags dsize].
        replace (dsize d + nlen rest) with (nlen (concat (dfrags d ++ [rest])))
          by (rewrite concat_snoc, nlen_app; lia).
        rewrite join_exact. splits; [apply inv_reset|cbn; lia|discriminate|].
        intros f E; injection E as <-. unfold fsize; cbn [concat]. rewrite app_nil_r, concat_snoc, nlen_app. lia.
Qed.

Lemma dec_run_spec P hist : forall d, Inv d -> dsize d <= N.max FL P -> Forall (fun p => psz p <= P) hist ->
  let '(d', rs) := dec_run d hist in
  Inv d' /\ dsize d' <= N.max FL P /\ ~ In DPanic rs /\ forall f, In (DFrame f) rs -> fsize f <= N.max FL P.
Proof.
  induction hist as [|p t IH]; intros d HI HB HF; cbn [Model.dec_run].
  - splits; [assumption|assumption|intros []|intros f []].
  - inversion HF as [|? ? Hp Ht]; subst.
    pose proof (dec_step P d p HI HB Hp) as Hstep. destruct (dec d p) as [d' r].
    destruct Hstep as (HI' & HB' & Hnp & Hfr).
    specialize (IH d' HI' HB' Ht). destruct (dec_run d' t) as [d'' rs].
    destruct IH as (HI'' & HB'' & Hnp' & Hfr').
    assert (G : Inv d'' /\ dsize d'' <= N.max FL P /\ ~ In DPanic (r :: rs) /\
                forall f, In (DFrame f) (r :: rs) -> fsize f <= N.max FL P).
    { splits; [assumption|assumption| |].
      - intros [H|H]; [congruence|contradiction].
      - intros f [H|H]; [now apply Hfr|now apply Hfr']. }
    destruct r; try exact G. congruence.
Qed.

Lemma hist_bound (hist : list packet) : exists P, Forall (fun p => psz p <= P) hist.
Proof.
  induction hist as [|p t [P HF]]; [exists 0; constructor|].
  exists (N.max P (psz p)). constructor; [lia|]. eapply Forall_impl; [|exact HF]. cbn. intros; lia.
Qed.

Theorem total hist : ~ In DPanic (snd (dec_run dinit hist)).
Proof.
  destruct (hist_bound hist) as [P HF]. pose proof (dec_run_spec P hist dinit inv_init ltac:(cbn; lia) HF) as H.
  destruct (dec_run dinit hist) as [d rs]. cbn [snd]. tauto.
Qed.

(* retained BYTES and returned frames are bounded *)
Theorem bounded_bytes P hist :
  Forall (fun p => psz p <= P) hist ->
  let '(d, rs) := dec_run dinit hist in
  fst (retained d) <= N.max FL P /\ forall f, In (DFrame f) rs -> fsize f <= N.max FL P.
Proof.
  intros HF. pose proof (dec_run_spec P hist dinit inv_init ltac:(cbn; lia) HF) as H. destruct (dec_run dinit hist) as [d rs].
  destruct H as ((Hs & _) & HB & _ & Hfr). unfold retained; cbn [fst]. split; [lia|assumption].
Qed.

(* ---- F6: zero-length frame-type-3 fragments are appended without bound (any parser) ---- *)
Fixpoint empties (seq : N) (k : nat) : list packet :=
  match k with
  | O => []
  | S k' => mkPkt seq 0 false [3; 2] :: empties (seq_next seq) k'
  end.

Lemma empties_run k : forall d, dsize d <> 0 -> (0 < dexp d)%Z ->
  exists nx, dec_run d (empties (dnext d) k) =
    (mkD (dfirst d) (dfrags d ++ repeat [] k) (dsize d) (dexp d) nx, repeat DMore k).
Proof.
  clear K_np K_pos K_len K_max.
  induction k as [|k IH]; intros d Hz He.
  - exists (dnext d). cbn [empties Model.dec_run repeat]. rewrite app_nil_r. destruct d; reflexivity.
  - cbn [empties Model.dec_run]. unfold Model.dec. cbn [ppayload pseq nlen].
    change (3 / 4 =? 0) with true. change (3 mod 4 =? 0) with false. change (3 mod 4 <=? 2) with false. cbn [negb].
    destruct (N.eqb_spec (dsize d) 0); [contradiction|]. rewrite N.eqb_refl. cbn [negb].
    change (Z.of_N 0) with 0%Z. rewrite Z.sub_0_r, N.add_0_r.
    destruct (Z.ltb_spec (dexp d) 0); [lia|]. destruct (Z.ltb_spec 0 (dexp d)); [|lia].
    set (d1 := mkD (dfirst d) (dfrags d ++ [[]]) (dsize d) (dexp d) (seq_next (dnext d))).
    destruct (IH d1 Hz He) as (nx & Hr). unfold d1 in Hr at 2; cbn [dnext] in Hr. rewrite Hr.
    exists nx. unfold d1; cbn [dfirst dfrags dsize dexp repeat]. rewrite <- app_assoc. reflexivity.
Qed.

End D.

(* ====================================================================================== *)
(* ---------- round trip (C03) and resynchronisation (C07) ---------- *)
Section R.
Variable ac3 : bytes -> pres.
Variable FL : N.
Variable max : N.
Hypothesis K_np  : forall b, ac3 b <> PPanic.
Hypothesis K_pos : forall b sz, ac3 b = POk sz -> 0 < sz.
Hypothesis K_len : forall b sz, ac3 b = POk sz -> 5 <= nlen b.
Hypothesis K_pre : forall a b, 5 <= nlen a -> ac3 (a ++ b) = ac3 a.
Hypothesis Hmax : 9 <= max.      (* avail = max - 4 must hold the 5 bytes the parser insists on *)

Notation dec := (dec ac3).
Notation dec_run := (dec_run ac3).
Notation agg_loop := (agg_loop ac3).

(* a syncframe whose length is the one its own syncinfo announces *)
Definition valid_au (f : bytes) : Prop := ac3 f = POk (nlen f).
Definition valid_frame (fs : list bytes) : Prop := fs <> [] /\ Forall valid_au fs.
Definition ready (d : dstate) : Prop := dsize d = 0 /\ dfrags d = [] /\ dfirst d = true.

Lemma valid_au_len f : valid_au f -> 5 <= nlen f.
Proof. intros H. eapply K_len; eassumption. Qed.

Lemma agg_loop_ok B : forall frames fuel, B <> [] -> Forall valid_au B -> nlen (concat B) < nlen fuel ->
  agg_loop fuel (concat B) frames = ADone (frames ++ B).
Proof.
  induction B as [|f t IH]; intros frames fuel Hne Hv Hf; [contradiction|].
  inversion Hv as [|? ? Hvf Hvt]; subst. pose proof (valid_au_len f Hvf) as Hl5.
  destruct fuel as [|f0 fuel]; [cbn [nlen] in Hf; lia|]. cbn [Model.agg_loop concat].
  rewrite K_pre by assumption. rewrite Hvf. rewrite nlen_app.
  destruct (N.ltb_spec (nlen f + nlen (concat t)) (nlen f)); [lia|].
  rewrite ndrop_app_exact, ntake_app_exact.
  destruct t as [|f2 t2].
  - cbn [concat]. reflexivity.
  - specialize (IH (frames ++ [f]) fuel ltac:(discriminate) Hvt).
    assert (Hfl : nlen (concat (f2 :: t2)) < nlen fuel).
    { change (concat (f :: f2 :: t2)) with (f ++ concat (f2 :: t2)) in Hf. rewrite nlen_app in Hf. cbn [nlen] in Hf. lia. }
    assert (Hc2 : 5 <= nlen (concat (f2 :: t2))).
    { pose proof (valid_au_len f2 (Forall_inv Hvt)) as H5. cbn [concat]. rewrite nlen_app. lia. }
    destruct (concat (f2 :: t2)) as [|y yt].
    + cbn [nlen] in Hc2. lia.
    + rewrite IH by assumption. now rewrite <- app_assoc.
Qed.

(* an aggregated packet: from ANY decoder state (a frame-type-0 packet drops whatever was pending) *)
Lemma dec_agg B d seq ts cnt : B <> [] -> Forall valid_au B ->
  exists d', dec d (mkPkt seq ts true ([0; cnt] ++ concat B)) = (d', DFrame B) /\ ready d'.
Proof.
  intros Hne Hv. unfold Model.dec. cbn [ppayload app].
  change (0 / 4 =? 0) with true. change (0 mod 4 =? 0) with true. cbn [negb].
  rewrite agg_loop_ok; [|assumption|assumption|cbn [nlen]; lia].
  eexists. split; [reflexivity|]. unfold ready; cbn. tauto.
Qed.

Definition settled_as (d0 d' : dstate) : Prop := dsize d' = 0 /\ dfrags d' = [] /\ dfirst d' = dfirst d0.

Lemma dec_cont d seq ts m pc x : dsize d <> 0 -> seq = dnext d -> (Z.of_N (nlen x) <= dexp d)%Z ->
  dec d (mkPkt seq ts m ([3; pc] ++ x)) =
  (let exp' := (dexp d - Z.of_N (nlen x))%Z in
   let d' := mkD (dfirst d) (dfrags d ++ [x]) (dsize d + nlen x) exp' (seq_next (dnext d)) in
   if (0 <? exp')%Z then (d', DMore)
   else match join (dfrags d') (dsize d') with
        | Some f => (dreset d', DFrame [f])
        | None => (d', DPanic)
        end).
Proof.
  intros Hz Hs Hex. unfold Model.dec. cbn [ppayload pseq app].
  change (3 / 4 =? 0) with true. change (3 mod 4 =? 0) with false. change (3 mod 4 <=? 2) with false. cbn [negb].
  destruct (N.eqb_spec (dsize d) 0); [contradiction|]. destruct (N.eqb_spec seq (dnext d)); [|contradiction]. cbn [negb].
  destruct (Z.ltb_spec (dexp d - Z.of_N (nlen x)) 0); [lia|]. reflexivity.
Qed.

(* the remaining pieces of a fragmented frame *)
Lemma dec_rest ts pc cs : forall d seq,
  cs <> [] -> Forall (fun x => x <> []) cs -> dsize d <> 0 -> seq = dnext d ->
  dexp d = Z.of_N (nlen (concat cs)) -> dsize d = nlen (concat (dfrags d)) ->
  exists d', dec_run d (frag_pkts seq ts 3 pc cs) =
    (d', repeat DMore (length cs - 1) ++ [DFrame [concat (dfrags d) ++ concat cs]]) /\ settled_as d d'.
Proof.
  induction cs as [|x t IH]; intros d seq Hne Hnn Hz Hseq Hexp Hsz; [contradiction|].
  inversion Hnn as [|? ? Hx Hnt]; subst seq. cbn [concat] in Hexp. rewrite nlen_app in Hexp.
  cbn [frag_pkts Model.dec_run]. rewrite dec_cont; [|assumption|reflexivity|lia].
  assert (Hxl : 0 < nlen x) by (destruct x; [contradiction|cbn [nlen]; lia]).
  cbv zeta. destruct t as [|x2 t2].
  - cbn [concat nlen] in Hexp. replace (dexp d - Z.of_N (nlen x))%Z with 0%Z by lia. cbn [Z.ltb Z.compare].
    cbn [dfrags dsize]. replace (dsize d + nlen x) with (nlen (concat (dfrags d ++ [x]))) by (rewrite concat_snoc, nlen_app; lia).
    rewrite join_exact. cbn [frag_pkts Model.dec_run length Nat.sub repeat app concat]. rewrite concat_snoc, app_nil_r.
    eexists. split; [reflexivity|]. unfold settled_as; cbn. tauto.
  - assert (Hx2 : 0 < nlen (concat (x2 :: t2))).
    { pose proof (Forall_inv Hnt) as Hx2. cbn [concat]. rewrite nlen_app. destruct x2; [contradiction|cbn [nlen]; lia]. }
    destruct (Z.ltb_spec 0 (dexp d - Z.of_N (nlen x))); [|lia].
    set (d1 := mkD (dfirst d) (dfrags d ++ [x]) (dsize d + nlen x) (dexp d - Z.of_N (nlen x)) (seq_next (dnext d))).
    destruct (IH d1 (seq_next (dnext d))) as (d' & Hrun & Hst).
    + discriminate.
    + assumption.
    + unfold d1; cbn [dsize]. lia.
    + reflexivity.
    + unfold d1; cbn [dexp]. lia.
    + unfold d1; cbn [dsize dfrags]. rewrite concat_snoc, nlen_app. lia.
    + cbv iota beta. rewrite Hrun. exists d'. split; [|exact Hst].
      unfold d1; cbn [dfrags]. rewrite concat_snoc, <- app_assoc.
      cbn [length Nat.sub]. rewrite Nat.sub_0_r. cbn [concat]. reflexivity.
Qed.

(* all the packets of one fragmented frame (at least two, since the frame did not fit), from ANY state *)
Lemma dec_group ts f ft pc : forall d seq, valid_au f -> max - 4 < nlen f -> (ft = 1 \/ ft = 2) ->
  let cs := chunks (max - 4) f in
  exists d', dec_run d (frag_pkts seq ts ft pc cs) = (d', repeat DMore (length cs - 1) ++ [DFrame [f]]) /\ ready d'.
Proof.
  intros d seq Hv Hbig Hft cs. pose proof (valid_au_len f Hv) as Hl5.
  assert (Hav : 0 < max - 4) by lia.
  assert (Hfne : f <> []) by (intros ->; cbn in Hl5; lia).
  assert (Hcc : concat cs = f) by (apply chunks_concat; assumption).
  assert (Hcb : Forall (fun x => x <> []) cs).
  { pose proof (chunks_bounds (max - 4) f Hav) as Hb. eapply Forall_impl; [|exact Hb]. intros x [Hx _] ->. cbn in Hx. lia. }
  unfold cs in *. rewrite chunks_cons in * by assumption.
  set (c1 := ntake (max - 4) f) in *. set (t := chunks (max - 4) (ndrop (max - 4) f)) in *.
  assert (Hc1 : 5 <= nlen c1 /\ nlen c1 < nlen f) by (unfold c1; rewrite nlen_ntake; lia).
  assert (Hf : f = c1 ++ concat t) by (cbn [concat] in Hcc; congruence).
  assert (Hm1 : ac3 c1 = POk (nlen f)).
  { pose proof (K_pre c1 (concat t) (proj1 Hc1)) as Hk. rewrite <- Hf in Hk. rewrite Hv in Hk. now symmetry. }
  assert (Htne : t <> []).
  { intros E. rewrite E in Hf. cbn [concat] in Hf. rewrite app_nil_r in Hf. rewrite <- Hf in Hc1. lia. }
  cbn [frag_pkts Model.dec_run]. unfold Model.dec at 1. cbn [ppayload pseq app].
  assert (Hb0 : (ft / 4 =? 0) = true /\ (ft mod 4 =? 0) = false /\ (ft mod 4 <=? 2) = true)
    by (destruct Hft as [-> | ->]; splits; reflexivity).
  destruct Hb0 as (E1 & E2 & E3). rewrite E1, E2, E3. cbn [negb]. rewrite Hm1.
  destruct t as [|x2 t2]; [contradiction|].
  set (d1 := mkD true [c1] (nlen c1) (Z.of_N (nlen f) - Z.of_N (nlen c1)) (seq_next seq)).
  assert (Hfl : nlen f = nlen c1 + nlen (concat (x2 :: t2))) by (rewrite Hf at 1; apply nlen_app).
  destruct (dec_rest ts pc (x2 :: t2) d1 (seq_next seq)) as (d' & Hrun & Hst).
  - discriminate.
  - exact (Forall_inv_tail Hcb).
  - unfold d1; cbn [dsize]. lia.
  - reflexivity.
  - unfold d1; cbn [dexp]. lia.
  - unfold d1; cbn [dsize dfrags concat]. now rewrite app_nil_r.
  - rewrite Hrun. exists d'. split.
    + unfold d1; cbn [dfrags]. change (concat [c1]) with (c1 ++ []). rewrite app_nil_r, <- Hf.
      cbn [length Nat.sub]. rewrite Nat.sub_0_r. reflexivity.
    + destruct Hst as (H1 & H2 & H3). unfold ready. now rewrite H1, H2, H3.
Qed.

Definition batch_valid (B : list bytes) : Prop := B <> [] /\ Forall valid_au B.

Lemma dec_batch B d ts seq g : batch_valid B -> write_batch max B ts seq = Some g ->
  exists d', dec_run d g = (d', repeat DMore (length g - 1) ++ [DFrame B]) /\ ready d'.
Proof.
  intros (Hne & Hv) Hw.
  assert (Hagg : g = write_agg B ts seq ->
     exists d', dec_run d g = (d', repeat DMore (length g - 1) ++ [DFrame B]) /\ ready d').
  { intros ->. unfold write_agg. destruct (dec_agg B d seq ts (nlen B mod 256) Hne Hv) as (d' & Hd & Hrd).
    cbn [Model.dec_run]. rewrite Hd. cbn [length Nat.sub repeat app]. exists d'. split; [reflexivity|assumption]. }
  destruct B as [|a [|a2 t]]; [contradiction| |].
  - cbn [write_batch] in Hw. destruct (N.ltb_spec (len_agg [a] None) max) as [Hlt|Hge].
    + injection Hw as <-. now apply Hagg.
    + unfold write_frag in Hw. destruct (N.ltb_spec max 5); [lia|]. injection Hw as <-.
      pose proof (Forall_inv Hv) as Hva.
      assert (Hbig : max - 4 < nlen a) by (unfold Model.len_agg in Hge; cbn [concat nlen] in Hge; rewrite app_nil_r in Hge; lia).
      destruct (dec_group ts a (if nlen a * 5 / 8 <=? max - 4 then 1 else 2) (nlen (chunks (max - 4) a)) d seq Hva Hbig)
        as (d' & Hrun & Hrd).
      { destruct (nlen a * 5 / 8 <=? max - 4); [now left|now right]. }
      exists d'. split; [|assumption]. rewrite Hrun.
      now rewrite frag_pkts_length.
  - cbn [write_batch] in Hw. injection Hw as <-. now apply Hagg.
Qed.

Fixpoint expect (gs : list (list packet)) (bs : list (list bytes)) : list (dres (list bytes)) :=
  match gs, bs with
  | g :: gt, b :: bt => repeat DMore (length g - 1) ++ [DFrame b] ++ expect gt bt
  | _, _ => []
  end.

Lemma dec_run_app ps1 : forall ps2 d d1 r1, dec_run d ps1 = (d1, r1) -> ~ In DPanic r1 ->
  dec_run d (ps1 ++ ps2) = (let '(d2, r2) := dec_run d1 ps2 in (d2, r1 ++ r2)).
Proof.
  induction ps1 as [|p t IH]; intros ps2 d d1 r1 H Hnp; cbn [Model.dec_run app] in *.
  - injection H as <- <-. destruct (dec_run d ps2); reflexivity.
  - destruct (dec d p) as [d' r].
    destruct r; try (destruct (dec_run d' t) as [d'' rs] eqn:E; injection H as <- <-;
      rewrite (IH ps2 d' d'' rs E) by (intros Hin; apply Hnp; now right);
      destruct (dec_run d'' ps2); reflexivity).
    injection H as <- <-. exfalso. apply Hnp. now left.
Qed.

Lemma no_panic_expected n (B : list bytes) : ~ In DPanic (repeat (@DMore (list bytes)) n ++ [DFrame B]).
Proof.
  intros H. apply in_app_or in H. destruct H as [H|[H|[]]]; [|discriminate].
  apply repeat_spec in H. discriminate.
Qed.

Lemma dec_groups bs : forall gs ts seq d, enc_groups max bs ts seq = Some gs -> Forall batch_valid bs ->
  exists d', dec_run d (concat gs) = (d', expect gs bs) /\ (bs <> [] -> ready d') /\ (bs = [] -> d' = d).
Proof.
  induction bs as [|b t IH]; intros gs ts seq d Hg Hv; cbn [enc_groups] in Hg.
  - injection Hg as <-. exists d. cbn. splits; auto. intros H; contradiction.
  - inversion Hv as [|? ? Hb Ht]; subst.
    destruct (write_batch max b ts seq) as [g|] eqn:Ew; [|discriminate].
    destruct (enc_groups max t _ _) as [gt|] eqn:Eg; [|discriminate]. cbn [option_map] in Hg. injection Hg as <-.
    destruct (dec_batch b d ts seq g Hb Ew) as (d1 & Hr1 & Hrd1).
    destruct (IH gt _ _ d1 Eg Ht) as (d2 & Hr2 & Hrd2 & Heq2).
    cbn [concat expect]. rewrite (dec_run_app g (concat gt) d d1 _ Hr1 (no_panic_expected _ _)), Hr2.
    exists d2. splits.
    + now rewrite <- app_assoc.
    + intros _. destruct t as [|b2 t2]; [rewrite (Heq2 eq_refl); assumption|apply Hrd2; discriminate].
    + discriminate.
Qed.

Lemma batches_valid f : valid_frame f -> Forall batch_valid (batch_loop max f []).
Proof.
  intros (Hne & Hv). rewrite Forall_forall. intros B HB.
  pose proof (batch_loop_concat max f []) as Hcat. cbn [app] in Hcat.
  pose proof (batch_loop_nonempty max f [] (or_intror Hne)) as Hnn. rewrite Forall_forall in Hnn.
  split; [now apply Hnn|]. rewrite Forall_forall in *. intros a Ha. apply Hv. rewrite <- Hcat. apply in_concat. exists B. split; assumption.
Qed.

Lemma valid_nonempty f : valid_frame f -> Forall (fun a : bytes => a <> []) f.
Proof.
  intros (_ & Hv). eapply Forall_impl; [|exact Hv]. intros a Ha ->. pose proof (valid_au_len [] Ha) as H. cbn in H. lia.
Qed.

Definition frames_of (rs : list (dres (list bytes))) : list bytes :=
  flat_map (fun r => match r with DFrame x => x | _ => [] end) rs.
Definition progress (r : dres (list bytes)) : Prop := r = DMore \/ exists x, r = DFrame x.
Lemma frames_of_app a b : frames_of (a ++ b) = frames_of a ++ frames_of b.
Proof. unfold frames_of. apply flat_map_app. Qed.
Lemma frames_of_more n : frames_of (repeat DMore n) = [].
Proof. induction n as [|k IH]; [reflexivity|]. cbn [repeat]. exact IH. Qed.
Lemma expect_frames gs : forall bs, length gs = length bs ->
  frames_of (expect gs bs) = concat bs /\ Forall progress (expect gs bs).
Proof.
  induction gs as [|g gt IH]; intros [|b bt] H; cbn [length] in H; try discriminate.
  - split; [reflexivity|constructor].
  - cbn [expect concat]. destruct (IH bt) as [H1 H2]; [lia|].
    rewrite !frames_of_app, frames_of_more, H1. cbn [app]. split; [unfold frames_of; cbn; now rewrite app_nil_r|].
    apply Forall_app. split; [|constructor; [right; eexists; reflexivity|assumption]].
    apply Forall_forall. intros r Hr. apply repeat_spec in Hr. now left.
Qed.

(* C03 and C07 at once: from ANY decoder state *)
Theorem roundtrip seq f d : valid_frame f -> seq < 65536 ->
  exists gs d', enc max seq f = Some (concat gs, seq_add seq (nlen (concat gs))) /\
    dec_run d (concat gs) = (d', expect gs (batch_loop max f [])) /\ ready d' /\
    concat (batch_loop max f []) = f /\ length gs = length (batch_loop max f []).
Proof.
  intros Hv Hs.
  destruct (enc_wellformed max ltac:(lia) seq f Hs (valid_nonempty f Hv)) as (gs & Hg & He & _ & _ & Hlen).
  pose proof (batch_loop_concat max f []) as Hcat. cbn [app] in Hcat.
  destruct (dec_groups _ gs 0 seq d Hg (batches_valid f Hv)) as (d' & Hr & Hrd & _).
  exists gs, d'. splits; try assumption.
  - apply Hrd. apply batch_loop_ne.
  - rewrite !nlen_length in Hlen. lia.
Qed.

Theorem roundtrip_frames seq f d : valid_frame f -> seq < 65536 ->
  exists ps seq' d' rs, enc max seq f = Some (ps, seq') /\ dec_run d ps = (d', rs) /\
    frames_of rs = f /\ Forall progress rs /\ ready d'.
Proof.
  intros Hv Hs. destruct (roundtrip seq f d Hv Hs) as (gs & d' & He & Hr & Hrd & Hcat & Hlen).
  destruct (expect_frames gs _ Hlen) as [H1 H2].
  exists (concat gs), (seq_add seq (nlen (concat gs))), d', (expect gs (batch_loop max f [])).
  splits; try assumption. now rewrite H1.
Qed.

Theorem roundtrip_seq fs : Forall valid_frame fs -> forall seq d, seq < 65536 ->
  exists pss d' rs, enc_many max seq fs = Some pss /\ dec_run d (concat pss) = (d', rs) /\
    frames_of rs = concat fs /\ Forall progress rs.
Proof.
  induction 1 as [|f t Hf Ht IH]; intros seq d Hs.
  - exists [], d, []. cbn. splits; auto; constructor.
  - destruct (roundtrip_frames seq f d Hf Hs) as (ps & seq' & d1 & r1 & He & Hr1 & Hf1 & Hp1 & _).
    assert (Hs' : seq' < 65536).
    { destruct (roundtrip seq f d Hf Hs) as (gs & ? & He' & _). rewrite He in He'. injection He' as _ ->. apply seq_add_lt. }
    destruct (IH seq' d1 Hs') as (pss & d2 & r2 & Hem & Hr2 & Hf2 & Hp2).
    exists (ps :: pss), d2, (r1 ++ r2). cbn [enc_many]. rewrite He, Hem. cbn [option_map concat]. splits.
    + reflexivity.
    + rewrite (dec_run_app ps (concat pss) d d1 r1 Hr1), Hr2; [reflexivity|].
      intros Hin. rewrite Forall_forall in Hp1. destruct (Hp1 _ Hin) as [E|[x E]]; discriminate.
    + now rewrite frames_of_app, Hf1, Hf2.
    + apply Forall_app. split; assumption.
Qed.

(* C07: after ANY packet history an intact frame is returned exactly as in the loss-free case *)
Theorem resync hist f s : valid_frame f -> s < 65536 ->
  exists ps q d' rs, enc max s f = Some (ps, q) /\
    dec_run (fst (dec_run dinit hist)) ps = (d', rs) /\ frames_of rs = f /\ Forall progress rs /\ ready d'.
Proof. intros Hv Hs. apply roundtrip_frames; assumption. Qed.

End R.

(* ====================================================================================== *)
(* ---------- the contract holds for the re-modelled mediacommon parser ---------- *)
Definition FLmax : N := 3840.   (* 1920 words *)

Lemma ac3_parse_spec buf :
  match ac3_parse buf with
  | PPanic => False
  | PErr => True
  | POk sz => 0 < sz /\ sz <= FLmax /\ 5 <= nlen buf
  end.
Proof.
  unfold ac3_parse. destruct buf as [|b0 [|b1 [|b2 [|b3 [|b4 rest]]]]]; try exact I.
  destruct (negb _); [exact I|].
  destruct (N.leb_spec 3 (b4 / 64)) as [|Hf]; [exact I|].
  destruct (N.leb_spec 38 (b4 mod 64)) as [|Hc]; [exact I|].
  destruct (nnth_lt frame_sizes (b4 mod 64)) as [row Hrow]; [cbn; lia|]. rewrite Hrow.
  apply nnth_In in Hrow.
  assert (Hr : nlen row = 3 /\ Forall (fun w => 64 <= w <= 1920) row).
  { cbn in Hrow. repeat (destruct Hrow as [<-|Hrow]; [split; [reflexivity|repeat constructor; lia]|]). contradiction. }
  destruct Hr as [Hr3 Hrw].
  destruct (nnth_lt row (b4 / 64)) as [w Hw]; [lia|]. rewrite Hw. apply nnth_In in Hw.
  rewrite Forall_forall in Hrw. specialize (Hrw w Hw). unfold FLmax. cbn [nlen]. lia.
Qed.

Lemma ac3_np b : ac3_parse b <> PPanic.
Proof. pose proof (ac3_parse_spec b) as H. destruct (ac3_parse b); [discriminate|discriminate|contradiction]. Qed.
Lemma ac3_pos b sz : ac3_parse b = POk sz -> 0 < sz.
Proof. intros E. pose proof (ac3_parse_spec b) as H. rewrite E in H. tauto. Qed.
Lemma ac3_len b sz : ac3_parse b = POk sz -> 5 <= nlen b.
Proof. intros E. pose proof (ac3_parse_spec b) as H. rewrite E in H. tauto. Qed.
Lemma ac3_max b sz : ac3_parse b = POk sz -> sz <= FLmax.
Proof. intros E. pose proof (ac3_parse_spec b) as H. rewrite E in H. tauto. Qed.
Lemma ac3_pre a b : 5 <= nlen a -> ac3_parse (a ++ b) = ac3_parse a.
Proof.
  intros H. destruct a as [|b0 [|b1 [|b2 [|b3 [|b4 rest]]]]]; cbn [nlen] in H; try lia. reflexivity.
Qed.

Ltac contract := first [exact ac3_np|exact ac3_pos|exact ac3_len|exact ac3_max|exact ac3_pre|assumption].

Theorem total_ac3 hist : ~ In DPanic (snd (dec_run ac3_parse dinit hist)).
Proof. apply (total ac3_parse FLmax); contract. Qed.

Theorem bounded_bytes_ac3 P hist :
  Forall (fun p => psz p <= P) hist ->
  let '(d, rs) := dec_run ac3_parse dinit hist in
  fst (retained d) <= N.max FLmax P /\ forall f, In (DFrame f) rs -> fsize f <= N.max FLmax P.
Proof. apply (bounded_bytes ac3_parse FLmax); contract. Qed.

(* F6, for the concrete decoder: a 7-byte start fragment announcing a 2560-byte frame, then n
   two-byte frame-type-3 packets with consecutive sequence numbers: 5 bytes retained, n+1 slice headers *)
Lemma concat_repeat_nil {A} n : concat (repeat (@nil A) n) = [].
Proof. induction n as [|k IH]; [reflexivity|]. cbn [repeat concat app]. exact IH. Qed.

Definition f6_start : packet := mkPkt 10 0 false [1; 2; 11; 119; 0; 0; 37].
Theorem slices_unbounded n :
  exists hist, Forall (fun p => psz p <= 7) hist /\
    retained (fst (dec_run ac3_parse dinit hist)) = (5, N.of_nat n + 1) /\
    ~ In DErr (snd (dec_run ac3_parse dinit hist)).
Proof.
  exists (f6_start :: empties 11 n).
  assert (Hst : dec ac3_parse dinit f6_start = (mkD true [[11; 119; 0; 0; 37]] 5 2555%Z 11, DMore)) by (vm_compute; reflexivity).
  splits.
  - constructor; [vm_compute; discriminate|]. generalize 11. induction n as [|k IH]; intros s; cbn [empties]; constructor; [vm_compute; discriminate|apply IH].
  - cbn [Model.dec_run]. rewrite Hst.
    destruct (empties_run ac3_parse n (mkD true [[11; 119; 0; 0; 37]] 5 2555%Z 11)) as (nx & Hr); [discriminate|reflexivity|].
    cbn [dnext] in Hr. rewrite Hr. cbn [fst]. unfold retained; cbn [dfrags fst snd]. f_equal.
    + rewrite concat_app, concat_repeat_nil. reflexivity.
    + rewrite nlen_app, nlen_repeat. cbn [nlen]. lia.
  - cbn [Model.dec_run]. rewrite Hst.
    destruct (empties_run ac3_parse n (mkD true [[11; 119; 0; 0; 37]] 5 2555%Z 11)) as (nx & Hr); [discriminate|reflexivity|].
    cbn [dnext] in Hr. rewrite Hr. cbn [snd]. intros [H|H]; [discriminate|]. apply repeat_spec in H. discriminate.
Qed.

Theorem roundtrip_ac3 max : 9 <= max -> forall seq f d, valid_frame ac3_parse f -> seq < 65536 ->
  exists gs d', enc max seq f = Some (concat gs, seq_add seq (nlen (concat gs))) /\
    dec_run ac3_parse d (concat gs) = (d', expect gs (batch_loop max f [])) /\ ready d' /\
    concat (batch_loop max f []) = f /\ length gs = length (batch_loop max f []).
Proof. intros Hm. apply (roundtrip ac3_parse max); contract. Qed.

Theorem roundtrip_frames_ac3 max : 9 <= max -> forall seq f d, valid_frame ac3_parse f -> seq < 65536 ->
  exists ps seq' d' rs, enc max seq f = Some (ps, seq') /\ dec_run ac3_parse d ps = (d', rs) /\
    frames_of rs = f /\ Forall progress rs /\ ready d'.
Proof. intros Hm. apply (roundtrip_frames ac3_parse max); contract. Qed.

Theorem roundtrip_seq_ac3 max : 9 <= max -> forall fs, Forall (valid_frame ac3_parse) fs -> forall seq d, seq < 65536 ->
  exists pss d' rs, enc_many max seq fs = Some pss /\ dec_run ac3_parse d (concat pss) = (d', rs) /\
    frames_of rs = concat fs /\ Forall progress rs.
Proof. intros Hm. apply (roundtrip_seq ac3_parse max); contract. Qed.

Theorem resync_ac3 max : 9 <= max -> forall hist f s, valid_frame ac3_parse f -> s < 65536 ->
  exists ps q d' rs, enc max s f = Some (ps, q) /\
    dec_run ac3_parse (fst (dec_run ac3_parse dinit hist)) ps = (d', rs) /\ frames_of rs = f /\ Forall progress rs /\ ready d'.
Proof. intros Hm. apply (resync ac3_parse max); contract. Qed.

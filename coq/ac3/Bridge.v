(* BRIDGE: the integer formulas of pkg/format/rtpac3 (encoder.go, decoder.go) as TRANSLATED from the Go source on this
   run (GVG.Kern, tools/go2coq, spec.d/ac3.txt) are the formulas the hand-written Model.v uses: lenAggregated (every
   statement of its loop) and its two comparisons with PayloadMaxSize, the fragment budget PayloadMaxSize - 4, the
   frame-type test avail >= len*5/8 and the three frame-type constants, the fragment count and its uint8 cast, the size
   2+le of a fragment packet, the position of the marker, the sequence number and timestamp steps; in the decoder the
   length tests, the MBZ / FT bit fields, the case constants of the switch, the expected-size bookkeeping with its
   < 0 and > 0 tests and the sequence-number continuity test.  Re-checked against the regenerated Kern.v on every run. *)
From Coq Require Import ZArith NArith List Lia Bool.
From Coq Require Import ZifyBool ZifyN.
From GVL Require Import NList Wrap Chunks Rtp.
From GVG Require Import Consts Kern.
From GV_ac3 Require Import Model BridgeLib.
Import ListNotations.
Open Scope Z_scope.

Definition isbyte (b : N) : Prop := (b < 256)%N.
Definition isu16 (s : N) : Prop := (s < 65536)%N.
Definition isu32 (s : N) : Prop := (s < 4294967296)%N.

(* ---------- encoder (C06) ---------- *)

(* lenAggregated(frames, addFrame): the loop skeleton is written here, both statements are translated kernels;
   len(nil) = 0 *)
Fixpoint la_loop (n : Z) (frames : list bytes) : Z :=
  match frames with
  | [] => n
  | x :: t => la_loop (k_ac3_la_frame n (Z.of_N (nlen x))) t
  end.
Definition la_code (frames : list bytes) (add : option bytes) : Z :=
  la_loop (k_ac3_la_n0 (match add with Some a => Z.of_N (nlen a) | None => 0 end)) frames.

Lemma la_loop_spec frames : forall n, 0 <= n -> n + Z.of_N (nlen (concat frames)) < i64max ->
  la_loop n frames = n + Z.of_N (nlen (concat frames)).
Proof.
  unfold i64max. induction frames as [|x t IH]; intros n Hn Hb; cbn [la_loop concat] in *; [cbn [nlen]; lia|].
  rewrite nlen_app in *. unfold k_ac3_la_frame. rewrite ki64_small by lia. rewrite IH by lia. lia.
Qed.

Lemma bridge_len_agg frames add : Z.of_N (len_agg frames add) < i64max ->
  la_code frames add = Z.of_N (len_agg frames add).
Proof.
  unfold la_code, len_agg, k_ac3_la_n0, i64max. intros H.
  destruct add as [a|]; rewrite ki64_small by lia; rewrite la_loop_spec; unfold i64max; lia.
Qed.

(* if e.lenAggregated(batch, frame) <= e.PayloadMaxSize   is the test of Model.batch_loop *)
Lemma bridge_agg_fits max batch f : Z.of_N (len_agg batch (Some f)) < i64max ->
  k_ac3_agg_fits (la_code batch (Some f)) (Z.of_N max) = (len_agg batch (Some f) <=? max)%N.
Proof. intros H. rewrite bridge_len_agg by exact H. unfold k_ac3_agg_fits. apply leb_N. Qed.

(* writeBatch: len(frames) != 1 || e.lenAggregated(frames, nil) < e.PayloadMaxSize  is the dispatch of Model.write_batch *)
Lemma bridge_batch_agg max batch : Z.of_N (len_agg batch None) < i64max ->
  k_ac3_batch_agg (Z.of_N (nlen batch)) (la_code batch None) (Z.of_N max)
  = (negb (nlen batch =? 1)%N || (len_agg batch None <? max)%N).
Proof.
  intros H. rewrite bridge_len_agg by exact H. unfold k_ac3_batch_agg. rewrite ltb_N.
  change 1 with (Z.of_N 1). rewrite eqb_N. reflexivity.
Qed.
Lemma write_batch_dispatch max batch ts seq :
  write_batch max batch ts seq =
  if negb (nlen batch =? 1)%N || (len_agg batch None <? max)%N then Some (write_agg batch ts seq)
  else match batch with f :: _ => write_frag max f ts seq | [] => None end.
Proof.
  destruct batch as [|f [|g t]]; cbn [write_batch nlen].
  - reflexivity.
  - change (N.succ 0 =? 1)%N with true. cbn [negb orb]. reflexivity.
  - destruct (N.eqb_spec (N.succ (N.succ (nlen t))) 1) as [E|E]; [lia|]. reflexivity.
Qed.

(* writeFragmented: avail, the frame type, the packet count and its uint8 cast, the size of a packet, last / marker *)
Lemma bridge_fr_avail max : (4 <= max)%N -> Z.of_N max < i64max -> k_ac3_fr_avail (Z.of_N max) = Z.of_N (max - 4).
Proof. unfold k_ac3_fr_avail, i64max. intros H1 H2. rewrite ki64_small by lia. lia. Qed.

Lemma bridge_fr_count max (frame : bytes) : (5 <= max)%N -> Z.of_N max < i64max -> Z.of_N (nlen frame) < i64max ->
  k_ac3_packetCount (k_ac3_fr_avail (Z.of_N max)) (Z.of_N (nlen frame))
  = Some (Z.of_N (nlen (chunks (max - 4) frame))).
Proof.
  intros H1 H2 H3. rewrite bridge_fr_avail by (try assumption; lia).
  unfold k_ac3_packetCount. unfold i64max in *. rewrite pc_generic by lia.
  rewrite chunks_count_Z by lia. reflexivity.
Qed.

Lemma bridge_fr_ft max (frame : bytes) : (4 <= max)%N -> Z.of_N max < i64max -> Z.of_N (nlen frame) * 5 < i64max ->
  (if k_ac3_fr_ftcond (k_ac3_fr_avail (Z.of_N max)) (Z.of_N (nlen frame)) then k_ac3_fr_ft1 else k_ac3_fr_ft2)
  = Z.of_N (if (nlen frame * 5 / 8 <=? max - 4)%N then 1 else 2) /\ k_ac3_fr_ft3 = 3.
Proof.
  intros H1 H2 H3. rewrite bridge_fr_avail by assumption. unfold k_ac3_fr_ftcond, k_ac3_fr_ft1, k_ac3_fr_ft2, k_ac3_fr_ft3, i64max in *.
  split; [|reflexivity].
  rewrite (ki64_small (Z.of_N (nlen frame) * 5)) by lia.
  rewrite Z.quot_div_nonneg by lia.
  assert (Hq : 0 <= Z.of_N (nlen frame) * 5 / 8 <= Z.of_N (nlen frame) * 5)
    by (split; [apply Z.div_pos; lia|apply Z.div_le_upper_bound; lia]).
  rewrite ki64_small by lia.
  replace (Z.of_N (nlen frame) * 5 / 8) with (Z.of_N (nlen frame * 5 / 8)) by (rewrite N2Z.inj_div, N2Z.inj_mul; reflexivity).
  rewrite geb_N. destruct (_ <=? _)%N; reflexivity.
Qed.

Lemma bridge_fr_size (ft pc : N) (p : bytes) : Z.of_N (nlen p) + 2 < i64max ->
  k_ac3_fr_size (Z.of_N (nlen p)) = Z.of_N (nlen ([ft; pc mod 256]%N ++ p)).
Proof. unfold k_ac3_fr_size, i64max. cbn [app nlen]. intros H. rewrite ki64_small by lia. lia. Qed.

(* payload[1] = uint8(packetCount) / uint8(len(frames)) *)
Lemma bridge_count_byte (pc : N) :
  k_ac3_fr_count (Z.of_N pc) = Z.of_N (pc mod 256) /\ k_ac3_wa_count (Z.of_N pc) = Z.of_N (pc mod 256).
Proof. unfold k_ac3_fr_count, k_ac3_wa_count, w8. rewrite N2Z.inj_mod. split; reflexivity. Qed.

Lemma bridge_fr_last (i pc : N) : Z.of_N pc < i64max -> (1 <= pc)%N ->
  k_ac3_fr_last (Z.of_N i) (Z.of_N pc) = (i + 1 =? pc)%N /\ k_ac3_fr_marker (Z.of_N i) (Z.of_N pc) = (i + 1 =? pc)%N.
Proof.
  unfold k_ac3_fr_last, k_ac3_fr_marker, i64max. intros H1 H2. rewrite ki64_small by lia.
  split; destruct (Z.eqb_spec (Z.of_N i) (Z.of_N pc - 1)), (N.eqb_spec (i + 1) pc); lia.
Qed.

(* Model.frag_pkts marks the last chunk: packet i of the pc packets of a fragmented frame carries the marker iff i + 1 = pc *)
Lemma frag_pkts_marker ts pc : forall (cs : list bytes) seq ft i, (i < length cs)%nat ->
  nth i (map pmarker (frag_pkts seq ts ft pc cs)) false = (N.of_nat i + 1 =? nlen cs)%N.
Proof.
  induction cs as [|c t IH]; intros seq ft i Hi; cbn [length] in Hi; [lia|].
  cbn [frag_pkts map pmarker]. destruct i as [|i]; cbn [nth].
  - destruct t as [|c' t']; cbn [nlen]; [reflexivity|].
    match goal with |- context [N.eqb ?a ?b] => destruct (N.eqb_spec a b) as [E|E] end; [lia|reflexivity].
  - rewrite IH by lia. cbn [nlen].
    repeat match goal with |- context [N.eqb ?a ?b] => destruct (N.eqb_spec a b) end; lia.
Qed.

(* e.sequenceNumber++ (two copies) is Rtp.seq_next *)
Lemma bridge_seq (s : N) :
  k_ac3_seq_frag (Z.of_N s) = Z.of_N (seq_next s) /\ k_ac3_seq_agg (Z.of_N s) = Z.of_N (seq_next s).
Proof. unfold k_ac3_seq_frag, k_ac3_seq_agg, seq_next. split; apply w16_succ_N. Qed.

(* timestamp += uint32(len(batch)) * ac3.SamplesPerFrame  is the step of Model.enc_batches *)
Lemma bridge_ts_step (ts lb sp : N) :
  k_ac3_ts_step (Z.of_N ts) (Z.of_N lb) (Z.of_N sp) = Z.of_N ((ts + lb * sp) mod 4294967296).
Proof.
  unfold k_ac3_ts_step, w32. rewrite Z.mul_mod_idemp_l, Z.add_mod_idemp_r by lia.
  rewrite N2Z.inj_mod, N2Z.inj_add, N2Z.inj_mul. reflexivity.
Qed.

Theorem enc_kernels_are_the_code (max : N) (batch : list bytes) (f p : bytes) (i pc s ts ft : N) :
  (5 <= max)%N -> Z.of_N max < i64max -> Z.of_N (len_agg batch (Some f)) < i64max ->
  Z.of_N (nlen f) * 5 < i64max -> Z.of_N (nlen p) + 2 < i64max -> (1 <= pc)%N -> Z.of_N pc < i64max ->
  la_code batch None = Z.of_N (len_agg batch None) /\
  k_ac3_agg_fits (la_code batch (Some f)) (Z.of_N max) = (len_agg batch (Some f) <=? max)%N /\
  k_ac3_batch_agg (Z.of_N (nlen batch)) (la_code batch None) (Z.of_N max)
    = (negb (nlen batch =? 1)%N || (len_agg batch None <? max)%N) /\
  k_ac3_fr_avail (Z.of_N max) = Z.of_N (max - 4) /\
  k_ac3_packetCount (k_ac3_fr_avail (Z.of_N max)) (Z.of_N (nlen f)) = Some (Z.of_N (nlen (chunks (max - 4) f))) /\
  (if k_ac3_fr_ftcond (k_ac3_fr_avail (Z.of_N max)) (Z.of_N (nlen f)) then k_ac3_fr_ft1 else k_ac3_fr_ft2)
    = Z.of_N (if (nlen f * 5 / 8 <=? max - 4)%N then 1 else 2) /\ k_ac3_fr_ft3 = 3 /\
  k_ac3_fr_size (Z.of_N (nlen p)) = Z.of_N (nlen ([ft; pc mod 256]%N ++ p)) /\
  k_ac3_fr_count (Z.of_N pc) = Z.of_N (pc mod 256) /\ k_ac3_wa_count (Z.of_N pc) = Z.of_N (pc mod 256) /\
  k_ac3_fr_last (Z.of_N i) (Z.of_N pc) = (i + 1 =? pc)%N /\ k_ac3_fr_marker (Z.of_N i) (Z.of_N pc) = (i + 1 =? pc)%N /\
  k_ac3_seq_frag (Z.of_N s) = Z.of_N (seq_next s) /\ k_ac3_seq_agg (Z.of_N s) = Z.of_N (seq_next s) /\
  k_ac3_ts_step (Z.of_N ts) (Z.of_N (nlen batch)) (Z.of_N spf) = Z.of_N ((ts + nlen batch * spf) mod 4294967296).
Proof.
  intros H1 H2 H3 H4 H5 H6 H7.
  assert (Hn : Z.of_N (len_agg batch None) < i64max) by (unfold len_agg, i64max in *; lia).
  assert (Hf : Z.of_N (nlen f) < i64max) by (unfold i64max in *; lia).
  split; [apply bridge_len_agg; exact Hn|].
  split; [apply bridge_agg_fits; exact H3|].
  split; [apply bridge_batch_agg; exact Hn|].
  split; [apply bridge_fr_avail; [lia|assumption]|].
  split; [apply bridge_fr_count; assumption|].
  destruct (bridge_fr_ft max f ltac:(lia) H2 H4) as (A & B). split; [exact A|]. split; [exact B|].
  split; [apply bridge_fr_size; exact H5|].
  destruct (bridge_count_byte pc) as (C & D). split; [exact C|]. split; [exact D|].
  destruct (bridge_fr_last i pc H7 H6) as (E & F). split; [exact E|]. split; [exact F|].
  destruct (bridge_seq s) as (G & I). split; [exact G|]. split; [exact I|].
  apply bridge_ts_step.
Qed.

(* ---------- decoder: frame-type dispatch and resynchronisation tests (C07) ---------- *)

(* mbz := pkt.Payload[0] >> 2; ft := pkt.Payload[0] & 0b11; if mbz != 0 *)
Lemma bridge_dec_fields (b0 : N) : isbyte b0 ->
  k_ac3_dec_mbznz (k_ac3_dec_mbz (Z.of_N b0)) = negb (b0 / 4 =? 0)%N /\
  k_ac3_dec_ft (Z.of_N b0) = Z.of_N (b0 mod 4).
Proof.
  unfold isbyte, k_ac3_dec_mbznz, k_ac3_dec_mbz, k_ac3_dec_ft. intros H0.
  change 2 with (Z.of_N 2). change 3 with (Z.of_N 3). rewrite shiftr_N, land_N.
  rewrite N.shiftr_div_pow2. change (2 ^ 2)%N with 4%N. change 3%N with (N.ones 2). rewrite N.land_ones. change (2 ^ 2)%N with 4%N.
  assert (b0 / 4 <= b0)%N by (apply N.div_le_upper_bound; lia).
  assert (b0 mod 4 < 4)%N by (apply N.mod_lt; lia).
  rewrite !w8_small by lia. split; [|reflexivity]. f_equal. exact (eqb_N (b0 / 4) 0).
Qed.

(* switch ft { case 0: ... case 1, 2: ... case 3: ... }: the case constants are translated, the dispatch is written here;
   class 4 = no case matches *)
Definition ft_class (ft : Z) : N :=
  if ft =? k_ac3_dec_case0 then 0%N
  else if (ft =? k_ac3_dec_case1a) || (ft =? k_ac3_dec_case1b) then 1%N
  else if ft =? k_ac3_dec_case3 then 3%N else 4%N.
Lemma bridge_dec_switch (ft : N) : (ft < 4)%N ->
  ft_class (Z.of_N ft) = (if ft =? 0 then 0 else if ft <=? 2 then 1 else 3)%N.
Proof.
  unfold ft_class, k_ac3_dec_case0, k_ac3_dec_case1a, k_ac3_dec_case1b, k_ac3_dec_case3. intros H.
  destruct (N.eqb_spec ft 0) as [->|H0]; [reflexivity|].
  destruct (Z.eqb_spec (Z.of_N ft) 0); [lia|].
  destruct (N.leb_spec ft 2); destruct (Z.eqb_spec (Z.of_N ft) 1), (Z.eqb_spec (Z.of_N ft) 2), (Z.eqb_spec (Z.of_N ft) 3);
    cbn [orb]; try reflexivity; lia.
Qed.

Lemma bridge_dec_resync (seq next fs : N) :
  k_ac3_dec_nextseq (Z.of_N seq) = Z.of_N (seq_next seq) /\
  k_ac3_dec_incseq (Z.of_N next) = Z.of_N (seq_next next) /\
  k_ac3_dec_gap (Z.of_N seq) (Z.of_N next) = negb (seq =? next)%N /\
  k_ac3_dec_idle (Z.of_N fs) = (fs =? 0)%N.
Proof.
  unfold k_ac3_dec_nextseq, k_ac3_dec_incseq, k_ac3_dec_gap, k_ac3_dec_idle, seq_next.
  rewrite !w16_succ_N, eqb_N. repeat split. exact (eqb_N fs 0).
Qed.

Theorem resync_kernels_are_the_code (b0 seq next fs : N) : isbyte b0 ->
  k_ac3_dec_mbznz (k_ac3_dec_mbz (Z.of_N b0)) = negb (b0 / 4 =? 0)%N /\
  k_ac3_dec_ft (Z.of_N b0) = Z.of_N (b0 mod 4) /\
  ft_class (k_ac3_dec_ft (Z.of_N b0)) = (if b0 mod 4 =? 0 then 0 else if b0 mod 4 <=? 2 then 1 else 3)%N /\
  k_ac3_dec_nextseq (Z.of_N seq) = Z.of_N (seq_next seq) /\
  k_ac3_dec_incseq (Z.of_N next) = Z.of_N (seq_next next) /\
  k_ac3_dec_gap (Z.of_N seq) (Z.of_N next) = negb (seq =? next)%N /\
  k_ac3_dec_idle (Z.of_N fs) = (fs =? 0)%N.
Proof.
  intros H0. destruct (bridge_dec_fields b0 H0) as (A & B). destruct (bridge_dec_resync seq next fs) as (D & E & F & G).
  split; [exact A|]. split; [exact B|].
  split; [rewrite B; apply bridge_dec_switch; apply N.mod_lt; lia|]. repeat split; assumption.
Qed.

(* ---------- decoder: length tests and the expected-size bookkeeping (C08) ---------- *)

Lemma bridge_dec_short (pl : bytes) :
  k_ac3_dec_short (Z.of_N (nlen pl)) = match pl with _ :: _ :: _ => false | _ => true end.
Proof. unfold k_ac3_dec_short. destruct pl as [|a [|b t]]; cbn [nlen]; lia. Qed.

(* frame type 0: if len(buf) < size; if len(buf) == 0 after buf = buf[size:] *)
Lemma bridge_dec_agg (buf : bytes) (size : N) :
  k_ac3_dec_fshort (Z.of_N (nlen buf)) (Z.of_N size) = (nlen buf <? size)%N /\
  k_ac3_dec_done (Z.of_N (nlen (ndrop size buf))) = match ndrop size buf with [] => true | _ :: _ => false end.
Proof.
  unfold k_ac3_dec_fshort, k_ac3_dec_done. split; [apply ltb_N|]. destruct (ndrop size buf); cbn [nlen]; lia.
Qed.

(* frame types 1, 2: d.fragmentsSize = le; d.fragmentsExpected = size - le   (a Go int that does go negative: Z in the model) *)
Lemma bridge_dec_start (size le : N) : Z.of_N size < i64max -> Z.of_N le < i64max ->
  k_ac3_dec_first (Z.of_N le) = Z.of_N le /\
  k_ac3_dec_exp0 (Z.of_N size) (Z.of_N le) = Z.of_N size - Z.of_N le.
Proof. unfold k_ac3_dec_first, k_ac3_dec_exp0, i64max. intros H1 H2. rewrite ki64_small by lia. split; reflexivity. Qed.

(* frame type 3: d.fragmentsSize += le; d.fragmentsExpected -= le; the < 0 and > 0 tests *)
Lemma bridge_dec_cont (fs le : N) (e : Z) : Z.of_N (fs + le) < i64max -> - i64max <= e - Z.of_N le -> e < i64max ->
  k_ac3_dec_acc (Z.of_N fs) (Z.of_N le) = Z.of_N (fs + le) /\
  k_ac3_dec_exp e (Z.of_N le) = e - Z.of_N le /\
  k_ac3_dec_toobig (k_ac3_dec_exp e (Z.of_N le)) = (e - Z.of_N le <? 0) /\
  k_ac3_dec_more (k_ac3_dec_exp e (Z.of_N le)) = (0 <? e - Z.of_N le).
Proof.
  unfold k_ac3_dec_acc, k_ac3_dec_exp, k_ac3_dec_toobig, k_ac3_dec_more, i64max. intros H1 H2 H3.
  rewrite !ki64_small by lia. rewrite Z.gtb_ltb. repeat split. lia.
Qed.

Theorem caps_kernels_are_the_code (pl buf : bytes) (size fs le : N) (e : Z) :
  Z.of_N size < i64max -> Z.of_N (fs + le) < i64max -> - i64max <= e - Z.of_N le -> e < i64max ->
  k_ac3_dec_short (Z.of_N (nlen pl)) = match pl with _ :: _ :: _ => false | _ => true end /\
  k_ac3_dec_fshort (Z.of_N (nlen buf)) (Z.of_N size) = (nlen buf <? size)%N /\
  k_ac3_dec_done (Z.of_N (nlen (ndrop size buf))) = match ndrop size buf with [] => true | _ :: _ => false end /\
  k_ac3_dec_first (Z.of_N le) = Z.of_N le /\
  k_ac3_dec_exp0 (Z.of_N size) (Z.of_N le) = Z.of_N size - Z.of_N le /\
  k_ac3_dec_acc (Z.of_N fs) (Z.of_N le) = Z.of_N (fs + le) /\
  k_ac3_dec_exp e (Z.of_N le) = e - Z.of_N le /\
  k_ac3_dec_toobig (k_ac3_dec_exp e (Z.of_N le)) = (e - Z.of_N le <? 0) /\
  k_ac3_dec_more (k_ac3_dec_exp e (Z.of_N le)) = (0 <? e - Z.of_N le).
Proof.
  intros H1 H2 H3 H4. destruct (bridge_dec_agg buf size) as (A & B).
  destruct (bridge_dec_start size le H1 ltac:(unfold i64max in *; lia)) as (C & D).
  destruct (bridge_dec_cont fs le e H2 H3 H4) as (E & F & G & H).
  split; [apply bridge_dec_short|]. repeat split; assumption.
Qed.

(* Line-protocol readers equivalent to GVL.Wire.getl / getls and GVL.Rtp.get_pkts, but testing
   "n <= remaining length" by walking n elements instead of measuring the whole remaining line
   (the shared ones are quadratic on cases with thousands of packets).  Executable, proof-free. *)
From GVL Require Import NList Wire Rtp.
Open Scope N_scope.

(* nlen l <? n, walking at most n elements *)
Fixpoint nshort {A} (n : N) (l : list A) : bool :=
  match l with
  | [] => negb (n =? 0)
  | _ :: t => if n =? 0 then false else nshort (N.pred n) t
  end.

Definition fgetl (l : list N) : option (list N * list N) :=
  match l with
  | [] => None
  | n :: t => if nshort n t then None else Some (ntake n t, ndrop n t)
  end.

Fixpoint fgetls_aux (fuel : list N) (k : N) (l : list N) : option (list (list N) * list N) :=
  if k =? 0 then Some ([], l) else
  match fuel with
  | [] => None
  | _ :: fuel' =>
    match fgetl l with
    | None => None
    | Some (x, r) =>
      match fgetls_aux fuel' (N.pred k) r with
      | None => None
      | Some (xs, r') => Some (x :: xs, r')
      end
    end
  end.
Definition fgetls (l : list N) : option (list (list N) * list N) :=
  match l with
  | [] => None
  | k :: t => fgetls_aux l k t
  end.

Definition fget_pkt (l : list N) : option (packet * list N) :=
  match l with
  | s :: t :: m :: r =>
      match fgetl r with
      | Some (pl, r') => Some (mkPkt s t (getb m) pl, r')
      | None => None
      end
  | _ => None
  end.

Fixpoint fget_pkts_aux (fuel : list N) (k : N) (l : list N) : option (list packet * list N) :=
  if k =? 0 then Some ([], l) else
  match fuel with
  | [] => None
  | _ :: fuel' =>
    match fget_pkt l with
    | None => None
    | Some (p, r) =>
      match fget_pkts_aux fuel' (N.pred k) r with
      | None => None
      | Some (ps, r') => Some (p :: ps, r')
      end
    end
  end.
Definition fget_pkts (l : list N) : option (list packet * list N) :=
  match l with
  | [] => None
  | k :: t => fget_pkts_aux l k t
  end.

(* Executable model of pkg/format/rtpac3 (encoder.go, decoder.go; RFC 4184). Proof-free.
   The decoder asks mediacommon's ac3.SyncInfo for the frame size: through the Section variable
   [ac3]; the extracted model instantiates it with [ac3_parse], a re-modelling of
   SyncInfo.Unmarshal/FrameSize (the real code runs in the harness). *)
From GVL Require Import NList Wire Chunks Rtp.
From GVG Require Import Consts.
From GV_ac3 Require Export WireF.
Open Scope N_scope.

Definition spf : N := ac3_samples_per_frame.   (* ac3.SamplesPerFrame *)

(* ---------- the syncinfo parser ---------- *)
Inductive pres := POk (size : N) | PErr | PPanic.

(* ATSC A/52 Table 5.18, 16-bit words per syncframe for fscod 0 (48 kHz), 1 (44.1 kHz), 2 (32 kHz) *)
Definition frame_sizes : list (list N) :=
  [[64;69;96]; [64;70;96]; [80;87;120]; [80;88;120]; [96;104;144]; [96;105;144]; [112;121;168]; [112;122;168];
   [128;139;192]; [128;140;192]; [160;174;240]; [160;175;240]; [192;208;288]; [192;209;288]; [224;243;336]; [224;244;336];
   [256;278;384]; [256;279;384]; [320;348;480]; [320;349;480]; [384;417;576]; [384;418;576]; [448;487;672]; [448;488;672];
   [512;557;768]; [512;558;768]; [640;696;960]; [640;697;960]; [768;835;1152]; [768;836;1152]; [896;975;1344]; [896;976;1344];
   [1024;1114;1536]; [1024;1115;1536]; [1152;1253;1728]; [1152;1254;1728]; [1280;1393;1920]; [1280;1394;1920]].

(* SyncInfo.Unmarshal + FrameSize; the table lookups are checked (PPanic) *)
Definition ac3_parse (buf : bytes) : pres :=
  match buf with
  | b0 :: b1 :: _ :: _ :: b4 :: _ =>
      if negb ((b0 =? 11) && (b1 =? 119)) then PErr else
      let fscod := b4 / 64 in
      if 3 <=? fscod then PErr else
      let frmsizecod := b4 mod 64 in
      if 38 <=? frmsizecod then PErr else
      match nnth frmsizecod frame_sizes with
      | None => PPanic
      | Some row => match nnth fscod row with None => PPanic | Some w => POk (w * 2) end
      end
  | _ => PErr        (* len(frame) < 5 *)
  end.

Section M.
Variable ac3 : bytes -> pres.
Variable max : N.

(* ---------- encoder ---------- *)
Definition len_agg (batch : list bytes) (add : option bytes) : N :=
  2 + nlen (concat batch) + match add with Some a => nlen a | None => 0 end.

Fixpoint batch_loop (frames : list bytes) (batch : list bytes) : list (list bytes) :=
  match frames with
  | [] => [batch]
  | f :: t =>
      if len_agg batch (Some f) <=? max then batch_loop t (batch ++ [f])
      else match batch with
           | [] => batch_loop t [f]
           | _ => batch :: batch_loop t [f]
           end
  end.

(* frame type 0, number of frames (uint8), the frames; marker set *)
Definition write_agg (frames : list bytes) (ts seq : N) : list packet :=
  [mkPkt seq ts true ([0; nlen frames mod 256] ++ concat frames)].

(* frame type (1 or 2 on the first fragment, 3 afterwards), number of fragments (uint8), the piece;
   marker on the last fragment only *)
Fixpoint frag_pkts (seq ts ft pc : N) (cs : list bytes) : list packet :=
  match cs with
  | [] => []
  | p :: t =>
      mkPkt seq ts (match t with [] => true | _ => false end) ([ft; pc mod 256] ++ p)
      :: frag_pkts (seq_next seq) ts 3 pc t
  end.

(* avail = PayloadMaxSize - 4 (sic: the header is 2 bytes); None: avail <= 0 *)
Definition write_frag (frame : bytes) (ts seq : N) : option (list packet) :=
  if max <? 5 then None else
  let avail := max - 4 in
  let cs := chunks avail frame in
  let ft := if nlen frame * 5 / 8 <=? avail then 1 else 2 in
  Some (frag_pkts seq ts ft (nlen cs) cs).

Definition write_batch (batch : list bytes) (ts seq : N) : option (list packet) :=
  match batch with
  | [f] => if len_agg batch None <? max then Some (write_agg batch ts seq) else write_frag f ts seq
  | _ => Some (write_agg batch ts seq)
  end.

(* timestamp += uint32(len(batch)) * SamplesPerFrame, in uint32 *)
Fixpoint enc_batches (bs : list (list bytes)) (ts seq : N) : option (list packet * N) :=
  match bs with
  | [] => Some ([], seq)
  | b :: t =>
      match write_batch b ts seq with
      | None => None
      | Some ps =>
          match enc_batches t ((ts + nlen b * spf) mod 4294967296) (seq_add seq (nlen ps)) with
          | None => None
          | Some (qs, seq') => Some (ps ++ qs, seq')
          end
      end
  end.

Definition enc (seq : N) (frames : list bytes) : option (list packet * N) :=
  enc_batches (batch_loop frames []) 0 seq.

Fixpoint enc_many (seq : N) (fs : list (list bytes)) : option (list (list packet)) :=
  match fs with
  | [] => Some []
  | f :: t =>
      match enc seq f with
      | None => None
      | Some (ps, seq') => option_map (cons ps) (enc_many seq' t)
      end
  end.

(* ---------- decoder ---------- *)
Record dstate := mkD {
  dfirst : bool;        (* firstPacketReceived *)
  dfrags : list bytes;  (* fragments *)
  dsize : N;            (* fragmentsSize *)
  dexp : Z;             (* fragmentsExpected: an int that does go negative *)
  dnext : N }.          (* fragmentNextSeqNum *)
Definition dinit : dstate := mkD false [] 0 0%Z 0.
Definition dreset (d : dstate) : dstate := mkD (dfirst d) [] 0 (dexp d) (dnext d).

(* the loop over the frames of a frame-type-0 packet *)
Inductive ares := ADone (frames : list bytes) | AErr | APanic.
Fixpoint agg_loop (fuel buf : bytes) (frames : list bytes) : ares :=
  match fuel with
  | [] => APanic     (* out of fuel: a frame size of 0 would loop for ever *)
  | _ :: fuel' =>
      match ac3 buf with
      | PPanic => APanic
      | PErr => AErr
      | POk size =>
          if nlen buf <? size then AErr else
          match ndrop size buf with
          | [] => ADone (frames ++ [ntake size buf])
          | buf' => agg_loop fuel' buf' (frames ++ [ntake size buf])
          end
      end
  end.

Fixpoint join_aux (frags : list bytes) (size n : N) (acc : bytes) : option bytes :=
  match frags with
  | [] => Some (acc ++ nrep 0 (size - n))
  | p :: t =>
      if size <? n then None else
      let k := ntake (size - n) p in
      join_aux t size (n + nlen k) (acc ++ k)
  end.
Definition join (frags : list bytes) (size : N) : option bytes := join_aux frags size 0 [].

Definition dec (d : dstate) (p : packet) : dstate * dres (list bytes) :=
  match ppayload p with
  | b0 :: b1 :: rest =>                                   (* rest = pkt.Payload[2:] *)
      if negb (b0 / 4 =? 0) then (dreset d, DErr) else    (* MBZ *)
      let ft := b0 mod 4 in
      if ft =? 0 then
        let d0 := mkD true [] 0 (dexp d) (dnext d) in
        match agg_loop (0 :: rest) rest [] with
        | ADone frames => (d0, DFrame frames)
        | AErr => (d0, DErr)
        | APanic => (d0, DPanic)
        end
      else if ft <=? 2 then
        match ac3 rest with
        | PPanic => (dreset d, DPanic)
        | PErr => (dreset d, DErr)
        | POk size =>
            (mkD true [rest] (nlen rest) (Z.of_N size - Z.of_N (nlen rest))%Z (seq_next (pseq p)), DMore)
        end
      else
        if dsize d =? 0 then (d, DErr) else
        if negb (pseq p =? dnext d) then (dreset d, DErr) else
        let le := nlen rest in
        let exp' := (dexp d - Z.of_N le)%Z in
        if (exp' <? 0)%Z then (dreset d, DErr) else
        let d' := mkD (dfirst d) (dfrags d ++ [rest]) (dsize d + le) exp' (seq_next (dnext d)) in
        if (0 <? exp')%Z then (d', DMore) else
        match join (dfrags d') (dsize d') with
        | Some f => (dreset d', DFrame [f])
        | None => (d', DPanic)
        end
  | _ => (dreset d, DErr)      (* len(pkt.Payload) < 2 *)
  end.

Fixpoint dec_run (d : dstate) (ps : list packet) : dstate * list (dres (list bytes)) :=
  match ps with
  | [] => (d, [])
  | p :: t =>
      let '(d', r) := dec d p in
      match r with
      | DPanic => (d', [r])
      | _ => let '(d'', rs) := dec_run d' t in (d'', r :: rs)
      end
  end.

Definition retained (d : dstate) : N * N := (nlen (concat (dfrags d)), nlen (dfrags d)).

End M.

(* ---------- wire ---------- *)
Definition put_res (r : dres (list bytes)) : list N :=
  match r with
  | DFrame f => 1 :: putls f
  | DMore => [0]
  | DErr => [2]
  | DPanic => [77]
  end.

Fixpoint get_frames (fuel : list N) (k : N) (l : list N) : option (list (list bytes)) :=
  if k =? 0 then Some [] else
  match fuel with
  | [] => None
  | _ :: fuel' =>
    match fgetls l with
    | None => None
    | Some (f, r) => option_map (cons f) (get_frames fuel' (N.pred k) r)
    end
  end.

(* case 1: param max seq nframes {nunits {len bytes}}  -> all packets | 77
   case 2: param npackets {pkt}                        -> per packet result; retained bytes, slices *)
Definition run (cs : list N) : list N :=
  match cs with
  | 1 :: _ :: max :: seq :: k :: t =>
      match get_frames cs k t with
      | Some frames =>
          match enc_many max seq frames with
          | Some pss => put_pkts (concat pss)
          | None => [77]
          end
      | None => bad_case
      end
  | 2 :: _ :: t =>
      match fget_pkts t with
      | Some (ps, _) =>
          let '(d, rs) := dec_run ac3_parse dinit ps in
          concat (map put_res rs) ++ [fst (retained d); snd (retained d)]
      | None => bad_case
      end
  | _ => bad_case
  end.

(* C03, rtpac3 (RFC 4184) — statements only.
   ac3_parse: mediacommon's ac3.SyncInfo.Unmarshal + FrameSize, re-modelled (checked against the real
   code by the harness on every run).  valid_au f: the syncinfo of f parses and announces exactly
   nlen f bytes; valid_frame: a non-empty list of such syncframes.  The smallest workable
   PayloadMaxSize is 9 (the encoder leaves max-4 bytes per fragment and the parser insists on 5 bytes in
   the first one).  The decoder returns frames per packet: "the frame" is the concatenation of the
   per-packet results.  The theorems hold from ANY decoder state d, not only clean ones. *)
From GVL Require Import NList Rtp.
From GV_ac3 Require Import Model Proofs.
Open Scope N_scope.

Theorem C03_ac3_roundtrip : forall max, 9 <= max -> forall seq f d, valid_frame ac3_parse f -> seq < 65536 ->
  exists gs d', enc max seq f = Some (concat gs, seq_add seq (nlen (concat gs))) /\
    dec_run ac3_parse d (concat gs) = (d', expect gs (batch_loop max f [])) /\ ready d' /\
    concat (batch_loop max f []) = f /\ length gs = length (batch_loop max f []).
Proof. exact roundtrip_ac3. Qed.
Print Assumptions C03_ac3_roundtrip.

Theorem C03_ac3_roundtrip_frames : forall max, 9 <= max -> forall seq f d, valid_frame ac3_parse f -> seq < 65536 ->
  exists ps seq' d' rs, enc max seq f = Some (ps, seq') /\ dec_run ac3_parse d ps = (d', rs) /\
    frames_of rs = f /\ Forall progress rs /\ ready d'.
Proof. exact roundtrip_frames_ac3. Qed.
Print Assumptions C03_ac3_roundtrip_frames.

Theorem C03_ac3_roundtrip_seq : forall max, 9 <= max -> forall fs, Forall (valid_frame ac3_parse) fs ->
  forall seq d, seq < 65536 ->
  exists pss d' rs, enc_many max seq fs = Some pss /\ dec_run ac3_parse d (concat pss) = (d', rs) /\
    frames_of rs = concat fs /\ Forall progress rs.
Proof. exact roundtrip_seq_ac3. Qed.
Print Assumptions C03_ac3_roundtrip_seq.

(* the same for ANY syncinfo parser with the stated contract (what the proof uses of mediacommon) *)
Theorem C03_ac3_roundtrip_any_parser : forall (ac3 : list N -> pres) (max : N),
  (forall b, ac3 b <> PPanic) ->
  (forall b sz, ac3 b = POk sz -> 0 < sz) ->
  (forall b sz, ac3 b = POk sz -> 5 <= nlen b) ->
  (forall a b, 5 <= nlen a -> ac3 (a ++ b) = ac3 a) ->
  9 <= max ->
  forall seq f d, valid_frame ac3 f -> seq < 65536 ->
  exists ps seq' d' rs, enc max seq f = Some (ps, seq') /\ dec_run ac3 d ps = (d', rs) /\
    frames_of rs = f /\ Forall progress rs /\ ready d'.
Proof. exact roundtrip_frames. Qed.
Print Assumptions C03_ac3_roundtrip_any_parser.

(* 48 kHz, frmsizecod 0: a 128-byte syncframe (0B 77 . . 00 ...); limit 60: fragments of 56, 56, 16 bytes *)
Example C03_ac3_example :
  let f := [11; 119; 1; 2; 0] ++ repeat 7 123 in
  (match enc 60 65535 [f] with
   | Some (ps, _) => (map pseq ps, map (fun p => ntake 2 (ppayload p)) ps, map pmarker ps, map (fun p => nlen (ppayload p)) ps)
   | None => ([], [], [], [])
   end) = ([65535; 0; 1], [[2; 3]; [3; 3]; [3; 3]], [false; false; true], [58; 58; 18])
  /\ (match enc 60 65535 [f] with Some (ps, _) => snd (dec_run ac3_parse dinit ps) = [DMore; DMore; DFrame [f]] | None => False end)
  /\ valid_frame ac3_parse [f].
Proof.
  cbv zeta. split; [vm_compute; reflexivity|]. split; [vm_compute; reflexivity|].
  split; [discriminate|]. constructor; [|constructor]. vm_compute. reflexivity.
Qed.

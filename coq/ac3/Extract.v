From Coq Require Extraction ExtrOcamlBasic.
From GV_ac3 Require Import Model.
Extraction Language OCaml.
Extraction "model.ml" run.

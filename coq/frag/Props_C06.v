(* C06, rtpfragmented — statements only *)
From GVL Require Import NList Rtp.
From GV_frag Require Import Model Proofs.
Open Scope N_scope.

(* every payload is non-empty and within the limit, the payloads concatenate to the frame, the
   packet count is ceil(len/max), packet i carries sequence number seq+i mod 2^16, the marker is
   set on the last packet and on no other, and the encoder continues at seq+count *)
Theorem C06_frag_packets_wellformed : forall max seq frame, 0 < max -> seq < 65536 ->
  let ps := fst (enc max seq frame) in
  concat (map ppayload ps) = frame /\
  Forall (fun p => 0 < nlen (ppayload p) /\ nlen (ppayload p) <= max) ps /\
  nlen ps = (nlen frame + max - 1) / max /\
  (forall i p, nnth i ps = Some p -> pseq p = seq_add seq i /\ pmarker p = (i + 1 =? nlen ps)) /\
  snd (enc max seq frame) = seq_add seq (nlen ps).
Proof. exact enc_wellformed. Qed.
Print Assumptions C06_frag_packets_wellformed.

(* across any series of Encode calls the sequence numbers increase by one modulo 2^16 *)
Theorem C06_frag_gapless_across_calls : forall max frames, 0 < max -> forall seq i p, seq < 65536 ->
  nnth i (concat (enc_many max seq frames)) = Some p -> pseq p = seq_add seq i.
Proof. exact enc_many_gapless. Qed.
Print Assumptions C06_frag_gapless_across_calls.

Example C06_frag_example :
  map pseq (concat (enc_many 2 65534 [[1;2;3]; [4]; [5;6]])) = [65534; 65535; 0; 1]
  /\ map pmarker (concat (enc_many 2 65534 [[1;2;3]; [4]; [5;6]])) = [false; true; true; true].
Proof. split; reflexivity. Qed.

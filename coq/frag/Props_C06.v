(* C06, rtpfragmented — statements only *)
From GVL Require Import NList Rtp.
From Coq Require Import ZArith.
From GVL Require Import Chunks.
From GVG Require Import Kern.
From GV_frag Require Import Model Proofs Bridge.
Open Scope N_scope.

(* every payload is non-empty and within the limit, the payloads concatenate to the frame, the
   packet count is ceil(len/max), packet i carries sequence number seq+i mod 2^16, the marker is
   set on the last packet and on no other, and the encoder continues at seq+count *)
Theorem C06_frag_packets_wellformed : forall max seq frame, 0 < max -> seq < 65536 ->
  let ps := fst (enc max seq frame) in
  concat (map ppayload ps) = frame /\
  Forall (fun p => 0 < nlen (ppayload p) /\ nlen (ppayload p) <= max) ps /\
  nlen ps = (nlen frame + max - 1) / max /\
  (forall i p, nnth i ps = Some p -> pseq p = seq_add seq i /\ pmarker p = (i + 1 =? nlen ps)) /\
  snd (enc max seq frame) = seq_add seq (nlen ps).
Proof. exact enc_wellformed. Qed.
Print Assumptions C06_frag_packets_wellformed.

(* across any series of Encode calls the sequence numbers increase by one modulo 2^16 *)
Theorem C06_frag_gapless_across_calls : forall max frames, 0 < max -> forall seq i p, seq < 65536 ->
  nnth i (concat (enc_many max seq frames)) = Some p -> pseq p = seq_add seq i.
Proof. exact enc_many_gapless. Qed.
Print Assumptions C06_frag_gapless_across_calls.

Example C06_frag_example :
  map pseq (concat (enc_many 2 65534 [[1;2;3]; [4]; [5;6]])) = [65534; 65535; 0; 1]
  /\ map pmarker (concat (enc_many 2 65534 [[1;2;3]; [4]; [5;6]])) = [false; true; true; true].
Proof. split; reflexivity. Qed.

(* THE TRANSLATED TIE.  GVG.Kern is regenerated from the Go source on every run by tools/go2coq; k_*_packetCount are
   the eight copies of packetCount(avail, le) (pkg/format/rtpfragmented, rtph264, rtph265, rtpac3, rtpmpeg4audio,
   rtpmpeg1video, rtpmpeg1audio and the LPCM encoder's method), with Go's int arithmetic and truncated division made
   explicit.  For every positive payload budget and every frame length below 2^63 each of them returns
   ceil(le / avail), and that is the number of pieces the models' [chunks] cuts a frame into - the packet count
   that C06_*_packets_wellformed speak of. *)
Theorem C06_frag_packet_counts_are_the_code :
  (pc_spec k_frag_packetCount /\ pc_spec k_h264_packetCount /\ pc_spec k_h265_packetCount /\ pc_spec k_ac3_packetCount /\
   pc_spec k_mpeg4audio_packetCount /\ pc_spec k_mpeg1video_packetCount /\ pc_spec k_mpeg1audio_packetCount /\
   pc_spec (fun avail le => k_lpcm_packetCount le avail)) /\
  (forall (f : Z -> Z -> option Z) (n : N) (frame : list N), pc_spec f ->
     0 < n < 9223372036854775808 -> nlen frame < 9223372036854775808 ->
     f (Z.of_N n) (Z.of_N (nlen frame)) = Some (Z.of_N (nlen (chunks n frame)))).
Proof. split; [exact packet_counts_are_the_code|intros f n frame; exact (packet_count_is_chunk_count f n frame)]. Qed.
Print Assumptions C06_frag_packet_counts_are_the_code.

Example C06_frag_example_kernel :
  k_frag_packetCount 1460 1461 = Some 2%Z /\ k_h264_packetCount 1458 1458 = Some 1%Z /\ k_lpcm_packetCount 0 1440 = Some 0%Z /\
  k_frag_packetCount 0 10 = None.
Proof. vm_compute. repeat split. Qed.

(* ---- the remaining translated sites of rtpfragmented/encoder.go (spec.d/frag.txt) ----
   avail := e.PayloadMaxSize, packetCount(avail, len(frame)) = the number of chunks Model.enc cuts, the last-packet
   test and the marker expression i == packetCount-1 (Model.mk_pkts: marker on the last chunk), pos += le,
   e.sequenceNumber++ = seq_next. *)
From GV_frag Require Import BridgeLib BridgeSites.
Open Scope Z_scope.
Theorem C06_frag_kernels_are_the_code : forall (max : N) (frame : bytes) (i pc pos le s : N),
  (0 < max)%N -> Z.of_N max < i64max -> Z.of_N (nlen frame) < i64max -> (1 <= pc)%N -> Z.of_N pc < i64max ->
  Z.of_N (pos + le) < i64max ->
  k_frag_avail (Z.of_N max) = Z.of_N max /\
  k_frag_packetCount (k_frag_avail (Z.of_N max)) (Z.of_N (nlen frame)) = Some (Z.of_N (nlen (chunks max frame))) /\
  k_frag_last (Z.of_N i) (Z.of_N pc) = (i + 1 =? pc)%N /\
  k_frag_marker (Z.of_N i) (Z.of_N pc) = (i + 1 =? pc)%N /\
  k_frag_pos (Z.of_N pos) (Z.of_N le) = Z.of_N (pos + le) /\
  k_frag_seq (Z.of_N s) = Z.of_N (seq_next s).
Proof. exact enc_sites_are_the_code. Qed.
Print Assumptions C06_frag_kernels_are_the_code.

Example C06_frag_example_kernels :
  k_frag_marker 2 3 = true /\ k_frag_marker 1 3 = false /\ k_frag_seq 65535 = 0 /\ k_frag_pos 1450 1450 = 2900 /\
  k_frag_packetCount (k_frag_avail 1450) 1451 = Some 2.
Proof. vm_compute. repeat split. Qed.

(* C07, rtpfragmented — statements only *)
From GVL Require Import NList Rtp.
From GV_frag Require Import Model Proofs.
Open Scope N_scope.

(* After ANY packet history (loss, duplication, reordering, foreign packets: [hist] is arbitrary),
   one intact frame f1 is enough: the next intact frame f2 is returned exactly at its last packet,
   "more" before, and the decoder is clean afterwards.  Sequence numbers s1, s2 are arbitrary, so
   a gap between the two groups (whole frames lost in between) is covered. *)
Theorem C07_frag_resync : forall max hist f1 f2 s1 s2,
  0 < max -> valid_frame f1 -> valid_frame f2 ->
  let d0 := fst (dec_run dinit hist) in
  let d1 := fst (dec_run d0 (fst (enc max s1 f1))) in
  exists d2, dec_run d1 (fst (enc max s2 f2)) =
    (d2, repeat DMore (length (fst (enc max s2 f2)) - 1) ++ [DFrame f2]) /\ clean d2.
Proof. exact resync. Qed.
Print Assumptions C07_frag_resync.

(* never panics, whatever arrives *)
Theorem C07_frag_no_panic : forall hist, ~ In DPanic (snd (dec_run dinit hist)).
Proof. exact total. Qed.
Print Assumptions C07_frag_no_panic.

Example C07_frag_example : (* first packet of a 3-packet frame lost, then an intact frame, then another *)
  snd (dec_run dinit (tl (fst (enc 2 10 [1;2;3;4;5])) ++ fst (enc 2 13 [6;7;8]) ++ fst (enc 2 15 [9;10;11])))
  = [DMore; DFrame [3;4;5]; DMore; DFrame [6;7;8]; DMore; DFrame [9;10;11]].
Proof. reflexivity. Qed.

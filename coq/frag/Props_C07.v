(* C07, rtpfragmented — statements only *)
From GVL Require Import NList Rtp.
From GV_frag Require Import Model Proofs.
Open Scope N_scope.

(* After ANY packet history (loss, duplication, reordering, foreign packets: [hist] is arbitrary),
   one intact frame f1 is enough: the next intact frame f2 is returned exactly at its last packet,
   "more" before, and the decoder is clean afterwards.  Sequence numbers s1, s2 are arbitrary, so
   a gap between the two groups (whole frames lost in between) is covered. *)
Theorem C07_frag_resync : forall max hist f1 f2 s1 s2,
  0 < max -> valid_frame f1 -> valid_frame f2 ->
  let d0 := fst (dec_run dinit hist) in
  let d1 := fst (dec_run d0 (fst (enc max s1 f1))) in
  exists d2, dec_run d1 (fst (enc max s2 f2)) =
    (d2, repeat DMore (length (fst (enc max s2 f2)) - 1) ++ [DFrame f2]) /\ clean d2.
Proof. exact resync. Qed.
Print Assumptions C07_frag_resync.

(* never panics, whatever arrives *)
Theorem C07_frag_no_panic : forall hist, ~ In DPanic (snd (dec_run dinit hist)).
Proof. exact total. Qed.
Print Assumptions C07_frag_no_panic.

Example C07_frag_example : (* first packet of a 3-packet frame lost, then an intact frame, then another *)
  snd (dec_run dinit (tl (fst (enc 2 10 [1;2;3;4;5])) ++ fst (enc 2 13 [6;7;8]) ++ fst (enc 2 15 [9;10;11])))
  = [DMore; DFrame [3;4;5]; DMore; DFrame [6;7;8]; DMore; DFrame [9;10;11]].
Proof. reflexivity. Qed.

(* ---- the translated resynchronisation tests of rtpfragmented/decoder.go (tools/go2coq, spec.d/frag.txt) ----
   d.fragmentsSize == 0, d.fragmentNextSeqNum = pkt.SequenceNumber + 1, pkt.SequenceNumber != d.fragmentNextSeqNum,
   d.fragmentNextSeqNum++ are the tests / updates of Model.dec (uint16 wrap-around = seq_next). *)
From Coq Require Import ZArith.
From GVG Require Import Kern.
From GV_frag Require Import BridgeLib BridgeSites.
Open Scope Z_scope.
Theorem C07_frag_kernels_are_the_code : forall (seq next fs : N), u16 seq -> u16 next ->
  k_frag_dec_nofrag (Z.of_N fs) = (fs =? 0)%N /\
  k_frag_dec_nextseq (Z.of_N seq) = Z.of_N (seq_next seq) /\
  k_frag_dec_gap (Z.of_N seq) (Z.of_N next) = negb (seq =? next)%N /\
  k_frag_dec_incseq (Z.of_N next) = Z.of_N (seq_next next).
Proof. exact resync_sites_are_the_code. Qed.
Print Assumptions C07_frag_kernels_are_the_code.

Example C07_frag_example_kernels :
  k_frag_dec_nextseq 65535 = 0 /\ k_frag_dec_incseq 9 = 10 /\ k_frag_dec_gap 10 10 = false /\ k_frag_dec_gap 11 10 = true /\
  k_frag_dec_nofrag 0 = true.
Proof. vm_compute. repeat split. Qed.

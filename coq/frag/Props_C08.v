(* C08, rtpfragmented — statements only *)
From GVL Require Import NList Rtp.
From GV_frag Require Import Model Proofs.
Open Scope N_scope.

Theorem C08_frag_total : forall hist, ~ In DPanic (snd (dec_run dinit hist)).
Proof. exact total. Qed.
Print Assumptions C08_frag_total.

(* for every history whose packets carry at most P payload bytes: retained bytes and retained
   slice headers stay below max(MaxFrameSize, P), and so does every returned frame *)
Theorem C08_frag_bounded : forall P hist,
  Forall (fun p => nlen (ppayload p) <= P) hist ->
  let '(d, rs) := dec_run dinit hist in
  fst (retained d) <= N.max cap P /\ snd (retained d) <= N.max cap P /\
  forall f, In (DFrame f) rs -> nlen f <= N.max cap P.
Proof. exact bounded. Qed.
Print Assumptions C08_frag_bounded.

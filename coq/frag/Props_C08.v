(* C08, rtpfragmented — statements only *)
From GVL Require Import NList Rtp.
From GV_frag Require Import Model Proofs.
Open Scope N_scope.

Theorem C08_frag_total : forall hist, ~ In DPanic (snd (dec_run dinit hist)).
Proof. exact total. Qed.
Print Assumptions C08_frag_total.

(* for every history whose packets carry at most P payload bytes: retained bytes and retained
   slice headers stay below max(MaxFrameSize, P), and so does every returned frame *)
Theorem C08_frag_bounded : forall P hist,
  Forall (fun p => nlen (ppayload p) <= P) hist ->
  let '(d, rs) := dec_run dinit hist in
  fst (retained d) <= N.max cap P /\ snd (retained d) <= N.max cap P /\
  forall f, In (DFrame f) rs -> nlen f <= N.max cap P.
Proof. exact bounded. Qed.
Print Assumptions C08_frag_bounded.

(* ---- the translated length test, accumulation and cap of rtpfragmented/decoder.go (spec.d/frag.txt) ----
   len(pkt.Payload) == 0, d.fragmentsSize += len(pkt.Payload), d.fragmentsSize > mpeg4video.MaxFrameSize are the tests of
   Model.dec (cap = GVG.Consts.mpeg4video_max_frame). *)
From Coq Require Import ZArith.
From GVG Require Import Kern.
From GV_frag Require Import BridgeLib BridgeSites.
Open Scope Z_scope.
Theorem C08_frag_kernels_are_the_code : forall (pl : bytes) (fs : N), Z.of_N (fs + nlen pl) < i64max ->
  k_frag_dec_empty (Z.of_N (nlen pl)) = (nlen pl =? 0)%N /\
  k_frag_dec_acc (Z.of_N fs) (Z.of_N (nlen pl)) = Z.of_N (fs + nlen pl) /\
  k_frag_dec_cap (k_frag_dec_acc (Z.of_N fs) (Z.of_N (nlen pl))) (Z.of_N cap) = (cap <? fs + nlen pl)%N.
Proof. exact caps_sites_are_the_code. Qed.
Print Assumptions C08_frag_kernels_are_the_code.

Example C08_frag_example_kernels :
  k_frag_dec_cap (k_frag_dec_acc (Z.of_N cap - 5) 5) (Z.of_N cap) = false /\
  k_frag_dec_cap (k_frag_dec_acc (Z.of_N cap - 5) 6) (Z.of_N cap) = true /\ k_frag_dec_empty 0 = true.
Proof. vm_compute. repeat split. Qed.

From Coq Require Extraction ExtrOcamlBasic.
From GV_frag Require Import Model.
Extraction Language OCaml.
Extraction "model.ml" run.

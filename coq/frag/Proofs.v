(* rtpfragmented: round trip (C03), packet well-formedness (C06), resynchronisation (C07),
   totality / boundedness on arbitrary histories (C08). *)
From GVL Require Import NList Wire Chunks Rtp.
From GV_frag Require Import Model.
From Coq Require Import ZifyBool ZifyNat ZifyN.
Open Scope N_scope.
Ltac splits := repeat match goal with |- _ /\ _ => split end.

(* ---------- encoder facts (C06) ---------- *)
Lemma mk_pkts_payloads seq cs : map ppayload (mk_pkts seq cs) = cs.
Proof. revert seq; induction cs as [|c t IH]; intros seq; cbn [mk_pkts map]; [reflexivity|]. now rewrite IH. Qed.

Lemma mk_pkts_len seq cs : nlen (mk_pkts seq cs) = nlen cs.
Proof. revert seq; induction cs as [|c t IH]; intros seq; cbn [mk_pkts nlen]; [reflexivity|]. now rewrite IH. Qed.

Lemma seq_add_next s k : seq_add (seq_next s) k = seq_add s (k + 1).
Proof. unfold seq_add, seq_next. rewrite N.add_mod_idemp_l by lia. f_equal. lia. Qed.

Lemma seq_add_0 s : s < 65536 -> seq_add s 0 = s.
Proof. intros H. unfold seq_add. rewrite N.add_0_r. now apply N.mod_small. Qed.

(* i-th packet carries sequence number seq+i mod 2^16 *)
Lemma mk_pkts_seq cs : forall seq i p, seq < 65536 -> nnth i (mk_pkts seq cs) = Some p -> pseq p = seq_add seq i.
Proof.
  induction cs as [|c t IH]; intros seq i p Hs H; cbn [mk_pkts nnth] in H; [discriminate|].
  destruct (N.eqb_spec i 0) as [->|Hi].
  - injection H as <-. cbn [pseq]. now rewrite seq_add_0.
  - apply IH in H; [|unfold seq_next; apply N.mod_lt; lia]. rewrite H, seq_add_next. f_equal. lia.
Qed.

(* marker exactly on the last packet *)
Lemma mk_pkts_marker cs : forall seq i p, nnth i (mk_pkts seq cs) = Some p ->
  pmarker p = (i + 1 =? nlen cs).
Proof.
  induction cs as [|c t IH]; intros seq i p H; cbn [mk_pkts nnth] in H; [discriminate|].
  destruct (N.eqb_spec i 0) as [->|Hi].
  - injection H as <-. cbn [pmarker nlen]. destruct t; cbn [nlen]; [reflexivity|].
    symmetry. apply N.eqb_neq. lia.
  - apply IH in H. rewrite H. cbn [nlen].
    destruct (N.eqb_spec (N.pred i + 1) (nlen t)); destruct (N.eqb_spec (i + 1) (N.succ (nlen t))); try reflexivity; lia.
Qed.

Theorem enc_wellformed max seq frame : 0 < max -> seq < 65536 ->
  let ps := fst (enc max seq frame) in
  concat (map ppayload ps) = frame /\
  Forall (fun p => 0 < nlen (ppayload p) /\ nlen (ppayload p) <= max) ps /\
  nlen ps = (nlen frame + max - 1) / max /\
  (forall i p, nnth i ps = Some p -> pseq p = seq_add seq i /\ pmarker p = (i + 1 =? nlen ps)) /\
  snd (enc max seq frame) = seq_add seq (nlen ps).
Proof.
  intros Hm Hs. unfold enc; cbn [fst snd]. splits.
  - rewrite mk_pkts_payloads. now apply chunks_concat.
  - pose proof (chunks_bounds max frame Hm) as Hb. rewrite <- (mk_pkts_payloads seq) in Hb.
    rewrite Forall_map in Hb. exact Hb.
  - rewrite mk_pkts_len. now apply chunks_count.
  - intros i p H. split.
    + eapply mk_pkts_seq; eassumption.
    + rewrite mk_pkts_len. eapply mk_pkts_marker; eassumption.
  - now rewrite mk_pkts_len.
Qed.

(* sequence numbers continue across calls *)
Lemma seq_add_add s a b : seq_add (seq_add s a) b = seq_add s (a + b).
Proof. unfold seq_add. rewrite N.add_mod_idemp_l by lia. f_equal. lia. Qed.

Lemma seq_add_lt s k : seq_add s k < 65536.
Proof. unfold seq_add. apply N.mod_lt. lia. Qed.

Lemma nnth_app_l {A} (l1 l2 : list A) i : i < nlen l1 -> nnth i (l1 ++ l2) = nnth i l1.
Proof.
  revert i; induction l1 as [|x t IH]; intros i H; cbn [nlen app nnth] in *; [lia|].
  destruct (N.eqb_spec i 0); [reflexivity|]. apply IH. lia.
Qed.
Lemma nnth_app_r {A} (l1 l2 : list A) i : nlen l1 <= i -> nnth i (l1 ++ l2) = nnth (i - nlen l1) l2.
Proof.
  revert i; induction l1 as [|x t IH]; intros i H; cbn [nlen app nnth] in *; [f_equal; lia|].
  destruct (N.eqb_spec i 0); [lia|]. rewrite IH by lia. f_equal. lia.
Qed.

Theorem enc_many_gapless max frames : 0 < max -> forall seq i p, seq < 65536 ->
  nnth i (concat (enc_many max seq frames)) = Some p -> pseq p = seq_add seq i.
Proof.
  intros Hm. induction frames as [|f t IH]; intros seq i p Hs H; cbn [enc_many] in H.
  - cbn in H. discriminate.
  - destruct (enc max seq f) as [ps seq'] eqn:E. cbn [concat] in H.
    pose proof (enc_wellformed max seq f Hm Hs) as W. rewrite E in W. cbn [fst snd] in W.
    destruct W as (_ & _ & _ & Hi & Hseq').
    destruct (N.ltb_spec i (nlen ps)) as [Hlt|Hge].
    + rewrite nnth_app_l in H by assumption. now apply Hi in H.
    + rewrite nnth_app_r in H by assumption. apply IH in H.
      * rewrite H, Hseq', seq_add_add. f_equal. lia.
      * rewrite Hseq'. apply seq_add_lt.
Qed.

(* ---------- decoder invariant (holds after any history) ---------- *)
Definition Inv (d : dstate) : Prop :=
  dsize d = nlen (concat (dfrags d)) /\ (dsize d = 0 -> dfrags d = []) /\
  Forall (fun f => 0 < nlen f) (dfrags d).
Definition clean (d : dstate) : Prop := dsize d = 0 /\ dfrags d = [].

Lemma inv_init : Inv dinit.
Proof. unfold Inv, dinit; cbn. splits; auto. Qed.

Lemma inv_reset d : Inv (dreset d).
Proof. unfold Inv, dreset; cbn. splits; auto. Qed.
Lemma clean_reset d : clean (dreset d).
Proof. split; reflexivity. Qed.
Lemma clean_inv d : clean d -> Inv d.
Proof. intros [H1 H2]. unfold Inv. rewrite H1, H2. cbn. splits; auto. Qed.

(* join is exact (and does not panic) when size is the total length *)
Lemma join_aux_exact frags : forall size n acc,
  n = nlen acc -> size = n + nlen (concat frags) -> join_aux frags size n acc = Some (acc ++ concat frags).
Proof.
  induction frags as [|p t IH]; intros size n acc Hn Hs; cbn [join_aux concat] in *.
  - cbn [nlen] in Hs. replace (size - n) with 0 by lia. cbn [nrep]. reflexivity.
  - rewrite nlen_app in Hs. destruct (N.ltb_spec size n); [lia|].
    rewrite ntake_all by lia. rewrite IH; [now rewrite <- app_assoc| rewrite nlen_app; lia | lia].
Qed.
Lemma join_exact frags : join frags (nlen (concat frags)) = Some (concat frags).
Proof. unfold join. now rewrite join_aux_exact with (acc := []). Qed.

Lemma concat_snoc {A} (l : list (list A)) x : concat (l ++ [x]) = concat l ++ x.
Proof. rewrite concat_app. cbn. now rewrite app_nil_r. Qed.

Lemma dec_inv d p : Inv d -> Inv (fst (dec d p)) /\ snd (dec d p) <> DPanic.
Proof.
  intros (Hs & Hz & Hne). unfold dec.
  destruct (N.eqb_spec (nlen (ppayload p)) 0) as [He|He]; cbn [fst snd]; [split; [unfold Inv; splits; assumption|discriminate]|].
  destruct (N.eqb_spec (dsize d) 0) as [Hd|Hd].
  - destruct (pmarker p); cbn [fst snd]; [split; [unfold Inv; splits; assumption|discriminate]|].
    split; [|discriminate]. unfold Inv; cbn [dsize dfrags]. rewrite (Hz Hd). cbn [app concat].
    splits; [now rewrite app_nil_r| lia |]. constructor; [lia|constructor].
  - destruct (pseq p =? dnext d); cbn [negb fst snd]; [|split; [apply inv_reset|discriminate]].
    destruct (cap <? dsize d + nlen (ppayload p)); cbn [fst snd]; [split; [apply inv_reset|discriminate]|].
    assert (HI : Inv (mkD (dfrags d ++ [ppayload p]) (dsize d + nlen (ppayload p)) (seq_next (dnext d)))).
    { unfold Inv; cbn [dsize dfrags]. rewrite concat_snoc, nlen_app. splits; [lia|lia|].
      apply Forall_app. split; [assumption|]. constructor; [lia|constructor]. }
    destruct (pmarker p); cbn [negb fst snd]; [|split; [exact HI|discriminate]].
    cbn [dfrags]. replace (dsize d + nlen (ppayload p)) with (nlen (concat (dfrags d ++ [ppayload p])))
      by (rewrite concat_snoc, nlen_app; lia).
    rewrite join_exact. cbn [fst snd]. split; [apply inv_reset|discriminate].
Qed.

Lemma dec_run_inv ps : forall d, Inv d ->
  Inv (fst (dec_run d ps)) /\ ~ In DPanic (snd (dec_run d ps)).
Proof.
  induction ps as [|p t IH]; intros d HI; cbn [dec_run]; [cbn; tauto|].
  destruct (dec_inv d p HI) as [HI' Hnp]. destruct (dec d p) as [d' r] eqn:E. cbn [fst snd] in *.
  destruct (IH d' HI') as [HI'' Hnp']. destruct (dec_run d' t) as [d'' rs]. cbn [fst snd] in *.
  split; [assumption|]. intros [H|H]; [congruence|contradiction].
Qed.

(* ---------- round trip (C03) ---------- *)
(* decoding the remaining packets of a frame whose first pieces are already accumulated *)
Lemma dec_rest cs : forall d seq,
  cs <> [] -> Forall (fun c => 0 < nlen c) cs ->
  Inv d -> 0 < dsize d -> dnext d = seq ->
  dsize d + nlen (concat cs) <= cap ->
  exists d', dec_run d (mk_pkts seq cs) =
    (d', repeat DMore (length cs - 1) ++ [DFrame (concat (dfrags d) ++ concat cs)]) /\ clean d'.
Proof.
  induction cs as [|c t IH]; intros d seq Hne Hpos HI Hsz Hnext Hcap; [contradiction|].
  inversion Hpos as [|? ? Hc Hpos']; subst.
  cbn [mk_pkts dec_run]. unfold dec at 1. cbn [ppayload pseq pmarker].
  destruct (N.eqb_spec (nlen c) 0); [lia|].
  destruct (N.eqb_spec (dsize d) 0); [lia|].
  rewrite N.eqb_refl. cbn [negb].
  cbn [concat] in Hcap. rewrite nlen_app in Hcap.
  destruct (N.ltb_spec cap (dsize d + nlen c)); [lia|].
  destruct HI as (Hs & Hz & Hfr).
  destruct t as [|c2 t2].
  - (* last piece: marker *)
    cbn [negb dfrags]. replace (dsize d + nlen c) with (nlen (concat (dfrags d ++ [c])))
      by (rewrite concat_snoc, nlen_app; lia).
    rewrite join_exact. cbn [mk_pkts dec_run length Nat.sub repeat app concat].
    eexists. split; [|apply clean_reset]. rewrite concat_snoc, app_nil_r. reflexivity.
  - cbn [negb].
    set (d1 := mkD (dfrags d ++ [c]) (dsize d + nlen c) (seq_next (dnext d))).
    destruct (IH d1 (seq_next (dnext d))) as (d' & Hrun & Hcl).
    + discriminate.
    + assumption.
    + unfold Inv, d1; cbn [dsize dfrags]. rewrite concat_snoc, nlen_app. splits; [lia|lia|].
      apply Forall_app. split; [assumption|]. constructor; [lia|constructor].
    + unfold d1; cbn [dsize]. lia.
    + reflexivity.
    + unfold d1; cbn [dsize]. lia.
    + rewrite Hrun. eexists. split; [|exact Hcl].
      unfold d1; cbn [dfrags]. rewrite concat_snoc, <- app_assoc.
      cbn [length Nat.sub]. rewrite Nat.sub_0_r. cbn [concat]. reflexivity.
Qed.

Definition valid_frame (f : bytes) : Prop := f <> [] /\ nlen f <= cap.

Lemma dec_group cs : forall d seq,
  cs <> [] -> Forall (fun c => 0 < nlen c) cs -> clean d -> nlen (concat cs) <= cap ->
  exists d', dec_run d (mk_pkts seq cs) =
    (d', repeat DMore (length cs - 1) ++ [DFrame (concat cs)]) /\ clean d'.
Proof.
  intros d seq Hne Hpos [Hcs Hcf] Hcap. destruct cs as [|c t]; [contradiction|].
  inversion Hpos as [|? ? Hc Hpos']; subst.
  cbn [mk_pkts dec_run]. unfold dec at 1. cbn [ppayload pseq pmarker].
  destruct (N.eqb_spec (nlen c) 0); [lia|]. rewrite Hcs. cbn [N.eqb].
  destruct t as [|c2 t2].
  - cbn [mk_pkts dec_run length Nat.sub repeat app concat]. rewrite app_nil_r.
    eexists. split; [reflexivity|]. split; assumption.
  - set (d1 := mkD (dfrags d ++ [c]) (nlen c) (seq_next seq)).
    cbn [concat] in Hcap. rewrite nlen_app in Hcap.
    destruct (dec_rest (c2 :: t2) d1 (seq_next seq)) as (d' & Hrun & Hcl).
    + discriminate.
    + assumption.
    + unfold Inv, d1; cbn [dsize dfrags]. rewrite Hcf. cbn [app concat]. rewrite app_nil_r.
      splits; [reflexivity|lia|]. constructor; [lia|constructor].
    + unfold d1; cbn [dsize]. lia.
    + reflexivity.
    + unfold d1; cbn [dsize concat]. lia.
    + rewrite Hrun. eexists. split; [|exact Hcl].
      unfold d1; cbn [dfrags]. rewrite Hcf. cbn [app concat length Nat.sub]. rewrite app_nil_r, Nat.sub_0_r.
      reflexivity.
Qed.

Lemma chunks_ne {A} n (l : list A) : 0 < n -> l <> [] -> chunks n l <> [].
Proof. intros Hn Hl. rewrite chunks_cons by assumption. discriminate. Qed.

Theorem roundtrip max seq frame d :
  0 < max -> valid_frame frame -> clean d ->
  exists d', dec_run d (fst (enc max seq frame)) =
    (d', repeat DMore (length (fst (enc max seq frame)) - 1) ++ [DFrame frame]) /\ clean d'.
Proof.
  intros Hm [Hne Hcap] Hcl. unfold enc; cbn [fst].
  pose proof (chunks_concat max frame Hm) as Hcc.
  destruct (dec_group (chunks max frame) d seq) as (d' & Hrun & Hcl').
  - now apply chunks_ne.
  - eapply Forall_impl; [|apply chunks_bounds; assumption]. cbn. tauto.
  - assumption.
  - now rewrite Hcc.
  - exists d'. split; [|assumption]. rewrite Hrun, Hcc.
    replace (length (mk_pkts seq (chunks max frame))) with (length (chunks max frame)); [reflexivity|].
    pose proof (mk_pkts_len seq (chunks max frame)) as HL. rewrite !nlen_length in HL. lia.
Qed.

(* consecutive frames through the same encoder/decoder pair *)
Fixpoint expect (pss : list (list packet)) (frames : list bytes) : list (dres bytes) :=
  match pss, frames with
  | ps :: pt, f :: ft => repeat DMore (length ps - 1) ++ [DFrame f] ++ expect pt ft
  | _, _ => []
  end.

Lemma dec_run_app ps1 ps2 d :
  dec_run d (ps1 ++ ps2) =
  let '(d1, r1) := dec_run d ps1 in let '(d2, r2) := dec_run d1 ps2 in (d2, r1 ++ r2).
Proof.
  revert d; induction ps1 as [|p t IH]; intros d; cbn [app dec_run].
  - destruct (dec_run d ps2); reflexivity.
  - destruct (dec d p) as [d' r]. rewrite IH. destruct (dec_run d' t) as [d1 r1].
    destruct (dec_run d1 ps2) as [d2 r2]. reflexivity.
Qed.

Theorem roundtrip_seq max frames : 0 < max -> Forall valid_frame frames -> forall seq d, clean d ->
  exists d', dec_run d (concat (enc_many max seq frames)) =
    (d', expect (enc_many max seq frames) frames) /\ clean d'.
Proof.
  intros Hm. induction frames as [|f t IH]; intros Hv seq d Hcl.
  - cbn. exists d. split; [reflexivity|assumption].
  - inversion Hv as [|? ? Hf Ht]; subst. cbn [enc_many].
    destruct (roundtrip max seq f d Hm Hf Hcl) as (d1 & Hr1 & Hc1).
    destruct (enc max seq f) as [ps seq'] eqn:E. cbn [fst] in Hr1. cbn [concat expect].
    rewrite dec_run_app, Hr1.
    destruct (IH Ht seq' d1 Hc1) as (d2 & Hr2 & Hc2). rewrite Hr2.
    exists d2. split; [|assumption]. now rewrite <- app_assoc.
Qed.

(* ---------- resynchronisation (C07) ---------- *)
(* a marker packet with a non-empty payload leaves the decoder clean, whatever its state *)
Lemma marker_cleans d p : Inv d -> pmarker p = true -> 0 < nlen (ppayload p) -> clean (fst (dec d p)).
Proof.
  intros HI Hm Hp. pose proof (dec_inv d p HI) as [_ Hnp]. unfold dec in *. rewrite Hm in *.
  destruct (N.eqb_spec (nlen (ppayload p)) 0); [lia|].
  destruct (N.eqb_spec (dsize d) 0) as [Hd|Hd]; cbn [fst].
  - destruct HI as (_ & Hz & _). split; [assumption|auto].
  - destruct (pseq p =? dnext d); cbn [negb fst]; [|apply clean_reset].
    destruct (cap <? dsize d + nlen (ppayload p)); cbn [fst]; [apply clean_reset|].
    cbn [negb] in *. destruct (join _ _); cbn [fst snd] in *; [apply clean_reset|congruence].
Qed.

(* an intact group (the packets of one valid frame, in order) absorbs any earlier damage *)
Lemma absorb cs : forall d seq, cs <> [] -> Forall (fun c => 0 < nlen c) cs -> Inv d ->
  clean (fst (dec_run d (mk_pkts seq cs))).
Proof.
  induction cs as [|c t IH]; intros d seq Hne Hpos HI; [contradiction|].
  inversion Hpos as [|? ? Hc Hpos']; subst. cbn [mk_pkts dec_run].
  destruct t as [|c2 t2].
  - pose proof (marker_cleans d (mkPkt seq 0 true c) HI eq_refl Hc) as Hcl.
    destruct (dec d _) as [d' r]. cbn [mk_pkts dec_run fst] in *. exact Hcl.
  - pose proof (dec_inv d (mkPkt seq 0 false c) HI) as [HI' _].
    destruct (dec d _) as [d' r]. cbn [fst] in HI'.
    specialize (IH d' (seq_next seq)). 
    destruct (dec_run d' (mk_pkts (seq_next seq) (c2 :: t2))) as [d'' rs] eqn:E. cbn [fst] in *.
    apply IH; [discriminate|assumption|assumption].
Qed.

Theorem resync max hist f1 f2 s1 s2 :
  0 < max -> valid_frame f1 -> valid_frame f2 ->
  let d0 := fst (dec_run dinit hist) in                       (* arbitrary earlier history *)
  let d1 := fst (dec_run d0 (fst (enc max s1 f1))) in         (* an intact frame *)
  exists d2, dec_run d1 (fst (enc max s2 f2)) =
    (d2, repeat DMore (length (fst (enc max s2 f2)) - 1) ++ [DFrame f2]) /\ clean d2.
Proof.
  intros Hm Hv1 Hv2 d0 d1. apply roundtrip; try assumption.
  unfold d1, enc; cbn [fst]. apply absorb.
  - apply chunks_ne; [assumption|apply Hv1].
  - eapply Forall_impl; [|apply chunks_bounds; assumption]. cbn. tauto.
  - unfold d0. apply (dec_run_inv hist dinit inv_init).
Qed.

(* ---------- arbitrary histories (C08) ---------- *)
Theorem total hist : ~ In DPanic (snd (dec_run dinit hist)).
Proof. apply (dec_run_inv hist dinit inv_init). Qed.

Definition BInv (P : N) (d : dstate) : Prop :=
  Inv d /\ dsize d <= N.max cap P.

Lemma dec_bounded P d p : BInv P d -> nlen (ppayload p) <= P ->
  BInv P (fst (dec d p)) /\
  (forall f, snd (dec d p) = DFrame f -> nlen f <= N.max cap P).
Proof.
  intros [HI Hb] Hp. pose proof (dec_inv d p HI) as [HI' _]. split; [split; [assumption|]|].
  - unfold dec. destruct (nlen (ppayload p) =? 0); cbn [fst]; [assumption|].
    destruct (dsize d =? 0).
    + destruct (pmarker p); cbn [fst dsize dreset]; [assumption|lia].
    + destruct (pseq p =? dnext d); cbn [negb fst dsize dreset]; [|lia].
      destruct (N.ltb_spec cap (dsize d + nlen (ppayload p))); cbn [fst dsize dreset]; [lia|].
      destruct (pmarker p); cbn [negb fst dsize dreset]; [|lia].
      destruct (join _ _); cbn [fst dsize dreset]; lia.
  - intros f Hf. unfold dec in Hf. destruct (nlen (ppayload p) =? 0); cbn [snd] in Hf; [discriminate|].
    destruct (dsize d =? 0).
    + destruct (pmarker p); cbn [snd] in Hf; [|discriminate]. injection Hf as <-. lia.
    + destruct (pseq p =? dnext d); cbn [negb snd] in Hf; [|discriminate].
      destruct (N.ltb_spec cap (dsize d + nlen (ppayload p))) as [|Hle]; cbn [snd] in Hf; [discriminate|].
      destruct (pmarker p); cbn [negb snd] in Hf; [|discriminate].
      cbn [dfrags] in Hf. destruct HI as (Hs & _ & _).
      replace (dsize d + nlen (ppayload p)) with (nlen (concat (dfrags d ++ [ppayload p]))) in Hf
        by (rewrite concat_snoc, nlen_app; lia).
      rewrite join_exact in Hf. cbn [snd] in Hf. injection Hf as <-.
      rewrite concat_snoc, nlen_app. lia.
Qed.

Lemma nlen_concat_ge {A} (l : list (list A)) : Forall (fun f => 0 < nlen f) l -> nlen l <= nlen (concat l).
Proof.
  induction 1 as [|x t Hx Ht IH]; cbn [nlen concat]; [lia|]. rewrite nlen_app. lia.
Qed.

Theorem bounded P hist :
  Forall (fun p => nlen (ppayload p) <= P) hist ->
  let '(d, rs) := dec_run dinit hist in
  fst (retained d) <= N.max cap P /\ snd (retained d) <= N.max cap P /\
  forall f, In (DFrame f) rs -> nlen f <= N.max cap P.
Proof.
  assert (G : forall hist d, BInv P d -> Forall (fun p => nlen (ppayload p) <= P) hist ->
    BInv P (fst (dec_run d hist)) /\ forall f, In (DFrame f) (snd (dec_run d hist)) -> nlen f <= N.max cap P).
  { clear hist. induction hist as [|p t IH]; intros d HB HF; cbn [dec_run]; [cbn; tauto|].
    inversion HF as [|? ? Hp Ht]; subst.
    destruct (dec_bounded P d p HB Hp) as [HB' Hfr]. destruct (dec d p) as [d' r]. cbn [fst snd] in *.
    destruct (IH d' HB' Ht) as [HB'' Hfr']. destruct (dec_run d' t) as [d'' rs]. cbn [fst snd] in *.
    split; [assumption|]. intros f [H|H]; [apply Hfr; assumption|apply Hfr'; assumption]. }
  intros HF. specialize (G hist dinit). destruct (dec_run dinit hist) as [d rs]. cbn [fst snd] in G.
  destruct G as [[(Hs & Hz & Hne) Hb] Hfr]; [split; [apply inv_init|cbn; lia]|assumption|].
  unfold retained; cbn [fst snd]. splits; [lia| |assumption].
  pose proof (nlen_concat_ge (dfrags d) Hne). lia.
Qed.

(* Executable model of pkg/format/rtpfragmented (encoder.go, decoder.go). Proof-free. *)
From GVL Require Import NList Wire Chunks Rtp.
From GVG Require Import Consts.
Open Scope N_scope.

Definition cap : N := mpeg4video_max_frame.   (* mpeg4video.MaxFrameSize, regenerated from the source *)

(* ---- encoder ---- *)
Fixpoint mk_pkts (seq : N) (cs : list bytes) : list packet :=
  match cs with
  | [] => []
  | c :: t => mkPkt seq 0 (match t with [] => true | _ => false end) c :: mk_pkts (seq_next seq) t
  end.

(* Encode: packetCount = ceil(len/avail), every piece [avail] long but the last, marker on the last *)
Definition enc (max seq : N) (frame : bytes) : list packet * N :=
  let cs := chunks max frame in (mk_pkts seq cs, seq_add seq (nlen cs)).

Fixpoint enc_many (max seq : N) (frames : list bytes) : list (list packet) :=
  match frames with
  | [] => []
  | f :: t => let '(ps, seq') := enc max seq f in ps :: enc_many max seq' t
  end.

(* ---- decoder ---- *)
Record dstate := mkD { dfrags : list bytes; dsize : N; dnext : N }.
Definition dinit : dstate := mkD [] 0 0.
Definition dreset (d : dstate) : dstate := mkD [] 0 (dnext d).

(* joinFragments: ret := make([]byte, size); n += copy(ret[n:], p).  ret[n:] panics if n > size;
   copy silently truncates.  Returns None for the panic. *)
Fixpoint join_aux (frags : list bytes) (size n : N) (acc : bytes) : option bytes :=
  match frags with
  | [] => Some (acc ++ nrep 0 (size - n))
  | p :: t =>
      if size <? n then None else
      let c := ntake (size - n) p in
      join_aux t size (n + nlen c) (acc ++ c)
  end.
Definition join (frags : list bytes) (size : N) : option bytes := join_aux frags size 0 [].

Definition dec (d : dstate) (p : packet) : dstate * dres bytes :=
  if nlen (ppayload p) =? 0 then (d, DErr) else
  if dsize d =? 0 then
    if pmarker p then (d, DFrame (ppayload p))
    else (mkD (dfrags d ++ [ppayload p]) (nlen (ppayload p)) (seq_next (pseq p)), DMore)
  else
    if negb (pseq p =? dnext d) then (dreset d, DErr) else
    let size' := dsize d + nlen (ppayload p) in
    if cap <? size' then (dreset d, DErr) else
    let d' := mkD (dfrags d ++ [ppayload p]) size' (seq_next (dnext d)) in
    if negb (pmarker p) then (d', DMore) else
    match join (dfrags d') size' with
    | Some f => (dreset d', DFrame f)
    | None => (d', DPanic)
    end.

Fixpoint dec_run (d : dstate) (ps : list packet) : dstate * list (dres bytes) :=
  match ps with
  | [] => (d, [])
  | p :: t => let '(d', r) := dec d p in let '(d'', rs) := dec_run d' t in (d'', r :: rs)
  end.

(* what the decoder retains: logical bytes and slice headers *)
Definition retained (d : dstate) : N * N := (nlen (concat (dfrags d)), nlen (dfrags d)).

(* ---- wire ---- *)
Definition put_res (r : dres bytes) : list N :=
  match r with
  | DFrame f => 1 :: 1 :: putl f
  | DMore => [0]
  | DErr => [2]
  | DPanic => [77]
  end.

Fixpoint get_frames (fuel : list N) (k : N) (l : list N) : option (list bytes) :=
  if k =? 0 then Some [] else
  match fuel with
  | [] => None
  | _ :: fuel' =>
    match getl l with
    | None => None
    | Some (f, r) => option_map (cons f) (get_frames fuel' (N.pred k) r)
    end
  end.

(* frames on the wire are unit lists; this format has exactly one unit per frame *)
Fixpoint get_uframes (fuel : list N) (k : N) (l : list N) : option (list bytes) :=
  if k =? 0 then Some [] else
  match fuel with
  | [] => None
  | _ :: fuel' =>
    match l with
    | 1 :: r0 =>
      match getl r0 with
      | None => None
      | Some (f, r) => option_map (cons f) (get_uframes fuel' (N.pred k) r)
      end
    | _ => None
    end
  end.

(* case 1: param max seq nframes {1 len bytes}  -> all packets of all frames (put_pkts)
   case 2: param npackets {pkt}                 -> per packet result; then retained bytes, slices *)
Definition run (c : list N) : list N :=
  match c with
  | 1 :: _ :: max :: seq :: k :: t =>
      match get_uframes c k t with
      | Some frames => if max =? 0 then [77] else put_pkts (concat (enc_many max seq frames))
      | None => bad_case
      end
  | 2 :: _ :: t =>
      match get_pkts t with
      | Some (ps, _) =>
          let '(d, rs) := dec_run dinit ps in
          concat (map put_res rs) ++ [fst (retained d); snd (retained d)]
      | None => bad_case
      end
  | _ => bad_case
  end.

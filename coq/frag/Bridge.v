(* BRIDGE: packetCount(avail, le) of the eight fragmenting encoders, as TRANSLATED from the Go source on this run
   (GVG.Kern, tools/go2coq), is the number of pieces GVL.Chunks.chunks cuts a frame into - the function every codec
   model (frag, h264, h265, ac3, mpeg4audio, mpeg1video, mpeg1audio, lpcm) fragments with. *)
From Coq Require Import ZArith NArith List Lia Bool.
From Coq Require Import ZifyBool ZifyN.
From GVL Require Import NList Wrap Chunks.
From GVG Require Import Kern.
Open Scope Z_scope.

Definition pc_spec (f : Z -> Z -> option Z) : Prop :=
  forall a le, 0 < a < 9223372036854775808 -> 0 <= le < 9223372036854775808 ->
  f a le = Some ((le + a - 1) / a).

Lemma ki64_small x : -9223372036854775808 <= x < 9223372036854775808 -> ki64 x = x.
Proof. unfold ki64, s64, w64. intros H. destruct (x mod 18446744073709551616 <? 9223372036854775808) eqn:E; lia. Qed.

Lemma ceil_div a le : 0 < a -> 0 <= le ->
  (le + a - 1) / a = le / a + (if le mod a =? 0 then 0 else 1).
Proof.
  intros Ha Hl. pose proof (Z.div_mod le a ltac:(lia)) as E. pose proof (Z.mod_pos_bound le a Ha) as Hr.
  destruct (Z.eqb_spec (le mod a) 0) as [E0|E0].
  - symmetry. apply Z.div_unique with (r := a - 1); [lia|]. rewrite E0 in E. lia.
  - symmetry. apply Z.div_unique with (r := le mod a - 1); [lia|]. lia.
Qed.

Lemma pc_generic a le : 0 < a < 9223372036854775808 -> 0 <= le < 9223372036854775808 ->
  (if a =? 0 then None else
   let n := ki64 (Z.quot le a) in
   if negb (ki64 (Z.rem le a) =? 0) then let n := ki64 (n + 1) in Some n else Some n)
  = Some ((le + a - 1) / a).
Proof.
  intros Ha Hl. destruct (Z.eqb_spec a 0) as [->|_]; [lia|]. cbv zeta.
  rewrite Z.quot_div_nonneg, Z.rem_mod_nonneg by lia.
  pose proof (Z.mod_pos_bound le a ltac:(lia)) as Hr.
  assert (Hq : 0 <= le / a <= le) by (split; [apply Z.div_pos; lia|apply Z.div_le_upper_bound; nia]).
  rewrite (ki64_small (le / a)), (ki64_small (le mod a)) by lia.
  rewrite ceil_div by lia. destruct (Z.eqb_spec (le mod a) 0); cbn [negb]; [f_equal; lia|].
  rewrite ki64_small by lia. reflexivity.
Qed.

Theorem packet_counts_are_the_code :
  pc_spec k_frag_packetCount /\ pc_spec k_h264_packetCount /\ pc_spec k_h265_packetCount /\ pc_spec k_ac3_packetCount /\
  pc_spec k_mpeg4audio_packetCount /\ pc_spec k_mpeg1video_packetCount /\ pc_spec k_mpeg1audio_packetCount /\
  pc_spec (fun avail le => k_lpcm_packetCount le avail).   (* (e *Encoder).packetCount(slen): avail = e.maxPayloadSize *)
Proof. repeat split; intros a le Ha Hl; exact (pc_generic a le Ha Hl). Qed.

(* ... and that is the number of chunks *)
Theorem packet_count_is_chunk_count {A} (f : Z -> Z -> option Z) (n : N) (l : list A) :
  pc_spec f -> (0 < n < 9223372036854775808)%N -> (nlen l < 9223372036854775808)%N ->
  f (Z.of_N n) (Z.of_N (nlen l)) = Some (Z.of_N (nlen (chunks n l))).
Proof.
  intros Hf Hn Hl. rewrite Hf by lia. f_equal. rewrite chunks_count by lia.
  rewrite N2Z.inj_div, N2Z.inj_sub, N2Z.inj_add by lia. reflexivity.
Qed.

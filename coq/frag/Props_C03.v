(* C03, rtpfragmented — statements only *)
From GVL Require Import NList Rtp.
From GV_frag Require Import Model Proofs.
Open Scope N_scope.

(* one frame: every packet but the last says "more", the last returns exactly the frame, and the
   decoder is clean again; for every payload limit >= 1, every initial sequence number, every
   non-empty frame of at most MaxFrameSize bytes, from every clean decoder state *)
Theorem C03_frag_roundtrip : forall max seq frame d,
  0 < max -> valid_frame frame -> clean d ->
  exists d', dec_run d (fst (enc max seq frame)) =
    (d', repeat DMore (length (fst (enc max seq frame)) - 1) ++ [DFrame frame]) /\ clean d'.
Proof. exact roundtrip. Qed.
Print Assumptions C03_frag_roundtrip.

(* consecutive frames through one encoder/decoder pair *)
Theorem C03_frag_roundtrip_seq : forall max frames,
  0 < max -> Forall valid_frame frames -> forall seq d, clean d ->
  exists d', dec_run d (concat (enc_many max seq frames)) =
    (d', expect (enc_many max seq frames) frames) /\ clean d'.
Proof. exact roundtrip_seq. Qed.
Print Assumptions C03_frag_roundtrip_seq.

Example C03_frag_example :
  snd (dec_run dinit (fst (enc 3 65535 [1;2;3;4;5;6;7]))) = [DMore; DMore; DFrame [1;2;3;4;5;6;7]]
  /\ valid_frame [1;2;3;4;5;6;7].
Proof. split; [reflexivity|]. split; [discriminate|]. unfold cap, GVG.Consts.mpeg4video_max_frame. cbn. lia. Qed.

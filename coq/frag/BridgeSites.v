(* BRIDGE (sites): the remaining integer formulas of pkg/format/rtpfragmented as TRANSLATED from the Go source on this
   run (GVG.Kern, spec.d/frag.txt) are the formulas of Model.enc / mk_pkts / dec.  (Bridge.v has packetCount.) *)
From Coq Require Import ZArith NArith List Lia Bool.
From Coq Require Import ZifyBool ZifyN.
From GVL Require Import NList Wrap Chunks Rtp.
From GVG Require Import Consts Kern.
From GV_frag Require Import Model BridgeLib.
Import ListNotations.
Open Scope Z_scope.

Definition u16 (s : N) : Prop := (s < 65536)%N.

(* Encode: avail := e.PayloadMaxSize; packetCount(avail, len(frame)) = the number of chunks; the marker / last test;
   pos += le; e.sequenceNumber++ *)
Theorem enc_sites_are_the_code (max : N) (frame : bytes) (i pc pos le s : N) :
  (0 < max)%N -> Z.of_N max < i64max -> Z.of_N (nlen frame) < i64max -> (1 <= pc)%N -> Z.of_N pc < i64max ->
  Z.of_N (pos + le) < i64max ->
  k_frag_avail (Z.of_N max) = Z.of_N max /\
  k_frag_packetCount (k_frag_avail (Z.of_N max)) (Z.of_N (nlen frame)) = Some (Z.of_N (nlen (chunks max frame))) /\
  k_frag_last (Z.of_N i) (Z.of_N pc) = (i + 1 =? pc)%N /\
  k_frag_marker (Z.of_N i) (Z.of_N pc) = (i + 1 =? pc)%N /\
  k_frag_pos (Z.of_N pos) (Z.of_N le) = Z.of_N (pos + le) /\
  k_frag_seq (Z.of_N s) = Z.of_N (seq_next s).
Proof.
  unfold i64max. intros H1 H2 H3 H4 H5 H6.
  assert (L : forall a b : N, (1 <= b)%N -> Z.of_N b < 9223372036854775808 ->
              (Z.of_N a =? ki64 (Z.of_N b - 1)) = (a + 1 =? b)%N).
  { intros a b Hb Hb'. rewrite ki64_small by lia.
    destruct (Z.eqb_spec (Z.of_N a) (Z.of_N b - 1)), (N.eqb_spec (a + 1) b); lia. }
  split; [reflexivity|]. split.
  - unfold k_frag_avail, k_frag_packetCount. rewrite pc_generic by lia. rewrite chunks_count_Z by lia. reflexivity.
  - split; [apply L; assumption|]. split; [apply L; assumption|]. split.
    + unfold k_frag_pos. rewrite ki64_small by lia. lia.
    + unfold k_frag_seq, seq_next. apply w16_succ_N.
Qed.

(* Model.mk_pkts sets the marker on the last chunk: position i of pc chunks is the last one iff i + 1 = pc *)
Lemma mk_pkts_marker : forall (cs : list bytes) seq i, (i < length cs)%nat ->
  nth i (map pmarker (mk_pkts seq cs)) false = (N.of_nat i + 1 =? nlen cs)%N.
Proof.
  induction cs as [|c t IH]; intros seq i Hi; cbn [length] in Hi; [lia|].
  cbn [mk_pkts map pmarker]. destruct i as [|i]; cbn [nth].
  - destruct t as [|c' t']; cbn [nlen]; [reflexivity|].
    match goal with |- context [N.eqb ?a ?b] => destruct (N.eqb_spec a b) as [E|E] end; [lia|reflexivity].
  - rewrite IH by lia. cbn [nlen].
    repeat match goal with |- context [N.eqb ?a ?b] => destruct (N.eqb_spec a b) end; lia.
Qed.

(* Decode: the continuity tests (C07) *)
Theorem resync_sites_are_the_code (seq next fs : N) : u16 seq -> u16 next ->
  k_frag_dec_nofrag (Z.of_N fs) = (fs =? 0)%N /\
  k_frag_dec_nextseq (Z.of_N seq) = Z.of_N (seq_next seq) /\
  k_frag_dec_gap (Z.of_N seq) (Z.of_N next) = negb (seq =? next)%N /\
  k_frag_dec_incseq (Z.of_N next) = Z.of_N (seq_next next).
Proof.
  intros _ _. unfold k_frag_dec_nofrag, k_frag_dec_nextseq, k_frag_dec_gap, k_frag_dec_incseq, seq_next.
  rewrite !w16_succ_N, eqb_N. repeat split. exact (eqb_N fs 0).
Qed.

(* Decode: the empty-payload test, the accumulation and the cap (C08) *)
Theorem caps_sites_are_the_code (pl : bytes) (fs : N) : Z.of_N (fs + nlen pl) < i64max ->
  k_frag_dec_empty (Z.of_N (nlen pl)) = (nlen pl =? 0)%N /\
  k_frag_dec_acc (Z.of_N fs) (Z.of_N (nlen pl)) = Z.of_N (fs + nlen pl) /\
  k_frag_dec_cap (k_frag_dec_acc (Z.of_N fs) (Z.of_N (nlen pl))) (Z.of_N cap) = (cap <? fs + nlen pl)%N.
Proof.
  unfold i64max, k_frag_dec_empty, k_frag_dec_acc, k_frag_dec_cap. intros H. rewrite ki64_small by lia.
  rewrite <- N2Z.inj_add. split; [exact (eqb_N (nlen pl) 0)|]. split; [reflexivity|apply gtb_N].
Qed.

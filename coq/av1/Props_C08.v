(* C08, rtpav1 — statements only (code with fix commit ccfdafa) *)
From GVL Require Import NList Rtp.
From GV_av1 Require Import Model Proofs.
Open Scope N_scope.

(* every slice / index expression of Decode is in range, for arbitrary packet histories *)
Theorem C08_av1_total : forall hist, ~ In DPanic (snd (dec_run dinit hist)).
Proof. exact total. Qed.
Print Assumptions C08_av1_total.

(* every returned temporal unit has at most MaxOBUsPerTemporalUnit OBUs and MaxTemporalUnitSize bytes *)
Theorem C08_av1_output_bounded : forall hist f,
  In (DFrame f) (snd (dec_run dinit hist)) -> nlen f <= cap_obus /\ tu_size f <= cap_size.
Proof. exact output_bounded. Qed.
Print Assumptions C08_av1_output_bounded.

(* For EVERY history whose packets carry at most P payload bytes: retained bytes <=
   MaxTemporalUnitSize (frame buffer) + max(MaxTemporalUnitSize, P) (fragments), retained slice
   headers <= MaxOBUsPerTemporalUnit + max(MaxTemporalUnitSize, P), and the bound on returned
   units.  No side condition any more.  (Returned units are never written to again: aliasing fact,
   harness oracle.) *)
Theorem C08_av1_bounded : forall P hist,
  Forall (fun p => nlen (ppayload p) <= P) hist ->
  bounds P (fst (dec_run dinit hist)) (snd (dec_run dinit hist)).
Proof. exact bounded. Qed.
Print Assumptions C08_av1_bounded.

(* regression: the decoder before commit ccfdafa retained n one-byte start fragments (Z=0, Y=1)
   without bound *)
Theorem C08_av1_old_decoder_unbounded : forall B, exists hist,
  Forall (fun p => nlen (ppayload p) <= 2) hist /\
  B < fst (retained (fst (dec_run_old dinit hist))) /\ B < snd (retained (fst (dec_run_old dinit hist))).
Proof. exact old_decoder_unbounded. Qed.
Print Assumptions C08_av1_old_decoder_unbounded.

Example C08_av1_example :
  (* start, middle, middle, end + complete OBU with marker *)
  snd (dec_run dinit [mkPkt 1 0 false [80; 1]; mkPkt 2 0 false [208; 2]; mkPkt 3 0 false [208; 3];
                      mkPkt 4 0 true [160; 1; 4; 5]]) = [DMore; DMore; DMore; DFrame [[1; 2; 3; 4]; [5]]] /\
  (* five start fragments: only the last one is retained now *)
  retained (fst (dec_run dinit (map (fun s => mkPkt s 0 false [80; 9]) [1; 2; 3; 4; 5]))) = (1, 1) /\
  retained (fst (dec_run_old dinit (map (fun s => mkPkt s 0 false [80; 9]) [1; 2; 3; 4; 5]))) = (5, 5).
Proof. repeat split; vm_compute; reflexivity. Qed.

(* ---- the translated kernels (tools/go2coq, regenerated from the Go source on every run) ----
   The length tests and caps of rtpav1/decoder.go - len(payload) < 2, the W field (h >> 4) & 3, the "element carries a
   size" test w == 0 || byte(len(obus)) < w-1, the size test size == 0 || len(payload) < int(size), the W check
   w != 0 && len(obus) != int(w), the accumulation d.fragmentsSize += len(obus[0]) and its cap
   > av1.MaxTemporalUnitSize, the OBU-count cap and the temporal-unit size cap of Decode with their accumulations - ARE
   the tests of Model.decode_obus / decode_body / parse_obus / post_parse / finish (the constants are GVG.Consts'
   av1_max_tu_size, av1_max_obus). *)
From Coq Require Import ZArith.
From GVG Require Import Kern.
From GV_av1 Require Import BridgeLib Bridge.
Open Scope Z_scope.

Theorem C08_av1_kernels_are_the_code :
  forall (pl p1 o0 : bytes) (h w cnt size fs fl l fsz add : N),
  byte h -> byte w -> (size < 4294967296)%N ->
  Z.of_N (fs + nlen o0) < i64max -> Z.of_N (fl + l) < i64max -> Z.of_N (fsz + add) < i64max ->
  k_av1_dec_short (Z.of_N (nlen pl)) = (nlen pl <? 2)%N /\
  k_av1_dec_w (Z.of_N h) = Z.of_N ((h / 16) mod 4) /\
  k_av1_dec_sized (Z.of_N w) (Z.of_N cnt) = ((w =? 0) || (cnt mod 256 <? w - 1))%N /\
  k_av1_dec_badsize (Z.of_N size) (Z.of_N (nlen p1)) = ((size =? 0) || (nlen p1 <? size))%N /\
  k_av1_dec_badw (Z.of_N w) (Z.of_N cnt) = (negb (w =? 0) && negb (cnt =? w))%N /\
  k_av1_dec_acc (Z.of_N fs) (Z.of_N (nlen o0)) = Z.of_N (fs + nlen o0) /\
  k_av1_dec_cap (k_av1_dec_acc (Z.of_N fs) (Z.of_N (nlen o0))) (Z.of_N cap_size) = (cap_size <? fs + nlen o0)%N /\
  k_av1_fb_count (Z.of_N fl) (Z.of_N l) (Z.of_N cap_obus) = (cap_obus <? fl + l)%N /\
  k_av1_fb_size (Z.of_N fsz) (Z.of_N add) (Z.of_N cap_size) = (cap_size <? fsz + add)%N /\
  k_av1_fb_len_acc (Z.of_N fl) (Z.of_N l) = Z.of_N (fl + l) /\
  k_av1_fb_size_acc (Z.of_N fsz) (Z.of_N add) = Z.of_N (fsz + add).
Proof. exact caps_kernels_are_the_code. Qed.
Print Assumptions C08_av1_kernels_are_the_code.

Example C08_av1_example_kernels :
  k_av1_dec_short 1 = true /\ k_av1_dec_short 2 = false /\ k_av1_dec_w 176 = 3 /\ k_av1_dec_w 79 = 0 /\
  k_av1_dec_sized 0 9 = true /\ k_av1_dec_sized 3 1 = true /\ k_av1_dec_sized 3 2 = false /\ k_av1_dec_sized 1 0 = false /\
  k_av1_dec_sized 3 257 = true /\
  k_av1_dec_badsize 0 5 = true /\ k_av1_dec_badsize 5 4 = true /\ k_av1_dec_badsize 5 5 = false /\
  k_av1_dec_badw 0 7 = false /\ k_av1_dec_badw 2 2 = false /\ k_av1_dec_badw 2 3 = true /\
  k_av1_dec_cap (k_av1_dec_acc (Z.of_N cap_size - 10) 10) (Z.of_N cap_size) = false /\
  k_av1_dec_cap (k_av1_dec_acc (Z.of_N cap_size - 10) 11) (Z.of_N cap_size) = true /\
  k_av1_fb_count (Z.of_N cap_obus - 1) 1 (Z.of_N cap_obus) = false /\ k_av1_fb_count (Z.of_N cap_obus) 1 (Z.of_N cap_obus) = true /\
  k_av1_fb_size (Z.of_N cap_size - 1) 1 (Z.of_N cap_size) = false /\ k_av1_fb_size (Z.of_N cap_size) 1 (Z.of_N cap_size) = true.
Proof. vm_compute. repeat split. Qed.

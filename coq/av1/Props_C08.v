(* C08, rtpav1 — statements only (code with fix commit ccfdafa) *)
From GVL Require Import NList Rtp.
From GV_av1 Require Import Model Proofs.
Open Scope N_scope.

(* every slice / index expression of Decode is in range, for arbitrary packet histories *)
Theorem C08_av1_total : forall hist, ~ In DPanic (snd (dec_run dinit hist)).
Proof. exact total. Qed.
Print Assumptions C08_av1_total.

(* every returned temporal unit has at most MaxOBUsPerTemporalUnit OBUs and MaxTemporalUnitSize bytes *)
Theorem C08_av1_output_bounded : forall hist f,
  In (DFrame f) (snd (dec_run dinit hist)) -> nlen f <= cap_obus /\ tu_size f <= cap_size.
Proof. exact output_bounded. Qed.
Print Assumptions C08_av1_output_bounded.

(* For EVERY history whose packets carry at most P payload bytes: retained bytes <=
   MaxTemporalUnitSize (frame buffer) + max(MaxTemporalUnitSize, P) (fragments), retained slice
   headers <= MaxOBUsPerTemporalUnit + max(MaxTemporalUnitSize, P), and the bound on returned
   units.  No side condition any more.  (Returned units are never written to again: aliasing fact,
   harness oracle.) *)
Theorem C08_av1_bounded : forall P hist,
  Forall (fun p => nlen (ppayload p) <= P) hist ->
  bounds P (fst (dec_run dinit hist)) (snd (dec_run dinit hist)).
Proof. exact bounded. Qed.
Print Assumptions C08_av1_bounded.

(* regression: the decoder before commit ccfdafa retained n one-byte start fragments (Z=0, Y=1)
   without bound *)
Theorem C08_av1_old_decoder_unbounded : forall B, exists hist,
  Forall (fun p => nlen (ppayload p) <= 2) hist /\
  B < fst (retained (fst (dec_run_old dinit hist))) /\ B < snd (retained (fst (dec_run_old dinit hist))).
Proof. exact old_decoder_unbounded. Qed.
Print Assumptions C08_av1_old_decoder_unbounded.

Example C08_av1_example :
  (* start, middle, middle, end + complete OBU with marker *)
  snd (dec_run dinit [mkPkt 1 0 false [80; 1]; mkPkt 2 0 false [208; 2]; mkPkt 3 0 false [208; 3];
                      mkPkt 4 0 true [160; 1; 4; 5]]) = [DMore; DMore; DMore; DFrame [[1; 2; 3; 4]; [5]]] /\
  (* five start fragments: only the last one is retained now *)
  retained (fst (dec_run dinit (map (fun s => mkPkt s 0 false [80; 9]) [1; 2; 3; 4; 5]))) = (1, 1) /\
  retained (fst (dec_run_old dinit (map (fun s => mkPkt s 0 false [80; 9]) [1; 2; 3; 4; 5]))) = (5, 5).
Proof. repeat split; vm_compute; reflexivity. Qed.

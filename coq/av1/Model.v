(* Executable model of pkg/format/rtpav1 (encoder.go, decoder.go) and of the parts of
   mediacommon/pkg/codecs/av1 they call (LEB128, IsRandomAccess2).  Proof-free.

   The two booleans [fx] (encoder) and [dfx] (decoder) select between the code before ([false])
   and after ([true]) the fix commits aec245d (encoder: Y/Z only when a fragment has been written)
   and ccfdafa (decoder: a packet without Z drops pending fragments) in /repo.  [enc], [dec],
   [run] at the end of the file are the instances for the code that exists now ([true]); the
   [..._old] instances are kept for the regression lemmas about the former behaviour. *)
From GVL Require Import NList Wire Rtp.
From GVG Require Import Consts.
Open Scope N_scope.

Definition cap_size : N := av1_max_tu_size.   (* av1.MaxTemporalUnitSize *)
Definition cap_obus : N := av1_max_obus.      (* av1.MaxOBUsPerTemporalUnit *)
Definition two32 : N := 4294967296.

(* ---- av1.LEB128 (a uint32) ---- *)
(* MarshalTo: curbyte = l & 0x7f; l >>= 7; if l == 0 { last byte } else { curbyte |= 0x80 } ;
   a uint32 is exhausted after five groups of 7 bits *)
Fixpoint leb_enc_aux (fuel : nat) (v : N) : bytes :=
  match fuel with
  | O => []
  | S f => if v / 128 =? 0 then [v mod 128] else (v mod 128 + 128) :: leb_enc_aux f (v / 128)
  end.
Definition leb_enc (v : N) : bytes := leb_enc_aux 5 (v mod two32).

(* MarshalSize: same loop, counting *)
Fixpoint leb_size_aux (fuel : nat) (v : N) : N :=
  match fuel with
  | O => 0
  | S f => if v / 128 =? 0 then 1 else 1 + leb_size_aux f (v / 128)
  end.
Definition leb_size (v : N) : N := leb_size_aux 5 (v mod two32).

(* Unmarshal: at most 8 bytes; "not enough bytes" when the buffer ends after a continuation bit;
   the value is accumulated in a uint32 (bits above 2^32 are shifted out).
   Returns (value before truncation, consumed bytes). *)
Fixpoint leb_dec_aux (fuel : nat) (i : N) (buf : bytes) : option (N * N) :=
  match fuel with
  | O => Some (0, 0)
  | S f =>
    match buf with
    | [] => None
    | b :: t =>
      let lo := (b mod 128) * 2 ^ (7 * i) in
      if (b / 128) mod 2 =? 0 then Some (lo, 1)
      else match leb_dec_aux f (i + 1) t with
           | None => None
           | Some (v, n) => Some (lo + v, n + 1)
           end
    end
  end.
Definition leb_dec (buf : bytes) : option (N * N) :=
  match leb_dec_aux 8 0 buf with
  | None => None
  | Some (v, n) => Some (v mod two32, n)
  end.

(* av1.IsRandomAccess2: some OBU has type OBUTypeSequenceHeader ((obu[0] >> 3) & 0b1111) *)
Definition is_seqhdr (o : bytes) : bool :=
  match o with [] => false | b :: _ => (b / 8) mod 16 =? av1_obu_seqhdr end.
Definition is_random_access (obus : list bytes) : bool := existsb is_seqhdr obus.

(* ---- encoder ---- *)
(* packet under construction: Z flag, W field, bytes after the aggregation header, obusInPacket *)
Record cur := mkCur { cz : bool; cw : N; cbody : bytes; ck : N }.
(* finished packet *)
Record fin := mkFin { fz : bool; fy : bool; fw : N; fbody : bytes }.
Definition fresh (z : bool) : cur := mkCur z 0 [] 0.
Definition finalize (c : cur) (y : bool) : fin := mkFin (cz c) y (cw c) (cbody c).

Inductive eres := EOk (fs : list fin) (c : cur) | EPanic | ELoop.
Definition cons_fin (f : fin) (r : eres) : eres :=
  match r with EOk fs c => EOk (f :: fs) c | e => e end.

(* the inner "for" loop of Encode for one OBU: the packets it closes, and the packet left open.
   [fuel] bounds the iterations (ELoop = the Go loop would not terminate); obu[:fragmentLen] is a
   checked slice (EPanic).  The two "nothing can be appended" branches close the packet with Y (and
   open the next with Z) in the code that exists; with [fx] they close it without. *)
Fixpoint enc_obu (fx : bool) (fuel : list N) (max mfl : N) (last : bool) (obu : bytes) (c : cur) : eres :=
  match fuel with
  | [] => ELoop
  | _ :: fuel' =>
    let avail := max - (1 + nlen (cbody c)) in
    let obuLen := nlen obu in
    if last && (ck c <? 3) then
      (* omitSize *)
      if obuLen <=? avail then
        EOk [] (mkCur (cz c) (N.lor (cw c) (ck c + 1)) (cbody c ++ obu) (ck c))
      else if 0 <? avail then
        (* obu[:avail]: avail < obuLen here *)
        cons_fin (mkFin (cz c) true (N.lor (cw c) (ck c + 1)) (cbody c ++ ntake avail obu))
                 (enc_obu fx fuel' max mfl last (ndrop avail obu) (fresh true))
      else
        cons_fin (finalize c (negb fx)) (enc_obu fx fuel' max mfl last obu (fresh (negb fx)))
    else
      let ls := leb_size obuLen in
      if obuLen + ls <=? avail then
        EOk [] (mkCur (cz c) (cw c) (cbody c ++ leb_enc obuLen ++ obu) (ck c + 1))
      else if mfl <? avail then
        let fl := avail - mfl in
        if obuLen <? fl then EPanic else
        cons_fin (mkFin (cz c) true (cw c) (cbody c ++ leb_enc fl ++ ntake fl obu))
                 (enc_obu fx fuel' max mfl last (ndrop fl obu) (fresh true))
      else
        cons_fin (finalize c (negb fx)) (enc_obu fx fuel' max mfl last obu (fresh (negb fx)))
  end.

Fixpoint enc_obus (fx : bool) (max mfl : N) (obus : list bytes) (c : cur) : eres :=
  match obus with
  | [] => EOk [] c
  | o :: t =>
    match enc_obu fx (0 :: 0 :: o) max mfl (match t with [] => true | _ => false end) o c with
    | EOk fs c' =>
      match enc_obus fx max mfl t c' with
      | EOk fs2 c2 => EOk (fs ++ fs2) c2
      | e => e
      end
    | e => e
    end
  end.

(* aggregation header: Z Y W W N - - - *)
Definition hdr_byte (f : fin) (n : bool) : N :=
  (if fz f then 128 else 0) + (if fy f then 64 else 0) + 16 * fw f + (if n then 8 else 0).

Fixpoint mk_pkts (seq : N) (n : bool) (fs : list fin) : list packet :=
  match fs with
  | [] => []
  | f :: t =>
    mkPkt seq 0 (match t with [] => true | _ => false end) (hdr_byte f n :: fbody f)
    :: mk_pkts (seq_next seq) false t
  end.

(* all finished packets of one Encode call, or None when Go would panic / not terminate *)
Definition enc_fins (fx : bool) (max : N) (obus : list bytes) : option (list fin) :=
  match enc_obus fx max (leb_size max) obus (fresh false) with
  | EOk fs c => Some (fs ++ [finalize c false])
  | _ => None
  end.

Definition enc_g (fx : bool) (max seq : N) (obus : list bytes) : option (list packet * N) :=
  match enc_fins fx max obus with
  | Some fs => Some (mk_pkts seq (is_random_access obus) fs, seq_add seq (nlen fs))
  | None => None
  end.

Fixpoint enc_many_g (fx : bool) (max seq : N) (frames : list (list bytes)) : option (list (list packet)) :=
  match frames with
  | [] => Some []
  | f :: t =>
    match enc_g fx max seq f with
    | None => None
    | Some (ps, seq') =>
      match enc_many_g fx max seq' t with
      | None => None
      | Some r => Some (ps :: r)
      end
    end
  end.

(* ---- decoder ---- *)
(* firstPacketReceived only selects between two error values; errors are one class here *)
Record dstate := mkD {
  dfrags : list bytes; dsize : N; dnext : N;           (* fragments, fragmentsSize, fragmentNextSeqNum *)
  dbuf : list bytes; dbuflen : N; dbufsize : N }.      (* frameBuffer, frameBufferLen, frameBufferSize *)
Definition dinit : dstate := mkD [] 0 0 [] 0 0.
Definition reset_frags (d : dstate) : dstate := mkD [] 0 (dnext d) (dbuf d) (dbuflen d) (dbufsize d).
Definition clear_buf (d : dstate) : dstate := mkD (dfrags d) (dsize d) (dnext d) [] 0 0.

(* joinFragments: ret := make([]byte, size); n += copy(ret[n:], p).  ret[n:] is checked. *)
Fixpoint join_aux (frags : list bytes) (size n : N) : option bytes :=
  match frags with
  | [] => Some (nrep 0 (size - n))
  | p :: t =>
      if size <? n then None else
      let c := ntake (size - n) p in
      match join_aux t size (n + nlen c) with
      | Some r => Some (c ++ r)
      | None => None
      end
  end.
Definition join (frags : list bytes) (size : N) : option bytes := join_aux frags size 0.

Definition tu_size (obus : list bytes) : N := nlen (concat obus).

Inductive pres := PErr | PPanic | POk (obus : list bytes).

(* the element loop of decodeOBUs *)
Fixpoint parse_obus (fuel : bytes) (w : N) (payload : bytes) (acc : list bytes) : pres :=
  match payload with
  | [] => POk acc
  | _ :: _ =>
    match fuel with
    | [] => PPanic
    | _ :: fuel' =>
      if (w =? 0) || ((nlen acc) mod 256 <? w - 1) then
        match leb_dec payload with
        | None => PErr
        | Some (size, n) =>
          if nlen payload <? n then PPanic else           (* payload[n:] *)
          let p1 := ndrop n payload in
          if (size =? 0) || (nlen p1 <? size) then PErr
          else parse_obus fuel' w (ndrop size p1) (acc ++ [ntake size p1])
        end
      else POk (acc ++ [payload])
    end
  end.

Definition split_last {A} (l : list A) : option (list A * A) :=
  match rev l with
  | [] => None
  | x :: r => Some (rev r, x)
  end.

Inductive ores := OErr | OMore | OPanic | OObus (obus : list bytes).

(* decodeOBUs after the element loop: W check, continuation (Z) part, "will continue" (Y) part.
   Before commit ccfdafa ([dfx] = false) a packet without Z left pending fragments in place; now
   it drops them. *)
Definition post_parse (dfx : bool) (d : dstate) (seq : N) (z y : bool) (w : N) (obus : list bytes)
  : dstate * ores :=
  if negb (w =? 0) && negb (nlen obus =? w) then (d, OErr) else
  (* first OBU is continuation of previous one *)
  let zr : dstate * option ores * list bytes :=
    if z then
      if dsize d =? 0 then (d, Some OErr, [])
      else if negb (seq =? dnext d) then (reset_frags d, Some OErr, [])
      else match obus with
           | [] => (d, Some OPanic, [])                                (* obus[0] *)
           | o0 :: rest =>
             let size' := dsize d + nlen o0 in
             if cap_size <? size' then (reset_frags d, Some OErr, [])
             else
               let d1 := mkD (dfrags d ++ [o0]) size' (seq_next (dnext d)) (dbuf d) (dbuflen d) (dbufsize d) in
               if (nlen obus =? 1) && y then (d1, Some OMore, [])
               else match join (dfrags d1) size' with
                    | None => (d1, Some OPanic, [])
                    | Some j => (reset_frags d1, None, j :: rest)
                    end
           end
    else ((if dfx then reset_frags d else d), None, obus) in
  match zr with
  | (d1, Some r, _) => (d1, r)
  | (d1, None, obus1) =>
    (* last OBU will continue in next packet *)
    if y then
      match split_last obus1 with
      | None => (d1, OPanic)                                           (* obus[len(obus)-1] *)
      | Some (init, l) =>
        let d2 := mkD (dfrags d1 ++ [l]) (nlen l) (seq_next seq) (dbuf d1) (dbuflen d1) (dbufsize d1) in
        if nlen init =? 0 then (d2, OMore) else (d2, OObus init)
      end
    else (d1, OObus obus1)
  end.

(* decodeOBUs on a payload split into aggregation header and the rest *)
Definition decode_body (dfx : bool) (d : dstate) (seq : N) (h : N) (body : bytes) : dstate * ores :=
  let z := (h / 128) mod 2 =? 1 in
  let y := (h / 64) mod 2 =? 1 in
  let w := (h / 16) mod 4 in
  match parse_obus body w body [] with
  | PErr => (reset_frags d, OErr)
  | PPanic => (d, OPanic)
  | POk obus => post_parse dfx d seq z y w obus
  end.

Definition decode_obus (dfx : bool) (d : dstate) (p : packet) : dstate * ores :=
  let pl := ppayload p in
  if nlen pl <? 2 then (d, OErr) else
  match pl with
  | [] => (d, OPanic)
  | h :: body => decode_body dfx d (pseq p) h body
  end.

(* Decode after decodeOBUs *)
Definition finish (marker : bool) (r : dstate * ores) : dstate * dres (list bytes) :=
  match r with
  | (d1, OErr) => (d1, DErr)
  | (d1, OMore) => (d1, DMore)
  | (d1, OPanic) => (d1, DPanic)
  | (d1, OObus obus) =>
    let l := nlen obus in
    if cap_obus <? dbuflen d1 + l then (clear_buf d1, DErr) else
    let add := tu_size obus in
    if cap_size <? dbufsize d1 + add then (clear_buf d1, DErr) else
    let d2 := mkD (dfrags d1) (dsize d1) (dnext d1) (dbuf d1 ++ obus) (dbuflen d1 + l) (dbufsize d1 + add) in
    if negb marker then (d2, DMore)
    else (clear_buf d2, DFrame (dbuf d2))
  end.

Definition dec_g (dfx : bool) (d : dstate) (p : packet) : dstate * dres (list bytes) :=
  finish (pmarker p) (decode_obus dfx d p).

Fixpoint dec_run_g (dfx : bool) (d : dstate) (ps : list packet) : dstate * list (dres (list bytes)) :=
  match ps with
  | [] => (d, [])
  | p :: t =>
    let '(d', r) := dec_g dfx d p in
    let '(d'', rs) := dec_run_g dfx d' t in (d'', r :: rs)
  end.

(* what the decoder retains: logical bytes and slice headers (fragments + frameBuffer) *)
Definition retained (d : dstate) : N * N :=
  (nlen (concat (dfrags d)) + nlen (concat (dbuf d)), nlen (dfrags d) + nlen (dbuf d)).

(* ---- the code that exists (with fix commits aec245d and ccfdafa) ---- *)
Definition enc := enc_g true.
Definition enc_many := enc_many_g true.
Definition dec := dec_g true.
Definition dec_run := dec_run_g true.

(* ---- the code before the two fixes (regression lemmas only) ---- *)
Definition enc_old := enc_g false.
Definition dec_old := dec_g false.
Definition dec_run_old := dec_run_g false.

(* ---- wire ---- *)
Definition put_res (r : dres (list bytes)) : list N :=
  match r with
  | DFrame f => 1 :: putls f
  | DMore => [0]
  | DErr => [2]
  | DPanic => [77]
  end.

Fixpoint get_frames (fuel : list N) (k : N) (l : list N) : option (list (list bytes)) :=
  if k =? 0 then Some [] else
  match fuel with
  | [] => None
  | _ :: fuel' =>
    match getls l with
    | None => None
    | Some (f, r) => option_map (cons f) (get_frames fuel' (N.pred k) r)
    end
  end.

(* packets of a decode case; like GVL.Rtp.get_pkts but linear in the length of the line (the
   near-cap histories are lines of several million tokens) *)
Fixpoint take_n (n : N) (l : list N) {struct l} : option (list N * list N) :=
  match l with
  | [] => if n =? 0 then Some ([], []) else None
  | x :: t =>
    if n =? 0 then Some ([], l) else
    match take_n (N.pred n) t with
    | Some (a, r) => Some (x :: a, r)
    | None => None
    end
  end.

Fixpoint get_pkts_lin (fuel : list N) (k : N) (l : list N) : option (list packet) :=
  if k =? 0 then Some [] else
  match fuel with
  | [] => None
  | _ :: fuel' =>
    match l with
    | s :: t :: m :: n :: r =>
      match take_n n r with
      | Some (pl, r') => option_map (cons (mkPkt s t (getb m) pl)) (get_pkts_lin fuel' (N.pred k) r')
      | None => None
      end
    | _ => None
    end
  end.

(* case 1: param max seq nframes {nunits {len bytes}}  -> all packets of all frames, or 77
   case 2: param npackets {pkt}                        -> per packet result; retained bytes, slices *)
Definition run_g (fx dfx : bool) (c : list N) : list N :=
  match c with
  | 1 :: _ :: max :: seq :: k :: t =>
      match get_frames c k t with
      | Some frames =>
          let max' := if max =? 0 then av1_default_max else max in
          match enc_many_g fx max' seq frames with
          | Some pss => put_pkts (concat pss)
          | None => [77]
          end
      | None => bad_case
      end
  | 2 :: _ :: k :: t =>
      match get_pkts_lin c k t with
      | Some ps =>
          let '(d, rs) := dec_run_g dfx dinit ps in
          concat (map put_res rs) ++ [fst (retained d); snd (retained d)]
      | None => bad_case
      end
  | _ => bad_case
  end.

Definition run : list N -> list N := run_g true true.

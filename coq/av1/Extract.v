From Coq Require Extraction ExtrOcamlBasic.
From GV_av1 Require Import Model.
Extraction Language OCaml.
Extraction "model.ml" run.

(* C07, rtpav1 — statements only (code with fix commits aec245d and ccfdafa) *)
From GVL Require Import NList Rtp.
From GV_av1 Require Import Model Proofs.
Open Scope N_scope.

(* After ANY packet history [hist] (loss, duplication, reordering, foreign or hostile packets), an
   intact unit f1 then an intact unit f2 (arbitrary sequence numbers: whole units may be lost in
   between): f2 is returned exactly at its last packet, "more" before, clean afterwards.  No side
   condition any more: the first packet of f1 (no Z) drops whatever fragments were pending. *)
Theorem C07_av1_resync : forall max hist f1 f2 s1 s2,
  3 <= max -> max < two32 -> s1 < 65536 -> s2 < 65536 -> valid_tu f1 -> valid_tu f2 ->
  let d0 := fst (dec_run dinit hist) in
  exists ps1 ps2, enc max s1 f1 = Some (ps1, seq_add s1 (nlen ps1)) /\
                  enc max s2 f2 = Some (ps2, seq_add s2 (nlen ps2)) /\
     let d1 := fst (dec_run d0 ps1) in
     exists d2, dec_run d1 ps2 = (d2, repeat DMore (length ps2 - 1) ++ [DFrame f2]) /\ clean d2.
Proof. exact resync. Qed.
Print Assumptions C07_av1_resync.

(* never panics, whatever arrives *)
Theorem C07_av1_no_panic : forall hist, ~ In DPanic (snd (dec_run dinit hist)).
Proof. exact total. Qed.
Print Assumptions C07_av1_no_panic.

(* regression: the decoder before commit ccfdafa violated the statement: a fragmented unit loses
   its last packet, a one-packet unit and a fragmented unit arrive intact, the last one was returned
   with the stale fragment glued in front *)
Theorem C07_av1_old_decoder_refuted : exists max f0 f1 f2 s0 s1 s2 s3 ps0 ps1 ps2,
  3 <= max /\ max < two32 /\ valid_tu f0 /\ valid_tu f1 /\ valid_tu f2 /\
  enc max s0 f0 = Some (ps0, s1) /\ enc max s1 f1 = Some (ps1, s2) /\ enc max s2 f2 = Some (ps2, s3) /\
  let d0 := fst (dec_run_old dinit (removelast ps0)) in
  let d1 := fst (dec_run_old d0 ps1) in
  ~ In (DFrame f2) (snd (dec_run_old d1 ps2)).
Proof. exact old_decoder_resync_refuted. Qed.
Print Assumptions C07_av1_old_decoder_refuted.

Example C07_av1_example :
  (* first packet of a 2-packet unit lost, then two intact 2-packet units *)
  option_map (fun pss => snd (dec_run dinit (tl (concat pss))))
             (enc_many 5 10 [[[1; 2; 3; 4; 5]]; [[6; 7; 8; 9; 10]]; [[11; 12; 13; 14; 15]]])
  = Some [DErr; DMore; DFrame [[6; 7; 8; 9; 10]]; DMore; DFrame [[11; 12; 13; 14; 15]]] /\
  (* the former violation: last packet of a 2-packet unit lost, a 1-packet unit, a 2-packet unit *)
  option_map (fun pss => snd (dec_run dinit (removelast (hd [] pss) ++ concat (tl pss))))
             (enc_many 5 10 [[[7; 7; 7; 7; 7; 7]]; [[1]]; [[1; 2; 3; 4; 5; 6]]])
  = Some [DMore; DFrame [[1]]; DMore; DFrame [[1; 2; 3; 4; 5; 6]]].
Proof. split; vm_compute; reflexivity. Qed.

(* ---- the translated kernels (tools/go2coq, regenerated from the Go source on every run) ----
   The continuation tests of decodeOBUs - the Z and Y bits of the aggregation header, the "no fragment pending" test
   d.fragmentsSize == 0, the continuity test pkt.SequenceNumber != d.fragmentNextSeqNum, the expected next sequence
   number (d.fragmentNextSeqNum++ and pkt.SequenceNumber + 1, both uint16), len(obus) == 1 && y ("more packets
   needed"), len(obus) == 0 - ARE the expressions Model.decode_body / post_parse are written with. *)
From Coq Require Import ZArith.
From GVG Require Import Kern.
From GV_av1 Require Import BridgeLib Bridge.
Open Scope Z_scope.

Theorem C07_av1_kernels_are_the_code : forall (h seq next fs cnt : N) (y : bool),
  byte h -> u16 seq -> u16 next ->
  k_av1_dec_z (Z.of_N h) = ((h / 128) mod 2 =? 1)%N /\ k_av1_dec_y (Z.of_N h) = ((h / 64) mod 2 =? 1)%N /\
  k_av1_dec_nofrag (Z.of_N fs) = (fs =? 0)%N /\
  k_av1_dec_gap (Z.of_N seq) (Z.of_N next) = negb (seq =? next)%N /\
  k_av1_dec_incseq (Z.of_N next) = Z.of_N (seq_next next) /\
  k_av1_dec_more (Z.of_N cnt) y = ((cnt =? 1)%N && y) /\
  k_av1_dec_nextseq (Z.of_N seq) = Z.of_N (seq_next seq) /\
  k_av1_dec_none (Z.of_N cnt) = (cnt =? 0)%N.
Proof. exact resync_kernels_are_the_code. Qed.
Print Assumptions C07_av1_kernels_are_the_code.

Example C07_av1_example_kernels :
  k_av1_dec_z 128 = true /\ k_av1_dec_z 127 = false /\ k_av1_dec_y 64 = true /\ k_av1_dec_y 191 = false /\
  k_av1_dec_nofrag 0 = true /\ k_av1_dec_nofrag 1 = false /\ k_av1_dec_gap 8 8 = false /\ k_av1_dec_gap 9 8 = true /\
  k_av1_dec_incseq 65535 = 0 /\ k_av1_dec_nextseq 65535 = 0 /\ k_av1_dec_nextseq 7 = 8 /\
  k_av1_dec_more 1 true = true /\ k_av1_dec_more 2 true = false /\ k_av1_dec_more 1 false = false /\
  k_av1_dec_none 0 = true /\ k_av1_dec_none 1 = false.
Proof. vm_compute. repeat split. Qed.

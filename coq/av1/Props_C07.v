(* C07, rtpav1 — statements only (code with fix commits aec245d and ccfdafa) *)
From GVL Require Import NList Rtp.
From GV_av1 Require Import Model Proofs.
Open Scope N_scope.

(* After ANY packet history [hist] (loss, duplication, reordering, foreign or hostile packets), an
   intact unit f1 then an intact unit f2 (arbitrary sequence numbers: whole units may be lost in
   between): f2 is returned exactly at its last packet, "more" before, clean afterwards.  No side
   condition any more: the first packet of f1 (no Z) drops whatever fragments were pending. *)
Theorem C07_av1_resync : forall max hist f1 f2 s1 s2,
  3 <= max -> max < two32 -> s1 < 65536 -> s2 < 65536 -> valid_tu f1 -> valid_tu f2 ->
  let d0 := fst (dec_run dinit hist) in
  exists ps1 ps2, enc max s1 f1 = Some (ps1, seq_add s1 (nlen ps1)) /\
                  enc max s2 f2 = Some (ps2, seq_add s2 (nlen ps2)) /\
     let d1 := fst (dec_run d0 ps1) in
     exists d2, dec_run d1 ps2 = (d2, repeat DMore (length ps2 - 1) ++ [DFrame f2]) /\ clean d2.
Proof. exact resync. Qed.
Print Assumptions C07_av1_resync.

(* never panics, whatever arrives *)
Theorem C07_av1_no_panic : forall hist, ~ In DPanic (snd (dec_run dinit hist)).
Proof. exact total. Qed.
Print Assumptions C07_av1_no_panic.

(* regression: the decoder before commit ccfdafa violated the statement: a fragmented unit loses
   its last packet, a one-packet unit and a fragmented unit arrive intact, the last one was returned
   with the stale fragment glued in front *)
Theorem C07_av1_old_decoder_refuted : exists max f0 f1 f2 s0 s1 s2 s3 ps0 ps1 ps2,
  3 <= max /\ max < two32 /\ valid_tu f0 /\ valid_tu f1 /\ valid_tu f2 /\
  enc max s0 f0 = Some (ps0, s1) /\ enc max s1 f1 = Some (ps1, s2) /\ enc max s2 f2 = Some (ps2, s3) /\
  let d0 := fst (dec_run_old dinit (removelast ps0)) in
  let d1 := fst (dec_run_old d0 ps1) in
  ~ In (DFrame f2) (snd (dec_run_old d1 ps2)).
Proof. exact old_decoder_resync_refuted. Qed.
Print Assumptions C07_av1_old_decoder_refuted.

Example C07_av1_example :
  (* first packet of a 2-packet unit lost, then two intact 2-packet units *)
  option_map (fun pss => snd (dec_run dinit (tl (concat pss))))
             (enc_many 5 10 [[[1; 2; 3; 4; 5]]; [[6; 7; 8; 9; 10]]; [[11; 12; 13; 14; 15]]])
  = Some [DErr; DMore; DFrame [[6; 7; 8; 9; 10]]; DMore; DFrame [[11; 12; 13; 14; 15]]] /\
  (* the former violation: last packet of a 2-packet unit lost, a 1-packet unit, a 2-packet unit *)
  option_map (fun pss => snd (dec_run dinit (removelast (hd [] pss) ++ concat (tl pss))))
             (enc_many 5 10 [[[7; 7; 7; 7; 7; 7]]; [[1]]; [[1; 2; 3; 4; 5; 6]]])
  = Some [DMore; DFrame [[1]]; DMore; DFrame [[1; 2; 3; 4; 5; 6]]].
Proof. split; vm_compute; reflexivity. Qed.

(* rtpav1 encoder: termination, no slice panic, payload limit, sequence numbers, marker (C06) *)
From GVL Require Import NList Wire Rtp.
From GVG Require Import Consts.
From GV_av1 Require Import Model Leb.
From Coq Require Import ZifyBool ZifyNat ZifyN.
Open Scope N_scope.
Ltac splits := repeat match goal with |- _ /\ _ => split end.

Definition fin_ok (max : N) (f : fin) : Prop := 1 + nlen (fbody f) <= max /\ fw f <= 3.

Lemma leb_size_room max : 3 <= max -> max < two32 -> leb_size max + 2 <= max.
Proof.
  intros H1 H2. destruct (N.ltb_spec max 128).
  - rewrite leb_size_small by assumption. lia.
  - pose proof (leb_size_bounds max). lia.
Qed.

Lemma cons_fin_ok f r fs c : r = EOk fs c -> cons_fin f r = EOk (f :: fs) c.
Proof. intros ->. reflexivity. Qed.

Lemma enc_obu_ok fx max last : 3 <= max -> max < two32 ->
  forall fuel obu c,
  1 + nlen (cbody c) <= max -> cw c = 0 ->
  (nlen obu + 2 <= nlen fuel \/ (cbody c = [] /\ nlen obu + 1 <= nlen fuel)) ->
  exists fs c', enc_obu fx fuel max (leb_size max) last obu c = EOk fs c' /\
    Forall (fin_ok max) fs /\ 1 + nlen (cbody c') <= max /\ cw c' <= 3 /\ (last = false -> cw c' = 0).
Proof.
  intros Hmax Hmax2. pose proof (leb_size_room max Hmax Hmax2) as Hroom.
  induction fuel as [|f0 fuel IH]; intros obu c Hb Hw Hf.
  { cbn [nlen] in Hf. lia. }
  cbn [nlen] in Hf. cbn [enc_obu].
  set (avail := max - (1 + nlen (cbody c))).
  assert (Hav : avail + 1 + nlen (cbody c) = max) by (unfold avail; lia).
  assert (Hfresh : forall z, 1 + nlen (cbody (fresh z)) <= max /\ cw (fresh z) = 0 /\ cbody (fresh z) = [])
    by (intros z; cbn; splits; auto; lia).
  destruct (last && (ck c <? 3)) eqn:Eomit.
  - (* size omitted *)
    apply andb_true_iff in Eomit. destruct Eomit as [-> Hk]. apply N.ltb_lt in Hk.
    destruct (N.leb_spec (nlen obu) avail) as [Hfit|Hnofit].
    + eexists _, _. split; [reflexivity|]. cbn [cbody cw]. rewrite Hw, N.lor_0_l, nlen_app.
      splits; [constructor|lia|lia|discriminate].
    + destruct (N.ltb_spec 0 avail) as [Hpos|Hzero].
      * destruct (Hfresh true) as (F1 & F2 & F3).
        destruct (IH (ndrop avail obu) (fresh true) F1 F2) as (fs & c' & E & H1 & H2 & H3 & H4).
        { right. split; [exact F3|]. rewrite nlen_ndrop. lia. }
        eexists _, _. split; [apply cons_fin_ok; exact E|].
        splits; auto. constructor; [|exact H1]. unfold fin_ok. cbn [fbody fw].
        rewrite Hw, N.lor_0_l, nlen_app, nlen_ntake. lia.
      * destruct (Hfresh (negb fx)) as (F1 & F2 & F3).
        assert (Hcb : cbody c <> []).
        { intros E. rewrite E in Hav. cbn [nlen] in Hav. lia. }
        destruct (IH obu (fresh (negb fx)) F1 F2) as (fs & c' & E & H1 & H2 & H3 & H4).
        { right. split; [exact F3|]. destruct Hf as [Hf|[Hf _]]; [lia|contradiction]. }
        eexists _, _. split; [apply cons_fin_ok; exact E|].
        splits; auto. constructor; [|exact H1]. unfold fin_ok, finalize. cbn [fbody fw]. lia.
  - (* size written *)
    destruct (N.leb_spec (nlen obu + leb_size (nlen obu)) avail) as [Hfit|Hnofit].
    + eexists _, _. split; [reflexivity|]. cbn [cbody cw]. rewrite !nlen_app, <- leb_size_len.
      splits; [constructor|lia|lia|intros _; exact Hw].
    + destruct (N.ltb_spec (leb_size max) avail) as [Hroom2|Hnoroom].
      * set (fl := avail - leb_size max).
        assert (Hfl : fl <= nlen obu).
        { destruct (N.leb_spec (nlen obu) max) as [Hle|Hgt]; [|unfold fl; lia].
          pose proof (leb_size_mono (nlen obu) max Hle Hmax2). unfold fl. lia. }
        destruct (N.ltb_spec (nlen obu) fl); [lia|].
        destruct (Hfresh true) as (F1 & F2 & F3).
        destruct (IH (ndrop fl obu) (fresh true) F1 F2) as (fs & c' & E & H1 & H2 & H3 & H4).
        { right. split; [exact F3|]. rewrite nlen_ndrop. unfold fl in *. lia. }
        eexists _, _. split; [apply cons_fin_ok; exact E|].
        splits; auto. constructor; [|exact H1]. unfold fin_ok. cbn [fbody fw].
        rewrite !nlen_app, <- leb_size_len, nlen_ntake.
        assert (leb_size fl <= leb_size max) by (apply leb_size_mono; [unfold fl; lia|exact Hmax2]).
        unfold fl in *. lia.
      * destruct (Hfresh (negb fx)) as (F1 & F2 & F3).
        assert (Hcb : cbody c <> []).
        { intros E. rewrite E in Hav. cbn [nlen] in Hav. lia. }
        destruct (IH obu (fresh (negb fx)) F1 F2) as (fs & c' & E & H1 & H2 & H3 & H4).
        { right. split; [exact F3|]. destruct Hf as [Hf|[Hf _]]; [lia|contradiction]. }
        eexists _, _. split; [apply cons_fin_ok; exact E|].
        splits; auto. constructor; [|exact H1]. unfold fin_ok, finalize. cbn [fbody fw]. lia.
Qed.

Lemma enc_obus_ok fx max : 3 <= max -> max < two32 ->
  forall obus c, 1 + nlen (cbody c) <= max -> cw c = 0 ->
  exists fs c', enc_obus fx max (leb_size max) obus c = EOk fs c' /\
    Forall (fin_ok max) fs /\ 1 + nlen (cbody c') <= max /\ cw c' <= 3.
Proof.
  intros Hmax Hmax2. induction obus as [|o t IH]; intros c Hb Hw; cbn [enc_obus].
  - eexists _, _. split; [reflexivity|]. splits; [constructor|assumption|lia].
  - destruct (enc_obu_ok fx max (match t with [] => true | _ => false end) Hmax Hmax2 (0 :: 0 :: o) o c Hb Hw)
      as (fs & c' & E & H1 & H2 & H3 & H4).
    { left. cbn [nlen]. lia. }
    rewrite E. destruct t as [|o2 t2].
    + cbn [enc_obus]. eexists _, _. split; [reflexivity|]. rewrite app_nil_r. splits; assumption.
    + destruct (IH c' H2 (H4 eq_refl)) as (fs2 & c2 & E2 & G1 & G2 & G3).
      rewrite E2. eexists _, _. split; [reflexivity|]. splits; auto. apply Forall_app. split; assumption.
Qed.

Lemma enc_fins_ok fx max obus : 3 <= max -> max < two32 ->
  exists fs, enc_fins fx max obus = Some fs /\ Forall (fin_ok max) fs /\ fs <> [].
Proof.
  intros Hmax Hmax2. unfold enc_fins.
  destruct (enc_obus_ok fx max Hmax Hmax2 obus (fresh false)) as (fs & c & E & H1 & H2 & H3).
  { cbn. lia. } { reflexivity. }
  rewrite E. eexists. split; [reflexivity|]. split.
  - apply Forall_app. split; [exact H1|]. constructor; [|constructor]. unfold fin_ok, finalize. cbn [fbody fw]. lia.
  - destruct fs; discriminate.
Qed.

(* ---- packets ---- *)
Lemma seq_add_next s k : seq_add (seq_next s) k = seq_add s (k + 1).
Proof. unfold seq_add, seq_next. rewrite N.add_mod_idemp_l by lia. f_equal. lia. Qed.
Lemma seq_add_0 s : s < 65536 -> seq_add s 0 = s.
Proof. intros H. unfold seq_add. rewrite N.add_0_r. now apply N.mod_small. Qed.
Lemma seq_add_add s a b : seq_add (seq_add s a) b = seq_add s (a + b).
Proof. unfold seq_add. rewrite N.add_mod_idemp_l by lia. f_equal. lia. Qed.
Lemma seq_add_lt s k : seq_add s k < 65536.
Proof. unfold seq_add. apply N.mod_lt. lia. Qed.

Lemma mk_pkts_len fs : forall seq n, nlen (mk_pkts seq n fs) = nlen fs.
Proof. induction fs as [|f t IH]; intros seq n; cbn [mk_pkts nlen]; [reflexivity|]. now rewrite IH. Qed.

Lemma mk_pkts_seq fs : forall seq n i p, seq < 65536 -> nnth i (mk_pkts seq n fs) = Some p -> pseq p = seq_add seq i.
Proof.
  induction fs as [|f t IH]; intros seq n i p Hs H; cbn [mk_pkts nnth] in H; [discriminate|].
  destruct (N.eqb_spec i 0) as [->|Hi].
  - injection H as <-. cbn [pseq]. now rewrite seq_add_0.
  - apply IH in H; [|unfold seq_next; apply N.mod_lt; lia]. rewrite H, seq_add_next. f_equal. lia.
Qed.

Lemma mk_pkts_marker fs : forall seq n i p, nnth i (mk_pkts seq n fs) = Some p -> pmarker p = (i + 1 =? nlen fs).
Proof.
  induction fs as [|f t IH]; intros seq n i p H; cbn [mk_pkts nnth] in H; [discriminate|].
  destruct (N.eqb_spec i 0) as [->|Hi].
  - injection H as <-. cbn [pmarker nlen]. destruct t; cbn [nlen]; [reflexivity|].
    symmetry. apply N.eqb_neq. lia.
  - apply IH in H. rewrite H. cbn [nlen].
    destruct (N.eqb_spec (N.pred i + 1) (nlen t)); destruct (N.eqb_spec (i + 1) (N.succ (nlen t))); try reflexivity; lia.
Qed.

Lemma mk_pkts_payload max fs : Forall (fin_ok max) fs -> forall seq n,
  Forall (fun p => 2 <= 1 + nlen (ppayload p) /\ nlen (ppayload p) <= max) (mk_pkts seq n fs).
Proof.
  induction 1 as [|f t [Hf _] Ht IH]; intros seq n; cbn [mk_pkts]; constructor; [|apply IH].
  cbn [ppayload nlen]. lia.
Qed.

(* every payload within the limit, sequence numbers seq, seq+1, ... modulo 2^16, marker on the last
   packet and on no other; Encode neither panics nor loops for any temporal unit (no validity
   assumption), for the code that exists and for the repaired code *)
Theorem enc_wellformed_g fx max seq obus : 3 <= max -> max < two32 -> seq < 65536 ->
  exists ps, enc_g fx max seq obus = Some (ps, seq_add seq (nlen ps)) /\
    ps <> [] /\
    Forall (fun p => nlen (ppayload p) <= max) ps /\
    (forall i p, nnth i ps = Some p -> pseq p = seq_add seq i /\ pmarker p = (i + 1 =? nlen ps)).
Proof.
  intros Hmax Hmax2 Hs. destruct (enc_fins_ok fx max obus Hmax Hmax2) as (fs & E & Hok & Hne).
  unfold enc_g. rewrite E. eexists. rewrite mk_pkts_len. split; [reflexivity|]. splits.
  - destruct fs; [contradiction|discriminate].
  - eapply Forall_impl; [|apply (mk_pkts_payload max fs Hok)]. cbn. tauto.
  - intros i p H. split; [eapply mk_pkts_seq; eassumption|]. eapply mk_pkts_marker; eassumption.
Qed.

Lemma nnth_app_l {A} (l1 l2 : list A) i : i < nlen l1 -> nnth i (l1 ++ l2) = nnth i l1.
Proof.
  revert i; induction l1 as [|x t IH]; intros i H; cbn [nlen app nnth] in *; [lia|].
  destruct (N.eqb_spec i 0); [reflexivity|]. apply IH. lia.
Qed.
Lemma nnth_app_r {A} (l1 l2 : list A) i : nlen l1 <= i -> nnth i (l1 ++ l2) = nnth (i - nlen l1) l2.
Proof.
  revert i; induction l1 as [|x t IH]; intros i H; cbn [nlen app nnth] in *; [f_equal; lia|].
  destruct (N.eqb_spec i 0); [lia|]. rewrite IH by lia. f_equal. lia.
Qed.

(* sequence numbers continue across Encode calls *)
Theorem enc_many_gapless_g fx max frames : 3 <= max -> max < two32 -> forall seq, seq < 65536 ->
  exists pss, enc_many_g fx max seq frames = Some pss /\
    forall i p, nnth i (concat pss) = Some p -> pseq p = seq_add seq i.
Proof.
  intros Hmax Hmax2. induction frames as [|f t IH]; intros seq Hs; cbn [enc_many_g].
  - exists []. split; [reflexivity|]. intros i p H. cbn in H. discriminate.
  - destruct (enc_wellformed_g fx max seq f Hmax Hmax2 Hs) as (ps & E & _ & _ & Hi).
    rewrite E. destruct (IH (seq_add seq (nlen ps)) (seq_add_lt _ _)) as (pss & E2 & Hi2).
    rewrite E2. eexists. split; [reflexivity|]. intros i p H. cbn [concat] in H.
    destruct (N.ltb_spec i (nlen ps)) as [Hlt|Hge].
    + rewrite nnth_app_l in H by assumption. now apply Hi in H.
    + rewrite nnth_app_r in H by assumption. apply Hi2 in H. rewrite H, seq_add_add. f_equal. lia.
Qed.

(* C06, rtpav1 — statements only (code with fix commit aec245d) *)
From GVL Require Import NList Rtp.
From GV_av1 Require Import Model Proofs.
Open Scope N_scope.

(* For EVERY temporal unit (valid or not), every limit 3 <= max < 2^32 and every initial sequence
   number: Encode terminates without slicing out of range, emits at least one packet, every payload
   is within the limit, packet i carries sequence number seq+i mod 2^16, the marker is set on the
   last packet and on no other, and the encoder continues at seq+count.
   (Payload type, SSRC: constants copied into every header; input immutability: harness oracle.) *)
Theorem C06_av1_packets_wellformed : forall max seq obus, 3 <= max -> max < two32 -> seq < 65536 ->
  exists ps, enc max seq obus = Some (ps, seq_add seq (nlen ps)) /\
    ps <> [] /\
    Forall (fun p => nlen (ppayload p) <= max) ps /\
    (forall i p, nnth i ps = Some p -> pseq p = seq_add seq i /\ pmarker p = (i + 1 =? nlen ps)).
Proof. exact enc_wellformed. Qed.
Print Assumptions C06_av1_packets_wellformed.

(* across any series of Encode calls the sequence numbers increase by one modulo 2^16 *)
Theorem C06_av1_gapless_across_calls : forall max frames, 3 <= max -> max < two32 -> forall seq, seq < 65536 ->
  exists pss, enc_many max seq frames = Some pss /\
    forall i p, nnth i (concat pss) = Some p -> pseq p = seq_add seq i.
Proof. exact enc_many_gapless. Qed.
Print Assumptions C06_av1_gapless_across_calls.

Example C06_av1_example :
  option_map (fun pss => (map pseq (concat pss), map pmarker (concat pss), map (fun p => nlen (ppayload p)) (concat pss)))
             (enc_many 4 65534 [[[1; 2; 3; 4; 5]; [6]]; [[7]]])
  = Some ([65534; 65535; 0; 1], [false; false; true; true], [4; 4; 4; 2]).
Proof. vm_compute. reflexivity. Qed.

(* ---- the translated kernels (tools/go2coq, regenerated from the Go source on every run) ----
   The integer formulas of rtpav1/encoder.go Encode - the room left in the current packet
   avail := PayloadMaxSize - len(curPacket.Payload), omitSize := (i == len(obus)-1 && obusInPacket < 3),
   needed = obuLen + obuLenLEBSize, the test needed <= avail (with and without the size), avail > 0,
   avail > maxFragmentedLEBSize, fragmentLen := avail - maxFragmentedLEBSize, obusInPacket++, e.sequenceNumber++, the W
   field (obusInPacket + 1) << 4 (both copies) and the |= that set Z, Y, W and N in the aggregation header byte -
   ARE the formulas of Model.enc_obu / hdr_byte / mk_pkts: max - (1 + nlen cbody), last && (ck <? 3),
   obuLen + leb_size obuLen <=? avail, obuLen <=? avail, 0 <? avail, mfl <? avail, avail - mfl, ck + 1, seq_next,
   16 * fw with fw = N.lor cw (ck + 1), + 128 / + 64 / + 8.
   (maxFragmentedLEBSize itself - av1.LEB128(PayloadMaxSize).MarshalSize() - is a call into mediacommon: not translated.) *)
From Coq Require Import ZArith.
From GVG Require Import Kern.
From GV_av1 Require Import BridgeLib Bridge.
Open Scope Z_scope.

Theorem C06_av1_kernels_are_the_code :
  forall (max h : N) (body obu : bytes) (i cnt k s avail mfl : N) (z y n : bool) (w : N) (b : bytes),
  (1 + nlen body <= max)%N -> Z.of_N max < i64max -> Z.of_N (nlen obu + leb_size (nlen obu)) < i64max ->
  (1 <= cnt)%N -> Z.of_N cnt < i64max -> Z.of_N (16 * (k + 1)) < i64max -> Z.of_N avail < i64max ->
  k_av1_avail (Z.of_N max) (Z.of_N (nlen (h :: body))) = Z.of_N (max - (1 + nlen body)) /\
  k_av1_omit (Z.of_N i) (Z.of_N cnt) (Z.of_N k) = ((i + 1 =? cnt) && (k <? 3))%N /\
  k_av1_needed (Z.of_N (nlen obu)) (Z.of_N (leb_size (nlen obu))) = Z.of_N (nlen obu + leb_size (nlen obu)) /\
  k_av1_fits (k_av1_needed (Z.of_N (nlen obu)) (Z.of_N (leb_size (nlen obu)))) (k_av1_avail (Z.of_N max) (Z.of_N (nlen (h :: body))))
    = (nlen obu + leb_size (nlen obu) <=? max - (1 + nlen body))%N /\
  k_av1_fits (Z.of_N (nlen obu)) (k_av1_avail (Z.of_N max) (Z.of_N (nlen (h :: body))))
    = (nlen obu <=? max - (1 + nlen body))%N /\
  k_av1_avail_pos (Z.of_N avail) = (0 <? avail)%N /\
  k_av1_frag_ok (Z.of_N avail) (Z.of_N mfl) = (mfl <? avail)%N /\
  ((mfl <= avail)%N -> k_av1_fraglen (Z.of_N avail) (Z.of_N mfl) = Z.of_N (avail - mfl)) /\
  k_av1_obus_inc (Z.of_N k) = Z.of_N (k + 1) /\ k_av1_seq (Z.of_N s) = Z.of_N (seq_next s) /\
  k_av1_w_whole (Z.of_N k) = Z.of_N (16 * (k + 1)) /\ k_av1_w_frag (Z.of_N k) = Z.of_N (16 * (k + 1)) /\
  ((w < 4)%N -> (k < 3)%N ->
   k_av1_setz (Z.of_N (hdr_byte (mkFin false y w b) n)) = Z.of_N (hdr_byte (mkFin true y w b) n) /\
   k_av1_sety (Z.of_N (hdr_byte (mkFin z false w b) n)) = Z.of_N (hdr_byte (mkFin z true w b) n) /\
   k_av1_setn (Z.of_N (hdr_byte (mkFin z y w b) false)) = Z.of_N (hdr_byte (mkFin z y w b) true) /\
   k_av1_setw_whole (Z.of_N (hdr_byte (mkFin z y w b) n)) (Z.of_N k) = Z.of_N (hdr_byte (mkFin z y (N.lor w (k + 1)) b) n) /\
   k_av1_setw_frag (Z.of_N (hdr_byte (mkFin z y w b) n)) (Z.of_N k) = Z.of_N (hdr_byte (mkFin z y (N.lor w (k + 1)) b) n)).
Proof. exact enc_kernels_are_the_code. Qed.
Print Assumptions C06_av1_kernels_are_the_code.

(* the translated kernels compute, on the boundaries: a 1450-byte limit and a packet holding only its header leave
   1449 bytes; the size is omitted for the last OBU when it is the 1st..3rd of the packet, not when it is the 4th, not
   for an earlier OBU; needed = avail fits, one more does not; avail = 0 writes nothing, avail = 1 a fragment; a sized
   fragment needs avail > maxFragmentedLEBSize; W of the 3rd element is 48; 65535++ = 0; the header bits *)
Example C06_av1_example_kernels :
  k_av1_avail 1450 1 = 1449 /\ k_av1_omit 4 5 2 = true /\ k_av1_omit 4 5 3 = false /\ k_av1_omit 3 5 0 = false /\
  k_av1_fits (k_av1_needed 1447 2) 1449 = true /\ k_av1_fits (k_av1_needed 1448 2) 1449 = false /\
  k_av1_avail_pos 0 = false /\ k_av1_avail_pos 1 = true /\ k_av1_frag_ok 2 2 = false /\ k_av1_frag_ok 3 2 = true /\
  k_av1_fraglen 1449 2 = 1447 /\ k_av1_obus_inc 2 = 3 /\ k_av1_seq 65535 = 0 /\ k_av1_w_whole 2 = 48 /\ k_av1_w_frag 0 = 16 /\
  k_av1_setz 0 = 128 /\ k_av1_sety 144 = 208 /\ k_av1_setn 16 = 24 /\ k_av1_setw_whole 128 1 = 160 /\ k_av1_setw_frag 0 0 = 16.
Proof. vm_compute. repeat split. Qed.

(* ---- translated code (round 8): av1.LEB128.MarshalSize / MarshalTo of the pinned mediacommon module, regenerated from the
   source on every run as programs of the language of GVL.Imp (coq/gen/Prog.v, tools/go2coq -prog), compute the model's
   leb_size / leb_enc for every uint32: the size returned, the bytes written at the front of the buffer, the rest of
   the buffer untouched in length. *)
From GVL Require Import Imp.
From GVG Require Import Prog.
From GV_av1 Require Import LebCode.
Theorem C06_av1_leb_size_program_is_the_model : forall l, (0 <= l < 4294967296)%Z ->
  exists st', bs p_leb_size (mkS [(p_leb_size_v_l, l)] []) (ORet [VZ (Z.of_N (leb_size (Z.to_N l)))] st').
Proof. exact leb_size_program_is_the_model. Qed.
Print Assumptions C06_av1_leb_size_program_is_the_model.

Theorem C06_av1_leb_marshal_program_is_the_model : forall l buf, (0 <= l < 4294967296)%Z -> (leb_size (Z.to_N l) <= nlen buf)%N ->
  exists st' rest, bs p_leb_marshal (mkS [(p_leb_marshal_v_l, l)] [(p_leb_marshal_a_buf, buf)])
                      (ORet [VZ (Z.of_N (leb_size (Z.to_N l)))] st') /\
    A st' p_leb_marshal_a_buf = map Z.of_N (leb_enc (Z.to_N l)) ++ rest /\ (nlen buf = leb_size (Z.to_N l) + nlen rest)%N.
Proof. exact leb_marshal_program_is_the_model. Qed.
Print Assumptions C06_av1_leb_marshal_program_is_the_model.

Example C06_av1_example_leb_program :
  exec 50 p_leb_size (mkS [(p_leb_size_v_l, 300%Z)] []) = ORet [VZ 2%Z] (mkS [(p_leb_size_v_l, 0%Z); (p_leb_size_v_n, 2%Z)] []) /\
  A (match exec 50 p_leb_marshal (mkS [(p_leb_marshal_v_l, 300%Z)] [(p_leb_marshal_a_buf, [9; 9; 9]%Z)]) with ORet _ s => s | _ => mkS [] [] end)
    p_leb_marshal_a_buf = [172; 2; 9]%Z.
Proof. exact leb_program_example. Qed.

(* C06, rtpav1 — statements only (code with fix commit aec245d) *)
From GVL Require Import NList Rtp.
From GV_av1 Require Import Model Proofs.
Open Scope N_scope.

(* For EVERY temporal unit (valid or not), every limit 3 <= max < 2^32 and every initial sequence
   number: Encode terminates without slicing out of range, emits at least one packet, every payload
   is within the limit, packet i carries sequence number seq+i mod 2^16, the marker is set on the
   last packet and on no other, and the encoder continues at seq+count.
   (Payload type, SSRC: constants copied into every header; input immutability: harness oracle.) *)
Theorem C06_av1_packets_wellformed : forall max seq obus, 3 <= max -> max < two32 -> seq < 65536 ->
  exists ps, enc max seq obus = Some (ps, seq_add seq (nlen ps)) /\
    ps <> [] /\
    Forall (fun p => nlen (ppayload p) <= max) ps /\
    (forall i p, nnth i ps = Some p -> pseq p = seq_add seq i /\ pmarker p = (i + 1 =? nlen ps)).
Proof. exact enc_wellformed. Qed.
Print Assumptions C06_av1_packets_wellformed.

(* across any series of Encode calls the sequence numbers increase by one modulo 2^16 *)
Theorem C06_av1_gapless_across_calls : forall max frames, 3 <= max -> max < two32 -> forall seq, seq < 65536 ->
  exists pss, enc_many max seq frames = Some pss /\
    forall i p, nnth i (concat pss) = Some p -> pseq p = seq_add seq i.
Proof. exact enc_many_gapless. Qed.
Print Assumptions C06_av1_gapless_across_calls.

Example C06_av1_example :
  option_map (fun pss => (map pseq (concat pss), map pmarker (concat pss), map (fun p => nlen (ppayload p)) (concat pss)))
             (enc_many 4 65534 [[[1; 2; 3; 4; 5]; [6]]; [[7]]])
  = Some ([65534; 65535; 0; 1], [false; false; true; true], [4; 4; 4; 2]).
Proof. vm_compute. reflexivity. Qed.

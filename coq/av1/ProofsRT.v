(* rtpav1 round trip (C03): what the decoder does with the packets of the encoder.
   The simulation is proved for the repaired encoder [enc_g true]; the code that exists is covered
   wherever it produces the same packets. *)
From GVL Require Import NList Wire Rtp.
From GVG Require Import Consts.
From GV_av1 Require Import Model Leb ProofsDec ProofsEnc.
From Coq Require Import ZifyBool ZifyNat ZifyN.
Open Scope N_scope.

Definition sized (e : bytes) : bytes := leb_enc (nlen e) ++ e.
Definition elem_ok (e : bytes) : Prop := 0 < nlen e /\ nlen e < two32.

Lemma elem_ok_nonempty es : Forall elem_ok es -> Forall nonempty es.
Proof. apply Forall_impl. intros a [H _]. exact H. Qed.

Lemma leb_enc_len_pos v : 1 <= nlen (leb_enc v).
Proof. rewrite <- leb_size_len. apply leb_size_bounds. Qed.

(* ---- the element loop on a well-formed body ---- *)
Definition tail_obus (tail : bytes) : list bytes := match tail with [] => [] | _ => [tail] end.

Lemma parse_elems es : forall fuel w tail acc,
  Forall elem_ok es -> nlen (concat (map sized es) ++ tail) <= nlen fuel -> w <= 3 ->
  (w = 0 /\ tail = []) \/ (w = nlen acc + nlen es + 1 /\ tail <> []) ->
  parse_obus fuel w (concat (map sized es) ++ tail) acc = POk (acc ++ es ++ tail_obus tail).
Proof.
  induction es as [|e es IH]; intros fuel w tail acc Hok Hf Hw Hc.
  - cbn [map concat app] in *. destruct tail as [|b t].
    + destruct fuel; cbn [parse_obus tail_obus]; now rewrite app_nil_r.
    + destruct fuel as [|f0 fuel]; [cbn [nlen] in Hf; lia|]. cbn [parse_obus tail_obus].
      destruct Hc as [[_ Hc]|[Hc _]]; [discriminate|]. cbn [nlen] in Hc.
      destruct (N.eqb_spec w 0); [lia|]. cbn [orb].
      rewrite N.mod_small by lia. destruct (N.ltb_spec (nlen acc) (w - 1)); [lia|]. reflexivity.
  - inversion Hok as [|? ? [He1 He2] Hok']; subst.
    cbn [map concat]. unfold sized at 1. rewrite <- !app_assoc.
    set (rest := concat (map sized es) ++ tail).
    remember (leb_enc (nlen e) ++ e ++ rest) as pl eqn:Epl.
    assert (Hpl : nlen pl = nlen (leb_enc (nlen e)) + nlen e + nlen rest) by (subst pl; rewrite !nlen_app; lia).
    pose proof (leb_enc_len_pos (nlen e)) as Hlp.
    assert (Hf' : nlen pl <= nlen fuel).
    { revert Hf. cbn [map concat]. unfold sized at 1. rewrite <- !app_assoc. fold rest. rewrite <- Epl. auto. }
    destruct pl as [|b t] eqn:Epl2; [cbn [nlen] in Hpl; lia|].
    destruct fuel as [|f0 fuel]; [cbn [nlen] in Hf'; lia|].
    cbn [parse_obus].
    assert (Hcond : (w =? 0) || (nlen acc mod 256 <? w - 1) = true).
    { destruct Hc as [[-> _]|[Hc _]]; [reflexivity|]. cbn [nlen] in Hc.
      rewrite N.mod_small by lia. apply orb_true_iff. right. apply N.ltb_lt. lia. }
    rewrite Hcond. rewrite Epl. rewrite leb_dec_enc by exact He2.
    rewrite leb_size_len. rewrite <- Epl.
    destruct (N.ltb_spec (nlen (b :: t)) (nlen (leb_enc (nlen e)))); [lia|].
    rewrite Epl. rewrite ndrop_app_exact.
    destruct (N.eqb_spec (nlen e) 0); [lia|]. cbn [orb].
    destruct (N.ltb_spec (nlen (e ++ rest)) (nlen e)); [rewrite nlen_app in *; lia|].
    rewrite ntake_app_exact, ndrop_app_exact.
    unfold rest. rewrite IH; [|exact Hok'| |exact Hw|].
    + rewrite <- app_assoc. reflexivity.
    + fold rest. cbn [nlen] in Hf', Hpl. lia.
    + destruct Hc as [Hc|[Hc Ht]]; [left; exact Hc|right]. split; [|exact Ht].
      rewrite nlen_app. cbn [nlen] in *. lia.
Qed.

(* ---- the aggregation header ---- *)
Lemma hdr_bits z y w body n : w <= 3 ->
  let h := hdr_byte (mkFin z y w body) n in
  ((h / 128) mod 2 =? 1) = z /\ ((h / 64) mod 2 =? 1) = y /\ (h / 16) mod 4 = w.
Proof.
  intros Hw. assert (Hc : w = 0 \/ w = 1 \/ w = 2 \/ w = 3) by lia.
  destruct Hc as [-> |[-> |[-> | ->]]]; destruct z, y, n; vm_compute; auto.
Qed.

(* content of a closed packet: sized elements, then possibly one element without size (W = count) *)
Record frep (f : fin) (es : list bytes) (tail : bytes) : Prop := {
  fr_body : fbody f = concat (map sized es) ++ tail;
  fr_ok : Forall elem_ok es;
  fr_w : (fw f = 0 /\ tail = []) \/ (fw f = nlen es + 1 /\ tail <> [] /\ nlen es <= 2);
  fr_ne : es <> [] \/ tail <> [] }.

Lemma dec_fin dfx d seq ts m n f es tail : frep f es tail ->
  dec_g dfx d (mkPkt seq ts m (hdr_byte f n :: fbody f)) =
  finish m (post_parse dfx d seq (fz f) (fy f) (fw f) (es ++ tail_obus tail)).
Proof.
  intros [Hb Hok Hw Hne]. unfold dec_g, decode_obus. cbn [ppayload pseq pmarker nlen].
  assert (Hbl : 1 <= nlen (fbody f)).
  { rewrite Hb, nlen_app. destruct Hne as [Hne|Hne].
    - destruct es as [|e es']; [contradiction|]. cbn [map concat]. unfold sized. rewrite !nlen_app.
      pose proof (leb_enc_len_pos (nlen e)). lia.
    - destruct tail; [contradiction|]. cbn [nlen]. lia. }
  destruct (N.ltb_spec (N.succ (nlen (fbody f))) 2); [lia|].
  unfold decode_body.
  assert (Hw3 : fw f <= 3) by (destruct Hw as [[-> _]|[-> [_ ?]]]; lia).
  destruct f as [z y w body]. cbn [fz fy fw fbody] in *.
  destruct (hdr_bits z y w body n Hw3) as (-> & -> & ->).
  rewrite Hb at 2. rewrite parse_elems; [reflexivity|exact Hok|rewrite Hb; lia|exact Hw3|].
  cbn [nlen]. destruct Hw as [[-> ->]|[-> [? ?]]]; [left; auto|right; split; [lia|assumption]].
Qed.

(* ---- decoder states during a round trip ---- *)
Definition pend (d : dstate) : bytes := concat (dfrags d).

(* [view z d os]: the OBUs completed so far and the bytes of the OBU in progress, when the decoder
   is in state [d] and the packet under construction (Z flag [z]) holds the elements [os] *)
Definition view (z : bool) (d : dstate) (os : list bytes) : list bytes * bytes :=
  if z then match os with
            | [] => (dbuf d, pend d)
            | o1 :: os' => (dbuf d ++ (pend d ++ o1) :: os', [])
            end
  else (dbuf d ++ os, []).

Record DOK (z : bool) (d : dstate) (s : N) : Prop := {
  dok_exact : dsize d = nlen (pend d);
  dok_len : dbuflen d = nlen (dbuf d);
  dok_bsz : dbufsize d = tu_size (dbuf d);
  dok_z : if z then pend d <> [] /\ dnext d = s else dfrags d = [] }.

Lemma reset_frags_id d : dfrags d = [] -> dsize d = 0 -> reset_frags d = d.
Proof. destruct d. cbn. intros -> ->. reflexivity. Qed.

Lemma nlen_pos_ne {A} (l : list A) : l <> [] -> 0 < nlen l.
Proof. destruct l; [contradiction|]. cbn [nlen]. lia. Qed.
Lemma ne_nlen_pos {A} (l : list A) : 0 < nlen l -> l <> [].
Proof. destruct l; cbn [nlen]; [lia|discriminate]. Qed.

(* a closed packet whose last element is a fragment start / middle piece [p1] (Y = 1) *)
Lemma dec_closed_y dfx z d s es p1 w comp part :
  DOK z d s -> view z d es = (comp, part) -> Forall nonempty es -> nonempty p1 ->
  (w = 0 \/ w = nlen es + 1) ->
  nlen comp + 1 <= cap_obus -> tu_size comp + nlen part + nlen p1 <= cap_size ->
  exists d', finish false (post_parse dfx d s z true w (es ++ [p1])) = (d', DMore) /\
             DOK true d' (seq_next s) /\ view true d' [] = (comp, part ++ p1).
Proof.
  intros [He Hl Hb Hz] Hv Hes Hp1 Hw Hc1 Hc2. unfold post_parse.
  assert (HW : negb (w =? 0) && negb (nlen (es ++ [p1]) =? w) = false).
  { rewrite nlen_app. cbn [nlen]. destruct Hw as [-> | ->]; [reflexivity|].
    apply andb_false_iff. right. apply negb_false_iff. apply N.eqb_eq. lia. }
  rewrite HW. unfold view in Hv.
  destruct z.
  - destruct Hz as [Hpe Hnx].
    assert (Hds : dsize d <> 0) by (rewrite He; apply nlen_pos_ne in Hpe; lia).
    destruct (N.eqb_spec (dsize d) 0); [contradiction|].
    rewrite Hnx, N.eqb_refl. cbn [negb].
    destruct es as [|e1 es'].
    + (* middle piece *)
      injection Hv as <- <-. cbn [app nlen]. 
      destruct (N.ltb_spec cap_size (dsize d + nlen p1)); [rewrite He in *; lia|].
      cbn [N.eqb Pos.eqb andb finish]. eexists. split; [reflexivity|]. split.
      * constructor; unfold pend in *; cbn [dsize dfrags dnext dbuf dbuflen dbufsize]; auto.
        -- rewrite concat_snoc, nlen_app. lia.
        -- split; [|reflexivity]. rewrite concat_snoc. intros E.
           apply app_eq_nil in E. destruct E as [_ E]. subst p1. unfold nonempty in Hp1. cbn in Hp1. lia.
      * unfold view, pend. cbn [dbuf dfrags]. now rewrite concat_snoc.
    + (* the first element completes the OBU in progress, the last one starts a new one *)
      injection Hv as <- <-. inversion Hes as [|? ? He1 Hes']; subst. cbn [app nlen].
      rewrite tu_size_app, tu_size_cons in Hc2.
      destruct (N.ltb_spec cap_size (dsize d + nlen e1)); [rewrite He in *; unfold pend in *; rewrite nlen_app in Hc2; lia|].
      destruct (N.eqb_spec (N.succ (nlen (es' ++ [p1]))) 1) as [E1|E1]; [rewrite nlen_app in E1; cbn [nlen] in E1; lia|].
      cbn [andb dfrags].
      assert (Hj : join (dfrags d ++ [e1]) (dsize d + nlen e1) = Some (pend d ++ e1)).
      { replace (dsize d + nlen e1) with (nlen (concat (dfrags d ++ [e1]))).
        - rewrite join_exact. now rewrite concat_snoc.
        - rewrite concat_snoc, nlen_app. unfold pend in He. lia. }
      rewrite Hj.
      change ((pend d ++ e1) :: es' ++ [p1]) with (((pend d ++ e1) :: es') ++ [p1]).
      rewrite split_last_snoc. cbn [nlen].
      destruct (N.eqb_spec (N.succ (nlen es')) 0); [lia|].
      cbn [reset_frags dfrags dsize dnext dbuf dbuflen dbufsize app finish]. cbn [nlen].
      rewrite nlen_app in Hc1. cbn [nlen] in Hc1.
      destruct (N.ltb_spec cap_obus (dbuflen d + N.succ (nlen es'))); [lia|].
      rewrite tu_size_cons.
      destruct (N.ltb_spec cap_size (dbufsize d + (nlen (pend d ++ e1) + tu_size es'))); [lia|].
      cbn [negb]. eexists. split; [reflexivity|]. split.
      * constructor; unfold pend in *; cbn [dsize dfrags dnext dbuf dbuflen dbufsize concat]; auto.
        -- now rewrite app_nil_r.
        -- rewrite nlen_app. cbn [nlen]. lia.
        -- rewrite tu_size_app, tu_size_cons. lia.
        -- rewrite app_nil_r. split; [apply ne_nlen_pos; exact Hp1|reflexivity].
      * unfold view, pend. cbn [dbuf dfrags concat]. now rewrite app_nil_r.
  - (* no continuation: the fragment list is empty *)
    injection Hv as <- <-.
    assert (Hsz : dsize d = 0) by (rewrite He; unfold pend; rewrite Hz; reflexivity).
    assert (Hd1 : (if dfx then reset_frags d else d) = d) by (destruct dfx; [apply reset_frags_id; assumption|reflexivity]).
    rewrite Hd1. rewrite split_last_snoc. rewrite Hz. cbn [app].
    rewrite tu_size_app in Hc2. rewrite nlen_app in Hc1.
    destruct (N.eqb_spec (nlen es) 0) as [E0|E0].
    + cbn [finish]. eexists. split; [reflexivity|]. apply nlen_nil_iff in E0. subst es. split.
      * constructor; unfold pend in *; cbn [dsize dfrags dnext dbuf dbuflen dbufsize concat]; auto.
        -- now rewrite app_nil_r.
        -- rewrite app_nil_r. split; [apply ne_nlen_pos; exact Hp1|reflexivity].
      * unfold view, pend. cbn [dbuf dfrags concat]. now rewrite !app_nil_r.
    + cbn [finish dfrags dsize dnext dbuf dbuflen dbufsize].
      destruct (N.ltb_spec cap_obus (dbuflen d + nlen es)); [lia|].
      destruct (N.ltb_spec cap_size (dbufsize d + tu_size es)); [lia|].
      cbn [negb]. eexists. split; [reflexivity|]. split.
      * constructor; unfold pend in *; cbn [dsize dfrags dnext dbuf dbuflen dbufsize concat]; auto.
        -- now rewrite app_nil_r.
        -- rewrite nlen_app. lia.
        -- rewrite tu_size_app. lia.
        -- rewrite app_nil_r. split; [apply ne_nlen_pos; exact Hp1|reflexivity].
      * unfold view, pend. cbn [dbuf dfrags concat]. now rewrite app_nil_r.
Qed.

(* a closed packet that ends with a complete element (Y = 0); with the marker it completes the
   temporal unit *)
Lemma dec_closed_n dfx z d s os w comp part m :
  DOK z d s -> view z d os = (comp, part) -> os <> [] -> (w = 0 \/ w = nlen os) ->
  nlen comp <= cap_obus -> tu_size comp <= cap_size ->
  exists d', finish m (post_parse dfx d s z false w os) = (d', if m then DFrame comp else DMore) /\
    dfrags d' = [] /\ dsize d' = 0 /\ part = [] /\
    (if m then buf_clean d' else dbuf d' = comp /\ dbuflen d' = nlen comp /\ dbufsize d' = tu_size comp).
Proof.
  intros [He Hl Hb Hz] Hv Hne Hw Hc1 Hc2. unfold post_parse.
  assert (HW : negb (w =? 0) && negb (nlen os =? w) = false).
  { destruct Hw as [-> | ->]; [reflexivity|]. rewrite N.eqb_refl. apply andb_false_r. }
  rewrite HW. unfold view in Hv.
  destruct z.
  - destruct Hz as [Hpe Hnx].
    assert (Hds : dsize d <> 0) by (rewrite He; apply nlen_pos_ne in Hpe; lia).
    destruct (N.eqb_spec (dsize d) 0); [contradiction|].
    rewrite Hnx, N.eqb_refl. cbn [negb].
    destruct os as [|o1 os']; [contradiction|]. injection Hv as <- <-.
    rewrite tu_size_app, tu_size_cons, nlen_app in Hc2. rewrite nlen_app in Hc1. cbn [nlen] in Hc1.
    destruct (N.ltb_spec cap_size (dsize d + nlen o1)); [rewrite He in *; lia|].
    rewrite andb_false_r. cbn [dfrags].
    assert (Hj : join (dfrags d ++ [o1]) (dsize d + nlen o1) = Some (pend d ++ o1)).
    { replace (dsize d + nlen o1) with (nlen (concat (dfrags d ++ [o1]))).
      - rewrite join_exact. now rewrite concat_snoc.
      - rewrite concat_snoc, nlen_app. unfold pend in He. lia. }
    rewrite Hj. cbn [finish reset_frags dfrags dsize dnext dbuf dbuflen dbufsize]. cbn [nlen].
    destruct (N.ltb_spec cap_obus (dbuflen d + N.succ (nlen os'))); [lia|].
    rewrite tu_size_cons, nlen_app.
    destruct (N.ltb_spec cap_size (dbufsize d + (nlen (pend d) + nlen o1 + tu_size os'))); [lia|].
    destruct m; cbn [negb]; eexists; (split; [reflexivity|]); cbn [clear_buf dfrags dsize dbuf dbuflen dbufsize];
      repeat split; auto.
    + rewrite nlen_app. cbn [nlen]. lia.
    + rewrite tu_size_app, tu_size_cons, nlen_app. lia.
  - injection Hv as <- <-.
    assert (Hsz : dsize d = 0) by (rewrite He; unfold pend; rewrite Hz; reflexivity).
    assert (Hd1 : (if dfx then reset_frags d else d) = d) by (destruct dfx; [apply reset_frags_id; assumption|reflexivity]).
    rewrite Hd1. cbn [finish].
    rewrite nlen_app in Hc1. rewrite tu_size_app in Hc2.
    destruct (N.ltb_spec cap_obus (dbuflen d + nlen os)); [lia|].
    destruct (N.ltb_spec cap_size (dbufsize d + tu_size os)); [lia|].
    destruct m; cbn [negb]; eexists; (split; [reflexivity|]); cbn [clear_buf dfrags dsize dbuf dbuflen dbufsize];
      repeat split; auto.
    + rewrite nlen_app. lia.
    + rewrite tu_size_app. lia.
Qed.

Lemma view_snoc z d es r comp part :
  view z d es = (comp, part) -> view z d (es ++ [r]) = (comp ++ [part ++ r], []).
Proof.
  unfold view. destruct z.
  - destruct es as [|e1 es']; intros H; injection H as <- <-; cbn [app].
    + reflexivity.
    + now rewrite <- app_assoc.
  - intros H; injection H as <- <-. cbn [app]. now rewrite <- app_assoc.
Qed.

Lemma tail_obus_ne r : r <> [] -> tail_obus r = [r].
Proof. destruct r; [contradiction|reflexivity]. Qed.

(* packets of closed fins that are not the last of the frame *)
Fixpoint mid_pkts (seq : N) (n : bool) (fs : list fin) : list packet :=
  match fs with
  | [] => []
  | f :: t => mkPkt seq 0 false (hdr_byte f n :: fbody f) :: mid_pkts (seq_next seq) false t
  end.

Lemma seq_next_lt s : seq_next s < 65536.
Proof. unfold seq_next. apply N.mod_lt. lia. Qed.

Lemma cons_fin_inv f r fs c : cons_fin f r = EOk fs c -> exists fs1, r = EOk fs1 c /\ fs = f :: fs1.
Proof. destruct r; cbn; intros H; try discriminate. injection H as <- <-. eauto. Qed.

Lemma DOK_of_clean d s : dfrags d = [] -> dsize d = 0 -> dbuflen d = nlen (dbuf d) -> dbufsize d = tu_size (dbuf d) ->
  DOK false d s.
Proof. intros A B C D. constructor; auto. unfold pend. now rewrite A. Qed.

Section Sim.
Variable dfx : bool.
Variable max : N.
Hypothesis Hmax : 3 <= max.
Hypothesis Hmax2 : max < two32.

Lemma enc_obu_sim last : forall fuel r c es d s nflag comp part fs c',
  enc_obu true fuel max (leb_size max) last r c = EOk fs c' ->
  s < 65536 ->
  cbody c = concat (map sized es) -> cw c = 0 -> ck c = nlen es -> Forall elem_ok es ->
  1 + nlen (cbody c) <= max ->
  DOK (cz c) d s -> view (cz c) d es = (comp, part) ->
  0 < nlen r -> nlen r < two32 ->
  nlen comp + 1 <= cap_obus -> tu_size comp + nlen part + nlen r <= cap_size ->
  exists d' es' tail,
    dec_run_g dfx d (mid_pkts s nflag fs) = (d', repeat DMore (length fs)) /\
    cbody c' = concat (map sized es') ++ tail /\ ck c' = nlen es' /\ Forall elem_ok es' /\
    1 + nlen (cbody c') <= max /\
    ((tail = [] /\ cw c' = 0) \/ (tail <> [] /\ cw c' = nlen es' + 1 /\ nlen es' <= 2 /\ last = true)) /\
    DOK (cz c') d' (seq_add s (nlen fs)) /\
    view (cz c') d' (es' ++ tail_obus tail) = (comp ++ [part ++ r], []) /\
    (es' <> [] \/ tail <> []).
Proof.
  pose proof (leb_size_room max Hmax Hmax2) as Hroom.
  induction fuel as [|f0 fuel IH]; intros r c es d s nflag comp part fs c' E Hs Hbody Hcw Hck Hes Hb HD Hv Hr Hr2 Hc1 Hc2;
    [discriminate|].
  cbn [enc_obu] in E.
  set (avail := max - (1 + nlen (cbody c))) in *.
  assert (Hav : avail + 1 + nlen (cbody c) = max) by (unfold avail; lia).
  assert (Hrne : r <> []) by (apply ne_nlen_pos; exact Hr).
  pose proof (elem_ok_nonempty es Hes) as Hesn.
  destruct (last && (ck c <? 3)) eqn:Eomit.
  - apply andb_true_iff in Eomit. destruct Eomit as [-> Hk]. apply N.ltb_lt in Hk.
    destruct (N.leb_spec (nlen r) avail) as [Hfit|Hnofit].
    + (* the last OBU fits, without size *)
      injection E as <- <-. exists d, es, r. cbn [mid_pkts dec_run_g length repeat cbody cw ck cz nlen].
      rewrite Hcw, N.lor_0_l, Hbody, Hck. split; [reflexivity|]. split; [reflexivity|]. split; [reflexivity|].
      split; [exact Hes|]. split; [rewrite nlen_app; rewrite Hbody in Hav; lia|].
      split; [right; repeat split; auto; lia|].
      split; [rewrite ProofsEnc.seq_add_0 by exact Hs; exact HD|].
      split; [|right; exact Hrne]. rewrite tail_obus_ne by exact Hrne. now apply view_snoc.
    + destruct (N.ltb_spec 0 avail) as [Hpos|Hzero].
      * (* first piece, without size *)
        apply cons_fin_inv in E. destruct E as (fs1 & E & ->).
        set (p1 := ntake avail r) in *.
        assert (Hp1 : nonempty p1) by (unfold nonempty, p1; rewrite nlen_ntake; lia).
        set (f1 := mkFin (cz c) true (N.lor (cw c) (ck c + 1)) (cbody c ++ p1)) in *.
        assert (Hf1 : frep f1 es p1).
        { constructor; cbn [fbody fw f1]; [now rewrite Hbody|exact Hes| |right; apply ne_nlen_pos; exact Hp1].
          right. rewrite Hcw, N.lor_0_l, Hck. repeat split; [apply ne_nlen_pos; exact Hp1|lia]. }
        destruct (dec_closed_y dfx (cz c) d s es p1 (nlen es + 1) comp part HD Hv Hesn Hp1 ltac:(right; reflexivity) Hc1)
          as (d1 & Hd1 & HD1 & Hv1).
        { unfold p1. rewrite nlen_ntake. lia. }
        destruct (IH (ndrop avail r) (fresh true) [] d1 (seq_next s) false comp (part ++ p1) fs1 c' E
                    (seq_next_lt s) eq_refl eq_refl eq_refl ltac:(constructor) ltac:(cbn; lia) HD1 Hv1)
          as (d' & es' & tail & Hrun & A1 & A2 & A3 & A4 & A5 & A6 & A7 & A8).
        { rewrite nlen_ndrop. lia. } { rewrite nlen_ndrop. lia. } { exact Hc1. }
        { rewrite nlen_app, nlen_ndrop. unfold p1. rewrite nlen_ntake. lia. }
        exists d', es', tail. cbn [mid_pkts dec_run_g length repeat].
        rewrite (dec_fin dfx d s 0 false nflag f1 es p1 Hf1). cbn [fz fy fw f1].
        rewrite Hcw, N.lor_0_l, Hck, tail_obus_ne by (apply ne_nlen_pos; exact Hp1).
        rewrite Hd1, Hrun. split; [reflexivity|]. repeat (split; [assumption|]).
        split; [cbn [nlen]; rewrite ProofsEnc.seq_add_next in A6; replace (N.succ (nlen fs1)) with (nlen fs1 + 1) by lia; exact A6|].
        split; [|exact A8]. rewrite A7. unfold p1. now rewrite <- app_assoc, ntake_ndrop.
      * (* nothing fits: the packet is closed without Y, the OBU starts the next packet *)
        cbn [negb] in E. apply cons_fin_inv in E. destruct E as (fs1 & E & ->).
        assert (Hesne : es <> []).
        { intros ->. cbn [map concat] in Hbody. rewrite Hbody in Hav. cbn [nlen] in Hav. lia. }
        set (f1 := finalize c false) in *.
        assert (Hf1 : frep f1 es []).
        { constructor; cbn [fbody fw f1 finalize]; [now rewrite Hbody, app_nil_r|exact Hes|left; auto|left; exact Hesne]. }
        destruct (dec_closed_n dfx (cz c) d s es 0 comp part false HD Hv Hesne ltac:(left; reflexivity) ltac:(lia) ltac:(lia))
          as (d1 & Hd1 & B1 & B2 & B3 & B4 & B5 & B6).
        subst part.
        assert (HD1 : DOK false d1 (seq_next s)) by (apply DOK_of_clean; congruence).
        assert (Hv1 : view false d1 [] = (comp, [])) by (unfold view; now rewrite B4, app_nil_r).
        destruct (IH r (fresh false) [] d1 (seq_next s) false comp [] fs1 c' E
                    (seq_next_lt s) eq_refl eq_refl eq_refl ltac:(constructor) ltac:(cbn; lia) HD1 Hv1 Hr Hr2 Hc1 Hc2)
          as (d' & es' & tail & Hrun & A1 & A2 & A3 & A4 & A5 & A6 & A7 & A8).
        exists d', es', tail. cbn [mid_pkts dec_run_g length repeat].
        rewrite (dec_fin dfx d s 0 false nflag f1 es [] Hf1). cbn [fz fy fw f1 finalize tail_obus].
        rewrite Hcw, app_nil_r, Hd1, Hrun. split; [reflexivity|]. repeat (split; [assumption|]).
        split; [cbn [nlen]; rewrite ProofsEnc.seq_add_next in A6; replace (N.succ (nlen fs1)) with (nlen fs1 + 1) by lia; exact A6|].
        split; [exact A7|exact A8].
  - (* with size *)
    assert (Hlast : (tail_obus [] : list bytes) = []) by reflexivity.
    destruct (N.leb_spec (nlen r + leb_size (nlen r)) avail) as [Hfit|Hnofit].
    + injection E as <- <-. exists d, (es ++ [r]), []. cbn [mid_pkts dec_run_g length repeat cbody cw ck cz nlen].
      split; [reflexivity|]. rewrite app_nil_r.
      split; [rewrite Hbody, map_app, concat_app; cbn [map concat]; unfold sized; now rewrite app_nil_r|].
      split; [rewrite nlen_app; cbn [nlen]; lia|].
      split; [apply Forall_app; split; [exact Hes|constructor; [split; assumption|constructor]]|].
      split; [rewrite !nlen_app, <- leb_size_len; rewrite Hbody in Hav; rewrite Hbody; lia|].
      split; [left; auto|].
      split; [rewrite ProofsEnc.seq_add_0 by exact Hs; exact HD|].
      split; [|left; destruct es; discriminate]. cbn [tail_obus]. rewrite app_nil_r. now apply view_snoc.
    + destruct (N.ltb_spec (leb_size max) avail) as [Hroom2|Hnoroom].
      * (* first piece, with size *)
        set (fl := avail - leb_size max) in *.
        assert (Hfl : fl < nlen r).
        { destruct (N.leb_spec (nlen r) max) as [Hle|Hgt]; [|unfold fl; lia].
          pose proof (leb_size_mono (nlen r) max Hle Hmax2). unfold fl. lia. }
        destruct (N.ltb_spec (nlen r) fl); [lia|].
        apply cons_fin_inv in E. destruct E as (fs1 & E & ->).
        set (p1 := ntake fl r) in *.
        assert (Hp1l : nlen p1 = fl) by (unfold p1; rewrite nlen_ntake; lia).
        assert (Hp1 : nonempty p1) by (unfold nonempty; rewrite Hp1l; unfold fl; lia).
        set (f1 := mkFin (cz c) true (cw c) (cbody c ++ leb_enc fl ++ p1)) in *.
        assert (Hf1 : frep f1 (es ++ [p1]) []).
        { constructor; cbn [fbody fw f1].
          - rewrite Hbody, map_app, concat_app. cbn [map concat]. unfold sized. rewrite Hp1l. now rewrite !app_nil_r.
          - apply Forall_app. split; [exact Hes|]. constructor; [|constructor]. split; [exact Hp1|]. rewrite Hp1l. lia.
          - left. auto.
          - left. destruct es; discriminate. }
        destruct (dec_closed_y dfx (cz c) d s es p1 0 comp part HD Hv Hesn Hp1 ltac:(left; reflexivity) Hc1)
          as (d1 & Hd1 & HD1 & Hv1).
        { rewrite Hp1l. lia. }
        destruct (IH (ndrop fl r) (fresh true) [] d1 (seq_next s) false comp (part ++ p1) fs1 c' E
                    (seq_next_lt s) eq_refl eq_refl eq_refl ltac:(constructor) ltac:(cbn; lia) HD1 Hv1)
          as (d' & es' & tail & Hrun & A1 & A2 & A3 & A4 & A5 & A6 & A7 & A8).
        { rewrite nlen_ndrop. lia. } { rewrite nlen_ndrop. lia. } { exact Hc1. }
        { rewrite nlen_app, nlen_ndrop, Hp1l. lia. }
        exists d', es', tail. cbn [mid_pkts dec_run_g length repeat].
        rewrite (dec_fin dfx d s 0 false nflag f1 (es ++ [p1]) [] Hf1). cbn [fz fy fw f1 tail_obus].
        rewrite Hcw, app_nil_r, Hd1, Hrun. split; [reflexivity|]. repeat (split; [assumption|]).
        split; [cbn [nlen]; rewrite ProofsEnc.seq_add_next in A6; replace (N.succ (nlen fs1)) with (nlen fs1 + 1) by lia; exact A6|].
        split; [|exact A8]. rewrite A7. unfold p1. now rewrite <- app_assoc, ntake_ndrop.
      * (* no room for a sized piece: the packet is closed without Y *)
        cbn [negb] in E. apply cons_fin_inv in E. destruct E as (fs1 & E & ->).
        assert (Hesne : es <> []).
        { intros ->. cbn [map concat] in Hbody. rewrite Hbody in Hav. cbn [nlen] in Hav. lia. }
        set (f1 := finalize c false) in *.
        assert (Hf1 : frep f1 es []).
        { constructor; cbn [fbody fw f1 finalize]; [now rewrite Hbody, app_nil_r|exact Hes|left; auto|left; exact Hesne]. }
        destruct (dec_closed_n dfx (cz c) d s es 0 comp part false HD Hv Hesne ltac:(left; reflexivity) ltac:(lia) ltac:(lia))
          as (d1 & Hd1 & B1 & B2 & B3 & B4 & B5 & B6).
        subst part.
        assert (HD1 : DOK false d1 (seq_next s)) by (apply DOK_of_clean; congruence).
        assert (Hv1 : view false d1 [] = (comp, [])) by (unfold view; now rewrite B4, app_nil_r).
        destruct (IH r (fresh false) [] d1 (seq_next s) false comp [] fs1 c' E
                    (seq_next_lt s) eq_refl eq_refl eq_refl ltac:(constructor) ltac:(cbn; lia) HD1 Hv1 Hr Hr2 Hc1 Hc2)
          as (d' & es' & tail & Hrun & A1 & A2 & A3 & A4 & A5 & A6 & A7 & A8).
        exists d', es', tail. cbn [mid_pkts dec_run_g length repeat].
        rewrite (dec_fin dfx d s 0 false nflag f1 es [] Hf1). cbn [fz fy fw f1 finalize tail_obus].
        rewrite Hcw, app_nil_r, Hd1, Hrun. split; [reflexivity|]. repeat (split; [assumption|]).
        split; [cbn [nlen]; rewrite ProofsEnc.seq_add_next in A6; replace (N.succ (nlen fs1)) with (nlen fs1 + 1) by lia; exact A6|].
        split; [exact A7|exact A8].
Qed.

Lemma dec_run_app dfx0 ps1 ps2 d :
  dec_run_g dfx0 d (ps1 ++ ps2) =
  let '(d1, r1) := dec_run_g dfx0 d ps1 in let '(d2, r2) := dec_run_g dfx0 d1 ps2 in (d2, r1 ++ r2).
Proof.
  revert d; induction ps1 as [|p t IH]; intros d; cbn [app dec_run_g].
  - destruct (dec_run_g dfx0 d ps2); reflexivity.
  - destruct (dec_g dfx0 d p) as [d' r]. rewrite IH. destruct (dec_run_g dfx0 d' t) as [d1 r1].
    destruct (dec_run_g dfx0 d1 ps2) as [d2 r2]. reflexivity.
Qed.

Lemma mid_pkts_app a : forall s n b, s < 65536 ->
  mid_pkts s n (a ++ b) = mid_pkts s n a ++ mid_pkts (seq_add s (nlen a)) (match a with [] => n | _ => false end) b.
Proof.
  induction a as [|f t IH]; intros s n b Hs; cbn [app mid_pkts nlen].
  - now rewrite ProofsEnc.seq_add_0.
  - f_equal. rewrite IH by apply seq_next_lt. f_equal. rewrite ProofsEnc.seq_add_next.
    replace (nlen t + 1) with (N.succ (nlen t)) by lia. destruct t; reflexivity.
Qed.

Lemma mk_pkts_snoc fs : forall s n f, s < 65536 ->
  mk_pkts s n (fs ++ [f]) =
  mid_pkts s n fs ++ [mkPkt (seq_add s (nlen fs)) 0 true (hdr_byte f (match fs with [] => n | _ => false end) :: fbody f)].
Proof.
  induction fs as [|f0 t IH]; intros s n f Hs; cbn [app mk_pkts mid_pkts nlen].
  - now rewrite ProofsEnc.seq_add_0.
  - destruct (t ++ [f]) eqn:E; [destruct t; discriminate|]. rewrite <- E. f_equal.
    rewrite IH by apply seq_next_lt. f_equal. rewrite ProofsEnc.seq_add_next.
    replace (nlen t + 1) with (N.succ (nlen t)) by lia. destruct t; reflexivity.
Qed.

Lemma mid_pkts_length fs : forall s n, length (mid_pkts s n fs) = length fs.
Proof. induction fs as [|f t IH]; intros s n; cbn [mid_pkts length]; [reflexivity|]. now rewrite IH. Qed.

Definition obu_ok (o : bytes) : Prop := 0 < nlen o /\ nlen o < two32.

Lemma enc_obus_sim : forall obus c es d s nflag comp fs c',
  enc_obus true max (leb_size max) obus c = EOk fs c' ->
  s < 65536 ->
  cbody c = concat (map sized es) -> cw c = 0 -> ck c = nlen es -> Forall elem_ok es ->
  1 + nlen (cbody c) <= max ->
  DOK (cz c) d s -> view (cz c) d es = (comp, []) ->
  Forall obu_ok obus ->
  nlen comp + nlen obus <= cap_obus -> tu_size comp + tu_size obus <= cap_size ->
  exists d' es' tail,
    dec_run_g dfx d (mid_pkts s nflag fs) = (d', repeat DMore (length fs)) /\
    cbody c' = concat (map sized es') ++ tail /\ Forall elem_ok es' /\
    ((tail = [] /\ cw c' = 0) \/ (tail <> [] /\ cw c' = nlen es' + 1 /\ nlen es' <= 2)) /\
    DOK (cz c') d' (seq_add s (nlen fs)) /\
    view (cz c') d' (es' ++ tail_obus tail) = (comp ++ obus, []) /\
    (obus <> [] -> es' <> [] \/ tail <> []).
Proof.
  induction obus as [|o t IH]; intros c es d s nflag comp fs c' E Hs Hbody Hcw Hck Hes Hb HD Hv Hok Hc1 Hc2;
    cbn [enc_obus] in E.
  - injection E as <- <-. exists d, es, []. cbn [mid_pkts dec_run_g length repeat nlen tail_obus].
    rewrite !app_nil_r. rewrite ProofsEnc.seq_add_0 by exact Hs.
    splits; auto.
  - inversion Hok as [|? ? [Ho1 Ho2] Hok']; subst.
    cbn [nlen] in Hc1. rewrite tu_size_cons in Hc2.
    destruct (enc_obu true (0 :: 0 :: o) max (leb_size max) (match t with [] => true | _ => false end) o c)
      as [fs1 c1| |] eqn:E1; try discriminate.
    destruct (enc_obu_sim _ _ _ _ _ d s nflag comp [] _ _ E1 Hs Hbody Hcw Hck Hes Hb HD Hv Ho1 Ho2 ltac:(lia)
                ltac:(cbn [nlen]; lia))
      as (d1 & es1 & tail1 & Hrun1 & A1 & A2 & A3 & A4 & A5 & A6 & A7 & A8).
    cbn [app] in A7.
    destruct t as [|o2 t2].
    + cbn [enc_obus] in E. injection E as <- <-. rewrite app_nil_r.
      exists d1, es1, tail1. splits; auto.
      destruct A5 as [A5|(T1 & T2 & T3 & _)]; [left; exact A5|right; auto].
    + destruct A5 as [[-> A5]|(_ & _ & _ & Hf)]; [|discriminate].
      rewrite app_nil_r in A1. cbn [tail_obus] in A7. rewrite app_nil_r in A7.
      destruct (enc_obus true max (leb_size max) (o2 :: t2) c1) as [fs2 c2| |] eqn:E2; try discriminate.
      injection E as <- <-.
      destruct (IH c1 es1 d1 (seq_add s (nlen fs1)) (match fs1 with [] => nflag | _ => false end) (comp ++ [o]) fs2 c2
                  E2 (ProofsEnc.seq_add_lt _ _) A1 A5 A2 A3 A4 A6 A7 Hok')
        as (d2 & es2 & tail2 & Hrun2 & B1 & B2 & B3 & B4 & B5 & B6).
      { rewrite nlen_app. cbn [nlen] in *. lia. }
      { rewrite tu_size_app, tu_size_cons, tu_size_nil. lia. }
      exists d2, es2, tail2. rewrite mid_pkts_app by exact Hs. rewrite dec_run_app, Hrun1, Hrun2.
      split; [rewrite app_length, repeat_app; reflexivity|].
      repeat (split; [assumption|]).
      split; [rewrite nlen_app, <- ProofsEnc.seq_add_add; exact B4|].
      split; [rewrite B5, <- app_assoc; reflexivity|]. intros _. apply B6. discriminate.
Qed.

Definition valid_tu (obus : list bytes) : Prop :=
  obus <> [] /\ Forall nonempty obus /\ nlen obus <= cap_obus /\ tu_size obus <= cap_size.

Lemma cap_size_lt : cap_size < two32.
Proof. unfold cap_size, av1_max_tu_size, two32. lia. Qed.

Lemma tu_size_in o obus : In o obus -> nlen o <= tu_size obus.
Proof.
  induction obus as [|x t IH]; intros H; [contradiction|]. rewrite tu_size_cons.
  destruct H as [->|H]; [lia|]. apply IH in H. lia.
Qed.

Lemma valid_obu_ok obus : valid_tu obus -> Forall obu_ok obus.
Proof.
  intros (_ & Hne & _ & Hsz). apply Forall_forall. intros o Ho. split.
  - rewrite Forall_forall in Hne. apply Hne. exact Ho.
  - pose proof (tu_size_in o obus Ho). pose proof cap_size_lt. lia.
Qed.

(* the repaired encoder: every valid temporal unit comes back, from every clean decoder state *)
Theorem roundtrip_fixed seq obus d :
  seq < 65536 -> valid_tu obus -> clean d ->
  exists ps d', enc_g true max seq obus = Some (ps, seq_add seq (nlen ps)) /\
    dec_run_g dfx d ps = (d', repeat DMore (length ps - 1) ++ [DFrame obus]) /\ clean d'.
Proof.
  intros Hs Hv (C1 & C2 & C3 & C4 & C5).
  destruct (enc_obus_ok true max Hmax Hmax2 obus (fresh false)) as (fs & c & E & _ & _ & _).
  { cbn. lia. } { reflexivity. }
  assert (HD : DOK false d seq) by (apply DOK_of_clean; try assumption; rewrite C3; cbn; assumption).
  assert (Hvw : view false d [] = ([], [])) by (unfold view; rewrite C3; reflexivity).
  destruct Hv as (Hne & Hnn & Hv1 & Hv2).
  destruct (enc_obus_sim obus (fresh false) [] d seq (is_random_access obus) [] fs c E Hs eq_refl eq_refl eq_refl
              ltac:(constructor) ltac:(cbn; lia) HD Hvw (valid_obu_ok obus (conj Hne (conj Hnn (conj Hv1 Hv2))))
              ltac:(cbn [nlen]; lia) ltac:(rewrite tu_size_nil; lia))
    as (d1 & es & tail & Hrun & A1 & A2 & A3 & A4 & A5 & A6).
  cbn [app] in A5. specialize (A6 Hne).
  unfold enc_g, enc_fins. rewrite E.
  set (fl := finalize c false).
  assert (Hfl : frep fl es tail).
  { constructor; cbn [fl finalize fbody fw]; auto.
    destruct A3 as [[-> ->]|(T1 & T2 & T3)]; [left; auto|right; auto]. }
  assert (Hos : es ++ tail_obus tail <> []).
  { destruct A6 as [A6|A6]; [destruct es; [contradiction|discriminate]|].
    rewrite tail_obus_ne by exact A6. destruct es; discriminate. }
  destruct (dec_closed_n dfx (cz c) d1 (seq_add seq (nlen fs)) (es ++ tail_obus tail) (cw c) obus [] true A4 A5 Hos)
    as (d2 & Hd2 & B1 & B2 & _ & B3); [| lia | lia |].
  { destruct A3 as [[-> ->]|(T1 & -> & T3)]; [left; reflexivity|right].
    rewrite tail_obus_ne by exact T1. rewrite nlen_app. cbn [nlen]. lia. }
  exists (mk_pkts seq (is_random_access obus) (fs ++ [fl])), d2.
  rewrite ProofsEnc.mk_pkts_len. split; [reflexivity|].
  rewrite mk_pkts_snoc by exact Hs. rewrite dec_run_app, Hrun. cbn [dec_run_g].
  rewrite (dec_fin dfx d1 _ 0 true _ fl es tail Hfl). cbn [fl finalize fz fy fw].
  rewrite Hd2. split.
  - rewrite app_length, mid_pkts_length. cbn [length]. replace (length fs + 1 - 1)%nat with (length fs) by lia. reflexivity.
  - split; [exact B1|]. split; [exact B2|exact B3].
Qed.

End Sim.

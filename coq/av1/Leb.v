(* LEB128 facts (mediacommon av1.LEB128 as modelled in Model.v) *)
From GVL Require Import NList Wire Rtp.
From GV_av1 Require Import Model.
From Coq Require Import ZifyBool ZifyNat ZifyN.
Open Scope N_scope.
Ltac Zify.zify_post_hook ::= Z.div_mod_to_equations.

Lemma leb_size_aux_len f v : leb_size_aux f v = nlen (leb_enc_aux f v).
Proof.
  revert v; induction f as [|f IH]; intros v; cbn [leb_size_aux leb_enc_aux nlen]; [reflexivity|].
  destruct (v / 128 =? 0); cbn [nlen]; [reflexivity|]. rewrite IH. lia.
Qed.
Lemma leb_size_len v : leb_size v = nlen (leb_enc v).
Proof. apply leb_size_aux_len. Qed.

Lemma leb_size_spec v : v < two32 ->
  leb_size v = if v <? 128 then 1 else if v <? 16384 then 2 else if v <? 2097152 then 3
               else if v <? 268435456 then 4 else 5.
Proof.
  unfold two32. intros H. unfold leb_size. rewrite N.mod_small by exact H.
  cbn [leb_size_aux]. rewrite !N.div_div by lia. cbn [N.mul Pos.mul].
  destruct (N.eqb_spec (v / 128) 0); destruct (N.ltb_spec v 128); try lia.
  destruct (N.eqb_spec (v / 16384) 0); destruct (N.ltb_spec v 16384); try lia.
  destruct (N.eqb_spec (v / 2097152) 0); destruct (N.ltb_spec v 2097152); try lia.
  destruct (N.eqb_spec (v / 268435456) 0); destruct (N.ltb_spec v 268435456); try lia.
  destruct (N.eqb_spec (v / 34359738368) 0); lia.
Qed.

Lemma leb_size_bounds v : 1 <= leb_size v <= 5.
Proof.
  assert (H : v mod two32 < two32) by (apply N.mod_lt; discriminate).
  replace (leb_size v) with (leb_size (v mod two32)) by (unfold leb_size; now rewrite N.mod_mod by discriminate).
  rewrite leb_size_spec by exact H.
  repeat match goal with |- context [if ?b then _ else _] => destruct b end; lia.
Qed.

Lemma leb_size_mono a b : a <= b -> b < two32 -> leb_size a <= leb_size b.
Proof.
  intros Hab Hb. rewrite !leb_size_spec by (unfold two32 in *; lia).
  repeat match goal with |- context [?x <? ?y] => destruct (N.ltb_spec x y) end; lia.
Qed.

Lemma leb_size_small v : v < 128 -> leb_size v = 1.
Proof. intros H. rewrite leb_size_spec by (unfold two32; lia). destruct (N.ltb_spec v 128); lia. Qed.

(* decoding what was encoded, whatever follows *)
Lemma leb_dec_enc_aux fe : forall fd i v rest, fe <> O -> (fe <= fd)%nat -> v < 128 ^ N.of_nat fe ->
  leb_dec_aux fd i (leb_enc_aux fe v ++ rest) = Some (v * 2 ^ (7 * i), leb_size_aux fe v).
Proof.
  induction fe as [|f IH]; intros fd i v rest Hne Hle Hv; [contradiction|].
  destruct fd as [|fd']; [lia|].
  cbn [leb_enc_aux leb_size_aux].
  destruct (N.eqb_spec (v / 128) 0) as [Hz|Hnz].
  - cbn [app leb_dec_aux].
    assert (v < 128) by lia.
    replace ((v mod 128) / 128 mod 2) with 0 by lia. cbn [N.eqb].
    rewrite !(N.mod_small v 128) by lia. reflexivity.
  - cbn [app leb_dec_aux].
    replace ((v mod 128 + 128) / 128 mod 2) with 1 by lia. cbn [N.eqb].
    replace ((v mod 128 + 128) mod 128) with (v mod 128) by lia.
    assert (Hf : f <> O).
    { intros ->. cbn in Hv. lia. }
    rewrite IH; [|exact Hf|lia|].
    + f_equal. f_equal; [|lia].
      replace (7 * (i + 1)) with (7 + 7 * i) by lia. rewrite N.pow_add_r.
      change (2 ^ 7) with 128. 
      rewrite (N.div_mod v 128) at 3 by lia. lia.
    + replace (N.of_nat (S f)) with (N.succ (N.of_nat f)) in Hv by lia.
      rewrite N.pow_succ_r' in Hv. 
      apply N.div_lt_upper_bound; lia.
Qed.

Lemma leb_dec_enc v rest : v < two32 ->
  leb_dec (leb_enc v ++ rest) = Some (v, leb_size v).
Proof.
  intros H. unfold leb_dec, leb_enc, leb_size. rewrite N.mod_small by exact H.
  rewrite leb_dec_enc_aux; [|discriminate|lia|].
  - rewrite N.mul_0_r, N.pow_0_r, N.mul_1_r. now rewrite N.mod_small by exact H.
  - unfold two32 in H. change (128 ^ N.of_nat 5) with 34359738368. lia.
Qed.

(* leb_dec never consumes more than the buffer holds, and at least one byte *)
Lemma leb_dec_aux_n fd : forall i buf v n, leb_dec_aux fd i buf = Some (v, n) -> n <= nlen buf /\ (fd <> O -> 1 <= n).
Proof.
  induction fd as [|f IH]; intros i buf v n H; cbn [leb_dec_aux] in H.
  - injection H as <- <-. split; [lia|congruence].
  - destruct buf as [|b t]; [discriminate|]. cbn [nlen].
    destruct (b / 128 mod 2 =? 0).
    + injection H as <- <-. lia.
    + destruct (leb_dec_aux f (i + 1) t) as [[v' n']|] eqn:E; [|discriminate].
      injection H as <- <-. apply IH in E. lia.
Qed.
Lemma leb_dec_n buf v n : leb_dec buf = Some (v, n) -> 1 <= n <= nlen buf /\ v < two32.
Proof.
  unfold leb_dec. destruct (leb_dec_aux 8 0 buf) as [[v' n']|] eqn:E; [|discriminate].
  intros H; injection H as <- <-. apply leb_dec_aux_n in E. split; [split; [apply E; discriminate|apply E]|].
  apply N.mod_lt. discriminate.
Qed.

(* C03, rtpav1 — statements only (code with fix commit aec245d; finding F1 is repaired) *)
From GVL Require Import NList Rtp.
From GV_av1 Require Import Model Proofs.
Open Scope N_scope.

(* One temporal unit: for every limit 3 <= max < 2^32, every initial sequence number, every valid
   temporal unit (1..MaxOBUsPerTemporalUnit non-empty OBUs, <= MaxTemporalUnitSize bytes), from
   every clean decoder state: "more" on every packet but the last, exactly the temporal unit - same
   OBUs, same bytes, same grouping - at the last, clean afterwards.  No side condition any more. *)
Theorem C03_av1_roundtrip : forall max seq obus d,
  3 <= max -> max < two32 -> seq < 65536 -> valid_tu obus -> clean d ->
  exists ps d', enc max seq obus = Some (ps, seq_add seq (nlen ps)) /\
    dec_run d ps = (d', repeat DMore (length ps - 1) ++ [DFrame obus]) /\ clean d'.
Proof. exact roundtrip. Qed.
Print Assumptions C03_av1_roundtrip.

(* consecutive temporal units through one encoder/decoder pair *)
Theorem C03_av1_roundtrip_seq : forall max frames, 3 <= max -> max < two32 ->
  Forall valid_tu frames -> forall seq d, seq < 65536 -> clean d ->
  exists pss d', enc_many max seq frames = Some pss /\
    dec_run d (concat pss) = (d', expect pss frames) /\ clean d'.
Proof. exact roundtrip_seq. Qed.
Print Assumptions C03_av1_roundtrip_seq.

(* regression: the encoder before commit aec245d violated the statement (max 5, OBUs of 3 and 1
   bytes; decoded as one OBU by the decoder of either version) *)
Theorem C03_av1_old_encoder_refuted : exists max seq obus,
  3 <= max /\ max < two32 /\ seq < 65536 /\ valid_tu obus /\
  exists ps s', enc_old max seq obus = Some (ps, s') /\
    snd (dec_run dinit ps) <> repeat DMore (length ps - 1) ++ [DFrame obus] /\
    snd (dec_run_old dinit ps) <> repeat DMore (length ps - 1) ++ [DFrame obus].
Proof. exact old_encoder_roundtrip_refuted. Qed.
Print Assumptions C03_av1_old_encoder_refuted.

(* non-vacuity: three OBUs aggregated and fragmented over three packets with limit 6; and the two
   former F1 witnesses (a packet filled exactly before the last / before a sized OBU) *)
Example C03_av1_example :
  valid_tu [[1; 2]; [3; 4; 5; 6; 7; 8; 9]; [10; 11]] /\
  option_map (fun r => (length (fst r), snd (dec_run dinit (fst r)))) (enc 6 65535 [[1; 2]; [3; 4; 5; 6; 7; 8; 9]; [10; 11]])
  = Some (3%nat, [DMore; DMore; DFrame [[1; 2]; [3; 4; 5; 6; 7; 8; 9]; [10; 11]]]) /\
  option_map (fun r => snd (dec_run dinit (fst r))) (enc 5 65535 [[1; 2; 3]; [4]])
  = Some [DMore; DFrame [[1; 2; 3]; [4]]] /\
  option_map (fun r => snd (dec_run dinit (fst r))) (enc 5 0 [[1; 2]; [3]; [4]])
  = Some [DMore; DFrame [[1; 2]; [3]; [4]]].
Proof.
  split.
  - split; [discriminate|]. split; [repeat constructor|].
    unfold cap_obus, cap_size, GVG.Consts.av1_max_obus, GVG.Consts.av1_max_tu_size. cbn. lia.
  - repeat split; vm_compute; reflexivity.
Qed.

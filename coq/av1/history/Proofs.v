(* rtpav1: the theorems about the code that exists ([enc], [dec] = [enc_g false], [dec_g false]),
   assembled from ProofsEnc (C06), ProofsDec (C08, coupling), ProofsRT (simulation). *)
From GVL Require Import NList Wire Rtp.
From GVG Require Import Consts.
From GV_av1 Require Export Model Leb ProofsDec ProofsEnc ProofsRT.
From Coq Require Import ZifyBool ZifyNat ZifyN.
Open Scope N_scope.

(* ---------- C06 ---------- *)
Theorem enc_wellformed max seq obus : 3 <= max -> max < two32 -> seq < 65536 ->
  exists ps, enc max seq obus = Some (ps, seq_add seq (nlen ps)) /\
    ps <> [] /\
    Forall (fun p => nlen (ppayload p) <= max) ps /\
    (forall i p, nnth i ps = Some p -> pseq p = seq_add seq i /\ pmarker p = (i + 1 =? nlen ps)).
Proof. apply enc_wellformed_g. Qed.

Theorem enc_many_gapless max frames : 3 <= max -> max < two32 -> forall seq, seq < 65536 ->
  exists pss, enc_many max seq frames = Some pss /\
    forall i p, nnth i (concat pss) = Some p -> pseq p = seq_add seq i.
Proof. apply enc_many_gapless_g. Qed.

(* ---------- C03 ---------- *)
(* the side condition: on this temporal unit the code that exists produces the packets of the
   repaired encoder, i.e. it never closes a packet with Y without having appended a fragment *)
Definition agree (max : N) (obus : list bytes) : Prop := enc_fins false max obus = enc_fins true max obus.

Lemma agree_enc max seq obus : agree max obus -> enc max seq obus = enc_g true max seq obus.
Proof. unfold agree, enc, enc_g. now intros ->. Qed.

Theorem roundtrip_partial max seq obus d :
  3 <= max -> max < two32 -> seq < 65536 -> valid_tu obus -> clean d -> agree max obus ->
  exists ps d', enc max seq obus = Some (ps, seq_add seq (nlen ps)) /\
    dec_run d ps = (d', repeat DMore (length ps - 1) ++ [DFrame obus]) /\ clean d'.
Proof.
  intros H1 H2 H3 H4 H5 H6. rewrite (agree_enc max seq obus H6).
  apply (roundtrip_fixed false max H1 H2 seq obus d H3 H4 H5).
Qed.

(* a temporal unit of a single OBU always satisfies the side condition *)
Lemma enc_obu_single_agree max mfl : 2 <= max -> forall fuel r c, cbody c = [] -> ck c = 0 ->
  enc_obu false fuel max mfl true r c = enc_obu true fuel max mfl true r c.
Proof.
  intros Hm. induction fuel as [|f0 fuel IH]; intros r c Hb Hk; [reflexivity|].
  cbn [enc_obu]. rewrite Hb, Hk. cbn [nlen andb N.ltb N.compare].
  destruct (nlen r <=? max - (1 + 0)); [reflexivity|].
  destruct (N.ltb_spec 0 (max - (1 + 0))); [|lia].
  f_equal. apply IH; reflexivity.
Qed.

Lemma agree_single max o : 2 <= max -> agree max [o].
Proof.
  intros Hm. unfold agree, enc_fins. cbn [enc_obus].
  rewrite (enc_obu_single_agree max (leb_size max) Hm (0 :: 0 :: o) o (fresh false) eq_refl eq_refl). reflexivity.
Qed.

Theorem roundtrip_single max seq o d :
  3 <= max -> max < two32 -> seq < 65536 -> valid_tu [o] -> clean d ->
  exists ps d', enc max seq [o] = Some (ps, seq_add seq (nlen ps)) /\
    dec_run d ps = (d', repeat DMore (length ps - 1) ++ [DFrame [o]]) /\ clean d'.
Proof. intros. apply roundtrip_partial; auto. apply agree_single. lia. Qed.

(* consecutive temporal units through one encoder/decoder pair *)
Fixpoint expect (pss : list (list packet)) (frames : list (list bytes)) : list (dres (list bytes)) :=
  match pss, frames with
  | ps :: pt, f :: ft => repeat DMore (length ps - 1) ++ [DFrame f] ++ expect pt ft
  | _, _ => []
  end.

Lemma roundtrip_seq_g fx dfx max frames : 3 <= max -> max < two32 ->
  Forall valid_tu frames -> Forall (fun f => enc_fins fx max f = enc_fins true max f) frames ->
  forall seq d, seq < 65536 -> clean d ->
  exists pss d', enc_many_g fx max seq frames = Some pss /\
    dec_run_g dfx d (concat pss) = (d', expect pss frames) /\ clean d'.
Proof.
  intros H1 H2. induction frames as [|f t IH]; intros Hv Ha seq d Hs Hc; cbn [enc_many_g].
  - exists [], d. cbn. auto.
  - inversion Hv as [|? ? Hf Ht]; subst. inversion Ha as [|? ? Hf' Ht']; subst.
    destruct (roundtrip_fixed dfx max H1 H2 seq f d Hs Hf Hc) as (ps & d1 & E & Hr & Hc1).
    assert (E' : enc_g fx max seq f = Some (ps, seq_add seq (nlen ps))).
    { unfold enc_g in *. rewrite Hf'. exact E. }
    rewrite E'. destruct (IH Ht Ht' (seq_add seq (nlen ps)) d1 (ProofsEnc.seq_add_lt _ _) Hc1) as (pss & d2 & E2 & Hr2 & Hc2).
    rewrite E2. exists (ps :: pss), d2. split; [reflexivity|]. cbn [concat expect].
    rewrite dec_run_app, Hr, Hr2. split; [|exact Hc2]. now rewrite <- app_assoc.
Qed.

Theorem roundtrip_seq_partial max frames : 3 <= max -> max < two32 ->
  Forall valid_tu frames -> Forall (agree max) frames ->
  forall seq d, seq < 65536 -> clean d ->
  exists pss d', enc_many max seq frames = Some pss /\
    dec_run d (concat pss) = (d', expect pss frames) /\ clean d'.
Proof. intros. apply roundtrip_seq_g; auto. Qed.

(* the violation (finding F1): max 5, OBUs of 3 and 1 bytes: the first packet is full after the
   first OBU, is nevertheless closed with Y, and the decoder glues the two OBUs together *)
Theorem roundtrip_refuted : exists max seq obus,
  3 <= max /\ max < two32 /\ seq < 65536 /\ valid_tu obus /\
  exists ps s', enc max seq obus = Some (ps, s') /\
    snd (dec_run dinit ps) <> repeat DMore (length ps - 1) ++ [DFrame obus].
Proof.
  exists 5, 65535, [[1; 2; 3]; [4]].
  split; [lia|]. split; [unfold two32; lia|]. split; [lia|]. split.
  - split; [discriminate|]. split; [repeat constructor|].
    unfold cap_obus, cap_size, av1_max_obus, av1_max_tu_size. cbn. lia.
  - eexists _, _. split; [vm_compute; reflexivity|]. vm_compute. discriminate.
Qed.

(* ---------- C07 ---------- *)
(* in the code that exists every packet after the first of an Encode call carries Z *)
Lemma enc_obu_z fuel : forall max mfl last r c fs c',
  enc_obu false fuel max mfl last r c = EOk fs c' ->
  (fs = [] /\ cz c' = cz c) \/
  (exists f1 fs', fs = f1 :: fs' /\ fz f1 = cz c /\ Forall (fun f => fz f = true) fs' /\ cz c' = true).
Proof.
  induction fuel as [|f0 fuel IH]; intros max mfl last r c fs c' E; [discriminate|].
  cbn [enc_obu] in E.
  assert (G : forall f1 r' , fz f1 = cz c -> cons_fin f1 (enc_obu false fuel max mfl last r' (fresh true)) = EOk fs c' ->
     exists f1 fs', fs = f1 :: fs' /\ fz f1 = cz c /\ Forall (fun f => fz f = true) fs' /\ cz c' = true).
  { intros f1 r' Hz E1. apply cons_fin_inv in E1. destruct E1 as (fs1 & E1 & ->).
    exists f1, fs1. split; [reflexivity|]. split; [exact Hz|].
    apply IH in E1. destruct E1 as [[-> Hc]|(f2 & fs2 & -> & Hf2 & Hall & Hc)].
    - split; [constructor|exact Hc].
    - split; [constructor; [exact Hf2|exact Hall]|exact Hc]. }
  cbn [negb] in E.
  destruct (last && (ck c <? 3)).
  - destruct (nlen r <=? max - (1 + nlen (cbody c))); [injection E as <- <-; left; auto|].
    destruct (0 <? max - (1 + nlen (cbody c))); right; eapply G; try exact E; reflexivity.
  - destruct (nlen r + leb_size (nlen r) <=? max - (1 + nlen (cbody c))); [injection E as <- <-; left; auto|].
    destruct (mfl <? max - (1 + nlen (cbody c))).
    + destruct (nlen r <? max - (1 + nlen (cbody c)) - mfl); [discriminate|].
      right; eapply G; try exact E; reflexivity.
    + right; eapply G; try exact E; reflexivity.
Qed.

Lemma enc_obus_z max mfl : forall obus c fs c',
  enc_obus false max mfl obus c = EOk fs c' ->
  (fs = [] /\ cz c' = cz c) \/
  (exists f1 fs', fs = f1 :: fs' /\ fz f1 = cz c /\ Forall (fun f => fz f = true) fs' /\ cz c' = true).
Proof.
  induction obus as [|o t IH]; intros c fs c' E; cbn [enc_obus] in E.
  - injection E as <- <-. left. auto.
  - destruct (enc_obu false (0 :: 0 :: o) max mfl (match t with [] => true | _ => false end) o c) as [fs1 c1| |] eqn:E1;
      try discriminate.
    destruct (enc_obus false max mfl t c1) as [fs2 c2| |] eqn:E2; try discriminate.
    injection E as <- <-. apply enc_obu_z in E1. apply IH in E2.
    destruct E1 as [[-> Hc1]|(f1 & fs1' & -> & Hf1 & Hall1 & Hc1)].
    + cbn [app]. rewrite Hc1 in E2. exact E2.
    + right. exists f1, (fs1' ++ fs2). split; [reflexivity|]. split; [exact Hf1|].
      destruct E2 as [[-> Hc2]|(f2 & fs2' & -> & Hf2 & Hall2 & Hc2)].
      * rewrite app_nil_r. split; [exact Hall1|congruence].
      * split; [|exact Hc2]. apply Forall_app. split; [exact Hall1|]. constructor; [congruence|exact Hall2].
Qed.

Lemma zbit_pkt seq ts m f n : fw f <= 3 -> zbit (mkPkt seq ts m (hdr_byte f n :: fbody f)) = fz f.
Proof.
  intros Hw. unfold zbit. cbn [ppayload]. destruct f as [z y w body]. cbn [fw fz] in *.
  destruct (hdr_bits z y w body n Hw) as (-> & _). reflexivity.
Qed.

Lemma existsb_zbit_tl fs : forall seq n, Forall (fun f => fw f <= 3) fs ->
  Forall (fun f => fz f = true) fs -> fs <> [] -> existsb zbit (mk_pkts seq n fs) = true.
Proof.
  destruct fs as [|f t]; intros seq n Hw Hz Hne; [contradiction|].
  cbn [mk_pkts existsb]. inversion Hw; subst. inversion Hz; subst.
  rewrite zbit_pkt by assumption. now apply orb_true_iff; left.
Qed.

Lemma two_packets_z max seq obus ps s' : 3 <= max -> max < two32 ->
  enc max seq obus = Some (ps, s') -> 2 <= nlen ps -> existsb zbit ps = true.
Proof.
  intros H1 H2 E Hn. unfold enc, enc_g in E.
  destruct (enc_fins_ok false max obus H1 H2) as (fs & Ef & Hok & _). rewrite Ef in E.
  injection E as <- <-. rewrite ProofsEnc.mk_pkts_len in Hn.
  unfold enc_fins in Ef.
  destruct (enc_obus false max (leb_size max) obus (fresh false)) as [fs0 c0| |] eqn:E0; try discriminate.
  injection Ef as <-. apply enc_obus_z in E0.
  assert (Hw : Forall (fun f => fw f <= 3) (fs0 ++ [finalize c0 false])).
  { eapply Forall_impl; [|exact Hok]. intros a [_ H]. exact H. }
  destruct E0 as [[-> Hc]|(f1 & fs' & -> & Hf1 & Hall & Hc)].
  - cbn [app nlen] in Hn. lia.
  - cbn [app mk_pkts existsb]. destruct (fs' ++ [finalize c0 false]) as [|x xs] eqn:Ex; [destruct fs'; discriminate|].
    rewrite <- Ex. apply orb_true_iff. right.
    cbn [app] in Hw. inversion Hw as [|? ? _ Hw']; subst.
    apply existsb_zbit_tl; [exact Hw'| |destruct fs'; discriminate].
    apply Forall_app. split; [exact Hall|]. constructor; [exact Hc|constructor].
Qed.

Lemma not_in_repeat_more (f : list bytes) k : ~ In DErr (repeat (@DMore (list bytes)) k ++ [DFrame f]).
Proof.
  intros H. apply in_app_or in H. destruct H as [H|[H|[]]]; [apply repeat_spec in H|]; discriminate.
Qed.
Lemma last_repeat_more (f : list bytes) k : last (repeat (@DMore (list bytes)) k ++ [DFrame f]) DMore = DFrame f.
Proof. apply last_last. Qed.

(* After ANY history, an intact temporal unit f1 followed by an intact f2: f2 is returned exactly
   at its last packet - provided no fragments of an older damaged unit are still pending after the
   history, or f1 takes at least two packets (its last packet then drops them). *)
Theorem resync_partial max hist f1 f2 s1 s2 :
  3 <= max -> max < two32 -> s1 < 65536 -> s2 < 65536 ->
  valid_tu f1 -> valid_tu f2 -> agree max f1 -> agree max f2 ->
  let d0 := fst (dec_run dinit hist) in
  exists ps1 ps2, enc max s1 f1 = Some (ps1, seq_add s1 (nlen ps1)) /\
                  enc max s2 f2 = Some (ps2, seq_add s2 (nlen ps2)) /\
    (dfrags d0 = [] \/ 2 <= nlen ps1 ->
     let d1 := fst (dec_run d0 ps1) in
     exists d2, dec_run d1 ps2 = (d2, repeat DMore (length ps2 - 1) ++ [DFrame f2]) /\ clean d2).
Proof.
  intros H1 H2 Hs1 Hs2 Hv1 Hv2 Ha1 Ha2 d0.
  assert (Hcl : clean dinit) by (repeat split).
  destruct (roundtrip_partial max s1 f1 dinit H1 H2 Hs1 Hv1 Hcl Ha1) as (ps1 & dc1 & E1 & R1 & C1).
  exists ps1. 
  destruct (roundtrip_partial max s2 f2 dinit H1 H2 Hs2 Hv2 Hcl Ha2) as (ps2 & _ & E2 & _ & _).
  exists ps2. split; [exact E1|]. split; [exact E2|]. intros Hcond d1.
  assert (HI0 : Inv d0) by (apply (dec_run_inv false hist dinit inv_init)).
  assert (Hc1 : clean d1).
  { unfold d1, dec_run. eapply (absorb_g false ps1 dinit d0 f1 Hcl HI0).
    - unfold dec_run in R1. rewrite R1. cbn [snd]. apply not_in_repeat_more.
    - unfold dec_run in R1. rewrite R1. cbn [snd]. apply last_repeat_more.
    - unfold dec_run in R1. rewrite R1. exact C1.
    - destruct Hcond as [Hc|Hc]; [left; exact Hc|right; left].
      eapply two_packets_z; eassumption. }
  destruct (roundtrip_partial max s2 f2 d1 H1 H2 Hs2 Hv2 Hc1 Ha2) as (ps2' & d2 & E2' & R2 & C2).
  rewrite E2 in E2'. injection E2' as <-. exists d2. split; assumption.
Qed.

(* the violation: a fragmented unit loses its last packet, then a one-packet unit and a fragmented
   unit arrive intact - and the last one is returned with the stale fragment glued in front *)
Theorem resync_refuted : exists max f0 f1 f2 s0 s1 s2 s3 ps0 ps1 ps2,
  3 <= max /\ max < two32 /\ valid_tu f0 /\ valid_tu f1 /\ valid_tu f2 /\
  agree max f0 /\ agree max f1 /\ agree max f2 /\
  enc max s0 f0 = Some (ps0, s1) /\ enc max s1 f1 = Some (ps1, s2) /\ enc max s2 f2 = Some (ps2, s3) /\
  let d0 := fst (dec_run dinit (removelast ps0)) in
  let d1 := fst (dec_run d0 ps1) in
  ~ In (DFrame f2) (snd (dec_run d1 ps2)).
Proof.
  exists 5, [[7; 7; 7; 7; 7; 7]], [[1]], [[1; 2; 3; 4; 5; 6]], 10, 12, 13, 15.
  eexists _, _, _.
  split; [lia|]. split; [unfold two32; lia|].
  assert (V : forall o, 0 < nlen o -> nlen o <= 6 -> valid_tu [o]).
  { intros o Ho1 Ho2. split; [discriminate|]. split; [repeat constructor; exact Ho1|].
    unfold cap_obus, cap_size, av1_max_obus, av1_max_tu_size, tu_size. cbn [nlen concat]. rewrite app_nil_r. lia. }
  split; [apply V; cbn; lia|]. split; [apply V; cbn; lia|]. split; [apply V; cbn; lia|].
  split; [apply agree_single; lia|]. split; [apply agree_single; lia|]. split; [apply agree_single; lia|].
  split; [vm_compute; reflexivity|]. split; [vm_compute; reflexivity|]. split; [vm_compute; reflexivity|].
  vm_compute. intros [H|[H|[]]]; discriminate.
Qed.

(* ---------- C08 ---------- *)
Theorem total hist : ~ In DPanic (snd (dec_run dinit hist)).
Proof. apply total_g. Qed.

Theorem output_bounded hist f :
  In (DFrame f) (snd (dec_run dinit hist)) -> nlen f <= cap_obus /\ tu_size f <= cap_size.
Proof. apply output_bounded_g. Qed.

Theorem bounded_partial P hist :
  Forall (fun p => nlen (ppayload p) <= P) hist -> no_stale false dinit hist ->
  bounds P (fst (dec_run dinit hist)) (snd (dec_run dinit hist)).
Proof. intros HF Hn. apply bounded_g; auto. Qed.

Theorem bounded_refuted : forall B, exists hist,
  Forall (fun p => nlen (ppayload p) <= 2) hist /\
  B < fst (retained (fst (dec_run dinit hist))) /\ B < snd (retained (fst (dec_run dinit hist))).
Proof. exact unbounded_start_fragments. Qed.

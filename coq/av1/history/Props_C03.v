(* C03, rtpav1 — statements only *)
From GVL Require Import NList Rtp.
From GV_av1 Require Import Model Proofs.
Open Scope N_scope.

(* The property is FALSE of the code that exists (finding F1): the encoder closes a packet with Y,
   and opens the next with Z, also when nothing could be appended to it; the decoder then glues two
   complete OBUs.  Smallest witness: limit 5, OBUs of 3 and 1 bytes. *)
Theorem C03_av1_roundtrip_refuted : exists max seq obus,
  3 <= max /\ max < two32 /\ seq < 65536 /\ valid_tu obus /\
  exists ps s', enc max seq obus = Some (ps, s') /\
    snd (dec_run dinit ps) <> repeat DMore (length ps - 1) ++ [DFrame obus].
Proof. exact roundtrip_refuted. Qed.
Print Assumptions C03_av1_roundtrip_refuted.

(* Strongest true statement: for every limit >= 3, every initial sequence number, every valid
   temporal unit (1..MaxOBUsPerTemporalUnit non-empty OBUs, <= MaxTemporalUnitSize bytes) on which
   the encoder never closes a packet without having appended a fragment ([agree]: it produces the
   packets of the repaired encoder), from every clean decoder state: "more" on every packet but the
   last, the temporal unit - same OBUs, same bytes, same grouping - at the last, clean afterwards.
   Missing for the full statement: the temporal units excluded by [agree] (they are the violation). *)
Theorem C03_av1_roundtrip_partial : forall max seq obus d,
  3 <= max -> max < two32 -> seq < 65536 -> valid_tu obus -> clean d -> agree max obus ->
  exists ps d', enc max seq obus = Some (ps, seq_add seq (nlen ps)) /\
    dec_run d ps = (d', repeat DMore (length ps - 1) ++ [DFrame obus]) /\ clean d'.
Proof. exact roundtrip_partial. Qed.
Print Assumptions C03_av1_roundtrip_partial.

(* temporal units of a single OBU (any size up to the cap) are never affected *)
Theorem C03_av1_roundtrip_single : forall max seq o d,
  3 <= max -> max < two32 -> seq < 65536 -> valid_tu [o] -> clean d ->
  exists ps d', enc max seq [o] = Some (ps, seq_add seq (nlen ps)) /\
    dec_run d ps = (d', repeat DMore (length ps - 1) ++ [DFrame [o]]) /\ clean d'.
Proof. exact roundtrip_single. Qed.
Print Assumptions C03_av1_roundtrip_single.

(* consecutive temporal units through one encoder/decoder pair *)
Theorem C03_av1_roundtrip_seq_partial : forall max frames, 3 <= max -> max < two32 ->
  Forall valid_tu frames -> Forall (agree max) frames ->
  forall seq d, seq < 65536 -> clean d ->
  exists pss d', enc_many max seq frames = Some pss /\
    dec_run d (concat pss) = (d', expect pss frames) /\ clean d'.
Proof. exact roundtrip_seq_partial. Qed.
Print Assumptions C03_av1_roundtrip_seq_partial.

(* non-vacuity: three OBUs, aggregated and fragmented over three packets with limit 6 *)
Example C03_av1_example :
  agree 6 [[1; 2]; [3; 4; 5; 6; 7; 8; 9]; [10; 11]] /\
  valid_tu [[1; 2]; [3; 4; 5; 6; 7; 8; 9]; [10; 11]] /\
  option_map (fun r => (length (fst r), snd (dec_run dinit (fst r)))) (enc 6 65535 [[1; 2]; [3; 4; 5; 6; 7; 8; 9]; [10; 11]])
  = Some (3%nat, [DMore; DMore; DFrame [[1; 2]; [3; 4; 5; 6; 7; 8; 9]; [10; 11]]]).
Proof.
  split; [vm_compute; reflexivity|]. split.
  - split; [discriminate|]. split; [repeat constructor|].
    unfold cap_obus, cap_size, GVG.Consts.av1_max_obus, GVG.Consts.av1_max_tu_size. cbn. lia.
  - vm_compute. reflexivity.
Qed.

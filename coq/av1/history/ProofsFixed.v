(* Theorems about the repaired rtpav1 code (ModelFixed.v): the statements that hold without side
   conditions. *)
From GVL Require Import NList Wire Rtp.
From GVG Require Import Consts.
From GV_av1 Require Import Model Leb ProofsDec ProofsEnc ProofsRT Proofs.
From GV_av1 Require ModelFixed.
From Coq Require Import ZifyBool ZifyNat ZifyN.
Open Scope N_scope.

(* C03, repaired encoder, either decoder: unconditional round trip *)
Theorem roundtrip dfx max seq obus d :
  3 <= max -> max < two32 -> seq < 65536 -> valid_tu obus -> clean d ->
  exists ps d', ModelFixed.enc max seq obus = Some (ps, seq_add seq (nlen ps)) /\
    dec_run_g dfx d ps = (d', repeat DMore (length ps - 1) ++ [DFrame obus]) /\ clean d'.
Proof. intros H1 H2. apply (roundtrip_fixed dfx max H1 H2). Qed.

Theorem roundtrip_seq dfx max frames : 3 <= max -> max < two32 -> Forall valid_tu frames ->
  forall seq d, seq < 65536 -> clean d ->
  exists pss d', ModelFixed.enc_many max seq frames = Some pss /\
    dec_run_g dfx d (concat pss) = (d', expect pss frames) /\ clean d'.
Proof.
  intros H1 H2 Hv. apply roundtrip_seq_g; auto. apply Forall_forall. reflexivity.
Qed.

(* the F1 witness decodes correctly with the repaired encoder *)
Example roundtrip_witness :
  option_map (fun r => snd (dec_run dinit (fst r))) (ModelFixed.enc 5 65535 [[1; 2; 3]; [4]])
  = Some [DMore; DFrame [[1; 2; 3]; [4]]].
Proof. vm_compute. reflexivity. Qed.

(* C06 *)
Theorem enc_wellformed max seq obus : 3 <= max -> max < two32 -> seq < 65536 ->
  exists ps, ModelFixed.enc max seq obus = Some (ps, seq_add seq (nlen ps)) /\
    ps <> [] /\
    Forall (fun p => nlen (ppayload p) <= max) ps /\
    (forall i p, nnth i ps = Some p -> pseq p = seq_add seq i /\ pmarker p = (i + 1 =? nlen ps)).
Proof. apply enc_wellformed_g. Qed.

(* C07, repaired encoder and decoder: unconditional resynchronisation *)
Theorem resync max hist f1 f2 s1 s2 :
  3 <= max -> max < two32 -> s1 < 65536 -> s2 < 65536 -> valid_tu f1 -> valid_tu f2 ->
  let d0 := fst (ModelFixed.dec_run dinit hist) in
  exists ps1 ps2, ModelFixed.enc max s1 f1 = Some (ps1, seq_add s1 (nlen ps1)) /\
                  ModelFixed.enc max s2 f2 = Some (ps2, seq_add s2 (nlen ps2)) /\
     let d1 := fst (ModelFixed.dec_run d0 ps1) in
     exists d2, ModelFixed.dec_run d1 ps2 = (d2, repeat DMore (length ps2 - 1) ++ [DFrame f2]) /\ clean d2.
Proof.
  intros H1 H2 Hs1 Hs2 Hv1 Hv2 d0.
  assert (Hcl : clean dinit) by (repeat split).
  destruct (roundtrip true max s1 f1 dinit H1 H2 Hs1 Hv1 Hcl) as (ps1 & dc1 & E1 & R1 & C1).
  destruct (roundtrip true max s2 f2 dinit H1 H2 Hs2 Hv2 Hcl) as (ps2 & _ & E2 & _ & _).
  exists ps1, ps2. split; [exact E1|]. split; [exact E2|]. intros d1.
  assert (HI0 : Inv d0) by (apply (dec_run_inv true hist dinit inv_init)).
  assert (Hc1 : clean d1).
  { unfold d1, ModelFixed.dec_run. eapply (absorb_g true ps1 dinit d0 f1 Hcl HI0).
    - rewrite R1. cbn [snd]. apply not_in_repeat_more.
    - rewrite R1. cbn [snd]. apply last_repeat_more.
    - rewrite R1. exact C1.
    - right. right. reflexivity. }
  destruct (roundtrip true max s2 f2 d1 H1 H2 Hs2 Hv2 Hc1) as (ps2' & d2 & E2' & R2 & C2).
  rewrite E2 in E2'. injection E2' as <-. exists d2. split; assumption.
Qed.

(* C07, repaired encoder, decoder that exists: as in Proofs.resync_partial, Z somewhere in f1 *)
Theorem resync_encfix max hist f1 f2 s1 s2 :
  3 <= max -> max < two32 -> s1 < 65536 -> s2 < 65536 -> valid_tu f1 -> valid_tu f2 ->
  let d0 := fst (Model.dec_run dinit hist) in
  exists ps1 ps2, ModelFixed.enc max s1 f1 = Some (ps1, seq_add s1 (nlen ps1)) /\
                  ModelFixed.enc max s2 f2 = Some (ps2, seq_add s2 (nlen ps2)) /\
    (dfrags d0 = [] \/ existsb zbit ps1 = true ->
     let d1 := fst (Model.dec_run d0 ps1) in
     exists d2, Model.dec_run d1 ps2 = (d2, repeat DMore (length ps2 - 1) ++ [DFrame f2]) /\ clean d2).
Proof.
  intros H1 H2 Hs1 Hs2 Hv1 Hv2 d0.
  assert (Hcl : clean dinit) by (repeat split).
  destruct (roundtrip false max s1 f1 dinit H1 H2 Hs1 Hv1 Hcl) as (ps1 & dc1 & E1 & R1 & C1).
  destruct (roundtrip false max s2 f2 dinit H1 H2 Hs2 Hv2 Hcl) as (ps2 & _ & E2 & _ & _).
  exists ps1, ps2. split; [exact E1|]. split; [exact E2|]. intros Hcond d1.
  assert (HI0 : Inv d0) by (apply (dec_run_inv false hist dinit inv_init)).
  assert (Hc1 : clean d1).
  { unfold d1, Model.dec_run. eapply (absorb_g false ps1 dinit d0 f1 Hcl HI0).
    - rewrite R1. cbn [snd]. apply not_in_repeat_more.
    - rewrite R1. cbn [snd]. apply last_repeat_more.
    - rewrite R1. exact C1.
    - destruct Hcond as [Hc|Hc]; [left; exact Hc|right; left; exact Hc]. }
  destruct (roundtrip false max s2 f2 d1 H1 H2 Hs2 Hv2 Hc1) as (ps2' & d2 & E2' & R2 & C2).
  rewrite E2 in E2'. injection E2' as <-. exists d2. split; assumption.
Qed.

(* C08, repaired decoder: bounded retained memory on every history *)
Theorem total hist : ~ In DPanic (snd (ModelFixed.dec_run dinit hist)).
Proof. apply total_g. Qed.

Theorem bounded P hist :
  Forall (fun p => nlen (ppayload p) <= P) hist ->
  bounds P (fst (ModelFixed.dec_run dinit hist)) (snd (ModelFixed.dec_run dinit hist)).
Proof. intros HF. apply bounded_g; auto. Qed.

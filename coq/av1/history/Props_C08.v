(* C08, rtpav1 — statements only *)
From GVL Require Import NList Rtp.
From GV_av1 Require Import Model Proofs.
Open Scope N_scope.

(* every slice / index expression of Decode is in range, for arbitrary packet histories *)
Theorem C08_av1_total : forall hist, ~ In DPanic (snd (dec_run dinit hist)).
Proof. exact total. Qed.
Print Assumptions C08_av1_total.

(* every returned temporal unit has at most MaxOBUsPerTemporalUnit OBUs and MaxTemporalUnitSize bytes *)
Theorem C08_av1_output_bounded : forall hist f,
  In (DFrame f) (snd (dec_run dinit hist)) -> nlen f <= cap_obus /\ tu_size f <= cap_size.
Proof. exact output_bounded. Qed.
Print Assumptions C08_av1_output_bounded.

(* The retained-memory bound is FALSE of the code that exists: n start fragments (Z=0, Y=1) of one
   byte each are all retained - bytes and slice headers grow without bound. *)
Theorem C08_av1_bounded_refuted : forall B, exists hist,
  Forall (fun p => nlen (ppayload p) <= 2) hist /\
  B < fst (retained (fst (dec_run dinit hist))) /\ B < snd (retained (fst (dec_run dinit hist))).
Proof. exact bounded_refuted. Qed.
Print Assumptions C08_av1_bounded_refuted.

(* Strongest true statement: on histories in which no start fragment arrives while fragments are
   pending, with packets of at most P payload bytes: retained bytes <= MaxTemporalUnitSize (frame
   buffer) + max(MaxTemporalUnitSize, P) (fragments), retained slice headers <=
   MaxOBUsPerTemporalUnit + max(MaxTemporalUnitSize, P).  Missing: the histories excluded by
   [no_stale] (the violation above).  Returned frames are never written to again: aliasing fact,
   harness oracle. *)
Theorem C08_av1_bounded_partial : forall P hist,
  Forall (fun p => nlen (ppayload p) <= P) hist -> no_stale false dinit hist ->
  bounds P (fst (dec_run dinit hist)) (snd (dec_run dinit hist)).
Proof. exact bounded_partial. Qed.
Print Assumptions C08_av1_bounded_partial.

Example C08_av1_example : (* start, middle, middle, end + complete OBU with marker: no_stale holds *)
  let hist := [mkPkt 1 0 false [80; 1]; mkPkt 2 0 false [208; 2]; mkPkt 3 0 false [208; 3];
               mkPkt 4 0 true [160; 1; 4; 5]] in
  no_stale false dinit hist /\ snd (dec_run dinit hist) = [DMore; DMore; DMore; DFrame [[1; 2; 3; 4]; [5]]].
Proof. vm_compute. repeat split. Qed.

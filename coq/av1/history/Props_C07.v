(* C07, rtpav1 — statements only *)
From GVL Require Import NList Rtp.
From GV_av1 Require Import Model Proofs.
Open Scope N_scope.

(* The property is FALSE of the code that exists: decodeOBUs appends a start fragment (Z=0, Y=1) to
   d.fragments without dropping what is pending.  A fragmented unit that loses its last packet
   leaves its fragments behind; a following one-packet unit does not touch them; the next
   fragmented unit - intact, predecessor intact - comes back with the stale bytes glued in front. *)
Theorem C07_av1_resync_refuted : exists max f0 f1 f2 s0 s1 s2 s3 ps0 ps1 ps2,
  3 <= max /\ max < two32 /\ valid_tu f0 /\ valid_tu f1 /\ valid_tu f2 /\
  agree max f0 /\ agree max f1 /\ agree max f2 /\
  enc max s0 f0 = Some (ps0, s1) /\ enc max s1 f1 = Some (ps1, s2) /\ enc max s2 f2 = Some (ps2, s3) /\
  let d0 := fst (dec_run dinit (removelast ps0)) in
  let d1 := fst (dec_run d0 ps1) in
  ~ In (DFrame f2) (snd (dec_run d1 ps2)).
Proof. exact resync_refuted. Qed.
Print Assumptions C07_av1_resync_refuted.

(* Strongest true statement: after ANY packet history [hist] (loss, duplication, reordering,
   foreign or hostile packets), an intact unit f1 then an intact unit f2 (arbitrary sequence
   numbers: whole units may be lost in between): f2 is returned exactly at its last packet, "more"
   before, clean afterwards - provided no fragments are pending after [hist] or f1 takes at least
   two packets.  Missing: the case excluded by that premise (the violation above), and the units
   excluded by [agree] (finding F1, see C03). *)
Theorem C07_av1_resync_partial : forall max hist f1 f2 s1 s2,
  3 <= max -> max < two32 -> s1 < 65536 -> s2 < 65536 ->
  valid_tu f1 -> valid_tu f2 -> agree max f1 -> agree max f2 ->
  let d0 := fst (dec_run dinit hist) in
  exists ps1 ps2, enc max s1 f1 = Some (ps1, seq_add s1 (nlen ps1)) /\
                  enc max s2 f2 = Some (ps2, seq_add s2 (nlen ps2)) /\
    (dfrags d0 = [] \/ 2 <= nlen ps1 ->
     let d1 := fst (dec_run d0 ps1) in
     exists d2, dec_run d1 ps2 = (d2, repeat DMore (length ps2 - 1) ++ [DFrame f2]) /\ clean d2).
Proof. exact resync_partial. Qed.
Print Assumptions C07_av1_resync_partial.

(* never panics, whatever arrives *)
Theorem C07_av1_no_panic : forall hist, ~ In DPanic (snd (dec_run dinit hist)).
Proof. exact total. Qed.
Print Assumptions C07_av1_no_panic.

Example C07_av1_example : (* first packet of a 2-packet unit lost, then two intact 2-packet units *)
  option_map (fun pss => snd (dec_run dinit (tl (concat pss))))
             (enc_many 5 10 [[[1; 2; 3; 4; 5]]; [[6; 7; 8; 9; 10]]; [[11; 12; 13; 14; 15]]])
  = Some [DErr; DMore; DFrame [[6; 7; 8; 9; 10]]; DMore; DFrame [[11; 12; 13; 14; 15]]].
Proof. vm_compute. reflexivity. Qed.

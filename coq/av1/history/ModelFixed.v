(* The repaired rtpav1 code (see reports/av1.md for the two patches):
   - encoder: Y on the closed packet / Z on the next one only if a fragment was actually written
     (encoder.go, the two "nothing fits" branches);
   - decoder: a packet without Z drops pending fragments (decoder.go, the else-branch of "if z").
   Both are instances of the generic model in Model.v.  Not referenced by the Props files; when the
   fixes are committed in /repo, Model.v's [enc]/[dec]/[run] switch to these definitions and the
   Props files to the statements of ProofsFixed.v. *)
From GVL Require Import NList Wire Rtp.
From GV_av1 Require Import Model.
Open Scope N_scope.

Definition enc := enc_g true.
Definition enc_many := enc_many_g true.
Definition dec := dec_g true.
Definition dec_run := dec_run_g true.

(* both repairs / only the encoder repaired / only the decoder repaired *)
Definition run : list N -> list N := run_g true true.
Definition run_encfix : list N -> list N := run_g true false.
Definition run_decfix : list N -> list N := run_g false true.

(* BRIDGE: the integer formulas of pkg/format/rtpav1 (encoder.go, decoder.go) as TRANSLATED from the Go source on
   this run (GVG.Kern, tools/go2coq, spec.d/av1.txt) are the formulas the hand-written Model.v uses: in Encode the
   room left in the current packet (PayloadMaxSize - len(curPacket.Payload)), the omit-the-size condition
   (last OBU && obusInPacket < 3), needed = obuLen + obuLenLEBSize, needed <= avail, avail > 0,
   avail > maxFragmentedLEBSize, fragmentLen = avail - maxFragmentedLEBSize, the W field (obusInPacket + 1) << 4 and
   the four |= on the aggregation header (Z, Y, W, N), obusInPacket++, e.sequenceNumber++; in the decoder the length
   test, the Z / Y / W fields, the "element has a size" test, the size test, the W check, the continuation tests
   (pending fragment, sequence-number continuity), the size accumulation and the three caps.
   Re-checked against the regenerated Kern.v on every run. *)
From Coq Require Import ZArith NArith List Lia Bool.
From Coq Require Import ZifyBool ZifyN ZifyNat.
From GVL Require Import NList Wrap Rtp.
From GVG Require Import Consts Kern.
From GV_av1 Require Import Model BridgeLib.
Import ListNotations.
Open Scope Z_scope.

Definition byte (b : N) : Prop := (b < 256)%N.
Definition u16 (s : N) : Prop := (s < 65536)%N.

(* ---------- exhaustive checks over bytes (bit formulas are compared on all 256 arguments) ---------- *)
Fixpoint all_below (n : nat) (P : N -> bool) : bool :=
  match n with O => true | S k => P (N.of_nat k) && all_below k P end.
Lemma all_below_spec n P : all_below n P = true -> forall b, (b < N.of_nat n)%N -> P b = true.
Proof.
  induction n as [|k IH]; intros H b Hb; [lia|]. cbn [all_below] in H. apply andb_prop in H. destruct H as [H1 H2].
  destruct (N.eq_dec b (N.of_nat k)) as [->|Ne]; [exact H1|]. apply IH; [exact H2|lia].
Qed.
Lemma bytes_eq (f g : N -> Z) : all_below 256 (fun b => f b =? g b) = true -> forall b, byte b -> f b = g b.
Proof.
  intros H b Hb. apply Z.eqb_eq. apply (all_below_spec 256 (fun b => f b =? g b) H).
  unfold byte in Hb. change (N.of_nat 256) with 256%N. exact Hb.
Qed.
Lemma bytes_eqb (f g : N -> bool) : all_below 256 (fun b => Bool.eqb (f b) (g b)) = true -> forall b, byte b -> f b = g b.
Proof.
  intros H b Hb. apply Bool.eqb_prop. apply (all_below_spec 256 (fun b => Bool.eqb (f b) (g b)) H).
  unfold byte in Hb. change (N.of_nat 256) with 256%N. exact Hb.
Qed.

(* ---------- encoder (C06) ---------- *)

(* avail := e.PayloadMaxSize - len(curPacket.Payload); the payload is the aggregation header followed by Model.cbody *)
Lemma bridge_avail (max h : N) (body : bytes) : (1 + nlen body <= max)%N -> Z.of_N max < i64max ->
  k_av1_avail (Z.of_N max) (Z.of_N (nlen (h :: body))) = Z.of_N (max - (1 + nlen body)).
Proof. unfold k_av1_avail, i64max. cbn [nlen]. intros H1 H2. rewrite ki64_small by lia. lia. Qed.

(* omitSize := (i == (len(obus)-1) && obusInPacket < 3): "last OBU" is position i of n with i + 1 = n *)
Lemma bridge_omit (i n k : N) : (1 <= n)%N -> Z.of_N n < i64max ->
  k_av1_omit (Z.of_N i) (Z.of_N n) (Z.of_N k) = ((i + 1 =? n) && (k <? 3))%N.
Proof.
  unfold k_av1_omit, i64max. intros H1 H2. rewrite ki64_small by lia. f_equal.
  - destruct (Z.eqb_spec (Z.of_N i) (Z.of_N n - 1)), (N.eqb_spec (i + 1) n); lia.
  - exact (ltb_N k 3).
Qed.

(* needed = obuLen + obuLenLEBSize; if needed <= avail *)
Lemma bridge_needed (l ls : N) : Z.of_N (l + ls) < i64max -> k_av1_needed (Z.of_N l) (Z.of_N ls) = Z.of_N (l + ls).
Proof. unfold k_av1_needed, i64max. intros H. rewrite ki64_small by lia. lia. Qed.
Lemma bridge_fits (need avail : N) : k_av1_fits (Z.of_N need) (Z.of_N avail) = (need <=? avail)%N.
Proof. unfold k_av1_fits. apply leb_N. Qed.

(* the two decisions of Model.enc_obu on the translated avail / needed *)
Lemma bridge_fits_sized (max h : N) (body obu : bytes) : (1 + nlen body <= max)%N -> Z.of_N max < i64max ->
  Z.of_N (nlen obu + leb_size (nlen obu)) < i64max ->
  k_av1_fits (k_av1_needed (Z.of_N (nlen obu)) (Z.of_N (leb_size (nlen obu)))) (k_av1_avail (Z.of_N max) (Z.of_N (nlen (h :: body))))
  = (nlen obu + leb_size (nlen obu) <=? max - (1 + nlen body))%N.
Proof. intros H1 H2 H3. rewrite bridge_needed, bridge_avail by assumption. apply bridge_fits. Qed.
Lemma bridge_fits_omitted (max h : N) (body obu : bytes) : (1 + nlen body <= max)%N -> Z.of_N max < i64max ->
  k_av1_fits (Z.of_N (nlen obu)) (k_av1_avail (Z.of_N max) (Z.of_N (nlen (h :: body))))
  = (nlen obu <=? max - (1 + nlen body))%N.
Proof. intros H1 H2. rewrite bridge_avail by assumption. apply bridge_fits. Qed.

(* avail > 0, avail > maxFragmentedLEBSize, fragmentLen := avail - maxFragmentedLEBSize *)
Lemma bridge_frag (avail mfl : N) : Z.of_N avail < i64max ->
  k_av1_avail_pos (Z.of_N avail) = (0 <? avail)%N /\
  k_av1_frag_ok (Z.of_N avail) (Z.of_N mfl) = (mfl <? avail)%N /\
  ((mfl <= avail)%N -> k_av1_fraglen (Z.of_N avail) (Z.of_N mfl) = Z.of_N (avail - mfl)).
Proof.
  unfold k_av1_avail_pos, k_av1_frag_ok, k_av1_fraglen, i64max. intros H. split; [exact (gtb_N avail 0)|].
  split; [apply gtb_N|]. intros L. rewrite ki64_small by lia. lia.
Qed.

(* obusInPacket++, e.sequenceNumber++ *)
Lemma bridge_counters (k s : N) : Z.of_N k + 1 < i64max ->
  k_av1_obus_inc (Z.of_N k) = Z.of_N (k + 1) /\ k_av1_seq (Z.of_N s) = Z.of_N (seq_next s).
Proof.
  unfold k_av1_obus_inc, k_av1_seq, seq_next, i64max. intros H. split; [rewrite ki64_small by lia; lia|apply w16_succ_N].
Qed.

(* the W field: (obusInPacket + 1) << 4 = 16 * (ck + 1)   (both copies) *)
Lemma bridge_w (k : N) : Z.of_N (16 * (k + 1)) < i64max ->
  k_av1_w_whole (Z.of_N k) = Z.of_N (16 * (k + 1)) /\ k_av1_w_frag (Z.of_N k) = Z.of_N (16 * (k + 1)).
Proof.
  unfold k_av1_w_whole, k_av1_w_frag, i64max. intros H. rewrite (ki64_small (Z.of_N k + 1)) by lia.
  rewrite Z.shiftl_mul_pow2 by lia. change (2 ^ 4) with 16. rewrite ki64_small by lia. split; lia.
Qed.

(* the four |= on the aggregation header byte are the field updates of Model.hdr_byte: Z (createNewPacket), Y
   (finalizeCurPacket), W |= obusInPacket+1 (two copies; Model.enc_obu: N.lor (cw c) (ck c + 1)), N (random access) *)
Lemma bridge_hdr_bits (z y n : bool) (w k : N) (b : bytes) : (w < 4)%N -> (k < 3)%N ->
  k_av1_setz (Z.of_N (hdr_byte (mkFin false y w b) n)) = Z.of_N (hdr_byte (mkFin true y w b) n) /\
  k_av1_sety (Z.of_N (hdr_byte (mkFin z false w b) n)) = Z.of_N (hdr_byte (mkFin z true w b) n) /\
  k_av1_setn (Z.of_N (hdr_byte (mkFin z y w b) false)) = Z.of_N (hdr_byte (mkFin z y w b) true) /\
  k_av1_setw_whole (Z.of_N (hdr_byte (mkFin z y w b) n)) (Z.of_N k) = Z.of_N (hdr_byte (mkFin z y (N.lor w (k + 1)) b) n) /\
  k_av1_setw_frag (Z.of_N (hdr_byte (mkFin z y w b) n)) (Z.of_N k) = Z.of_N (hdr_byte (mkFin z y (N.lor w (k + 1)) b) n).
Proof.
  intros Hw Hk.
  assert (W : w = 0%N \/ w = 1%N \/ w = 2%N \/ w = 3%N) by lia.
  assert (K : k = 0%N \/ k = 1%N \/ k = 2%N) by lia.
  destruct W as [->|[->|[->| ->]]]; destruct K as [->|[->| ->]]; destruct z, y, n; vm_compute; repeat split.
Qed.

Theorem enc_kernels_are_the_code (max h : N) (body obu : bytes) (i cnt k s avail mfl : N) (z y n : bool) (w : N) (b : bytes) :
  (1 + nlen body <= max)%N -> Z.of_N max < i64max -> Z.of_N (nlen obu + leb_size (nlen obu)) < i64max ->
  (1 <= cnt)%N -> Z.of_N cnt < i64max -> Z.of_N (16 * (k + 1)) < i64max -> Z.of_N avail < i64max ->
  k_av1_avail (Z.of_N max) (Z.of_N (nlen (h :: body))) = Z.of_N (max - (1 + nlen body)) /\
  k_av1_omit (Z.of_N i) (Z.of_N cnt) (Z.of_N k) = ((i + 1 =? cnt) && (k <? 3))%N /\
  k_av1_needed (Z.of_N (nlen obu)) (Z.of_N (leb_size (nlen obu))) = Z.of_N (nlen obu + leb_size (nlen obu)) /\
  k_av1_fits (k_av1_needed (Z.of_N (nlen obu)) (Z.of_N (leb_size (nlen obu)))) (k_av1_avail (Z.of_N max) (Z.of_N (nlen (h :: body))))
    = (nlen obu + leb_size (nlen obu) <=? max - (1 + nlen body))%N /\
  k_av1_fits (Z.of_N (nlen obu)) (k_av1_avail (Z.of_N max) (Z.of_N (nlen (h :: body))))
    = (nlen obu <=? max - (1 + nlen body))%N /\
  k_av1_avail_pos (Z.of_N avail) = (0 <? avail)%N /\
  k_av1_frag_ok (Z.of_N avail) (Z.of_N mfl) = (mfl <? avail)%N /\
  ((mfl <= avail)%N -> k_av1_fraglen (Z.of_N avail) (Z.of_N mfl) = Z.of_N (avail - mfl)) /\
  k_av1_obus_inc (Z.of_N k) = Z.of_N (k + 1) /\ k_av1_seq (Z.of_N s) = Z.of_N (seq_next s) /\
  k_av1_w_whole (Z.of_N k) = Z.of_N (16 * (k + 1)) /\ k_av1_w_frag (Z.of_N k) = Z.of_N (16 * (k + 1)) /\
  ((w < 4)%N -> (k < 3)%N ->
   k_av1_setz (Z.of_N (hdr_byte (mkFin false y w b) n)) = Z.of_N (hdr_byte (mkFin true y w b) n) /\
   k_av1_sety (Z.of_N (hdr_byte (mkFin z false w b) n)) = Z.of_N (hdr_byte (mkFin z true w b) n) /\
   k_av1_setn (Z.of_N (hdr_byte (mkFin z y w b) false)) = Z.of_N (hdr_byte (mkFin z y w b) true) /\
   k_av1_setw_whole (Z.of_N (hdr_byte (mkFin z y w b) n)) (Z.of_N k) = Z.of_N (hdr_byte (mkFin z y (N.lor w (k + 1)) b) n) /\
   k_av1_setw_frag (Z.of_N (hdr_byte (mkFin z y w b) n)) (Z.of_N k) = Z.of_N (hdr_byte (mkFin z y (N.lor w (k + 1)) b) n)).
Proof.
  intros H1 H2 H3 H4 H5 H6 H7.
  destruct (bridge_frag avail mfl H7) as (F0 & F1 & F2).
  assert (Hk : Z.of_N k + 1 < i64max) by (unfold i64max in *; lia).
  destruct (bridge_counters k s Hk) as (C0 & C1). destruct (bridge_w k H6) as (W0 & W1).
  split; [apply bridge_avail; assumption|]. split; [apply bridge_omit; assumption|].
  split; [apply bridge_needed; assumption|]. split; [apply bridge_fits_sized; assumption|].
  split; [apply bridge_fits_omitted; assumption|].
  split; [exact F0|]. split; [exact F1|]. split; [exact F2|]. split; [exact C0|]. split; [exact C1|].
  split; [exact W0|]. split; [exact W1|]. intros Hw Hk3. apply bridge_hdr_bits; assumption.
Qed.

(* ---------- decoder: continuation tests (C07) ---------- *)

(* the Z and Y bits of the aggregation header *)
Lemma bridge_dec_zy (h : N) : byte h ->
  k_av1_dec_z (Z.of_N h) = ((h / 128) mod 2 =? 1)%N /\ k_av1_dec_y (Z.of_N h) = ((h / 64) mod 2 =? 1)%N.
Proof.
  intros H. split; revert h H.
  - apply (bytes_eqb (fun h => k_av1_dec_z (Z.of_N h)) (fun h => ((h / 128) mod 2 =? 1)%N)). vm_compute. reflexivity.
  - apply (bytes_eqb (fun h => k_av1_dec_y (Z.of_N h)) (fun h => ((h / 64) mod 2 =? 1)%N)). vm_compute. reflexivity.
Qed.

Lemma bridge_dec_cont (seq next fs cnt : N) (y : bool) : u16 seq -> u16 next ->
  k_av1_dec_nofrag (Z.of_N fs) = (fs =? 0)%N /\
  k_av1_dec_gap (Z.of_N seq) (Z.of_N next) = negb (seq =? next)%N /\
  k_av1_dec_incseq (Z.of_N next) = Z.of_N (seq_next next) /\
  k_av1_dec_more (Z.of_N cnt) y = ((cnt =? 1)%N && y) /\
  k_av1_dec_nextseq (Z.of_N seq) = Z.of_N (seq_next seq) /\
  k_av1_dec_none (Z.of_N cnt) = (cnt =? 0)%N.
Proof.
  unfold k_av1_dec_nofrag, k_av1_dec_gap, k_av1_dec_incseq, k_av1_dec_more, k_av1_dec_nextseq, k_av1_dec_none, seq_next.
  intros _ _. rewrite !w16_succ_N, eqb_N. split; [exact (eqb_N fs 0)|]. split; [reflexivity|]. split; [reflexivity|].
  split; [f_equal; exact (eqb_N cnt 1)|]. split; [reflexivity|exact (eqb_N cnt 0)].
Qed.

Theorem resync_kernels_are_the_code (h seq next fs cnt : N) (y : bool) : byte h -> u16 seq -> u16 next ->
  k_av1_dec_z (Z.of_N h) = ((h / 128) mod 2 =? 1)%N /\ k_av1_dec_y (Z.of_N h) = ((h / 64) mod 2 =? 1)%N /\
  k_av1_dec_nofrag (Z.of_N fs) = (fs =? 0)%N /\
  k_av1_dec_gap (Z.of_N seq) (Z.of_N next) = negb (seq =? next)%N /\
  k_av1_dec_incseq (Z.of_N next) = Z.of_N (seq_next next) /\
  k_av1_dec_more (Z.of_N cnt) y = ((cnt =? 1)%N && y) /\
  k_av1_dec_nextseq (Z.of_N seq) = Z.of_N (seq_next seq) /\
  k_av1_dec_none (Z.of_N cnt) = (cnt =? 0)%N.
Proof.
  intros Hh Hs Hn. destruct (bridge_dec_zy h Hh) as (A & B).
  destruct (bridge_dec_cont seq next fs cnt y Hs Hn) as (C & D & E & F & G & H). repeat split; assumption.
Qed.

(* ---------- decoder: length tests, the W field, caps (C08) ---------- *)

Lemma bridge_dec_short (pl : bytes) : k_av1_dec_short (Z.of_N (nlen pl)) = (nlen pl <? 2)%N.
Proof. unfold k_av1_dec_short. exact (ltb_N (nlen pl) 2). Qed.

Lemma bridge_dec_w (h : N) : byte h -> k_av1_dec_w (Z.of_N h) = Z.of_N ((h / 16) mod 4).
Proof. revert h. apply (bytes_eq (fun h => k_av1_dec_w (Z.of_N h)) (fun h => Z.of_N ((h / 16) mod 4))). vm_compute. reflexivity. Qed.

(* w == 0 || byte(len(obus)) < (w-1): the element carries a size *)
Lemma bridge_dec_sized (w cnt : N) : byte w ->
  k_av1_dec_sized (Z.of_N w) (Z.of_N cnt) = ((w =? 0) || (cnt mod 256 <? w - 1))%N.
Proof.
  unfold byte, k_av1_dec_sized, w8. intros H. destruct (N.eq_dec w 0) as [->|Hw]; [reflexivity|].
  rewrite (Z.mod_small (Z.of_N w - 1)) by lia. change 256 with (Z.of_N 256). rewrite <- N2Z.inj_mod.
  replace (Z.of_N w - 1) with (Z.of_N (w - 1)) by lia. rewrite ltb_N. f_equal. exact (eqb_N w 0).
Qed.

(* size == 0 || len(payload) < int(size)   (size is a uint32) *)
Lemma bridge_dec_badsize (size : N) (p1 : bytes) : (size < 4294967296)%N ->
  k_av1_dec_badsize (Z.of_N size) (Z.of_N (nlen p1)) = ((size =? 0) || (nlen p1 <? size))%N.
Proof.
  unfold k_av1_dec_badsize. intros H. rewrite ki64_small by lia. rewrite ltb_N. f_equal. exact (eqb_N size 0).
Qed.

(* w != 0 && len(obus) != int(w) *)
Lemma bridge_dec_badw (w cnt : N) : byte w ->
  k_av1_dec_badw (Z.of_N w) (Z.of_N cnt) = (negb (w =? 0) && negb (cnt =? w))%N.
Proof.
  unfold byte, k_av1_dec_badw. intros H. rewrite ki64_small by lia. rewrite eqb_N. f_equal. f_equal. exact (eqb_N w 0).
Qed.

(* d.fragmentsSize += len(obus[0]); if d.fragmentsSize > av1.MaxTemporalUnitSize *)
Lemma bridge_dec_cap (fs : N) (o0 : bytes) : Z.of_N (fs + nlen o0) < i64max ->
  k_av1_dec_acc (Z.of_N fs) (Z.of_N (nlen o0)) = Z.of_N (fs + nlen o0) /\
  k_av1_dec_cap (k_av1_dec_acc (Z.of_N fs) (Z.of_N (nlen o0))) (Z.of_N cap_size) = (cap_size <? fs + nlen o0)%N.
Proof.
  unfold k_av1_dec_cap, k_av1_dec_acc, i64max. intros H. rewrite ki64_small by lia.
  rewrite <- N2Z.inj_add. split; [reflexivity|apply gtb_N].
Qed.

(* Decode: the OBU-count cap and the temporal-unit size cap, and the two accumulations *)
Lemma bridge_fb (fl l fsz add : N) : Z.of_N (fl + l) < i64max -> Z.of_N (fsz + add) < i64max ->
  k_av1_fb_count (Z.of_N fl) (Z.of_N l) (Z.of_N cap_obus) = (cap_obus <? fl + l)%N /\
  k_av1_fb_size (Z.of_N fsz) (Z.of_N add) (Z.of_N cap_size) = (cap_size <? fsz + add)%N /\
  k_av1_fb_len_acc (Z.of_N fl) (Z.of_N l) = Z.of_N (fl + l) /\
  k_av1_fb_size_acc (Z.of_N fsz) (Z.of_N add) = Z.of_N (fsz + add).
Proof.
  unfold k_av1_fb_count, k_av1_fb_size, k_av1_fb_len_acc, k_av1_fb_size_acc, i64max. intros H1 H2.
  rewrite !ki64_small by lia. rewrite <- !N2Z.inj_add. repeat split; apply gtb_N.
Qed.

Theorem caps_kernels_are_the_code (pl p1 o0 : bytes) (h w cnt size fs fl l fsz add : N) :
  byte h -> byte w -> (size < 4294967296)%N ->
  Z.of_N (fs + nlen o0) < i64max -> Z.of_N (fl + l) < i64max -> Z.of_N (fsz + add) < i64max ->
  k_av1_dec_short (Z.of_N (nlen pl)) = (nlen pl <? 2)%N /\
  k_av1_dec_w (Z.of_N h) = Z.of_N ((h / 16) mod 4) /\
  k_av1_dec_sized (Z.of_N w) (Z.of_N cnt) = ((w =? 0) || (cnt mod 256 <? w - 1))%N /\
  k_av1_dec_badsize (Z.of_N size) (Z.of_N (nlen p1)) = ((size =? 0) || (nlen p1 <? size))%N /\
  k_av1_dec_badw (Z.of_N w) (Z.of_N cnt) = (negb (w =? 0) && negb (cnt =? w))%N /\
  k_av1_dec_acc (Z.of_N fs) (Z.of_N (nlen o0)) = Z.of_N (fs + nlen o0) /\
  k_av1_dec_cap (k_av1_dec_acc (Z.of_N fs) (Z.of_N (nlen o0))) (Z.of_N cap_size) = (cap_size <? fs + nlen o0)%N /\
  k_av1_fb_count (Z.of_N fl) (Z.of_N l) (Z.of_N cap_obus) = (cap_obus <? fl + l)%N /\
  k_av1_fb_size (Z.of_N fsz) (Z.of_N add) (Z.of_N cap_size) = (cap_size <? fsz + add)%N /\
  k_av1_fb_len_acc (Z.of_N fl) (Z.of_N l) = Z.of_N (fl + l) /\
  k_av1_fb_size_acc (Z.of_N fsz) (Z.of_N add) = Z.of_N (fsz + add).
Proof.
  intros Hh Hw Hs H1 H2 H3.
  destruct (bridge_dec_cap fs o0 H1) as (A & B). destruct (bridge_fb fl l fsz add H2 H3) as (E & F & G & H).
  split; [apply bridge_dec_short|]. split; [apply bridge_dec_w; exact Hh|]. split; [apply bridge_dec_sized; exact Hw|].
  split; [apply bridge_dec_badsize; exact Hs|]. split; [apply bridge_dec_badw; exact Hw|].
  repeat split; assumption.
Qed.

(* rtpav1 decoder on arbitrary histories: invariant, totality, bounds (C08), the unbounded run of
   start fragments, and the coupling lemma used for resynchronisation (C07). *)
From GVL Require Import NList Wire Rtp.
From GVG Require Import Consts.
From GV_av1 Require Import Model Leb.
From Coq Require Import ZifyBool ZifyNat ZifyN.
Open Scope N_scope.
Ltac splits := repeat match goal with |- _ /\ _ => split end.
Ltac break_if :=
  match goal with
  | |- context [if ?b then _ else _] => let E := fresh "E" in destruct b eqn:E
  end.

Definition nonempty (b : bytes) : Prop := 0 < nlen b.

Lemma concat_snoc {A} (l : list (list A)) x : concat (l ++ [x]) = concat l ++ x.
Proof. rewrite concat_app. cbn. now rewrite app_nil_r. Qed.
Lemma tu_size_app a b : tu_size (a ++ b) = tu_size a + tu_size b.
Proof. unfold tu_size. now rewrite concat_app, nlen_app. Qed.
Lemma tu_size_cons a b : tu_size (a :: b) = nlen a + tu_size b.
Proof. unfold tu_size. cbn [concat]. now rewrite nlen_app. Qed.
Lemma tu_size_nil : tu_size [] = 0.
Proof. reflexivity. Qed.
Lemma nlen_concat_ge (l : list bytes) : Forall nonempty l -> nlen l <= nlen (concat l).
Proof. induction 1 as [|x t Hx Ht IH]; cbn [nlen concat]; [lia|]. rewrite nlen_app. unfold nonempty in Hx. lia. Qed.

(* ---- joinFragments never slices out of range and returns exactly [size] bytes ---- *)
Lemma join_aux_some frags : forall size n, n <= size ->
  exists r, join_aux frags size n = Some r /\ nlen r = size - n.
Proof.
  induction frags as [|p t IH]; intros size n H; cbn [join_aux].
  - eexists. split; [reflexivity|]. now rewrite nlen_nrep.
  - destruct (N.ltb_spec size n); [lia|].
    destruct (IH size (n + nlen (ntake (size - n) p))) as (r & Hr & Hl).
    + rewrite nlen_ntake. lia.
    + rewrite Hr. eexists. split; [reflexivity|]. rewrite nlen_app, Hl, nlen_ntake. lia.
Qed.
Lemma join_some frags size : exists r, join frags size = Some r /\ nlen r = size.
Proof. destruct (join_aux_some frags size 0 ltac:(lia)) as (r & H & L). exists r. split; [exact H|]. lia. Qed.

(* join is exact when size is the total length *)
Lemma join_aux_exact frags : forall size n,
  size = n + nlen (concat frags) -> join_aux frags size n = Some (concat frags).
Proof.
  induction frags as [|p t IH]; intros size n Hs; cbn [join_aux concat] in *.
  - cbn [nlen] in Hs. replace (size - n) with 0 by lia. reflexivity.
  - rewrite nlen_app in Hs. destruct (N.ltb_spec size n); [lia|].
    rewrite ntake_all by lia. rewrite IH by lia. reflexivity.
Qed.
Lemma join_exact frags : join frags (nlen (concat frags)) = Some (concat frags).
Proof. unfold join. now apply join_aux_exact. Qed.

(* ---- the element loop ---- *)
Lemma parse_props fuel : forall w payload acc, nlen payload <= nlen fuel ->
  parse_obus fuel w payload acc <> PPanic /\
  forall obus, parse_obus fuel w payload acc = POk obus ->
    exists new, obus = acc ++ new /\ Forall nonempty new /\ (payload <> [] -> new <> []) /\
                tu_size new <= nlen payload /\ nlen new <= nlen payload.
Proof.
  induction fuel as [|f0 fuel IH]; intros w payload acc Hf.
  - destruct payload; [|cbn [nlen] in Hf; lia]. cbn [parse_obus]. split; [discriminate|].
    intros obus H; injection H as <-. exists []. rewrite app_nil_r. splits; auto; cbn; lia.
  - destruct payload as [|b t].
    { cbn [parse_obus]. split; [discriminate|]. intros obus H; injection H as <-. exists [].
      rewrite app_nil_r. splits; auto; cbn; lia. }
    cbn [parse_obus]. set (payload := b :: t) in *.
    destruct ((w =? 0) || (nlen acc mod 256 <? w - 1)).
    + destruct (leb_dec payload) as [[size n]|] eqn:EL.
      2:{ split; [discriminate|]. intros ? H; discriminate. }
      apply leb_dec_n in EL. destruct EL as [[Hn1 Hn2] _].
      destruct (N.ltb_spec (nlen payload) n); [lia|].
      destruct ((size =? 0) || (nlen (ndrop n payload) <? size)) eqn:EC.
      { split; [discriminate|]. intros ? H1; discriminate. }
      apply orb_false_iff in EC. destruct EC as [Hs0 Hs1].
      apply N.eqb_neq in Hs0. apply N.ltb_ge in Hs1. rewrite nlen_ndrop in Hs1.
      specialize (IH w (ndrop size (ndrop n payload)) (acc ++ [ntake size (ndrop n payload)])).
      destruct IH as [IHp IHo].
      { rewrite !nlen_ndrop. cbn [nlen] in Hf. lia. }
      split; [exact IHp|]. intros obus Ho. destruct (IHo obus Ho) as (new & -> & Hne & _ & Hsz & Hct).
      exists (ntake size (ndrop n payload) :: new). rewrite <- app_assoc. cbn [app].
      rewrite !nlen_ndrop in Hsz, Hct.
      assert (Hlt : nlen (ntake size (ndrop n payload)) = size) by (rewrite nlen_ntake, nlen_ndrop; lia).
      splits; [reflexivity| |discriminate| |].
      * constructor; [unfold nonempty; lia|exact Hne].
      * rewrite tu_size_cons, Hlt. lia.
      * cbn [nlen]. lia.
    + split; [discriminate|]. intros obus H1; injection H1 as <-. exists [payload].
      splits; [reflexivity| |discriminate| |].
      * constructor; [unfold nonempty, payload; cbn [nlen]; lia|constructor].
      * rewrite tu_size_cons, tu_size_nil. lia.
      * unfold payload. cbn [nlen]. lia.
Qed.

Lemma split_last_snoc {A} (l : list A) x : split_last (l ++ [x]) = Some (l, x).
Proof. unfold split_last. rewrite rev_app_distr. cbn. now rewrite rev_involutive. Qed.
Lemma split_last_some {A} (l : list A) : l <> [] -> exists i x, l = i ++ [x] /\ split_last l = Some (i, x).
Proof.
  intros H. destruct (exists_last H) as (i & x & ->). exists i, x. split; [reflexivity|apply split_last_snoc].
Qed.

(* ---- the invariant of every reachable decoder state (code that exists and repaired code) ---- *)
Record Inv (d : dstate) : Prop := {
  inv_ne : Forall nonempty (dfrags d);
  inv_z1 : dsize d = 0 -> dfrags d = [];
  inv_z2 : dfrags d = [] -> dsize d = 0;
  inv_len : dbuflen d = nlen (dbuf d);
  inv_bsz : dbufsize d = tu_size (dbuf d);
  inv_cap1 : dbuflen d <= cap_obus;
  inv_cap2 : dbufsize d <= cap_size }.

Lemma inv_init : Inv dinit.
Proof. constructor; cbn; auto; try lia; unfold cap_obus, cap_size, av1_max_obus, av1_max_tu_size; lia. Qed.
Lemma inv_reset d : Inv d -> Inv (reset_frags d).
Proof. intros [? ? ? ? ? ? ?]. constructor; cbn; auto. Qed.
Lemma inv_clear d : Inv d -> Inv (clear_buf d).
Proof. intros [? ? ? ? ? ? ?]. constructor; cbn; auto; lia. Qed.

(* frags part of a state after appending a fragment *)
Lemma inv_append d o sz nx : Inv d -> nonempty o -> 0 < sz ->
  Inv (mkD (dfrags d ++ [o]) sz nx (dbuf d) (dbuflen d) (dbufsize d)).
Proof.
  intros [? ? ? ? ? ? ?] Ho Hs. constructor; cbn [dfrags dsize dnext dbuf dbuflen dbufsize]; auto.
  - apply Forall_app. split; [assumption|]. constructor; [assumption|constructor].
  - lia.
  - intros H. destruct (dfrags d); discriminate.
Qed.

(* [exact d]: fragmentsSize is the number of pending bytes (false in the code that exists after a
   start fragment has been appended to stale fragments) *)
Definition exact (d : dstate) : Prop := dsize d = nlen (concat (dfrags d)).

Lemma post_parse_inv dfx P d seq z y w obus :
  Inv d -> obus <> [] -> Forall nonempty obus -> tu_size obus <= P ->
  Inv (fst (post_parse dfx d seq z y w obus)) /\
  snd (post_parse dfx d seq z y w obus) <> OPanic /\
  (dsize d <= N.max cap_size P -> dsize (fst (post_parse dfx d seq z y w obus)) <= N.max cap_size P) /\
  (dfx = true \/ z = true \/ y = false \/ dfrags d = [] -> exact d ->
     exact (fst (post_parse dfx d seq z y w obus))) /\
  (forall o, snd (post_parse dfx d seq z y w obus) = OObus o -> Forall nonempty o).
Proof.
  intros HI Hne Hall HP. unfold post_parse.
  destruct (negb (w =? 0) && negb (nlen obus =? w)).
  { cbn [fst snd]. splits; auto; discriminate. }
  destruct z.
  - (* continuation *)
    destruct (N.eqb_spec (dsize d) 0) as [Hz|Hz].
    { cbn [fst snd]. splits; auto; discriminate. }
    destruct (seq =? dnext d); cbn [negb].
    2:{ cbn [fst snd]. splits; try discriminate; try (apply inv_reset; assumption); unfold exact; cbn; intros; lia. }
    destruct obus as [|o0 rest]; [contradiction|].
    inversion Hall as [|? ? Ho0 Hrest]; subst.
    destruct (N.ltb_spec cap_size (dsize d + nlen o0)) as [Hc|Hc].
    { cbn [fst snd]. splits; try discriminate; try (apply inv_reset; assumption); unfold exact; cbn; intros; lia. }
    set (d1 := mkD (dfrags d ++ [o0]) (dsize d + nlen o0) (seq_next (dnext d)) (dbuf d) (dbuflen d) (dbufsize d)).
    assert (HI1 : Inv d1) by (apply inv_append; [assumption|assumption|lia]).
    assert (HE1 : exact d -> exact d1).
    { unfold exact, d1. cbn [dsize dfrags]. rewrite concat_snoc, nlen_app. lia. }
    destruct ((nlen (o0 :: rest) =? 1) && y) eqn:Emid.
    { cbn [fst snd]. splits; try discriminate; auto. unfold d1; cbn [dsize]. lia. }
    cbn [dfrags d1].
    destruct (join_some (dfrags d ++ [o0]) (dsize d + nlen o0)) as (j & Hj & Hjl).
    change (dfrags d1) with (dfrags d ++ [o0]). rewrite Hj.
    assert (Hjne : nonempty j) by (unfold nonempty; lia).
    destruct y.
    + (* the last OBU continues *)
      destruct (split_last_some (j :: rest)) as (init & l & Heq & ->); [discriminate|].
      assert (Hl : nonempty l).
      { assert (HF : Forall nonempty (j :: rest)) by (constructor; assumption).
        rewrite Heq in HF. apply Forall_app in HF. destruct HF as [_ HF]. now inversion HF. }
      assert (Hinit : Forall nonempty init).
      { assert (HF : Forall nonempty (j :: rest)) by (constructor; assumption).
        rewrite Heq in HF. apply Forall_app in HF. tauto. }
      assert (Hlsz : nlen l <= P).
      { assert (tu_size (j :: rest) = tu_size (init ++ [l])) by now rewrite Heq.
        rewrite tu_size_app, !tu_size_cons, tu_size_nil in H. rewrite tu_size_cons in HP. 
        destruct init as [|i0 init'].
        - cbn [app] in Heq. injection Heq as -> ->. cbn [nlen] in Emid.
          rewrite andb_true_r in Emid. apply N.eqb_neq in Emid. cbn [nlen] in Emid. lia.
        - cbn [app] in Heq. injection Heq as -> ->. rewrite tu_size_app, tu_size_cons, tu_size_nil in HP. lia. }
      set (d2 := mkD (dfrags (reset_frags d1) ++ [l]) (nlen l) (seq_next seq) (dbuf (reset_frags d1))
                     (dbuflen (reset_frags d1)) (dbufsize (reset_frags d1))).
      assert (HI2 : Inv d2) by (apply inv_append; [apply inv_reset; assumption|assumption|exact Hl]).
      assert (HE2 : exact d2) by (unfold exact, d2; cbn; rewrite app_nil_r; reflexivity).
      destruct (nlen init =? 0); cbn [fst snd]; splits; try discriminate; auto;
        try (intros; unfold d2; cbn [dsize]; lia).
      intros o Ho; injection Ho as <-. exact Hinit.
    + cbn [fst snd]. splits; try discriminate; try (apply inv_reset; assumption).
      * cbn. intros; lia.
      * intros _ _. unfold exact. cbn. reflexivity.
      * intros o Ho; injection Ho as <-. constructor; assumption.
  - (* not a continuation *)
    set (d1 := if dfx then reset_frags d else d).
    assert (HI1 : Inv d1) by (unfold d1; destruct dfx; [apply inv_reset|]; assumption).
    destruct y.
    + destruct (split_last_some obus Hne) as (init & l & Heq & ->).
      assert (Hl : nonempty l).
      { rewrite Heq in Hall. apply Forall_app in Hall. destruct Hall as [_ HF]. now inversion HF. }
      assert (Hinit : Forall nonempty init).
      { rewrite Heq in Hall. apply Forall_app in Hall. tauto. }
      assert (Hlsz : nlen l <= P).
      { rewrite Heq, tu_size_app, tu_size_cons, tu_size_nil in HP. lia. }
      set (d2 := mkD (dfrags d1 ++ [l]) (nlen l) (seq_next seq) (dbuf d1) (dbuflen d1) (dbufsize d1)).
      assert (HI2 : Inv d2) by (apply inv_append; assumption).
      assert (HE2 : dfx = true \/ false = true \/ true = false \/ dfrags d = [] -> exact d -> exact d2).
      { intros Hc _. unfold exact, d2. cbn [dsize dfrags].
        assert (Hd1 : dfrags d1 = []).
        { unfold d1. destruct Hc as [->|[?|[?|Hc]]]; try discriminate; [reflexivity|].
          
          destruct dfx; [reflexivity|exact Hc]. }
        rewrite Hd1. cbn. now rewrite app_nil_r. }
      destruct (nlen init =? 0); cbn [fst snd]; splits; try discriminate; auto;
        try (intros; unfold d2; cbn [dsize]; lia).
      intros o Ho; injection Ho as <-. exact Hinit.
    + cbn [fst snd]. splits; try discriminate; auto.
      * unfold d1. destruct dfx; cbn; intros; lia.
      * intros _ He. unfold d1. destruct dfx; [unfold exact; cbn; reflexivity|exact He].
      * intros o Ho; injection Ho as <-. exact Hall.
Qed.

(* a start fragment (Z=0, Y=1) arriving while fragments are pending *)
Definition stale_start (d : dstate) (p : packet) : bool :=
  match ppayload p with
  | h :: _ => negb ((h / 128) mod 2 =? 1) && ((h / 64) mod 2 =? 1) && negb (nlen (dfrags d) =? 0)
  | [] => false
  end.

Lemma decode_obus_inv dfx P d p : Inv d -> nlen (ppayload p) <= P ->
  Inv (fst (decode_obus dfx d p)) /\
  snd (decode_obus dfx d p) <> OPanic /\
  (dsize d <= N.max cap_size P -> dsize (fst (decode_obus dfx d p)) <= N.max cap_size P) /\
  (dfx = true \/ stale_start d p = false -> exact d -> exact (fst (decode_obus dfx d p))) /\
  (forall o, snd (decode_obus dfx d p) = OObus o -> Forall nonempty o).
Proof.
  intros HI HP. unfold decode_obus, stale_start.
  destruct (N.ltb_spec (nlen (ppayload p)) 2) as [Hs|Hs].
  { cbn [fst snd]. splits; auto; discriminate. }
  destruct (ppayload p) as [|h body] eqn:Epl; [cbn [nlen] in Hs; lia|].
  cbn [nlen] in Hs, HP. unfold decode_body.
  destruct (parse_props body ((h / 16) mod 4) body [] ltac:(lia)) as [Hnp Hok].
  destruct (parse_obus body ((h / 16) mod 4) body []) as [| |obus] eqn:EP; [| contradiction |].
  { cbn [fst snd]. splits; try discriminate; try (apply inv_reset; assumption); unfold exact; cbn; intros; lia. }
  destruct (Hok obus eq_refl) as (new & Heq & Hne & Hnn & Hsz & _). cbn [app] in Heq. subst new.
  assert (Hb : body <> []) by (destruct body; [cbn [nlen] in Hs; lia|discriminate]).
  destruct (post_parse_inv dfx P d (pseq p) ((h / 128) mod 2 =? 1) ((h / 64) mod 2 =? 1) ((h / 16) mod 4) obus
              HI (Hnn Hb) Hne ltac:(lia)) as (H1 & H2 & H3 & H4 & H5).
  splits; auto. intros Hc. apply H4.
  destruct Hc as [Hc|Hc]; [left; exact Hc|right].
  destruct ((h / 128) mod 2 =? 1); [left; reflexivity|right].
  destruct ((h / 64) mod 2 =? 1); [right|left; reflexivity].
  cbn [negb andb] in Hc. destruct (N.eqb_spec (nlen (dfrags d)) 0) as [Hz|Hz]; [|discriminate].
  now apply nlen_nil_iff.
Qed.

Lemma finish_inv m d1 r : Inv d1 -> r <> OPanic -> (forall o, r = OObus o -> Forall nonempty o) ->
  Inv (fst (finish m (d1, r))) /\ snd (finish m (d1, r)) <> DPanic /\
  dfrags (fst (finish m (d1, r))) = dfrags d1 /\ dsize (fst (finish m (d1, r))) = dsize d1 /\
  dnext (fst (finish m (d1, r))) = dnext d1 /\
  forall f, snd (finish m (d1, r)) = DFrame f -> nlen f <= cap_obus /\ tu_size f <= cap_size.
Proof.
  intros HI Hnp Hne. unfold finish. destruct r as [| | |obus]; [| |contradiction|];
    try (cbn [fst snd]; splits; auto; discriminate).
  destruct (N.ltb_spec cap_obus (dbuflen d1 + nlen obus)).
  { cbn [fst snd]. splits; try discriminate; try reflexivity. now apply inv_clear. }
  destruct (N.ltb_spec cap_size (dbufsize d1 + tu_size obus)).
  { cbn [fst snd]. splits; try discriminate; try reflexivity. now apply inv_clear. }
  set (d2 := mkD (dfrags d1) (dsize d1) (dnext d1) (dbuf d1 ++ obus) (dbuflen d1 + nlen obus) (dbufsize d1 + tu_size obus)).
  assert (HI2 : Inv d2).
  { destruct HI as [? ? ? Hl Hb ? ?]. constructor; cbn [d2 dfrags dsize dnext dbuf dbuflen dbufsize]; auto.
    - rewrite nlen_app. lia.
    - rewrite tu_size_app. lia. }
  destruct m; cbn [negb fst snd].
  - splits; try discriminate; try reflexivity; [now apply inv_clear|].
    intros f Hf. injection Hf as <-. cbn [d2 dbuf]. destruct HI as [? ? ? Hl Hb ? ?].
    rewrite nlen_app, tu_size_app. lia.
  - splits; try discriminate; try reflexivity. exact HI2.
Qed.

Lemma dec_inv dfx P d p : Inv d -> nlen (ppayload p) <= P ->
  Inv (fst (dec_g dfx d p)) /\ snd (dec_g dfx d p) <> DPanic /\
  (dsize d <= N.max cap_size P -> dsize (fst (dec_g dfx d p)) <= N.max cap_size P) /\
  (dfx = true \/ stale_start d p = false -> exact d -> exact (fst (dec_g dfx d p))) /\
  (forall f, snd (dec_g dfx d p) = DFrame f -> nlen f <= cap_obus /\ tu_size f <= cap_size).
Proof.
  intros HI HP. unfold dec_g.
  destruct (decode_obus_inv dfx P d p HI HP) as (H1 & H2 & H3 & H4 & H5).
  destruct (decode_obus dfx d p) as [d1 r]. cbn [fst snd] in *.
  destruct (finish_inv (pmarker p) d1 r H1 H2 H5) as (F1 & F2 & F3 & F4 & F5 & F6).
  splits; auto.
  - rewrite F4. exact H3.
  - intros Hc He. unfold exact. rewrite F3, F4. apply H4; assumption.
Qed.

(* ---- arbitrary histories ---- *)
Lemma dec_run_inv dfx ps : forall d, Inv d ->
  Inv (fst (dec_run_g dfx d ps)) /\ ~ In DPanic (snd (dec_run_g dfx d ps)).
Proof.
  induction ps as [|p t IH]; intros d HI; cbn [dec_run_g]; [cbn; tauto|].
  destruct (dec_inv dfx (nlen (ppayload p)) d p HI ltac:(lia)) as (HI' & Hnp & _).
  destruct (dec_g dfx d p) as [d' r] eqn:E. cbn [fst snd] in *.
  destruct (IH d' HI') as [HI'' Hnp']. destruct (dec_run_g dfx d' t) as [d'' rs]. cbn [fst snd] in *.
  split; [assumption|]. intros [H|H]; [congruence|contradiction].
Qed.

Theorem total_g dfx hist : ~ In DPanic (snd (dec_run_g dfx dinit hist)).
Proof. apply (dec_run_inv dfx hist dinit inv_init). Qed.

(* no start fragment ever arrives while fragments are pending *)
Fixpoint no_stale (dfx : bool) (d : dstate) (hist : list packet) : Prop :=
  match hist with
  | [] => True
  | p :: t => stale_start d p = false /\ no_stale dfx (fst (dec_g dfx d p)) t
  end.

Definition bounds (P : N) (d : dstate) (rs : list (dres (list bytes))) : Prop :=
  fst (retained d) <= cap_size + N.max cap_size P /\
  snd (retained d) <= cap_obus + N.max cap_size P /\
  forall f, In (DFrame f) rs -> nlen f <= cap_obus /\ tu_size f <= cap_size.

Lemma bounded_gen dfx P hist : forall d,
  Inv d -> exact d -> dsize d <= N.max cap_size P ->
  Forall (fun p => nlen (ppayload p) <= P) hist ->
  dfx = true \/ no_stale dfx d hist ->
  let d' := fst (dec_run_g dfx d hist) in
  Inv d' /\ exact d' /\ dsize d' <= N.max cap_size P /\
  forall f, In (DFrame f) (snd (dec_run_g dfx d hist)) -> nlen f <= cap_obus /\ tu_size f <= cap_size.
Proof.
  induction hist as [|p t IH]; intros d HI HE HB HF Hc; cbn [dec_run_g].
  - cbn [fst snd]. splits; auto. intros f [].
  - inversion HF as [|? ? Hp Ht]; subst.
    destruct (dec_inv dfx P d p HI Hp) as (HI' & _ & HB' & HE' & Hfr).
    assert (Hc1 : dfx = true \/ stale_start d p = false).
    { destruct Hc as [Hc|Hc]; [left; exact Hc|right; apply Hc]. }
    assert (Hc2 : dfx = true \/ no_stale dfx (fst (dec_g dfx d p)) t).
    { destruct Hc as [Hc|Hc]; [left; exact Hc|right; apply Hc]. }
    specialize (IH (fst (dec_g dfx d p)) HI' (HE' Hc1 HE) (HB' HB) Ht Hc2).
    destruct (dec_g dfx d p) as [d' r]. cbn [fst snd] in *.
    destruct (dec_run_g dfx d' t) as [d'' rs]. cbn [fst snd] in *.
    destruct IH as (A & B & C & D). splits; auto.
    intros f [H|H]; [apply Hfr; assumption|apply D; assumption].
Qed.

Lemma retained_bounds P d : Inv d -> exact d -> dsize d <= N.max cap_size P ->
  fst (retained d) <= cap_size + N.max cap_size P /\ snd (retained d) <= cap_obus + N.max cap_size P.
Proof.
  intros [Hne _ _ Hl Hb Hc1 Hc2] HE HB. unfold retained, exact in *. cbn [fst snd].
  pose proof (nlen_concat_ge (dfrags d) Hne). unfold tu_size in Hb. lia.
Qed.

Theorem bounded_g dfx P hist :
  Forall (fun p => nlen (ppayload p) <= P) hist ->
  dfx = true \/ no_stale dfx dinit hist ->
  bounds P (fst (dec_run_g dfx dinit hist)) (snd (dec_run_g dfx dinit hist)).
Proof.
  intros HF Hc.
  destruct (bounded_gen dfx P hist dinit inv_init eq_refl ltac:(cbn; lia) HF Hc) as (A & B & C & D).
  destruct (retained_bounds P _ A B C). unfold bounds. splits; auto.
Qed.

(* returned frames are bounded on every history, also in the code that exists *)
Theorem output_bounded_g dfx hist f :
  In (DFrame f) (snd (dec_run_g dfx dinit hist)) -> nlen f <= cap_obus /\ tu_size f <= cap_size.
Proof.
  assert (G : forall hist d, Inv d -> In (DFrame f) (snd (dec_run_g dfx d hist)) ->
              nlen f <= cap_obus /\ tu_size f <= cap_size).
  { clear hist. induction hist as [|p t IH]; intros d HI; cbn [dec_run_g]; [intros []|].
    destruct (dec_inv dfx (nlen (ppayload p)) d p HI ltac:(lia)) as (HI' & _ & _ & _ & Hfr).
    destruct (dec_g dfx d p) as [d' r]. cbn [fst snd] in *.
    specialize (IH d' HI'). destruct (dec_run_g dfx d' t) as [d'' rs]. cbn [fst snd] in *.
    intros [H|H]; [apply Hfr; assumption|apply IH; assumption]. }
  apply G. exact inv_init.
Qed.

(* ---- the decoder before commit ccfdafa: endless start fragments were retained without bound ---- *)
Definition start_pkt (seq : N) : packet := mkPkt seq 0 false [80; 0].   (* 0x50: Y=1, W=1; one byte *)

Lemma start_run n : forall d seq, dbuf d = [] -> dbuflen d = 0 -> dbufsize d = 0 ->
  let d' := fst (dec_run_old (d) (map start_pkt (repeat seq n))) in
  dfrags d' = dfrags d ++ repeat [0] n /\ dbuf d' = [] /\ dbuflen d' = 0 /\ dbufsize d' = 0.
Proof.
  induction n as [|n IH]; intros d seq H1 H2 H3; cbn [repeat map].
  - cbn. rewrite app_nil_r. auto.
  - unfold dec_run_old. cbn [dec_run_g]. 
    set (d1 := mkD (dfrags d ++ [[0]]) 1 (seq_next seq) (dbuf d) (dbuflen d) (dbufsize d)).
    assert (E : dec_g false d (start_pkt seq) = (d1, DMore)) by reflexivity.
    rewrite E. specialize (IH d1 seq H1 H2 H3). unfold dec_run_old in IH.
    destruct (dec_run_g false d1 (map start_pkt (repeat seq n))) as [d'' rs]. cbn [fst] in *.
    destruct IH as (A & B & C & D). splits; auto.
    rewrite A. unfold d1. cbn [dfrags]. now rewrite <- app_assoc.
Qed.

Lemma nlen_concat_repeat1 k : nlen (concat (repeat [0] k)) = N.of_nat k.
Proof. induction k as [|k IH]; [reflexivity|]. cbn [repeat concat app nlen]. rewrite IH. lia. Qed.

Theorem unbounded_start_fragments : forall B, exists hist,
  Forall (fun p => nlen (ppayload p) <= 2) hist /\
  B < fst (retained (fst (dec_run_old dinit hist))) /\ B < snd (retained (fst (dec_run_old dinit hist))).
Proof.
  intros B. exists (map start_pkt (repeat 0 (N.to_nat (B + 1)))). split.
  - apply Forall_forall. intros p Hp. apply in_map_iff in Hp. destruct Hp as (s & <- & _). cbn. lia.
  - destruct (start_run (N.to_nat (B + 1)) dinit 0 eq_refl eq_refl eq_refl) as (A & Bf & _ & _).
    unfold retained. rewrite A, Bf. cbn [dinit dfrags app concat nlen fst snd].
    assert (L : nlen (repeat [0] (N.to_nat (B + 1))) = B + 1) by (rewrite nlen_repeat; lia).
    assert (L2 : nlen (concat (repeat [0] (N.to_nat (B + 1)))) = B + 1).
    { rewrite nlen_concat_repeat1. lia. }
    lia.
Qed.

(* ---- coupling: the same packets decoded from a clean and from an arbitrary state ---- *)
(* [S] is what is left in front of the fragment list of the second run from before *)
Definition R (S : list bytes) (dc dd : dstate) : Prop :=
  dfrags dd = S ++ dfrags dc /\ (dfrags dc <> [] -> dsize dd = dsize dc /\ dnext dd = dnext dc).

Definition zbit (p : packet) : bool :=
  match ppayload p with h :: _ => (h / 128) mod 2 =? 1 | [] => false end.

Definition same_class (a b : ores) : Prop :=
  match a, b with
  | OMore, OMore => True
  | OObus x, OObus y => True
  | _, _ => False
  end.

Lemma couple_post dfx S dc dd seq z y w obus :
  Inv dc -> Inv dd -> R S dc dd -> obus <> [] ->
  snd (post_parse dfx dc seq z y w obus) <> OErr ->
  exists S', R S' (fst (post_parse dfx dc seq z y w obus)) (fst (post_parse dfx dd seq z y w obus)) /\
    (S' = S \/ S' = []) /\ (dfx = true -> z = false -> S' = []) /\
    (dfrags dc <> [] -> dfrags (fst (post_parse dfx dc seq z y w obus)) = [] -> S' = []) /\
    (z = true -> dfrags dc <> []) /\
    same_class (snd (post_parse dfx dc seq z y w obus)) (snd (post_parse dfx dd seq z y w obus)).
Proof.
  intros HIc HId [HR1 HR2] Hne Hok. unfold post_parse in *.
  destruct (negb (w =? 0) && negb (nlen obus =? w)); [cbn in Hok; congruence|].
  destruct z.
  - destruct (N.eqb_spec (dsize dc) 0) as [Hz|Hz]; [cbn in Hok; congruence|].
    assert (Hfc : dfrags dc <> []) by (intros E; apply (inv_z2 _ HIc) in E; contradiction).
    destruct (HR2 Hfc) as [Hs Hn]. rewrite Hs, Hn.
    destruct (N.eqb_spec (dsize dc) 0); [contradiction|].
    destruct (seq =? dnext dc); cbn [negb] in *; [|cbn in Hok; congruence].
    destruct obus as [|o0 rest]; [contradiction|].
    destruct (cap_size <? dsize dc + nlen o0); [cbn in Hok; congruence|].
    destruct ((nlen (o0 :: rest) =? 1) && y) eqn:Emid.
    { cbn [fst snd]. exists S. splits; auto; try discriminate.
      - split; cbn [dfrags dsize dnext]; [rewrite HR1; now rewrite app_assoc|auto].
      - cbn [dfrags]. intros _ E. destruct (dfrags dc); discriminate.
      - exact I. }
    cbn [dfrags].
    destruct (join_some (dfrags dc ++ [o0]) (dsize dc + nlen o0)) as (jc & Hjc & Hjcl).
    destruct (join_some (dfrags dd ++ [o0]) (dsize dc + nlen o0)) as (jd & Hjd & Hjdl).
    rewrite Hjc, Hjd.
    destruct y.
    + destruct rest as [|r0 rest'].
      { cbn [nlen] in Emid. cbn in Emid. discriminate. }
      destruct (split_last_some (r0 :: rest')) as (init & l & Heq & Hsl); [discriminate|].
      assert (Ec : split_last (jc :: r0 :: rest') = Some (jc :: init, l)).
      { rewrite Heq. change (jc :: init ++ [l]) with ((jc :: init) ++ [l]). apply split_last_snoc. }
      assert (Ed : split_last (jd :: r0 :: rest') = Some (jd :: init, l)).
      { rewrite Heq. change (jd :: init ++ [l]) with ((jd :: init) ++ [l]). apply split_last_snoc. }
      rewrite Ec, Ed. cbn [nlen].
      destruct (N.eqb_spec (N.succ (nlen init)) 0); [lia|].
      cbn [fst snd reset_frags dfrags dsize dnext dbuf dbuflen dbufsize app].
      exists []. splits; auto; try discriminate.
      * split; cbn [dfrags dsize dnext app]; auto.
      * exact I.
    + cbn [fst snd]. exists []. splits; auto; try discriminate.
      * split; cbn [reset_frags dfrags app]; auto; intros E; contradiction.
      * exact I.
  - set (d1c := if dfx then reset_frags dc else dc).
    set (d1d := if dfx then reset_frags dd else dd).
    set (S1 := if dfx then [] else S).
    assert (HR' : R S1 d1c d1d).
    { unfold S1, d1c, d1d. destruct dfx; [split; cbn; auto; intros E; contradiction|split; assumption]. }
    assert (HS1 : S1 = S \/ S1 = []) by (unfold S1; destruct dfx; auto).
    assert (HS2 : dfx = true -> S1 = []) by (unfold S1; intros ->; reflexivity).
    assert (HS3 : dfrags dc <> [] -> dfrags d1c = [] -> S1 = []).
    { unfold d1c, S1. destruct dfx; [reflexivity|]. intros A B; contradiction. }
    destruct HR' as [HA HB].
    destruct y.
    + destruct (split_last_some obus Hne) as (init & l & Heq & ->).
      cbn [fst snd].
      assert (HRn : R S1 (mkD (dfrags d1c ++ [l]) (nlen l) (seq_next seq) (dbuf d1c) (dbuflen d1c) (dbufsize d1c))
                         (mkD (dfrags d1d ++ [l]) (nlen l) (seq_next seq) (dbuf d1d) (dbuflen d1d) (dbufsize d1d))).
      { split; cbn [dfrags dsize dnext]; [rewrite HA; now rewrite app_assoc|auto]. }
      destruct (nlen init =? 0); cbn [fst snd]; exists S1; splits; auto; try discriminate;
        try exact I; cbn [dfrags]; intros _ E; destruct (dfrags d1c); discriminate.
    + cbn [fst snd]. exists S1. splits; auto; try discriminate; try exact I. split; assumption.
Qed.

Lemma couple_step dfx S dc dd p :
  Inv dc -> Inv dd -> R S dc dd -> snd (dec_g dfx dc p) <> DErr ->
  exists S', R S' (fst (dec_g dfx dc p)) (fst (dec_g dfx dd p)) /\
    (S' = S \/ S' = []) /\ (dfx = true -> zbit p = false -> S' = []) /\
    (dfrags dc <> [] -> dfrags (fst (dec_g dfx dc p)) = [] -> S' = []) /\
    (zbit p = true -> dfrags dc <> []) /\
    (forall f, snd (dec_g dfx dc p) = DFrame f ->
       dbuf (fst (dec_g dfx dd p)) = [] /\ dbuflen (fst (dec_g dfx dd p)) = 0 /\ dbufsize (fst (dec_g dfx dd p)) = 0).
Proof.
  intros HIc HId HR Hok. unfold dec_g, zbit in *.
  pose proof (decode_obus_inv dfx (nlen (ppayload p)) dc p HIc ltac:(lia)) as (Ic1 & Ic2 & _ & _ & Ic5).
  pose proof (decode_obus_inv dfx (nlen (ppayload p)) dd p HId ltac:(lia)) as (Id1 & Id2 & _ & _ & Id5).
  unfold decode_obus in *.
  destruct (N.ltb_spec (nlen (ppayload p)) 2) as [Hs|Hs]; [cbn in Hok; congruence|].
  destruct (ppayload p) as [|h body] eqn:Epl; [cbn [nlen] in Hs; lia|]. cbn [nlen] in Hs.
  unfold decode_body in *.
  destruct (parse_props body ((h / 16) mod 4) body [] ltac:(lia)) as [Hnp Hpo].
  destruct (parse_obus body ((h / 16) mod 4) body []) as [| |obus] eqn:EP; [cbn in Hok; congruence|contradiction|].
  destruct (Hpo obus eq_refl) as (new & Heq & _ & Hnn & _). cbn [app] in Heq. subst new.
  assert (Hb : body <> []) by (destruct body; [cbn [nlen] in Hs; lia|discriminate]).
  set (z := (h / 128) mod 2 =? 1) in *. set (y := (h / 64) mod 2 =? 1) in *. set (w := (h / 16) mod 4) in *.
  assert (Hok' : snd (post_parse dfx dc (pseq p) z y w obus) <> OErr).
  { intros E. destruct (post_parse dfx dc (pseq p) z y w obus) as [d1 r]. cbn [snd] in E. subst r.
    cbn in Hok. congruence. }
  destruct (couple_post dfx S dc dd (pseq p) z y w obus HIc HId HR (Hnn Hb) Hok')
    as (S' & HR' & H1 & H2 & H3 & H4 & H5).
  destruct (post_parse dfx dc (pseq p) z y w obus) as [d1c rc].
  destruct (post_parse dfx dd (pseq p) z y w obus) as [d1d rd].
  cbn [fst snd] in *.
  destruct (finish_inv (pmarker p) d1c rc Ic1 Ic2 Ic5) as (_ & _ & Fc3 & Fc4 & Fc5 & _).
  destruct (finish_inv (pmarker p) d1d rd Id1 Id2 Id5) as (_ & _ & Fd3 & Fd4 & Fd5 & _).
  exists S'. splits; auto.
  - destruct HR' as [A B]. split; [rewrite Fc3, Fd3; exact A|].
    rewrite Fc3, Fc4, Fc5, Fd4, Fd5. exact B.
  - rewrite Fc3. exact H3.
  - intros f Hf. destruct rc as [| | |oc]; try (cbn in Hf; discriminate).
    destruct rd as [| | |od]; try contradiction.
    unfold finish in *.
    destruct (cap_obus <? dbuflen d1c + nlen oc); [cbn in Hf; discriminate|].
    destruct (cap_size <? dbufsize d1c + tu_size oc); [cbn in Hf; discriminate|].
    destruct (pmarker p); cbn [negb] in *; [|cbn in Hf; discriminate].
    destruct (cap_obus <? dbuflen d1d + nlen od); [cbn; auto|].
    destruct (cap_size <? dbufsize d1d + tu_size od); cbn; auto.
Qed.

Definition buf_clean (d : dstate) : Prop := dbuf d = [] /\ dbuflen d = 0 /\ dbufsize d = 0.
Definition clean (d : dstate) : Prop := dfrags d = [] /\ dsize d = 0 /\ buf_clean d.

Lemma clean_inv d : clean d -> Inv d.
Proof.
  intros (A & B & C & D & E). constructor; rewrite ?A, ?B, ?C, ?D, ?E; cbn; auto; try lia;
  unfold cap_obus, cap_size, av1_max_obus, av1_max_tu_size; lia.
Qed.

Lemma couple_run dfx ps : forall S dc dd,
  Inv dc -> Inv dd -> R S dc dd ->
  ~ In DErr (snd (dec_run_g dfx dc ps)) ->
  let dc' := fst (dec_run_g dfx dc ps) in
  let dd' := fst (dec_run_g dfx dd ps) in
  exists S', R S' dc' dd' /\ (S' = S \/ S' = []) /\
    (dfrags dc <> [] -> dfrags dc' = [] -> S' = []) /\
    (existsb zbit ps = true -> dfrags dc' = [] -> S' = []) /\
    (dfx = true -> dfrags dc = [] -> ps <> [] -> S' = []) /\
    (forall f, last (snd (dec_run_g dfx dc ps)) DMore = DFrame f -> buf_clean dd').
Proof.
  induction ps as [|p t IH]; intros S dc dd HIc HId HR Hok; cbn [dec_run_g].
  - cbn [fst snd last existsb]. exists S. splits; auto; try discriminate.
    + intros A B; contradiction.
    + intros _ _ A; contradiction.
  - cbn [dec_run_g] in Hok.
    pose proof (couple_step dfx S dc dd p HIc HId HR) as CS.
    pose proof (dec_inv dfx (nlen (ppayload p)) dc p HIc ltac:(lia)) as (HIc1 & _).
    pose proof (dec_inv dfx (nlen (ppayload p)) dd p HId ltac:(lia)) as (HId1 & _).
    destruct (dec_g dfx dc p) as [dc1 rc] eqn:Ec. destruct (dec_g dfx dd p) as [dd1 rd] eqn:Ed.
    cbn [fst snd] in *.
    pose proof (fun S => IH S dc1) as IH1.
    destruct (dec_run_g dfx dc1 t) as [dc2 rsc] eqn:Ec2. cbn [fst snd] in *.
    destruct CS as (S1 & HR1 & A1 & A2 & A3 & A4 & A5); [intros E; apply Hok; left; auto|].
    specialize (IH1 S1 dd1 HIc1 HId1 HR1).
    destruct (dec_run_g dfx dd1 t) as [dd2 rsd] eqn:Ed2.
    cbn [fst snd] in *.
    destruct IH1 as (S2 & HR2 & B1 & B2 & B3 & B4 & B5).
    { intros H. apply Hok. right. exact H. }
    exists S2. splits; auto.
    + destruct B1 as [-> | ->]; auto.
    + intros Hc He. destruct (dfrags dc1) as [|x xs] eqn:E1.
      * rewrite (A3 Hc eq_refl) in B1. destruct B1; assumption.
      * apply B2; [discriminate|exact He].
    + cbn [existsb]. intros Hz He. apply orb_true_iff in Hz. destruct Hz as [Hz|Hz].
      * specialize (A4 Hz). destruct (dfrags dc1) as [|x xs] eqn:E1.
        -- rewrite (A3 A4 eq_refl) in B1. destruct B1; assumption.
        -- apply B2; [discriminate|exact He].
      * apply B3; assumption.
    + intros Hf Hc _. destruct (zbit p) eqn:Ez.
      * specialize (A4 eq_refl). contradiction.
      * rewrite (A2 Hf eq_refl) in B1. destruct B1; assumption.
    + intros f Hl. destruct t as [|p2 t2].
      * cbn [dec_run_g] in Ec2, Ed2. injection Ec2 as <- <-. injection Ed2 as <- <-.
        cbn [last] in Hl. apply (A5 f Hl).
      * assert (rsc <> []).
        { cbn [dec_run_g] in Ec2. destruct (dec_g dfx dc1 p2). destruct (dec_run_g dfx d t2).
          injection Ec2 as _ <-. discriminate. }
        apply (B5 f). destruct rsc; [contradiction|]. exact Hl.
Qed.

(* absorption: packets that decode without error from a clean state to a frame at the last packet,
   leaving a clean state, also leave an arbitrary reachable state clean - provided stale fragments,
   if any, are dropped on the way (some packet carries Z, or the repaired decoder is used) *)
Theorem absorb_g dfx ps dc dd f :
  clean dc -> Inv dd ->
  ~ In DErr (snd (dec_run_g dfx dc ps)) ->
  last (snd (dec_run_g dfx dc ps)) DMore = DFrame f ->
  clean (fst (dec_run_g dfx dc ps)) ->
  dfrags dd = [] \/ existsb zbit ps = true \/ dfx = true ->
  clean (fst (dec_run_g dfx dd ps)).
Proof.
  intros Hc HId Hok Hl Hce Hcond.
  assert (HR : R (dfrags dd) dc dd).
  { destruct Hc as (A & _). split; [rewrite A; now rewrite app_nil_r|rewrite A; intros E; contradiction]. }
  destruct (couple_run dfx ps (dfrags dd) dc dd (clean_inv _ Hc) HId HR Hok) as (S' & [HR1 HR2] & A1 & A2 & A3 & A4 & A5).
  destruct Hce as (E1 & E2 & E3).
  assert (HS : S' = []).
  { destruct Hcond as [Hd|[Hz|Hf]].
    - rewrite Hd in A1. destruct A1; assumption.
    - apply A3; assumption.
    - apply A4; [assumption|apply Hc|]. intros ->. cbn in Hl. discriminate. }
  pose proof (dec_run_inv dfx ps dd HId) as [HI' _].
  rewrite HS, E1 in HR1. cbn [app] in HR1.
  split; [exact HR1|]. split; [apply (inv_z2 _ HI'); exact HR1|]. apply (A5 f Hl).
Qed.

(* rtpav1: the theorems about the code that exists ([enc], [dec] = [enc_g true], [dec_g true],
   i.e. with fix commits aec245d and ccfdafa), assembled from ProofsEnc (C06), ProofsDec (C08,
   coupling), ProofsRT (simulation); and regression lemmas about the code before the fixes
   ([enc_old], [dec_run_old]). *)
From GVL Require Import NList Wire Rtp.
From GVG Require Import Consts.
From GV_av1 Require Export Model Leb ProofsDec ProofsEnc ProofsRT.
From Coq Require Import ZifyBool ZifyNat ZifyN.
Open Scope N_scope.

(* ---------- C06 ---------- *)
Theorem enc_wellformed max seq obus : 3 <= max -> max < two32 -> seq < 65536 ->
  exists ps, enc max seq obus = Some (ps, seq_add seq (nlen ps)) /\
    ps <> [] /\
    Forall (fun p => nlen (ppayload p) <= max) ps /\
    (forall i p, nnth i ps = Some p -> pseq p = seq_add seq i /\ pmarker p = (i + 1 =? nlen ps)).
Proof. apply enc_wellformed_g. Qed.

Theorem enc_many_gapless max frames : 3 <= max -> max < two32 -> forall seq, seq < 65536 ->
  exists pss, enc_many max seq frames = Some pss /\
    forall i p, nnth i (concat pss) = Some p -> pseq p = seq_add seq i.
Proof. apply enc_many_gapless_g. Qed.

(* ---------- C03 ---------- *)
Theorem roundtrip max seq obus d :
  3 <= max -> max < two32 -> seq < 65536 -> valid_tu obus -> clean d ->
  exists ps d', enc max seq obus = Some (ps, seq_add seq (nlen ps)) /\
    dec_run d ps = (d', repeat DMore (length ps - 1) ++ [DFrame obus]) /\ clean d'.
Proof. intros H1 H2. apply (roundtrip_fixed true max H1 H2). Qed.

(* consecutive temporal units through one encoder/decoder pair *)
Fixpoint expect (pss : list (list packet)) (frames : list (list bytes)) : list (dres (list bytes)) :=
  match pss, frames with
  | ps :: pt, f :: ft => repeat DMore (length ps - 1) ++ [DFrame f] ++ expect pt ft
  | _, _ => []
  end.

Theorem roundtrip_seq max frames : 3 <= max -> max < two32 -> Forall valid_tu frames ->
  forall seq d, seq < 65536 -> clean d ->
  exists pss d', enc_many max seq frames = Some pss /\
    dec_run d (concat pss) = (d', expect pss frames) /\ clean d'.
Proof.
  intros H1 H2. induction frames as [|f t IH]; intros Hv seq d Hs Hc; unfold enc_many; cbn [enc_many_g].
  - exists [], d. cbn. auto.
  - inversion Hv as [|? ? Hf Ht]; subst.
    destruct (roundtrip max seq f d H1 H2 Hs Hf Hc) as (ps & d1 & E & Hr & Hc1).
    unfold enc in E. rewrite E.
    destruct (IH Ht (seq_add seq (nlen ps)) d1 (ProofsEnc.seq_add_lt _ _) Hc1) as (pss & d2 & E2 & Hr2 & Hc2).
    unfold enc_many in E2. rewrite E2. exists (ps :: pss), d2. split; [reflexivity|]. cbn [concat expect].
    unfold dec_run in *. rewrite dec_run_app, Hr, Hr2. split; [|exact Hc2]. now rewrite <- app_assoc.
Qed.

(* the decoder that was not repaired yet also decodes what the repaired encoder emits (the
   simulation is independent of the decoder repair) *)
Theorem roundtrip_any_decoder dfx max seq obus d :
  3 <= max -> max < two32 -> seq < 65536 -> valid_tu obus -> clean d ->
  exists ps d', enc max seq obus = Some (ps, seq_add seq (nlen ps)) /\
    dec_run_g dfx d ps = (d', repeat DMore (length ps - 1) ++ [DFrame obus]) /\ clean d'.
Proof. intros H1 H2. apply (roundtrip_fixed dfx max H1 H2). Qed.

(* ---------- C07 ---------- *)
Lemma not_in_repeat_more (f : list bytes) k : ~ In DErr (repeat (@DMore (list bytes)) k ++ [DFrame f]).
Proof.
  intros H. apply in_app_or in H. destruct H as [H|[H|[]]]; [apply repeat_spec in H|]; discriminate.
Qed.
Lemma last_repeat_more (f : list bytes) k : last (repeat (@DMore (list bytes)) k ++ [DFrame f]) DMore = DFrame f.
Proof. apply last_last. Qed.

(* After ANY history, an intact temporal unit f1 followed by an intact f2 (arbitrary sequence
   numbers): f2 is returned exactly at its last packet, "more" before, clean afterwards. *)
Theorem resync max hist f1 f2 s1 s2 :
  3 <= max -> max < two32 -> s1 < 65536 -> s2 < 65536 -> valid_tu f1 -> valid_tu f2 ->
  let d0 := fst (dec_run dinit hist) in
  exists ps1 ps2, enc max s1 f1 = Some (ps1, seq_add s1 (nlen ps1)) /\
                  enc max s2 f2 = Some (ps2, seq_add s2 (nlen ps2)) /\
     let d1 := fst (dec_run d0 ps1) in
     exists d2, dec_run d1 ps2 = (d2, repeat DMore (length ps2 - 1) ++ [DFrame f2]) /\ clean d2.
Proof.
  intros H1 H2 Hs1 Hs2 Hv1 Hv2 d0.
  assert (Hcl : clean dinit) by (repeat split).
  destruct (roundtrip max s1 f1 dinit H1 H2 Hs1 Hv1 Hcl) as (ps1 & dc1 & E1 & R1 & C1).
  destruct (roundtrip max s2 f2 dinit H1 H2 Hs2 Hv2 Hcl) as (ps2 & _ & E2 & _ & _).
  exists ps1, ps2. split; [exact E1|]. split; [exact E2|]. intros d1.
  assert (HI0 : Inv d0) by (apply (dec_run_inv true hist dinit inv_init)).
  assert (Hc1 : clean d1).
  { unfold d1, dec_run in *. eapply (absorb_g true ps1 dinit d0 f1 Hcl HI0).
    - rewrite R1. cbn [snd]. apply not_in_repeat_more.
    - rewrite R1. cbn [snd]. apply last_repeat_more.
    - rewrite R1. exact C1.
    - right. right. reflexivity. }
  destruct (roundtrip max s2 f2 d1 H1 H2 Hs2 Hv2 Hc1) as (ps2' & d2 & E2' & R2 & C2).
  rewrite E2 in E2'. injection E2' as <-. exists d2. split; assumption.
Qed.

(* ---------- C08 ---------- *)
Theorem total hist : ~ In DPanic (snd (dec_run dinit hist)).
Proof. apply total_g. Qed.

Theorem output_bounded hist f :
  In (DFrame f) (snd (dec_run dinit hist)) -> nlen f <= cap_obus /\ tu_size f <= cap_size.
Proof. apply output_bounded_g. Qed.

Theorem bounded P hist :
  Forall (fun p => nlen (ppayload p) <= P) hist ->
  bounds P (fst (dec_run dinit hist)) (snd (dec_run dinit hist)).
Proof. intros HF. apply bounded_g; auto. Qed.

(* ---------- regression: the code before the fixes ---------- *)
(* before aec245d: max 5, OBUs of 3 and 1 bytes: the first packet is full after the first OBU, was
   nevertheless closed with Y, and the decoder glued the two OBUs together *)
Theorem old_encoder_roundtrip_refuted : exists max seq obus,
  3 <= max /\ max < two32 /\ seq < 65536 /\ valid_tu obus /\
  exists ps s', enc_old max seq obus = Some (ps, s') /\
    snd (dec_run dinit ps) <> repeat DMore (length ps - 1) ++ [DFrame obus] /\
    snd (dec_run_old dinit ps) <> repeat DMore (length ps - 1) ++ [DFrame obus].
Proof.
  exists 5, 65535, [[1; 2; 3]; [4]].
  split; [lia|]. split; [unfold two32; lia|]. split; [lia|]. split.
  - split; [discriminate|]. split; [repeat constructor|].
    unfold cap_obus, cap_size, av1_max_obus, av1_max_tu_size. cbn. lia.
  - eexists _, _. split; [vm_compute; reflexivity|]. split; vm_compute; discriminate.
Qed.

(* before ccfdafa: a fragmented unit loses its last packet, then a one-packet unit and a fragmented
   unit arrive intact (packets of the repaired encoder) - and the last one was returned with the
   stale fragment glued in front *)
Theorem old_decoder_resync_refuted : exists max f0 f1 f2 s0 s1 s2 s3 ps0 ps1 ps2,
  3 <= max /\ max < two32 /\ valid_tu f0 /\ valid_tu f1 /\ valid_tu f2 /\
  enc max s0 f0 = Some (ps0, s1) /\ enc max s1 f1 = Some (ps1, s2) /\ enc max s2 f2 = Some (ps2, s3) /\
  let d0 := fst (dec_run_old dinit (removelast ps0)) in
  let d1 := fst (dec_run_old d0 ps1) in
  ~ In (DFrame f2) (snd (dec_run_old d1 ps2)).
Proof.
  exists 5, [[7; 7; 7; 7; 7; 7]], [[1]], [[1; 2; 3; 4; 5; 6]], 10, 12, 13, 15.
  eexists _, _, _.
  split; [lia|]. split; [unfold two32; lia|].
  assert (V : forall o, 0 < nlen o -> nlen o <= 6 -> valid_tu [o]).
  { intros o Ho1 Ho2. split; [discriminate|]. split; [repeat constructor; exact Ho1|].
    unfold cap_obus, cap_size, av1_max_obus, av1_max_tu_size, tu_size. cbn [nlen concat]. rewrite app_nil_r. lia. }
  split; [apply V; cbn; lia|]. split; [apply V; cbn; lia|]. split; [apply V; cbn; lia|].
  split; [vm_compute; reflexivity|]. split; [vm_compute; reflexivity|]. split; [vm_compute; reflexivity|].
  vm_compute. intros [H|[H|[]]]; discriminate.
Qed.

(* before ccfdafa: n start fragments of one byte each were all retained *)
Theorem old_decoder_unbounded : forall B, exists hist,
  Forall (fun p => nlen (ppayload p) <= 2) hist /\
  B < fst (retained (fst (dec_run_old dinit hist))) /\ B < snd (retained (fst (dec_run_old dinit hist))).
Proof. exact unbounded_start_fragments. Qed.

(* The repaired fastRTPUnmarshal is total and agrees with pion's Packet.Unmarshal without exception. *)
From Coq Require Import ZifyBool ZifyNat ZifyN.
From GVL Require Import NList Wire.
From GV_auxparse Require Import Model Proofs ModelFixed.
Open Scope N_scope.

Lemma fast_fixed_total payload pad hs : (0 <= hs)%Z ->
  fast_rtp_unmarshal_fixed payload pad hs <> Panic /\ fast_rtp_unmarshal_fixed payload pad hs <> Diverge.
Proof.
  intros Hhs. apply safe_spec. unfold fast_rtp_unmarshal_fixed. destruct pad.
  - destruct (Z.leb_spec (Z.of_N (nlen payload)) hs) as [|Hlt]; [exact I|].
    destruct (znth_in payload (Z.of_N (nlen payload) - 1)) as [ps ->]; [lia|lia|].
    destruct (ps =? 0); [exact I|].
    destruct (Z.ltb_spec (Z.of_N (nlen payload) - Z.of_N ps) hs) as [|Hge]; [exact I|].
    rewrite zsub_in by lia. exact I.
  - destruct (Z.ltb_spec (Z.of_N (nlen payload)) hs) as [|Hge]; [exact I|].
    rewrite zsub_in by lia. exact I.
Qed.

(* it differs from the present code only on "Padding set, last byte 0" *)
Lemma fast_fixed_vs_present payload pad hs :
  (pad = true /\ (hs < Z.of_N (nlen payload))%Z /\ nnth (nlen payload - 1) payload = Some 0 /\
   fast_rtp_unmarshal_fixed payload pad hs = Err e_fast_zero_padding) \/
  fast_rtp_unmarshal_fixed payload pad hs = fast_rtp_unmarshal payload pad hs.
Proof.
  unfold fast_rtp_unmarshal_fixed, fast_rtp_unmarshal. destruct pad; [|right; reflexivity].
  destruct (Z.leb_spec (Z.of_N (nlen payload)) hs) as [|Hlt]; [right; reflexivity|].
  unfold znth. destruct (Z.ltb_spec (Z.of_N (nlen payload) - 1) 0) as [|Hp]; [right; reflexivity|].
  destruct (nnth (Z.to_N (Z.of_N (nlen payload) - 1)) payload) as [ps|] eqn:E; [|right; reflexivity].
  destruct (N.eqb_spec ps 0) as [->|]; [|right; reflexivity].
  left. split; [reflexivity|]. split; [lia|]. split; [|reflexivity].
  replace (nlen payload - 1) with (Z.to_N (Z.of_N (nlen payload) - 1)) by lia. exact E.
Qed.

(* full agreement with pion's Packet.Unmarshal on the same bytes (no exception left) *)
Lemma fast_fixed_agrees_with_pion buf h n : rtp_header_unmarshal buf = Ok (h, n) ->
  match pion_packet_unmarshal buf with
  | Ok (h', f) => h' = h /\ fast_rtp_unmarshal_fixed buf (h_padding h) (Z.of_N n) = Ok f
  | Err e => exists e', fast_rtp_unmarshal_fixed buf (h_padding h) (Z.of_N n) = Err e'
  | Panic | Diverge => False
  end.
Proof.
  intros E. pose proof (rtp_header_size_in_range buf h n E) as Hn.
  unfold pion_packet_unmarshal, fast_rtp_unmarshal_fixed. rewrite E.
  destruct (h_padding h).
  - destruct (Z.leb_spec (Z.of_N (nlen buf)) (Z.of_N n)) as [|Hlt]; [eauto|].
    destruct (znth_in buf (Z.of_N (nlen buf) - 1)) as [ps ->]; [lia|lia|].
    destruct (ps =? 0); [eauto|].
    destruct (Z.ltb_spec (Z.of_N (nlen buf) - Z.of_N ps) (Z.of_N n)) as [|Hge]; [eauto|].
    rewrite zsub_in by lia. split; reflexivity.
  - destruct (Z.ltb_spec (Z.of_N (nlen buf)) (Z.of_N n)) as [|Hge]; [eauto|].
    rewrite zsub_in by lia. split; reflexivity.
Qed.
Print Assumptions fast_fixed_agrees_with_pion.

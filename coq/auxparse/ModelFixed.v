(* The repaired fastRTPUnmarshal proposed in reports/auxparse.md (not the code in /repo; compiled, not
   referenced by the Props files): a padding size of 0 is refused, as pion's Packet.Unmarshal does.

     p.Header.PaddingSize = buf[end-1]
   + if p.Header.PaddingSize == 0 { return nil, fmt.Errorf("invalid RTP padding") }
     end -= int(p.Header.PaddingSize)                                                         *)
From GVL Require Import NList Wire.
From GV_auxparse Require Import Model.
Open Scope N_scope.

Definition e_fast_zero_padding : N := 3.

Definition fast_rtp_unmarshal_fixed (payload : list N) (padding : bool) (hs : Z) : res fast_ok :=
  let n := hs in
  let end0 := Z.of_N (nlen payload) in
  if padding then
    if (end0 <=? n)%Z then Err e_fast_pad_no_room else
    match znth payload (end0 - 1) with
    | None => Panic
    | Some ps =>
      if ps =? 0 then Err e_fast_zero_padding else
      let end1 := (end0 - Z.of_N ps)%Z in
      if (end1 <? n)%Z then Err e_fast_end_before else
      match zsub payload n end1 with
      | None => Panic
      | Some p => Ok (mkFast ps p)
      end
    end
  else
    if (end0 <? n)%Z then Err e_fast_end_before else
    match zsub payload n end0 with
    | None => Panic
    | Some p => Ok (mkFast 0 p)
    end.

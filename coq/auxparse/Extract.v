From Coq Require Extraction ExtrOcamlBasic.
From GV_auxparse Require Import Model.
Extraction Language OCaml.
Extraction "model.ml" run.

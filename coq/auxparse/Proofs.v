(* Proofs for the auxparse domain: totality (no Panic, no Diverge) of every parser of Model.v, the exact
   outcome of fastRTPUnmarshal, its relation to pion's Packet.Unmarshal, and the shape of what the
   RTCP walks return. *)
From Coq Require Import ZifyBool ZifyNat ZifyN.
From GVL Require Import NList Wire.
From GVG Require Import Consts.
From GV_auxparse Require Import Model.
Open Scope N_scope.

Definition safe {A} (r : res A) : Prop :=
  match r with Panic | Diverge => False | _ => True end.
Definition xsafe (r : xres) : Prop :=
  match r with XPanic | XDiverge => False | _ => True end.

Lemma safe_spec {A} (r : res A) : safe r <-> r <> Panic /\ r <> Diverge.
Proof. destruct r; cbn; split; try tauto; try (intros _; split; discriminate); intros [H1 H2]; congruence. Qed.

(* ---------- checked accessors ---------- *)
Lemma nnth_in l i : i < nlen l -> exists x : N, nnth i l = Some x.
Proof. apply nnth_lt. Qed.

Lemma nsub_in (l : list N) i j : i <= j -> j <= nlen l -> nsub l i j = Some (ntake (j - i) (ndrop i l)).
Proof.
  intros H1 H2. unfold nsub.
  destruct (N.leb_spec i j); [|lia]. destruct (N.leb_spec j (nlen l)); [|lia]. reflexivity.
Qed.

Lemma nsub_inv (l : list N) i j s : nsub l i j = Some s -> i <= j /\ j <= nlen l /\ s = ntake (j - i) (ndrop i l).
Proof.
  unfold nsub. destruct (N.leb_spec i j); destruct (N.leb_spec j (nlen l)); cbn [andb]; intros E; inversion E; repeat split; auto.
Qed.

Lemma be16_in l off : off + 2 <= nlen l -> exists v, be16 l off = Some v.
Proof.
  intros H. unfold be16.
  destruct (nnth_in l off) as [a ->]; [lia|]. destruct (nnth_in l (off + 1)) as [b ->]; [lia|]. eauto.
Qed.

Lemma be32_in l off : off + 4 <= nlen l -> exists v, be32 l off = Some v.
Proof.
  intros H. unfold be32.
  destruct (nnth_in l off) as [a ->]; [lia|]. destruct (nnth_in l (off + 1)) as [b ->]; [lia|].
  destruct (nnth_in l (off + 2)) as [c ->]; [lia|]. destruct (nnth_in l (off + 3)) as [d ->]; [lia|]. eauto.
Qed.

Lemma zsub_in (l : list N) (i j : Z) : (0 <= i)%Z -> (i <= j)%Z -> (j <= Z.of_N (nlen l))%Z ->
  zsub l i j = Some (ntake (Z.to_N (j - i)) (ndrop (Z.to_N i) l)).
Proof.
  intros H1 H2 H3. unfold zsub.
  destruct (Z.leb_spec 0 i); [|lia]. destruct (Z.leb_spec i j); [|lia].
  destruct (Z.leb_spec j (Z.of_N (nlen l))); [|lia]. reflexivity.
Qed.

Lemma zsub_inv (l : list N) (i j : Z) s : zsub l i j = Some s ->
  (0 <= i)%Z /\ (i <= j)%Z /\ (j <= Z.of_N (nlen l))%Z /\ s = ntake (Z.to_N (j - i)) (ndrop (Z.to_N i) l).
Proof.
  unfold zsub. destruct (Z.leb_spec 0 i); destruct (Z.leb_spec i j);
    destruct (Z.leb_spec j (Z.of_N (nlen l))); cbn [andb]; intros E; inversion E; repeat split; auto.
Qed.

Lemma znth_in (l : list N) (i : Z) : (0 <= i)%Z -> (i < Z.of_N (nlen l))%Z -> exists x, znth l i = Some x.
Proof.
  intros H1 H2. unfold znth. destruct (Z.ltb_spec i 0); [lia|]. apply nnth_in. lia.
Qed.

(* a slice splits its list *)
Lemma slice_split (l : list N) (i k : N) : i + k <= nlen l ->
  l = ntake i l ++ ntake k (ndrop i l) ++ ndrop k (ndrop i l) /\
  nlen (ntake i l) = i /\ nlen (ntake k (ndrop i l)) = k /\ nlen (ndrop k (ndrop i l)) = nlen l - i - k.
Proof.
  intros H. split; [|split; [|split]].
  - rewrite ntake_ndrop, ntake_ndrop. reflexivity.
  - rewrite nlen_ntake. lia.
  - rewrite nlen_ntake, nlen_ndrop. lia.
  - rewrite !nlen_ndrop. lia.
Qed.

(* ================= fastRTPUnmarshal ================= *)

(* the padding size the code reads: the last byte when the Padding flag is set, else 0 *)
Definition pad_size (payload : list N) (pad : bool) : option N :=
  if pad then (if nlen payload =? 0 then None else nnth (nlen payload - 1) payload) else Some 0.

Lemma fast_total payload pad hs : (0 <= hs)%Z -> safe (fast_rtp_unmarshal payload pad hs).
Proof.
  intros Hhs. unfold fast_rtp_unmarshal. destruct pad.
  - destruct (Z.leb_spec (Z.of_N (nlen payload)) hs) as [|Hlt]; [exact I|].
    destruct (znth_in payload (Z.of_N (nlen payload) - 1)) as [ps ->]; [lia|lia|].
    destruct (ps =? 0); [exact I|].
    destruct (Z.ltb_spec (Z.of_N (nlen payload) - Z.of_N ps) hs) as [|Hge]; [exact I|].
    rewrite zsub_in by lia. exact I.
  - destruct (Z.ltb_spec (Z.of_N (nlen payload)) hs) as [|Hge]; [exact I|].
    rewrite zsub_in by lia. exact I.
Qed.

Lemma znth_last (payload : list N) ps : (0 < Z.of_N (nlen payload))%Z ->
  znth payload (Z.of_N (nlen payload) - 1) = Some ps -> nnth (nlen payload - 1) payload = Some ps.
Proof.
  intros Hp Hps. unfold znth in Hps. destruct (Z.ltb_spec (Z.of_N (nlen payload) - 1) 0); [lia|].
  replace (nlen payload - 1) with (Z.to_N (Z.of_N (nlen payload) - 1)) by lia. exact Hps.
Qed.

(* exactly which combinations are refused, for a non-negative header size: three error classes *)
Lemma fast_errors payload pad hs : (0 <= hs)%Z ->
  (fast_rtp_unmarshal payload pad hs = Err e_fast_pad_no_room <->
     pad = true /\ (Z.of_N (nlen payload) <= hs)%Z) /\
  (fast_rtp_unmarshal payload pad hs = Err e_fast_zero_padding <->
     pad = true /\ (hs < Z.of_N (nlen payload))%Z /\ nnth (nlen payload - 1) payload = Some 0) /\
  (fast_rtp_unmarshal payload pad hs = Err e_fast_end_before <->
     (pad = false /\ (Z.of_N (nlen payload) < hs)%Z) \/
     (pad = true /\ (hs < Z.of_N (nlen payload))%Z /\
        exists ps, nnth (nlen payload - 1) payload = Some ps /\ ps <> 0 /\
                   (Z.of_N (nlen payload) - Z.of_N ps < hs)%Z)) /\
  (forall e, fast_rtp_unmarshal payload pad hs = Err e ->
     e = e_fast_pad_no_room \/ e = e_fast_zero_padding \/ e = e_fast_end_before).
Proof.
  intros Hhs. unfold fast_rtp_unmarshal, e_fast_pad_no_room, e_fast_end_before, e_fast_zero_padding. destruct pad.
  - destruct (Z.leb_spec (Z.of_N (nlen payload)) hs) as [Hle|Hlt].
    + split; [|split; [|split]].
      * split; [intros _; split; [reflexivity|lia] | reflexivity].
      * split; [discriminate|]. intros (_ & Hc & _); lia.
      * split; [discriminate|]. intros [[Hc _]|(_ & Hc & _)]; [discriminate|lia].
      * intros e He; inversion He; auto.
    + destruct (znth_in payload (Z.of_N (nlen payload) - 1)) as [ps Hps]; [lia|lia|]. rewrite Hps.
      pose proof (znth_last payload ps ltac:(lia) Hps) as Hn.
      destruct (N.eqb_spec ps 0) as [Hz|Hnz].
      { subst ps. split; [|split; [|split]].
        - split; [discriminate|]. intros [_ Hc]; lia.
        - split; [|reflexivity]. intros _. split; [reflexivity|]. split; [lia|exact Hn].
        - split; [discriminate|]. intros [[Hc _]|(_ & _ & ps' & Hps' & Hnz' & _)]; [discriminate|].
          rewrite Hn in Hps'. congruence.
        - intros e He; inversion He; auto. }
      destruct (Z.ltb_spec (Z.of_N (nlen payload) - Z.of_N ps) hs) as [Hb|Hge].
      * split; [|split; [|split]].
        -- split; [discriminate|]. intros [_ Hc]; lia.
        -- split; [discriminate|]. intros (_ & _ & Hc). rewrite Hn in Hc. congruence.
        -- split; [|reflexivity]. intros _. right. split; [reflexivity|]. split; [lia|].
           exists ps. split; [exact Hn|]. split; [exact Hnz|lia].
        -- intros e He; inversion He; auto.
      * rewrite zsub_in by lia. split; [|split; [|split]].
        -- split; [discriminate|]. intros [_ Hc]; lia.
        -- split; [discriminate|]. intros (_ & _ & Hc). rewrite Hn in Hc. congruence.
        -- split; [discriminate|]. intros [[Hc _]|(_ & _ & ps' & Hps' & _ & Hlt')]; [discriminate|].
           rewrite Hn in Hps'. assert (ps' = ps) by congruence. subst ps'. lia.
        -- intros e He; discriminate.
  - destruct (Z.ltb_spec (Z.of_N (nlen payload)) hs) as [Hb|Hge].
    + split; [|split; [|split]].
      * split; [discriminate|]. intros [Hc _]; discriminate.
      * split; [discriminate|]. intros [Hc _]; discriminate.
      * split; [|reflexivity]. intros _. left. split; [reflexivity|lia].
      * intros e He; inversion He; auto.
    + rewrite zsub_in by lia. split; [|split; [|split]].
      * split; [discriminate|]. intros [Hc _]; discriminate.
      * split; [discriminate|]. intros [Hc _]; discriminate.
      * split; [discriminate|]. intros [[_ Hc]|(Hc & _)]; [lia|discriminate].
      * intros e He; discriminate.
Qed.

(* when it succeeds, the datagram is  header (hs bytes) ++ payload ++ padding (PaddingSize bytes);
   with the Padding flag the padding size is at least 1 (it counts itself) *)
Lemma fast_payload payload pad hs f : (0 <= hs)%Z ->
  fast_rtp_unmarshal payload pad hs = Ok f ->
  pad_size payload pad = Some (fo_padsize f) /\
  (pad = true -> 1 <= fo_padsize f) /\
  exists pre suf, payload = pre ++ fo_payload f ++ suf /\
                  Z.of_N (nlen pre) = hs /\ nlen suf = fo_padsize f /\
                  fo_payload f = ntake (nlen payload - fo_padsize f - Z.to_N hs) (ndrop (Z.to_N hs) payload).
Proof.
  intros Hhs. unfold fast_rtp_unmarshal, pad_size. destruct pad.
  - destruct (Z.leb_spec (Z.of_N (nlen payload)) hs) as [|Hlt]; [discriminate|].
    destruct (znth payload (Z.of_N (nlen payload) - 1)) as [ps|] eqn:Hps; [|discriminate].
    destruct (N.eqb_spec ps 0) as [|Hnz]; [discriminate|].
    destruct (Z.ltb_spec (Z.of_N (nlen payload) - Z.of_N ps) hs) as [|Hge]; [discriminate|].
    destruct (zsub payload hs (Z.of_N (nlen payload) - Z.of_N ps)) as [p|] eqn:Hs; [|discriminate].
    intros Hf; assert (Ef : f = mkFast ps p) by congruence; subst f; clear Hf. cbn [fo_padsize fo_payload].
    apply zsub_inv in Hs. destruct Hs as (H0 & H1 & H2 & ->).
    split; [|split; [intros _; lia|]].
    + destruct (N.eqb_spec (nlen payload) 0); [lia|]. apply znth_last; [lia|exact Hps].
    + destruct (slice_split payload (Z.to_N hs) (Z.to_N (Z.of_N (nlen payload) - Z.of_N ps - hs))) as (E & L1 & L2 & L3); [lia|].
      exists (ntake (Z.to_N hs) payload), (ndrop (Z.to_N (Z.of_N (nlen payload) - Z.of_N ps - hs)) (ndrop (Z.to_N hs) payload)).
      split; [exact E|]. split; [lia|]. split; [lia|]. f_equal. lia.
  - destruct (Z.ltb_spec (Z.of_N (nlen payload)) hs) as [|Hge]; [discriminate|].
    destruct (zsub payload hs (Z.of_N (nlen payload))) as [p|] eqn:Hs; [|discriminate].
    intros Hf; assert (Ef : f = mkFast 0 p) by congruence; subst f; clear Hf. cbn [fo_padsize fo_payload].
    apply zsub_inv in Hs. destruct Hs as (H0 & H1 & H2 & ->).
    split; [reflexivity|]. split; [discriminate|].
    destruct (slice_split payload (Z.to_N hs) (Z.to_N (Z.of_N (nlen payload) - hs))) as (E & L1 & L2 & L3); [lia|].
    exists (ntake (Z.to_N hs) payload), (ndrop (Z.to_N (Z.of_N (nlen payload) - hs)) (ndrop (Z.to_N hs) payload)).
    split; [exact E|]. split; [lia|]. split; [lia|]. f_equal. lia.
Qed.

(* the precondition 0 <= headerSize is necessary: a negative header size that is not refused panics *)
Lemma fast_negative_header_size_panics payload hs : (hs < 0)%Z ->
  fast_rtp_unmarshal payload false hs = Panic.
Proof.
  intros H. unfold fast_rtp_unmarshal.
  destruct (Z.ltb_spec (Z.of_N (nlen payload)) hs); [lia|].
  unfold zsub. destruct (Z.leb_spec 0 hs); [lia|]. reflexivity.
Qed.

(* ================= pion rtp.Header.Unmarshal ================= *)

Lemma read_csrc_in buf k off : off + 4 * N.of_nat k <= nlen buf ->
  exists r, read_csrc buf k off = Some r /\ nlen r = N.of_nat k.
Proof.
  revert off; induction k as [|k IH]; intros off H; cbn [read_csrc].
  - exists []. split; reflexivity.
  - destruct (be32_in buf off) as [v ->]; [lia|].
    unfold aux_rtp_csrc_length.
    destruct (IH (off + 4)) as (r & -> & Hr); [lia|].
    exists (v :: r). split; [reflexivity|]. cbn [nlen]. lia.
Qed.

Lemma ext_loop_safe buf ob ext_end : ext_end <= nlen buf ->
  forall fuel n acc, ext_end <= n + nlen fuel -> xsafe (ext_loop fuel buf ob ext_end n acc).
Proof.
  intros Hend. induction fuel as [|x fuel IH]; intros n acc Hf; cbn [ext_loop].
  - destruct (N.leb_spec ext_end n); [exact I|]. cbn [nlen] in Hf. lia.
  - destruct (N.leb_spec ext_end n) as [|Hlt]; [exact I|].
    cbn [nlen] in Hf.
    destruct (nnth_in buf n) as [b ->]; [lia|].
    destruct (b =? aux_rtp_extid_padding); [apply IH; lia|].
    destruct ob.
    + destruct ((N.shiftr b 4 =? aux_rtp_extid_reserved) || (N.shiftr b 4 =? aux_rtp_extid_padding))%bool; [exact I|].
      destruct (N.ltb_spec ext_end (n + 1 + (N.land b 15 + 1))) as [|Hge]; [exact I|].
      rewrite nsub_in by lia. apply IH. lia.
    + destruct (N.leb_spec ext_end (n + 1)) as [|Hlt1]; [exact I|].
      destruct (nnth_in buf (n + 1)) as [pl ->]; [lia|].
      destruct (N.ltb_spec ext_end (n + 1 + 1 + pl)) as [|Hge]; [exact I|].
      rewrite nsub_in by lia. apply IH. lia.
Qed.

Ltac unfold_rtp_consts :=
  unfold aux_rtp_header_length, aux_rtp_cc_mask, aux_rtp_csrc_offset, aux_rtp_csrc_length,
         aux_rtp_seq_offset, aux_rtp_ts_offset, aux_rtp_ssrc_offset in *.

Lemma land15 b : N.land b 15 <= 15.
Proof.
  replace (N.land b 15) with (b mod 16) by (symmetry; exact (N.land_ones b 4)).
  pose proof (N.mod_upper_bound b 16). lia.
Qed.

(* never panics, always terminates; and what it returns as header size lies inside the datagram *)
Lemma rtp_header_unmarshal_spec buf :
  match rtp_header_unmarshal buf with
  | Ok (h, n) => 12 + 4 * nlen (h_csrc h) <= n <= nlen buf /\ nlen (h_csrc h) <= 15 /\
                 (h_extension h = false -> n = 12 + 4 * nlen (h_csrc h) /\ h_exts h = []) /\
                 (h_extension h = true -> 16 + 4 * nlen (h_csrc h) <= n /\ (n - 4 * nlen (h_csrc h)) mod 4 = 0)
  | Err e => e = e_rtp_short \/ e = e_rtp_short_ext
  | Panic | Diverge => False
  end.
Proof.
  unfold rtp_header_unmarshal. unfold_rtp_consts.
  destruct (N.ltb_spec (nlen buf) 4) as [|H4]; [left; reflexivity|].
  destruct (nnth_in buf 0) as [b0 ->]; [lia|].
  pose proof (land15 b0) as Hcc. set (cc := N.land b0 15) in *.
  destruct (N.ltb_spec (nlen buf) (12 + cc * 4)) as [|Hn]; [left; reflexivity|].
  destruct (nnth_in buf 1) as [b1 ->]; [lia|].
  destruct (be16_in buf 2) as [sq ->]; [lia|].
  destruct (be32_in buf 4) as [ts ->]; [lia|].
  destruct (be32_in buf 8) as [ssrc ->]; [lia|].
  destruct (read_csrc_in buf (N.to_nat cc) 12) as (csrc & -> & Hcs); [lia|].
  destruct (0 <? bits b0 aux_rtp_extension_shift aux_rtp_extension_mask) eqn:Hext.
  - destruct (N.ltb_spec (nlen buf) (12 + cc * 4 + 4)) as [|Hn4]; [right; reflexivity|].
    destruct (be16_in buf (12 + cc * 4)) as [profile ->]; [lia|].
    destruct (be16_in buf (12 + cc * 4 + 2)) as [xl ->]; [lia|].
    destruct (N.ltb_spec (nlen buf) (12 + cc * 4 + 4 + xl * 4)) as [|Hend]; [right; reflexivity|].
    destruct ((profile =? aux_rtp_ext_onebyte) || (profile =? aux_rtp_ext_twobyte))%bool.
    + pose proof (ext_loop_safe buf (profile =? aux_rtp_ext_onebyte) (12 + cc * 4 + 4 + xl * 4) Hend buf (12 + cc * 4 + 4) []) as Hs.
      destruct (ext_loop buf buf (profile =? aux_rtp_ext_onebyte) (12 + cc * 4 + 4 + xl * 4) (12 + cc * 4 + 4) []);
        cbn [xsafe] in Hs; try (apply Hs; lia).
      * cbn [h_csrc h_extension h_exts]. rewrite Hcs.
        split; [lia|]. split; [lia|]. split; [discriminate|]. intros _. split; [lia|].
        replace (12 + cc * 4 + 4 + xl * 4 - 4 * N.of_nat (N.to_nat cc)) with ((4 + xl) * 4) by lia.
        apply N.mod_mul. lia.
      * right; reflexivity.
    + rewrite nsub_in by lia.
      cbn [h_csrc h_extension h_exts]. rewrite Hcs.
      split; [lia|]. split; [lia|]. split; [discriminate|]. intros _. split; [lia|].
      replace (12 + cc * 4 + 4 + xl * 4 - 4 * N.of_nat (N.to_nat cc)) with ((4 + xl) * 4) by lia.
      apply N.mod_mul. lia.
  - cbn [h_csrc h_extension h_exts]. rewrite Hcs.
    split; [lia|]. split; [lia|]. split; [intros _; split; [lia|reflexivity]|discriminate].
Qed.

Lemma rtp_header_unmarshal_total buf : safe (rtp_header_unmarshal buf).
Proof.
  pose proof (rtp_header_unmarshal_spec buf) as H.
  destruct (rtp_header_unmarshal buf) as [[h n]| | |]; cbn [safe]; auto.
Qed.

Lemma rtp_header_size_in_range buf h n : rtp_header_unmarshal buf = Ok (h, n) -> 12 <= n <= nlen buf.
Proof.
  intros E. pose proof (rtp_header_unmarshal_spec buf) as H. rewrite E in H. lia.
Qed.

(* the whole read path (without SRTP): header.Unmarshal then fastRTPUnmarshal *)
Lemma rtp_read_path_total buf : safe (rtp_read_path buf).
Proof.
  unfold rtp_read_path.
  pose proof (rtp_header_unmarshal_total buf) as H.
  destruct (rtp_header_unmarshal buf) as [[h n]| | |]; cbn [safe xsafe] in *; auto.
  pose proof (fast_total buf (h_padding h) (Z.of_N n) ltac:(lia)) as Hf.
  destruct (fast_rtp_unmarshal buf (h_padding h) (Z.of_N n)); cbn [safe xsafe] in *; auto.
Qed.

(* with SRTP the payload handed to fastRTPUnmarshal is the decrypted one (another length), the header
   and headerSize still come from header.Unmarshal of the datagram: any payload is fine *)
Lemma rtp_read_path_any_payload_total buf h n payload :
  rtp_header_unmarshal buf = Ok (h, n) -> safe (fast_rtp_unmarshal payload (h_padding h) (Z.of_N n)).
Proof. intros _. apply fast_total. lia. Qed.

(* ----- identical to pion's Packet.Unmarshal on the same bytes ----- *)
(* same verdict; on success the same header, payload and padding size; on failure the same kind of
   error ("buffer too small" <-> errTooSmall, "invalid RTP padding" <-> errInvalidRTPPadding) *)
Definition same_as_pion (p : res (rtp_header * fast_ok)) (h : rtp_header) (r : res fast_ok) : Prop :=
  match p, r with
  | Ok (h', f'), Ok f => h' = h /\ f' = f
  | Err e, Err e' =>
      (e = e_rtp_too_small /\ (e' = e_fast_pad_no_room \/ e' = e_fast_end_before)) \/
      (e = e_rtp_bad_padding /\ e' = e_fast_zero_padding)
  | _, _ => False
  end.

Lemma fast_agrees_with_pion buf h n : rtp_header_unmarshal buf = Ok (h, n) ->
  same_as_pion (pion_packet_unmarshal buf) h (fast_rtp_unmarshal buf (h_padding h) (Z.of_N n)).
Proof.
  intros E. pose proof (rtp_header_size_in_range buf h n E) as Hn.
  unfold same_as_pion, pion_packet_unmarshal, fast_rtp_unmarshal. rewrite E.
  destruct (h_padding h).
  - destruct (Z.leb_spec (Z.of_N (nlen buf)) (Z.of_N n)) as [|Hlt]; [left; auto|].
    destruct (znth_in buf (Z.of_N (nlen buf) - 1)) as [ps ->]; [lia|lia|].
    destruct (ps =? 0); [right; auto|].
    destruct (Z.ltb_spec (Z.of_N (nlen buf) - Z.of_N ps) (Z.of_N n)) as [|Hge]; [left; auto|].
    rewrite zsub_in by lia. split; reflexivity.
  - destruct (Z.ltb_spec (Z.of_N (nlen buf)) (Z.of_N n)) as [|Hge]; [left; auto|].
    rewrite zsub_in by lia. split; reflexivity.
Qed.

(* on EVERY datagram (header errors included) the read path header.Unmarshal ; fastRTPUnmarshal and
   pion's Packet.Unmarshal give the same verdict and, on success, the same packet *)
Lemma read_path_agrees_with_pion buf :
  match rtp_read_path buf, pion_packet_unmarshal buf with
  | Ok (h, f), Ok (h', f') => h = h' /\ f = f'
  | Err _, Err _ => True
  | _, _ => False
  end.
Proof.
  unfold rtp_read_path.
  pose proof (rtp_header_unmarshal_total buf) as Ht.
  destruct (rtp_header_unmarshal buf) as [[h n]|e| |] eqn:E; cbn [safe] in Ht; try contradiction.
  - pose proof (fast_agrees_with_pion buf h n E) as Ha. unfold same_as_pion in Ha.
    destruct (pion_packet_unmarshal buf) as [[h' f']| | |];
      destruct (fast_rtp_unmarshal buf (h_padding h) (Z.of_N n)); try contradiction; auto.
    destruct Ha; subst; auto.
  - unfold pion_packet_unmarshal. rewrite E. exact I.
Qed.

(* ================= RTCP ================= *)

Lemma rtcp_header_spec raw :
  match rtcp_header_unmarshal raw with
  | Ok h => 4 <= nlen raw /\ be16 raw 2 = Some (rh_length h)
  | Err e => e = e_rtcp_short \/ e = e_rtcp_version
  | Panic | Diverge => False
  end.
Proof.
  unfold rtcp_header_unmarshal, aux_rtcp_header_length.
  destruct (N.ltb_spec (nlen raw) 4) as [|H4]; [left; reflexivity|].
  destruct (nnth_in raw 0) as [b0 ->]; [lia|]. destruct (nnth_in raw 1) as [b1 ->]; [lia|].
  destruct (be16_in raw 2) as [len Hl]; [lia|]. rewrite Hl.
  destruct (negb _); [right; reflexivity|]. cbn [rh_length]. split; [lia|reflexivity].
Qed.

(* the header of a prefix that still holds the 4 header bytes is the same header *)
Lemma nnth_ntake (l : list N) k i : i < k -> nnth i (ntake k l) = nnth i l.
Proof.
  revert k i; induction l as [|x t IH]; intros k i H; cbn [ntake nnth]; [reflexivity|].
  destruct (N.eqb_spec k 0); [lia|]. cbn [nnth].
  destruct (N.eqb_spec i 0); [reflexivity|]. apply IH. lia.
Qed.

Lemma rtcp_header_prefix raw k : 4 <= k -> k <= nlen raw ->
  rtcp_header_unmarshal (ntake k raw) = rtcp_header_unmarshal raw.
Proof.
  intros Hk Hl. unfold rtcp_header_unmarshal, be16, aux_rtcp_header_length.
  rewrite nlen_ntake.
  destruct (N.ltb_spec (N.min k (nlen raw)) 4); [lia|]. destruct (N.ltb_spec (nlen raw) 4); [lia|].
  rewrite !nnth_ntake by lia. reflexivity.
Qed.

(* ----- gortsplib's tolerant SDES parser ----- *)
Lemma sdes_item_safe raw : safe (sdes_item_unmarshal raw).
Proof.
  unfold sdes_item_unmarshal, aux_sdes_text_offset.
  destruct (N.ltb_spec (nlen raw) 2) as [|H2]; [exact I|].
  destruct (nnth_in raw 0) as [ty ->]; [lia|]. destruct (nnth_in raw 1) as [oc ->]; [lia|].
  destruct (N.ltb_spec (nlen raw) (2 + oc)) as [|H]; [exact I|].
  rewrite nsub_in by lia. exact I.
Qed.

Lemma sdes_items_safe : forall fuel body acc, nlen body <= nlen fuel -> safe (sdes_items fuel body acc).
Proof.
  induction fuel as [|x fuel IH]; intros body acc Hf; cbn [sdes_items].
  - cbn [nlen] in Hf. destruct (N.eqb_spec (nlen body) 0); [exact I|lia].
  - destruct (N.eqb_spec (nlen body) 0) as [|Hnz]; [exact I|]. cbn [nlen] in Hf.
    destruct (nnth_in body 0) as [b0 ->]; [lia|].
    destruct (b0 =? 0).
    + rewrite nsub_in by lia. exact I.
    + destruct (N.ltb_spec (nlen body) 2) as [|H2]; [exact I|].
      destruct (nnth_in body 1) as [l1 ->]; [lia|].
      destruct (N.ltb_spec (nlen body) (2 + l1)) as [|Hil]; [exact I|].
      destruct (N.eqb_spec (2 + l1) (nlen body)) as [Heq|Hne].
      * pose proof (sdes_item_safe body) as Hs. destruct (sdes_item_unmarshal body); cbn [safe xsafe] in *; auto.
      * rewrite !nsub_in by lia.
        pose proof (sdes_item_safe (ntake (2 + l1 - 0) (ndrop 0 body))) as Hs.
        destruct (sdes_item_unmarshal (ntake (2 + l1 - 0) (ndrop 0 body))); cbn [safe xsafe] in *; auto.
        apply IH. rewrite nlen_ntake, nlen_ndrop. lia.
Qed.

Lemma sdes_tolerant_safe raw h : safe (sdes_tolerant raw h).
Proof.
  unfold sdes_tolerant, aux_rtcpu_header_length.
  destruct (negb (rh_count h =? 1) || (nlen raw <? 4 + 4))%bool eqn:E; [exact I|].
  assert (H8 : 8 <= nlen raw) by lia.
  rewrite nsub_in by lia.
  set (body := ntake (nlen raw - 4) (ndrop 4 raw)).
  assert (Hb : nlen body = nlen raw - 4) by (unfold body; rewrite nlen_ntake, nlen_ndrop; lia).
  destruct (N.ltb_spec (nlen body) 4); [exact I|].
  destruct (be32_in body 0) as [src ->]; [lia|].
  rewrite nsub_in by lia.
  pose proof (sdes_items_safe (ntake (nlen body - 4) (ndrop 4 body)) (ntake (nlen body - 4) (ndrop 4 body)) [] ltac:(lia)) as Hs.
  destruct (sdes_items _ _ _) as [[[items rest]|]| | |]; cbn [safe xsafe] in *; auto.
  destruct (nlen rest =? 0); exact I.
Qed.

(* ----- the walks ----- *)

(* the packets tile [off, fin): consecutive, each at least one 32-bit word, each a whole number of words *)
Fixpoint tiles (off : N) (ps : list rpkt) (fin : N) : Prop :=
  match ps with
  | [] => off = fin
  | p :: t => p_off p = off /\ 4 <= p_len p /\ p_len p mod 4 = 0 /\ tiles (off + p_len p) t fin
  end.

Lemma tiles_app off ps mid qs fin : tiles off ps mid -> tiles mid qs fin -> tiles off (ps ++ qs) fin.
Proof.
  revert off; induction ps as [|p t IH]; intros off H1 H2; cbn [tiles app] in *.
  - subst. exact H2.
  - destruct H1 as (A & B & C & D). repeat split; auto.
Qed.

Lemma tiles_count off ps fin : tiles off ps fin -> off + 4 * nlen ps <= fin.
Proof.
  revert off; induction ps as [|p t IH]; intros off H; cbn [tiles nlen] in *.
  - lia.
  - destruct H as (A & B & C & D). apply IH in D. lia.
Qed.

Lemma nlen_rev {A} (l : list A) : nlen (rev l) = nlen l.
Proof. rewrite !nlen_length, rev_length. reflexivity. Qed.

Section WalkProofs.
Variable body : N -> list N -> res unit.
Hypothesis body_total : forall off b, safe (body off b).

Lemma pion_unmarshal1_spec off raw :
  match pion_unmarshal1 body off raw with
  | Ok (k, bp) => 4 <= bp <= nlen raw /\ bp mod 4 = 0 /\
                  exists h, rtcp_header_unmarshal raw = Ok h /\ bp = (rh_length h + 1) * 4 /\
                            k = rtcp_kind (rh_type h) (rh_count h) /\ body off (ntake bp raw) = Ok tt
  | Err _ => True
  | Panic | Diverge => False
  end.
Proof.
  unfold pion_unmarshal1.
  pose proof (rtcp_header_spec raw) as Hh.
  destruct (rtcp_header_unmarshal raw) as [h| | |]; auto.
  destruct (N.ltb_spec (nlen raw) ((rh_length h + 1) * 4)) as [|Hbp]; [exact I|].
  rewrite nsub_in by lia.
  replace ((rh_length h + 1) * 4 - 0) with ((rh_length h + 1) * 4) by lia. rewrite ndrop_0.
  pose proof (body_total off (ntake ((rh_length h + 1) * 4) raw)) as Hb.
  destruct (body off (ntake ((rh_length h + 1) * 4) raw)) as [[]| | |] eqn:Eb; cbn [safe xsafe] in Hb; auto.
  split; [lia|]. split; [apply N.mod_mul; lia|].
  exists h. repeat split; auto.
Qed.

Lemma pion_walk_spec : forall fuel off raw acc base,
  nlen raw <= nlen fuel -> tiles base (rev acc) off ->
  match pion_walk body fuel off raw acc with
  | Ok ps => tiles base ps (off + nlen raw)
  | Err _ => True
  | Panic | Diverge => False
  end.
Proof.
  induction fuel as [|x fuel IH]; intros off raw acc base Hf Ht; cbn [pion_walk].
  - cbn [nlen] in Hf. destruct (N.eqb_spec (nlen raw) 0) as [Hz|]; [|lia]. rewrite Hz, N.add_0_r. exact Ht.
  - destruct (N.eqb_spec (nlen raw) 0) as [Hz|Hnz]; [rewrite Hz, N.add_0_r; exact Ht|].
    cbn [nlen] in Hf.
    pose proof (pion_unmarshal1_spec off raw) as H1.
    destruct (pion_unmarshal1 body off raw) as [[k bp]| | |]; auto.
    destruct H1 as (Hbp & Hm & _).
    rewrite nsub_in by lia.
    specialize (IH (off + bp) (ntake (nlen raw - bp) (ndrop bp raw)) (mkP k off bp POther :: acc) base).
    assert (Hl : nlen (ntake (nlen raw - bp) (ndrop bp raw)) = nlen raw - bp) by (rewrite nlen_ntake, nlen_ndrop; lia).
    rewrite Hl in IH.
    replace (off + bp + (nlen raw - bp)) with (off + nlen raw) in IH by lia.
    apply IH; [lia|].
    cbn [rev]. eapply tiles_app; [exact Ht|]. cbn [tiles p_off p_len]. repeat split; auto; lia.
Qed.

Lemma pion_unmarshal_spec off raw :
  match pion_unmarshal body off raw with
  | Ok ps => ps <> [] /\ tiles off ps (off + nlen raw)
  | Err _ => True
  | Panic | Diverge => False
  end.
Proof.
  unfold pion_unmarshal.
  pose proof (pion_walk_spec raw off raw [] off ltac:(lia) eq_refl) as H.
  destruct (pion_walk body raw off raw []) as [[|p ps]| | |]; auto.
  split; [discriminate|exact H].
Qed.

(* rtcp.Unmarshal(inPacket) on the slice the tolerant walk cuts: one packet exactly, or an error *)
Lemma g_walk_spec : forall fuel off raw acc base,
  nlen raw <= nlen fuel -> tiles base (rev acc) off ->
  match g_walk body fuel off raw acc with
  | Ok (Some ps) => ps <> [] /\ tiles base ps (off + nlen raw)
  | Ok None => True
  | Err _ => True
  | Panic | Diverge => False
  end.
Proof.
  induction fuel as [|x fuel IH]; intros off raw acc base Hf Ht; cbn [g_walk].
  - cbn [nlen] in Hf. destruct (N.eqb_spec (nlen raw) 0) as [Hz|]; [|lia].
    destruct acc as [|a acc]; [exact I|]. rewrite Hz, N.add_0_r. split; [|exact Ht].
    cbn [rev]. intros E. apply (f_equal (@length _)) in E. rewrite app_length in E. cbn in E. lia.
  - destruct (N.eqb_spec (nlen raw) 0) as [Hz|Hnz].
    { destruct acc as [|a acc]; [exact I|]. rewrite Hz, N.add_0_r. split; [|exact Ht].
      cbn [rev]. intros E. apply (f_equal (@length _)) in E. rewrite app_length in E. cbn in E. lia. }
    cbn [nlen] in Hf.
    pose proof (rtcp_header_spec raw) as Hh.
    destruct (rtcp_header_unmarshal raw) as [h| | |]; auto.
    unfold g_bytes_processed.
    set (bp := (rh_length h + 1) mod 65536 * 4).
    destruct (N.ltb_spec (nlen raw) bp) as [|Hbp]; [exact I|].
    rewrite !nsub_in by lia.
    replace (bp - 0) with bp by lia. rewrite ndrop_0.
    assert (Hl : nlen (ntake (nlen raw - bp) (ndrop bp raw)) = nlen raw - bp) by (rewrite nlen_ntake, nlen_ndrop; lia).
    assert (Hm : bp mod 4 = 0) by (unfold bp; apply N.mod_mul; lia).
    destruct (negb (rh_type h =? aux_rtcp_type_sdes)).
    + pose proof (pion_unmarshal_spec off (ntake bp raw)) as Hp.
      destruct (pion_unmarshal body off (ntake bp raw)) as [[|p [|q qs]]| | |]; auto.
      destruct Hp as (_ & Hp). cbn [tiles] in Hp. destruct Hp as (_ & Hp4 & _ & Hp).
      rewrite nlen_ntake in Hp.
      assert (H4 : 4 <= bp) by lia.
      specialize (IH (off + bp) (ntake (nlen raw - bp) (ndrop bp raw)) (mkP (p_kind p) off bp POther :: acc) base).
      rewrite Hl in IH. replace (off + bp + (nlen raw - bp)) with (off + nlen raw) in IH by lia.
      apply IH; [lia|].
      cbn [rev]. eapply tiles_app; [exact Ht|]. cbn [tiles p_off p_len]. repeat split; auto.
    + pose proof (sdes_tolerant_safe (ntake bp raw) h) as Hs.
      destruct (sdes_tolerant (ntake bp raw) h) as [[[src items]|]| | |] eqn:Es; cbn [safe xsafe] in Hs; auto.
      assert (H4 : 4 <= bp).
      { unfold sdes_tolerant, aux_rtcpu_header_length in Es.
        destruct (negb (rh_count h =? 1) || (nlen (ntake bp raw) <? 4 + 4))%bool eqn:E; [discriminate|].
        rewrite nlen_ntake in E. lia. }
      specialize (IH (off + bp) (ntake (nlen raw - bp) (ndrop bp raw)) (mkP k_sdes off bp (PSdes src items) :: acc) base).
      rewrite Hl in IH. replace (off + bp + (nlen raw - bp)) with (off + nlen raw) in IH by lia.
      apply IH; [lia|].
      cbn [rev]. eapply tiles_app; [exact Ht|]. cbn [tiles p_off p_len]. repeat split; auto.
Qed.

(* rtcpunmarshaler.Unmarshal *)
Lemma rtcp_unmarshal_spec raw :
  match rtcp_unmarshal body raw with
  | Ok (via, ps) => ps <> [] /\ tiles 0 ps (nlen raw) /\ (via = 0 \/ via = 1) /\
                    (via = 0 <-> pion_unmarshal body 0 raw = Ok ps)
  | Err e => pion_unmarshal body 0 raw = Err e
  | Panic | Diverge => False
  end.
Proof.
  unfold rtcp_unmarshal.
  pose proof (pion_unmarshal_spec 0 raw) as Hp.
  destruct (pion_unmarshal body 0 raw) as [ps|e| |] eqn:Ep; auto.
  - destruct Hp as (A & B). rewrite N.add_0_l in B. repeat split; auto.
  - pose proof (g_walk_spec raw 0 raw [] 0 ltac:(lia) eq_refl) as Hg.
    destruct (g_walk body raw 0 raw []) as [[ps|]|e'| |]; auto.
    destruct Hg as (A & B). rewrite N.add_0_l in B. repeat split; auto; try discriminate.
Qed.

Lemma rtcp_walk_total raw : safe (rtcp_unmarshal body raw).
Proof.
  pose proof (rtcp_unmarshal_spec raw) as H.
  destruct (rtcp_unmarshal body raw) as [[via ps]| | |]; cbn [safe]; auto.
Qed.

Lemma rtcp_count_bounded raw via ps : rtcp_unmarshal body raw = Ok (via, ps) ->
  1 <= nlen ps /\ 4 * nlen ps <= nlen raw.
Proof.
  intros E. pose proof (rtcp_unmarshal_spec raw) as H. rewrite E in H.
  destruct H as (Hne & Ht & _). apply tiles_count in Ht.
  split; [|lia]. destruct ps; [congruence|]. cbn [nlen]. lia.
Qed.
End WalkProofs.

(* the hypothesis on the body parsers is needed: a panicking body parser panics the walk *)
Lemma rtcp_walk_needs_body_total :
  rtcp_unmarshal (fun _ _ => Panic) [128; 201; 0; 0] = Panic.
Proof. vm_compute. reflexivity. Qed.

(* ================= statement forms used by the Props files ================= *)
Lemma fast_rtp_unmarshal_total payload pad hs : (0 <= hs)%Z ->
  fast_rtp_unmarshal payload pad hs <> Panic /\ fast_rtp_unmarshal payload pad hs <> Diverge.
Proof. intros H. apply safe_spec, fast_total, H. Qed.

Lemma rtp_header_unmarshal_total' buf :
  rtp_header_unmarshal buf <> Panic /\ rtp_header_unmarshal buf <> Diverge /\
  (forall h n, rtp_header_unmarshal buf = Ok (h, n) -> 12 <= n <= nlen buf) /\
  (forall e, rtp_header_unmarshal buf = Err e -> e = e_rtp_short \/ e = e_rtp_short_ext).
Proof.
  pose proof (proj1 (safe_spec _) (rtp_header_unmarshal_total buf)) as [A B].
  split; [exact A|]. split; [exact B|]. split.
  - apply rtp_header_size_in_range.
  - intros e E. pose proof (rtp_header_unmarshal_spec buf) as H. rewrite E in H. exact H.
Qed.

Lemma rtp_read_path_total' buf :
  rtp_read_path buf <> Panic /\ rtp_read_path buf <> Diverge /\
  (forall h n payload, rtp_header_unmarshal buf = Ok (h, n) ->
     fast_rtp_unmarshal payload (h_padding h) (Z.of_N n) <> Panic /\
     fast_rtp_unmarshal payload (h_padding h) (Z.of_N n) <> Diverge).
Proof.
  pose proof (proj1 (safe_spec _) (rtp_read_path_total buf)) as [A B].
  split; [exact A|]. split; [exact B|].
  intros h n payload E. apply safe_spec. eapply rtp_read_path_any_payload_total; eauto.
Qed.

(* regression: the minimal input of the former finding fast-rtp-accepts-zero-padding-size is refused *)
Lemma fast_zero_padding_refused :
  rtp_read_path [160; 96; 0; 1; 0; 0; 0; 2; 0; 0; 0; 3; 170; 187; 0] = Err (10 + e_fast_zero_padding) /\
  pion_packet_unmarshal [160; 96; 0; 1; 0; 0; 0; 2; 0; 0; 0; 3; 170; 187; 0] = Err e_rtp_bad_padding.
Proof. vm_compute. split; reflexivity. Qed.

Lemma sdes_tolerant_total raw h : sdes_tolerant raw h <> Panic /\ sdes_tolerant raw h <> Diverge.
Proof. apply safe_spec, sdes_tolerant_safe. Qed.

Section WalkStatements.
Variable body : N -> list N -> res unit.
Hypothesis body_total : forall off b, body off b <> Panic /\ body off b <> Diverge.

Lemma body_safe : forall off b, safe (body off b).
Proof. intros off b. apply safe_spec, body_total. Qed.

Lemma rtcp_walk_total' raw :
  rtcp_unmarshal body raw <> Panic /\ rtcp_unmarshal body raw <> Diverge.
Proof. apply safe_spec, rtcp_walk_total, body_safe. Qed.

Lemma rtcp_packets_tile raw via ps : rtcp_unmarshal body raw = Ok (via, ps) ->
  ps <> [] /\ tiles 0 ps (nlen raw) /\ (via = 0 \/ via = 1) /\ (via = 0 <-> pion_unmarshal body 0 raw = Ok ps).
Proof.
  intros E. pose proof (rtcp_unmarshal_spec body body_safe raw) as H. rewrite E in H. exact H.
Qed.

Lemma rtcp_error_is_pions raw e : rtcp_unmarshal body raw = Err e -> pion_unmarshal body 0 raw = Err e.
Proof.
  intros E. pose proof (rtcp_unmarshal_spec body body_safe raw) as H. rewrite E in H. exact H.
Qed.

Lemma rtcp_count_bounded' raw via ps : rtcp_unmarshal body raw = Ok (via, ps) ->
  1 <= nlen ps /\ 4 * nlen ps <= nlen raw.
Proof. apply rtcp_count_bounded, body_safe. Qed.
End WalkStatements.

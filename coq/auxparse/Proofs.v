From GV_auxparse Require Import Model.

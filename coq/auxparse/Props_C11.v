(* C11 (server survives hostile peers), part `auxparse`: the auxiliary packet parsers every RTP / RTCP
   datagram or interleaved frame of a publishing / playing peer reaches in server_session_media.go
   (readPacketRTP -> rtp.Header.Unmarshal -> decodeRTP -> fastRTPUnmarshal; readPacketRTCP* ->
   decodeRTCP -> rtcpunmarshaler.Unmarshal) never panic and always terminate, for every byte string.
   Statements only; proofs in Proofs.v.  [Panic] = a Go run-time panic (every index / slice expression
   of the modelled code is a checked primitive), [Diverge] = a loop that outlives its structural fuel. *)
From GVL Require Import NList.
From GV_auxparse Require Import Model Proofs ProofsSdes.
Open Scope N_scope.

(* fastRTPUnmarshal never panics: any payload bytes, any Padding flag, any header size >= 0 ... *)
Theorem C11_auxparse_fast_rtp_unmarshal_total : forall payload pad hs, (0 <= hs)%Z ->
  fast_rtp_unmarshal payload pad hs <> Panic /\ fast_rtp_unmarshal payload pad hs <> Diverge.
Proof. exact fast_rtp_unmarshal_total. Qed.
Print Assumptions C11_auxparse_fast_rtp_unmarshal_total.

(* ... and that precondition is necessary (the callers always pass the value header.Unmarshal returned,
   which is >= 12: C11_auxparse_rtp_header_unmarshal_total) *)
Theorem C11_auxparse_fast_rtp_negative_header_size_panics : forall payload hs, (hs < 0)%Z ->
  fast_rtp_unmarshal payload false hs = Panic.
Proof. exact fast_negative_header_size_panics. Qed.
Print Assumptions C11_auxparse_fast_rtp_negative_header_size_panics.

(* exactly which combinations are refused - three classes: (1) Padding set and no byte after the
   header; (3) Padding set and the last byte (the padding size, which counts itself) is 0 - the check
   added by the fix; (2) the bytes left after removing the padding end before the header does.
   No other error exists. *)
Theorem C11_auxparse_fast_rtp_unmarshal_errors : forall payload pad hs, (0 <= hs)%Z ->
  (fast_rtp_unmarshal payload pad hs = Err e_fast_pad_no_room <->
     pad = true /\ (Z.of_N (nlen payload) <= hs)%Z) /\
  (fast_rtp_unmarshal payload pad hs = Err e_fast_zero_padding <->
     pad = true /\ (hs < Z.of_N (nlen payload))%Z /\ nnth (nlen payload - 1) payload = Some 0) /\
  (fast_rtp_unmarshal payload pad hs = Err e_fast_end_before <->
     (pad = false /\ (Z.of_N (nlen payload) < hs)%Z) \/
     (pad = true /\ (hs < Z.of_N (nlen payload))%Z /\
        exists ps, nnth (nlen payload - 1) payload = Some ps /\ ps <> 0 /\
                   (Z.of_N (nlen payload) - Z.of_N ps < hs)%Z)) /\
  (forall e, fast_rtp_unmarshal payload pad hs = Err e ->
     e = e_fast_pad_no_room \/ e = e_fast_zero_padding \/ e = e_fast_end_before).
Proof. exact fast_errors. Qed.
Print Assumptions C11_auxparse_fast_rtp_unmarshal_errors.

(* when it succeeds: PaddingSize is the last byte (0 without the flag, at least 1 with it) and the
   datagram is header (hs bytes) ++ returned payload ++ padding (PaddingSize bytes), i.e.
   payload[hs : len-PaddingSize] *)
Theorem C11_auxparse_fast_rtp_unmarshal_payload : forall payload pad hs f, (0 <= hs)%Z ->
  fast_rtp_unmarshal payload pad hs = Ok f ->
  pad_size payload pad = Some (fo_padsize f) /\
  (pad = true -> 1 <= fo_padsize f) /\
  exists pre suf, payload = pre ++ fo_payload f ++ suf /\
                  Z.of_N (nlen pre) = hs /\ nlen suf = fo_padsize f /\
                  fo_payload f = ntake (nlen payload - fo_padsize f - Z.to_N hs) (ndrop (Z.to_N hs) payload).
Proof. exact fast_payload. Qed.
Print Assumptions C11_auxparse_fast_rtp_unmarshal_payload.

(* identical to pion's rtp.Packet.Unmarshal (v1.10.5) on the same bytes, for every input whose header
   parses: same verdict; on success the same header, payload and padding size; on failure the same
   kind of error ("buffer is too small" <-> errTooSmall, "invalid RTP padding" <-> errInvalidRTPPadding).
   (Before the fix this held only outside "padding bit set, last byte 0": history/PreFix.v.) *)
Theorem C11_auxparse_fast_rtp_agrees_with_pion : forall buf h n, rtp_header_unmarshal buf = Ok (h, n) ->
  match pion_packet_unmarshal buf, fast_rtp_unmarshal buf (h_padding h) (Z.of_N n) with
  | Ok (h', f'), Ok f => h' = h /\ f' = f
  | Err e, Err e' =>
      (e = e_rtp_too_small /\ (e' = e_fast_pad_no_room \/ e' = e_fast_end_before)) \/
      (e = e_rtp_bad_padding /\ e' = e_fast_zero_padding)
  | _, _ => False
  end.
Proof. exact fast_agrees_with_pion. Qed.
Print Assumptions C11_auxparse_fast_rtp_agrees_with_pion.

(* ... and for EVERY datagram (header errors included) the read path header.Unmarshal ; fastRTPUnmarshal
   and pion's Packet.Unmarshal give the same verdict and, on success, the same packet *)
Theorem C11_auxparse_rtp_read_path_agrees_with_pion : forall buf,
  match rtp_read_path buf, pion_packet_unmarshal buf with
  | Ok (h, f), Ok (h', f') => h = h' /\ f = f'
  | Err _, Err _ => True
  | _, _ => False
  end.
Proof. exact read_path_agrees_with_pion. Qed.
Print Assumptions C11_auxparse_rtp_read_path_agrees_with_pion.

(* pion's rtp.Header.Unmarshal (CSRC list, extension header, one-byte / two-byte / RFC 3550 extension
   bodies) never panics and terminates on every byte string; the header size it returns lies in
   [12, len]; its only errors are the two "size insufficient" ones *)
Theorem C11_auxparse_rtp_header_unmarshal_total : forall buf,
  rtp_header_unmarshal buf <> Panic /\ rtp_header_unmarshal buf <> Diverge /\
  (forall h n, rtp_header_unmarshal buf = Ok (h, n) -> 12 <= n <= nlen buf) /\
  (forall e, rtp_header_unmarshal buf = Err e -> e = e_rtp_short \/ e = e_rtp_short_ext).
Proof. exact rtp_header_unmarshal_total'. Qed.
Print Assumptions C11_auxparse_rtp_header_unmarshal_total.

(* the read path header.Unmarshal ; fastRTPUnmarshal never panics on any datagram - also when SRTP
   replaced the payload by a decrypted one of another length (header and size still from the datagram) *)
Theorem C11_auxparse_rtp_read_path_total : forall buf,
  rtp_read_path buf <> Panic /\ rtp_read_path buf <> Diverge /\
  (forall h n payload, rtp_header_unmarshal buf = Ok (h, n) ->
     fast_rtp_unmarshal payload (h_padding h) (Z.of_N n) <> Panic /\
     fast_rtp_unmarshal payload (h_padding h) (Z.of_N n) <> Diverge).
Proof. exact rtp_read_path_total'. Qed.
Print Assumptions C11_auxparse_rtp_read_path_total.

(* gortsplib's tolerant SDES parser (unmarshalSourceDescriptionAllowMissingEnd) is total *)
Theorem C11_auxparse_sdes_tolerant_total : forall raw h,
  sdes_tolerant raw h <> Panic /\ sdes_tolerant raw h <> Diverge.
Proof. exact sdes_tolerant_total. Qed.
Print Assumptions C11_auxparse_sdes_tolerant_total.

(* ... and sound: after the 4-byte header and the 4-byte source, the packet is exactly the returned
   items (type, length, text; none of type 0), in order, followed by zero octets only (possibly none:
   the missing END the parser exists to tolerate) - nothing skipped, nothing invented *)
Theorem C11_auxparse_sdes_tolerant_sound : forall raw h src items,
  sdes_tolerant raw h = Ok (Some (src, items)) ->
  rh_count h = 1 /\ 8 <= nlen raw /\ be32 (ndrop 4 raw) 0 = Some src /\
  Forall (fun it => fst it <> 0) items /\
  exists zeros, ndrop 4 (ndrop 4 raw) = concat (map item_bytes items) ++ zeros /\ Forall (fun b => b = 0) zeros.
Proof. exact sdes_tolerant_sound. Qed.
Print Assumptions C11_auxparse_sdes_tolerant_sound.

(* rtcpunmarshaler.Unmarshal: if pion's per-type body parsers are total (the hypothesis; exercised on
   the real parsers by the harness on every run), the strict walk, the tolerant walk and their
   combination never panic and terminate, for every datagram *)
Theorem C11_auxparse_rtcp_walk_total : forall body : N -> list N -> res unit,
  (forall off b, body off b <> Panic /\ body off b <> Diverge) ->
  forall raw, rtcp_unmarshal body raw <> Panic /\ rtcp_unmarshal body raw <> Diverge.
Proof. exact rtcp_walk_total'. Qed.
Print Assumptions C11_auxparse_rtcp_walk_total.

(* ... what it returns tiles the datagram: the packets are consecutive from offset 0 to the end, each
   covers at least 4 bytes (every step of either walk consumes >= 4 bytes) and a whole number of 32-bit
   words: no packet is attributed a byte beyond the datagram, none is attributed twice; the strict
   result is preferred; an error is pion's error *)
Theorem C11_auxparse_rtcp_packets_tile : forall body : N -> list N -> res unit,
  (forall off b, body off b <> Panic /\ body off b <> Diverge) ->
  forall raw via ps, rtcp_unmarshal body raw = Ok (via, ps) ->
  ps <> [] /\ tiles 0 ps (nlen raw) /\ (via = 0 \/ via = 1) /\ (via = 0 <-> pion_unmarshal body 0 raw = Ok ps).
Proof. exact rtcp_packets_tile. Qed.
Print Assumptions C11_auxparse_rtcp_packets_tile.

Theorem C11_auxparse_rtcp_error_is_pions : forall body : N -> list N -> res unit,
  (forall off b, body off b <> Panic /\ body off b <> Diverge) ->
  forall raw e, rtcp_unmarshal body raw = Err e -> pion_unmarshal body 0 raw = Err e.
Proof. exact rtcp_error_is_pions. Qed.
Print Assumptions C11_auxparse_rtcp_error_is_pions.

(* bounded output: between 1 and len/4 packets *)
Theorem C11_auxparse_rtcp_count_bounded : forall body : N -> list N -> res unit,
  (forall off b, body off b <> Panic /\ body off b <> Diverge) ->
  forall raw via ps, rtcp_unmarshal body raw = Ok (via, ps) -> 1 <= nlen ps /\ 4 * nlen ps <= nlen raw.
Proof. exact rtcp_count_bounded'. Qed.
Print Assumptions C11_auxparse_rtcp_count_bounded.

(* the hypothesis on the body parsers cannot be dropped *)
Theorem C11_auxparse_rtcp_walk_needs_total_bodies :
  rtcp_unmarshal (fun _ _ => Panic) [128; 201; 0; 0] = Panic.
Proof. exact rtcp_walk_needs_body_total. Qed.
Print Assumptions C11_auxparse_rtcp_walk_needs_total_bodies.

(* ---------- non-vacuity ---------- *)
(* a padded packet: 12-byte header, payload aa bb, padding 00 02 *)
Example ex_fast_padded :
  fast_rtp_unmarshal [160; 96; 0; 1; 0; 0; 0; 2; 0; 0; 0; 3; 170; 187; 0; 2] true 12 = Ok (mkFast 2 [170; 187]).
Proof. vm_compute. reflexivity. Qed.
(* padding larger than what follows the header: refused *)
Example ex_fast_padding_too_large :
  fast_rtp_unmarshal [160; 96; 0; 1; 0; 0; 0; 2; 0; 0; 0; 3; 170; 187; 4] true 12 = Err e_fast_end_before.
Proof. vm_compute. reflexivity. Qed.
(* regression (former finding fast-rtp-accepts-zero-padding-size): padding bit set, last byte 0 is refused,
   by the read path as by pion *)
Example ex_zero_padding_refused :
  rtp_read_path [160; 96; 0; 1; 0; 0; 0; 2; 0; 0; 0; 3; 170; 187; 0] = Err (10 + e_fast_zero_padding) /\
  pion_packet_unmarshal [160; 96; 0; 1; 0; 0; 0; 2; 0; 0; 0; 3; 170; 187; 0] = Err e_rtp_bad_padding.
Proof. exact fast_zero_padding_refused. Qed.
(* header with 1 CSRC and a one-byte extension (id 1, 2 bytes) + one padding byte *)
Example ex_header_onebyte :
  rtp_header_unmarshal [145; 96; 0; 1; 0; 0; 0; 2; 0; 0; 0; 3; 0; 0; 0; 9; 190; 222; 0; 1; 17; 7; 8; 0; 55] =
  Ok (mkH 2 false true false 96 1 2 3 [9] 48862 [(1, [7; 8])], 24).
Proof. vm_compute. reflexivity. Qed.
(* a two-byte extension whose declared length runs past the extension block: an error, not a panic *)
Example ex_header_twobyte_short :
  rtp_header_unmarshal [144; 96; 0; 1; 0; 0; 0; 2; 0; 0; 0; 3; 16; 0; 0; 1; 5; 9; 1; 2] = Err e_rtp_short_ext.
Proof. vm_compute. reflexivity. Qed.
(* RR followed by a SDES without END octet: pion refuses (table: the SDES body parser fails), the
   tolerant walk returns both packets *)
Example ex_rtcp_tolerant :
  rtcp_unmarshal (tbl_body [0; 0; 8; 2])
    [128; 201; 0; 1; 0; 0; 0; 9; 129; 202; 0; 2; 1; 2; 3; 4; 1; 2; 97; 98] =
  Ok (1, [mkP k_rr 0 8 POther; mkP k_sdes 8 12 (PSdes 16909060 [(1, [97; 98])])]).
Proof. vm_compute. reflexivity. Qed.
(* length 65535: the 16-bit sum of the tolerant walk wraps to 0 bytes processed; still an error, no loop *)
Example ex_rtcp_length_wrap :
  rtcp_unmarshal (tbl_body []) [128; 201; 255; 255] = Err e_rtcp_short.
Proof. vm_compute. reflexivity. Qed.

(* HISTORY - not built (not in _CoqProject), kept compilable by hand:
     coqc -Q ../../lib GVL -Q ../../gen GVG -Q .. GV_auxparse PreFix.v
   fastRTPUnmarshal as it was in /repo up to 921d926, BEFORE the fix "refuse a padding size of 0":
   it accepted a packet whose padding bit is set and whose last byte is 0 (Padding=true, PaddingSize=0),
   which pion rtp v1.10.5 Packet.Unmarshal refuses (errInvalidRTPPadding) and cannot Marshal again
   (finding fast-rtp-accepts-zero-padding-size).  The statements below were Props theorems
   fast_rtp_unmarshal_total / _errors / _payload / fast_rtp_vs_pion_partial /
   fast_rtp_agrees_with_pion_refuted of that code. *)
From Coq Require Import ZifyBool ZifyNat ZifyN.
From GVL Require Import NList Wire.
From GV_auxparse Require Import Model Proofs.
Open Scope N_scope.

Definition fast_rtp_unmarshal_old (payload : list N) (padding : bool) (hs : Z) : res fast_ok :=
  let n := hs in
  let end0 := Z.of_N (nlen payload) in
  if padding then
    if (end0 <=? n)%Z then Err e_fast_pad_no_room else
    match znth payload (end0 - 1) with
    | None => Panic
    | Some ps =>
      let end1 := (end0 - Z.of_N ps)%Z in
      if (end1 <? n)%Z then Err e_fast_end_before else
      match zsub payload n end1 with
      | None => Panic
      | Some p => Ok (mkFast ps p)
      end
    end
  else
    if (end0 <? n)%Z then Err e_fast_end_before else
    match zsub payload n end0 with
    | None => Panic
    | Some p => Ok (mkFast 0 p)
    end.

Lemma fast_total_old payload pad hs : (0 <= hs)%Z -> safe (fast_rtp_unmarshal_old payload pad hs).
Proof.
  intros Hhs. unfold fast_rtp_unmarshal_old. destruct pad.
  - destruct (Z.leb_spec (Z.of_N (nlen payload)) hs) as [|Hlt]; [exact I|].
    destruct (znth_in payload (Z.of_N (nlen payload) - 1)) as [ps ->]; [lia|lia|].
    destruct (Z.ltb_spec (Z.of_N (nlen payload) - Z.of_N ps) hs) as [|Hge]; [exact I|].
    rewrite zsub_in by lia. exact I.
  - destruct (Z.ltb_spec (Z.of_N (nlen payload)) hs) as [|Hge]; [exact I|].
    rewrite zsub_in by lia. exact I.
Qed.

(* exactly which combinations are refused, for a non-negative header size *)
Lemma fast_errors_old payload pad hs : (0 <= hs)%Z ->
  (fast_rtp_unmarshal_old payload pad hs = Err e_fast_pad_no_room <->
     pad = true /\ (Z.of_N (nlen payload) <= hs)%Z) /\
  (fast_rtp_unmarshal_old payload pad hs = Err e_fast_end_before <->
     (pad = false /\ (Z.of_N (nlen payload) < hs)%Z) \/
     (pad = true /\ (hs < Z.of_N (nlen payload))%Z /\
        exists ps, nnth (nlen payload - 1) payload = Some ps /\ (Z.of_N (nlen payload) - Z.of_N ps < hs)%Z)) /\
  (forall e, fast_rtp_unmarshal_old payload pad hs = Err e -> e = e_fast_pad_no_room \/ e = e_fast_end_before).
Proof.
  intros Hhs. unfold fast_rtp_unmarshal_old, e_fast_pad_no_room, e_fast_end_before. destruct pad.
  - destruct (Z.leb_spec (Z.of_N (nlen payload)) hs) as [Hle|Hlt].
    + split; [|split].
      * split; [intros _; split; [reflexivity|lia] | reflexivity].
      * split; [discriminate|]. intros [[H _]|(_ & H & _)]; [discriminate|lia].
      * intros e H; inversion H; auto.
    + destruct (znth_in payload (Z.of_N (nlen payload) - 1)) as [ps Hps]; [lia|lia|]. rewrite Hps.
      assert (Hn : nnth (nlen payload - 1) payload = Some ps).
      { unfold znth in Hps. destruct (Z.ltb_spec (Z.of_N (nlen payload) - 1) 0); [lia|].
        replace (nlen payload - 1) with (Z.to_N (Z.of_N (nlen payload) - 1)) by lia. exact Hps. }
      destruct (Z.ltb_spec (Z.of_N (nlen payload) - Z.of_N ps) hs) as [Hb|Hge].
      * split; [|split].
        -- split; [discriminate|]. intros [_ H]; lia.
        -- split; [|reflexivity]. intros _. right. split; [reflexivity|]. split; [lia|]. exists ps. split; [exact Hn|lia].
        -- intros e H; inversion H; auto.
      * rewrite zsub_in by lia. split; [|split].
        -- split; [discriminate|]. intros [_ H]; lia.
        -- split; [discriminate|]. intros [[H _]|(_ & _ & ps' & Hps' & Hlt')]; [discriminate|].
           rewrite Hn in Hps'. inversion Hps'; subst. lia.
        -- intros e H; discriminate.
  - destruct (Z.ltb_spec (Z.of_N (nlen payload)) hs) as [Hb|Hge].
    + split; [|split].
      * split; [discriminate|]. intros [H _]; discriminate.
      * split; [|reflexivity]. intros _. left. split; [reflexivity|lia].
      * intros e H; inversion H; auto.
    + rewrite zsub_in by lia. split; [|split].
      * split; [discriminate|]. intros [H _]; discriminate.
      * split; [discriminate|]. intros [[_ H]|(H & _)]; [lia|discriminate].
      * intros e H; discriminate.
Qed.

(* when it succeeds, the datagram is  header (hs bytes) ++ payload ++ padding (PaddingSize bytes) *)
Lemma fast_payload_old payload pad hs f : (0 <= hs)%Z ->
  fast_rtp_unmarshal_old payload pad hs = Ok f ->
  pad_size payload pad = Some (fo_padsize f) /\
  exists pre suf, payload = pre ++ fo_payload f ++ suf /\
                  Z.of_N (nlen pre) = hs /\ nlen suf = fo_padsize f /\
                  fo_payload f = ntake (nlen payload - fo_padsize f - Z.to_N hs) (ndrop (Z.to_N hs) payload).
Proof.
  intros Hhs. unfold fast_rtp_unmarshal_old, pad_size. destruct pad.
  - destruct (Z.leb_spec (Z.of_N (nlen payload)) hs) as [|Hlt]; [discriminate|].
    destruct (znth payload (Z.of_N (nlen payload) - 1)) as [ps|] eqn:Hps; [|discriminate].
    destruct (Z.ltb_spec (Z.of_N (nlen payload) - Z.of_N ps) hs) as [|Hge]; [discriminate|].
    destruct (zsub payload hs (Z.of_N (nlen payload) - Z.of_N ps)) as [p|] eqn:Hs; [|discriminate].
    intros H; inversion H; subst f; clear H. cbn [fo_padsize fo_payload].
    apply zsub_inv in Hs. destruct Hs as (H0 & H1 & H2 & ->).
    split.
    + destruct (N.eqb_spec (nlen payload) 0); [lia|].
      unfold znth in Hps. destruct (Z.ltb_spec (Z.of_N (nlen payload) - 1) 0); [lia|].
      replace (nlen payload - 1) with (Z.to_N (Z.of_N (nlen payload) - 1)) by lia. exact Hps.
    + destruct (slice_split payload (Z.to_N hs) (Z.to_N (Z.of_N (nlen payload) - Z.of_N ps - hs))) as (E & L1 & L2 & L3); [lia|].
      exists (ntake (Z.to_N hs) payload), (ndrop (Z.to_N (Z.of_N (nlen payload) - Z.of_N ps - hs)) (ndrop (Z.to_N hs) payload)).
      split; [exact E|]. split; [lia|]. split; [lia|]. f_equal. lia.
  - destruct (Z.ltb_spec (Z.of_N (nlen payload)) hs) as [|Hge]; [discriminate|].
    destruct (zsub payload hs (Z.of_N (nlen payload))) as [p|] eqn:Hs; [|discriminate].
    intros H; inversion H; subst f; clear H. cbn [fo_padsize fo_payload].
    apply zsub_inv in Hs. destruct Hs as (H0 & H1 & H2 & ->).
    split; [reflexivity|].
    destruct (slice_split payload (Z.to_N hs) (Z.to_N (Z.of_N (nlen payload) - hs))) as (E & L1 & L2 & L3); [lia|].
    exists (ntake (Z.to_N hs) payload), (ndrop (Z.to_N (Z.of_N (nlen payload) - hs)) (ndrop (Z.to_N hs) payload)).
    split; [exact E|]. split; [lia|]. split; [lia|]. f_equal. lia.
Qed.

(* ----- relation with pion's Packet.Unmarshal on the same bytes ----- *)
Lemma fast_vs_pion_old buf h n : rtp_header_unmarshal buf = Ok (h, n) ->
  match pion_packet_unmarshal buf with
  | Ok (h', f) => h' = h /\ fast_rtp_unmarshal_old buf (h_padding h) (Z.of_N n) = Ok f /\ (h_padding h = true -> fo_padsize f <> 0)
  | Err e =>
      (e = e_rtp_too_small /\ exists e', fast_rtp_unmarshal_old buf (h_padding h) (Z.of_N n) = Err e') \/
      (e = e_rtp_bad_padding /\ h_padding h = true /\ nnth (nlen buf - 1) buf = Some 0 /\
       fast_rtp_unmarshal_old buf true (Z.of_N n) =
         Ok (mkFast 0 (ntake (nlen buf - n) (ndrop n buf))))
  | Panic | Diverge => False
  end.
Proof.
  intros E. pose proof (rtp_header_size_in_range buf h n E) as Hn.
  unfold pion_packet_unmarshal, fast_rtp_unmarshal_old. rewrite E.
  destruct (h_padding h).
  - destruct (Z.leb_spec (Z.of_N (nlen buf)) (Z.of_N n)) as [|Hlt]; [left; split; [reflexivity|eauto]|].
    destruct (znth_in buf (Z.of_N (nlen buf) - 1)) as [ps Hps]; [lia|lia|]. rewrite Hps.
    destruct (N.eqb_spec ps 0) as [->|Hnz].
    + right. split; [reflexivity|]. split; [reflexivity|]. split.
      * unfold znth in Hps. destruct (Z.ltb_spec (Z.of_N (nlen buf) - 1) 0); [lia|].
        replace (nlen buf - 1) with (Z.to_N (Z.of_N (nlen buf) - 1)) by lia. exact Hps.
      * destruct (Z.ltb_spec (Z.of_N (nlen buf) - Z.of_N 0) (Z.of_N n)); [lia|].
        rewrite zsub_in by lia.
        replace (Z.to_N (Z.of_N (nlen buf) - Z.of_N 0 - Z.of_N n)) with (nlen buf - n) by lia.
        replace (Z.to_N (Z.of_N n)) with n by lia. reflexivity.
    + destruct (Z.ltb_spec (Z.of_N (nlen buf) - Z.of_N ps) (Z.of_N n)) as [|Hge]; [left; split; [reflexivity|eauto]|].
      rewrite zsub_in by lia. split; [reflexivity|]. split; [reflexivity|]. intros _. exact Hnz.
  - destruct (Z.ltb_spec (Z.of_N (nlen buf)) (Z.of_N n)) as [|Hge]; [left; split; [reflexivity|eauto]|].
    rewrite zsub_in by lia. split; [reflexivity|]. split; [reflexivity|]. discriminate.
Qed.

Lemma fast_vs_pion_refuted_old : exists buf h n f,
  rtp_header_unmarshal buf = Ok (h, n) /\
  fast_rtp_unmarshal_old buf (h_padding h) (Z.of_N n) = Ok f /\
  fo_padsize f = 0 /\ h_padding h = true /\
  pion_packet_unmarshal buf = Err e_rtp_bad_padding.
Proof.
  exists [160; 96; 0; 1; 0; 0; 0; 2; 0; 0; 0; 3; 170; 187; 0].
  eexists. eexists. eexists. vm_compute. repeat split; reflexivity.
Qed.


(* Domain auxparse (C11 / C12): the auxiliary packet parsers of the media read paths.

   Every RTP / RTCP datagram (or interleaved frame) a peer sends reaches, before any codec,
     (1) pion rtp.Header.Unmarshal                       (pion/rtp packet.go)
     (2) gortsplib fastRTPUnmarshal                      (/repo/client_media.go:19-46; callers
         clientMedia.decodeRTP client_media.go:272 and serverSessionMedia.decodeRTP
         server_session_media.go:183)
     (3) pkg/rtcpunmarshaler.Unmarshal                   (/repo/pkg/rtcpunmarshaler/rtcpunmarshaler.go):
         pion rtcp.Unmarshal (the compound walk of pion/rtcp packet.go) and, when that fails, the
         SDES-tolerant second walk with unmarshalSourceDescriptionAllowMissingEnd.
   This file is the executable model of that code as it is.  Every Go index / slice expression is a
   checked primitive ([nnth], [nsub], [znth], [zsub]; failure = outcome [Panic]); every loop carries a
   structural fuel (exhaustion = outcome [Diverge]); so "never panics, always terminates" are real
   theorems (Proofs.v).  The per-type body parsers of pion/rtcp (SenderReport.Unmarshal, ...) are not
   modelled: they are the Section variable [body]; in [run] it is instantiated by a table the harness
   fills by running the real parsers on every 4-aligned candidate sub-packet of the datagram. *)
From GVL Require Import NList Wire.
From GVG Require Import Consts.
Open Scope N_scope.

Notation bytes := (list N) (only parsing).

Inductive res (A : Type) : Type :=
| Ok (a : A)
| Err (e : N)      (* the Go function returned an error; e = class *)
| Panic            (* a Go run-time panic (index / slice out of range) *)
| Diverge.         (* a loop did not finish within its structural fuel *)
Arguments Ok {A} a. Arguments Err {A} e. Arguments Panic {A}. Arguments Diverge {A}.

(* ---------- checked accessors ---------- *)
(* binary.BigEndian.Uint16(buf[off:]) / Uint32(buf[off:]): panics unless all bytes exist *)
Definition be16 (l : bytes) (off : N) : option N :=
  match nnth off l, nnth (off + 1) l with
  | Some a, Some b => Some (a * 256 + b)
  | _, _ => None
  end.
Definition be32 (l : bytes) (off : N) : option N :=
  match nnth off l, nnth (off + 1) l, nnth (off + 2) l, nnth (off + 3) l with
  | Some a, Some b, Some c, Some d => Some (((a * 256 + b) * 256 + c) * 256 + d)
  | _, _, _, _ => None
  end.
(* x >> sh & mask *)
Definition bits (x sh mask : N) : N := N.land (N.shiftr x sh) mask.

(* Go int indices (fastRTPUnmarshal computes with int and may go negative) *)
Definition znth (l : bytes) (i : Z) : option N :=
  if (i <? 0)%Z then None else nnth (Z.to_N i) l.
Definition zsub (l : bytes) (i j : Z) : option bytes :=
  if ((0 <=? i) && (i <=? j) && (j <=? Z.of_N (nlen l)))%Z
  then Some (ntake (Z.to_N (j - i)) (ndrop (Z.to_N i) l)) else None.

(* ================= (2) fastRTPUnmarshal ================= *)
Record fast_ok := mkFast { fo_padsize : N; fo_payload : bytes }.

Definition e_fast_pad_no_room : N := 1.   (* first  "buffer is too small": padding bit set, len <= headerSize *)
Definition e_fast_end_before  : N := 2.   (* second "buffer is too small": end < headerSize *)
Definition e_fast_zero_padding : N := 3.  (* "invalid RTP padding": padding bit set, last byte 0 (added by the fix) *)

(* payload = the whole datagram (after SRTP decryption when enabled); padding = header.Padding;
   hs = headerSize, a Go int.  This is the code after the fix "refuse a padding size of 0"; the function
   as it was before (accepting it, unlike pion) and its theorems are in history/PreFix.v *)
Definition fast_rtp_unmarshal (payload : bytes) (padding : bool) (hs : Z) : res fast_ok :=
  let n := hs in
  let end0 := Z.of_N (nlen payload) in
  if padding then
    if (end0 <=? n)%Z then Err e_fast_pad_no_room else
    match znth payload (end0 - 1) with            (* buf[end-1] *)
    | None => Panic
    | Some ps =>
      if ps =? 0 then Err e_fast_zero_padding else   (* if p.Header.PaddingSize == 0 { return nil, "invalid RTP padding" } *)
      let end1 := (end0 - Z.of_N ps)%Z in
      if (end1 <? n)%Z then Err e_fast_end_before else
      match zsub payload n end1 with               (* buf[n:end] *)
      | None => Panic
      | Some p => Ok (mkFast ps p)
      end
    end
  else
    if (end0 <? n)%Z then Err e_fast_end_before else
    match zsub payload n end0 with
    | None => Panic
    | Some p => Ok (mkFast 0 p)
    end.

(* ================= (1) pion rtp.Header.Unmarshal ================= *)
Record rtp_header := mkH {
  h_version : N; h_padding : bool; h_extension : bool; h_marker : bool; h_pt : N;
  h_seq : N; h_ts : N; h_ssrc : N; h_csrc : list N;
  h_profile : N; h_exts : list (N * bytes) }.

Definition e_rtp_short : N := 1.       (* errHeaderSizeInsufficient *)
Definition e_rtp_short_ext : N := 2.   (* errHeaderSizeInsufficientForExtension *)
Definition e_rtp_too_small : N := 3.   (* errTooSmall            (Packet.Unmarshal) *)
Definition e_rtp_bad_padding : N := 4. (* errInvalidRTPPadding   (Packet.Unmarshal) *)

Fixpoint read_csrc (buf : bytes) (k : nat) (off : N) : option (list N) :=
  match k with
  | O => Some []
  | S k' =>
    match be32 buf off with
    | None => None
    | Some v =>
      match read_csrc buf k' (off + aux_rtp_csrc_length) with
      | None => None
      | Some r => Some (v :: r)
      end
    end
  end.

Inductive xres := XOk (exts : list (N * bytes)) | XErr | XPanic | XDiverge.

(* for n < extensionEnd { ... }   (RFC 8285 one-byte / two-byte profiles) *)
Fixpoint ext_loop (fuel : bytes) (buf : bytes) (onebyte : bool) (ext_end n : N)
         (acc : list (N * bytes)) : xres :=
  if ext_end <=? n then XOk (rev acc) else
  match fuel with
  | [] => XDiverge
  | _ :: fuel' =>
    match nnth n buf with
    | None => XPanic
    | Some b =>
      if b =? aux_rtp_extid_padding then ext_loop fuel' buf onebyte ext_end (n + 1) acc else
      if onebyte then
        let extid := N.shiftr b 4 in
        let plen := N.land b 15 + 1 in                 (* int(buf[n]&^0xF0 + 1) *)
        let n1 := n + 1 in
        if (extid =? aux_rtp_extid_reserved) || (extid =? aux_rtp_extid_padding) then XOk (rev acc) (* break *)
        else if ext_end <? n1 + plen then XErr
        else match nsub buf n1 (n1 + plen) with
             | None => XPanic
             | Some p => ext_loop fuel' buf onebyte ext_end (n1 + plen) ((extid, p) :: acc)
             end
      else
        let extid := b in
        let n1 := n + 1 in
        if ext_end <=? n1 then XErr else
        match nnth n1 buf with
        | None => XPanic
        | Some plen =>
          let n2 := n1 + 1 in
          if ext_end <? n2 + plen then XErr
          else match nsub buf n2 (n2 + plen) with
               | None => XPanic
               | Some p => ext_loop fuel' buf onebyte ext_end (n2 + plen) ((extid, p) :: acc)
               end
        end
    end
  end.

(* returns the header and headerLength (the [n] the callers pass on as headerSize) *)
Definition rtp_header_unmarshal (buf : bytes) : res (rtp_header * N) :=
  if nlen buf <? aux_rtp_header_length then Err e_rtp_short else
  match nnth 0 buf with
  | None => Panic
  | Some b0 =>
    let ncsrc := N.land b0 aux_rtp_cc_mask in
    let n := aux_rtp_csrc_offset + ncsrc * aux_rtp_csrc_length in
    if nlen buf <? n then Err e_rtp_short else
    match nnth 1 buf, be16 buf aux_rtp_seq_offset, be32 buf aux_rtp_ts_offset,
          be32 buf aux_rtp_ssrc_offset, read_csrc buf (N.to_nat ncsrc) aux_rtp_csrc_offset with
    | Some b1, Some sq, Some ts, Some ssrc, Some csrc =>
      let ext := 0 <? bits b0 aux_rtp_extension_shift aux_rtp_extension_mask in
      let mk := mkH (bits b0 aux_rtp_version_shift aux_rtp_version_mask)
                    (0 <? bits b0 aux_rtp_padding_shift aux_rtp_padding_mask)
                    ext
                    (0 <? bits b1 aux_rtp_marker_shift aux_rtp_marker_mask)
                    (N.land b1 aux_rtp_pt_mask) sq ts ssrc csrc in
      if ext then
        if nlen buf <? n + 4 then Err e_rtp_short_ext else
        match be16 buf n, be16 buf (n + 2) with
        | Some profile, Some xl =>
          let n2 := n + 4 in
          let ext_end := n2 + xl * 4 in
          if nlen buf <? ext_end then Err e_rtp_short_ext else
          if (profile =? aux_rtp_ext_onebyte) || (profile =? aux_rtp_ext_twobyte) then
            match ext_loop buf buf (profile =? aux_rtp_ext_onebyte) ext_end n2 [] with
            | XOk exts => Ok (mk profile exts, ext_end)
            | XErr => Err e_rtp_short_ext
            | XPanic => Panic
            | XDiverge => Diverge
            end
          else
            match nsub buf n2 ext_end with             (* RFC 3550 extension: buf[n:extensionEnd] *)
            | None => Panic
            | Some p => Ok (mk profile [(0, p)], ext_end)
            end
        | _, _ => Panic
        end
      else Ok (mk 0 [], n)
    | _, _, _, _, _ => Panic
    end
  end.

(* pion rtp.Packet.Unmarshal: the reference fastRTPUnmarshal is a copy of *)
Definition pion_packet_unmarshal (buf : bytes) : res (rtp_header * fast_ok) :=
  match rtp_header_unmarshal buf with
  | Err e => Err e | Panic => Panic | Diverge => Diverge
  | Ok (h, hn) =>
    let n := Z.of_N hn in
    let end0 := Z.of_N (nlen buf) in
    if h_padding h then
      if (end0 <=? n)%Z then Err e_rtp_too_small else
      match znth buf (end0 - 1) with
      | None => Panic
      | Some ps =>
        if ps =? 0 then Err e_rtp_bad_padding else
        let end1 := (end0 - Z.of_N ps)%Z in
        if (end1 <? n)%Z then Err e_rtp_too_small else
        match zsub buf n end1 with
        | None => Panic
        | Some p => Ok (h, mkFast ps p)
        end
      end
    else
      if (end0 <? n)%Z then Err e_rtp_too_small else
      match zsub buf n end0 with
      | None => Panic
      | Some p => Ok (h, mkFast 0 p)
      end
  end.

(* the read path of client_media.go:301-315 / server_session_media.go:212-226 without SRTP:
   header.Unmarshal(payload), then fastRTPUnmarshal(payload, &header, headerSize) *)
Definition rtp_read_path (buf : bytes) : res (rtp_header * fast_ok) :=
  match rtp_header_unmarshal buf with
  | Err e => Err e | Panic => Panic | Diverge => Diverge
  | Ok (h, hn) =>
    match fast_rtp_unmarshal buf (h_padding h) (Z.of_N hn) with
    | Ok f => Ok (h, f)
    | Err e => Err (10 + e) | Panic => Panic | Diverge => Diverge
    end
  end.

(* ================= (3) RTCP ================= *)
Record rtcp_header := mkRH { rh_padding : bool; rh_count : N; rh_type : N; rh_length : N }.

Definition e_rtcp_short : N := 1.      (* errPacketTooShort *)
Definition e_rtcp_version : N := 2.    (* errBadVersion *)
Definition e_rtcp_invalid : N := 3.    (* errInvalidHeader *)
(* 4 = any other error of a body parser *)

(* pion rtcp.Header.Unmarshal *)
Definition rtcp_header_unmarshal (raw : bytes) : res rtcp_header :=
  if nlen raw <? aux_rtcp_header_length then Err e_rtcp_short else
  match nnth 0 raw, nnth 1 raw, be16 raw 2 with
  | Some b0, Some b1, Some len =>
    if negb (bits b0 aux_rtcp_version_shift aux_rtcp_version_mask =? aux_rtcp_version)
    then Err e_rtcp_version
    else Ok (mkRH (0 <? bits b0 aux_rtcp_padding_shift aux_rtcp_padding_mask)
                  (bits b0 aux_rtcp_count_shift aux_rtcp_count_mask) b1 len)
  | _, _, _ => Panic
  end.

(* the factory switch of pion's unmarshal: which packet type parses the body *)
Definition k_sr := 1. Definition k_rr := 2. Definition k_sdes := 3. Definition k_bye := 4.
Definition k_app := 5. Definition k_tln := 6. Definition k_rrr := 7. Definition k_tcc := 8.
Definition k_ccfb := 9. Definition k_pli := 10. Definition k_sli := 11. Definition k_remb := 12.
Definition k_fir := 13. Definition k_xr := 14. Definition k_raw := 15.

Definition rtcp_kind (ty count : N) : N :=
  if ty =? aux_rtcp_type_sr then k_sr else
  if ty =? aux_rtcp_type_rr then k_rr else
  if ty =? aux_rtcp_type_sdes then k_sdes else
  if ty =? aux_rtcp_type_bye then k_bye else
  if ty =? aux_rtcp_type_tsfb then
    (if count =? aux_rtcp_fmt_tln then k_tln else
     if count =? aux_rtcp_fmt_rrr then k_rrr else
     if count =? aux_rtcp_fmt_tcc then k_tcc else
     if count =? aux_rtcp_fmt_ccfb then k_ccfb else k_raw) else
  if ty =? aux_rtcp_type_psfb then
    (if count =? aux_rtcp_fmt_pli then k_pli else
     if count =? aux_rtcp_fmt_sli then k_sli else
     if count =? aux_rtcp_fmt_remb then k_remb else
     if count =? aux_rtcp_fmt_fir then k_fir else k_raw) else
  if ty =? aux_rtcp_type_xr then k_xr else
  if ty =? aux_rtcp_type_app then k_app else k_raw.

(* what a returned packet is, as far as this model tracks it *)
Inductive pbody :=
| POther                                            (* parsed by a pion body parser *)
| PSdes (src : N) (items : list (N * bytes)).       (* parsed by gortsplib's tolerant SDES parser *)
Record rpkt := mkP { p_kind : N; p_off : N; p_len : N; p_body : pbody }.

(* ----- gortsplib: SourceDescriptionItem.Unmarshal (pion), used by the tolerant parser ----- *)
Definition sdes_item_unmarshal (raw : bytes) : res (N * bytes) :=
  if nlen raw <? 2 then Err e_rtcp_short else
  match nnth 0 raw, nnth 1 raw with
  | Some ty, Some oc =>
    if nlen raw <? aux_sdes_text_offset + oc then Err e_rtcp_short else
    match nsub raw aux_sdes_text_offset (aux_sdes_text_offset + oc) with
    | None => Panic
    | Some txt => Ok (ty, txt)
    end
  | _, _ => Panic
  end.

(* for len(body) > 0 && body[0] == 0 { body = body[1:] } *)
Fixpoint skip_zeros (body : bytes) : bytes :=
  match body with
  | b :: t => if b =? 0 then skip_zeros t else body
  | [] => []
  end.

(* the inner  for { ... }  of unmarshalSourceDescriptionAllowMissingEnd.
   Some (items, rest) = left the loop by break with body = rest; None = return nil, false *)
Fixpoint sdes_items (fuel : bytes) (body : bytes) (acc : list (N * bytes))
  : res (option (list (N * bytes) * bytes)) :=
  if nlen body =? 0 then Ok None else
  match fuel with
  | [] => Diverge
  | _ :: fuel' =>
    match nnth 0 body with
    | None => Panic
    | Some b0 =>
      if b0 =? 0 then
        match nsub body 1 (nlen body) with                       (* body = body[1:] *)
        | None => Panic
        | Some r => Ok (Some (rev acc, skip_zeros r))
        end
      else if nlen body <? 2 then Ok None else
      match nnth 1 body with
      | None => Panic
      | Some l1 =>
        let item_len := 2 + l1 in
        if nlen body <? item_len then Ok None else
        if item_len =? nlen body then
          match sdes_item_unmarshal body with
          | Ok it => Ok (Some (rev (it :: acc), []))              (* body = body[:0]; break *)
          | Err _ => Ok None | Panic => Panic | Diverge => Diverge
          end
        else
          match nsub body 0 item_len, nsub body item_len (nlen body) with
          | Some ib, Some r =>
            match sdes_item_unmarshal ib with
            | Ok it => sdes_items fuel' r (it :: acc)
            | Err _ => Ok None | Panic => Panic | Diverge => Diverge
            end
          | _, _ => Panic
          end
      end
    end
  end.

(* unmarshalSourceDescriptionAllowMissingEnd(rawPacket, header); header.Count must be 1, so the
   "for range int(header.Count)" loop is its single iteration *)
Definition sdes_tolerant (raw : bytes) (h : rtcp_header) : res (option (N * list (N * bytes))) :=
  if negb (rh_count h =? 1) || (nlen raw <? aux_rtcpu_header_length + 4) then Ok None else
  match nsub raw aux_rtcpu_header_length (nlen raw) with
  | None => Panic
  | Some body =>
    if nlen body <? 4 then Ok None else
    match be32 body 0, nsub body 4 (nlen body) with
    | Some src, Some body1 =>
      match sdes_items body1 body1 [] with
      | Ok (Some (items, rest)) => if nlen rest =? 0 then Ok (Some (src, items)) else Ok None
      | Ok None => Ok None
      | Err e => Err e | Panic => Panic | Diverge => Diverge
      end
    | _, _ => Panic
    end
  end.

Section Walk.
(* pion's per-type body parser run on exactly one packet (header included): first argument = offset
   of that packet in the datagram (a hint only the table instantiation of [run] looks at). *)
Variable body : N -> bytes -> res unit.

(* pion rtcp.unmarshal: first packet of raw; returns kind and bytes processed *)
Definition pion_unmarshal1 (off : N) (raw : bytes) : res (N * N) :=
  match rtcp_header_unmarshal raw with
  | Err e => Err e | Panic => Panic | Diverge => Diverge
  | Ok h =>
    let bp := (rh_length h + 1) * 4 in                  (* (int(header.Length) + 1) * 4 *)
    if nlen raw <? bp then Err e_rtcp_short else
    match nsub raw 0 bp with
    | None => Panic
    | Some inp =>
      match body off inp with
      | Ok _ => Ok (rtcp_kind (rh_type h) (rh_count h), bp)
      | Err e => Err e | Panic => Panic | Diverge => Diverge
      end
    end
  end.

(* for len(rawData) != 0 { p, processed, err := unmarshal(rawData); ...; rawData = rawData[processed:] } *)
Fixpoint pion_walk (fuel : bytes) (off : N) (raw : bytes) (acc : list rpkt) : res (list rpkt) :=
  if nlen raw =? 0 then Ok (rev acc) else
  match fuel with
  | [] => Diverge
  | _ :: fuel' =>
    match pion_unmarshal1 off raw with
    | Err e => Err e | Panic => Panic | Diverge => Diverge
    | Ok (k, bp) =>
      match nsub raw bp (nlen raw) with
      | None => Panic
      | Some rest => pion_walk fuel' (off + bp) rest (mkP k off bp POther :: acc)
      end
    end
  end.

(* pion rtcp.Unmarshal *)
Definition pion_unmarshal (off : N) (raw : bytes) : res (list rpkt) :=
  match pion_walk raw off raw [] with
  | Ok [] => Err e_rtcp_invalid
  | r => r
  end.

(* gortsplib unmarshalAllowMissingSDESEnd: Ok None = (nil, false) *)
Definition g_bytes_processed (h : rtcp_header) : N := ((rh_length h + 1) mod 65536) * 4.  (* int(header.Length+1) * 4, uint16 sum *)

Fixpoint g_walk (fuel : bytes) (off : N) (raw : bytes) (acc : list rpkt) : res (option (list rpkt)) :=
  if nlen raw =? 0 then Ok (match acc with [] => None | _ => Some (rev acc) end) else
  match fuel with
  | [] => Diverge
  | _ :: fuel' =>
    match rtcp_header_unmarshal raw with
    | Err _ => Ok None | Panic => Panic | Diverge => Diverge
    | Ok h =>
      let bp := g_bytes_processed h in
      if nlen raw <? bp then Ok None else
      match nsub raw 0 bp, nsub raw bp (nlen raw) with
      | Some inp, Some rest =>
        if negb (rh_type h =? aux_rtcp_type_sdes) then
          match pion_unmarshal off inp with                 (* rtcp.Unmarshal(inPacket) *)
          | Ok [p] => g_walk fuel' (off + bp) rest (mkP (p_kind p) off bp POther :: acc)
          | Ok _ => Ok None
          | Err _ => Ok None
          | Panic => Panic | Diverge => Diverge
          end
        else
          match sdes_tolerant inp h with
          | Ok (Some (src, items)) => g_walk fuel' (off + bp) rest (mkP k_sdes off bp (PSdes src items) :: acc)
          | Ok None => Ok None
          | Err _ => Ok None
          | Panic => Panic | Diverge => Diverge
          end
      | _, _ => Panic
      end
    end
  end.

(* rtcpunmarshaler.Unmarshal: (via, packets); via 0 = pion accepted, 1 = tolerant walk accepted *)
Definition rtcp_unmarshal (raw : bytes) : res (N * list rpkt) :=
  match pion_unmarshal 0 raw with
  | Ok ps => Ok (0, ps)
  | Panic => Panic | Diverge => Diverge
  | Err e =>
    match g_walk raw 0 raw [] with
    | Ok (Some ps) => Ok (1, ps)
    | Ok None => Err e
    | Err _ => Err e
    | Panic => Panic | Diverge => Diverge
    end
  end.
End Walk.

(* ================= line protocol ================= *)
Definition enc_fast (r : res fast_ok) : list N :=
  match r with
  | Ok f => 0 :: fo_padsize f :: putl (fo_payload f)
  | Err _ => [1]
  | Panic => [77]
  | Diverge => [78]
  end.

Definition enc_ext (e : N * bytes) : list N := fst e :: putl (snd e).

Definition enc_header (h : rtp_header) (n : N) : list N :=
  n :: h_version h :: putb (h_padding h) :: putb (h_extension h) :: putb (h_marker h) :: h_pt h ::
  h_seq h :: h_ts h :: h_ssrc h :: putl (h_csrc h) ++ h_profile h :: nlen (h_exts h) ::
  concat (map enc_ext (h_exts h)).

Definition enc_pion_packet (r : res (rtp_header * fast_ok)) : list N :=
  match r with
  | Ok (_, f) => 0 :: fo_padsize f :: putl (fo_payload f)
  | Err e => [1; e]
  | Panic => [77]
  | Diverge => [78]
  end.

(* kind 2: header fields, then what fastRTPUnmarshal makes of it, then marker 555, then what pion's
   Packet.Unmarshal makes of the same bytes *)
Definition run_rtp (buf : bytes) : list N :=
  match rtp_header_unmarshal buf with
  | Ok (h, n) =>
    (0 :: enc_header h n) ++ enc_fast (fast_rtp_unmarshal buf (h_padding h) (Z.of_N n)) ++
    555 :: enc_pion_packet (pion_packet_unmarshal buf)
  | Err e => [1; e; 555] ++ enc_pion_packet (pion_packet_unmarshal buf)
  | Panic => [77]
  | Diverge => [78]
  end.

Definition enc_item (it : N * bytes) : list N := fst it :: putl (snd it).
Definition enc_pkt (p : rpkt) : list N :=
  match p_body p with
  | POther => [p_kind p]
  | PSdes src items => p_kind p :: src :: nlen items :: concat (map enc_item items)
  end.

Definition enc_rtcp (r : res (N * list rpkt)) : list N :=
  match r with
  | Ok (via, ps) => 0 :: via :: nlen ps :: concat (map enc_pkt ps)
  | Err e => [1; e]
  | Panic => [77]
  | Diverge => [78]
  end.

(* table of body-parser results: flat list off1 r1 off2 r2 ...; r = 0 ok, 77 panic, else 1 + error class *)
Fixpoint tbl_lookup (t : list N) (off : N) : option N :=
  match t with
  | o :: r :: t' => if o =? off then Some r else tbl_lookup t' off
  | _ => None
  end.
Definition tbl_body (t : list N) (off : N) (_ : bytes) : res unit :=
  match tbl_lookup t off with
  | None => Diverge                      (* the harness did not supply the entry: loud mismatch *)
  | Some r => if r =? 0 then Ok tt else if r =? 77 then Panic else Err (r - 1)
  end.

(* cases:
   1 pad hs_sign hs_mag <len bytes>           fastRTPUnmarshal alone, any flag / any headerSize
   2 <len bytes>                              RTP read path on a datagram (+ pion Packet.Unmarshal)
   3 <len bytes> <tbl>                        rtcpunmarshaler.Unmarshal on a datagram *)
Definition run (c : list N) : list N :=
  match c with
  | 1 :: pad :: s :: m :: t =>
    match getl t with
    | Some (buf, []) => enc_fast (fast_rtp_unmarshal buf (getb pad) (getz s m))
    | _ => bad_case
    end
  | 2 :: t =>
    match getl t with
    | Some (buf, []) => run_rtp buf
    | _ => bad_case
    end
  | 3 :: t =>
    match getl t with
    | Some (buf, t2) =>
      match getl t2 with
      | Some (tbl, []) => enc_rtcp (rtcp_unmarshal (tbl_body tbl) buf)
      | _ => bad_case
      end
    | None => bad_case
    end
  | _ => bad_case
  end.

(* Soundness of gortsplib's tolerant SDES parser: what it returns is exactly what the packet holds -
   after the 4-byte header and the 4-byte source, the packet is the returned items, in order, followed
   by nothing but zero octets (possibly none: the missing END this parser exists to tolerate). *)
From Coq Require Import ZifyBool ZifyNat ZifyN.
From GVL Require Import NList Wire.
From GVG Require Import Consts.
From GV_auxparse Require Import Model Proofs.
Open Scope N_scope.

Definition item_bytes (it : N * list N) : list N := fst it :: nlen (snd it) :: snd it.

Lemma skip_zeros_nil t : skip_zeros t = [] -> Forall (fun b => b = 0) t.
Proof.
  induction t as [|a t IH]; cbn [skip_zeros]; intros H; [constructor|].
  destruct (N.eqb_spec a 0); [constructor; auto|discriminate].
Qed.

Lemma item_exact raw it b0 l1 : sdes_item_unmarshal raw = Ok it ->
  nnth 0 raw = Some b0 -> nnth 1 raw = Some l1 -> nlen raw = 2 + l1 -> raw = item_bytes it /\ fst it = b0.
Proof.
  unfold sdes_item_unmarshal, aux_sdes_text_offset. intros H H0 H1 Hl.
  destruct (N.ltb_spec (nlen raw) 2); [discriminate|].
  rewrite H0, H1 in H.
  destruct (N.ltb_spec (nlen raw) (2 + l1)); [discriminate|].
  rewrite nsub_in in H by lia.
  assert (Eit : it = (b0, ntake (2 + l1 - 2) (ndrop 2 raw))) by congruence. subst it. clear H.
  destruct raw as [|a [|b t]]; cbn [nlen] in *; try lia.
  change (nnth 0 (a :: b :: t)) with (Some a) in H0. change (nnth 1 (a :: b :: t)) with (Some b) in H1.
  assert (Ea : a = b0) by congruence. assert (Eb : b = l1) by congruence. subst a b.
  change (ndrop 2 (b0 :: l1 :: t)) with (ndrop 0 t). rewrite ndrop_0.
  unfold item_bytes. cbn [fst snd]. rewrite ntake_all by lia.
  split; [|reflexivity]. f_equal. f_equal. lia.
Qed.

Lemma sdes_items_sound : forall fuel body acc items rest,
  sdes_items fuel body acc = Ok (Some (items, rest)) ->
  exists its tail, items = rev acc ++ its /\ body = concat (map item_bytes its) ++ tail /\
                   rest = skip_zeros tail /\ Forall (fun it => fst it <> 0) its.
Proof.
  induction fuel as [|x fuel IH]; intros body acc items rest; cbn [sdes_items].
  - destruct (nlen body =? 0); discriminate.
  - destruct (N.eqb_spec (nlen body) 0) as [|Hnz]; [discriminate|].
    destruct (nnth 0 body) as [b0|] eqn:E0; [|discriminate].
    destruct (N.eqb_spec b0 0) as [->|Hb0].
    + (* END *)
      destruct (nsub body 1 (nlen body)) as [r|] eqn:Er; [|discriminate].
      intros H; inversion H; subst; clear H.
      exists [], body. rewrite app_nil_r. split; [reflexivity|]. split; [reflexivity|]. split; [|constructor].
      apply nsub_inv in Er. destruct Er as (_ & _ & ->).
      destruct body as [|y t]; [discriminate|].
      change (nnth 0 (y :: t)) with (Some y) in E0. inversion E0; subst y.
      change (ndrop 1 (0 :: t)) with (ndrop 0 t). rewrite ndrop_0. cbn [nlen skip_zeros N.eqb]. rewrite ntake_all by lia. reflexivity.
    + destruct (N.ltb_spec (nlen body) 2) as [|H2]; [discriminate|].
      destruct (nnth 1 body) as [l1|] eqn:E1; [|discriminate].
      destruct (N.ltb_spec (nlen body) (2 + l1)) as [|Hil]; [discriminate|].
      destruct (N.eqb_spec (2 + l1) (nlen body)) as [Heq|Hne].
      * destruct (sdes_item_unmarshal body) as [it| | |] eqn:Ei; try discriminate.
        intros H; inversion H; subst; clear H.
        destruct (item_exact body it b0 l1 Ei E0 E1 ltac:(lia)) as (Eb & Ef).
        exists [it], []. cbn [rev map concat skip_zeros]. rewrite !app_nil_r.
        split; [reflexivity|]. split; [exact Eb|]. split; [reflexivity|].
        constructor; [congruence|constructor].
      * rewrite !nsub_in by lia.
        replace (2 + l1 - 0) with (2 + l1) by lia. rewrite ndrop_0.
        destruct (sdes_item_unmarshal (ntake (2 + l1) body)) as [it| | |] eqn:Ei; try discriminate.
        intros H. apply IH in H. destruct H as (its & tail & -> & Hr & -> & Hall).
        destruct (item_exact (ntake (2 + l1) body) it b0 l1 Ei) as (Eb & Ef).
        { rewrite nnth_ntake by lia. exact E0. }
        { rewrite nnth_ntake by lia. exact E1. }
        { rewrite nlen_ntake. lia. }
        exists (it :: its), tail. cbn [rev map concat]. rewrite <- app_assoc. cbn [app].
        split; [reflexivity|]. split; [|split; [reflexivity|constructor; [congruence|exact Hall]]].
        rewrite <- app_assoc, <- Hr, <- Eb.
        rewrite (ntake_all (nlen body - (2 + l1))) by (rewrite nlen_ndrop; lia). symmetry. apply ntake_ndrop.
Qed.

Lemma sdes_tolerant_sound raw h src items :
  sdes_tolerant raw h = Ok (Some (src, items)) ->
  rh_count h = 1 /\ 8 <= nlen raw /\ be32 (ndrop 4 raw) 0 = Some src /\
  Forall (fun it => fst it <> 0) items /\
  exists zeros, ndrop 4 (ndrop 4 raw) = concat (map item_bytes items) ++ zeros /\ Forall (fun b => b = 0) zeros.
Proof.
  unfold sdes_tolerant, aux_rtcpu_header_length.
  destruct (negb (rh_count h =? 1) || (nlen raw <? 4 + 4))%bool eqn:E; [discriminate|].
  assert (H8 : 8 <= nlen raw) by lia. assert (Hc : rh_count h = 1) by lia.
  rewrite nsub_in by lia.
  rewrite (ntake_all (nlen raw - 4) (ndrop 4 raw)) by (rewrite nlen_ndrop; lia).
  assert (Hb : nlen (ndrop 4 raw) = nlen raw - 4) by apply nlen_ndrop.
  destruct (N.ltb_spec (nlen (ndrop 4 raw)) 4); [discriminate|].
  destruct (be32 (ndrop 4 raw) 0) as [s|] eqn:Es; [|discriminate].
  rewrite nsub_in by lia.
  rewrite (ntake_all (nlen (ndrop 4 raw) - 4) (ndrop 4 (ndrop 4 raw))) by (rewrite nlen_ndrop; lia).
  destruct (sdes_items _ _ _) as [[[its rest]|]| | |] eqn:Ei; try discriminate.
  destruct (N.eqb_spec (nlen rest) 0) as [Hz|]; [|discriminate].
  intros Hr; inversion Hr; subst; clear Hr.
  apply sdes_items_sound in Ei. destruct Ei as (its' & tail & -> & Hb' & -> & Hall).
  cbn [rev app].
  split; [exact Hc|]. split; [exact H8|]. split; [reflexivity|]. split; [exact Hall|].
  exists tail. split; [exact Hb'|]. apply skip_zeros_nil, nlen_nil_iff, Hz.
Qed.

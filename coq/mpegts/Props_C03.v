(* C03, rtpmpegts — statements only *)
From GVL Require Import NList Chunks Rtp.
From GV_mpegts Require Import Model Proofs.
Open Scope N_scope.

(* Every valid group (one or more TS packets of 188 bytes, each starting with the sync byte), every
   payload limit >= 188 (the smallest workable value: max/188 TS packets per RTP packet) and every
   initial sequence number: each RTP packet decodes on its own - the decoder is stateless, so there is
   no "more packets needed" - to exactly the run of TS packets it carries, and the runs in order are
   the group: same packets, same bytes, same boundaries. *)
Theorem C03_mpegts_roundtrip : forall max seq units, tsz <= max -> seq < 65536 -> valid_frame units ->
  exists ps seq', enc max seq units = Some (ps, seq') /\
    snd (dec_run dinit ps) = map DFrame (chunks (max / tsz) units) /\
    concat (chunks (max / tsz) units) = units /\ ps <> [].
Proof. exact roundtrip. Qed.
Print Assumptions C03_mpegts_roundtrip.

Theorem C03_mpegts_roundtrip_seq : forall max frames, tsz <= max -> Forall valid_frame frames ->
  forall seq, seq < 65536 ->
  exists pss, enc_many max seq frames = Some pss /\
    snd (dec_run dinit (concat pss)) = concat (map (fun f => map DFrame (chunks (max / tsz) f)) frames).
Proof. exact roundtrip_seq. Qed.
Print Assumptions C03_mpegts_roundtrip_seq.

Definition ts (k : N) : bytes := 71 :: nrep k 187.
Example C03_mpegts_example :
  option_map (fun x => snd (dec_run dinit (fst x))) (enc 400 65535 [ts 1; ts 2; ts 3]) = Some [DFrame [ts 1; ts 2]; DFrame [ts 3]]
  /\ valid_frame [ts 1; ts 2; ts 3].
Proof.
  split; [vm_compute; reflexivity|]. split; [discriminate|].
  repeat constructor.
Qed.

From Coq Require Extraction ExtrOcamlBasic.
From GV_mpegts Require Import Model.
Extraction Language OCaml.
Extraction "model.ml" run.

(* rtpmpegts: packet well-formedness (C06), round trip (C03), arbitrary packets (C08). The decoder is
   stateless, so C07 has no content for this format. *)
From GVL Require Import NList Wire Chunks Rtp.
From GVG Require Import Consts.
From GV_mpegts Require Import Model.
From Coq Require Import ZifyBool ZifyNat ZifyN.
Open Scope N_scope.
Ltac splits := repeat match goal with |- _ /\ _ => split end.

Lemma tsz_pos : 0 < tsz.
Proof. unfold tsz, mpegts_packet_size. lia. Qed.

(* ---------- generic ---------- *)
Lemma nnth_app_l {A} (l1 l2 : list A) i : i < nlen l1 -> nnth i (l1 ++ l2) = nnth i l1.
Proof.
  revert i; induction l1 as [|x t IH]; intros i H; cbn [nlen app nnth] in *; [lia|].
  destruct (N.eqb_spec i 0); [reflexivity|]. apply IH. lia.
Qed.
Lemma nnth_app_r {A} (l1 l2 : list A) i : nlen l1 <= i -> nnth i (l1 ++ l2) = nnth (i - nlen l1) l2.
Proof.
  revert i; induction l1 as [|x t IH]; intros i H; cbn [nlen app nnth] in *; [f_equal; lia|].
  destruct (N.eqb_spec i 0); [lia|]. rewrite IH by lia. f_equal. lia.
Qed.
Lemma seq_add_next s k : seq_add (seq_next s) k = seq_add s (k + 1).
Proof. unfold seq_add, seq_next. rewrite N.add_mod_idemp_l by lia. f_equal. lia. Qed.
Lemma seq_add_0 s : s < 65536 -> seq_add s 0 = s.
Proof. intros H. unfold seq_add. rewrite N.add_0_r. now apply N.mod_small. Qed.
Lemma seq_add_add s a b : seq_add (seq_add s a) b = seq_add s (a + b).
Proof. unfold seq_add. rewrite N.add_mod_idemp_l by lia. f_equal. lia. Qed.
Lemma seq_add_lt s k : seq_add s k < 65536.
Proof. unfold seq_add. apply N.mod_lt. lia. Qed.
Lemma seq_next_lt s : seq_next s < 65536.
Proof. unfold seq_next. apply N.mod_lt. lia. Qed.
Lemma concat_snoc {A} (l : list (list A)) x : concat (l ++ [x]) = concat l ++ x.
Proof. rewrite concat_app. cbn. now rewrite app_nil_r. Qed.

Lemma concat_map_concat {A} (l : list (list (list A))) : concat (map (@concat A) l) = concat (concat l).
Proof. induction l as [|x t IH]; cbn [map concat]; [reflexivity|]. now rewrite concat_app, IH. Qed.

Lemma ndrop_ndrop {A} (l : list A) : forall a b, ndrop a (ndrop b l) = ndrop (b + a) l.
Proof.
  induction l as [|x t IH]; intros a b; cbn [ndrop].
  - destruct (b =? 0); destruct (b + a =? 0); destruct (a =? 0); reflexivity.
  - destruct (N.eqb_spec b 0) as [->|Hb]; [reflexivity|].
    destruct (N.eqb_spec (b + a) 0); [lia|]. rewrite IH. f_equal. lia.
Qed.

(* join is exact (and does not panic) when size is the total length *)
Lemma join_aux_exact frags : forall size n acc,
  n = nlen acc -> size = n + nlen (concat frags) -> join_aux frags size n acc = Some (acc ++ concat frags).
Proof.
  induction frags as [|p t IH]; intros size n acc Hn Hs; cbn [join_aux concat] in *.
  - cbn [nlen] in Hs. replace (size - n) with 0 by lia. cbn [nrep]. reflexivity.
  - rewrite nlen_app in Hs. destruct (N.ltb_spec size n); [lia|].
    rewrite ntake_all by lia. rewrite IH; [now rewrite <- app_assoc| rewrite nlen_app; lia | lia].
Qed.
Lemma join_exact frags : join frags (nlen (concat frags)) = Some (concat frags).
Proof. unfold join. now rewrite join_aux_exact with (acc := []). Qed.

(* groups of TS-packet-sized units *)
Definition sized (u : bytes) : Prop := nlen u = tsz.
Lemma nlen_concat_sized g : Forall sized g -> nlen (concat g) = nlen g * tsz.
Proof.
  induction 1 as [|u t Hu Ht IH]; cbn [concat nlen]; [reflexivity|]. rewrite nlen_app, IH, Hu. lia.
Qed.

Lemma Forall_ntake {A} (P : A -> Prop) (l : list A) : forall n, Forall P l -> Forall P (ntake n l).
Proof.
  induction l as [|x t IH]; intros n H; cbn [ntake]; [constructor|]. inversion H; subst.
  destruct (n =? 0); constructor; [assumption|now apply IH].
Qed.
Lemma Forall_ndrop {A} (P : A -> Prop) (l : list A) : forall n, Forall P l -> Forall P (ndrop n l).
Proof.
  induction l as [|x t IH]; intros n H; cbn [ndrop]; [constructor|]. inversion H; subst.
  destruct (n =? 0); [assumption|now apply IH].
Qed.
Lemma chunks_aux_forall {A} (P : A -> Prop) n : forall fuel (l : list A),
  Forall P l -> Forall (Forall P) (chunks_aux fuel n l).
Proof.
  induction fuel as [|f fuel IH]; intros l Hl; [destruct l; constructor|].
  destruct l as [|x t]; [constructor|]. cbn [chunks_aux]. constructor.
  - now apply Forall_ntake.
  - apply IH. now apply Forall_ndrop.
Qed.
Lemma chunks_forall {A} (P : A -> Prop) n (l : list A) : Forall P l -> Forall (Forall P) (chunks n l).
Proof. apply chunks_aux_forall. Qed.

(* ---------- encoder (C06) ---------- *)
Fixpoint pkts_of (seq : N) (payloads : list bytes) : list packet :=
  match payloads with
  | [] => []
  | pl :: t => mkPkt seq 0 false pl :: pkts_of (seq_next seq) t
  end.

Lemma mk_pkts_sized groups : forall seq, Forall (Forall sized) groups ->
  mk_pkts seq groups = Some (pkts_of seq (map (@concat N) groups)).
Proof.
  induction groups as [|g t IH]; intros seq H; cbn [mk_pkts map pkts_of]; [reflexivity|].
  inversion H as [|? ? Hg Ht]; subst. rewrite <- (nlen_concat_sized g Hg), join_exact, IH by assumption. reflexivity.
Qed.

Lemma pkts_of_payloads seq pls : map ppayload (pkts_of seq pls) = pls.
Proof. revert seq; induction pls as [|c t IH]; intros seq; cbn [pkts_of map]; [reflexivity|]. now rewrite IH. Qed.
Lemma pkts_of_len seq pls : nlen (pkts_of seq pls) = nlen pls.
Proof. revert seq; induction pls as [|c t IH]; intros seq; cbn [pkts_of nlen]; [reflexivity|]. now rewrite IH. Qed.
Lemma pkts_of_nth pls : forall seq i p, seq < 65536 -> nnth i (pkts_of seq pls) = Some p ->
  pseq p = seq_add seq i /\ pmarker p = false /\ pts p = 0.
Proof.
  induction pls as [|c t IH]; intros seq i p Hs H; cbn [pkts_of nnth] in H; [discriminate|].
  destruct (N.eqb_spec i 0) as [->|Hi].
  - injection H as <-. cbn. now rewrite seq_add_0.
  - apply IH in H; [|apply seq_next_lt]. destruct H as (H1 & H2 & H3). splits; try assumption.
    rewrite H1, seq_add_next. f_equal. lia.
Qed.

Lemma pkts_of_forall (Q : bytes -> Prop) pls : forall seq, Forall Q pls -> Forall (fun p => Q (ppayload p)) (pkts_of seq pls).
Proof. induction pls as [|c t IH]; intros seq H; cbn [pkts_of]; [constructor|]. inversion H; subst. constructor; [assumption|now apply IH]. Qed.

Definition frame_sized (units : list bytes) : Prop := Forall sized units.

(* For every group of 188-byte units (sync bytes irrelevant here), every limit >= 188 and every initial
   sequence number: Encode succeeds; the payloads are the concatenations of consecutive runs of
   max/188 units (the last run shorter), so they concatenate to the group; each payload is a non-zero
   multiple of 188 not above the limit; count = ceil(n / (max/188)); packet i carries seq+i mod 2^16;
   the marker bit is never set; timestamps are left at 0; the encoder continues at seq+count. *)
Theorem enc_wellformed max seq units : tsz <= max -> seq < 65536 -> frame_sized units ->
  exists ps, enc max seq units = Some (ps, seq_add seq (nlen ps)) /\
    map ppayload ps = map (@concat N) (chunks (max / tsz) units) /\
    concat (map ppayload ps) = concat units /\
    Forall (fun p => 0 < nlen (ppayload p) /\ nlen (ppayload p) <= max /\ nlen (ppayload p) mod tsz = 0) ps /\
    nlen ps = (nlen units + max / tsz - 1) / (max / tsz) /\
    (forall i p, nnth i ps = Some p -> pseq p = seq_add seq i /\ pmarker p = false /\ pts p = 0).
Proof.
  intros Hm Hs Hu. pose proof tsz_pos as Ht.
  assert (Hm1 : 0 < max / tsz). { apply N.div_str_pos. lia. }
  unfold enc. destruct (N.eqb_spec (max / tsz) 0); [lia|].
  pose proof (chunks_forall sized (max / tsz) units Hu) as Hg.
  rewrite (mk_pkts_sized (chunks (max / tsz) units) seq Hg).
  exists (pkts_of seq (map (@concat N) (chunks (max / tsz) units))). split.
  - rewrite pkts_of_len, nlen_map. reflexivity.
  - splits.
    + apply pkts_of_payloads.
    + rewrite pkts_of_payloads. rewrite concat_map_concat. now rewrite chunks_concat.
    + pose proof (chunks_bounds (max / tsz) units Hm1) as Hb.
      apply (pkts_of_forall (fun pl => 0 < nlen pl /\ nlen pl <= max /\ nlen pl mod tsz = 0)).
      rewrite Forall_map. rewrite Forall_forall in *. intros g Hin.
      specialize (Hb g Hin). specialize (Hg g Hin).
      rewrite (nlen_concat_sized g Hg). splits.
      * nia.
      * pose proof (N.mul_div_le max tsz). nia.
      * apply N.mod_mul. lia.
    + rewrite pkts_of_len, nlen_map. now apply chunks_count.
    + intros i p H. now apply pkts_of_nth in H.
Qed.

Fixpoint seq_after (max seq : N) (frames : list (list bytes)) : N :=
  match frames with
  | [] => seq
  | f :: t => seq_after max (seq_add seq (nlen (chunks (max / tsz) f))) t
  end.

(* across any series of Encode calls the sequence numbers increase by one modulo 2^16 *)
Theorem enc_many_gapless max frames : tsz <= max -> Forall frame_sized frames -> forall seq, seq < 65536 ->
  exists pss, enc_many max seq frames = Some pss /\
    forall i p, nnth i (concat pss) = Some p -> pseq p = seq_add seq i /\ pmarker p = false.
Proof.
  intros Hm. induction 1 as [|f t Hf Ht IH]; intros seq Hs; cbn [enc_many].
  - exists []. split; [reflexivity|]. intros i p H. cbn in H. discriminate.
  - destruct (enc_wellformed max seq f Hm Hs Hf) as (ps & -> & _ & _ & _ & _ & Hi).
    destruct (IH (seq_add seq (nlen ps)) (seq_add_lt _ _)) as (pss & -> & Hj).
    exists (ps :: pss). split; [reflexivity|]. intros i p H. cbn [concat] in H.
    destruct (N.ltb_spec i (nlen ps)) as [Hlt|Hge].
    + rewrite nnth_app_l in H by assumption. apply Hi in H. tauto.
    + rewrite nnth_app_r in H by assumption. apply Hj in H. destruct H as [H1 H2]. split; [|assumption].
      rewrite H1, seq_add_add. f_equal. lia.
Qed.

(* ---------- decoder: total (C08) ---------- *)
Lemma split_ts_total {F} (fuel : list F) : forall i pl, (i + nlen fuel) * tsz <= nlen pl ->
  split_ts fuel i pl <> DPanic.
Proof.
  pose proof tsz_pos as Ht.
  induction fuel as [|f fuel IH]; intros i pl H; cbn [split_ts]; [discriminate|]. cbn [nlen] in H.
  destruct (nnth_lt pl (i * tsz)) as [b ->]; [nia|].
  destruct (negb (b =? sync)); [discriminate|].
  unfold nsub. destruct (N.leb_spec (i * tsz) (i * tsz + tsz)); [|lia].
  destruct (N.leb_spec (i * tsz + tsz) (nlen pl)); [|nia]. cbn [andb].
  specialize (IH (i + 1) pl). destruct (split_ts fuel (i + 1) pl); try discriminate. apply IH. nia.
Qed.

Lemma chunks_count_exact {A} (l : list A) : nlen l mod tsz = 0 -> nlen (chunks tsz l) * tsz = nlen l.
Proof.
  pose proof tsz_pos as Ht. intros Hmod. rewrite chunks_count by assumption.
  pose proof (N.div_mod (nlen l) tsz) as Hd. rewrite Hmod in Hd.
  set (q := nlen l / tsz) in *.
  assert (E : (nlen l + tsz - 1) / tsz = q).
  { symmetry. apply (N.div_unique (nlen l + tsz - 1) tsz q (tsz - 1)); lia. }
  rewrite E. lia.
Qed.

Theorem dec_total p : dec p <> DPanic.
Proof.
  unfold dec. destruct (nlen (ppayload p) =? 0); [discriminate|].
  destruct (N.eqb_spec (nlen (ppayload p) mod tsz) 0) as [Hm|Hm]; cbn [negb]; [|discriminate].
  apply split_ts_total. pose proof (chunks_count_exact _ Hm). lia.
Qed.

Theorem total hist : ~ In DPanic (snd (dec_run dinit hist)).
Proof.
  induction hist as [|p t IH]; cbn [dec_run]; [cbn; tauto|].
  destruct (dec_run dinit t) as [d rs]. cbn [snd] in *. intros [H|H]; [exact (dec_total p H)|contradiction].
Qed.

(* what a successful Decode returns: pieces of exactly 188 bytes, each starting with the sync byte,
   that concatenate to the payload - never more bytes than the packet carried *)
Lemma split_ts_sound {F} (fuel : list F) : forall i pl us, (i + nlen fuel) * tsz = nlen pl ->
  split_ts fuel i pl = DFrame us ->
  concat us = ndrop (i * tsz) pl /\ Forall (fun u => nlen u = tsz /\ nnth 0 u = Some sync) us.
Proof.
  pose proof tsz_pos as Ht.
  induction fuel as [|f fuel IH]; intros i pl us H Hs; cbn [split_ts nlen] in *.
  - injection Hs as <-. cbn [concat]. split; [|constructor]. symmetry. apply ndrop_all. lia.
  - destruct (nnth (i * tsz) pl) as [b|] eqn:Eb; [|discriminate].
    destruct (N.eqb_spec b sync) as [->|]; cbn [negb] in Hs; [|discriminate].
    unfold nsub in Hs. destruct (N.leb_spec (i * tsz) (i * tsz + tsz)); [|lia].
    destruct (N.leb_spec (i * tsz + tsz) (nlen pl)); [|nia]. cbn [andb] in Hs.
    destruct (split_ts fuel (i + 1) pl) as [us'| | |] eqn:Er; try discriminate. injection Hs as <-.
    destruct (IH (i + 1) pl us') as [IH1 IH2]; [lia|assumption|].
    replace (i * tsz + tsz - i * tsz) with tsz by lia. split.
    + cbn [concat]. rewrite IH1. replace ((i + 1) * tsz) with (i * tsz + tsz) by lia.
      rewrite <- (ndrop_ndrop pl tsz (i * tsz)). apply ntake_ndrop.
    + constructor; [|exact IH2]. split; [rewrite nlen_ntake, nlen_ndrop; lia|].
      rewrite <- Eb. rewrite ntake_firstn, ndrop_skipn.
      clear -Ht. remember (skipn (N.to_nat (i * tsz)) pl) as l eqn:El.
      assert (Hn : nnth (i * tsz) pl = nnth 0 l).
      { subst l. rewrite <- ndrop_skipn. rewrite <- (ntake_ndrop (i * tsz) pl) at 1.
        destruct (N.leb_spec (i * tsz) (nlen pl)).
        - rewrite nnth_app_r by (rewrite nlen_ntake; lia). rewrite nlen_ntake. f_equal. lia.
        - rewrite ndrop_all by lia. rewrite app_nil_r. rewrite ntake_all by lia. cbn. apply nnth_ge. lia. }
      rewrite Hn. destruct l as [|x l']; [now rewrite firstn_nil|].
      destruct (N.to_nat tsz) eqn:E; [lia|]. reflexivity.
Qed.

Theorem dec_sound p us : dec p = DFrame us ->
  concat us = ppayload p /\ Forall (fun u => nlen u = tsz /\ nnth 0 u = Some sync) us.
Proof.
  unfold dec. destruct (nlen (ppayload p) =? 0); [discriminate|].
  destruct (N.eqb_spec (nlen (ppayload p) mod tsz) 0) as [Hm|Hm]; cbn [negb]; [|discriminate].
  intros H. apply split_ts_sound in H; [|pose proof (chunks_count_exact _ Hm); lia].
  cbn [N.mul] in H. now rewrite ndrop_0 in H.
Qed.

(* C08: nothing is retained, nothing is written, and a returned group is never larger than the packet *)
Theorem bounded P hist : Forall (fun p => nlen (ppayload p) <= P) hist ->
  let '(d, rs) := dec_run dinit hist in
  retained d = (0, 0) /\ forall us, In (DFrame us) rs -> nlen (concat us) <= P.
Proof.
  induction 1 as [|p t Hp Ht IH]; cbn [dec_run]; [split; [reflexivity|intros us []]|].
  destruct (dec_run dinit t) as [d rs]. destruct IH as [_ IH]. split; [reflexivity|].
  intros us [H|H]; [|now apply IH]. apply dec_sound in H. destruct H as [-> _]. exact Hp.
Qed.

(* ---------- round trip (C03) ---------- *)
Definition valid_ts (u : bytes) : Prop := nlen u = tsz /\ nnth 0 u = Some sync.
Definition valid_frame (units : list bytes) : Prop := units <> [] /\ Forall valid_ts units.

Lemma split_concat {F} post : forall (fuel : list F) pre, nlen fuel = nlen post ->
  Forall sized pre -> Forall valid_ts post ->
  split_ts fuel (nlen pre) (concat pre ++ concat post) = DFrame post.
Proof.
  pose proof tsz_pos as Ht.
  induction post as [|u post IH]; intros fuel pre Hf Hpre Hpost.
  - destruct fuel; [reflexivity|cbn [nlen] in Hf; lia].
  - destruct fuel as [|f fuel]; [cbn [nlen] in Hf; lia|]. cbn [split_ts].
    inversion Hpost as [|? ? [Hu Hs] Hpost']; subst.
    pose proof (nlen_concat_sized pre Hpre) as Hl. cbn [concat].
    rewrite <- Hl. rewrite nnth_app_r by lia. rewrite N.sub_diag.
    rewrite nnth_app_l by lia. rewrite Hs, N.eqb_refl. cbn [negb].
    unfold nsub. destruct (N.leb_spec (nlen (concat pre)) (nlen (concat pre) + tsz)); [|lia].
    destruct (N.leb_spec (nlen (concat pre) + tsz) (nlen (concat pre ++ u ++ concat post))) as [_|Hbad];
      [|rewrite !nlen_app in Hbad; lia]. cbn [andb].
    rewrite ndrop_app_exact. replace (nlen (concat pre) + tsz - nlen (concat pre)) with (nlen u) by lia.
    rewrite ntake_app_exact.
    specialize (IH fuel (pre ++ [u])). rewrite nlen_app in IH. cbn [nlen] in IH.
    replace (N.succ 0) with 1 in IH by lia. rewrite concat_snoc, <- app_assoc in IH.
    rewrite IH; [reflexivity|cbn [nlen] in Hf; lia| |assumption].
    apply Forall_app. split; [assumption|]. constructor; [exact Hu|constructor].
Qed.

Lemma valid_sized us : Forall valid_ts us -> Forall sized us.
Proof. intros H. eapply Forall_impl; [|exact H]. intros u [Hu _]. exact Hu. Qed.

Lemma dec_group seq g : g <> [] -> Forall valid_ts g -> dec (mkPkt seq 0 false (concat g)) = DFrame g.
Proof.
  pose proof tsz_pos as Ht. intros Hne Hv. unfold dec. cbn [ppayload].
  pose proof (nlen_concat_sized g (valid_sized g Hv)) as Hl.
  assert (0 < nlen g) by (destruct g; [contradiction|cbn [nlen]; lia]).
  destruct (N.eqb_spec (nlen (concat g)) 0); [nia|].
  assert (Hmod : nlen (concat g) mod tsz = 0) by (rewrite Hl; apply N.mod_mul; lia).
  rewrite Hmod. cbn [N.eqb negb].
  apply (split_concat g (chunks tsz (concat g)) []); [|constructor|assumption].
  pose proof (chunks_count_exact _ Hmod). nia.
Qed.

Lemma map_dec_pkts_of groups : forall seq, Forall (fun g => g <> [] /\ Forall valid_ts g) groups ->
  map dec (pkts_of seq (map (@concat N) groups)) = map DFrame groups.
Proof.
  induction groups as [|g t IH]; intros seq H; cbn [map pkts_of]; [reflexivity|].
  inversion H as [|? ? [Hne Hv] Ht]; subst. rewrite dec_group, IH by assumption. reflexivity.
Qed.

Lemma dec_run_map ps : snd (dec_run dinit ps) = map dec ps.
Proof. induction ps as [|p t IH]; cbn [dec_run map]; [reflexivity|]. destruct (dec_run dinit t). cbn [snd] in *. now rewrite IH. Qed.

(* For every valid group (1.. TS packets of 188 bytes starting with the sync byte), every limit >= 188
   and every sequence number: each RTP packet decodes on its own to the run of TS packets it carries
   (same bytes, same boundaries), and the runs, in order, are the original group. *)
Theorem roundtrip max seq units : tsz <= max -> seq < 65536 -> valid_frame units ->
  exists ps seq', enc max seq units = Some (ps, seq') /\
    snd (dec_run dinit ps) = map DFrame (chunks (max / tsz) units) /\
    concat (chunks (max / tsz) units) = units /\ ps <> [].
Proof.
  intros Hm Hs [Hne Hv]. pose proof tsz_pos as Ht.
  assert (Hm1 : 0 < max / tsz). { apply N.div_str_pos. lia. }
  destruct (enc_wellformed max seq units Hm Hs (valid_sized _ Hv)) as (ps & He & Hpl & _ & _ & Hn & _).
  exists ps, (seq_add seq (nlen ps)). splits; [exact He| |now apply chunks_concat|].
  - rewrite dec_run_map.
    assert (E : ps = pkts_of seq (map (@concat N) (chunks (max / tsz) units))).
    { unfold enc in He. destruct (max / tsz =? 0); [discriminate|].
      rewrite (mk_pkts_sized (chunks (max / tsz) units) seq) in He; [now injection He as <- _|].
      apply chunks_forall. now apply valid_sized. }
    rewrite E. apply map_dec_pkts_of.
    pose proof (chunks_bounds (max / tsz) units Hm1) as Hb. pose proof (chunks_forall valid_ts (max / tsz) units Hv) as Hg.
    rewrite Forall_forall in *. intros g Hin. specialize (Hb g Hin). specialize (Hg g Hin).
    split; [|exact Hg]. intros ->. cbn [nlen] in Hb. lia.
  - intros ->. cbn [nlen] in Hn. symmetry in Hn. apply N.div_small_iff in Hn; [|lia].
    assert (0 < nlen units) by (destruct units; [contradiction|cbn [nlen]; lia]). lia.
Qed.

(* consecutive groups through one encoder/decoder pair *)
Theorem roundtrip_seq max frames : tsz <= max -> Forall valid_frame frames -> forall seq, seq < 65536 ->
  exists pss, enc_many max seq frames = Some pss /\
    snd (dec_run dinit (concat pss)) = concat (map (fun f => map DFrame (chunks (max / tsz) f)) frames).
Proof.
  intros Hm. induction 1 as [|f t Hf Ht IH]; intros seq Hs; cbn [enc_many].
  - exists []. split; reflexivity.
  - destruct (roundtrip max seq f Hm Hs Hf) as (ps & seq' & He & Hd & _ & _).
    pose proof He as He'. destruct Hf as [_ Hv].
    destruct (enc_wellformed max seq f Hm Hs (valid_sized _ Hv)) as (ps0 & He0 & _).
    rewrite He in He0. injection He0 as <- ->. rewrite He'.
    destruct (IH (seq_add seq (nlen ps)) (seq_add_lt _ _)) as (pss & -> & Hr).
    exists (ps :: pss). split; [reflexivity|]. cbn [concat map]. rewrite dec_run_map in *.
    rewrite map_app. now rewrite Hd, Hr.
Qed.

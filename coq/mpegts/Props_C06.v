(* C06, rtpmpegts — statements only *)
From GVL Require Import NList Chunks Rtp.
From GV_mpegts Require Import Model Proofs.
Open Scope N_scope.

(* For every group of 188-byte units, every limit >= 188, every initial sequence number: Encode does
   not panic; payloads are the concatenations of consecutive runs of max/188 units; each is a non-zero
   multiple of 188 and at most the limit; count = ceil(n/(max/188)); packet i has sequence number
   seq+i mod 2^16; the encoder continues at seq+count.  The marker bit is never set: RFC 2250 section 2
   reserves it for timestamp discontinuities, the format has no frame-completing packet. *)
Theorem C06_mpegts_packets_wellformed : forall max seq units, tsz <= max -> seq < 65536 -> frame_sized units ->
  exists ps, enc max seq units = Some (ps, seq_add seq (nlen ps)) /\
    map ppayload ps = map (@concat N) (chunks (max / tsz) units) /\
    concat (map ppayload ps) = concat units /\
    Forall (fun p => 0 < nlen (ppayload p) /\ nlen (ppayload p) <= max /\ nlen (ppayload p) mod tsz = 0) ps /\
    nlen ps = (nlen units + max / tsz - 1) / (max / tsz) /\
    (forall i p, nnth i ps = Some p -> pseq p = seq_add seq i /\ pmarker p = false /\ pts p = 0).
Proof. exact enc_wellformed. Qed.
Print Assumptions C06_mpegts_packets_wellformed.

Theorem C06_mpegts_gapless_across_calls : forall max frames, tsz <= max -> Forall frame_sized frames ->
  forall seq, seq < 65536 ->
  exists pss, enc_many max seq frames = Some pss /\
    forall i p, nnth i (concat pss) = Some p -> pseq p = seq_add seq i /\ pmarker p = false.
Proof. exact enc_many_gapless. Qed.
Print Assumptions C06_mpegts_gapless_across_calls.

Example C06_mpegts_example :
  option_map (fun pss => map pseq (concat pss)) (enc_many 376 65534 [[nrep 0 188; nrep 1 188; nrep 2 188]; [nrep 3 188]])
    = Some [65534; 65535; 0].
Proof. vm_compute. reflexivity. Qed.

(* ---- the translated kernels (tools/go2coq, spec.d/mpegts.txt; regenerated from the Go source on every run) ----
   rtpmpegts/encoder.go: maxTSPacketsPerRTPPacket := e.PayloadMaxSize / mpegtsPacketSize, rtpPacketCount := n / m with the
   n % m != 0 round-up (m = 0: division panic), the last-packet test, the payload size tsPacketCount*mpegtsPacketSize and
   e.sequenceNumber++ ARE the formulas of Model.enc / mk_pkts: m = max / tsz, None iff m = 0, nlen (chunks m units) packets,
   nlen g * tsz bytes, seq_next. *)
From Coq Require Import ZArith.
From GVL Require Import Chunks.
From GVG Require Import Kern.
From GV_mpegts Require Import BridgeLib Bridge.
Open Scope Z_scope.
Theorem C06_mpegts_kernels_are_the_code : forall (max m : N) (units g : list bytes) (i pc s : N),
  Z.of_N max < i64max -> Z.of_N (nlen units) < i64max -> Z.of_N m < i64max -> Z.of_N (nlen g * tsz) < i64max ->
  (1 <= pc)%N -> Z.of_N pc < i64max ->
  k_mpegts_per_pkt (Z.of_N max) (Z.of_N tsz) = Some (Z.of_N (max / tsz)) /\
  count_code (Z.of_N (nlen units)) (Z.of_N m) = (if (m =? 0)%N then None else Some (Z.of_N (nlen (chunks m units)))) /\
  k_mpegts_last (Z.of_N i) (Z.of_N pc) = (i + 1 =? pc)%N /\
  k_mpegts_size (Z.of_N (nlen g)) (Z.of_N tsz) = Z.of_N (nlen g * tsz) /\
  k_mpegts_seq (Z.of_N s) = Z.of_N (seq_next s).
Proof. exact enc_kernels_are_the_code. Qed.
Print Assumptions C06_mpegts_kernels_are_the_code.

Example C06_mpegts_example_kernels :
  k_mpegts_per_pkt 1316 188 = Some 7 /\ k_mpegts_per_pkt 1315 188 = Some 6 /\ k_mpegts_per_pkt 187 188 = Some 0 /\
  count_code 14 7 = Some 2 /\ count_code 15 7 = Some 3 /\ count_code 15 0 = None /\
  k_mpegts_size 7 188 = 1316 /\ k_mpegts_last 2 3 = true /\ k_mpegts_seq 65535 = 0.
Proof. vm_compute. repeat split. Qed.

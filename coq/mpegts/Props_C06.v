(* C06, rtpmpegts — statements only *)
From GVL Require Import NList Chunks Rtp.
From GV_mpegts Require Import Model Proofs.
Open Scope N_scope.

(* For every group of 188-byte units, every limit >= 188, every initial sequence number: Encode does
   not panic; payloads are the concatenations of consecutive runs of max/188 units; each is a non-zero
   multiple of 188 and at most the limit; count = ceil(n/(max/188)); packet i has sequence number
   seq+i mod 2^16; the encoder continues at seq+count.  The marker bit is never set: RFC 2250 section 2
   reserves it for timestamp discontinuities, the format has no frame-completing packet. *)
Theorem C06_mpegts_packets_wellformed : forall max seq units, tsz <= max -> seq < 65536 -> frame_sized units ->
  exists ps, enc max seq units = Some (ps, seq_add seq (nlen ps)) /\
    map ppayload ps = map (@concat N) (chunks (max / tsz) units) /\
    concat (map ppayload ps) = concat units /\
    Forall (fun p => 0 < nlen (ppayload p) /\ nlen (ppayload p) <= max /\ nlen (ppayload p) mod tsz = 0) ps /\
    nlen ps = (nlen units + max / tsz - 1) / (max / tsz) /\
    (forall i p, nnth i ps = Some p -> pseq p = seq_add seq i /\ pmarker p = false /\ pts p = 0).
Proof. exact enc_wellformed. Qed.
Print Assumptions C06_mpegts_packets_wellformed.

Theorem C06_mpegts_gapless_across_calls : forall max frames, tsz <= max -> Forall frame_sized frames ->
  forall seq, seq < 65536 ->
  exists pss, enc_many max seq frames = Some pss /\
    forall i p, nnth i (concat pss) = Some p -> pseq p = seq_add seq i /\ pmarker p = false.
Proof. exact enc_many_gapless. Qed.
Print Assumptions C06_mpegts_gapless_across_calls.

Example C06_mpegts_example :
  option_map (fun pss => map pseq (concat pss)) (enc_many 376 65534 [[nrep 0 188; nrep 1 188; nrep 2 188]; [nrep 3 188]])
    = Some [65534; 65535; 0].
Proof. vm_compute. reflexivity. Qed.
